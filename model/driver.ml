(* Driver for the extracted model: reads the same case files as the Rust
   harness and prints the same per-operation lines, computed by the Coq
   model (layer C), plus the spec's answer (s=...) and, in decode mode, the
   independent reader's view of bytes produced by the implementation. *)
open Model

(* ---------- conversions ---------- *)
let rec pos_of_int (i : int) : positive =
  if i = 1 then XH else if i land 1 = 0 then XO (pos_of_int (i lsr 1)) else XI (pos_of_int (i lsr 1))
let n_of_int (i : int) : n = if i = 0 then N0 else Npos (pos_of_int i)
let rec int_of_pos (p : positive) : int =
  match p with XH -> 1 | XO q -> 2 * int_of_pos q | XI q -> 2 * int_of_pos q + 1
let int_of_n (x : n) : int = match x with N0 -> 0 | Npos p -> int_of_pos p
let rec nat_of_int (i : int) : nat = if i = 0 then O else S (nat_of_int (i - 1))
let rec int_of_nat (x : nat) : int = match x with O -> 0 | S y -> 1 + int_of_nat y

(* decimal printing of arbitrarily large positives: digits little-endian *)
let dec_double (d : int list) (carry : int) : int list =
  let rec go d c = match d with
    | [] -> if c = 0 then [] else [c]
    | x :: r -> let v = 2 * x + c in (v mod 10) :: go r (v / 10) in
  go d carry
let rec dec_of_pos (p : positive) : int list =
  match p with
  | XH -> [1]
  | XO q -> dec_double (dec_of_pos q) 0
  | XI q -> dec_double (dec_of_pos q) 1
let string_of_digits d = String.concat "" (List.rev_map string_of_int d)
let string_of_n (x : n) = match x with N0 -> "0" | Npos p -> string_of_digits (dec_of_pos p)
let string_of_z (x : z) = match x with
  | Z0 -> "0" | Zpos p -> string_of_digits (dec_of_pos p) | Zneg p -> "-" ^ string_of_digits (dec_of_pos p)

let z_ten = Zpos (pos_of_int 10)
let z_of_string (s : string) : z =
  let neg = String.length s > 0 && s.[0] = '-' in
  let start = if neg then 1 else 0 in
  let acc = ref Z0 in
  for i = start to String.length s - 1 do
    let d = Char.code s.[i] - 48 in
    acc := Z.add (Z.mul !acc z_ten) (if d = 0 then Z0 else Zpos (pos_of_int d))
  done;
  if neg then Z.opp !acc else !acc
let n_of_string s = Z.to_N (z_of_string s)

let hexd = "0123456789abcdef"
let hex_of_bytes (bs : n list) : string =
  let b = Buffer.create 64 in
  List.iter (fun x -> let v = int_of_n x in
              Buffer.add_char b hexd.[v lsr 4]; Buffer.add_char b hexd.[v land 15]) bs;
  Buffer.contents b
let hex_or_dash bs = if bs = [] then "-" else hex_of_bytes bs
let bytes_of_hex (s : string) : n list =
  if s = "-" then [] else
  List.init (String.length s / 2) (fun i -> n_of_int (int_of_string ("0x" ^ String.sub s (2 * i) 2)))

let fnv (bs : n list) : string =
  let h = ref 0xcbf29ce484222325L in
  List.iter (fun x -> h := Int64.mul (Int64.logxor !h (Int64.of_int (int_of_n x))) 0x100000001b3L) bs;
  Printf.sprintf "%016Lx" !h

(* ---------- case files ---------- *)
type case = { id : string; kind : string; header : string list; ops : string list list }

let kv (toks : string list) (key : string) : string option =
  let p = key ^ "=" in
  let pl = String.length p in
  let rec go = function
    | [] -> None
    | t :: r -> if String.length t >= pl && String.sub t 0 pl = p
                then Some (String.sub t pl (String.length t - pl)) else go r in
  go toks
let kvs toks key = match kv toks key with Some s -> s | None -> failwith ("missing " ^ key)
let kvn toks key = int_of_string (kvs toks key)

let full = ref false
let out = Buffer.create 65536
let pr fmt = Printf.bprintf out fmt

let tf b = if b then "T" else "F"
let opt_str tag f o = match o with Some x -> tag ^ f x | None -> "N"

let fty sz sg = { fsz = n_of_int sz; fsigned = sg }
let layout_of (name : string) : layout =
  match name with
  | "u64u64" | "ckey" -> { kty = fty 8 false; vty = fty 8 false }
  | "u32u32" -> { kty = fty 4 false; vty = fty 4 false }
  | "u8u64" -> { kty = fty 1 false; vty = fty 8 false }
  | "u64u8" -> { kty = fty 8 false; vty = fty 1 false }
  | "u16u32" -> { kty = fty 2 false; vty = fty 4 false }
  | "i64u16" -> { kty = fty 8 true; vty = fty 2 false }
  | "u8u8" -> { kty = fty 1 false; vty = fty 1 false }
  | "u16u16" -> { kty = fty 2 false; vty = fty 2 false }
  | "u128u64" -> { kty = fty 16 false; vty = fty 8 false }
  | "f64u64" -> { kty = fty 8 false; vty = fty 8 false }   (* byte layout only: such cases are never tied to the model *)
  | s -> failwith ("layout " ^ s)

let sort_uniq_z (l : z list) : z list =
  let cmp a b = if Z.eqb a b then 0 else if Z.ltb a b then -1 else 1 in
  List.sort_uniq cmp l

(* ---------- AVL ---------- *)
let str_out (o : out) : string =
  match o with
  | RSlot o -> opt_str "S" string_of_n o
  | RVal o -> opt_str "V" string_of_z o
  | RBool b -> tf b
  | RNum x -> "#" ^ string_of_n x
  | RUnit -> "U"
let str_out_spec (o : out) : string =
  match o with RSlot (Some _) -> "S*" | _ -> str_out o

let parse_avl_op (t : string list) : op option =
  match t with
  | ["ins"; k; v] -> Some (OInsert (z_of_string k, z_of_string v))
  | ["rem"; k] -> Some (ORemove (z_of_string k))
  | ["get"; k] -> Some (OGet (z_of_string k))
  | ["gmut"; k; v] -> Some (OGetMut (z_of_string k, z_of_string v))
  | ["gmut0"; k] -> Some (OGetMut0 (z_of_string k))
  | ["has"; k] -> Some (OContains (z_of_string k))
  | ["low"] -> Some OLowest | ["len"] -> Some OLen | ["empty"] -> Some OIsEmpty
  | ["full"] -> Some OIsFull | ["capq"] -> Some OCapacity
  | ["ext"; x] -> Some (OExt (n_of_string x))
  | ["openmut"] -> Some OOpenMut | ["openro"] -> Some OOpenRo
  | _ -> None

let avl_abs (s : st) (uni : z list) : string =
  let l = List.filter_map (fun k ->
      match get s k with
      | Ok ((Some v, _)) -> Some (string_of_z k ^ ":" ^ string_of_z v)
      | Ok ((None, _)) -> None
      | _ -> Some "PANIC") uni in
  if l = [] then "-" else String.concat "," l

let run_avl (c : case) =
  let bits = kvn c.header "bits" in
  let nbits = n_of_int bits in
  let wb = nat_of_int (bits / 8) in
  let layname = kvs c.header "lay" in
  let lay = layout_of layname in
  let s0, sp0 =
    match kv c.header "raw" with
    | Some raw ->
      let bytes = bytes_of_hex raw in
      (match decode wb lay bytes with
       | Some s ->
         (* the reference starts from what the independent reader finds in the raw state, when that state is a
            well-formed search tree (spec=1 in the header asks for it: it costs a walk over all records) *)
         let sp = if kv c.header "spec" = None then None else
             (match decode_doc wb lay bytes with
              | Some d when d.d_wf && d.d_bst && d.d_bal ->
                Some { scap = s.cap; sents = List.map (fun x -> (snd (fst x), snd x)) (d_inorder d.d_tree);
                       snrec = n_of_int (List.length s.nodes) }
              | _ -> None) in
         s, sp
       | None -> failwith "raw bytes do not decode")
    | None ->
      let cap = n_of_int (kvn c.header "cap") and nrec = n_of_int (kvn c.header "nrec") in
      init_c cap nrec, Some { scap = cap; sents = []; snrec = nrec } in
  let lite = kv c.header "lite" <> None in
  let fnv bs = if lite then "-" else fnv bs in
  let encode wb lay s = if lite then [] else encode wb lay s in
  let uni = sort_uniq_z (List.filter_map (fun t ->
      match t with
      | ("ins" | "rem" | "get" | "gmut" | "gmut0" | "has") :: k :: _ -> Some (z_of_string k)
      | _ -> None) c.ops) in
  pr "case %s\n" c.id;
  (* the handle discipline of the harness (Avl/Session.v): in persistent mode a mutable view stays
     open until the buffer is extended or a view is opened anew; in the other modes every operation
     starts without a handle; keep=1: the handle that ran initialize stays in use *)
  let persistent = (match kv c.header "mode" with Some m -> m = "persistent" | None -> true) in
  let keep = (kv c.header "keep" = Some "1") && kv c.header "raw" = None in
  let live = ref (keep && persistent) and slive = ref (keep && persistent) in
  let s = ref s0 and sp = ref sp0 in
  (try
     List.iteri (fun i t ->
         let spec_res o = match !sp with
           | None -> ""
           | Some x ->
             let (x', r) = spec_step_sess { a_st = x; a_live = !slive } o in
             sp := Some x'.a_st; slive := x'.a_live && persistent; " s=" ^ str_out_spec r in
         match t with
         | ["fill"; k0] ->
           let before = avl_abs !s uni in
           let rec go st k count limit =
             if count > limit then Some (st, k, count) else
             match step_c nbits st (OInsert (k, k)) with
             | Ok (((st', RSlot None), _)) -> Some (st', k, count)
             | Ok (((st', _), _)) -> go st' (Z.add k (Zpos XH)) (count + 1) limit
             | _ -> None in
           let opened = match open_mut nbits !s with Ok x -> Some x | _ -> None in
           (match opened with
            | None -> pr "%d r=P\n" i; raise Exit
            | Some so ->
              let limit = int_of_n so.cap + 2 in
              match go so (z_of_string k0) 0 limit with
              | None -> pr "%d r=P\n" i; raise Exit
              | Some (st', k, count) ->
                let after = avl_abs st' uni in
                let refused = match step_c nbits st' (OInsert (Z.add k (Zpos XH), Z0)) with
                  | Ok (((_, RSlot None), _)) -> true | _ -> false in
                let okk = before = after && is_full st' && refused && N.eqb st'.size st'.cap in
                let spec = match !sp with
                  | None -> ""
                  | Some x -> let x = s_claim x in
                    Printf.sprintf " s=#%d:T" (int_of_n x.scap - List.length x.sents) in
                pr "%d r=#%d:%s d=%s abs=%s%s\n" i count (tf okk) (fnv (encode wb lay !s)) (avl_abs !s uni) spec)
         | ["dbg"] ->
           (* Debug formatting of the header: not modelled, must not panic and changes nothing *)
           let bytes = encode wb lay !s in
           pr "%d r=U d=%s abs=%s" i (fnv bytes) (avl_abs !s uni);
           if !full then pr " b=%s" (hex_of_bytes bytes);
           pr "\n"
         | _ ->
           match parse_avl_op t with
           | None -> failwith ("bad avl op " ^ String.concat " " t)
           | Some o ->
             match step_sess nbits { c_st = !s; c_live = !live } o with
             | Ok (((x', r), log)) ->
               let s' = x'.c_st in
               s := s'; live := x'.c_live && persistent;
               let bytes = encode wb lay s' in
               let is_ext = (match o with OExt _ -> true | _ -> false) in
               pr "%d r=%s d=%s" i (str_out r) (fnv bytes);
               if not is_ext then pr " abs=%s" (avl_abs s' uni);
               if layname = "ckey" && log <> [] then
                 pr " cm=%s" (String.concat "," (List.map string_of_z log));
               Buffer.add_string out (spec_res o);
               if !full then pr " b=%s" (hex_of_bytes bytes);
               pr "\n"
             | Panic _ -> pr "%d r=P%s\n" i (spec_res o); raise Exit
             | Fuel -> pr "%d r=FUEL\n" i; raise Exit) c.ops
   with Exit -> ());
  pr "end\n"

(* ---------- hash set ---------- *)
let memo (f : z -> n) : z -> n =
  let tbl = Hashtbl.create 64 in
  fun v -> match Hashtbl.find_opt tbl v with
    | Some h -> h
    | None -> let h = f v in Hashtbl.add tbl v h; h

let hash_fn0 (vty : string) : (z -> n) * fty =
  if String.length vty > 4 && String.sub vty 0 4 = "weak" then
    let m = z_of_string (String.sub vty 4 (String.length vty - 4)) in
    (hash_weak m, fty 8 false)
  else match vty with
    | "u64" -> (hash_int (nat_of_int 8), fty 8 false)
    | "u128" -> (hash_int (nat_of_int 16), fty 16 false)
    | "u32" -> (hash_int (nat_of_int 4), fty 4 false)
    | "u8" -> (hash_int (nat_of_int 1), fty 1 false)
    | s -> failwith ("vty " ^ s)

let hash_fn vty = let (f, t) = hash_fn0 vty in (memo f, t)

let zlist_str (l : z list) = if l = [] then "-" else String.concat "," (List.map string_of_z l)

let str_hout (o : hout) : string =
  match o with
  | HBool b -> tf b | HNum x -> "#" ^ string_of_n x | HList l -> "L" ^ zlist_str l | HUnit -> "U"

let parse_hash_op (t : string list) : hop option =
  match t with
  | ["ins"; v] -> Some (HInsert (z_of_string v))
  | ["rem"; v] -> Some (HRemove (z_of_string v))
  | ["has"; v] -> Some (HContains (z_of_string v))
  | ["size"] -> Some HSize | ["full"] -> Some HIsFull | ["empty"] -> Some HIsEmpty
  | ["capq"] -> Some HCapacity | ["iter"] -> Some HIter | ["reopen"] -> Some HReopen
  | _ -> None

let hash_lite = ref false
let hash_abs hf (s : hst) (uni : z list) : string =
  let mem = List.filter (fun k -> match hcontains hf s k with Ok true -> true | _ -> false) uni in
  let it = if !hash_lite then "~" else match hiter s with Ok l -> zlist_str (zs_sort l) | _ -> "PANIC" in
  zlist_str mem ^ ";" ^ it

let run_hash (c : case) =
  hash_lite := (kv c.header "lite" <> None);
  let vty = kvs c.header "vty" in
  let hf, vt = hash_fn vty in
  let s0, sp0 =
    match kv c.header "raw" with
    | Some raw ->
      (match hdecode vt (bytes_of_hex raw) with
       | Some s -> s, None | None -> failwith "raw bytes do not decode")
    | None ->
      let cap = n_of_int (kvn c.header "cap") and nrec = n_of_int (kvn c.header "nrec") in
      hinit_c cap nrec, Some { hscap = cap; hsmem = [] } in
  let uni = sort_uniq_z (List.filter_map (fun t ->
      match t with ("ins" | "rem" | "has") :: k :: _ -> Some (z_of_string k) | _ -> None) c.ops) in
  pr "case %s\n" c.id;
  let s = ref s0 and sp = ref sp0 in
  (try
     List.iteri (fun i t ->
         match t with
         | ["fill"; k0] ->
           let before = hash_abs hf !s uni in
           let rec go st k count limit =
             if count > limit then Some (st, k, count) else
             match hstep_c hf st (HInsert k) with
             | Ok ((st', HBool false)) -> Some (st', k, count)
             | Ok ((st', _)) -> go st' (Z.add k (Zpos XH)) (count + 1) limit
             | _ -> None in
           (match go !s (z_of_string k0) 0 (int_of_n !s.hcap + 2) with
            | None -> pr "%d r=P\n" i; raise Exit
            | Some (st', k, count) ->
              let after_mem = List.filter (fun k -> match hcontains hf st' k with Ok true -> true | _ -> false) uni in
              let before_mem = List.filter (fun k -> match hcontains hf !s k with Ok true -> true | _ -> false) uni in
              ignore before;
              let refused = match hstep_c hf st' (HInsert (Z.add k (Zpos XH))) with
                | Ok ((_, HBool false)) -> true | _ -> false in
              let okk = before_mem = after_mem && his_full st' && refused && N.eqb st'.hsize st'.hcap in
              let spec = match !sp with
                | None -> ""
                | Some x -> Printf.sprintf " s=#%d:T" (int_of_n x.hscap - List.length x.hsmem) in
              pr "%d r=#%d:%s d=%s abs=%s%s\n" i count (tf okk) (fnv (hencode vt !s)) (hash_abs hf !s uni) spec)
         | _ ->
           match parse_hash_op t with
           | None -> failwith ("bad hash op " ^ String.concat " " t)
           | Some o ->
             let spec_res = match !sp with
               | None -> ""
               | Some x -> let (x', r) = hspec_step x o in sp := Some x'; " s=" ^ str_hout r in
             match hstep_c hf !s o with
             | Ok ((s', r)) ->
               s := s';
               let bytes = hencode vt s' in
               pr "%d r=%s d=%s abs=%s%s" i (str_hout r) (fnv bytes) (hash_abs hf s' uni) spec_res;
               if !full then pr " b=%s" (hex_of_bytes bytes);
               pr "\n"
             | Panic _ -> pr "%d r=P%s\n" i spec_res; raise Exit
             | Fuel -> pr "%d r=FUEL\n" i; raise Exit) c.ops
   with Exit -> ());
  pr "end\n"

(* ---------- array sets ---------- *)
let cty_of (vty : string) : cty =
  match vty with
  | "u8" -> { ckey = fty 1 false; cpay = fty 0 false }
  | "u32" -> { ckey = fty 4 false; cpay = fty 0 false }
  | "u64" -> { ckey = fty 8 false; cpay = fty 0 false }
  | "pair" -> { ckey = fty 4 false; cpay = fty 4 false }
  | s -> failwith ("vty " ^ s)

let cell_str ((k, p) : cell) = string_of_z k ^ "." ^ string_of_z p
let cells_str (l : cell list) = if l = [] then "-" else String.concat "," (List.map cell_str l)
let str_aout (o : aout) : string =
  match o with
  | ABool b -> tf b | ANum x -> "#" ^ string_of_n x
  | ACell o -> opt_str "C" cell_str o | AList l -> "L" ^ cells_str l | AUnit -> "U"

let parse_arr_op (t : string list) : aop option =
  let c k p = (z_of_string k, z_of_string p) in
  match t with
  | ["ins"; k; p] -> Some (AInsert (c k p)) | ["rem"; k; p] -> Some (ARemove (c k p))
  | ["take"; k; p] -> Some (ATake (c k p)) | ["get"; k; p] -> Some (AGet (c k p))
  | ["gmut"; k; p; k2; p2] -> Some (AGetMut (c k p, c k2 p2))
  | ["has"; k; p] -> Some (AContains (c k p))
  | ["len"] -> Some ALen | ["full"] -> Some AIsFull | ["empty"] -> Some AIsEmpty
  | ["deref"] -> Some ADeref | ["ext"; x] -> Some (AExt (n_of_string x))
  | _ -> None

let run_arr (c : case) =
  let p = kvn c.header "p" in
  let pn = n_of_int p and pnat = nat_of_int p in
  let ty = cty_of (kvs c.header "vty") in
  let s0, sp0 =
    match kv c.header "raw" with
    | Some raw ->
      (match adecode pnat ty (bytes_of_hex raw) with
       | Some s ->
         (* the reference starts from the members the raw state denotes when that state is
            well formed (count within the slots, strictly ascending prefix) *)
         let nslots = List.length s.aslots and cnt = int_of_n s.alen in
         let rec asc = function
           | a :: (b :: _ as tl) -> (match cmp_cell a b with Lt0 -> asc tl | _ -> false)
           | _ -> true in
         let rec take k l = if k = 0 then [] else match l with [] -> [] | x :: tl -> x :: take (k - 1) tl in
         let mem = if cnt <= nslots then take cnt s.aslots else [] in
         if cnt <= nslots && asc mem then s, Some { asbound_slots = n_of_int nslots; asmem = mem } else s, None
       | None -> failwith "raw bytes do not decode")
    | None ->
      let slots = n_of_int (kvn c.header "slots") in
      ainit_c [] [] slots, Some { asbound_slots = slots; asmem = [] } in
  pr "case %s\n" c.id;
  let s = ref s0 and sp = ref sp0 in
  (try
     List.iteri (fun i t ->
         if t = ["openmut"] then begin
           (* opening the mutable view writes nothing: the model has no handle *)
           let bytes = aencode pnat ty !s in
           pr "%d r=U d=%s" i (fnv bytes);
           if !full then pr " b=%s" (hex_of_bytes bytes);
           pr "\n"
         end else
         match parse_arr_op t with
         | None -> failwith ("bad arr op " ^ String.concat " " t)
         | Some o ->
           let spec_res = match !sp with
             | None -> ""
             | Some x -> let (x', r) = aspec_step pn x o in sp := Some x'; " s=" ^ str_aout r in
           match astep_chk pn !s o with
           | Ok (((s', r), cnt)) ->
             let s_before = !s in
             s := s';
             let bytes = aencode pnat ty s' in
             let is_ext = (match o with AExt _ -> true | _ -> false) in
             pr "%d r=%s d=%s" i (str_aout r) (fnv bytes);
             if not is_ext then
               pr " abs=%s" (match aderef s' with Ok l -> cells_str l | _ -> "PANIC");
             (match o with
              | AGet _ | AContains _ -> pr " cm=%s" (string_of_n cnt)
              | AGetMut (c, _) ->
                (* get_mut searches with the same binary search: count it on the state before the write *)
                (match aindex s_before c with
                 | Ok ((_, n)) -> pr " cm=%s" (string_of_n n)
                 | _ -> ())
              | _ -> ());
             Buffer.add_string out spec_res;
             if !full then pr " b=%s" (hex_of_bytes bytes);
             pr "\n"
           | Panic _ -> pr "%d r=P%s\n" i spec_res; raise Exit
           | Fuel -> pr "%d r=FUEL\n" i; raise Exit) c.ops
   with Exit -> ());
  pr "end\n"

(* ---------- prefixed strings ---------- *)
let upper_ascii (bs : n list) : n list =
  List.map (fun b -> let v = int_of_n b in if v >= 97 && v <= 122 then n_of_int (v - 32) else b) bs

let rec take k l = if k = 0 then [] else match l with [] -> [] | x :: r -> x :: take (k - 1) r
let rec drop k l = if k = 0 then l else match l with [] -> [] | _ :: r -> drop (k - 1) r

let run_pstr (c : case) =
  let p = kvn c.header "p" in
  let pn = nat_of_int p in
  let size = kvn c.header "size" in
  let buf0 = match kv c.header "init" with
    | Some h -> let b = bytes_of_hex h in b @ List.init (size - List.length b) (fun _ -> N0)
    | None -> List.init size (fun _ -> N0) in
  let buf = ref buf0 and h : pstr option ref = ref None in
  pr "case %s\n" c.id;
  (try
     List.iteri (fun i t ->
         let line r =
           pr "%d r=%s d=%s" i r (fnv !buf);
           if !full then pr " b=%s" (hex_of_bytes !buf);
           pr "\n" in
         match t with
         | ["new"] ->
           h := None;
           (match new0 pn !buf with
            | Ok ((b', Some x)) -> buf := b'; h := Some x; line ("O" ^ string_of_int (int_of_nat x.plen))
            | Ok ((b', None)) -> buf := b'; line "E"
            | _ -> pr "%d r=P\n" i; raise Exit)
         | ["copy"; hx] ->
           (match !h with
            | Some x -> let x' = copy_from_str pn x (bytes_of_hex hx) in
              h := Some x'; buf := x'.pbuf; line "U"
            | None -> line "-")
         | ["copysl"; hx] ->
           (match !h with
            | Some x -> let x' = copy_from_slice pn x (bytes_of_hex hx) in
              h := Some x'; buf := x'.pbuf; line "U"
            | None -> line "-")
         | ["copysl"] ->
           (match !h with
            | Some x -> let x' = copy_from_slice pn x [] in
              h := Some x'; buf := x'.pbuf; line "U"
            | None -> line "-")
         | ["asstr"] ->
           (match !h with
            | Some x -> let pl = payload pn x in
              line ("O" ^ hex_or_dash pl ^ (if utf8_valid pl then "" else "!INVALID"))
            | None -> line "-")
         | ["upper"] ->
           (match !h with
            | Some x ->
              let pl = upper_ascii (payload pn x) in
              let b' = take p x.pbuf @ pl @ drop (p + int_of_nat x.plen) x.pbuf in
              h := Some { pbuf = b'; plen = x.plen }; buf := b'; line "U"
            | None -> line "-")
         | ["size"] ->
           (match !h with
            | Some x -> line ("#" ^ string_of_int (int_of_nat (psize pn x)))
            | None -> line "-")
         | ["ro"] ->
           (match from_bytes pn !buf with
            | Ok (Some x) -> let pl = payload pn x in
              line (Printf.sprintf "O%s%s:%d" (hex_or_dash pl) (if utf8_valid pl then "" else "!INVALID")
                      (int_of_nat (psize pn x)))
            | Ok None -> line "E"
            | _ -> pr "%d r=P\n" i; raise Exit)
         | ["rw"] ->
           h := None;
           (match from_bytes pn !buf with
            | Ok (Some x) -> let pl = payload pn x in
              h := Some x;
              line (Printf.sprintf "O%s:%d" (hex_or_dash pl) (int_of_nat (psize pn x)))
            | Ok None -> line "E"
            | _ -> pr "%d r=P\n" i; raise Exit)
         | ["setbuf"; hx] ->
           h := None;
           let a = bytes_of_hex hx in
           let k = min (List.length a) (List.length !buf) in
           buf := take k a @ drop k !buf; line "U"
         | _ -> failwith ("bad pstr op " ^ String.concat " " t)) c.ops
   with Exit -> ());
  pr "end\n"

(* ---------- PodStr ---------- *)
let run_podstr (c : case) =
  let n = kvn c.header "n" in
  let nn = nat_of_int n in
  let v = ref (List.init n (fun _ -> N0)) in
  pr "case %s\n" c.id;
  (try
     List.iteri (fun i t ->
         let line r =
           pr "%d r=%s d=%s" i r (fnv !v);
           if !full then pr " b=%s" (hex_of_bytes !v);
           pr "\n" in
         match t with
         | ["default"] -> v := List.init n (fun _ -> N0); line "U"
         | [("from" | "fromstring" | "copy" | "copysl"); hx] ->
           v := ps_copy_from_slice nn (bytes_of_hex hx); line "U"
         | ["asstr"] ->
           (match ps_as_str !v with Some s -> line ("O" ^ hex_or_dash s) | None -> line "E")
         | ["asstru"] ->
           (* as_str_unchecked, called only when the text is valid (its safety contract) *)
           (match ps_as_str !v with Some s -> line ("O" ^ hex_or_dash s) | None -> line "-")
         | ["disp"] ->
           (match ps_display !v with Some s -> line ("D" ^ hex_or_dash s) | None -> line "D~")
         | ["load"; hx] ->
           (match ps_load nn (!v @ bytes_of_hex hx) with
            | Ok x -> line (tf (x = !v)) | _ -> pr "%d r=P\n" i; raise Exit)
         | ["load"] ->
           (match ps_load nn !v with
            | Ok x -> line (tf (x = !v)) | _ -> pr "%d r=P\n" i; raise Exit)
         | ["loadshort"] ->
           (match (if n = 0 then Panic PArith else ps_load nn (take (n - 1) !v)) with
            | Ok x -> line ("O" ^ hex_of_bytes x) | _ -> pr "%d r=P\n" i; raise Exit)
         | _ -> failwith ("bad podstr op " ^ String.concat " " t)) c.ops
   with Exit -> ());
  pr "end\n"

(* ---------- pods ---------- *)
let is_some_of (sz : int) (bs : n list) : bool =
  match sz with
  | 0 -> true      (* the zero-sized nullable of the harness always says it is some *)
  | 8 -> not (List.for_all (fun b -> int_of_n b = 255) bs)
  | 2 -> List.exists (fun b -> int_of_n b <> 0) bs && not (List.for_all (fun b -> int_of_n b = 255) bs)
  | _ -> List.exists (fun b -> int_of_n b <> 0) bs

let run_pod (c : case) =
  pr "case %s\n" c.id;
  List.iteri (fun i t ->
      let r = match t with
        | ["bool"; b] -> tf (bool_of_pod (n_of_int (int_of_string b)))
        | ["frombool"; b] -> "#" ^ string_of_n (pod_of_bool (int_of_string b <> 0))
        | ["load"; sz; hx] ->
          (match load (nat_of_int (int_of_string sz)) (bytes_of_hex hx) with
           | Ok x -> "O" ^ hex_of_bytes x | _ -> "P")
        | ["loadoff"; sz; off; hx] ->
          (* alignment is bytemuck's contract, not the model's: a misaligned start is a panic *)
          let szi = int_of_string sz and offi = int_of_string off in
          let al = (match szi with 4 -> 4 | 8 -> 8 | _ -> 1) in
          if offi mod al <> 0 then "P" else
          (match load (nat_of_int szi) (bytes_of_hex hx) with
           | Ok x -> "O" ^ hex_of_bytes x | _ -> "P")
        | ["loadmutnw"; sz; hx] ->
          (match load (nat_of_int (int_of_string sz)) (bytes_of_hex hx) with
           | Ok _ -> "O" ^ hex_or_dash (bytes_of_hex hx) | _ -> "P")
        | ["loadmut"; sz; hx; vx] ->
          (match load_mut_store (nat_of_int (int_of_string sz)) (bytes_of_hex hx) (bytes_of_hex vx) with
           | Ok x -> "O" ^ hex_of_bytes x | _ -> "P")
        | ["opt"; sz; hx] ->
          let sz = int_of_string sz in
          (match load (nat_of_int sz) (bytes_of_hex hx) with
           | Ok x ->
             let s = (match po_value (is_some_of sz) x with Some _ -> true | None -> false) in
             tf s ^ tf s
           | _ -> "P")
        | _ -> failwith ("bad pod op " ^ String.concat " " t) in
      pr "%d r=%s\n" i r) c.ops;
  pr "end\n"

(* ---------- decode mode: the independent reader on implementation bytes ---------- *)
let rec dtree_str (t : dtree) : string =
  match t with
  | DE -> "."
  | DT (l, i, k, v, h, r) ->
    Printf.sprintf "(%s,%s:%s:%s:%s,%s)" (dtree_str l) (string_of_n i) (string_of_z k) (string_of_z v)
      (string_of_n h) (dtree_str r)
let nlist_str (l : n list) = if l = [] then "-" else String.concat "," (List.map string_of_n l)

(* structural well-formedness only (what the property asks of the classification): no slot in two
   classes, ranges, counts.  The reader's own d_wf additionally demands that recycled and never-used
   records are cleared, which the model guarantees but the property does not require. *)
let rec nodup_int (l : int list) = match l with [] -> true | x :: r -> not (List.mem x r) && nodup_int r
let avl_struct_wf (d : doc) : bool =
  match d.d_hdr with
  | [_; size; cap; _; sq] ->
    let live = List.map (fun ((i, _), _) -> int_of_n i) (d_inorder d.d_tree) in
    let free = List.map int_of_n d.d_free in
    let all = live @ free in
    let lseq = if int_of_n sq = 0 then 256 else int_of_n sq in
    nodup_int all && List.for_all (fun i -> 1 <= i && i < lseq) all
    && List.length live = int_of_n size && List.length all = lseq - 1 && lseq <= int_of_n cap + 1
  | _ -> false

let avl_doc_str wb lay (bytes : n list) : string =
  match decode_doc wb lay bytes with
  | None -> "doc=FAIL"
  | Some d ->
    let ents = List.map (fun ((_, k), v) -> string_of_z k ^ ":" ^ string_of_z v) (d_inorder d.d_tree) in
    Printf.sprintf "doc=%s tree=%s free=%s never=%s wf=%s clean=%s bst=%s bal=%s cont=%s lv=%s"
      (nlist_str d.d_hdr) (dtree_str d.d_tree) (nlist_str d.d_free) (nlist_str d.d_never) (tf (avl_struct_wf d)) (tf d.d_wf)
      (tf d.d_bst) (tf d.d_bal)
      (if ents = [] then "-" else String.concat "," ents) (string_of_n (d_levels d.d_tree))

let hash_doc_str vt hf (bytes : n list) : string =
  match hdecode_doc vt hf bytes with
  | None -> "doc=FAIL"
  | Some d ->
    let chains = List.map (fun ch ->
        if ch = [] then "-" else String.concat "," (List.map (fun (s, v) -> string_of_n s ^ ":" ^ string_of_z v) ch))
        d.hd_buckets in
    let members = zs_sort (List.concat_map (fun ch -> List.map snd ch) d.hd_buckets) in
    let swf = (match d.hd_hdr with
        | [size; cap; _; sq] ->
          let live = List.concat_map (fun ch -> List.map (fun (s, _) -> int_of_n s) ch) d.hd_buckets in
          let all = live @ List.map int_of_n d.hd_free in
          let vals = List.concat_map (fun ch -> List.map (fun (_, v) -> string_of_z v) ch) d.hd_buckets in
          nodup_int all && List.for_all (fun i -> 1 <= i && i < int_of_n sq) all
          && List.length live = int_of_n size && List.length all = int_of_n sq - 1 && int_of_n sq <= int_of_n cap + 1
          && List.length (List.sort_uniq compare vals) = List.length vals
          && List.for_all2 (fun b ch -> List.for_all (fun (_, v) ->
                 int_of_n (N.modulo (N.modulo (hf v) (n_of_string "4294967296")) cap) = b) ch)
               (List.init (List.length d.hd_buckets) (fun i -> i)) d.hd_buckets
        | _ -> false) in
    Printf.sprintf "doc=%s chains=%s free=%s never=%s wf=%s clean=%s cont=%s"
      (nlist_str d.hd_hdr) (String.concat "|" chains) (nlist_str d.hd_free) (nlist_str d.hd_never)
      (tf swf) (tf d.hd_wf) (zlist_str members)

let arr_doc_str pnat ty (bytes : n list) : string =
  (* a count that exceeds the number of bytes cannot be a count of cells in this buffer *)
  let p = int_of_nat pnat in
  let rec le_int k l = if k = 0 then 0 else match l with [] -> 0 | b :: tl -> int_of_n b + 256 * le_int (k - 1) tl in
  let cnt0 = if p <= 7 then le_int p bytes else (let hi = le_int 4 (List.filteri (fun i _ -> i >= 4 && i < 8) bytes) in if hi > 0 then max_int else le_int 4 bytes) in
  if cnt0 > List.length bytes then Printf.sprintf "doc=%d wf=F cont=-" cnt0 else
  match adecode_doc pnat ty bytes with
  | None -> "doc=FAIL"
  | Some ((cnt, mem), wf) -> Printf.sprintf "doc=%s wf=%s cont=%s" (string_of_n cnt) (tf wf) (cells_str mem)

(* decode mode input: lines "<kind> <params...> b=<hex>"; output one doc line each *)
let decode_line (line : string) =
  let toks = String.split_on_char ' ' line in
  match toks with
  | "avl" :: rest ->
    let wb = nat_of_int (kvn rest "bits" / 8) and lay = layout_of (kvs rest "lay") in
    pr "%s\n" (avl_doc_str wb lay (bytes_of_hex (kvs rest "b")))
  | "hash" :: rest ->
    let hf, vt = hash_fn (kvs rest "vty") in
    pr "%s\n" (hash_doc_str vt hf (bytes_of_hex (kvs rest "b")))
  | "arr" :: rest ->
    pr "%s\n" (arr_doc_str (nat_of_int (kvn rest "p")) (cty_of (kvs rest "vty")) (bytes_of_hex (kvs rest "b")))
  | _ -> pr "doc=SKIP\n"

(* ---------- --coq mode: the model's answers as Coq goals, to be re-checked by vm_compute ---------- *)
let coq_n x = "(" ^ string_of_n x ^ ")%N"
let coq_z x = "(" ^ string_of_z x ^ ")%Z"
let coq_opt f o = match o with Some x -> "(Some " ^ f x ^ ")" | None -> "None"
let coq_bool b = if b then "true" else "false"
let coq_list f l = "[" ^ String.concat "; " (List.map f l) ^ "]"
let coq_cell (k, p) = "(" ^ coq_z k ^ ", " ^ coq_z p ^ ")"
let coq_res f r = match r with Ok x -> "Ok " ^ f x | Panic _ -> "PANIC" | Fuel -> "FUEL"

let coq_avl_op (o : op) = match o with
  | OInsert (k, v) -> "OInsert " ^ coq_z k ^ " " ^ coq_z v | ORemove k -> "ORemove " ^ coq_z k
  | OGet k -> "OGet " ^ coq_z k | OGetMut (k, v) -> "OGetMut " ^ coq_z k ^ " " ^ coq_z v
  | OGetMut0 k -> "OGetMut0 " ^ coq_z k | OContains k -> "OContains " ^ coq_z k
  | OLowest -> "OLowest" | OLen -> "OLen" | OIsEmpty -> "OIsEmpty" | OIsFull -> "OIsFull"
  | OCapacity -> "OCapacity" | OExt x -> "OExt " ^ coq_n x | OOpenMut -> "OOpenMut" | OOpenRo -> "OOpenRo"
let coq_avl_out (o : out) = match o with
  | RSlot o -> "(RSlot " ^ coq_opt coq_n o ^ ")" | RVal o -> "(RVal " ^ coq_opt coq_z o ^ ")"
  | RBool b -> "(RBool " ^ coq_bool b ^ ")" | RNum x -> "(RNum " ^ coq_n x ^ ")" | RUnit -> "RUnit"
let coq_hash_op (o : hop) = match o with
  | HInsert v -> "HInsert " ^ coq_z v | HRemove v -> "HRemove " ^ coq_z v | HContains v -> "HContains " ^ coq_z v
  | HSize -> "HSize" | HIsFull -> "HIsFull" | HIsEmpty -> "HIsEmpty" | HCapacity -> "HCapacity"
  | HIter -> "HIter" | HReopen -> "HReopen"
let coq_hash_out (o : hout) = match o with
  | HBool b -> "(HBool " ^ coq_bool b ^ ")" | HNum x -> "(HNum " ^ coq_n x ^ ")"
  | HList l -> "(HList " ^ coq_list coq_z l ^ ")" | HUnit -> "HUnit"
let coq_arr_op (o : aop) = match o with
  | AInsert c -> "AInsert " ^ coq_cell c | ARemove c -> "ARemove " ^ coq_cell c | ATake c -> "ATake " ^ coq_cell c
  | AGet c -> "AGet " ^ coq_cell c | AGetMut (c, d) -> "AGetMut " ^ coq_cell c ^ " " ^ coq_cell d
  | AContains c -> "AContains " ^ coq_cell c | ALen -> "ALen" | AIsFull -> "AIsFull" | AIsEmpty -> "AIsEmpty"
  | ADeref -> "ADeref" | AExt x -> "AExt " ^ coq_n x
let coq_arr_out (o : aout) = match o with
  | ABool b -> "(ABool " ^ coq_bool b ^ ")" | ANum x -> "(ANum " ^ coq_n x ^ ")"
  | ACell o -> "(ACell " ^ coq_opt coq_cell o ^ ")" | AList l -> "(AList " ^ coq_list coq_cell l ^ ")" | AUnit -> "AUnit"

let coq_case (c : case) =
  let skip = List.exists (fun t -> match t with "fill" :: _ -> true | _ -> false) c.ops || kv c.header "raw" <> None in
  if not skip then
  match c.kind with
  | "avl" ->
    let bits = n_of_int (kvn c.header "bits") in
    let cap = n_of_int (kvn c.header "cap") and nrec = n_of_int (kvn c.header "nrec") in
    let ops = List.filter_map parse_avl_op c.ops in
    let keep = (kv c.header "keep" = Some "1") in
    let rec run x ops = match ops with
      | [] -> []
      | o :: r -> (match step_sess bits x o with
          | Ok (((x', y), _)) -> ("Ok " ^ coq_avl_out y) :: run x' r
          | Panic _ -> ["PANIC"] | Fuel -> ["FUEL"]) in
    let res = run (init_sess cap nrec keep) ops in
    if not (List.mem "PANIC" res || List.mem "FUEL" res) then
      pr "Goal Avl.Session.run_sess %s (Avl.Session.init_sess %s %s %s) [%s] = [%s]. Proof. vm_compute. reflexivity. Qed.\n"
        (coq_n bits) (coq_n cap) (coq_n nrec) (coq_bool keep) (String.concat "; " (List.map coq_avl_op ops)) (String.concat "; " res)
  | "hash" ->
    let vty = kvs c.header "vty" in
    let hf, _ = hash_fn vty in
    let hfs = if String.length vty > 4 && String.sub vty 0 4 = "weak"
      then "(hash_weak " ^ coq_z (z_of_string (String.sub vty 4 (String.length vty - 4))) ^ ")"
      else "(hash_int " ^ (match vty with "u64" -> "8" | "u32" -> "4" | "u128" -> "16" | _ -> "1") ^ "%nat)" in
    let cap = n_of_int (kvn c.header "cap") and nrec = n_of_int (kvn c.header "nrec") in
    let ops = List.filter_map parse_hash_op c.ops in
    let rec run s ops = match ops with
      | [] -> []
      | o :: r -> (match hstep_c hf s o with
          | Ok ((s', x)) -> ("Ok " ^ coq_hash_out x) :: run s' r
          | Panic _ -> ["PANIC"] | Fuel -> ["FUEL"]) in
    let res = run (hinit_c cap nrec) ops in
    if not (List.mem "PANIC" res || List.mem "FUEL" res) then
      pr "Goal Hash.Spec.hrun_c %s (Hash.Spec.hinit_c %s %s) [%s] = [%s]. Proof. vm_compute. reflexivity. Qed.\n"
        hfs (coq_n cap) (coq_n nrec) (String.concat "; " (List.map coq_hash_op ops)) (String.concat "; " res)
  | "arr" ->
    let p = n_of_int (kvn c.header "p") in
    let slots = n_of_int (kvn c.header "slots") in
    let ops = List.filter_map parse_arr_op c.ops in
    let rec run s ops = match ops with
      | [] -> []
      | o :: r -> (match astep_chk p s o with
          | Ok (((s', x), _)) -> ("Ok " ^ coq_arr_out x) :: run s' r
          | Panic _ -> ["PANIC"] | Fuel -> ["FUEL"]) in
    let res = run (ainit_c [] [] slots) ops in
    if not (List.mem "PANIC" res || List.mem "FUEL" res) then
      pr "Goal Arr.Checked.arun_chk %s (Arr.Spec.ainit_c [] [] %s) [%s] = [%s]. Proof. vm_compute. reflexivity. Qed.\n"
        (coq_n p) (coq_n slots) (String.concat "; " (List.map coq_arr_op ops)) (String.concat "; " res)
  | _ -> ()

(* ---------- main ---------- *)
let flush_out () = print_string (Buffer.contents out); Buffer.clear out

let coq_mode = ref false
let run_case (c : case) =
  if !coq_mode then coq_case c else
  (match c.kind with
   | "avl" -> run_avl c | "hash" -> run_hash c | "arr" -> run_arr c
   | "pstr" -> run_pstr c | "podstr" -> run_podstr c | "pod" -> run_pod c
   | k -> failwith ("kind " ^ k));
  if Buffer.length out > 1_000_000 then flush_out ()

let () =
  let mode = ref "run" and path = ref "" in
  Array.iteri (fun i a -> if i > 0 then
                  match a with
                  | "--full" -> full := true
                  | "--coq" -> coq_mode := true
                  | "--decode" -> mode := "decode"
                  | p -> path := p) Sys.argv;
  let ic = if !path = "" then stdin else open_in !path in
  let cur = ref None in
  (try
     while true do
       let line = input_line ic in
       if !mode = "decode" then begin
         (* bytes that are not a collection at all (e.g. a count far beyond the buffer) must not take the
            reader down: such a line is reported as unreadable *)
         (try decode_line line with Stack_overflow | Failure _ | Not_found | Invalid_argument _ | Out_of_memory -> pr "doc=FAIL\n");
         if Buffer.length out > 1_000_000 then flush_out ()
       end else begin
         let toks = List.filter (fun s -> s <> "") (String.split_on_char ' ' (String.trim line)) in
         match toks with
         | [] -> ()
         | t :: _ when String.length t > 0 && t.[0] = '#' -> ()
         | "case" :: id :: kind :: header -> cur := Some { id; kind; header; ops = [] }
         | ["end"] ->
           (match !cur with
            | Some c -> run_case { c with ops = List.rev c.ops }; cur := None
            | None -> ())
         | _ ->
           (match !cur with
            | Some c -> cur := Some { c with ops = toks :: c.ops }
            | None -> ())
       end
     done
   with End_of_file -> ());
  flush_out ()
