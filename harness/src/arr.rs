//! Array set runner: four prefix widths, several value types.
use crate::util::*;
use crate::Case;
use std::cmp::Ordering;
use stevia::collections::*;

pub trait ArrVal: bytemuck::Pod + Default + Copy + Ord {
    fn mk(k: i128, p: i128) -> Self;
    fn kp(self) -> (i128, i128);
}

/// Scalar wrapper whose comparisons are counted.
#[repr(transparent)]
#[derive(Clone, Copy, Default)]
pub struct Cnt<T>(pub T);
unsafe impl<T: bytemuck::Pod> bytemuck::Zeroable for Cnt<T> {}
unsafe impl<T: bytemuck::Pod> bytemuck::Pod for Cnt<T> {}
impl<T: Ord + Scalar> PartialEq for Cnt<T> {
    fn eq(&self, o: &Self) -> bool {
        // an equality test is an element comparison too
        CMP_COUNT.with(|c| *c.borrow_mut() += 1);
        CMP_LOG.with(|l| l.borrow_mut().extend([self.0.to_i(), o.0.to_i()]));
        self.0 == o.0
    }
}
impl<T: Ord + Scalar> Eq for Cnt<T> {}
impl<T: Ord + Scalar> PartialOrd for Cnt<T> {
    fn partial_cmp(&self, o: &Self) -> Option<Ordering> {
        Some(self.cmp(o))
    }
}
impl<T: Ord + Scalar> Ord for Cnt<T> {
    fn cmp(&self, o: &Self) -> Ordering {
        CMP_COUNT.with(|c| *c.borrow_mut() += 1);
        CMP_LOG.with(|l| l.borrow_mut().extend([self.0.to_i(), o.0.to_i()]));
        self.0.cmp(&o.0)
    }
}
impl<T: Scalar + Ord> ArrVal for Cnt<T> {
    fn mk(k: i128, _p: i128) -> Self {
        Cnt(T::from_i(k))
    }
    fn kp(self) -> (i128, i128) {
        (self.0.to_i(), 0)
    }
}

/// A value whose ordering ignores part of it.
#[repr(C)]
#[derive(Clone, Copy, Default)]
pub struct Pair {
    pub a: u32,
    pub b: u32,
}
unsafe impl bytemuck::Zeroable for Pair {}
unsafe impl bytemuck::Pod for Pair {}
impl PartialEq for Pair {
    fn eq(&self, o: &Self) -> bool {
        CMP_COUNT.with(|c| *c.borrow_mut() += 1);
        CMP_LOG.with(|l| l.borrow_mut().extend([self.a as i128, o.a as i128]));
        self.a == o.a
    }
}
impl Eq for Pair {}
impl PartialOrd for Pair {
    fn partial_cmp(&self, o: &Self) -> Option<Ordering> {
        Some(self.cmp(o))
    }
}
impl Ord for Pair {
    fn cmp(&self, o: &Self) -> Ordering {
        CMP_COUNT.with(|c| *c.borrow_mut() += 1);
        CMP_LOG.with(|l| l.borrow_mut().extend([self.a as i128, o.a as i128]));
        self.a.cmp(&o.a)
    }
}
impl ArrVal for Pair {
    fn mk(k: i128, p: i128) -> Self {
        Pair { a: k as u32, b: p as u32 }
    }
    fn kp(self) -> (i128, i128) {
        (self.a as i128, self.b as i128)
    }
}

/// clears the comparison log and returns the number of calls
fn tc() -> u64 {
    take_log();
    take_count()
}

/// the number of distinct ELEMENTS the probe value was compared with (C06 bounds elements, not calls)
fn elems_compared(probe: i128) -> u64 {
    let log = take_log();
    let mut set = std::collections::BTreeSet::new();
    let mut self_hit = false;
    for pr in log.chunks(2) {
        if pr.len() < 2 {
            continue;
        }
        if pr[0] == probe && pr[1] == probe {
            self_hit = true;
        } else {
            if pr[0] != probe {
                set.insert(pr[0]);
            }
            if pr[1] != probe {
                set.insert(pr[1]);
            }
        }
    }
    set.len() as u64 + self_hit as u64
}

fn cellstr(kp: (i128, i128)) -> String {
    format!("{}.{}", kp.0, kp.1)
}

macro_rules! arr_runner {
    ($fname:ident, $Mut:ident, $Ro:ident, $pt:ty) => {
        pub fn $fname<V: ArrVal>(case: &Case, full: bool, fill: u8, out: &mut String) {
            let toks: Vec<&str> = case.header.iter().map(|s| s.as_str()).collect();
            let mode = kv(&toks, "mode").unwrap_or("persistent".into());
            let guard = kv(&toks, "guard").map(|g| g.parse().unwrap()).unwrap_or(32usize);
            let psz = std::mem::size_of::<$pt>();
            let vsz = std::mem::size_of::<V>();
            let pal = std::mem::align_of::<$pt>();
            let val = std::mem::align_of::<V>();
            let okp = move |a: usize| a % pal == 0 && (a + psz) % val == 0;
            let mut phase = 0usize;
            let mut buf;
            if let Some(raw) = kv(&toks, "raw") {
                let bytes = unhex(&raw);
                buf = Buf::new(bytes.len(), guard, fill, phase, &okp);
                buf.bytes_mut().copy_from_slice(&bytes);
            } else {
                let slots = kvn(&toks, "slots");
                buf = Buf::new(psz + slots * vsz, guard, fill, phase, &okp);
            }
            macro_rules! abs_of {
                ($t:expr) => {{
                    let l: Vec<String> = $t.iter().map(|v| cellstr(v.kp())).collect();
                    if l.is_empty() {
                        "-".to_string()
                    } else {
                        l.join(",")
                    }
                }};
            }
            let mut h: Option<$Mut<'static, V>> = None;
            out.push_str(&format!("case {}\n", case.id));
            for (i, op) in case.ops.iter().enumerate() {
                tick();
                tc();
                let name = op[0].as_str();
                let a: Vec<i128> = op[1..].iter().map(|s| int(s)).collect();
                if name == "ext" {
                    h = None;
                    phase ^= 1;
                    buf = buf.moved(a[0] as usize * vsz, phase, &okp);
                    out.push_str(&format!("{} r=U d={:016x}", i, fnv(buf.bytes())));
                    if full {
                        out.push_str(&format!(" b={}", hex(buf.bytes())));
                    }
                    out.push('\n');
                    continue;
                }
                if name == "openmut" {
                    // drop the handle, open the mutable view and drop it again: must not write
                    h = None;
                    let r = guarded(|| {
                        let _t = $Mut::<V>::from_bytes_mut(unsafe { buf.static_mut() });
                    });
                    out.push_str(&format!("{} r={} d={:016x}", i, if r.is_some() { "U" } else { "P" }, fnv(buf.bytes())));
                    if !buf.guards_intact() {
                        out.push_str(" g=BAD");
                    }
                    if full {
                        out.push_str(&format!(" b={}", hex(buf.bytes())));
                    }
                    out.push('\n');
                    if r.is_none() {
                        break;
                    }
                    continue;
                }
                let is_mut = matches!(name, "ins" | "rem" | "take" | "gmut");
                let r: Option<(String, u64, u64)> = guarded(|| {
                    let res;
                    let cnt;
                    let mut elems = 0u64;
                    if is_mut {
                        if h.is_none() {
                            h = Some($Mut::<V>::from_bytes_mut(unsafe { buf.static_mut() }));
                        }
                        let t = h.as_mut().unwrap();
                        tc();
                        res = match name {
                            "ins" => (if t.insert(V::mk(a[0], a[1])) { "T" } else { "F" }).to_string(),
                            "rem" => (if t.remove(&V::mk(a[0], a[1])) { "T" } else { "F" }).to_string(),
                            "take" => match t.take(&V::mk(a[0], a[1])) {
                                Some(v) => format!("C{}", cellstr(v.kp())),
                                None => "N".to_string(),
                            },
                            "gmut" => match t.get_mut(&V::mk(a[0], a[1])) {
                                Some(r) => {
                                    let old = *r;
                                    *r = V::mk(a[2], a[3]);
                                    format!("C{}", cellstr(old.kp()))
                                }
                                None => "N".to_string(),
                            },
                            _ => unreachable!(),
                        };
                        if name == "gmut" {
                            elems = elems_compared(a.first().copied().unwrap_or(0));
                        }
                        cnt = if name == "gmut" { take_count() } else { 0 };
                        tc();
                    } else {
                        macro_rules! query {
                            ($t:expr) => {{
                                tc();
                                match name {
                                    "get" => match $t.get(&V::mk(a[0], a[1])) {
                                        Some(v) => format!("C{}", cellstr(v.kp())),
                                        None => "N".to_string(),
                                    },
                                    "has" => (if $t.contains(&V::mk(a[0], a[1])) { "T" } else { "F" }).to_string(),
                                    "len" => format!("#{}", $t.len()),
                                    "empty" => (if $t.is_empty() { "T" } else { "F" }).to_string(),
                                    "full" => (if $t.is_full() { "T" } else { "F" }).to_string(),
                                    "deref" => format!("L{}", abs_of!($t)),
                                    other => panic!("unknown op {}", other),
                                }
                            }};
                        }
                        res = if let Some(t) = h.as_ref() {
                            query!(t)
                        } else {
                            let t = $Ro::<V>::from_bytes(unsafe { buf.static_ref() });
                            query!(t)
                        };
                        elems = elems_compared(a.first().copied().unwrap_or(0));
                        cnt = take_count();
                    }
                    (res, cnt, elems)
                });
                match r {
                    None => {
                        out.push_str(&format!("{} r=P{}\n", i, if buf.guards_intact() { "" } else { " g=BAD" }));
                        break;
                    }
                    Some((res, cnt, elems)) => {
                        if mode != "persistent" {
                            h = None;
                        }
                        if mode == "relocate" {
                            phase ^= 1;
                            buf = buf.moved(0, phase, &okp);
                        }
                        let abs = guarded(|| {
                            if let Some(t) = h.as_ref() {
                                abs_of!(t)
                            } else {
                                let t = $Ro::<V>::from_bytes(unsafe { buf.static_ref() });
                                abs_of!(t)
                            }
                        })
                        .unwrap_or("PANIC".to_string());
                        out.push_str(&format!("{} r={} d={:016x} abs={}", i, res, fnv(buf.bytes()), abs));
                        if name == "get" || name == "has" || name == "gmut" {
                            out.push_str(&format!(" cm={} cl={}", cnt, elems));
                        }
                        if !buf.guards_intact() {
                            out.push_str(" g=BAD");
                        }
                        if full {
                            out.push_str(&format!(" b={}", hex(buf.bytes())));
                        }
                        out.push('\n');
                    }
                }
            }
            out.push_str("end\n");
        }
    };
}

arr_runner!(run_p1, U8ArraySetMut, U8ArraySet, u8);
arr_runner!(run_p2, U16ArraySetMut, U16ArraySet, u16);
arr_runner!(run_p4, U32ArraySetMut, U32ArraySet, u32);
arr_runner!(run_p8, U64ArraySetMut, U64ArraySet, u64);

pub fn run(case: &Case, full: bool, fill: u8, out: &mut String) {
    let toks: Vec<&str> = case.header.iter().map(|s| s.as_str()).collect();
    let p = kvn(&toks, "p");
    let vty = kv(&toks, "vty").unwrap();
    macro_rules! go {
        ($V:ty) => {
            match p {
                1 => run_p1::<$V>(case, full, fill, out),
                2 => run_p2::<$V>(case, full, fill, out),
                4 => run_p4::<$V>(case, full, fill, out),
                8 => run_p8::<$V>(case, full, fill, out),
                _ => panic!("bad prefix width"),
            }
        };
    }
    match vty.as_str() {
        "u8" => go!(Cnt<u8>),
        "u32" => go!(Cnt<u32>),
        "u64" => go!(Cnt<u64>),
        "pair" => go!(Pair),
        other => panic!("unknown vty {}", other),
    }
}
