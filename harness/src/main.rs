//! Correspondence harness: executes case files against the real stevia crate
//! (path dependency on /repo) and prints one line per operation.
mod arr;
mod avl;
mod hash;
mod pods;
mod strs;
mod util;

use std::io::{BufRead, Write};
use std::sync::atomic::Ordering;

pub struct Case {
    pub id: String,
    pub kind: String,
    pub header: Vec<String>,
    pub ops: Vec<Vec<String>>,
}

fn main() {
    let args: Vec<String> = std::env::args().collect();
    let mut full = false;
    let mut fill = 0xA5u8;
    let mut path = None;
    let mut hang_ticks = 40u32; // x 500 ms
    let mut i = 1;
    while i < args.len() {
        match args[i].as_str() {
            "--full" => full = true,
            "--fill" => {
                i += 1;
                fill = u8::from_str_radix(&args[i], 16).unwrap();
            }
            "--hang" => {
                // seconds without progress after which an operation counts as an endless loop
                i += 1;
                hang_ticks = args[i].parse::<u32>().unwrap() * 2;
            }
            p => path = Some(p.to_string()),
        }
        i += 1;
    }
    std::panic::set_hook(Box::new(|_| {}));
    // watchdog: an operation that does not return within 20 s is an endless loop
    std::thread::spawn(move || {
        let mut last = util::PROGRESS.load(Ordering::Relaxed);
        let mut stale = 0;
        loop {
            std::thread::sleep(std::time::Duration::from_millis(500));
            let now = util::PROGRESS.load(Ordering::Relaxed);
            if now == last {
                stale += 1;
                if stale >= hang_ticks {
                    // stdout is locked by the main thread: report through the exit status only
                    // (the case being run was announced with a flushed "begin <id>" line)
                    eprintln!("HANG");
                    std::process::exit(3);
                }
            } else {
                stale = 0;
                last = now;
            }
        }
    });
    let reader: Box<dyn BufRead> = match path {
        Some(p) => Box::new(std::io::BufReader::new(std::fs::File::open(p).unwrap())),
        None => Box::new(std::io::BufReader::new(std::io::stdin())),
    };
    let stdout = std::io::stdout();
    let mut w = std::io::BufWriter::new(stdout.lock());
    let mut cur: Option<Case> = None;
    for line in reader.lines() {
        let line = line.unwrap();
        let toks: Vec<String> = line.split_whitespace().map(|s| s.to_string()).collect();
        if toks.is_empty() || toks[0].starts_with('#') {
            continue;
        }
        if toks[0] == "case" {
            cur = Some(Case { id: toks[1].clone(), kind: toks[2].clone(), header: toks[3..].to_vec(), ops: vec![] });
        } else if toks[0] == "end" {
            let c = cur.take().unwrap();
            let mut out = String::new();
            // announce the case before running it, so that a hang is attributable
            writeln!(w, "begin {}", c.id).unwrap();
            w.flush().unwrap();
            match c.kind.as_str() {
                "avl" => avl::run(&c, full, fill, &mut out),
                "hash" => hash::run(&c, full, fill, &mut out),
                "arr" => arr::run(&c, full, fill, &mut out),
                "pstr" => strs::run_pstr(&c, full, fill, &mut out),
                "podstr" => strs::run_podstr(&c, full, fill, &mut out),
                "pod" => pods::run(&c, full, fill, &mut out),
                k => panic!("unknown kind {}", k),
            }
            w.write_all(out.as_bytes()).unwrap();
            util::tick();
        } else if let Some(c) = cur.as_mut() {
            c.ops.push(toks);
        }
    }
    w.flush().unwrap();
}
