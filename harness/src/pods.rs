//! PodBool, PodOption and ZeroCopy::load / load_mut.
use crate::util::*;
use crate::Case;
use bytemuck::{bytes_of, Pod, Zeroable};
use stevia::pod::{Nullable, PodBool, PodOption, PodStr};
use stevia::ZeroCopy;

macro_rules! nullable {
    ($name:ident, $inner:ty, $none:expr) => {
        #[repr(transparent)]
        #[derive(Clone, Copy, PartialEq, Debug)]
        pub struct $name(pub $inner);
        unsafe impl Zeroable for $name {}
        unsafe impl Pod for $name {}
        impl Nullable for $name {
            fn is_some(&self) -> bool {
                self.0 != $none
            }
            fn is_none(&self) -> bool {
                self.0 == $none
            }
        }
    };
}
nullable!(N1, u8, 0u8);
nullable!(N4, u32, 0u32);
nullable!(N8, u64, u64::MAX);
nullable!(N32, [u8; 32], [0u8; 32]);

/// A nullable whose `is_none` is NOT the negation of `is_some`: 0 is none, u16::MAX is a
/// tombstone (neither some nor none), everything else is some.
#[repr(transparent)]
#[derive(Clone, Copy, PartialEq, Debug)]
pub struct N2(pub u16);
unsafe impl Zeroable for N2 {}
unsafe impl Pod for N2 {}
impl Nullable for N2 {
    fn is_some(&self) -> bool {
        self.0 != 0 && self.0 != u16::MAX
    }
    fn is_none(&self) -> bool {
        self.0 == 0
    }
}

/// A zero-sized nullable that always reports itself as some (the option occupies no bytes).
#[repr(transparent)]
#[derive(Clone, Copy, PartialEq, Debug)]
pub struct N0(pub [u8; 0]);
unsafe impl Zeroable for N0 {}
unsafe impl Pod for N0 {}
impl Nullable for N0 {
    fn is_some(&self) -> bool {
        true
    }
    fn is_none(&self) -> bool {
        false
    }
}

fn tf(b: bool) -> String {
    (if b { "T" } else { "F" }).to_string()
}

fn opt_case<T: Nullable + PartialEq + std::fmt::Debug>(bytes: &[u8]) -> String {
    let sz = std::mem::size_of::<T>();
    let mut own = bytes.to_vec();
    let inner: T = *bytemuck::from_bytes::<T>(&bytes[..sz]);
    let expect_some = inner.is_some();
    let size_ok = std::mem::size_of::<PodOption<T>>() == sz
        && std::mem::align_of::<PodOption<T>>() == std::mem::align_of::<T>();
    let wrapped = PodOption::new(inner);
    let bytes_ok = bytes_of(&wrapped) == bytes_of(&inner);
    let v = PodOption::<T>::load(bytes);
    let some = v.value().is_some();
    let val_ok = match v.value() {
        Some(x) => *x == inner,
        None => true,
    };
    let vm = PodOption::<T>::load_mut(&mut own);
    let some_mut = vm.value_mut().is_some();
    format!(
        "{}{}{}",
        tf(some),
        tf(some_mut),
        if size_ok && bytes_ok && val_ok && (some == expect_some) { "" } else { "!BAD" }
    )
}

fn load_case<T: ZeroCopy>(bytes: &[u8]) -> String {
    let v = T::load(bytes);
    format!("O{}", hex(bytes_of(v)))
}
fn loadmut_case<T: ZeroCopy>(bytes: &[u8], val: &[u8]) -> String {
    let mut own = bytes.to_vec();
    {
        let v = T::load_mut(&mut own);
        let vb = bytemuck::bytes_of_mut(v);
        vb.copy_from_slice(val);
    }
    format!("O{}", hex(&own))
}

pub fn run(case: &Case, _full: bool, _fill: u8, out: &mut String) {
    out.push_str(&format!("case {}\n", case.id));
    for (i, op) in case.ops.iter().enumerate() {
        tick();
        let name = op[0].as_str();
        let r: Option<String> = guarded(|| match name {
            "bool" => {
                let b = [int(&op[1]) as u8];
                let p = PodBool::load(&b);
                let x: bool = p.into();
                let y: bool = (*p).into();
                format!("{}{}", tf(x), if x == y { "" } else { "!BAD" })
            }
            "frombool" => {
                let b = int(&op[1]) != 0;
                let p = PodBool::from(b);
                let q = PodBool::from(&b);
                let back: bool = p.into();
                format!(
                    "#{}{}",
                    bytes_of(&p)[0],
                    if bytes_of(&q) == bytes_of(&p) && back == b && std::mem::size_of::<PodBool>() == 1 {
                        ""
                    } else {
                        "!BAD"
                    }
                )
            }
            "load" => {
                let sz = int(&op[1]);
                let bytes = unhex(&op[2]);
                match sz {
                    0 => load_case::<PodStr<0>>(&bytes),
                    1 => load_case::<PodBool>(&bytes),
                    4 => load_case::<PodOption<N4>>(&bytes),
                    8 => load_case::<PodOption<N8>>(&bytes),
                    10 => load_case::<PodStr<10>>(&bytes),
                    32 => load_case::<PodOption<N32>>(&bytes),
                    _ => panic!("bad size"),
                }
            }
            "loadoff" => {
                // load from a slice that starts `off` bytes into an 8-aligned buffer
                let sz = int(&op[1]);
                let off = int(&op[2]) as usize;
                let bytes = unhex(&op[3]);
                let mut backing = vec![0u64; (off + bytes.len()) / 8 + 2];
                let all: &mut [u8] = bytemuck::cast_slice_mut(&mut backing);
                all[off..off + bytes.len()].copy_from_slice(&bytes);
                let view = &all[off..off + bytes.len()];
                match sz {
                    0 => load_case::<PodStr<0>>(view),
                    1 => load_case::<PodBool>(view),
                    4 => load_case::<PodOption<N4>>(view),
                    8 => load_case::<PodOption<N8>>(view),
                    10 => load_case::<PodStr<10>>(view),
                    32 => load_case::<PodOption<N32>>(view),
                    _ => panic!("bad size"),
                }
            }
            "loadmutnw" => {
                // load_mut without any write through the view: the buffer must stay as it was
                let sz = int(&op[1]);
                let bytes = unhex(&op[2]);
                let mut own = bytes.clone();
                match sz {
                    0 => { let _ = PodStr::<0>::load_mut(&mut own); }
                    1 => { let _ = PodBool::load_mut(&mut own); }
                    4 => { let _ = PodOption::<N4>::load_mut(&mut own); }
                    8 => { let _ = PodOption::<N8>::load_mut(&mut own); }
                    10 => { let _ = PodStr::<10>::load_mut(&mut own); }
                    32 => { let _ = PodOption::<N32>::load_mut(&mut own); }
                    _ => panic!("bad size"),
                }
                format!("O{}", if own.is_empty() { "-".to_string() } else { hex(&own) })
            }
            "loadmut" => {
                let sz = int(&op[1]);
                let bytes = unhex(&op[2]);
                let val = unhex(&op[3]);
                match sz {
                    0 => loadmut_case::<PodStr<0>>(&bytes, &val),
                    1 => loadmut_case::<PodBool>(&bytes, &val),
                    4 => loadmut_case::<PodOption<N4>>(&bytes, &val),
                    8 => loadmut_case::<PodOption<N8>>(&bytes, &val),
                    10 => loadmut_case::<PodStr<10>>(&bytes, &val),
                    32 => loadmut_case::<PodOption<N32>>(&bytes, &val),
                    _ => panic!("bad size"),
                }
            }
            "opt" => {
                let sz = int(&op[1]);
                let bytes = unhex(&op[2]);
                match sz {
                    0 => opt_case::<N0>(&bytes),
                    1 => opt_case::<N1>(&bytes),
                    2 => opt_case::<N2>(&bytes),
                    4 => opt_case::<N4>(&bytes),
                    8 => opt_case::<N8>(&bytes),
                    32 => opt_case::<N32>(&bytes),
                    _ => panic!("bad size"),
                }
            }
            other => panic!("unknown op {}", other),
        });
        match r {
            None => {
                // a panic ends only this operation: pod cases are stateless
                out.push_str(&format!("{} r=P\n", i));
            }
            Some(res) => out.push_str(&format!("{} r={}\n", i, res)),
        }
    }
    out.push_str("end\n");
}
