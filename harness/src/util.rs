//! Buffers with guard regions, digests, scalar conversions, panic capture.
use std::cell::RefCell;
use std::panic::{catch_unwind, AssertUnwindSafe};
use std::sync::atomic::{AtomicU64, Ordering};

pub static PROGRESS: AtomicU64 = AtomicU64::new(0);
pub fn tick() {
    PROGRESS.fetch_add(1, Ordering::Relaxed);
}

pub fn fnv(bytes: &[u8]) -> u64 {
    let mut h: u64 = 0xcbf29ce484222325;
    for b in bytes {
        h ^= *b as u64;
        h = h.wrapping_mul(0x100000001b3);
    }
    h
}

pub fn hex(bytes: &[u8]) -> String {
    let mut s = String::with_capacity(bytes.len() * 2);
    for b in bytes {
        s.push_str(&format!("{:02x}", b));
    }
    s
}

pub fn unhex(s: &str) -> Vec<u8> {
    if s == "-" {
        return vec![];
    }
    (0..s.len() / 2)
        .map(|i| u8::from_str_radix(&s[2 * i..2 * i + 2], 16).unwrap())
        .collect()
}

/// Run a closure, mapping a panic to None.
pub fn guarded<R>(f: impl FnOnce() -> R) -> Option<R> {
    catch_unwind(AssertUnwindSafe(f)).ok()
}

/// A byte buffer embedded in a larger allocation, with `guard` bytes of a
/// fill pattern on both sides and a caller-chosen placement constraint.
pub struct Buf {
    raw: Vec<u8>,
    pub off: usize,
    pub len: usize,
    pub guard: usize,
    pub fill: u8,
}

impl Buf {
    /// `ok(addr)` decides whether the buffer may start at `addr`; `phase`
    /// skips that many acceptable placements (relocation).
    pub fn new(len: usize, guard: usize, fill: u8, phase: usize, ok: &dyn Fn(usize) -> bool) -> Buf {
        let slack = 64 * (phase + 2);
        let raw = vec![fill; len + 2 * guard + slack];
        let base = raw.as_ptr() as usize;
        let mut off = guard;
        let mut skipped = 0;
        loop {
            if ok(base + off) {
                if skipped == phase {
                    break;
                }
                skipped += 1;
            }
            off += 1;
        }
        assert!(off + len + guard <= raw.len());
        let mut b = Buf { raw, off, len, guard, fill };
        for x in b.bytes_mut() {
            *x = 0;
        }
        b
    }
    pub fn bytes(&self) -> &[u8] {
        &self.raw[self.off..self.off + self.len]
    }
    pub fn bytes_mut(&mut self) -> &mut [u8] {
        let (o, l) = (self.off, self.len);
        &mut self.raw[o..o + l]
    }
    /// Unbounded-lifetime view, for handles kept across operations.
    #[allow(clippy::mut_from_ref)]
    pub unsafe fn static_mut(&self) -> &'static mut [u8] {
        std::slice::from_raw_parts_mut(self.raw.as_ptr().add(self.off) as *mut u8, self.len)
    }
    pub unsafe fn static_ref(&self) -> &'static [u8] {
        std::slice::from_raw_parts(self.raw.as_ptr().add(self.off), self.len)
    }
    pub fn guards_intact(&self) -> bool {
        let pre = &self.raw[self.off - self.guard..self.off];
        let post = &self.raw[self.off + self.len..self.off + self.len + self.guard];
        pre.iter().all(|b| *b == self.fill) && post.iter().all(|b| *b == self.fill)
    }
    /// Same contents (plus `extra` zero bytes at the end) at another place.
    pub fn moved(&self, extra: usize, phase: usize, ok: &dyn Fn(usize) -> bool) -> Buf {
        let mut n = Buf::new(self.len + extra, self.guard, self.fill, phase, ok);
        n.bytes_mut()[..self.len].copy_from_slice(self.bytes());
        n
    }
}

thread_local! {
    pub static CMP_LOG: RefCell<Vec<i128>> = RefCell::new(Vec::new());
    pub static CMP_COUNT: RefCell<u64> = RefCell::new(0);
    pub static WEAK_MOD: RefCell<u64> = RefCell::new(1);
}

pub fn take_log() -> Vec<i128> {
    CMP_LOG.with(|l| std::mem::take(&mut *l.borrow_mut()))
}
pub fn take_count() -> u64 {
    CMP_COUNT.with(|c| std::mem::replace(&mut *c.borrow_mut(), 0))
}

/// Integer-like element types.
pub trait Scalar: bytemuck::Pod + Default + Copy {
    fn from_i(x: i128) -> Self;
    fn to_i(self) -> i128;
}
macro_rules! scalar {
    ($($t:ty),*) => {$(
        impl Scalar for $t {
            fn from_i(x: i128) -> Self { x as $t }
            fn to_i(self) -> i128 { self as i128 }
        }
    )*};
}
scalar!(u8, u16, u32, u64, i64, u128);

/// f64 keys: a key type that is only partially ordered.  Integers of the case file whose remainder
/// modulo 7 is 3 stand for NaN (several different NaN "keys"), remainder 5 for an infinity.
impl Scalar for f64 {
    fn from_i(x: i128) -> Self {
        match x.rem_euclid(7) {
            3 => f64::NAN,
            5 => if x % 2 == 0 { f64::INFINITY } else { f64::NEG_INFINITY },
            _ => x as f64,
        }
    }
    fn to_i(self) -> i128 {
        if self.is_nan() { -1 } else if self.is_infinite() { -2 } else { self as i128 }
    }
}

/// A u64 key whose comparisons are logged (C06: reveals every search path).
#[repr(transparent)]
#[derive(Clone, Copy, Default, PartialEq)]
pub struct CKey(pub u64);
unsafe impl bytemuck::Zeroable for CKey {}
unsafe impl bytemuck::Pod for CKey {}
impl PartialOrd for CKey {
    fn partial_cmp(&self, other: &Self) -> Option<std::cmp::Ordering> {
        CMP_LOG.with(|l| l.borrow_mut().push(other.0 as i128));
        self.0.partial_cmp(&other.0)
    }
}
impl Scalar for CKey {
    fn from_i(x: i128) -> Self {
        CKey(x as u64)
    }
    fn to_i(self) -> i128 {
        self.0 as i128
    }
}

pub fn kv(toks: &[&str], key: &str) -> Option<String> {
    let p = format!("{}=", key);
    toks.iter().find(|t| t.starts_with(&p)).map(|t| t[p.len()..].to_string())
}
pub fn kvn(toks: &[&str], key: &str) -> usize {
    kv(toks, key).unwrap_or_else(|| panic!("missing {}", key)).parse().unwrap()
}
pub fn int(s: &str) -> i128 {
    s.parse().unwrap()
}
