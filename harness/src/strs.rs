//! Prefixed strings and PodStr runners.
use crate::util::*;
use crate::Case;
use bytemuck::bytes_of;
use stevia::pod::PodStr;
use stevia::types::*;
use stevia::ZeroCopy;

macro_rules! pstr_runner {
    ($fname:ident, $Mut:ident, $Ro:ident) => {
        pub fn $fname(case: &Case, full: bool, fill: u8, out: &mut String) {
            let toks: Vec<&str> = case.header.iter().map(|s| s.as_str()).collect();
            let size = kvn(&toks, "size");
            let odd = kv(&toks, "odd").is_some();
            let mut buf = Buf::new(size, 32, fill, 0, &move |a: usize| !odd || a % 2 == 1);
            if let Some(init) = kv(&toks, "init") {
                let b = unhex(&init);
                buf.bytes_mut()[..b.len()].copy_from_slice(&b);
            }
            let mut h: Option<$Mut<'static>> = None;
            out.push_str(&format!("case {}\n", case.id));
            for (i, op) in case.ops.iter().enumerate() {
                tick();
                let name = op[0].as_str();
                let arg = op.get(1).map(|s| unhex(s)).unwrap_or_default();
                let r: Option<String> = guarded(|| match name {
                    "new" => {
                        h = None;
                        match $Mut::new(unsafe { buf.static_mut() }) {
                            Ok(x) => {
                                let l = x.len();
                                h = Some(x);
                                format!("O{}", l)
                            }
                            Err(_) => "E".to_string(),
                        }
                    }
                    "copy" => match h.as_mut() {
                        Some(x) => {
                            x.copy_from_str(std::str::from_utf8(&arg).expect("case error: copy arg must be UTF-8"));
                            "U".to_string()
                        }
                        None => "-".to_string(),
                    },
                    "copysl" => match h.as_mut() {
                        Some(x) => {
                            // the unsafe byte-level copy called directly; the cases pass ASCII text
                            unsafe { x.copy_from_slice(&arg) };
                            "U".to_string()
                        }
                        None => "-".to_string(),
                    },
                    "asstr" => match h.as_ref() {
                        Some(x) => {
                            let s: &str = x.as_str();
                            let b = s.as_bytes();
                            let d: &str = &*x;
                            let same = d.as_bytes() == b;
                            format!(
                                "O{}{}{}",
                                if b.is_empty() { "-".to_string() } else { hex(b) },
                                if std::str::from_utf8(b).is_ok() { "" } else { "!INVALID" },
                                if same { "" } else { "!DEREF" }
                            )
                        }
                        None => "-".to_string(),
                    },
                    "upper" => match h.as_mut() {
                        Some(x) => {
                            // the &mut str of DerefMut must be the same text as as_str(), and valid
                            let before = x.as_str().as_bytes().to_vec();
                            let s: &mut str = &mut *x;
                            let same = s.as_bytes() == &before[..];
                            let valid = std::str::from_utf8(s.as_bytes()).is_ok();
                            s.make_ascii_uppercase();
                            format!("U{}{}", if valid { "" } else { "!INVALID" }, if same { "" } else { "!DEREF" })
                        }
                        None => "-".to_string(),
                    },
                    "size" => match h.as_ref() {
                        Some(x) => format!("#{}", x.size()),
                        None => "-".to_string(),
                    },
                    "ro" => match $Ro::from_bytes(unsafe { buf.static_ref() }) {
                        Ok(x) => {
                            let b = x.as_str().as_bytes();
                            format!(
                                "O{}{}:{}",
                                if b.is_empty() { "-".to_string() } else { hex(b) },
                                if std::str::from_utf8(b).is_ok() { "" } else { "!INVALID" },
                                x.size()
                            )
                        }
                        Err(_) => "E".to_string(),
                    },
                    "rw" => {
                        // the mutable view of bytes that already hold a string (unsafe API: called only when the
                        // recorded range is valid UTF-8, which is judged here, not by the crate)
                        h = None;
                        let p = kvn(&toks, "p");
                        let b = buf.bytes();
                        let mut valid = true;
                        if b.len() >= p {
                            let mut len = 0usize;
                            for j in (0..p).rev() {
                                len = (len << 8) | b[j] as usize;
                            }
                            if len <= b.len() - p && std::str::from_utf8(&b[p..p + len]).is_err() {
                                valid = false;
                            }
                        }
                        if !valid {
                            "E".to_string()
                        } else {
                            let x = unsafe { $Mut::from_bytes_mut(buf.static_mut()) };
                            let r = {
                                let t = x.as_str().as_bytes();
                                format!("O{}:{}", if t.is_empty() { "-".to_string() } else { hex(t) }, x.size())
                            };
                            h = Some(x);
                            r
                        }
                    }
                    "setbuf" => {
                        h = None;
                        let n = arg.len().min(buf.len);
                        buf.bytes_mut()[..n].copy_from_slice(&arg[..n]);
                        "U".to_string()
                    }
                    other => panic!("unknown op {}", other),
                });
                match r {
                    None => {
                        out.push_str(&format!("{} r=P{}\n", i, if buf.guards_intact() { "" } else { " g=BAD" }));
                        break;
                    }
                    Some(res) => {
                        out.push_str(&format!("{} r={} d={:016x}", i, res, fnv(buf.bytes())));
                        if !buf.guards_intact() {
                            out.push_str(" g=BAD");
                        }
                        if full {
                            out.push_str(&format!(" b={}", hex(buf.bytes())));
                        }
                        out.push('\n');
                    }
                }
            }
            out.push_str("end\n");
        }
    };
}
pstr_runner!(run_pstr8, U8PrefixStrMut, U8PrefixStr);
pstr_runner!(run_pstr16, U16PrefixStrMut, U16PrefixStr);

pub fn run_pstr(case: &Case, full: bool, fill: u8, out: &mut String) {
    let toks: Vec<&str> = case.header.iter().map(|s| s.as_str()).collect();
    match kvn(&toks, "p") {
        1 => run_pstr8(case, full, fill, out),
        2 => run_pstr16(case, full, fill, out),
        _ => panic!("bad prefix"),
    }
}

fn lossy_prefix(v: &[u8]) -> String {
    let end = v.iter().position(|&x| x == 0).unwrap_or(v.len());
    String::from_utf8_lossy(&v[..end]).into_owned()
}

/// The value under test with guard bytes right behind it.
#[repr(C)]
struct Guarded<const N: usize> {
    s: PodStr<N>,
    guard: [u8; 16],
}

fn run_podstr_n<const N: usize>(case: &Case, full: bool, fill: u8, out: &mut String) {
    let mut g = Box::new(Guarded::<N> { s: PodStr::<N>::default(), guard: [fill; 16] });
    let gp: *mut Guarded<N> = &mut *g;
    let x: &mut PodStr<N> = unsafe { &mut (*gp).s };
    out.push_str(&format!("case {}\n", case.id));
    for (i, op) in case.ops.iter().enumerate() {
        tick();
        let name = op[0].as_str();
        let arg = op.get(1).map(|s| unhex(s)).unwrap_or_default();
        let r: Option<String> = guarded(|| match name {
            "default" => {
                // the Default value is the empty string: all bytes zero
                *x = PodStr::<N>::default();
                "U".to_string()
            }
            "from" => {
                *x = PodStr::<N>::from(std::str::from_utf8(&arg).expect("case error"));
                "U".to_string()
            }
            "fromstring" => {
                *x = PodStr::<N>::from(String::from_utf8(arg.clone()).expect("case error"));
                "U".to_string()
            }
            "copy" => {
                x.copy_from_str(std::str::from_utf8(&arg).expect("case error"));
                "U".to_string()
            }
            "copysl" => {
                x.copy_from_slice(&arg);
                "U".to_string()
            }
            "asstr" => match x.as_str() {
                Ok(s) => format!("O{}", if s.is_empty() { "-".to_string() } else { hex(s.as_bytes()) }),
                Err(_) => "E".to_string(),
            },
            "asstru" => match x.as_str() {
                // the unchecked accessor, under its safety contract (text known to be valid)
                Ok(_) => {
                    let s = unsafe { x.as_str_unchecked() };
                    format!("O{}", if s.is_empty() { "-".to_string() } else { hex(s.as_bytes()) })
                }
                Err(_) => "-".to_string(),
            },
            "disp" => {
                let shown = x.to_string();
                match x.as_str() {
                    Ok(_) => format!("D{}", if shown.is_empty() { "-".to_string() } else { hex(shown.as_bytes()) }),
                    Err(_) => {
                        if shown == lossy_prefix(&x.value) {
                            "D~".to_string()
                        } else {
                            format!("D!{}", hex(shown.as_bytes()))
                        }
                    }
                }
            }
            "load" => {
                // from the value's own bytes, with `extra` trailing bytes
                let extra = arg.len();
                let mut bytes = bytes_of(&*x).to_vec();
                bytes.extend_from_slice(&arg);
                let l = PodStr::<N>::load(&bytes);
                let same = l == &*x && std::mem::size_of::<PodStr<N>>() == N && extra == arg.len();
                (if same { "T" } else { "F" }).to_string()
            }
            "loadshort" => {
                let bytes = bytes_of(&*x).to_vec();
                let l = PodStr::<N>::load(&bytes[..N - 1]);
                format!("O{}", hex(&l.value))
            }
            other => panic!("unknown op {}", other),
        });
        match r {
            None => {
                out.push_str(&format!("{} r=P\n", i));
                break;
            }
            Some(res) => {
                out.push_str(&format!("{} r={} d={:016x}", i, res, fnv(&x.value)));
                if unsafe { (*gp).guard } != [fill; 16] {
                    out.push_str(" g=BAD");
                }
                if full {
                    out.push_str(&format!(" b={}", hex(&x.value)));
                }
                out.push('\n');
            }
        }
    }
    out.push_str("end\n");
}

pub fn run_podstr(case: &Case, full: bool, fill: u8, out: &mut String) {
    let toks: Vec<&str> = case.header.iter().map(|s| s.as_str()).collect();
    match kvn(&toks, "n") {
        0 => run_podstr_n::<0>(case, full, fill, out),
        1 => run_podstr_n::<1>(case, full, fill, out),
        2 => run_podstr_n::<2>(case, full, fill, out),
        3 => run_podstr_n::<3>(case, full, fill, out),
        4 => run_podstr_n::<4>(case, full, fill, out),
        5 => run_podstr_n::<5>(case, full, fill, out),
        6 => run_podstr_n::<6>(case, full, fill, out),
        7 => run_podstr_n::<7>(case, full, fill, out),
        8 => run_podstr_n::<8>(case, full, fill, out),
        10 => run_podstr_n::<10>(case, full, fill, out),
        16 => run_podstr_n::<16>(case, full, fill, out),
        32 => run_podstr_n::<32>(case, full, fill, out),
        n => panic!("PodStr<{}> not instantiated", n),
    }
}
