//! AVL tree runner (both index widths), generic in the key/value types.
use crate::util::*;
use crate::Case;
use stevia::collections::avl_tree::{Allocator, Node};
use stevia::collections::u8_avl_tree::{U8Allocator, U8Node};
use stevia::collections::{AVLTree, AVLTreeMut, U8AVLTree, U8AVLTreeMut};

fn fmt_opt(tag: char, v: Option<i128>) -> String {
    match v {
        Some(x) => format!("{}{}", tag, x),
        None => "N".to_string(),
    }
}

macro_rules! avl_runner {
    ($fname:ident, $Mut:ident, $Ro:ident, $Node:ident, $Alloc:ident, $idx:ty) => {
        pub fn $fname<K: Scalar + PartialOrd, V: Scalar>(case: &Case, full: bool, fill: u8, out: &mut String) {
            let toks: Vec<&str> = case.header.iter().map(|s| s.as_str()).collect();
            let mode = kv(&toks, "mode").unwrap_or("persistent".into());
            let hdr = $Mut::<K, V>::data_len(0);
            let rec = $Mut::<K, V>::data_len(1) - hdr;
            // the alignment the documented format implies, NOT what the crate's types happen to ask for:
            // the header is words of the index width, a record is key, value and links of the index
            // width - nothing stricter, so that relocation also visits odd addresses where the format
            // allows it and a header or node type that silently asks for more is noticed (the open panics)
            let halign = std::mem::size_of::<$idx>();
            let nalign = halign.max(std::mem::align_of::<K>()).max(std::mem::align_of::<V>());
            let _ = (std::mem::align_of::<$Alloc>(), std::mem::align_of::<$Node<K, V>>());
            let okp = move |a: usize| a % halign == 0 && (a + hdr) % nalign == 0;
            let mut phase = 0usize;
            let mut buf;
            let mut keep_init = false;
            if let Some(raw) = kv(&toks, "raw") {
                let bytes = unhex(&raw);
                buf = Buf::new(bytes.len(), 32, fill, phase, &okp);
                buf.bytes_mut().copy_from_slice(&bytes);
            } else {
                let cap = kvn(&toks, "cap");
                let nrec = kvn(&toks, "nrec");
                buf = Buf::new(hdr + nrec * rec, 32, fill, phase, &okp);
                let mut t = $Mut::<K, V>::from_bytes_mut(buf.bytes_mut());
                t.initialize(cap as $idx);
                keep_init = kv(&toks, "keep").map(|x| x == "1").unwrap_or(false) && mode == "persistent";
            }
            // key universe
            let mut uni: Vec<i128> = vec![];
            for op in &case.ops {
                match op[0].as_str() {
                    "ins" | "rem" | "get" | "gmut" | "gmut0" | "has" => uni.push(int(&op[1])),
                    _ => {}
                }
            }
            uni.sort();
            uni.dedup();
            macro_rules! abs_of {
                ($t:expr) => {{
                    let mut s = String::new();
                    for k in &uni {
                        if let Some(v) = $t.get(&K::from_i(*k)) {
                            if !s.is_empty() {
                                s.push(',');
                            }
                            s.push_str(&format!("{}:{}", k, v.to_i()));
                        }
                    }
                    if s.is_empty() {
                        s.push('-');
                    }
                    s
                }};
            }
            let mut h: Option<$Mut<'static, K, V>> = None;
            if keep_init {
                // keep=1: the handle that initialises the tree stays in use (a tree initialised with a
                // capacity smaller than its buffer keeps that capacity until a view is opened anew)
                let cap = kvn(&toks, "cap");
                let mut t = $Mut::<K, V>::from_bytes_mut(unsafe { buf.static_mut() });
                t.initialize(cap as $idx);
                h = Some(t);
            }
            out.push_str(&format!("case {}\n", case.id));
            for (i, op) in case.ops.iter().enumerate() {
                tick();
                take_log();
                let name = op[0].as_str();
                let a1 = op.get(1).map(|s| int(s)).unwrap_or(0);
                let a2 = op.get(2).map(|s| int(s)).unwrap_or(0);
                let is_mut = matches!(name, "ins" | "rem" | "gmut" | "gmut0" | "openmut" | "init");
                if name == "ext" {
                    h = None;
                    phase ^= 1;
                    buf = buf.moved(a1 as usize * rec, phase, &okp);
                    out.push_str(&format!("{} r=U d={:016x}", i, fnv(buf.bytes())));
                    if full {
                        out.push_str(&format!(" b={}", hex(buf.bytes())));
                    }
                    out.push('\n');
                    continue;
                }
                if name == "openmut" || name == "openro" || name == "init" {
                    h = None;
                }
                let r: Option<(String, Vec<i128>)> = guarded(|| {
                    let mut log: Vec<i128> = vec![];
                    let res;
                    if name == "fill" {
                        // C07/C08 oracle: on a copy, insert fresh keys until refused
                        let mut scratch = buf.moved(0, 0, &okp);
                        let before = {
                            let t = $Ro::<K, V>::from_bytes(scratch.bytes());
                            abs_of!(t)
                        };
                        let mut t = $Mut::<K, V>::from_bytes_mut(scratch.bytes_mut());
                        let limit = t.capacity() + 2;
                        let mut count = 0usize;
                        let mut k = a1;
                        while count <= limit {
                            if t.insert(K::from_i(k), V::from_i(k)).is_none() {
                                break;
                            }
                            count += 1;
                            k += 1;
                        }
                        let after = abs_of!(t);
                        let refused_next = t.insert(K::from_i(k + 1), V::from_i(0)).is_none();
                        let okk = before == after && t.is_full() && refused_next && t.len() == t.capacity();
                        res = format!("#{}:{}", count, if okk { 'T' } else { 'F' });
                    } else if is_mut {
                        if h.is_none() {
                            h = Some($Mut::<K, V>::from_bytes_mut(unsafe { buf.static_mut() }));
                        }
                        let t = h.as_mut().unwrap();
                        take_log();
                        res = match name {
                            "ins" => fmt_opt('S', t.insert(K::from_i(a1), V::from_i(a2)).map(|x| x as i128)),
                            "rem" => fmt_opt('V', t.remove(&K::from_i(a1)).map(|v| v.to_i())),
                            "gmut" => match t.get_mut(&K::from_i(a1)) {
                                Some(r) => {
                                    let old = r.to_i();
                                    *r = V::from_i(a2);
                                    format!("V{}", old)
                                }
                                None => "N".to_string(),
                            },
                            "gmut0" => fmt_opt('V', t.get_mut(&K::from_i(a1)).map(|v| v.to_i())),
                            "openmut" => "U".to_string(),
                            "init" => {
                                // initialise again in place, over whatever the buffer holds (only in
                                // implementation-only batches: the model starts from zero-filled buffers)
                                t.initialize(a1 as $idx);
                                "U".to_string()
                            }
                            _ => unreachable!(),
                        };
                        log = take_log();
                    } else {
                        macro_rules! query {
                            ($t:expr) => {{
                                take_log();
                                match name {
                                    "get" => fmt_opt('V', $t.get(&K::from_i(a1)).map(|v| v.to_i())),
                                    "has" => (if $t.contains(&K::from_i(a1)) { "T" } else { "F" }).to_string(),
                                    "low" => fmt_opt('V', $t.lowest().map(|k| k.to_i())),
                                    "len" => format!("#{}", $t.len()),
                                    "empty" => (if $t.is_empty() { "T" } else { "F" }).to_string(),
                                    "full" => (if $t.is_full() { "T" } else { "F" }).to_string(),
                                    "capq" => format!("#{}", $t.capacity()),
                                    "openro" => "U".to_string(),
                                    "dbg" => {
                                        // the only hand-written Debug impl of the collections: the header
                                        let a: &$Alloc = bytemuck::from_bytes(&buf.bytes()[..std::mem::size_of::<$Alloc>()]);
                                        let s = format!("{:?}", a);
                                        if s.is_empty() { "E".to_string() } else { "U".to_string() }
                                    }
                                    other => panic!("unknown op {}", other),
                                }
                            }};
                        }
                        res = if let Some(t) = h.as_ref() {
                            query!(t)
                        } else {
                            let t = $Ro::<K, V>::from_bytes(unsafe { buf.static_ref() });
                            query!(t)
                        };
                        log = take_log();
                    }
                    (res, log)
                });
                match r {
                    None => {
                        out.push_str(&format!("{} r=P{}\n", i, if buf.guards_intact() { "" } else { " g=BAD" }));
                        break;
                    }
                    Some((res, log)) => {
                        if mode != "persistent" {
                            h = None;
                        }
                        if mode == "relocate" {
                            h = None;
                            phase ^= 1;
                            buf = buf.moved(0, phase, &okp);
                        }
                        let abs = guarded(|| {
                            if let Some(t) = h.as_ref() {
                                abs_of!(t)
                            } else {
                                let t = $Ro::<K, V>::from_bytes(unsafe { buf.static_ref() });
                                abs_of!(t)
                            }
                        })
                        .unwrap_or("PANIC".to_string());
                        take_log();
                        out.push_str(&format!("{} r={} d={:016x} abs={}", i, res, fnv(buf.bytes()), abs));
                        if !log.is_empty() {
                            let l: Vec<String> = log.iter().map(|x| x.to_string()).collect();
                            out.push_str(&format!(" cm={}", l.join(",")));
                        }
                        if !buf.guards_intact() {
                            out.push_str(" g=BAD");
                        }
                        if full {
                            out.push_str(&format!(" b={}", hex(buf.bytes())));
                        }
                        out.push('\n');
                    }
                }
            }
            out.push_str("end\n");
        }
    };
}

avl_runner!(run32, AVLTreeMut, AVLTree, Node, Allocator, u32);
avl_runner!(run8, U8AVLTreeMut, U8AVLTree, U8Node, U8Allocator, u8);

pub fn run(case: &Case, full: bool, fill: u8, out: &mut String) {
    let toks: Vec<&str> = case.header.iter().map(|s| s.as_str()).collect();
    let bits = kvn(&toks, "bits");
    let lay = kv(&toks, "lay").unwrap();
    macro_rules! go {
        ($K:ty, $V:ty) => {
            if bits == 8 {
                run8::<$K, $V>(case, full, fill, out)
            } else {
                run32::<$K, $V>(case, full, fill, out)
            }
        };
    }
    match lay.as_str() {
        "u64u64" => go!(u64, u64),
        "u32u32" => go!(u32, u32),
        "u8u64" => go!(u8, u64),
        "u64u8" => go!(u64, u8),
        "u16u32" => go!(u16, u32),
        "i64u16" => go!(i64, u16),
        "u8u8" => go!(u8, u8),
        "u16u16" => go!(u16, u16),
        "u128u64" => go!(u128, u64),
        "f64u64" => go!(f64, u64),
        "ckey" => go!(CKey, u64),
        other => panic!("unknown layout {}", other),
    }
}
