//! Hash set runner.
use crate::util::*;
use crate::Case;
use std::hash::{Hash, Hasher};
use stevia::collections::{HashSet, HashSetMut};

/// A value type with a deliberately weak Hash: only `v % m` is hashed.
#[repr(transparent)]
#[derive(Clone, Copy, Default, PartialEq)]
pub struct Weak(pub u64);
unsafe impl bytemuck::Zeroable for Weak {}
unsafe impl bytemuck::Pod for Weak {}
impl Hash for Weak {
    fn hash<H: Hasher>(&self, state: &mut H) {
        let m = WEAK_MOD.with(|m| *m.borrow());
        state.write_u64(self.0 % m);
    }
}
impl Scalar for Weak {
    fn from_i(x: i128) -> Self {
        Weak(x as u64)
    }
    fn to_i(self) -> i128 {
        self.0 as i128
    }
}

/// A value whose equality and hash look at `a` only (the payload `b` is ignored).
#[repr(C)]
#[derive(Clone, Copy, Default)]
pub struct HPair {
    pub a: u32,
    pub b: u32,
}
unsafe impl bytemuck::Zeroable for HPair {}
unsafe impl bytemuck::Pod for HPair {}
impl PartialEq for HPair {
    fn eq(&self, o: &Self) -> bool {
        self.a == o.a
    }
}
impl Hash for HPair {
    fn hash<H: Hasher>(&self, state: &mut H) {
        state.write_u32(self.a);
    }
}
impl Scalar for HPair {
    fn from_i(x: i128) -> Self {
        HPair { a: x as u32, b: (x >> 32) as u32 }
    }
    fn to_i(self) -> i128 {
        (self.a as i128) | ((self.b as i128) << 32)
    }
}

/// A 16-byte value of alignment 4 (a record is then 24 bytes: the value size does not divide it).
#[repr(transparent)]
#[derive(Clone, Copy, Default, PartialEq, Hash)]
pub struct Q16(pub [u32; 4]);
unsafe impl bytemuck::Zeroable for Q16 {}
unsafe impl bytemuck::Pod for Q16 {}
impl Scalar for Q16 {
    fn from_i(x: i128) -> Self {
        let u = x as u128;
        Q16([u as u32, (u >> 32) as u32, (u >> 64) as u32, (u >> 96) as u32])
    }
    fn to_i(self) -> i128 {
        ((self.0[0] as u128) | ((self.0[1] as u128) << 32) | ((self.0[2] as u128) << 64) | ((self.0[3] as u128) << 96)) as i128
    }
}

pub fn run_t<V: Scalar + Hash + PartialEq>(case: &Case, full: bool, fill: u8, out: &mut String) {
    let toks: Vec<&str> = case.header.iter().map(|s| s.as_str()).collect();
    let mode = kv(&toks, "mode").unwrap_or("persistent".into());
    let hdr = HashSetMut::<V>::data_len(0);
    let rec = HashSetMut::<V>::data_len(1) - hdr;
    let align = std::mem::align_of::<V>().max(4);
    let okp = move |a: usize| a % align == 0;
    let lite = kv(&toks, "lite").is_some();
    let mut phase = 0usize;
    let mut buf;
    if let Some(raw) = kv(&toks, "raw") {
        let bytes = unhex(&raw);
        buf = Buf::new(bytes.len(), 32, fill, phase, &okp);
        buf.bytes_mut().copy_from_slice(&bytes);
    } else {
        let cap = kvn(&toks, "cap");
        let nrec = kvn(&toks, "nrec");
        buf = Buf::new(hdr + nrec * rec, 32, fill, phase, &okp);
        let mut t = HashSetMut::<V>::from_bytes_mut(buf.bytes_mut());
        t.initialize(cap as u32);
    }
    let mut uni: Vec<i128> = vec![];
    for op in &case.ops {
        match op[0].as_str() {
            "ins" | "rem" | "has" => uni.push(int(&op[1])),
            _ => {}
        }
    }
    uni.sort();
    uni.dedup();
    macro_rules! abs_of {
        ($t:expr) => {{
            let l: Vec<String> = uni
                .iter()
                .filter(|k| $t.contains(&V::from_i(**k)))
                .map(|k| k.to_string())
                .collect();
            if l.is_empty() {
                "-".to_string()
            } else {
                l.join(",")
            }
        }};
    }
    fn iter_sorted<V: Scalar + Hash + PartialEq>(bytes: &[u8]) -> String {
        let t = HashSet::<V>::from_bytes(bytes);
        let mut l: Vec<i128> = t.iter().map(|v| v.to_i()).collect();
        l.sort();
        let l: Vec<String> = l.iter().map(|x| x.to_string()).collect();
        if l.is_empty() {
            "-".to_string()
        } else {
            l.join(",")
        }
    }
    let mut h: Option<HashSetMut<'static, V>> = None;
    out.push_str(&format!("case {}\n", case.id));
    for (i, op) in case.ops.iter().enumerate() {
        tick();
        let name = op[0].as_str();
        let a1 = op.get(1).map(|s| int(s)).unwrap_or(0);
        let is_mut = matches!(name, "ins" | "rem" | "init");
        if name == "reopen" || name == "init" {
            h = None;
        }
        let r: Option<String> = guarded(|| {
            if name == "fill" {
                let mut scratch = buf.moved(0, 0, &okp);
                let before = {
                    let t = HashSet::<V>::from_bytes(scratch.bytes());
                    abs_of!(t)
                };
                let mut t = HashSetMut::<V>::from_bytes_mut(scratch.bytes_mut());
                let limit = t.capacity() + 2;
                let mut count = 0usize;
                let mut k = a1;
                while count <= limit {
                    if !t.insert(V::from_i(k)) {
                        break;
                    }
                    count += 1;
                    k += 1;
                }
                let after = abs_of!(t);
                let refused_next = !t.insert(V::from_i(k + 1));
                let okk = before == after && t.is_full() && refused_next && t.size() == t.capacity();
                format!("#{}:{}", count, if okk { 'T' } else { 'F' })
            } else if is_mut {
                if h.is_none() {
                    h = Some(HashSetMut::<V>::from_bytes_mut(unsafe { buf.static_mut() }));
                }
                let t = h.as_mut().unwrap();
                let b = match name {
                    "ins" => t.insert(V::from_i(a1)),
                    "rem" => t.remove(&V::from_i(a1)),
                    "init" => {
                        t.initialize(a1 as u32);
                        true
                    }
                    _ => unreachable!(),
                };
                (if b { "T" } else { "F" }).to_string()
            } else if name == "itercount" {
                // iteration summarised (very large sets): number of values yielded and their wrapping sum
                let t = HashSet::<V>::from_bytes(unsafe { buf.static_ref() });
                let mut n = 0u64;
                let mut sum = 0u64;
                for v in t.iter() {
                    n += 1;
                    sum = sum.wrapping_add(v.to_i() as u64);
                }
                format!("#{}:{}", n, sum)
            } else if name == "iter" {
                format!("L{}", iter_sorted::<V>(unsafe { buf.static_ref() }))
            } else {
                macro_rules! query {
                    ($t:expr) => {
                        match name {
                            "has" => (if $t.contains(&V::from_i(a1)) { "T" } else { "F" }).to_string(),
                            "size" => format!("#{}", $t.size()),
                            "empty" => (if $t.is_empty() { "T" } else { "F" }).to_string(),
                            "full" => (if $t.is_full() { "T" } else { "F" }).to_string(),
                            "capq" => format!("#{}", $t.capacity()),
                            "reopen" => "U".to_string(),
                            other => panic!("unknown op {}", other),
                        }
                    };
                }
                if let Some(t) = h.as_ref() {
                    query!(t)
                } else {
                    let t = HashSet::<V>::from_bytes(unsafe { buf.static_ref() });
                    query!(t)
                }
            }
        });
        match r {
            None => {
                out.push_str(&format!("{} r=P{}\n", i, if buf.guards_intact() { "" } else { " g=BAD" }));
                break;
            }
            Some(res) => {
                if mode != "persistent" {
                    h = None;
                }
                if mode == "relocate" {
                    phase ^= 1;
                    buf = buf.moved(0, phase, &okp);
                }
                let abs = guarded(|| {
                    let a = if let Some(t) = h.as_ref() {
                        abs_of!(t)
                    } else {
                        let t = HashSet::<V>::from_bytes(unsafe { buf.static_ref() });
                        abs_of!(t)
                    };
                    // lite=1 (very large sets): the contents projection leaves out the full iteration
                    if lite {
                        format!("{};~", a)
                    } else {
                        format!("{};{}", a, iter_sorted::<V>(unsafe { buf.static_ref() }))
                    }
                })
                .unwrap_or("PANIC".to_string());
                out.push_str(&format!("{} r={} d={:016x} abs={}", i, res, fnv(buf.bytes()), abs));
                if !buf.guards_intact() {
                    out.push_str(" g=BAD");
                }
                if full {
                    out.push_str(&format!(" b={}", hex(buf.bytes())));
                }
                out.push('\n');
            }
        }
    }
    out.push_str("end\n");
}

pub fn run(case: &Case, full: bool, fill: u8, out: &mut String) {
    let toks: Vec<&str> = case.header.iter().map(|s| s.as_str()).collect();
    let vty = kv(&toks, "vty").unwrap();
    if let Some(m) = vty.strip_prefix("weak") {
        let m: u64 = m.parse().unwrap();
        WEAK_MOD.with(|w| *w.borrow_mut() = m);
        return run_t::<Weak>(case, full, fill, out);
    }
    match vty.as_str() {
        "u64" => run_t::<u64>(case, full, fill, out),
        "u128" => run_t::<u128>(case, full, fill, out),
        "u32" => run_t::<u32>(case, full, fill, out),
        "u8" => run_t::<u8>(case, full, fill, out),
        "hpair" => run_t::<HPair>(case, full, fill, out),
        "q16" => run_t::<Q16>(case, full, fill, out),
        other => panic!("unknown vty {}", other),
    }
}
