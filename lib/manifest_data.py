BASE_NOTE = ('Trusted: Coq 8.16.1 kernel (vm_compute for finite sweeps and examples; no native_compute), no axioms (every Print Assumptions is '
             '"Closed under the global context"); the hand-written Gallina model (coq/*/Impl.v) is tied to /repo only by the correspondence check of each run '
             '(Rust harness vs model extracted with ExtrOcamlBasic, plus a vm_compute re-evaluation of a sample inside Coq), '
             'rustc/bytemuck/std behaviour, x86-64 little-endian, integer keys/values with a total order. ')

TECH = 'Coq proof about an executable Gallina model (invariant + refinement to an abstract spec) + differential correspondence check model vs crate with oracle search'

CLAIMED = {
 'C02': dict(
   text='Theorem over all operation histories, all capacities with cap+1 < 2^32 (including 0) and an ARBITRARY hash function (every collision pattern): the concrete hash-set model (header words, record array, bucket chains, intrusive free list) refines a capacity-bounded sorted set, iteration yields exactly the members once, remove removes only that value; chain/free-list invariant proved inductive. Model tied to the crate on every run (weak-hash value types forcing collisions, exhaustive small scope, re-open modes).',
   note=BASE_NOTE + 'Values are modelled as integers with decidable equality; the Hash impl of the value type is the Section variable hash64 (SipHash-1-3 of the real types is modelled in Base/Sip.v and compared byte-for-byte through the buffers).',
   technique=TECH),
 'C03': dict(
   text='Theorems for every prefix width, slot count, history (with the documented side condition that get_mut writes keep the key): binary search returns the element or the unique insertion point on every sorted prefix, every operation refines a bounded strictly-ascending list (bound = min(slots, largest count the prefix can record)), the slice view is exactly the members in strictly ascending order in every reachable state. Model tied to the crate on every run (4 widths, 4 value types incl. one whose order ignores part of the value, exhaustive small scope, single steps from every sorted array up to length 8/16).',
   note=BASE_NOTE + 'The unsafe ptr::copy is modelled as an unchecked memmove over a flat cell memory containing the guard regions.',
   technique=TECH),
 'C11': dict(
   text='Theorems: the validator of the model is equivalent to the Unicode Table 3-7 grammar; encodings of scalar values are valid; validity is closed under concatenation and zero padding; a cut at a char boundary of an encoded string is an encoding of a prefix; from_bytes/new hand out a handle only for valid payloads and refuse exactly the invalid ones; copy_from_str of any string keeps the handle valid, for any sequence of copies and any prefix width; PodStr::as_str returns only valid text. Tie: validator compared with str::from_utf8 on structured and exhaustive short byte strings, every cut position.',
   note=BASE_NOTE + 'Modelled, not verified: that core::str::from_utf8 accepts exactly Table 3-7 (checked by the byte-string stream of every run) and that safe &mut str methods preserve validity (std contract).',
   technique=TECH),
 'C13': dict(
   text='Theorems for a generic prefix width: new() records min(area, prefix max) little-endian and exposes the whole area when expressible (never the length modulo 2^(8p)); copy_from_str stores the longest prefix of characters that fits followed by zeros, keeps length/prefix bytes/trailing bytes; reload through from_bytes returns the same text and ignores bytes beyond the recorded length; size = prefix + length. Tie: buffer sizes around 255/256/257 and 65535/65536/65537, every cut position, copy sequences, both views, raw bytes compared.',
   note=BASE_NOTE,
   technique=TECH),
 'C14': dict(
   text='Theorems for every capacity N (including 0): copy/From store min(len,N) bytes then zeros independent of earlier content; round trip of every fitting NUL-free valid string; as_str total over arbitrary bytes (text before the first NUL, or an error); Display renders exactly that text; load of the value bytes (with any trailing bytes) is the value. Tie: capacities 0..32, strings over 1-4 byte characters and NUL, arbitrary byte contents.',
   note=BASE_NOTE + 'Display of text that is not valid UTF-8 is String::from_utf8_lossy (std) of the text before the first NUL: not modelled, checked by the harness against from_utf8_lossy of that prefix.',
   technique=TECH),
 'C15': dict(
   text='Theorems over all buffer contents and lengths, all 256 byte values (finite sweep lifted by forallb_forall) and an arbitrary is_some predicate, about the Gallina model of PodBool/PodOption/load/load_mut; model and crate compared on every run.',
   note=BASE_NOTE + 'Modelled, not verified: that #[repr(C)] single-field wrappers have the size and bytes of the inner type (checked by the harness with size_of/bytes_of for inner types of 1, 4, 8 and 32 bytes).',
   technique='Coq proof (total functions over byte lists, finite sweep by vm_compute) + differential correspondence check'),
}

PENDING = ['C01', 'C04', 'C05', 'C06', 'C07', 'C08', 'C09', 'C10', 'C12']
NOT_APPLICABLE = {p: 'not yet claimed: the model, the correspondence check and the oracles for this property run (bin/check %s), but its Coq theorems for the AVL trees are still being proved in this session; it will be claimed when Properties/%s.v is complete' % (p, p) for p in PENDING}
