BASE_NOTE = ('Trusted: Coq 8.16.1 kernel (vm_compute for finite sweeps; no native_compute), no axioms (Print Assumptions closed under the global context); '
             'the hand-written Gallina model is tied to /repo only by the correspondence check of each run (Rust harness vs model extracted with ExtrOcamlBasic), '
             'rustc/bytemuck/std behaviour, x86-64 little-endian. ')
CLAIMED = {
 'C15': dict(text='Theorems over all buffer contents and lengths, all 256 byte values (finite sweep lifted by forallb_forall) and an arbitrary is_some predicate, about the Gallina model of PodBool/PodOption/load/load_mut; model and crate compared on every run.',
             note=BASE_NOTE + 'Modelled, not verified: that #[repr(C)] single-field wrappers have the size and bytes of the inner type (checked by the harness with size_of/bytes_of for inner types of 1, 4, 8 and 32 bytes).',
             technique='Coq proof (total functions over byte lists, finite sweep by vm_compute) + differential correspondence check'),
}
NOT_APPLICABLE = {p: 'check under construction in this session (model and correspondence exist; theorems not yet registered)' for p in
                  ['C01','C02','C03','C04','C05','C06','C07','C08','C09','C10','C11','C12','C13','C14']}
