BASE_NOTE = ('Trusted: Coq 8.16.1 kernel (vm_compute for finite sweeps and examples; no native_compute), no axioms (every Print Assumptions is '
             '"Closed under the global context"); the hand-written Gallina model (coq/*/Impl.v) is tied to /repo only by the correspondence check of each run '
             '(Rust harness vs model extracted with ExtrOcamlBasic, plus a vm_compute re-evaluation of a sample inside Coq), '
             'rustc/bytemuck/std behaviour, x86-64 little-endian, integer keys/values with a total order. ')

TECH = 'Coq proof about an executable Gallina model (invariant + refinement to an abstract spec) + differential correspondence check model vs crate with oracle search'

CLAIMED = {
 'C02': dict(
   text='Theorem over all operation histories, all capacities with cap+1 < 2^32 (including 0) and an ARBITRARY hash function (every collision pattern): the concrete hash-set model (header words, record array, bucket chains, intrusive free list) refines a capacity-bounded sorted set, iteration yields exactly the members once, remove removes only that value; chain/free-list invariant proved inductive; the specification itself is proved to be a finite set (membership changes for the touched value only, size moves by exactly one) on every sorted list and on the members of every invariant state; contains after insert and iteration after insert/remove (old members plus/minus exactly that value, each once) on the concrete model. Model tied to the crate on every run (weak-hash value types forcing collisions, exhaustive small scope, re-open modes).',
   note=BASE_NOTE + 'Values are modelled as integers with decidable equality; the Hash impl of the value type is the Section variable hash64 (SipHash-1-3 of the real types is modelled in Base/Sip.v and compared byte-for-byte through the buffers).',
   technique=TECH),
 'C03': dict(
   text='Theorems for every prefix width, slot count, history (with the documented side condition that get_mut writes keep the key): binary search returns the element or the unique insertion point on every sorted prefix, every operation refines a bounded strictly-ascending list (bound = min(slots, largest count the prefix can record)), the slice view is exactly the members in strictly ascending order in every reachable state; the specification itself is proved to be a finite map keyed by the order key (insert/remove/get_mut touch exactly the addressed key, never overwrite, keep the list ascending, move the length by one) on every ascending list and on the members of every reachable state, and composed with the refinement into lookup-after-mutation clauses on the concrete model (insert/remove/take/get_mut change what get answers for the touched key only; insert accepted iff absent and below min(slots, prefix max); from any invariant state exactly bound-count further distinct values fit, by induction over the list). Model tied to the crate on every run (4 widths, 4 value types incl. one whose order ignores part of the value, exhaustive small scope, single steps from every sorted array up to length 8/16).',
   note=BASE_NOTE + 'The unsafe ptr::copy is modelled as an unchecked memmove over a flat cell memory containing the guard regions.',
   technique=TECH),
 'C11': dict(
   text='Theorems: the validator of the model is equivalent to the Unicode Table 3-7 grammar; encodings of scalar values are valid; validity is closed under concatenation and zero padding; a cut at a char boundary of an encoded string is an encoding of a prefix; from_bytes/new hand out a handle only for valid payloads and refuse exactly the invalid ones; copy_from_str of any string keeps the handle valid, for any sequence of copies and any prefix width; PodStr::as_str returns only valid text. Tie: validator compared with str::from_utf8 on structured and exhaustive short byte strings, every cut position.',
   note=BASE_NOTE + 'Modelled, not verified: that core::str::from_utf8 accepts exactly Table 3-7 (checked by the byte-string stream of every run) and that safe &mut str methods preserve validity (std contract).',
   technique=TECH),
 'C13': dict(
   text='Theorems for a generic prefix width: new() records min(area, prefix max) little-endian and exposes the whole area when expressible (never the length modulo 2^(8p)); copy_from_str stores the longest prefix of characters that fits followed by zeros, keeps length/prefix bytes/trailing bytes; reload through from_bytes returns the same text and ignores bytes beyond the recorded length; size = prefix + length. Tie: buffer sizes around 255/256/257 and 65535/65536/65537, every cut position, copy sequences, both views, raw bytes compared.',
   note=BASE_NOTE,
   technique=TECH),
 'C14': dict(
   text='Theorems for every capacity N (including 0): copy/From store min(len,N) bytes then zeros independent of earlier content; round trip of every fitting NUL-free valid string; as_str total over arbitrary bytes (text before the first NUL, or an error); Display renders exactly that text; load of the value bytes (with any trailing bytes) is the value. Tie: capacities 0..32, strings over 1-4 byte characters and NUL, arbitrary byte contents.',
   note=BASE_NOTE + 'Display of text that is not valid UTF-8 is String::from_utf8_lossy (std) of the text before the first NUL: not modelled, checked by the harness against from_utf8_lossy of that prefix.',
   technique=TECH),
 'C15': dict(
   text='Theorems over all buffer contents and lengths, all 256 byte values (finite sweep lifted by forallb_forall) and an arbitrary is_some predicate, about the Gallina model of PodBool/PodOption/load/load_mut, including the lens laws of the load/load_mut view (store of the loaded value is the identity, last store wins, a loaded value is its own view, a store depends only on the value and the bytes behind the view); model and crate compared on every run.',
   note=BASE_NOTE + 'Modelled, not verified: that #[repr(C)] single-field wrappers have the size and bytes of the inner type (checked by the harness with size_of/bytes_of for inner types of 1, 4, 8 and 32 bytes).',
   technique='Coq proof (total functions over byte lists, finite sweep by vm_compute) + differential correspondence check'),
}

FULL = {
 'C01': dict(
   text='Master refinement theorem for both index widths: from an initialised buffer, every history of insert/remove/get/get_mut/contains/lowest/len/is_empty/is_full/capacity (and growth, re-open) on the concrete model (header words + record array, with the Rust panic sites explicit) returns exactly what a capacity-bounded sorted association list returns, with no Panic/Fuel outcome. Proved through an indexed-tree layer (rotations, rebalancing from stored heights) and a representation relation to the array (link lemmas for every C function, including the successor splice of remove); clause corollaries (never overwrites, remove only that key, latest value, minimum key). Model tied to the crate on every run: random and exhaustive histories, single steps from every AVL shape up to 8/11 nodes and sparse Fibonacci shapes up to 12 levels, a state with more than 2^16 live entries, both handle disciplines, ten layouts. The handle is explicit in the model (Avl/Session.v): the same theorems are proved for a mutable view that stays open across operations, including a tree initialised with a capacity smaller than its buffer (36 session theorems), and the driver follows the handle discipline of the harness.',
   note=BASE_NOTE + 'Keys are integers (any totally ordered key type is order-isomorphic on a finite history); u32 tree for capacities below 2^32-1, u8 tree up to 255 (growth up to 254 records).',
   technique=TECH),
 'C04': dict(
   text='Theorems: decode(encode s) = s for every invariant state of every collection (a handle is a function of the bytes); opening a collection whose record count matches its capacity is the identity (writes nothing); a history interrupted at any point by dropping the handle and re-opening from the bytes (also between other guard cells, i.e. relocated) continues identically; the bucket function depends only on value and capacity. Tie: each case is run uninterrupted, re-opened before every operation, and relocated to a differently placed copy after every operation, and the three implementation runs are compared with each other and with the model on results, contents and bytes.',
   note=BASE_NOTE + 'The model has no addresses: that the Rust handle keeps no hidden state and that links are indices, not pointers, is established by the three-way differential run, not by a theorem.',
   technique=TECH),
 'C05': dict(
   text='Frame theorem for the only raw-pointer accesses of the crate (the two ptr::copy of the array sets), modelled as an UNCHECKED memmove over a flat memory containing arbitrary guard cells on both sides: every operation leaves the guards unchanged and its result and contents are independent of them, for every history; a negative control shows the theorem fails for the upstream copy count. Since the repair of D13 (the shift trusted the length prefix of the caller bytes) the code uses the checked copy_within; Arr/Checked.v models it, proves it equal to the unchecked model on invariant states and proves the frame and guard-independence properties for ALL states, reachable or not. All other code is safe Rust whose out-of-range index is a panic; the model shows that panic unreachable (C12). Tie: buffers embedded in guard regions under two fill patterns (results must not differ, guards must be intact), views over bytes that are not a reachable state (corrupted headers and links, cut buffers, re-initialised collections) on the implementation alone, audit of every unsafe site in /repo/src against an audited list.',
   note=BASE_NOTE + 'That safe Rust cannot touch memory outside its slices is the language guarantee (trusted); from_utf8_unchecked sites rely on C11.',
   technique=TECH),
 'C06': dict(
   text='Theorems: in every reachable state (any history incl. growth) the represented tree is height-balanced with exact stored heights; levels are bounded by the Fibonacci-like minimum-node function (tight; closed form 2^(levels/2) <= n+1; at most 11 resp. 45 levels); the comparison log of get/contains/get_mut/insert/remove is exactly the keys on one root-to-leaf path, each at most twice, so at most `levels` distinct keys; the array-set binary search makes at most floor(log2 n)+1 = ceil(log2(n+1)) comparisons. Tie: a key type that logs its comparisons, the decoded shape of the implementation bytes compared with the model after every operation.',
   note=BASE_NOTE,
   technique=TECH),
 'C07': dict(
   text='Theorems (trees of both widths, hash set): from every invariant/reachable state with n entries and capacity c, any c-n distinct absent keys can all be inserted without panic, afterwards the collection is full and refuses; is_full iff n = c; the slot handed out is never a live slot; a released slot is the next one handed out. Based on an allocator invariant (bump cursor incl. the u8 wrap at 255, intrusive free list, stale terminator after growth). Tie: a fill probe on a copy of the state after random/exhaustive/sparse histories, slot numbers compared.',
   note=BASE_NOTE,
   technique=TECH),
 'C08': dict(
   text='Theorems: extending the buffer by k zeroed records and re-opening mutably preserves the invariant and the contents, raises the capacity by exactly k, and exactly k more entries fit; holds for repeated growth and any continuation (growth is an operation of the master refinement); a read-only view of the extended buffer reports the old capacity and the same contents; array sets keep their members and gain exactly k slots. Tie: growth at random points of random histories and from every enumerated shape, with recycled and never-used slots present.',
   note=BASE_NOTE + 'u8 tree: total records at most 254 (the property\'s own bound); growing to exactly 255 records with a released slot outstanding panics in the model and in the crate and is outside the quantifier.',
   technique=TECH),
 'C09': dict(
   text='Theorems: a refused insert (duplicate or full), a remove/take of an absent element and every query return the very same state (Leibniz), hence byte-identical encodings, for trees, hash set and array sets. Tie: buffer digest before/after every call the implementation itself reports as refused or that is a query; includes a hash value type whose equality ignores a payload, a one-byte prefix over 300 slots, and refused operations through a long-lived handle on a tree whose buffer is larger than its capacity (session theorems: same state, same bytes, same capacity word).',
   note=BASE_NOTE,
   technique=TECH),
 'C10': dict(
   text='Theorems: an independent reader of the documented format (written from the prose: header word order, 1-based links, free chain through the height/next register, SipHash bucket rule) applied to the encoding of any invariant/reachable state recovers exactly the contents the API reports, the header words, and a partition of all slots into live / recycled / never used; encoding length = data_len; insert returns the slot holding the entry; live entries never move. Tie: whole buffers compared byte-for-byte with the model\'s encode for six layouts with padding, and the extracted reader is run on the implementation\'s bytes after every operation.',
   note=BASE_NOTE + 'SipHash-1-3 with zero keys is modelled in Base/Sip.v (checked to reproduce DefaultHasher bit-for-bit on every run through the byte comparison); the hash-set theorems hold for an arbitrary hash function.',
   technique=TECH),
 'C12': dict(
   text='Theorems: no Panic and no Fuel outcome in any history from any accepted configuration (capacities 0, 1, 2, ... up to 255 for the u8 tree, whose totality depends on the height bound; every prefix width; slot counts beyond what the prefix can count); an all-zero buffer reads as empty through every read-only query of every collection. Tie: boundary configurations with overflow checks on, watchdog for endless loops, zero buffers of many lengths.',
   note=BASE_NOTE,
   technique=TECH),
}
CLAIMED.update(FULL)
PENDING = []
NOT_APPLICABLE = {p: 'not yet claimed: the model, the correspondence check and the oracles for this property run (bin/check %s), but its Coq theorems for the AVL trees are still being proved in this session; it will be claimed when Properties/%s.v is complete' % (p, p) for p in PENDING}
