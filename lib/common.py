"""Shared plumbing for the checks: building, running the harness (real
stevia) and the driver (extracted Coq model) on case files, parsing their
per-step lines."""
import os, subprocess, sys, time, json, hashlib, re, shutil

VERIF = os.path.dirname(os.path.dirname(os.path.abspath(__file__)))
COQ = os.path.join(VERIF, 'coq')
# The registered checks always verify /repo.  For mutation experiments only, VERIF_REPO points the
# harness at a scratch copy of the repository and VERIF_INSTANCE gives this run private work, harness
# and replay directories, so that several experiments can run side by side.
REPO = os.environ.get('VERIF_REPO', '/repo')
INSTANCE = os.environ.get('VERIF_INSTANCE', '')
HARNESS = os.path.join(VERIF, 'harness') if not INSTANCE else os.path.join(VERIF, 'work', 'inst', INSTANCE, 'harness')
DRIVER = os.path.join(VERIF, 'model', 'driver')
# the extracted list functions are not tail recursive: large states need a deep stack
DRIVER_CMD = ['bash', '-c', 'ulimit -s unlimited 2>/dev/null || ulimit -s 4000000 2>/dev/null; exec "$0" "$@"', DRIVER]
WORK = os.path.join(VERIF, 'work') if not INSTANCE else os.path.join(VERIF, 'work', 'inst', INSTANCE, 'work')
REPLAYS = os.path.join(VERIF, 'replays') if not INSTANCE else os.path.join(VERIF, 'work', 'inst', INSTANCE, 'replays')
EVIDENCE = os.path.join(VERIF, 'evidence') if not INSTANCE else os.path.join(VERIF, 'work', 'inst', INSTANCE, 'evidence')

def prepare_instance():
    """private copy of the harness crate pointing at VERIF_REPO"""
    if not INSTANCE:
        return
    src = os.path.join(VERIF, 'harness')
    if not os.path.exists(os.path.join(HARNESS, 'Cargo.toml')):
        os.makedirs(HARNESS, exist_ok=True)
        for item in ('src', '.cargo', 'Cargo.lock'):
            a = os.path.join(src, item); b = os.path.join(HARNESS, item)
            if os.path.isdir(a):
                shutil.copytree(a, b, dirs_exist_ok=True)
            else:
                shutil.copy(a, b)
        t = open(os.path.join(src, 'Cargo.toml')).read().replace('path = "/repo"', 'path = "%s"' % REPO)
        open(os.path.join(HARNESS, 'Cargo.toml'), 'w').write(t)
NPROC = 16

def sh(cmd, timeout=3000, cwd=None, env=None):
    e = dict(os.environ)
    e['CARGO_NET_OFFLINE'] = 'true'
    if env:
        e.update(env)
    p = subprocess.run(cmd, shell=True, cwd=cwd, env=e, timeout=timeout,
                       stdout=subprocess.PIPE, stderr=subprocess.STDOUT, text=True)
    return p.returncode, p.stdout

class Case:
    __slots__ = ('id', 'kind', 'header', 'ops', 'tags')
    def __init__(self, id, kind, header, ops, tags=None):
        self.id = id; self.kind = kind; self.header = dict(header); self.ops = list(ops)
        self.tags = tags or {}
    def text(self, mode=None):
        h = dict(self.header)
        if mode:
            h['mode'] = mode
        hs = ' '.join('%s=%s' % (k, v) for k, v in h.items())
        return 'case %s %s %s\n%s\nend\n' % (self.id, self.kind, hs, '\n'.join(self.ops))
    def clone(self, id=None, ops=None, header=None):
        return Case(id or self.id, self.kind, header if header is not None else self.header,
                    ops if ops is not None else self.ops, dict(self.tags))
    def to_json(self):
        return {'id': self.id, 'kind': self.kind, 'header': self.header, 'ops': self.ops}
    @staticmethod
    def from_json(j):
        return Case(j['id'], j['kind'], j['header'], j['ops'])

def parse_output(text):
    """-> ({case id: [step dict]}, hang_case_or_None)"""
    res = {}
    cur = None
    last_begin = None
    hang = None
    for line in text.split('\n'):
        if not line:
            continue
        if line.startswith('begin '):
            last_begin = line[6:].strip()
        elif line.startswith('case '):
            cur = []
            res[line[5:].strip()] = cur
        elif line == 'end':
            cur = None
        elif line == 'HANG':
            hang = last_begin
        elif cur is not None:
            toks = line.split(' ')
            d = {'i': int(toks[0])}
            for t in toks[1:]:
                k, _, v = t.partition('=')
                d[k] = v
            cur.append(d)
    return res, hang

def _limit():
    import resource
    resource.setrlimit(resource.RLIMIT_AS, (3 << 30, 3 << 30))

def _run_proc(cmd, path, limit=False):
    if limit:
        # address-space cap so that a runaway loop that allocates dies quickly (no preexec_fn: threads)
        cmd = ['bash', '-c', 'ulimit -v 4194304; exec "$@"', 'sh'] + cmd
    return subprocess.Popen(cmd + [path], stdout=subprocess.PIPE, stderr=subprocess.PIPE, text=True)

def harness_bin(release=False):
    return os.path.join(HARNESS, 'target', 'release' if release else 'debug', 'stevia-harness')

def _run_impl_shard(cmd, cases, path, mode, crashed, skipped):
    """run the harness on a shard; if it dies (endless loop caught by the watchdog, memory
    blow-up, abort) note the case it died in and go on with the cases after it"""
    res = {}
    todo = list(cases)
    rounds = 0
    while todo and rounds < 4:
        rounds += 1
        with open(path, 'w') as f:
            for c in todo:
                f.write(c.text(mode))
        p = _run_proc(cmd, path, limit=True)
        o, e = p.communicate()
        r, hang = parse_output(o)
        res.update(r)
        if p.returncode == 0:
            break
        last = None
        for line in o.split('\n'):
            if line.startswith('begin '):
                last = line[6:].strip()
        if last is None:
            raise RuntimeError('harness failed: rc=%s %s' % (p.returncode, e[-2000:]))
        crashed.append(last)
        res.setdefault(last, [])
        ids = [c.id for c in todo]
        todo = todo[ids.index(last) + 1:] if last in ids else []
    else:
        # too many crashes in this shard: the remaining cases were not run
        skipped.extend(c.id for c in todo)
    return res

def run_cases(cases, workdir, tag, full=False, fill='a5', mode=None, impl=True, model=True, release=False, hang_s=None):
    """Run cases on the implementation and/or the model, sharded over the
    cores.  Returns (impl_steps, model_steps, hang_case)."""
    os.makedirs(workdir, exist_ok=True)
    # shard by the amount of work (operations), not only by the number of cases
    work = sum(len(c.ops) for c in cases)
    nshard = max(1, min(NPROC, len(cases), max(len(cases) // 20 + 1, work // 1500 + 1)))
    shards = [[] for _ in range(nshard)]
    for i, c in enumerate(cases):
        shards[i % nshard].append(c)
    import concurrent.futures
    impl_steps, model_steps, crashed, skipped = {}, {}, [], []
    futs = []
    pms = []
    with concurrent.futures.ThreadPoolExecutor(max_workers=nshard) as ex:
        for si, sh_cases in enumerate(shards):
            path = os.path.join(workdir, '%s.%d.case' % (tag, si))
            if model:
                mpath = path + '.m'
                with open(mpath, 'w') as f:
                    for c in sh_cases:
                        f.write(c.text(mode))
                pms.append(_run_proc(DRIVER_CMD + (['--full'] if full else []), mpath))
            if impl:
                cmd = [harness_bin(release)] + (['--full'] if full else []) + ['--fill', fill] + (['--hang', str(hang_s)] if hang_s else [])
                futs.append(ex.submit(_run_impl_shard, cmd, sh_cases, path, mode, crashed, skipped))
        for f in futs:
            impl_steps.update(f.result())
    for pm in pms:
        o, e = pm.communicate()
        if pm.returncode != 0:
            raise RuntimeError('driver failed: %s' % e[-2000:])
        r, _ = parse_output(o)
        model_steps.update(r)
    for cid in skipped:
        model_steps.pop(cid, None)
        impl_steps.pop(cid, None)
    return impl_steps, model_steps, (crashed[0] if crashed else None)

def decode_docs(lines, workdir, tag):
    """lines: list of 'kind params b=hex' -> list of doc dicts (driver --decode)."""
    if not lines:
        return []
    os.makedirs(workdir, exist_ok=True)
    nshard = max(1, min(NPROC, len(lines) // 200 + 1))
    chunks = [lines[i::nshard] for i in range(nshard)]
    procs = []
    for si, ch in enumerate(chunks):
        path = os.path.join(workdir, '%s.%d.dec' % (tag, si))
        with open(path, 'w') as f:
            f.write('\n'.join(ch) + '\n')
        procs.append(subprocess.Popen(DRIVER_CMD + ['--decode', path], stdout=subprocess.PIPE, text=True))
    outs = []
    for p in procs:
        o, _ = p.communicate()
        outs.append([l for l in o.split('\n') if l])
    res = [None] * len(lines)
    for si, o in enumerate(outs):
        for j, l in enumerate(o):
            d = {}
            for t in l.split(' '):
                k, _, v = t.partition('=')
                d[k] = v
            if si + j * nshard < len(res):
                res[si + j * nshard] = d
    # a reader process that died leaves its remaining lines unanswered: unreadable
    return [d if d is not None else {'doc': 'FAIL'} for d in res]

def mask_slot(r):
    if r and r[0] == 'S' and r != 'S*':
        return 'S*'
    return r

# ---------------------------------------------------------------- building
def build_all(log):
    """Bring the Coq development, the driver and the harness up to date with
    the working trees.  Returns (ok, message)."""
    os.makedirs(WORK, exist_ok=True)
    prepare_instance()
    t0 = time.time()
    if INSTANCE:
        # experiments never rebuild the shared Coq development or driver
        rc3, out3 = sh('RUSTFLAGS="--cfg stevia_verif" cargo build --offline 2>&1 | tail -30', cwd=HARNESS)
        if not os.path.exists(harness_bin()) or 'could not compile' in out3:
            return False, 'harness build failed: ' + out3[-3000:], True, ''
        return True, '', True, ''
    if not os.path.exists(os.path.join(COQ, 'Makefile')):
        sh('coq_makefile -f _CoqProject -o Makefile', cwd=COQ)
    rc, out = sh('timeout 3000 make -j16', cwd=COQ)
    coq_ok = rc == 0
    coq_msg = '' if coq_ok else out[-3000:]
    ml = os.path.join(COQ, 'model.ml')
    if os.path.exists(ml) and (not os.path.exists(DRIVER) or os.path.getmtime(ml) > os.path.getmtime(DRIVER)
                               or os.path.getmtime(os.path.join(VERIF, 'model', 'driver.ml')) > os.path.getmtime(DRIVER)):
        rc2, out2 = sh(os.path.join(VERIF, 'bin', 'build-driver'))
        if rc2 != 0:
            return False, 'driver build failed: ' + out2[-2000:], coq_ok, coq_msg
    rc3, out3 = sh('RUSTFLAGS="--cfg stevia_verif" cargo build --offline 2>&1 | tail -30', cwd=HARNESS)
    if not os.path.exists(harness_bin()) or 'error' in out3 and 'could not compile' in out3:
        return False, 'harness build failed (does /repo still compile?): ' + out3[-3000:], coq_ok, coq_msg
    log['build_s'] = round(time.time() - t0, 1)
    return True, '', coq_ok, coq_msg

def build_release():
    rc, out = sh('RUSTFLAGS="--cfg stevia_verif" cargo build --offline --release 2>&1 | tail -30', cwd=HARNESS)
    return os.path.exists(harness_bin(True)) and 'could not compile' not in out

FORBIDDEN = re.compile(r'\b(Admitted|admit|Axiom|Axioms|Parameter|Parameters|Conjecture|Conjectures|Abort All)\b|Unset Guard|bypass_check|type-in-type|impredicative-set|Admit Obligations')

def strip_comments(src):
    out = []; depth = 0; i = 0
    while i < len(src):
        if src.startswith('(*', i):
            depth += 1; i += 2
        elif src.startswith('*)', i) and depth > 0:
            depth -= 1; i += 2
        else:
            if depth == 0:
                out.append(src[i])
            i += 1
    return ''.join(out)

def audit_sources():
    """No Admitted/admit/Axiom/... anywhere in the development; Variable and
    Hypothesis only inside sections."""
    bad = []
    for root, _, files in os.walk(COQ):
        for fn in files:
            if not fn.endswith('.v'):
                continue
            p = os.path.join(root, fn)
            src = strip_comments(open(p).read())
            for m in FORBIDDEN.finditer(src):
                bad.append('%s: %s' % (os.path.relpath(p, COQ), m.group(0)))
            depth = 0
            for line in src.split('\n'):
                s = line.strip()
                if re.match(r'^Section\s', s):
                    depth += 1
                elif re.match(r'^End\s', s) and depth > 0:
                    depth -= 1
                elif re.match(r'^(Variable|Variables|Hypothesis|Hypotheses|Context)\b', s) and depth == 0:
                    bad.append('%s: %s outside a section' % (os.path.relpath(p, COQ), s[:40]))
    return bad

def audit_property(pid):
    """Compile Properties/<pid>.v on its own, capture its output and check
    every Print Assumptions.  Returns dict(obligations, discharged, axioms, ok, msg)."""
    path = os.path.join(COQ, 'Properties', pid + '.v')
    if not os.path.exists(path):
        return dict(obligations=0, discharged=0, axioms=[], ok=False, msg='no property file', theorems=[])
    src = strip_comments(open(path).read())
    theorems = re.findall(r'^\s*Theorem\s+(\w+)', src, re.M)
    rc, out = sh('timeout 600 coqc -Q . Stevia Properties/%s.v' % pid, cwd=COQ)
    if rc != 0:
        return dict(obligations=len(theorems), discharged=0, axioms=[], ok=False,
                    msg='coqc failed: ' + out[-1500:], theorems=theorems)
    closed = out.count('Closed under the global context')
    axioms = []
    for m in re.finditer(r'Axioms:\n((?:.+\n)+?)(?=\n|\Z|Closed|Axioms)', out):
        axioms.append(m.group(1).strip())
    prints = len(re.findall(r'^\s*Print Assumptions\s+(\w+)', src, re.M))
    ok = closed == prints and prints >= len(theorems) and not axioms
    return dict(obligations=len(theorems), discharged=closed if ok else min(closed, len(theorems)),
                axioms=axioms, ok=ok, theorems=theorems,
                msg='' if ok else 'Print Assumptions: %d of %d closed; axioms=%s' % (closed, prints, axioms))
