"""Per-property check logic: what is generated, which projection ties the
model to the implementation, and the oracles that judge the implementation's
own outputs when searching for a concrete failing input."""
import os, random, time, json, math, hashlib, re
import common as C
import gen as G

# =====================================================================
# findings
class Finding:
    def __init__(self, kind, case, step, what, extra=None, mode=None, fill='a5', sig=None):
        self.kind = kind      # 'oracle' (concrete failing input) | 'tie' (correspondence broke) | 'proof'
        self.case = case; self.step = step; self.what = what
        self.extra = extra or {}; self.mode = mode; self.fill = fill
        self.sig = sig or what.split(':')[0]

def steps_of(d, cid):
    return d.get(cid, [])

def tie_compare(cases, impl, model, fields, step_filter=None, mask=True, mode=None):
    """field-by-field comparison of implementation and model lines"""
    out = []
    n = 0
    for c in cases:
        si, sm = steps_of(impl, c.id), steps_of(model, c.id)
        if len(si) != len(sm):
            out.append(Finding('tie', c, min(len(si), len(sm)), 'step-count: impl %d model %d' % (len(si), len(sm)), mode=mode))
            continue
        for a, b in zip(si, sm):
            if step_filter and not step_filter(c, a, b):
                continue
            n += 1
            for f in fields:
                x, y = a.get(f), b.get(f)
                if f == 'r' and mask:
                    x, y = C.mask_slot(x), C.mask_slot(y)
                if x != y:
                    out.append(Finding('tie', c, a['i'], '%s: impl %s model %s' % (f, str(x)[:80], str(y)[:80]), mode=mode))
                    break
            else:
                continue
            break
    return out, n

def oracle_spec_api(cases, impl, model, mode=None):
    """implementation results against the spec's (s= field printed by the
    driver next to the model's own result)"""
    out = []
    for c in cases:
        if str(c.header.get('keep', '0')) == '1':
            # a tree initialised below the size of its buffer and used through the same handle: no property
            # says when the spare records count as capacity; differences from the model are tie findings only
            continue
        si, sm = steps_of(impl, c.id), steps_of(model, c.id)
        for k, b in enumerate(sm):
            if 's' not in b:
                continue
            if k >= len(si):
                out.append(Finding('oracle', c, b['i'], 'missing: implementation produced no step %d (spec %s)' % (b['i'], b['s']), mode=mode))
                break
            a = si[k]
            if C.mask_slot(a.get('r')) != b['s']:
                out.append(Finding('oracle', c, a['i'], 'api: op "%s" returned %s, reference says %s' % (c.ops[a['i']], a.get('r'), b['s']), mode=mode))
                break
    return out

def oracle_no_panic(cases, impl, hang, mode=None):
    out = []
    for c in cases:
        for a in steps_of(impl, c.id):
            if a.get('r') == 'P' and not c.tags.get('expect_panic'):
                out.append(Finding('oracle', c, a['i'], 'panic: op "%s" panicked' % c.ops[a['i']], mode=mode))
                break
        if hang == c.id:
            out.append(Finding('oracle', c, len(steps_of(impl, c.id)), 'hang: operation did not return within 20 s', mode=mode))
    return out

REFUSED = {'N', 'F'}
def is_noop_step(kind, op, r):
    name = op.split(' ')[0]
    if kind == 'avl':
        if name in ('get', 'has', 'low', 'len', 'empty', 'full', 'capq', 'gmut0', 'openro', 'fill', 'dbg'):
            return True
        return name in ('ins', 'rem') and r == 'N'
    if kind == 'hash':
        if name in ('has', 'size', 'full', 'empty', 'capq', 'iter', 'reopen', 'fill'):
            return True
        return name in ('ins', 'rem') and r == 'F'
    if kind == 'arr':
        if name in ('get', 'has', 'len', 'full', 'empty', 'deref'):
            return True
        return (name in ('ins', 'rem') and r == 'F') or (name == 'take' and r == 'N')
    return False

def oracle_bytes_unchanged(cases, impl, init_digest=None, mode=None):
    out = []
    n = 0
    for c in cases:
        prev = None
        # spare records not yet adopted by a mutable view (from_bytes_mut threads them into the free
        # list and raises the capacity word - the one legitimate write of a refused operation)
        h = c.header
        persistent = (mode or h.get('mode', 'persistent')) == 'persistent'
        pending = c.kind == 'avl' and 'cap' in h and 'nrec' in h and int(h['nrec']) > int(h['cap'])
        live = persistent and str(h.get('keep', '0')) == '1' and 'raw' not in h
        for a in steps_of(impl, c.id):
            if a.get('r') == 'P':
                break
            name = c.ops[a['i']].split(' ')[0]
            if name == 'ext':
                pending = True; live = False
            opens_mut = c.kind == 'avl' and name in ('ins', 'rem', 'gmut', 'gmut0', 'openmut')
            if name in ('openmut', 'openro'):
                live = False
            adopting = opens_mut and not live and pending
            if adopting:
                pending = False
            if opens_mut:
                live = True
            if not persistent:
                live = False
            if prev is not None and not adopting and is_noop_step(c.kind, c.ops[a['i']], a.get('r')):
                n += 1
                if a.get('d') != prev:
                    out.append(Finding('oracle', c, a['i'], 'bytes-changed: op "%s" returned %s (refused/query) but the buffer changed' % (c.ops[a['i']], a.get('r')), mode=mode))
                    break
            prev = a.get('d')
    return out, n

def oracle_guard(cases, implA, implB):
    out = []
    for c in cases:
        sa, sb = steps_of(implA, c.id), steps_of(implB, c.id)
        for a in sa:
            if a.get('g') == 'BAD':
                out.append(Finding('oracle', c, a['i'], 'guard: bytes adjacent to the buffer were modified by op "%s"' % c.ops[a['i']]))
                break
        else:
            for a in sb:
                if a.get('g') == 'BAD':
                    out.append(Finding('oracle', c, a['i'], 'guard: bytes adjacent to the buffer were modified by op "%s"' % c.ops[a['i']], fill='00'))
                    break
            else:
                for a, b in zip(sa, sb):
                    if any(a.get(f) != b.get(f) for f in ('r', 'd', 'abs')):
                        out.append(Finding('oracle', c, a['i'], 'guard-dependence: result or contents of op "%s" depend on the bytes adjacent to the buffer' % c.ops[a['i']]))
                        break
    return out

def doc_lines(cases, impl):
    lines, index = [], []
    for c in cases:
        for a in steps_of(impl, c.id):
            if 'b' in a:
                h = c.header
                if c.kind == 'avl':
                    lines.append('avl bits=%s lay=%s b=%s' % (h['bits'], h['lay'], a['b']))
                elif c.kind == 'hash':
                    lines.append('hash vty=%s b=%s' % (h['vty'], a['b']))
                elif c.kind == 'arr':
                    lines.append('arr p=%s vty=%s b=%s' % (h['p'], h['vty'], a['b']))
                else:
                    continue
                index.append((c, a))
    return lines, index

def abs_contents(kind, a):
    x = a.get('abs')
    if x is None:
        return None
    if kind == 'hash':
        return x.split(';')[1]     # iteration, sorted: every member, universe-independent
    return x

def minnodes(h):
    a, b = 0, 1
    for _ in range(h):
        a, b = b, a + b + 1
    return a

def max_levels(n):
    h = 0
    while minnodes(h + 1) <= n:
        h += 1
    return h

def oracle_doc(cases, impl, workdir, tag, want=('wf', 'cont'), mode=None):
    """apply the extracted independent reader to the implementation's bytes"""
    lines, index = doc_lines(cases, impl)
    docs = C.decode_docs(lines, workdir, tag)
    out = []
    seen = set()
    n = 0
    for (c, a), d in zip(index, docs):
        if c.id in seen:
            continue
        n += 1
        bad = None
        if d.get('doc') == 'FAIL':
            if 'wf' in want:
                bad = 'format: the independent reader cannot read the buffer after op "%s"' % c.ops[a['i']]
        elif 'wf' in want and d.get('wf') != 'T':
            bad = 'format: slot classification/structure ill-formed after op "%s" (hdr=%s free=%s never=%s)' % (c.ops[a['i']], d.get('doc'), d.get('free'), d.get('never'))
        elif 'wf' in want and 'nobst' not in want and c.kind == 'avl' and d.get('bst') != 'T':
            bad = 'format: in-order keys not ascending after op "%s"' % c.ops[a['i']]
        elif 'cont' in want and c.kind != 'avl' and abs_contents(c.kind, a) is not None and d.get('cont') != abs_contents(c.kind, a):
            bad = 'format: decoded contents %s differ from what the API reports %s after op "%s"' % (d.get('cont'), abs_contents(c.kind, a), c.ops[a['i']])
        elif 'cont' in want and c.kind == 'avl' and a.get('abs') is not None:
            # API contents are restricted to the case's key universe: every reported entry must be decoded and vice versa
            api = set(a['abs'].split(',')) if a['abs'] != '-' else set()
            dec = set(d.get('cont', '-').split(',')) if d.get('cont', '-') != '-' else set()
            uni = c.tags.get('uni')
            if not api <= dec or (uni is not None and {x for x in dec if int(x.split(':')[0]) in uni} != api):
                bad = 'format: decoded contents %s differ from what the API reports %s after op "%s"' % (d.get('cont'), a['abs'], c.ops[a['i']])
        if d.get('doc') == 'FAIL' and not bad:
            continue
        if not bad and 'slot' in want and c.kind == 'avl':
            r = a.get('r', '')
            op = c.ops[a['i']].split(' ')
            if op[0] == 'ins' and r.startswith('S'):
                m = re.search(r'[,(]%s:(-?\d+):' % r[1:], d.get('tree', ''))
                if not m or int(m.group(1)) != int(op[1]):
                    bad = 'format: insert returned slot %s but that record does not hold key %s' % (r[1:], op[1])
        if not bad and 'bal' in want and c.kind == 'avl':
            if not shape_balanced(d.get('tree', '.')):
                bad = 'balance: after op "%s" the subtrees of some node differ by more than one level: %s' % (c.ops[a['i']], d.get('tree'))
            else:
                nn = 0 if d.get('cont', '-') == '-' else len(d['cont'].split(','))
                if int(d.get('lv', 0)) > max_levels(nn):
                    bad = 'balance: %d levels for %d entries' % (int(d['lv']), nn)
        a['_doc'] = d
        if bad:
            seen.add(c.id)
            out.append(Finding('oracle', c, a['i'], bad, mode=mode))
    return out, n

def oracle_moves(cases, impl):
    """a live entry never moves to another record (needs _doc from oracle_doc)"""
    out = []
    for c in cases:
        if c.kind not in ('avl', 'hash'):
            continue
        prev = None
        for a in steps_of(impl, c.id):
            d = a.get('_doc')
            if not d or ('tree' not in d and 'chains' not in d):
                prev = None
                continue
            if c.kind == 'avl':
                cur = {int(k): int(s) for s, k in re.findall(r'[,(](\d+):(-?\d+):', d['tree'])}
            else:
                cur = {int(v): int(s) for s, v in re.findall(r'(\d+):(-?\d+)', d['chains'])}
            if prev is not None:
                op = c.ops[a['i']].split(' ')
                for k, s in cur.items():
                    if k in prev and prev[k] != s and not (op[0] in ('rem', 'ins') and int(op[1]) == k):
                        out.append(Finding('oracle', c, a['i'], 'format: live entry %d moved from record %d to %d during op "%s"' % (k, prev[k], s, c.ops[a['i']])))
                        break
                else:
                    prev = cur
                    continue
                break
            prev = cur
    return out

def oracle_cmps(cases, impl):
    """C06: the keys compared lie on one root-to-leaf path of the tree as it
    was before the call, in order, each at most twice"""
    out = []
    n = 0
    for c in cases:
        prev_doc = None
        for a in steps_of(impl, c.id):
            d = a.get('_doc')
            if c.kind == 'avl' and 'cm' in a and prev_doc is not None and 'tree' in prev_doc:
                n += 1
                log = [int(x) for x in a['cm'].split(',')]
                lv = int(prev_doc.get('lv', 0))
                distinct = []
                for k in log:
                    if not distinct or distinct[-1] != k:
                        distinct.append(k)
                counts = {}
                for k in log:
                    counts[k] = counts.get(k, 0) + 1
                # C06: only keys of ONE root-to-leaf path, each a small constant number of times (a second
                # descent over the same path is still logarithmic): the distinct keys, in order of first
                # appearance, must be a path from the root, and no key may be compared more than 6 times
                first = []
                for k in distinct:
                    if k not in first:
                        first.append(k)
                distinct = first
                path_ok = is_tree_path(prev_doc['tree'], distinct)
                if len(distinct) > lv or max(counts.values()) > 6 or not path_ok:
                    out.append(Finding('oracle', c, a['i'], 'cost: op "%s" compared the key with %s (tree had %d levels; path=%s)' % (c.ops[a['i']], a['cm'], lv, path_ok)))
                    break
            if c.kind == 'arr' and 'cm' in a:
                n += 1
                ln = 0 if a.get('abs', '-') == '-' else len(a['abs'].split(','))
                if c.ops[a['i']].startswith('gmut') and a.get('r') == 'N':
                    pass
                # C06 bounds the ELEMENTS the sought value is compared with (ceil(log2(n+1))+1), not the number
                # of comparison calls; cl= lists the elements compared when the harness reports them
                bound = math.ceil(math.log2(ln + 1)) + 1
                if 'cl' in a:
                    elems = int(a['cl'])
                else:
                    elems = (int(a['cm']) + 1) // 2      # at most two calls per element (cmp, or < then >)
                if elems > bound:
                    out.append(Finding('oracle', c, a['i'], 'cost: lookup "%s" in %d elements compared the value with %d elements (bound %d)' % (c.ops[a['i']], ln, elems, bound)))
                    break
            prev_doc = d
    return out, n

def shape_balanced(tree_s):
    """height balance of the decoded shape alone (the stored height registers are not judged here)"""
    try:
        t = parse_tree(tree_s)
    except Exception:
        return False
    ok = [True]
    def lv(x):
        if x is None:
            return 0
        a, b = lv(x[0]), lv(x[2])
        if abs(a - b) > 1:
            ok[0] = False
        return 1 + max(a, b)
    import sys
    sys.setrecursionlimit(10000)
    lv(t)
    return ok[0]

def parse_tree(s):
    """'(l,slot:k:v:h,r)' / '.' -> nested (l, key, r)"""
    pos = [0]
    def go():
        if s[pos[0]] == '.':
            pos[0] += 1
            return None
        assert s[pos[0]] == '('
        pos[0] += 1
        l = go()
        pos[0] += 1
        j = s.index(',', pos[0])
        k = int(s[pos[0]:j].split(':')[1])
        pos[0] = j + 1
        r = go()
        pos[0] += 1
        return (l, k, r)
    return go()

def is_tree_path(tree_s, keys):
    try:
        t = parse_tree(tree_s)
    except Exception:
        return False
    for k in keys:
        if t is None or t[1] != k:
            return False
        nxt = keys[keys.index(k) + 1] if keys.index(k) + 1 < len(keys) else None
        if nxt is None:
            return True
        t = t[0] if nxt < k else t[2]
    return True

# =====================================================================
# string / pod oracles, written independently of the Coq model
def longest_fitting_prefix(s_bytes, room):
    """longest prefix of a UTF-8 string that fits in `room` bytes without splitting a character"""
    s = s_bytes.decode('utf-8')
    out = b''
    for ch in s:
        e = ch.encode('utf-8')
        if len(out) + len(e) > room:
            break
        out += e
    return out

def unhex(s):
    return b'' if s in ('-', '') else bytes.fromhex(s)

def is_utf8(b):
    try:
        b.decode('utf-8'); return True
    except UnicodeDecodeError:
        return False

def oracle_pstr(cases, impl, props):
    """C11 / C13 on the implementation's own outputs"""
    out = []
    for c in cases:
        if c.kind != 'pstr':
            continue
        p = int(c.header['p']); size = int(c.header['size'])
        pmax = (1 << (8 * p)) - 1
        cur = None          # expected payload bytes when known
        plen = 0 if size >= p else None      # the buffer starts all zero: recorded length 0
        content = bytearray(size)            # buffer contents when known
        if 'init' in c.header:
            ini = unhex(c.header['init']); content[:len(ini)] = ini[:size]
            plen = None
        for a in steps_of(impl, c.id):
            op = c.ops[a['i']].split(' ')
            r = a.get('r', '')
            bad = None
            if '!INVALID' in r and 'C11' in props:
                bad = 'utf8: op "%s" handed out a str that is not valid UTF-8: %s' % (op[0], r)
            if r == 'P':
                # with the recorded length known to fit the area (a handle was created by new(), or the
                # buffer is still all zero) no view, reload or copy may panic
                if 'C13' in props and plen is not None and not c.tags.get('expect_panic') \
                        and op[0] in ('ro', 'rw', 'asstr', 'size', 'copy', 'copysl', 'upper'):
                    out.append(Finding('oracle', c, a['i'], 'prefix: op "%s" panicked although the recorded length %d fits the %d payload bytes'
                                       % (op[0], plen, size - p)))
                break
            if op[0] == 'new' and content is not None and size >= p and (r == 'E' or r.startswith('O')):
                # judged on the bytes the implementation itself reported before this call
                shown = bytes(content[p:p + min(size - p, pmax)])
                if r == 'E' and is_utf8(shown) and size - p <= pmax:
                    bad = 'new() refused a buffer whose %d payload bytes are valid UTF-8' % len(shown)
                elif r.startswith('O') and not is_utf8(shown) and 'C11' in props:
                    bad = 'utf8: new() accepted a buffer whose first %d payload bytes are not valid UTF-8' % len(shown)
            if bad:
                pass
            elif op[0] == 'new' and r.startswith('O') and 'C13' in props:
                area = size - p
                got = int(r[1:])
                if area <= pmax and got != area:
                    bad = 'prefix: new() over %d payload bytes exposes %d' % (area, got)
                if area > pmax and got == area % (pmax + 1) and got != pmax:
                    bad = 'prefix: new() over %d payload bytes silently wrapped the length to %d' % (area, got)
                plen = got; cur = None
                if 'b' in a and not bad:
                    if int.from_bytes(unhex(a['b'])[:p], 'little') != got:
                        bad = 'prefix: recorded length bytes %s do not encode %d little-endian' % (a['b'][:2 * p], got)
            elif op[0] == 'new':
                plen = None; cur = None
            elif op[0] == 'setbuf':
                plen = None; cur = None
            elif op[0] == 'copy' and r == 'U' and plen is not None and 'C13' in props:
                src = unhex(op[1])
                keep = longest_fitting_prefix(src, plen)
                cur = keep + bytes(plen - len(keep))
            elif op[0] == 'copysl' and r == 'U' and plen is not None and 'C13' in props:
                src = unhex(op[1]) if len(op) > 1 else b''
                cur = src[:plen] + bytes(plen - len(src[:plen]))
            elif op[0] == 'upper' and '!DEREF' in r and 'C13' in props:
                bad = 'prefix: the &mut str of deref_mut() is not the text as_str() returns'
            elif op[0] == 'upper' and cur is not None:
                cur = bytes(b - 32 if 97 <= b <= 122 else b for b in cur)
            elif op[0] == 'asstr' and r.startswith('O') and 'C13' in props:
                got = unhex(r[1:].split('!')[0])
                if '!DEREF' in r:
                    bad = 'prefix: as_str() and deref() disagree'
                elif cur is not None and got != cur:
                    bad = 'prefix: after copy the string is %s, expected the longest fitting prefix zero-filled %s' % (got.hex(), cur.hex())
                elif plen is not None and len(got) != plen:
                    bad = 'prefix: string length %d, recorded length %d' % (len(got), plen)
            elif op[0] == 'size' and r.startswith('#') and plen is not None and 'C13' in props:
                if int(r[1:]) != p + plen:
                    bad = 'prefix: size() = %s, expected %d' % (r[1:], p + plen)
            elif op[0] == 'rw' and r.startswith('O') and 'C13' in props:
                body, _, sz = r[1:].partition(':')
                got = unhex(body.split('!')[0])
                if cur is not None and got != cur:
                    bad = 'prefix: mutable reload gives %s, the previous view held %s' % (got.hex(), cur.hex())
                elif plen is not None and int(sz) != p + plen:
                    bad = 'prefix: size() after a mutable reload = %s, expected %d' % (sz, p + plen)
                plen = len(got); cur = got
            elif op[0] == 'rw':
                plen = None; cur = None
            elif op[0] == 'ro' and r.startswith('O') and 'C13' in props:
                body, _, sz = r[1:].partition(':')
                got = unhex(body.split('!')[0])
                if cur is not None and got != cur:
                    bad = 'prefix: read-only reload gives %s, the mutable view held %s' % (got.hex(), cur.hex())
                elif plen is not None and int(sz) != p + plen:
                    bad = 'prefix: read-only size() = %s, expected %d' % (sz, p + plen)
            elif op[0] == 'ro' and r == 'E' and cur is not None and is_utf8(cur) and 'C13' in props:
                bad = 'prefix: read-only reload refuses bytes the mutable view held as a string'
            if op[0] in ('ro', 'rw') and 'b' in a and not bad:
                buf = unhex(a['b'])
                ln = int.from_bytes(buf[:p], 'little')
                if ln <= len(buf) - p:
                    pay = buf[p:p + ln]
                    valid = is_utf8(pay)
                    if r == 'E' and valid and 'C13' in props:
                        bad = 'prefix: ' + 'from_bytes refused a valid UTF-8 payload of %d bytes (bytes beyond the recorded length must be ignored)' % ln
                    if r.startswith('O') and not valid and 'C11' in props:
                        bad = 'utf8: from_bytes accepted a payload that is not UTF-8: %s' % pay.hex()
                    if r.startswith('O') and valid and 'C13' in props and r != 'O%s:%d' % (pay.hex() or '-', p + ln):
                        bad = 'prefix: from_bytes over recorded length %d returned %s' % (ln, r[:60])
            if bad:
                out.append(Finding('oracle', c, a['i'], bad))
                break
            content = bytearray(unhex(a['b'])) if 'b' in a else None
    return out

def oracle_podstr(cases, impl, props):
    out = []
    for c in cases:
        if c.kind != 'podstr':
            continue
        n = int(c.header['n'])
        val = bytes(n)
        for a in steps_of(impl, c.id):
            op = c.ops[a['i']].split(' ')
            r = a.get('r', '')
            bad = None
            if r == 'P':
                if op[0] != 'loadshort':
                    out.append(Finding('oracle', c, a['i'], 'podstr: op "%s" panicked' % c.ops[a['i']]))
                break
            if op[0] == 'default':
                val = bytes(n)
                if 'b' in a and unhex(a['b']) != val:
                    bad = 'podstr: the Default value holds %s, expected the empty string (all zero bytes)' % a['b']
            if op[0] in ('from', 'fromstring', 'copy', 'copysl'):
                src = unhex(op[1])
                val = src[:n] + bytes(n - min(n, len(src)))
                if 'b' in a and unhex(a['b']) != val:
                    bad = 'podstr: after %s of %s the value bytes are %s, expected %s' % (op[0], src.hex(), a['b'], val.hex())
            text = val.split(b'\x00')[0]
            if op[0] == 'asstr':
                if is_utf8(text):
                    if r != 'O' + (text.hex() or '-'):
                        bad = 'podstr: as_str() = %s, expected Ok(%s)' % (r, text.hex())
                elif r != 'E':
                    bad = 'podstr: as_str() = %s on invalid UTF-8 %s' % (r, text.hex())
                if r.startswith('O') and not is_utf8(unhex(r[1:])) and 'C11' in props:
                    bad = 'utf8: PodStr::as_str returned invalid UTF-8 %s' % r[1:]
            if op[0] == 'disp' and 'C14' in props:
                if is_utf8(text):
                    if r != 'D' + (text.hex() or '-'):
                        bad = 'podstr: Display renders %s, the text is %s' % (r[1:], text.hex() or '-')
                # text that is not UTF-8: C14 does not say what Display renders (the harness compares with
                # from_utf8_lossy and prints D~ or D!): not judged
            if op[0] == 'load' and r != 'T' and 'C14' in props:
                bad = 'podstr: load(bytes_of(x)) != x'
            if op[0] == 'loadshort' and r != 'P':
                bad = 'podstr: load from a too-short buffer did not panic'
            if bad:
                out.append(Finding('oracle', c, a['i'], bad))
                break
    return out

def oracle_pod(cases, impl):
    out = []
    for c in cases:
        if c.kind != 'pod':
            continue
        for a in steps_of(impl, c.id):
            op = c.ops[a['i']].split(' ')
            r = a.get('r', '')
            bad = None
            if '!BAD' in r:
                bad = 'pod: internal consistency failed for "%s": %s' % (c.ops[a['i']], r)
            elif op[0] == 'bool':
                if r != ('T' if int(op[1]) != 0 else 'F'):
                    bad = 'pod: byte %s decodes to %s' % (op[1], r)
            elif op[0] == 'frombool':
                if r != '#%d' % (1 if int(op[1]) else 0):
                    bad = 'pod: bool %s encodes to %s' % (op[1], r)
            elif op[0] == 'load':
                sz = int(op[1]); data = unhex(op[2])
                exp = 'P' if len(data) < sz else 'O' + data[:sz].hex()
                if r != exp:
                    bad = 'pod: load of %d-byte type from %d bytes gives %s, expected %s' % (sz, len(data), r, exp)
            elif op[0] == 'loadoff':
                sz = int(op[1]); off = int(op[2]); data = unhex(op[3])
                al = {4: 4, 8: 8}.get(sz, 1)
                exp = 'P' if (len(data) < sz or off % al != 0) else 'O' + data[:sz].hex()
                if r != exp:
                    bad = 'pod: load of %d-byte type from a slice at offset %d of an aligned buffer gives %s, expected %s (the view must be exactly the first size_of bytes, or the call must be refused)' % (sz, off, r, exp)
            elif op[0] == 'loadmutnw':
                sz = int(op[1]); data = unhex(op[2])
                exp = 'P' if len(data) < sz else 'O' + (data.hex() or '-')
                if r != exp:
                    bad = 'pod: load_mut of a %d-byte type without any write changed the buffer: %s, expected %s' % (sz, r, exp)
            elif op[0] == 'loadmut':
                sz = int(op[1]); data = unhex(op[2]); v = unhex(op[3])
                exp = 'P' if len(data) < sz else 'O' + (v + data[sz:]).hex()
                if r != exp:
                    bad = 'pod: load_mut write gives %s, expected %s' % (r, exp)
            elif op[0] == 'opt':
                sz = int(op[1]); data = unhex(op[2])
                if len(data) < sz:
                    exp = 'P'
                else:
                    inner = data[:sz]
                    some = True if sz == 0 else ((inner != b'\xff' * 8) if sz == 8 else ((any(inner) and inner != b'\xff\xff') if sz == 2 else any(inner)))
                    exp = 'TT' if some else 'FF'
                if r != exp:
                    bad = 'pod: PodOption over %s gives %s, expected %s' % (data.hex(), r, exp)
            if bad:
                out.append(Finding('oracle', c, a['i'], bad))
                break
    return out
