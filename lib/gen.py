"""Case generators.  Every random choice derives from one random.Random
seeded by VERIF_SEED, so a run replays exactly."""
import itertools, struct
from common import Case

LAYOUTS = {  # name: (ksz, ksigned, vsz)
    'u64u64': (8, False, 8), 'u32u32': (4, False, 4), 'u8u64': (1, False, 8),
    'u64u8': (8, False, 1), 'u16u32': (2, False, 4), 'i64u16': (8, True, 2), 'ckey': (8, False, 8),
    'u8u8': (1, False, 1), 'u16u16': (2, False, 2), 'u128u64': (16, False, 8),
    'f64u64': (8, False, 8),   # partially ordered keys (NaN): implementation-only totality batch
}

def key_range(lay):
    ksz, sg, _ = LAYOUTS[lay]
    if sg:
        return -(1 << (8 * ksz - 1)), (1 << (8 * ksz - 1)) - 1
    # the harness parses keys as i128
    return 0, min((1 << (8 * ksz)) - 1, (1 << 127) - 1)

def val_max(lay):
    return (1 << (8 * LAYOUTS[lay][2])) - 1

def pick_universe(rng, lay, n, extremes=False):
    lo, hi = key_range(lay)
    if hi - lo + 1 <= 256:
        pool = list(range(lo, hi + 1))
        rng.shuffle(pool)
        u = pool[:min(n, len(pool))]
    else:
        base = rng.choice([1, 1, 1, 100, 1000])
        u = [base + 2 * i for i in range(n)]     # odd gaps stay free for "absent between"
        if extremes:
            u[0] = lo
            u[-1] = hi
            if len(u) > 3:
                u[1] = lo + 1
                u[-2] = hi - 1
    return u

# ------------------------------------------------------------------ AVL
def avl_history(rng, cid, bits=None, lay=None, cap=None, length=None, grow=False, mode='persistent',
                extremes=False, fills=True, queries=True):
    bits = bits or rng.choice([32, 32, 8])
    lay = lay or rng.choice([l for l in LAYOUTS if l != 'f64u64'])
    if cap is None:
        cap = rng.choice([1, 1, 2, 2, 3, 3, 4, 5, 6, 7, 8, 10, 12, 16])
    uni = pick_universe(rng, lay, cap + 3, extremes)
    vm = val_max(lay)
    length = length or rng.randint(6, 40)
    ops = []
    present = set()
    cur_cap = cap
    nrec = cap
    phase = 'fill'
    for step in range(length):
        if rng.random() < 0.12:
            phase = rng.choice(['fill', 'drain', 'churn', 'fill'])
        x = rng.random()
        if grow and x < 0.06 and nrec < (250 if bits == 8 else 64):
            k = rng.choice([1, 1, 2, 3, 4])
            ops.append('ext %d' % k)
            nrec += k
            if rng.random() < 0.3:
                ops.append(rng.choice(['capq', 'len', 'openro', 'openmut']))
            continue
        if queries and x < 0.22:
            q = rng.choice(['get', 'has', 'low', 'len', 'empty', 'full', 'capq', 'gmut', 'gmut0', 'openmut', 'openro', 'dbg'])
            if q in ('get', 'has', 'gmut0'):
                ops.append('%s %d' % (q, rng.choice(uni)))
            elif q == 'gmut':
                ops.append('gmut %d %d' % (rng.choice(uni), rng.randint(0, min(vm, 1000))))
            else:
                ops.append(q)
            continue
        p_ins = {'fill': 0.85, 'drain': 0.2, 'churn': 0.5}[phase]
        if rng.random() < p_ins:
            k = rng.choice(uni)
            ops.append('ins %d %d' % (k, rng.choice([rng.randint(0, min(vm, 1000)), vm, 0])))
            present.add(k)
        else:
            k = rng.choice(sorted(present)) if present and rng.random() < 0.8 else rng.choice(uni)
            ops.append('rem %d' % k)
            present.discard(k)
        if fills and rng.random() < 0.08:
            ops.append('fill %d' % fresh_key(lay, uni))
    if fills:
        ops.append('fill %d' % fresh_key(lay, uni))
    # a fill probe inserts an ascending run of fresh keys: the run must not reach a key of the universe
    # (one-byte keys leave little room); otherwise the probes are dropped from this case
    if any(o.startswith('fill') for o in ops):
        fk = fresh_key(lay, uni)
        need = nrec + 4
        lo, hi = key_range(lay)
        if fk + need > hi or any(fk <= k <= fk + need for k in uni):
            ops = [o for o in ops if not o.startswith('fill')]
    hdr = {'bits': bits, 'lay': lay, 'cap': cap, 'nrec': cap, 'mode': mode}
    return Case(cid, 'avl', hdr, ops, {'stream': 'H'})

def fresh_key(lay, uni):
    lo, hi = key_range(lay)
    if hi - lo + 1 <= 256:
        # u8 keys: the keys not in the universe, ascending run must not hit the universe:
        # choose the longest free run
        used = set(uni)
        best, cur, start = (0, 0), 0, None
        for k in range(lo, hi + 2):
            if k <= hi and k not in used:
                if start is None:
                    start = k
                cur = k - start + 1
                if cur > best[0]:
                    best = (cur, start)
            else:
                start = None
        return best[1]
    return 40000 if hi <= 65535 else 5000000

def avl_exhaustive(bits, lay, cap, m, L, prefix_id):
    keys = list(range(1, m + 1))
    alphabet = ['ins %d %d' % (k, 10 * k) for k in keys] + ['rem %d' % k for k in keys]
    out = []
    for n, seq in enumerate(itertools.product(alphabet, repeat=L)):
        hdr = {'bits': bits, 'lay': lay, 'cap': cap, 'nrec': cap, 'mode': 'persistent'}
        out.append(Case('%s%d' % (prefix_id, n), 'avl', hdr, list(seq) + ['fill 1000'], {'stream': 'X'}))
    return out

# AVL shapes: nested tuples (left, right) or None
_shape_cache = {}
def avl_shapes(n):
    """all AVL shapes with exactly n nodes, as (height, shape) pairs"""
    if n in _shape_cache:
        return _shape_cache[n]
    if n == 0:
        res = [(0, None)]
    else:
        res = []
        for nl in range(n):
            for hl, l in avl_shapes(nl):
                for hr, r in avl_shapes(n - 1 - nl):
                    if abs(hl - hr) <= 1:
                        res.append((1 + max(hl, hr), (l, r)))
    _shape_cache[n] = res
    return res

def le(x, n):
    return (x % (1 << (8 * n))).to_bytes(n, 'little')

def round_up(x, a):
    return (x + a - 1) // a * a if a else x

def avl_encode(bits, lay, root, size, cap, flh, seq, nodes):
    """nodes: list of (l, r, h, k, v) for slots 1..len"""
    w = bits // 8
    ksz, _, vsz = LAYOUTS[lay]
    hdr = b''.join(le(x, w) for x in (root, size, cap, flh, seq))
    hdr += bytes((8 if w == 1 else 24) - len(hdr))
    koff = round_up(4 * w, ksz)
    voff = round_up(koff + ksz, vsz)
    rlen = round_up(voff + vsz, max(w, ksz, vsz))
    body = []
    for (l, r, h, k, v) in nodes:
        rec = le(l, w) + le(r, w) + le(h, w) + le(0, w)
        rec += bytes(koff - len(rec)) + le(k, ksz)
        rec += bytes(voff - len(rec)) + le(v, vsz)
        rec += bytes(rlen - len(rec))
        body.append(rec)
    return hdr + b''.join(body)

def avl_state_bytes(rng, bits, lay, shape, extra_free, extra_never, keys=None):
    """Build the bytes of a state satisfying the representation invariant:
    the given shape, keys 2,4,..., random slot assignment, a free list of
    `extra_free` recycled slots in random order, `extra_never` never-used
    slots after the cursor."""
    def count(s):
        return 0 if s is None else 1 + count(s[0]) + count(s[1])
    n = count(shape)
    used = n + extra_free
    cap = used + extra_never
    seq = used + 1
    slots = list(range(1, used + 1))
    rng.shuffle(slots)
    live = slots[:n]
    free = slots[n:]
    nodes = [(0, 0, 0, 0, 0)] * cap
    it = iter(live)
    ks = iter(keys if keys else [2 * (i + 1) for i in range(n)])
    def build(s):
        # returns (slot, height) ; assigns in-order keys
        if s is None:
            return 0, -1
        me = next(it)
        l, hl = build(s[0])
        k = next(ks)
        r, hr = build(s[1])
        h = 1 + max(hl, hr)
        nodes[me - 1] = (l, r, h, k, k * 10 % 251)
        return me, h
    root, _ = build(shape)
    # free chain: flh -> free[0] -> free[1] ... -> seq
    flh = seq
    for f in reversed(free):
        nodes[f - 1] = (0, 0, flh, 0, 0)
        flh = f
    return avl_encode(bits, lay, root, n, cap, flh, seq, nodes), n, cap

def avl_single_steps(rng, bits, lay, max_nodes, prefix_id, per_shape_variants=1, grow=False):
    out = []
    cid = 0
    for n in range(0, max_nodes + 1):
        for _, shape in avl_shapes(n):
            for _ in range(per_shape_variants):
                ef = rng.choice([0, 0, 1, 2])
                en = rng.choice([0, 1, 1, 2])
                raw, nn, cap = avl_state_bytes(rng, bits, lay, shape, ef, en)
                hdr = {'bits': bits, 'lay': lay, 'raw': raw.hex(), 'mode': 'persistent'}
                single = ['ins %d 7' % k for k in range(1, 2 * n + 2, 2)]
                single += ['ins %d 7' % (2 * i) for i in range(1, n + 1)]
                single += ['rem %d' % (2 * i) for i in range(1, n + 1)]
                single += ['rem 1']
                if grow:
                    single += ['ext 1|ins 1 1', 'ext 2|fill 1001']
                for op in single:
                    ops = ['len'] + op.split('|') + ['fill 1001']
                    out.append(Case('%s%d' % (prefix_id, cid), 'avl', hdr, ops, {'stream': 'S', 'n': n}))
                    cid += 1
    return out

def fib_shape(h, lean):
    """the sparsest AVL shape with h levels; lean: 'L', 'R' or 'A' (alternating)"""
    if h <= 0:
        return None
    if h == 1:
        return (None, None)
    nxt = {'L': 'L', 'R': 'R', 'A': 'B', 'B': 'A'}[lean]
    big, small = fib_shape(h - 1, nxt), fib_shape(h - 2, nxt)
    return (big, small) if lean in ('L', 'A') else (small, big)

def shape_count(s):
    return 0 if s is None else 1 + shape_count(s[0]) + shape_count(s[1])

def shape_depths(s, d=1, pos=None, out=None):
    """in-order list of node depths"""
    if out is None:
        out = []
    if s is None:
        return out
    shape_depths(s[0], d + 1, None, out)
    out.append(d)
    shape_depths(s[1], d + 1, None, out)
    return out

def avl_sparse_steps(rng, bits, lay, heights, prefix_id, per=10):
    """single operations on the sparsest (Fibonacci) trees: insertions below the deepest
    leaves and at the extremes, removals on the shallow side (cascading rotations)"""
    out = []
    cid = 0
    for h in heights:
        for lean in ('L', 'R', 'A'):
            shape = fib_shape(h, lean)
            n = shape_count(shape)
            if bits == 8 and n + 2 > 254:
                continue
            depths = shape_depths(shape)
            raw, nn, cap = avl_state_bytes(rng, bits, lay, shape, rng.choice([0, 1]), 2)
            hdr = {'bits': bits, 'lay': lay, 'raw': raw.hex(), 'mode': 'persistent'}
            deep = [i for i, d in enumerate(depths) if d == h]
            shallow = sorted(range(n), key=lambda i: depths[i])[-1:] + [i for i, d in enumerate(depths) if d <= h - h // 2 and d >= 2]
            leaves_shallow = sorted(range(n), key=lambda i: (depths[i], rng.random()))
            picks_ins = set([1, 2 * n + 1])
            for i in deep[:per]:
                picks_ins.add(2 * (i + 1) - 1); picks_ins.add(2 * (i + 1) + 1)
            for _ in range(per):
                picks_ins.add(2 * rng.randrange(n + 1) + 1)
            picks_rem = set(2 * (i + 1) for i in rng.sample(range(n), min(per, n)))
            # minimal-depth leaves: removing them shrinks the short side
            mind = min(d for i, d in enumerate(depths) if True)
            cand = [i for i, d in enumerate(depths) if d <= (h + 1) // 2 + 1]
            for i in rng.sample(cand, min(per, len(cand))):
                picks_rem.add(2 * (i + 1))
            picks_rem.add(2); picks_rem.add(2 * n)
            ops_list = ['ins %d 7' % k for k in sorted(picks_ins)] + ['rem %d' % k for k in sorted(picks_rem)]
            for op in ops_list:
                out.append(Case('%s%d' % (prefix_id, cid), 'avl', hdr, ['len', op, 'fill 100001'], {'stream': 'S', 'n': n}))
                cid += 1
            # a longer walk from the sparse tree: keep removing / inserting
            walk = []
            ks = list(range(1, n + 1)); rng.shuffle(ks)
            for k in ks[:min(40, n)]:
                walk.append('rem %d' % (2 * k))
            for k in ks[:min(20, n)]:
                walk.append('ins %d 3' % (2 * k + 1))
            out.append(Case('%s%d' % (prefix_id, cid), 'avl', hdr, walk + ['fill 100001'], {'stream': 'S', 'n': n}))
            cid += 1
    return out

def avl_reject_then_remove(rng, cid, bits=None, lay=None, mode='persistent'):
    """a refused insert (duplicate or full) immediately followed by the removal of a node
    on or near its search path: exposes state a handle keeps between calls"""
    bits = bits or rng.choice([32, 8])
    lay = lay or rng.choice(['u64u64', 'u32u32', 'u16u32', 'i64u16'])
    n = rng.randint(5, 14)
    cap = n + rng.choice([0, 0, 1, 3])
    keys = list(range(1, 3 * n, 1))
    rng.shuffle(keys)
    present = keys[:n]
    ops = ['ins %d %d' % (k, k % 97) for k in present]
    pres = set(present)
    for _ in range(rng.randint(4, 10)):
        if not pres:
            break
        if len(pres) >= cap and rng.random() < 0.5:
            ops.append('ins %d 1' % rng.choice([k for k in keys if k not in pres]))   # refused: full
        else:
            ops.append('ins %d 2' % rng.choice(sorted(pres)))                           # refused: duplicate
        victim = rng.choice(sorted(pres))
        ops.append('rem %d' % victim)
        pres.discard(victim)
        if rng.random() < 0.4:
            k = rng.choice([k for k in keys if k not in pres])
            ops.append('ins %d 3' % k); pres.add(k)
        if rng.random() < 0.3:
            ops.append(rng.choice(['len', 'low', 'get %d' % rng.choice(keys)]))
    return Case(cid, 'avl', {'bits': bits, 'lay': lay, 'cap': cap, 'nrec': cap, 'mode': mode}, ops, {'stream': 'R'})

def avl_large_case(rng, cid, cap=65534, lay='u32u32'):
    """a 32-bit tree whose record count crosses 2^16 by growth: capacity words wider than 16 bits"""
    # growth happens while no slot has been released: the model's list-based threading loop is quadratic
    ops = ['capq', 'ins 10 1', 'ins 5 2', 'ins 20 3', 'ext 3', 'openro', 'capq', 'openmut', 'capq', 'len', 'full',
           'ins 7 4', 'ins 8 5', 'get 7', 'low', 'ext 1', 'ins 9 6', 'capq', 'rem 5', 'ins 6 7', 'len']
    return Case(cid, 'avl', {'bits': 32, 'lay': lay, 'cap': cap, 'nrec': cap, 'mode': 'persistent'}, ops, {'stream': 'L'})

def bal_shape(n):
    if n == 0:
        return None
    nl = (n - 1) // 2
    return (bal_shape(nl), bal_shape(n - 1 - nl))

def avl_huge_state_case(rng, cid, n=66000, lay='u32u32', short=False):
    """a 32-bit tree holding more than 2^16 entries (slot numbers, size and links wider than 16 bits),
    built as bytes; a few operations of every kind at the bottom, middle and top of the key range"""
    raw, nn, cap = avl_state_bytes(rng, 32, lay, bal_shape(n), 3, 4)
    top = 2 * n
    mid = 2 * (n // 2)
    # the buffer is extended while recycled slots are outstanding (3 recycled, 4 never used): the growth branch
    # threads the never-used and the new slots and moves the cursor past 2^16
    ops = ['len', 'ext 3', 'capq', 'ins %d 5' % (top + 1), 'capq', 'ins 1 7', 'rem %d' % mid, 'rem %d' % top,
           'ins %d 1' % (top + 5), 'ins %d 1' % (top + 7), 'ins %d 1' % (top + 9), 'ins %d 1' % (top + 11),
           'ins %d 1' % (top + 13), 'ins %d 1' % (top + 15), 'ins %d 1' % (top + 17), 'ins %d 1' % (top + 19),
           'ins %d 1' % (top + 21), 'ins %d 1' % (top + 23), 'full', 'ins %d 1' % (top + 25), 'len',
           'rem %d' % (top + 5), 'ins %d 2' % (top + 27), 'full', 'len',
           # a second growth: the cursor left by the first one decides where threading starts
           'rem %d' % (top + 7), 'ext 2', 'capq', 'ins %d 3' % (top + 29), 'ins %d 3' % (top + 31), 'ins %d 3' % (top + 33), 'full',
           'ins %d 3' % (top + 35), 'len', 'get %d' % (mid + 2), 'get 4']
    if short:
        ops = ['len', 'low', 'get %d' % top, 'ins %d 5' % (top + 1), 'ins %d 6' % (mid + 1), 'ins %d 8' % mid, 'rem %d' % mid, 'rem 2',
               'rem %d' % top, 'gmut %d 9' % (mid + 2), 'low', 'ins %d 1' % (top + 5), 'ins 1 7', 'full', 'len']
    uni = sorted({1, 2, 3, 4, mid - 2, mid, mid + 1, mid + 2, top - 2, top, top + 1, top + 3} | {top + j for j in range(5, 37, 2)})
    return Case(cid, 'avl', {'bits': 32, 'lay': lay, 'raw': raw.hex(), 'lite': 1, 'mode': 'persistent'}, ops, {'stream': 'L', 'uni': uni})

def hash_huge_state_case(rng, cid, n=66000, vty='u32'):
    """a hash set holding more than 2^16 members, built as bytes"""
    cap = n + 6
    values = list(range(100, 100 + n))
    raw = hash_state_bytes(rng, vty, cap, values, 2)
    ops = ['size', 'full', 'capq', 'has 100', 'has %d' % (99 + n), 'has %d' % (100 + n), 'has 5', 'ins 5', 'ins 100', 'ins %d' % (100 + n),
           'size', 'rem 100', 'rem %d' % (100 + n // 2), 'rem 6', 'has 100', 'size', 'ins 7', 'ins 8', 'ins 9', 'ins 10', 'ins 11',
           'ins 12', 'ins 13', 'full', 'size', 'rem %d' % (99 + n), 'ins 14', 'has 14', 'size']
    return Case(cid, 'hash', {'vty': vty, 'raw': raw.hex(), 'lite': 1, 'mode': 'persistent'}, ops, {'stream': 'L'})

def hash_huge_iter_case(rng, cid, n=66000, vty='u32'):
    """iteration over a set with more than 2^16 buckets, judged on the implementation alone against the known members"""
    cap = n + 6
    values = list(range(100, 100 + n))
    raw = hash_state_bytes(rng, vty, cap, values, 2)
    ops = ['itercount', 'size', 'rem 100', 'rem %d' % (99 + n), 'itercount', 'ins 7', 'ins 8', 'ins 9', 'itercount', 'size']
    return Case(cid, 'hash', {'vty': vty, 'raw': raw.hex(), 'lite': 1, 'cap': cap, 'mode': 'persistent'}, ops,
                {'stream': 'L', 'values': values, 'impl_only': True})

def avl_session_case(rng, cid, bits=None, lay=None):
    """a tree initialised with a capacity smaller than the record count of its buffer and used through
    the handle that initialised it: the capacity stays what initialize said until a view is opened anew"""
    bits = bits or rng.choice([32, 8])
    lay = lay or rng.choice(['u64u64', 'u32u32', 'u16u32', 'u8u64'])
    cap = rng.choice([0, 1, 2, 2, 3, 4, 6])
    extra = rng.choice([1, 1, 2, 3, 5])
    uni = pick_universe(rng, lay, cap + extra + 3, False)
    vm = val_max(lay)
    ops = ['capq', 'full']
    present = []
    def ins_new():
        ks = [k for k in uni if k not in present]
        if ks:
            k = rng.choice(ks); ops.append('ins %d %d' % (k, rng.randint(0, min(vm, 99)))); present.append(k)
            return k
    # fill to the initialised capacity through the same handle, then refused operations of every kind
    for _ in range(cap):
        ins_new()
    refused = ['ins %d 1' % rng.choice(uni), 'full', 'capq', 'len', 'rem %d' % ([k for k in uni if k not in present] or [uni[0]])[-1],
               'gmut0 %d' % rng.choice(uni), 'get %d' % rng.choice(uni), 'low', 'dbg']
    if present:
        refused += ['ins %d 3' % rng.choice(present), 'ins %d 4' % rng.choice(present)]
    rng.shuffle(refused)
    ops += refused[:rng.randint(3, len(refused))]
    # one more new key: refused, the tree is full by its own capacity word
    k_over = [k for k in uni if k not in present][0]
    ops += ['ins %d 5' % k_over, 'len', 'capq']
    if rng.random() < 0.5 and present:
        k = present.pop(rng.randrange(len(present))); ops += ['rem %d' % k, 'ins %d 6' % k]; present.append(k)
    # a view opened anew adopts the spare records
    ops += [rng.choice(['openmut', 'openro', 'ext 1', 'openmut']), 'capq', 'full']
    for _ in range(rng.randint(1, extra + 2)):
        ins_new()
        if rng.random() < 0.3:
            ops.append('ins %d 7' % rng.choice(uni))
    ops += ['len', 'capq', 'full', 'fill %d' % fresh_key(lay, uni)]
    return Case(cid, 'avl', {'bits': bits, 'lay': lay, 'cap': cap, 'nrec': cap + extra, 'keep': 1, 'mode': 'persistent'}, ops, {'stream': 'I'})

def avl_medium_case(rng, cid, bits=32, lay='u32u32', cap=300):
    """a tree of a few hundred records (capacity words wider than one byte) that is never full: recycled and
    never-used slots are present together; refused operations, queries, explicit re-opens and a growth step"""
    keys = list(range(10, 10 + 2 * cap, 2))
    rng.shuffle(keys)
    live = keys[:cap - 30]
    ops = ['ins %d %d' % (k, k % 97) for k in live]
    gone = []
    for _ in range(12):
        k = live.pop(rng.randrange(len(live))); gone.append(k); ops.append('rem %d' % k)
    ops += ['openro', 'len', 'ins %d 1' % live[0], 'openmut', 'capq', 'rem %d' % gone[0], 'openro', 'get %d' % live[1], 'gmut0 %d' % live[2],
            'ins %d 2' % live[3], 'openmut', 'len', 'low', 'has %d' % gone[1], 'dbg', 'full', 'ins %d 5' % gone[2], 'openmut',
            'rem %d' % live[4], 'ext 2', 'openro', 'capq', 'ins %d 3' % live[5], 'capq', 'len', 'ins %d 6' % gone[3], 'rem %d' % gone[4], 'openmut', 'len']
    return Case(cid, 'avl', {'bits': bits, 'lay': lay, 'cap': cap, 'nrec': cap, 'mode': 'persistent'}, ops, {'stream': 'H'})

def avl_growth_cycles(rng, cid, bits=None, lay=None, mode='persistent'):
    """repeated growth in every combination of 'full / not full / emptied' and 'free list empty / not
    empty' at the growth point, each followed by filling the tree completely"""
    bits = bits or rng.choice([32, 8])
    lay = lay or rng.choice(['u64u64', 'u32u32', 'u16u32', 'i64u16'])
    cap = rng.choice([0, 1, 2, 3, 4])
    ops = []
    nxt = [1]
    present = []
    def ins():
        k = nxt[0]; nxt[0] += 1
        ops.append('ins %d %d' % (k, k % 50)); present.append(k)
    cur = cap
    for cycle in range(rng.randint(2, 5)):
        # bring the tree into the chosen state
        state = rng.choice(['full', 'notfull', 'full-after-remove', 'emptied', 'asis'])
        if state in ('full', 'full-after-remove', 'emptied'):
            while len(present) < cur:
                ins()
        if state == 'notfull' and present:
            for _ in range(rng.randint(1, min(2, len(present)))):
                k = present.pop(rng.randrange(len(present))); ops.append('rem %d' % k)
        if state == 'full-after-remove' and present:
            k = present.pop(rng.randrange(len(present))); ops.append('rem %d' % k); ins()
        if state == 'emptied':
            while present:
                k = present.pop(rng.randrange(len(present))); ops.append('rem %d' % k)
        k = rng.choice([1, 1, 2, 3])
        ops.append('ext %d' % k); cur += k
        if rng.random() < 0.3:
            ops += ['openro', 'capq', 'len']
        ops.append('fill 900000')
        # use the new room completely, then try one more
        while len(present) < cur:
            ins()
        ops += ['full', 'ins 800000 1', 'len']
        if rng.random() < 0.5 and present:
            k = present.pop(rng.randrange(len(present))); ops.append('rem %d' % k)
    ops.append('fill 900000')
    return Case(cid, 'avl', {'bits': bits, 'lay': lay, 'cap': cap, 'nrec': cap, 'mode': mode}, ops, {'stream': 'G'})

def avl_cap255_case(rng, cid, lay=None, mode='persistent', rounds=4, last_first=None):
    """the 8-bit tree at the largest capacity it can be initialised with: fill completely (the
    bump cursor wraps), then rounds of removals that end with / start with the key living in the
    last slot handed out, and re-insertions"""
    lay = lay or rng.choice(['u64u64', 'u16u32', 'i64u16', 'u32u32'])
    keys = list(range(1, 400))
    rng.shuffle(keys)
    live = keys[:255]
    spare = keys[255:]
    ops = ['ins %d %d' % (k, k % 200) for k in live] + ['ins %d 0' % spare[0], 'full', 'len']
    last_slot_key = live[-1]
    pres = list(live)
    for r in range(rounds):
        if rng.random() < 0.3:
            ops.append('openmut')
        m = rng.randint(1, 6)
        victims = rng.sample([k for k in pres if k != last_slot_key], min(m, len(pres) - 1))
        if last_slot_key in pres and rng.random() < 0.8:
            pos = rng.choice([0, len(victims), len(victims)])
            if r == 0 and last_first is not None:
                # the very first removal from the completely full tree (empty free list) is / is not
                # the key living in the last slot handed out
                pos = 0 if last_first else len(victims)
            victims.insert(pos, last_slot_key)
        for v in victims:
            ops.append('rem %d' % v); pres.remove(v)
        ops.append('fill 100000')
        newk = [spare.pop() for _ in range(len(victims) + 1)]
        for k in newk:
            ops.append('ins %d 9' % k)
            if len(pres) < 255:
                pres.append(k)
        last_slot_key = pres[-1] if rng.random() < 0.5 else last_slot_key
        ops += ['full', 'len', 'get %d' % rng.choice(pres)]
    ops += ['fill 100000']
    return Case(cid, 'avl', {'bits': 8, 'lay': lay, 'cap': 255, 'nrec': 255, 'mode': mode}, ops, {'stream': 'E255'})

# ------------------------------------------------------------------ hash set
def hash_history(rng, cid, vty=None, cap=None, length=None, mode='persistent', fills=True):
    vty = vty or rng.choice(['weak1', 'weak2', 'weak3', 'u64', 'u64', 'u32', 'u8', 'u128'])
    if cap is None:
        cap = rng.choice([1, 1, 2, 2, 3, 3, 4, 5, 6, 8, 11, 16])
    if vty == 'u8':
        pool = list(range(0, 256)); rng.shuffle(pool); uni = pool[:cap + 3]
    else:
        # the whole universe (and the fresh keys of a fill probe) must fit the value type
        base = rng.choice([1, 1, 50, 2 ** 31, 2 ** 32 - 10]) if vty != 'u32' else rng.choice([1, 1, 50, 2 ** 32 - 2 * cap - 2100])
        uni = [base + i for i in range(cap + 3)]
        if rng.random() < 0.2:
            uni[0] = 0
    length = length or rng.randint(6, 40)
    ops = []
    present = set()
    phase = 'fill'
    fk = (max(uni) + 1000) if vty != 'u8' else None
    for step in range(length):
        if rng.random() < 0.12:
            phase = rng.choice(['fill', 'drain', 'churn'])
        x = rng.random()
        if x < 0.2:
            q = rng.choice(['has', 'has', 'size', 'full', 'empty', 'capq', 'iter', 'reopen'])
            ops.append('has %d' % rng.choice(uni) if q == 'has' else q)
            continue
        p_ins = {'fill': 0.85, 'drain': 0.2, 'churn': 0.5}[phase]
        if rng.random() < p_ins:
            k = rng.choice(uni); ops.append('ins %d' % k); present.add(k)
        else:
            k = rng.choice(sorted(present)) if present and rng.random() < 0.8 else rng.choice(uni)
            ops.append('rem %d' % k); present.discard(k)
        if fills and fk is not None and rng.random() < 0.08:
            ops.append('fill %d' % fk)
    if fills and fk is not None:
        ops.append('fill %d' % fk)
    ops.append('iter')
    hdr = {'vty': vty, 'cap': cap, 'nrec': cap + rng.choice([0, 0, 0, 1, 3, 6]), 'mode': mode}
    return Case(cid, 'hash', hdr, ops, {'stream': 'H'})

def hash_pair_history(rng, cid, mode='persistent'):
    """values whose equality/hash ignore a payload: value = key + (payload << 32)"""
    cap = rng.choice([2, 3, 4, 6, 8])
    keys = [rng.randint(1, 50) for _ in range(cap + 2)]
    ops = []
    for _ in range(rng.randint(8, 30)):
        k = rng.choice(keys); pay = rng.randint(0, 5)
        x = rng.random()
        if x < 0.55:
            ops.append('ins %d' % (k + (pay << 32)))
        elif x < 0.8:
            ops.append('rem %d' % (k + (pay << 32)))
        elif x < 0.9:
            ops.append('has %d' % (k + (pay << 32)))
        else:
            ops.append(rng.choice(['size', 'iter', 'full']))
    return Case(cid, 'hash', {'vty': 'hpair', 'cap': cap, 'nrec': cap, 'mode': mode}, ops, {'stream': 'P', 'impl_only': True})

def hash_q16_history(rng, cid, mode='persistent'):
    """16-byte values of alignment 4 (24-byte records), odd and even capacities; implementation only"""
    cap = rng.choice([1, 3, 3, 5, 7, 4, 9])
    keys = [rng.randint(1, 60) + (rng.choice([0, 1, 7]) << 64) for _ in range(cap + 2)]
    ops = []
    for _ in range(rng.randint(8, 30)):
        k = rng.choice(keys)
        x = rng.random()
        if x < 0.5:
            ops.append('ins %d' % k)
        elif x < 0.7:
            ops.append('rem %d' % k)
        elif x < 0.85:
            ops.append('has %d' % k)
        else:
            ops.append(rng.choice(['size', 'iter', 'full', 'reopen', 'iter']))
    ops += ['iter', 'size']
    return Case(cid, 'hash', {'vty': 'q16', 'cap': cap, 'nrec': cap, 'mode': mode}, ops, {'stream': 'P', 'impl_only': True})

M64 = (1 << 64) - 1
def _rotl(x, b):
    return ((x << b) | (x >> (64 - b))) & M64
def siphash13(data):
    """SipHash-1-3 with zero keys (std DefaultHasher), for placing values in the right bucket
    when building hash-set states by hand"""
    v0, v1, v2, v3 = 0x736f6d6570736575, 0x646f72616e646f6d, 0x6c7967656e657261, 0x7465646279746573
    def rnd(v0, v1, v2, v3):
        v0 = (v0 + v1) & M64; v1 = _rotl(v1, 13); v1 ^= v0; v0 = _rotl(v0, 32)
        v2 = (v2 + v3) & M64; v3 = _rotl(v3, 16); v3 ^= v2
        v0 = (v0 + v3) & M64; v3 = _rotl(v3, 21); v3 ^= v0
        v2 = (v2 + v1) & M64; v1 = _rotl(v1, 17); v1 ^= v2; v2 = _rotl(v2, 32)
        return v0, v1, v2, v3
    n = len(data)
    i = 0
    while i + 8 <= n:
        m = int.from_bytes(data[i:i + 8], 'little')
        v3 ^= m
        v0, v1, v2, v3 = rnd(v0, v1, v2, v3)
        v0 ^= m
        i += 8
    b = ((n & 0xff) << 56) | int.from_bytes(data[i:], 'little')
    v3 ^= b
    v0, v1, v2, v3 = rnd(v0, v1, v2, v3)
    v0 ^= b
    v2 ^= 0xff
    for _ in range(3):
        v0, v1, v2, v3 = rnd(v0, v1, v2, v3)
    return v0 ^ v1 ^ v2 ^ v3

def hash_bucket(vty, v, cap):
    if vty.startswith('weak'):
        h = siphash13(le(v % int(vty[4:]), 8))
    else:
        w = {'u64': 8, 'u32': 4, 'u8': 1, 'u128': 16}[vty]
        h = siphash13(le(v, w))
    return (h & 0xffffffff) % cap

def hash_state_bytes(rng, vty, cap, values, extra_free):
    """bytes of a hash-set state satisfying the invariant: the given members chained in random
    order per bucket, random slot assignment, `extra_free` recycled slots in random order, the rest
    of the slots never used"""
    vsz = 8 if vty.startswith('weak') else {'u64': 8, 'u32': 4, 'u8': 1, 'u128': 16}[vty]
    n = len(values)
    used = n + extra_free
    assert used <= cap
    seq = used + 1
    slots = list(range(1, used + 1)); rng.shuffle(slots)
    live = dict(zip(values, slots[:n]))
    free = slots[n:]
    hb = [0] * cap; hn = [0] * cap; hv = [0] * cap
    buckets = {}
    for v in values:
        buckets.setdefault(hash_bucket(vty, v, cap), []).append(v)
    for b, vs in buckets.items():
        rng.shuffle(vs)
        hb[b] = live[vs[0]]
        for x, y in zip(vs, vs[1:] + [None]):
            hv[live[x] - 1] = x
            hn[live[x] - 1] = live[y] if y is not None else 0
    flh = seq
    for f in reversed(free):
        hn[f - 1] = flh; flh = f
    voff = round_up(8, vsz); rlen = round_up(voff + vsz, max(4, vsz))
    body = []
    for i in range(cap):
        rec = le(hb[i], 4) + le(hn[i], 4)
        rec += bytes(voff - len(rec)) + le(hv[i], vsz)
        rec += bytes(rlen - len(rec))
        body.append(rec)
    return le(n, 4) + le(cap, 4) + le(flh, 4) + le(seq, 4) + b''.join(body)

def hash_single_steps(rng, prefix_id, thorough=False):
    """every single operation from hand-built invariant states: all subsets (up to a size bound) of a
    small value universe, chains in random order, recycled slots present"""
    out = []
    cid = 0
    uni = list(range(1, 8))
    for vty in ('weak1', 'weak2', 'weak3', 'u64'):
        for cap in ((2, 3, 5) if not thorough else (1, 2, 3, 4, 5, 7)):
            for n in range(0, min(cap, 5) + 1):
                for rep in range(2 if not thorough else 6):
                    vals = rng.sample(uni, n)
                    ef = rng.randint(0, cap - n) if rng.random() < 0.6 else 0
                    raw = hash_state_bytes(rng, vty, cap, vals, ef)
                    hdr = {'vty': vty, 'raw': raw.hex(), 'mode': 'persistent'}
                    for op in ['ins %d' % k for k in uni + [8]] + ['rem %d' % k for k in uni] + ['has %d' % k for k in uni[:4]]:
                        out.append(Case('%s%d' % (prefix_id, cid), 'hash', hdr, ['size', op, 'iter', 'size', 'full', 'fill 1000'], {'stream': 'S', 'n': n}))
                        cid += 1
    return out

def hash_exhaustive(vty, cap, m, L, prefix_id):
    vals = list(range(1, m + 1))
    alphabet = ['ins %d' % k for k in vals] + ['rem %d' % k for k in vals]
    out = []
    for n, seq in enumerate(itertools.product(alphabet, repeat=L)):
        hdr = {'vty': vty, 'cap': cap, 'nrec': cap, 'mode': 'persistent'}
        out.append(Case('%s%d' % (prefix_id, n), 'hash', hdr, list(seq) + ['iter', 'fill 1000'], {'stream': 'X'}))
    return out

# ------------------------------------------------------------------ arbitrary bytes (C05)
def _corrupt_words(rng, raw, hdr_words, w, nslots, rec_len, hdr_len, link_offs):
    """header words and record links replaced by values that are out of range, at the edge of the
    range or simply different; the buffer may also be cut"""
    b = bytearray(raw)
    mx = (1 << (8 * w)) - 1
    vals = [0, 1, 2, nslots, nslots + 1, nslots + 2, 2 * nslots + 3, 7, 200, mx, mx - 1, mx // 2]
    for _ in range(rng.randint(1, 3)):
        x = rng.random()
        if x < 0.55 or nslots == 0:
            i = rng.randrange(hdr_words)
            b[i * w:(i + 1) * w] = le(rng.choice(vals), w)
        elif x < 0.85:
            slot = rng.randrange(nslots); off = hdr_len + slot * rec_len + rng.choice(link_offs)
            b[off:off + w] = le(rng.choice([nslots + 1, nslots + 5, mx, mx - 3]), w)
        else:
            cut = rng.randint(1, min(nslots, 3))
            b = b[:len(b) - cut * rec_len]
    return bytes(b)

def garbage_cases(rng, prefix_id, n):
    """views over bytes that are not a reachable state: a safe API may panic on them, it may not touch
    memory outside the buffer nor let its answers depend on what lies there"""
    out = []
    # witnesses of defect D13 (a length prefix that claims more values than the buffer holds: the unchecked
    # element shift of insert wrote, and that of take read and wrote, past the buffer) run first
    out.append(Case(prefix_id + 'D13a', 'arr', {'p': 1, 'vty': 'u32', 'raw': '08020000000400000006000000080000000000000000000000', 'mode': 'persistent'},
                    ['ins 7 0'], {'stream': 'Z', 'garbage': True}))
    out.append(Case(prefix_id + 'D13b', 'arr', {'p': 8, 'vty': 'u32', 'raw': '0800000000000000020000000400000006000000080000000a0000000c000000', 'mode': 'persistent'},
                    ['rem 4 0'], {'stream': 'Z', 'garbage': True}))
    out.append(Case(prefix_id + 'D13c', 'arr', {'p': 2, 'vty': 'u8', 'raw': '050002040608', 'mode': 'persistent'},
                    ['ins 0 0'], {'stream': 'Z', 'garbage': True}))
    for i in range(n):
        kind = rng.choice(['avl', 'avl', 'hash', 'arr'])
        if kind == 'avl':
            bits = rng.choice([32, 8]); lay = rng.choice(['u64u64', 'u32u32', 'u16u32', 'u8u8', 'u64u8'])
            nn = rng.randint(0, 6)
            shape = rng.choice(avl_shapes(nn))[1]
            raw, _, cap = avl_state_bytes(rng, bits, lay, shape, rng.choice([0, 1, 2]), rng.choice([0, 1, 2]))
            w = bits // 8
            hdr_len = 8 if w == 1 else 24
            rec_len = (len(raw) - hdr_len) // cap if cap else 1
            raw = _corrupt_words(rng, raw, 5, w, cap, rec_len, hdr_len, [0, w, 2 * w])
            ks = [2, 4, 6, 1, 3, 9, 12]
            ops = []
            for _ in range(rng.randint(3, 9)):
                o = rng.choice(['get', 'has', 'low', 'len', 'full', 'capq', 'ins', 'ins', 'rem', 'gmut0', 'dbg', 'openmut', 'init', 'empty'])
                if o in ('get', 'has', 'rem', 'gmut0'):
                    ops.append('%s %d' % (o, rng.choice(ks)))
                elif o == 'ins':
                    ops.append('ins %d %d' % (rng.choice(ks), rng.randint(0, 9)))
                elif o == 'init':
                    ops.append('init %d' % rng.choice([0, 1, cap, cap, max(0, cap - 1), cap + 1, cap + 3]))
                else:
                    ops.append(o)
            out.append(Case('%s%d' % (prefix_id, i), 'avl', {'bits': bits, 'lay': lay, 'raw': raw.hex(), 'mode': 'persistent'}, ops, {'stream': 'Z', 'garbage': True}))
        elif kind == 'hash':
            vty = rng.choice(['u64', 'u32', 'u8', 'weak2'])
            cap = rng.randint(1, 6)
            vals = rng.sample(range(1, 9), rng.randint(0, cap))
            raw = hash_state_bytes(rng, vty, cap, vals, rng.randint(0, cap - len(vals)))
            rec_len = (len(raw) - 16) // cap
            raw = _corrupt_words(rng, raw, 4, 4, cap, rec_len, 16, [0, 4])
            ops = []
            for _ in range(rng.randint(3, 9)):
                o = rng.choice(['has', 'has', 'ins', 'ins', 'rem', 'size', 'full', 'capq', 'iter', 'reopen', 'init', 'empty'])
                if o in ('has', 'ins', 'rem'):
                    ops.append('%s %d' % (o, rng.randint(1, 10)))
                elif o == 'init':
                    ops.append('init %d' % rng.choice([0, 1, cap, cap, cap + 1, cap + 4]))
                else:
                    ops.append(o)
            out.append(Case('%s%d' % (prefix_id, i), 'hash', {'vty': vty, 'raw': raw.hex(), 'mode': 'persistent'}, ops, {'stream': 'Z', 'garbage': True}))
        else:
            p = rng.choice([1, 2, 4, 8]); vty = rng.choice(['u8', 'u32', 'u64', 'pair'])
            slots = rng.randint(0, 6)
            n0 = rng.randint(0, slots)
            cells = [(2 * (j + 1), 0) for j in range(n0)] + [(0, 0)] * (slots - n0)
            cnt = rng.choice([n0, n0, slots + 1, slots + 2, 200, (1 << (8 * p)) - 1, n0 + 1])
            raw = arr_encode(p, vty, cnt, cells)
            ops = []
            for _ in range(rng.randint(3, 8)):
                o = rng.choice(['has', 'get', 'ins', 'ins', 'take', 'rem', 'len', 'full', 'deref', 'openmut', 'empty'])
                if o in ('has', 'get', 'ins', 'take', 'rem'):
                    ops.append('%s %d 0' % (o, rng.randint(0, 13)))
                else:
                    ops.append(o)
            out.append(Case('%s%d' % (prefix_id, i), 'arr', {'p': p, 'vty': vty, 'raw': raw.hex(), 'mode': 'persistent'}, ops, {'stream': 'Z', 'garbage': True}))
    return out

# ------------------------------------------------------------------ array sets
ARR_VTY = {'u8': (1, 0), 'u32': (4, 0), 'u64': (8, 0), 'pair': (4, 4)}

def arr_history(rng, cid, p=None, vty=None, slots=None, length=None, mode='persistent', grow=False):
    p = p or rng.choice([1, 2, 4, 8])
    vty = vty or rng.choice(list(ARR_VTY))
    if slots is None:
        slots = rng.choice([0, 1, 1, 2, 2, 3, 4, 5, 6, 8, 12, 16])
    kmax = 255 if vty == 'u8' else (2 ** 32 - 1 if vty in ('u32', 'pair') else 2 ** 64 - 1)
    if vty == 'u8':
        pool = list(range(0, 256)); rng.shuffle(pool); uni = pool[:slots + 3]
    else:
        base = rng.choice([1, 1, 100, kmax - 2 * (slots + 4)])
        uni = [base + 2 * i for i in range(slots + 3)]
        if rng.random() < 0.2:
            uni[0] = 0
            uni[-1] = kmax
    def cell(k):
        return '%d %d' % (k, rng.randint(0, 9) if vty == 'pair' else 0)
    length = length or rng.randint(6, 40)
    ops = []
    present = set()
    phase = 'fill'
    for step in range(length):
        if rng.random() < 0.12:
            phase = rng.choice(['fill', 'drain', 'churn'])
        x = rng.random()
        if grow and x < 0.05:
            ops.append('ext %d' % rng.choice([1, 1, 2, 3])); continue
        if x < 0.25:
            q = rng.choice(['get', 'has', 'len', 'full', 'empty', 'deref', 'gmut', 'openmut'])
            if q in ('get', 'has'):
                ops.append('%s %s' % (q, cell(rng.choice(uni))))
            elif q == 'gmut':
                k = rng.choice(uni)
                ops.append('gmut %s %s' % (cell(k), cell(k)))
            else:
                ops.append(q)
            continue
        p_ins = {'fill': 0.85, 'drain': 0.2, 'churn': 0.5}[phase]
        if rng.random() < p_ins:
            k = rng.choice(uni); ops.append('ins %s' % cell(k)); present.add(k)
        else:
            k = rng.choice(sorted(present)) if present and rng.random() < 0.8 else rng.choice(uni)
            ops.append('%s %s' % (rng.choice(['rem', 'take']), cell(k))); present.discard(k)
    ops.append('deref')
    hdr = {'p': p, 'vty': vty, 'slots': slots, 'mode': mode}
    return Case(cid, 'arr', hdr, ops, {'stream': 'H'})

def arr_wide_case(rng, cid, mode='persistent'):
    """a one- or two-byte prefix in front of wide values and more slots than a byte count of the
    value area would allow"""
    p = rng.choice([1, 1, 2])
    vty = rng.choice(['u32', 'u64', 'pair'])
    slots = rng.randint(28, 70)
    keys = list(range(1, 4 * slots))
    rng.shuffle(keys)
    def cell(k):
        return '%d %d' % (k, rng.randint(0, 9) if vty == 'pair' else 0)
    ops = []
    n1 = rng.randint(slots - 3, slots + 2)
    ops += ['ins %s' % cell(k) for k in keys[:n1]] + ['len', 'full']
    ops += ['ext %d' % rng.choice([1, 4, 8])]
    ops += ['ins %s' % cell(k) for k in keys[n1:n1 + 12]] + ['len', 'full', 'deref']
    ops += ['take %s' % cell(k) for k in keys[:5]] + ['len', 'full']
    return Case(cid, 'arr', {'p': p, 'vty': vty, 'slots': slots, 'mode': mode}, ops, {'stream': 'W'})

def arr_big_cases(rng, prefix_id):
    """one-byte prefix over 254..300 slots: the count reaches the prefix maximum"""
    out = []
    i = 0
    for slots in (254, 255, 256, 300):
        ks = list(range(0, 256))
        rng.shuffle(ks)
        ops = ['ins %d 0' % k for k in ks] + ['len', 'full', 'deref', 'ins 7 0', 'has 7 0', 'take %d 0' % ks[0], 'ins %d 0' % ks[0], 'len', 'full']
        ops += ['take %d 0' % k for k in ks[:200]] + ['len', 'deref']
        out.append(Case('%s%d' % (prefix_id, i), 'arr', {'p': 1, 'vty': 'u8', 'slots': slots, 'mode': 'persistent'}, ops, {'stream': 'E'})); i += 1
    ops = ['ins %d 0' % k for k in range(1, 300)] + ['len', 'full', 'ins 1000 0', 'has 1000 0', 'len']
    out.append(Case('%s%d' % (prefix_id, i), 'arr', {'p': 1, 'vty': 'u32', 'slots': 300, 'mode': 'persistent'}, ops, {'stream': 'E'})); i += 1
    return out

def arr_large_case(rng, cid, n=33000):
    """a two-byte prefix counting more than 2^15 members: lookups and updates at the top, bottom and middle"""
    cells = [(3 * i + 5, 0) for i in range(n)]
    raw = arr_encode(2, 'u32', n, cells + [(0, 0)] * 6)
    top = 3 * (n - 1) + 5
    ops = ['len', 'has %d 0' % top, 'has %d 0' % (top + 1), 'get %d 0' % (top - 3), 'has 5 0', 'has 4 0',
           'has %d 0' % (3 * (n // 2) + 5), 'ins %d 0' % (top + 7), 'ins %d 0' % (top - 1), 'ins 1 0', 'len',
           'take %d 0' % (top + 7), 'take 5 0', 'has %d 0' % top, 'len', 'full']
    return Case(cid, 'arr', {'p': 2, 'vty': 'u32', 'raw': raw.hex(), 'mode': 'persistent'}, ops, {'stream': 'L'})

def arr_prefix_max_cases(prefix_id):
    """a two-byte prefix holding exactly 65535 members in more slots than that (full by the prefix), and
    a four-byte prefix holding more than 65535 members (not full)"""
    out = []
    n = 65535
    cells = [(2 * i + 3, 0) for i in range(n)]
    raw = arr_encode(2, 'u32', n, cells + [(0, 0)] * 5)
    ops = ['len', 'full', 'ins 1 0', 'len', 'has 3 0', 'take 3 0', 'full', 'ins 1 0', 'ins 2 0', 'len', 'full']
    out.append(Case(prefix_id + 'a', 'arr', {'p': 2, 'vty': 'u32', 'raw': raw.hex(), 'mode': 'persistent'}, ops, {'stream': 'L'}))
    n = 65537
    cells = [(2 * i + 3, 0) for i in range(n)]
    raw = arr_encode(4, 'u32', n, cells + [(0, 0)] * 3)
    ops = ['len', 'full', 'ins 1 0', 'ins 2 0', 'len', 'full', 'ins 0 0', 'full', 'ins 4 0', 'take 1 0', 'len']
    out.append(Case(prefix_id + 'b', 'arr', {'p': 4, 'vty': 'u32', 'raw': raw.hex(), 'mode': 'persistent'}, ops, {'stream': 'L'}))
    return out

def arr_modular_cases(prefix_id, big=True):
    """more slots than the prefix can count, holding as many members as the slot count is modulo 2^(8p)
    (a count compared with a truncated slot count looks full), and exactly the prefix maximum in more slots"""
    out = []
    cid = 0
    todo = [(1, 256, 0), (1, 257, 1), (1, 260, 4), (1, 300, 44), (1, 512, 0), (1, 300, 255), (1, 256, 255), (1, 255, 255), (1, 254, 254)]
    if big:
        todo += [(2, 65539, 3), (2, 65536, 0)]
    for p, slots, n in todo:
        cells = [(2 * i + 3, 0) for i in range(n)] + [(0, 0)] * (slots - n)
        raw = arr_encode(p, 'u32', n, cells)
        ops = ['len', 'full', 'ins 1 0', 'len', 'full', 'ins 2 0', 'has 1 0', 'take 1 0', 'len', 'full', 'ins 1000000 0', 'len', 'deref']
        if slots > 1000:
            ops = ops[:-1]
        out.append(Case('%s%d' % (prefix_id, cid), 'arr', {'p': p, 'vty': 'u32', 'raw': raw.hex(), 'mode': 'persistent'}, ops, {'stream': 'L'})); cid += 1
    return out

def arr_exhaustive(p, vty, slots, m, L, prefix_id):
    vals = list(range(1, m + 1))
    alphabet = ['ins %d 0' % k for k in vals] + ['take %d 0' % k for k in vals]
    out = []
    for n, seq in enumerate(itertools.product(alphabet, repeat=L)):
        hdr = {'p': p, 'vty': vty, 'slots': slots, 'mode': 'persistent'}
        out.append(Case('%s%d' % (prefix_id, n), 'arr', hdr, list(seq) + ['deref'], {'stream': 'X'}))
    return out

def arr_encode(p, vty, count, cells):
    ksz, psz = ARR_VTY[vty]
    return le(count, p) + b''.join(le(k, ksz) + (le(q, psz) if psz else b'') for k, q in cells)

def arr_single_steps(rng, p, vty, max_len, prefix_id, lookups_only=False):
    """every sorted array of length n (keys 2,4,..) in n..n+2 slots, every
    insertion gap / present key / removal / lookup position"""
    out = []
    cid = 0
    for n in range(0, max_len + 1):
        for extra in ([0, 1] if not lookups_only else [0]):
            cells = [(2 * (i + 1), (i * 7) % 10 if vty == 'pair' else 0) for i in range(n)]
            # stale content in the unoccupied slots, as left behind by removals
            stale = [(rng.randint(1, 200), 0) for _ in range(extra)]
            raw = arr_encode(p, vty, n, cells + stale)
            hdr = {'p': p, 'vty': vty, 'raw': raw.hex(), 'mode': 'persistent'}
            probes = list(range(1, 2 * n + 2))
            single = ['get %d 0' % k for k in probes] + ['has %d 0' % k for k in probes]
            # get_mut searches too (the write keeps the element as it is)
            single += ['gmut %d 0 %d %d' % (k, k, ((k // 2 - 1) * 7) % 10 if (vty == 'pair' and k % 2 == 0) else 0) for k in probes]
            if not lookups_only:
                single += ['ins %d %d' % (k, 5 if vty == 'pair' else 0) for k in probes] + ['take %d 0' % k for k in probes] + ['rem %d 0' % k for k in probes]
            for op in single:
                out.append(Case('%s%d' % (prefix_id, cid), 'arr', hdr, ['len', 'openmut', op, 'deref', 'openmut', 'len', 'full'], {'stream': 'S', 'n': n}))
                cid += 1
    return out

# ------------------------------------------------------------------ strings
CHARS = ['a', 'b', 'z', '\x00', 'é', 'ß', '€', 'ࠀ', '￿', '\U0001d11e', '\U0010ffff', '\x7f', '\u0080', '߿', '\U00010000']

def rand_string(rng, maxchars):
    n = rng.randint(0, maxchars)
    return ''.join(rng.choice(CHARS) for _ in range(n))

def hx(b):
    return b.hex() if b else '-'

UTF8_LEADS = [0x00, 0x41, 0x7f, 0x80, 0xbf, 0xc0, 0xc1, 0xc2, 0xdf, 0xe0, 0xe1, 0xec, 0xed, 0xee, 0xef, 0xf0, 0xf1, 0xf3, 0xf4, 0xf5, 0xff]
UTF8_CONTS = [0x00, 0x7f, 0x80, 0x8f, 0x90, 0x9f, 0xa0, 0xbf, 0xc0, 0xff]

def utf8_probe_strings(thorough):
    res = [b'']
    for a in UTF8_LEADS:
        res.append(bytes([a]))
        for b in UTF8_CONTS:
            res.append(bytes([a, b]))
            for c in UTF8_CONTS:
                res.append(bytes([a, b, c]))
                if a >= 0xf0:
                    for d in UTF8_CONTS:
                        res.append(bytes([a, b, c, d]))
    if thorough:
        for a in range(256):
            for b in range(256):
                res.append(bytes([a, b]))
    else:
        for a in range(256):
            res.append(bytes([a]))
            res.append(bytes([a, 0x80]))
            res.append(bytes([a, 0xbf, 0x80]))
    return res

def pstr_validator_cases(p, thorough, prefix_id):
    """from_bytes / new over arbitrary payload bytes (the loading constructors)"""
    probes = utf8_probe_strings(thorough)
    out = []
    chunk = 400
    for ci in range(0, len(probes), chunk):
        ops = []
        for pb in probes[ci:ci + chunk]:
            # valid tail so that a wrongly accepted prefix cannot hide
            body = pb + b'a'
            ops.append('setbuf %s' % (le(len(body), p) + body).hex())
            ops.append('ro')
            ops.append('new')
            ops.append('asstr')
        out.append(Case('%s%d' % (prefix_id, ci // chunk), 'pstr', {'p': p, 'size': p + 5}, ops, {'stream': 'B'}))
    return out

def pstr_trailing_cases(prefix_id):
    """a recorded length shorter than the buffer, with bytes that are not UTF-8 behind it, and a
    recorded length that ends inside a character of otherwise valid text"""
    out = []
    cid = 0
    for p in (1, 2):
        for body, junk in ((b'abc', b'\xff\xfe'), (b'a\xc3\xa9', b'\x80'), (b'', b'\xc3'), (b'xy', b'\xe2\x82')):
            buf = le(len(body), p) + body + junk
            ops = ['setbuf %s' % buf.hex(), 'ro', 'new', 'asstr', 'ro']
            out.append(Case('%s%d' % (prefix_id, cid), 'pstr', {'p': p, 'size': len(buf)}, ops, {'stream': 'B'})); cid += 1
            # the same bytes through the mutable view: the recorded length, not the buffer, bounds the string,
            # copies stay within it and the bytes behind it are left alone
            ops = ['setbuf %s' % buf.hex(), 'rw', 'asstr', 'size', 'copy %s' % b'QRSTUVW'.hex(), 'asstr', 'ro', 'upper', 'rw', 'copysl %s' % b'z'.hex(), 'asstr', 'ro']
            out.append(Case('%s%d' % (prefix_id, cid), 'pstr', {'p': p, 'size': len(buf)}, ops, {'stream': 'B'})); cid += 1
        for extra in (1, 3, 17):
            body = b'hello'
            buf = le(len(body) + extra, p) + body
            out.append(Case('%s%d' % (prefix_id, cid), 'pstr', {'p': p, 'size': len(buf)}, ['setbuf %s' % buf.hex(), 'ro'], {'stream': 'B', 'expect_panic': True})); cid += 1
        for text, cut in (('aé', 2), ('€', 1), ('€', 2), ('\U0001d11e', 3), ('ab€', 3)):
            b = text.encode()
            buf = le(cut, p) + b
            ops = ['setbuf %s' % buf.hex(), 'ro']
            out.append(Case('%s%d' % (prefix_id, cid), 'pstr', {'p': p, 'size': len(buf)}, ops, {'stream': 'B'})); cid += 1
    return out

def pstr_maxlen_cases(prefix_id):
    """recorded length at the prefix maximum: the last bytes decide validity"""
    out = []
    cid = 0
    for p, mx in ((1, 255), (2, 65535), (2, 65534)):
        for tail in (b'\xc3', b'\xc3\xa9', b'\xe2\x82', b'\xe2\x82\xac', b'a', b'\xff'):
            body = b'a' * (mx - len(tail)) + tail
            buf = le(mx, p) + body + b'zz'
            ops = ['setbuf %s' % buf.hex(), 'ro', 'new', 'asstr', 'upper', 'asstr', 'rw', 'upper', 'asstr']
            out.append(Case('%s%d' % (prefix_id, cid), 'pstr', {'p': p, 'size': len(buf)}, ops, {'stream': 'B'})); cid += 1
    return out

def pstr_oversize_cases(prefix_id, thorough):
    """buffers larger than the prefix can describe, holding text that is valid as a whole but has
    a multi-byte character across the largest expressible length"""
    out = []
    cid = 0
    todo = [(1, 255)] + ([(2, 65535)] if True else [])
    for p, mx in todo:
        for ch in ('é', '€', '\U0001d11e'):
            e = ch.encode()
            for back in range(1, len(e)):
                body = b'a' * (mx - back) + e + b'bc'
                init = bytes(p) + body
                ops = ['new', 'size', 'asstr', 'ro']
                out.append(Case('%s%d' % (prefix_id, cid), 'pstr', {'p': p, 'size': len(init), 'init': init.hex()}, ops, {'stream': 'B'})); cid += 1
        body = b'a' * (mx + 3)
        init = bytes(p) + body
        out.append(Case('%s%d' % (prefix_id, cid), 'pstr', {'p': p, 'size': len(init), 'init': init.hex()}, ['new', 'size', 'asstr', 'ro'], {'stream': 'B'})); cid += 1
        # bytes that are not UTF-8 (or an unfinished character) behind the largest expressible length:
        # they are trailing data, new() must still hand out the mx bytes before them
        for junk in (b'\xff\xfe\x80\xc3', b'\xf0\x9f\x98', b'\x80', b'\xc3'):
            init = bytes(p) + b'z' * mx + junk
            out.append(Case('%s%d' % (prefix_id, cid), 'pstr', {'p': p, 'size': len(init), 'init': init.hex()}, ['new', 'size', 'asstr', 'ro'], {'stream': 'B'})); cid += 1
    return out

def podstr_validator_cases(thorough, prefix_id):
    """arbitrary bytes placed in a PodStr (copy_from_slice), then as_str / Display"""
    probes = utf8_probe_strings(False if not thorough else True)
    out = []
    chunk = 300
    for ci in range(0, len(probes), chunk):
        ops = []
        for pb in probes[ci:ci + chunk]:
            ops.append('copysl %s' % hx(b'a' + pb + b'b'))
            ops.append('asstr')
            ops.append('disp')
        out.append(Case('%s%d' % (prefix_id, ci // chunk), 'podstr', {'n': 8}, ops, {'stream': 'B'}))
        ops = []
        for pb in probes[ci:ci + chunk]:
            ops.append('copysl %s' % hx(b'abcdefgh' + pb))
            ops.append('asstr')
            ops.append('disp')
        out.append(Case('%st%d' % (prefix_id, ci // chunk), 'podstr', {'n': 10}, ops, {'stream': 'B'}))
    return out

def pstr_history(rng, cid, p=None, size=None):
    p = p or rng.choice([1, 2])
    if size is None:
        size = p + rng.choice([0, 1, 2, 3, 4, 5, 6, 7, 8, 10, 16, 33])
    ops = ['new', 'asstr', 'size']
    for _ in range(rng.randint(1, 8)):
        x = rng.random()
        if x < 0.6:
            s = rand_string(rng, rng.choice([1, 2, 3, 6, 12, 40]))
            ops += ['copy %s' % hx(s.encode()), 'asstr']
        elif x < 0.7:
            ops += ['upper', 'asstr']
        elif x < 0.78:
            # the unsafe byte-level copy, called directly with (valid, ASCII) text of any length
            n = rng.choice([0, 1, 2, max(0, size - p - 1), max(0, size - p), size - p + 1, size - p + 5, 40])
            ops += ['copysl %s' % hx(bytes(rng.choice(b'abcxyz019') for _ in range(n))), 'asstr']
        elif x < 0.84:
            ops += ['ro']
        elif x < 0.9:
            # drop the handle and re-open the same bytes mutably
            ops += ['rw', 'asstr', 'size']
        else:
            ops += ['size', 'new', 'asstr']
    ops += ['ro', 'size']
    hdr = {'p': p, 'size': size}
    if rng.random() < 0.4:
        hdr['odd'] = 1
    return Case(cid, 'pstr', hdr, ops, {'stream': 'H'})

def pstr_cut_cases(p, prefix_id):
    """every cut position through strings mixing 1-4 byte characters and NULs"""
    out = []
    srcs = ['aé€\U0001d11eb', '\U0001d11e\U0001d11e', '€\x00éa', 'ab\x00cd', 'é' * 5, '\U0010ffffࠀa']
    cid = 0
    for s in srcs:
        b = s.encode()
        for payload in range(0, len(b) + 2):
            ops = ['new', 'copy %s' % hx(('x' * (payload + 3)).encode()), 'copy %s' % hx(b), 'asstr', 'size', 'ro',
                   'copy %s' % hx(b'q'), 'asstr', 'ro']
            out.append(Case('%s%d' % (prefix_id, cid), 'pstr', {'p': p, 'size': p + payload}, ops, {'stream': 'B'}))
            cid += 1
    return out

def pstr_boundary_cases(prefix_id, thorough):
    out = []
    cid = 0
    sizes = [(1, n) for n in (0, 1, 2, 255, 256, 257, 258, 300)]
    sizes += [(2, n) for n in (0, 1, 2, 3, 4)]
    # two-byte prefix: payload lengths whose low or high length byte is zero, and around one byte's worth
    sizes += [(2, 2 + n) for n in (255, 256, 257, 511, 512, 513, 768, 4096, 65280, 65281)]
    sizes += [(2, n) for n in ((65536, 65537, 65538, 65539, 65540) if thorough else (65537, 65538, 65539))]
    # sources longer than the prefix type can count, into small and large payloads
    for p, srclens in ((1, (255, 256, 257, 300, 511, 512, 513)), (2, (65535, 65536, 65537, 65546))):
        for payload in (3, 10, 200):
            for n in srclens:
                src = (b'ab\xc3\xa9' * (n // 4 + 1))[:n]
                while src and (src[-1] & 0xC0) == 0x80 or (src and src[-1] >= 0xC0):
                    src = src[:-1]
                ops = ['new', 'copy %s' % hx(b'zzzzzzzzzzzz'), 'copy %s' % hx(src), 'asstr', 'ro']
                out.append(Case('%s%d' % (prefix_id, cid), 'pstr', {'p': p, 'size': p + payload}, ops, {'stream': 'B'}))
                cid += 1
    for p, size in sizes:
        ops = ['new', 'size', 'asstr', 'copy %s' % hx(b'hello'), 'asstr', 'ro', 'size']
        out.append(Case('%s%d' % (prefix_id, cid), 'pstr', {'p': p, 'size': size}, ops, {'stream': 'B'}))
        cid += 1
    return out

PODSTR_NS = [0, 1, 2, 3, 4, 5, 6, 7, 8, 10, 16, 32]

def podstr_history(rng, cid, n=None):
    n = n if n is not None else rng.choice(PODSTR_NS)
    ops = []
    if rng.random() < 0.3:
        ops += ['asstr', 'disp']          # the value the case starts with is PodStr::default()
    for _ in range(rng.randint(2, 10)):
        x = rng.random()
        if x < 0.06:
            ops += ['default', 'asstr', 'disp', 'asstru']
            continue
        s = rand_string(rng, rng.choice([0, 1, 2, 3, 5, 8, 12]))
        if rng.random() < 0.3:
            # exact fit / overflow by one byte
            target = n + rng.choice([0, 1, -1])
            while len(s.encode()) < target:
                s += rng.choice(['a', 'é', '€'])
        b = s.encode()
        if x < 0.3:
            ops.append('from %s' % hx(b))
        elif x < 0.4:
            ops.append('fromstring %s' % hx(b))
        elif x < 0.75:
            ops.append('copy %s' % hx(b))
        else:
            raw = bytes(rng.choice([0, 0x41, 0x80, 0xc3, 0xa9, 0xe2, 0xff, 0x7f]) for _ in range(rng.randint(0, n + 2)))
            ops.append('copysl %s' % hx(raw))
        ops += ['asstr', 'disp', 'asstru']
        if rng.random() < 0.3:
            ops.append('load %s' % hx(bytes(rng.randint(0, 3))))
    ops.append('load -')
    return Case(cid, 'podstr', {'n': n}, ops, {'stream': 'H'})

def podstr_cut_cases(prefix_id):
    out = []
    cid = 0
    srcs = ['aé€\U0001d11eb', 'ab\x00cd', '€€€€', 'hello world, hello', '']
    for n in PODSTR_NS:
        for s in srcs:
            b = s.encode()
            ops = ['copy %s' % hx(('y' * 40).encode()), 'copy %s' % hx(b), 'asstr', 'disp', 'load -',
                   'from %s' % hx(b), 'asstr', 'disp', 'copy %s' % hx(b'z'), 'asstr', 'disp', 'copy -', 'asstr', 'disp']
            out.append(Case('%s%d' % (prefix_id, cid), 'podstr', {'n': n}, ops, {'stream': 'B'}))
            cid += 1
        out.append(Case('%s%d' % (prefix_id, cid), 'podstr', {'n': n}, ['copy %s' % hx(b'abc'), 'loadshort'], {'stream': 'B'}))
        cid += 1
    return out

def pod_cases(rng, prefix_id):
    out = []
    ops = ['bool %d' % b for b in range(256)] + ['frombool 0', 'frombool 1']
    out.append(Case(prefix_id + 'bool', 'pod', {}, ops, {'stream': 'B', 'exhaustive': True}))
    ops = []
    for sz in (0, 1, 4, 8, 10, 32):
        for ln in (0, sz - 1, sz, sz + 1, sz + 7):
            if ln < 0:
                continue
            data = bytes(rng.randint(0, 255) for _ in range(ln))
            ops.append('load %d %s' % (sz, hx(data)))
            val = bytes(rng.randint(0, 255) for _ in range(sz))
            ops.append('loadmut %d %s %s' % (sz, hx(data), hx(val)))
        if ln >= 0:
            ops.append('loadmutnw %d %s' % (sz, hx(bytes(rng.choice([0, 1, 2, 0x7f, 0x80, 0xff]) for _ in range(max(ln, sz))))))
        # obtaining the mutable view writes nothing, whatever the bytes are: zeros inside, zeros at the ends,
        # no zeros, text after a NUL, trailing bytes behind the value
        if sz > 0:
            pats = [bytes(sz), b'\xff' * sz, b'a' + bytes(sz - 1), bytes(sz - 1) + b'z',
                    (b'a\x00' + b'\xffbc\x00d\x80' * 6)[:sz], (b'\x00' + b'xy\x00' * 12)[:sz], (b'ab\xe2\x82\x00q' * 6)[:sz]]
            for pt in pats:
                ops.append('loadmutnw %d %s' % (sz, hx(pt)))
                ops.append('loadmutnw %d %s' % (sz, hx(pt + b'\x00\x07\x00')))
                ops.append('load %d %s' % (sz, hx(pt + b'\x09')))
        for off in (0, 1, 2, 3, 4, 5, 8, 12):
            data = bytes(rng.randint(1, 255) for _ in range(sz + 9))
            ops.append('loadoff %d %d %s' % (sz, off, hx(data)))
    out.append(Case(prefix_id + 'load', 'pod', {}, ops, {'stream': 'B'}))
    ops = []
    for sz in (1, 2, 4, 8, 32):
        pats = [bytes(sz), b'\xff' * sz, b'\x01' + bytes(sz - 1), bytes(sz - 1) + b'\x01', b'\xff' * (sz - 1) + b'\xfe']
        pats += [bytes(rng.randint(0, 255) for _ in range(sz)) for _ in range(6)]
        for pt in pats:
            ops.append('opt %d %s' % (sz, hx(pt)))
            ops.append('opt %d %s' % (sz, hx(pt + b'\x77\x00')))
        ops.append('opt %d %s' % (sz, hx(bytes(sz - 1))))
    # an inner type of size zero: the option occupies no bytes, any buffer (also an empty one) loads
    ops += ['opt 0 -', 'opt 0 00', 'opt 0 ff07']
    out.append(Case(prefix_id + 'opt', 'pod', {}, ops, {'stream': 'B'}))
    return out
