(* Layer C for src/pod/pod_bool.rs, src/pod/pod_option.rs and the
   ZeroCopy::load / load_mut provided methods of src/lib.rs. *)
From Coq Require Import List NArith Bool Arith.
From Stevia Require Import Base.Res Base.Bytes.
Import ListNotations.
Open Scope N_scope.

(* PodBool(u8) *)
Definition pod_of_bool (b : bool) : N := if b then 1 else 0.
Definition bool_of_pod (x : N) : bool := negb (x =? 0).

(* load::<T>(data) for a T of [sz] bytes: the view is the first sz bytes *)
Definition load (sz : nat) (data : list N) : res (list N) :=
  if (length data <? sz)%nat then Panic PSlice else Ok (firstn sz data).

(* load_mut followed by a store of [v] (sz bytes) through the reference *)
Definition load_mut_store (sz : nat) (data v : list N) : res (list N) :=
  if (length data <? sz)%nat then Panic PSlice else Ok (v ++ skipn sz data).

(* PodOption<T>: a transparent wrapper; value()/value_mut() consult
   Nullable::is_some of the inner value (an arbitrary predicate) *)
Section Opt.
Variable T : Type.
Variable is_some : T -> bool.
Definition po_new (x : T) : T := x.
Definition po_value (x : T) : option T := if is_some x then Some x else None.
Definition po_value_mut := po_value.
End Opt.
