(* Layer C for src/pod/pod_str.rs.  A PodStr<N> is its N bytes. *)
From Coq Require Import List NArith Bool Arith.
From Stevia Require Import Base.Res Base.Bytes Base.Utf8.
Import ListNotations.
Open Scope N_scope.

Section S.
Variable max_size : nat.

Definition ps_copy_from_slice (slice : list N) : list N :=
  let length_ := Nat.min (length slice) max_size in
  firstn length_ slice ++ zeros (max_size - length_).

Definition ps_copy_from_str := ps_copy_from_slice.
Definition ps_from := ps_copy_from_slice.

Fixpoint until_nul (v : list N) : list N :=
  match v with [] => [] | b :: r => if b =? 0 then [] else b :: until_nul r end.

(* as_str: Some text = Ok, None = Err(Utf8Error) *)
Definition ps_as_str (v : list N) : option (list N) :=
  let t := until_nul v in if utf8_valid t then Some t else None.

(* Display (repair of D12): the lossy rendering of the text before the first
   NUL; when that text is valid UTF-8 the rendering is the text itself.  The
   replacement-character rendering of invalid text is std's
   String::from_utf8_lossy and is not modelled: [None] *)
Definition ps_display (v : list N) : option (list N) := ps_as_str v.

(* ZeroCopy::load: &data[..size_of] then a view *)
Definition ps_load (data : list N) : res (list N) :=
  if (length data <? max_size)%nat then Panic PSlice else Ok (firstn max_size data).
End S.
