(* Further laws of the load / load_mut view model (Pod/Pod.v): the view is a
   lens on the first [sz] bytes of the buffer - get-put, put-get, put-put -
   and loading from a loaded value is the identity. *)
From Coq Require Import List NArith Bool Arith Lia.
From Stevia Require Import Base.Res Base.Bytes Pod.Pod.
Import ListNotations.

(* get-put: storing what was loaded changes nothing *)
Lemma load_mut_store_same : forall sz data v, load sz data = Ok v -> load_mut_store sz data v = Ok data.
Proof.
  intros sz data v H. unfold load, load_mut_store in *.
  destruct (length data <? sz)%nat; [discriminate|].
  injection H as Hv. subst v. rewrite firstn_skipn. reflexivity.
Qed.

(* put-put: the last store wins, whatever was stored before *)
Lemma load_mut_store_twice : forall sz data v w d1,
  length v = sz -> length w = sz -> load_mut_store sz data v = Ok d1 ->
  load_mut_store sz d1 w = load_mut_store sz data w.
Proof.
  intros sz data v w d1 Hv Hw H. unfold load_mut_store in *.
  destruct (length data <? sz)%nat eqn:E; [discriminate|].
  injection H as Hd. subst d1. apply Nat.ltb_ge in E.
  rewrite app_length, skipn_length.
  replace (length v + (length data - sz) <? sz)%nat with false
    by (symmetry; apply Nat.ltb_ge; lia).
  f_equal. f_equal.
  rewrite skipn_app. rewrite <- Hv at 1. rewrite skipn_all. rewrite Hv, Nat.sub_diag. reflexivity.
Qed.

(* a loaded value is its own view *)
Lemma load_idempotent : forall sz data v, load sz data = Ok v -> load sz v = Ok v /\ length v = sz.
Proof.
  intros sz data v H. unfold load in *.
  destruct (length data <? sz)%nat eqn:E; [discriminate|].
  injection H as Hv. subst v. apply Nat.ltb_ge in E.
  rewrite firstn_length, Nat.min_l by exact E. rewrite Nat.ltb_irrefl.
  rewrite firstn_firstn, Nat.min_id. split; reflexivity.
Qed.

(* a store leaves the length and every byte behind the view alone, for any earlier content of the view *)
Lemma load_mut_store_frame : forall sz d1 d2 v r1 r2,
  length v = sz -> skipn sz d1 = skipn sz d2 ->
  load_mut_store sz d1 v = Ok r1 -> load_mut_store sz d2 v = Ok r2 -> r1 = r2.
Proof.
  intros sz d1 d2 v r1 r2 Hv Hs H1 H2. unfold load_mut_store in *.
  destruct (length d1 <? sz)%nat; [discriminate|]. destruct (length d2 <? sz)%nat; [discriminate|].
  injection H1 as <-. injection H2 as <-. rewrite Hs. reflexivity.
Qed.

Example lens_example :
  load 2 [7; 8; 9]%N = Ok [7; 8]%N /\ load_mut_store 2 [7; 8; 9]%N [1; 2]%N = Ok [1; 2; 9]%N /\
  load_mut_store 2 [1; 2; 9]%N [7; 8]%N = Ok [7; 8; 9]%N /\ load 2 [7]%N = Panic PSlice.
Proof. vm_compute. repeat split; reflexivity. Qed.
