(* Theory of Pod/Pod.v (C15). *)
From Coq Require Import List NArith Bool Arith Lia.
From Stevia Require Import Base.Res Base.Bytes Pod.Pod.
Import ListNotations.
Open Scope N_scope.

Lemma load_ok sz data : (sz <= length data)%nat -> load sz data = Ok (firstn sz data).
Proof. intros H. unfold load. destruct (Nat.ltb_spec (length data) sz); [lia|reflexivity]. Qed.

Lemma load_short sz data : (length data < sz)%nat -> load sz data = Panic PSlice.
Proof. intros H. unfold load. destruct (Nat.ltb_spec (length data) sz); [reflexivity|lia]. Qed.

Lemma load_total sz data :
  (load sz data = Panic PSlice /\ (length data < sz)%nat) \/
  (load sz data = Ok (firstn sz data) /\ (sz <= length data)%nat).
Proof.
  destruct (Nat.lt_ge_cases (length data) sz); [left|right]; split; auto using load_short, load_ok.
Qed.

(* the view reflects exactly the first size_of bytes: trailing bytes are ignored *)
Lemma load_prefix sz v rest : length v = sz -> load sz (v ++ rest) = Ok v.
Proof.
  intros H. rewrite load_ok by (rewrite app_length; lia).
  rewrite firstn_app, <- H, firstn_all, Nat.sub_diag. cbn. now rewrite app_nil_r.
Qed.

(* a view never depends on anything but the first sz bytes *)
Lemma load_ext sz d1 d2 :
  firstn sz d1 = firstn sz d2 -> (sz <= length d1)%nat -> (sz <= length d2)%nat -> load sz d1 = load sz d2.
Proof. intros H H1 H2. rewrite !load_ok by assumption. now rewrite H. Qed.

(* writes through load_mut land in the buffer, and nowhere else *)
Lemma load_mut_store_spec sz data v :
  length v = sz -> (sz <= length data)%nat ->
  exists data', load_mut_store sz data v = Ok data' /\
    length data' = length data /\ load sz data' = Ok v /\ skipn sz data' = skipn sz data.
Proof.
  intros Hv Hd. unfold load_mut_store. destruct (Nat.ltb_spec (length data) sz); [lia|].
  eexists; split; [reflexivity|]. repeat split.
  - rewrite app_length, skipn_length. lia.
  - apply load_prefix; auto.
  - rewrite skipn_app, <- Hv, skipn_all, Nat.sub_diag. reflexivity.
Qed.

Lemma load_mut_store_short sz data v :
  (length data < sz)%nat -> load_mut_store sz data v = Panic PSlice.
Proof. intros H. unfold load_mut_store. destruct (Nat.ltb_spec (length data) sz); [reflexivity|lia]. Qed.

(* PodBool *)
Lemma bool_of_pod_zero b : bool_of_pod b = false <-> b = 0.
Proof. unfold bool_of_pod. destruct (N.eqb_spec b 0); cbn; split; congruence. Qed.
Lemma bool_of_pod_nonzero b : bool_of_pod b = true <-> b <> 0.
Proof. unfold bool_of_pod. destruct (N.eqb_spec b 0); cbn; split; congruence. Qed.
Lemma pod_roundtrip x : bool_of_pod (pod_of_bool x) = x.
Proof. destruct x; reflexivity. Qed.
Lemma pod_of_bool_enc x : pod_of_bool x = if x then 1 else 0.
Proof. reflexivity. Qed.

(* every one of the 256 byte values decodes; checked by evaluation over the
   whole (finite) domain and lifted *)
Definition all_bytes : list N := map N.of_nat (seq 0 256).
Lemma all_bytes_complete b : b < 256 -> In b all_bytes.
Proof.
  intros H. unfold all_bytes. apply in_map_iff. exists (N.to_nat b). split; [lia|].
  apply in_seq. lia.
Qed.
Lemma bool_sweep : forallb (fun b => Bool.eqb (bool_of_pod b) (negb (b =? 0))
                                  && Bool.eqb (bool_of_pod (pod_of_bool (bool_of_pod b))) (bool_of_pod b)) all_bytes = true.
Proof. vm_compute. reflexivity. Qed.
Lemma bool_all_bytes b : b < 256 -> bool_of_pod b = negb (b =? 0) /\ bool_of_pod (pod_of_bool (bool_of_pod b)) = bool_of_pod b.
Proof.
  intros H. pose proof (proj1 (forallb_forall _ _) bool_sweep b (all_bytes_complete b H)) as E.
  apply andb_true_iff in E. destruct E as [E1 E2]. split; apply Bool.eqb_prop; assumption.
Qed.

(* PodOption *)
Section Opt.
Variable T : Type.
Variable is_some : T -> bool.
Lemma po_value_some x : po_value T is_some x = Some x <-> is_some x = true.
Proof. unfold po_value. destruct (is_some x); split; congruence. Qed.
Lemma po_value_none x : po_value T is_some x = None <-> is_some x = false.
Proof. unfold po_value. destruct (is_some x); split; congruence. Qed.
Lemma po_value_only x y : po_value T is_some x = Some y -> y = x.
Proof. unfold po_value. destruct (is_some x); congruence. Qed.
Lemma po_transparent x : po_new T x = x.
Proof. reflexivity. Qed.
End Opt.
