(* Theory of Pod/PodStr.v, generic in the capacity [n] (including 0). *)
From Coq Require Import List NArith ZArith Bool Arith Lia ZifyBool ZifyNat ZifyN.
From Stevia Require Import Base.Res Base.Bytes Base.Utf8 Base.Utf8Facts Pod.PodStr.
Import ListNotations.
Open Scope N_scope.
Arguments N.add : simpl never. Arguments N.sub : simpl never. Arguments N.mul : simpl never.
Arguments N.div : simpl never. Arguments N.modulo : simpl never. Arguments N.eqb : simpl never.
Arguments N.ltb : simpl never. Arguments N.leb : simpl never. Arguments N.max : simpl never.
Arguments N.min : simpl never. Arguments N.pow : simpl never.

Definition no_nul (s : list N) : Prop := Forall (fun b => b <> 0) s.

(* ---------------------------------------------------------------- *)
(* 1. copy_from_slice *)
Theorem ps_copy_from_slice_eq n s :
  ps_copy_from_slice n s = firstn (Nat.min (length s) n) s ++ zeros (n - Nat.min (length s) n).
Proof. reflexivity. Qed.

Theorem ps_copy_from_slice_length n s : length (ps_copy_from_slice n s) = n.
Proof.
  unfold ps_copy_from_slice, zeros. rewrite app_length, firstn_length, repeat_length. lia.
Qed.

Lemma ps_copy_from_slice_fits n s : (length s <= n)%nat ->
  ps_copy_from_slice n s = s ++ zeros (n - length s).
Proof.
  intros H. unfold ps_copy_from_slice. replace (Nat.min (length s) n) with (length s) by lia.
  rewrite firstn_all. reflexivity.
Qed.

Lemma ps_copy_from_slice_truncates n s : (n <= length s)%nat -> ps_copy_from_slice n s = firstn n s.
Proof.
  intros H. unfold ps_copy_from_slice. replace (Nat.min (length s) n) with n by lia.
  rewrite Nat.sub_diag. cbn [zeros repeat]. apply app_nil_r.
Qed.

(* The stored value is a function of the source alone.  In Rust,
   [copy_from_slice(&mut self, s)] overwrites all [n] bytes of [self]; the
   model of "the value [v0] after the copy" is the constant function below. *)
Definition ps_copy_over (n : nat) (v0 s : list N) : list N := ps_copy_from_slice n s.

Theorem ps_copy_ignores_previous n s v0 v0' : ps_copy_over n v0 s = ps_copy_over n v0' s.
Proof. reflexivity. Qed.

Theorem ps_copy_variants n s :
  ps_copy_from_str n s = ps_copy_from_slice n s /\ ps_from n s = ps_copy_from_slice n s.
Proof. split; reflexivity. Qed.

(* ---------------------------------------------------------------- *)
(* until_nul *)
Lemma until_nul_eq b r : until_nul (b :: r) = if b =? 0 then [] else b :: until_nul r.
Proof. reflexivity. Qed.

Lemma until_nul_app_zeros s k : no_nul s -> until_nul (s ++ zeros k) = s.
Proof.
  intros H; induction H as [|b s Hb Hs IH].
  - cbn [app]. destruct k as [|k]; [reflexivity|].
    cbn [zeros repeat]. rewrite until_nul_eq. change (0 =? 0) with true. reflexivity.
  - cbn [app]. rewrite until_nul_eq. destruct (N.eqb_spec b 0) as [E|_]; [contradiction|].
    rewrite IH. reflexivity.
Qed.

Lemma until_nul_no_nul v : no_nul (until_nul v).
Proof.
  induction v as [|b r IH]; [constructor|]. rewrite until_nul_eq.
  destruct (N.eqb_spec b 0) as [E|E]; constructor; assumption.
Qed.

(* [until_nul v] is the prefix of [v] before the first 0 *)
Lemma until_nul_prefix v :
  exists rest, v = until_nul v ++ rest /\ (rest = [] \/ exists rest', rest = 0 :: rest').
Proof.
  induction v as [|b r IH].
  - exists []. split; [reflexivity|left; reflexivity].
  - rewrite until_nul_eq. destruct (N.eqb_spec b 0) as [E|E].
    + subst b. exists (0 :: r). split; [reflexivity|right; eauto].
    + destruct IH as (rest & E1 & E2). exists rest. split; [|exact E2].
      cbn [app]. rewrite <- E1. reflexivity.
Qed.

Lemma until_nul_firstn v : until_nul v = firstn (length (until_nul v)) v.
Proof.
  destruct (until_nul_prefix v) as (rest & E & _).
  rewrite E at 3. rewrite firstn_app, Nat.sub_diag, firstn_all. cbn [firstn]. symmetry. apply app_nil_r.
Qed.

Lemma until_nul_id s : no_nul s -> until_nul s = s.
Proof. intros H. rewrite <- (app_nil_r s) at 1. apply (until_nul_app_zeros s 0 H). Qed.

(* ---------------------------------------------------------------- *)
(* 2. round trip *)
Theorem ps_roundtrip n s :
  (length s <= n)%nat -> no_nul s -> utf8_valid s = true ->
  ps_as_str (ps_copy_from_slice n s) = Some s.
Proof.
  intros Hl Hn Hv. rewrite ps_copy_from_slice_fits by exact Hl.
  unfold ps_as_str. rewrite until_nul_app_zeros by exact Hn. rewrite Hv. reflexivity.
Qed.

(* ---------------------------------------------------------------- *)
(* 3. as_str is total over arbitrary bytes *)
Theorem ps_as_str_some v t : ps_as_str v = Some t -> t = until_nul v /\ utf8_valid t = true.
Proof.
  unfold ps_as_str. destruct (utf8_valid (until_nul v)) eqn:E; [|discriminate].
  intros H; injection H as <-. split; [reflexivity|exact E].
Qed.

Theorem ps_as_str_some_iff v t : ps_as_str v = Some t <-> t = until_nul v /\ utf8_valid t = true.
Proof.
  split; [apply ps_as_str_some|]. intros [-> E]. unfold ps_as_str. rewrite E. reflexivity.
Qed.

Theorem ps_as_str_none_iff v : ps_as_str v = None <-> utf8_valid (until_nul v) = false.
Proof.
  unfold ps_as_str. destruct (utf8_valid (until_nul v)); split; intros H; congruence.
Qed.

Theorem until_nul_spec v :
  no_nul (until_nul v) /\
  exists rest, v = until_nul v ++ rest /\ (rest = [] \/ exists rest', rest = 0 :: rest').
Proof. split; [apply until_nul_no_nul | apply until_nul_prefix]. Qed.

(* ---------------------------------------------------------------- *)
(* 4. Display *)
Theorem ps_display_eq v : ps_display v = ps_as_str v.
Proof. reflexivity. Qed.

Theorem ps_display_no_padding v t : ps_display v = Some t ->
  ps_as_str v = Some t /\ no_nul t /\ utf8_valid t = true /\ t = until_nul v.
Proof.
  intros H. change (ps_display v) with (ps_as_str v) in H. split; [exact H|].
  apply ps_as_str_some in H. destruct H as [-> Hv].
  split; [apply until_nul_no_nul|]. split; [exact Hv|reflexivity].
Qed.

Theorem ps_display_roundtrip n s :
  (length s <= n)%nat -> no_nul s -> utf8_valid s = true ->
  ps_display (ps_copy_from_slice n s) = Some s.
Proof. apply ps_roundtrip. Qed.

(* ---------------------------------------------------------------- *)
(* 5. load *)
Theorem ps_load_prefix n v extra : length v = n -> ps_load n (v ++ extra) = Ok v.
Proof.
  intros H. unfold ps_load. rewrite app_length.
  destruct (Nat.ltb_spec (length v + length extra) n) as [Hlt|_]; [lia|].
  rewrite firstn_app, <- H, Nat.sub_diag, firstn_all. cbn [firstn]. rewrite app_nil_r. reflexivity.
Qed.

Theorem ps_load_panic_iff n d : ps_load n d = Panic PSlice <-> (length d < n)%nat.
Proof.
  unfold ps_load. destruct (Nat.ltb_spec (length d) n) as [Hlt|Hge].
  - split; [intros _; exact Hlt|reflexivity].
  - split; [discriminate|lia].
Qed.

Theorem ps_load_ok n d : (n <= length d)%nat -> ps_load n d = Ok (firstn n d).
Proof.
  intros H. unfold ps_load. destruct (Nat.ltb_spec (length d) n) as [Hlt|_]; [lia|reflexivity].
Qed.

Theorem ps_load_total n d :
  (ps_load n d = Panic PSlice /\ (length d < n)%nat) \/
  (ps_load n d = Ok (firstn n d) /\ (n <= length d)%nat /\ length (firstn n d) = n).
Proof.
  destruct (Nat.lt_ge_cases (length d) n) as [H|H]; [left|right].
  - split; [apply ps_load_panic_iff; exact H|exact H].
  - split; [apply ps_load_ok; exact H|]. split; [exact H|]. apply firstn_length_le. exact H.
Qed.
