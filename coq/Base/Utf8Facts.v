(* Theory of Base/Utf8.v: the validator against the Unicode Table 3-7 grammar,
   closure under concatenation, the encoder produces valid text, and
   character boundaries of encoded text. *)
From Coq Require Import List NArith ZArith Bool Arith Lia ZifyBool ZifyNat ZifyN.
From Stevia Require Import Base.Res Base.Bytes Base.Utf8.
Import ListNotations.
Open Scope N_scope.
Ltac Zify.zify_post_hook ::= Z.div_mod_to_equations.
Arguments N.add : simpl never. Arguments N.sub : simpl never. Arguments N.mul : simpl never.
Arguments N.div : simpl never. Arguments N.modulo : simpl never. Arguments N.eqb : simpl never.
Arguments N.ltb : simpl never. Arguments N.leb : simpl never. Arguments N.max : simpl never.
Arguments N.min : simpl never. Arguments N.pow : simpl never.

Definition scalar (c : N) : Prop := is_scalar c = true.

(* unfold the range tests; [lia] (with ZifyBool) then reads the boolean
   comparisons directly *)
Ltac ub := unfold scalar, is_scalar, cont, inr in *.

(* ------------------------------------------------------------------ *)
(* Unicode 15, Table 3-7 "Well-Formed UTF-8 Byte Sequences", one
   constructor per row *)
Inductive WellFormed : list N -> Prop :=
| WF_nil : WellFormed []
| WF_00_7F b0 r :                       (* 00..7F *)
    b0 <= 127 -> WellFormed r -> WellFormed (b0 :: r)
| WF_C2_DF b0 b1 r :                    (* C2..DF 80..BF *)
    194 <= b0 <= 223 -> 128 <= b1 <= 191 -> WellFormed r -> WellFormed (b0 :: b1 :: r)
| WF_E0 b1 b2 r :                       (* E0 A0..BF 80..BF *)
    160 <= b1 <= 191 -> 128 <= b2 <= 191 -> WellFormed r -> WellFormed (224 :: b1 :: b2 :: r)
| WF_E1_EC b0 b1 b2 r :                 (* E1..EC 80..BF 80..BF *)
    225 <= b0 <= 236 -> 128 <= b1 <= 191 -> 128 <= b2 <= 191 -> WellFormed r ->
    WellFormed (b0 :: b1 :: b2 :: r)
| WF_ED b1 b2 r :                       (* ED 80..9F 80..BF *)
    128 <= b1 <= 159 -> 128 <= b2 <= 191 -> WellFormed r -> WellFormed (237 :: b1 :: b2 :: r)
| WF_EE_EF b0 b1 b2 r :                 (* EE..EF 80..BF 80..BF *)
    238 <= b0 <= 239 -> 128 <= b1 <= 191 -> 128 <= b2 <= 191 -> WellFormed r ->
    WellFormed (b0 :: b1 :: b2 :: r)
| WF_F0 b1 b2 b3 r :                    (* F0 90..BF 80..BF 80..BF *)
    144 <= b1 <= 191 -> 128 <= b2 <= 191 -> 128 <= b3 <= 191 -> WellFormed r ->
    WellFormed (240 :: b1 :: b2 :: b3 :: r)
| WF_F1_F3 b0 b1 b2 b3 r :              (* F1..F3 80..BF 80..BF 80..BF *)
    241 <= b0 <= 243 -> 128 <= b1 <= 191 -> 128 <= b2 <= 191 -> 128 <= b3 <= 191 -> WellFormed r ->
    WellFormed (b0 :: b1 :: b2 :: b3 :: r)
| WF_F4 b1 b2 b3 r :                    (* F4 80..8F 80..BF 80..BF *)
    128 <= b1 <= 143 -> 128 <= b2 <= 191 -> 128 <= b3 <= 191 -> WellFormed r ->
    WellFormed (244 :: b1 :: b2 :: b3 :: r).

Lemma utf8_valid_WF_aux n : forall bs, (length bs <= n)%nat -> utf8_valid bs = true -> WellFormed bs.
Proof.
  induction n as [|n IH]; intros bs Hl H.
  - destruct bs as [|b0 r]; [constructor | cbn [length] in Hl; lia].
  - destruct bs as [|b0 r]; [constructor|].
    cbn [length] in Hl. cbn [utf8_valid] in H.
    repeat match type of H with
      | (if ?c then _ else _) = true => let E := fresh "E" in destruct c eqn:E
      end.
    all: try discriminate.
    all: repeat match type of H with
      | match ?l with [] => _ | _ :: _ => _ end = true =>
        let b := fresh "b" in let l' := fresh "r" in destruct l as [|b l']; [discriminate|]
      end.
    all: try (apply andb_prop in H; destruct H as [Hc H]).
    all: cbn [length] in Hl; apply IH in H; [|lia].
    all: ub.
    all: repeat match goal with
      | E : (?x =? ?k) = true |- _ => apply N.eqb_eq in E; subst x
      end.
    all: try match goal with
      | E : _ || _ = true |- _ => apply orb_prop in E; destruct E as [E|E]
      end.
    all: solve [constructor; first [assumption | lia]].
Qed.

Lemma utf8_valid_WF bs : utf8_valid bs = true -> WellFormed bs.
Proof. apply (utf8_valid_WF_aux (length bs)). lia. Qed.

Lemma WF_utf8_valid bs : WellFormed bs -> utf8_valid bs = true.
Proof.
  intros H; induction H as
    [ | b0 r H0 Hr IH | b0 b1 r H0 H1 Hr IH | b1 b2 r H1 H2 Hr IH | b0 b1 b2 r H0 H1 H2 Hr IH
      | b1 b2 r H1 H2 Hr IH | b0 b1 b2 r H0 H1 H2 Hr IH | b1 b2 b3 r H1 H2 H3 Hr IH
      | b0 b1 b2 b3 r H0 H1 H2 H3 Hr IH | b1 b2 b3 r H1 H2 H3 Hr IH ].
  1: reflexivity.
  all: cbn [utf8_valid]; rewrite IH, ?andb_true_r; ub.
  all: repeat match goal with
    | |- (if ?c then _ else _) = true => let E := fresh "E" in destruct c eqn:E
    end.
  all: try reflexivity; lia.
Qed.

Theorem utf8_valid_iff_WellFormed bs : utf8_valid bs = true <-> WellFormed bs.
Proof. split; [apply utf8_valid_WF | apply WF_utf8_valid]. Qed.

(* ------------------------------------------------------------------ *)
(* closure under concatenation *)
Lemma WellFormed_app a b : WellFormed a -> WellFormed b -> WellFormed (a ++ b).
Proof.
  intros Ha Hb; induction Ha as
    [ | b0 r H0 Hr IH | b0 b1 r H0 H1 Hr IH | b1 b2 r H1 H2 Hr IH | b0 b1 b2 r H0 H1 H2 Hr IH
      | b1 b2 r H1 H2 Hr IH | b0 b1 b2 r H0 H1 H2 Hr IH | b1 b2 b3 r H1 H2 H3 Hr IH
      | b0 b1 b2 b3 r H0 H1 H2 H3 Hr IH | b1 b2 b3 r H1 H2 H3 Hr IH ].
  1: exact Hb.
  all: cbn [app]; solve [constructor; assumption].
Qed.

Theorem utf8_valid_app a b :
  utf8_valid a = true -> utf8_valid b = true -> utf8_valid (a ++ b) = true.
Proof.
  intros Ha Hb. apply WF_utf8_valid, WellFormed_app; apply utf8_valid_WF; assumption.
Qed.

(* NUL padding is valid text *)
Theorem utf8_valid_zeros n : utf8_valid (zeros n) = true.
Proof.
  unfold zeros. induction n as [|n IH]; [reflexivity|].
  cbn [repeat utf8_valid]. change (0 <? 128) with true. cbn iota. exact IH.
Qed.

Lemma utf8_valid_app_zeros a n : utf8_valid a = true -> utf8_valid (a ++ zeros n) = true.
Proof. intros H. apply utf8_valid_app; [exact H | apply utf8_valid_zeros]. Qed.

(* ------------------------------------------------------------------ *)
(* the encoder *)
Lemma utf8_enc_nil : utf8_enc [] = [].
Proof. reflexivity. Qed.

Lemma utf8_enc_cons c s : utf8_enc (c :: s) = utf8_enc_char c ++ utf8_enc s.
Proof. reflexivity. Qed.

Lemma utf8_enc_app s1 s2 : utf8_enc (s1 ++ s2) = utf8_enc s1 ++ utf8_enc s2.
Proof. unfold utf8_enc. apply flat_map_app. Qed.

Theorem utf8_enc_char_valid c : is_scalar c = true -> utf8_valid (utf8_enc_char c) = true.
Proof.
  intros Hc. unfold utf8_enc_char.
  repeat match goal with
    | |- utf8_valid (if ?c then _ else _) = true => let E := fresh "E" in destruct c eqn:E
    end.
  all: cbn [utf8_valid]; ub.
  all: repeat match goal with
    | |- (if ?c then _ else _) = true => let E := fresh "E" in destruct c eqn:E
    end.
  all: try reflexivity; lia.
Qed.

Theorem utf8_enc_valid s : Forall (fun c => is_scalar c = true) s -> utf8_valid (utf8_enc s) = true.
Proof.
  induction 1 as [|c s Hc Hs IH]; [reflexivity|].
  rewrite utf8_enc_cons. apply utf8_valid_app; [apply utf8_enc_char_valid; exact Hc | exact IH].
Qed.

(* shape of one encoded character: a non-continuation byte followed by 0..3
   continuation bytes *)
Lemma utf8_enc_char_shape c :
  exists b t, utf8_enc_char c = b :: t /\ cont b = false /\
              Forall (fun x => cont x = true) t /\ (length t <= 3)%nat.
Proof.
  unfold utf8_enc_char.
  repeat match goal with
    | |- context[if ?c then _ else _] => let E := fresh "E" in destruct c eqn:E
    end.
  all: eexists; eexists; split; [reflexivity|]; split; [ub; lia|]; split;
       [repeat constructor; ub; lia | cbn [length]; lia].
Qed.

Lemma utf8_enc_char_length c : (1 <= length (utf8_enc_char c) <= 4)%nat.
Proof.
  destruct (utf8_enc_char_shape c) as (b & t & E & _ & _ & Hl). rewrite E. cbn [length]. lia.
Qed.

(* ------------------------------------------------------------------ *)
(* character boundaries *)
Lemma is_char_boundary_0 bs : is_char_boundary bs 0 = true.
Proof. reflexivity. Qed.

Lemma is_char_boundary_len bs : is_char_boundary bs (length bs) = true.
Proof.
  unfold is_char_boundary. destruct (length bs) as [|k] eqn:E; [reflexivity|].
  rewrite <- E. replace (nth_error bs (length bs)) with (@None N).
  - apply Nat.eqb_refl.
  - symmetry. apply nth_error_None. lia.
Qed.

Lemma is_char_boundary_beyond bs i : (length bs < i)%nat -> is_char_boundary bs i = false.
Proof.
  intros H. unfold is_char_boundary. destruct i as [|k]; [lia|].
  replace (nth_error bs (S k)) with (@None N) by (symmetry; apply nth_error_None; lia).
  apply Nat.eqb_neq. lia.
Qed.

(* strictly inside the second part, boundaries of [a ++ b] are those of [b] *)
Lemma is_char_boundary_app_gt a b i :
  (length a < i)%nat -> is_char_boundary (a ++ b) i = is_char_boundary b (i - length a).
Proof.
  intros H. unfold is_char_boundary.
  destruct i as [|k]; [lia|].
  destruct (S k - length a)%nat as [|m] eqn:E; [lia|]. rewrite <- E.
  rewrite nth_error_app2 by lia.
  destruct (nth_error b (S k - length a)) as [x|]; [reflexivity|].
  rewrite app_length.
  destruct (Nat.eqb_spec (S k) (length a + length b)) as [E1|E1];
  destruct (Nat.eqb_spec (S k - length a) (length b)) as [E2|E2]; try reflexivity; lia.
Qed.

(* a position strictly inside an encoded character is not a boundary *)
Lemma is_char_boundary_inside c rest i :
  (0 < i < length (utf8_enc_char c))%nat -> is_char_boundary (utf8_enc_char c ++ rest) i = false.
Proof.
  intros Hi. destruct (utf8_enc_char_shape c) as (b & t & E & _ & Ht & _).
  rewrite E in *. cbn [length] in Hi.
  destruct i as [|k]; [lia|].
  unfold is_char_boundary. cbn [app nth_error].
  rewrite nth_error_app1 by lia.
  destruct (nth_error t k) as [x|] eqn:Ex.
  - apply nth_error_In in Ex. rewrite Forall_forall in Ht. rewrite (Ht x Ex). reflexivity.
  - apply nth_error_None in Ex. lia.
Qed.

(* the end of every encoded prefix is a boundary *)
Lemma is_char_boundary_enc_prefix s1 s2 :
  is_char_boundary (utf8_enc (s1 ++ s2)) (length (utf8_enc s1)) = true.
Proof.
  rewrite utf8_enc_app. unfold is_char_boundary.
  destruct (length (utf8_enc s1)) as [|k] eqn:E; [reflexivity|]. rewrite <- E.
  rewrite nth_error_app2 by lia. rewrite Nat.sub_diag.
  destruct s2 as [|c s2].
  - cbn [utf8_enc flat_map nth_error]. rewrite app_nil_r. apply Nat.eqb_refl.
  - rewrite utf8_enc_cons. destruct (utf8_enc_char_shape c) as (b & t & Ec & Hb & _ & _).
    rewrite Ec. cbn [app nth_error]. rewrite Hb. reflexivity.
Qed.

Theorem boundary_cut_gen s : forall i,
  (i <= length (utf8_enc s))%nat -> is_char_boundary (utf8_enc s) i = true ->
  exists s1 s2, s = s1 ++ s2 /\ firstn i (utf8_enc s) = utf8_enc s1.
Proof.
  induction s as [|c s IH]; intros i Hi Hb.
  - cbn [utf8_enc flat_map length] in Hi. exists [], []. split; [reflexivity|].
    replace i with 0%nat by lia. reflexivity.
  - destruct (Nat.eq_dec i 0) as [Ei|Ei].
    { subst i. exists [], (c :: s). split; reflexivity. }
    rewrite utf8_enc_cons in *. rewrite app_length in Hi.
    pose proof (utf8_enc_char_length c) as Hc.
    destruct (Nat.lt_ge_cases i (length (utf8_enc_char c))) as [Hlt|Hge].
    { rewrite is_char_boundary_inside in Hb by lia. discriminate. }
    assert (Hb' : is_char_boundary (utf8_enc s) (i - length (utf8_enc_char c)) = true).
    { destruct (Nat.eq_dec i (length (utf8_enc_char c))) as [Ee|Ee].
      - rewrite Ee, Nat.sub_diag. reflexivity.
      - rewrite <- is_char_boundary_app_gt by lia. exact Hb. }
    destruct (IH (i - length (utf8_enc_char c))%nat) as (s1 & s2 & Es & Ef); [lia|exact Hb'|].
    exists (c :: s1), s2. split; [rewrite Es; reflexivity|].
    rewrite utf8_enc_cons, firstn_app, Ef. f_equal. apply firstn_all2. lia.
Qed.

Theorem boundary_cut s i :
  Forall scalar s -> (i <= length (utf8_enc s))%nat -> is_char_boundary (utf8_enc s) i = true ->
  exists s1 s2, s = s1 ++ s2 /\ firstn i (utf8_enc s) = utf8_enc s1.
Proof. intros _. apply boundary_cut_gen. Qed.

Theorem firstn_boundary_valid s i :
  Forall scalar s -> (i <= length (utf8_enc s))%nat -> is_char_boundary (utf8_enc s) i = true ->
  utf8_valid (firstn i (utf8_enc s)) = true.
Proof.
  intros Hs Hi Hb. destruct (boundary_cut_gen s i Hi Hb) as (s1 & s2 & Es & Ef).
  rewrite Ef. apply utf8_enc_valid. subst s. apply Forall_app in Hs. apply Hs.
Qed.

(* floor_boundary *)
Lemma floor_boundary_eq bs i :
  floor_boundary bs i =
  if is_char_boundary bs i then i else match i with O => O | S j => floor_boundary bs j end.
Proof. destruct i; reflexivity. Qed.

Theorem floor_boundary_le bs i : (floor_boundary bs i <= i)%nat.
Proof.
  induction i as [|j IH]; rewrite floor_boundary_eq.
  - destruct (is_char_boundary bs 0); lia.
  - destruct (is_char_boundary bs (S j)); lia.
Qed.

Theorem floor_boundary_is_boundary bs i : is_char_boundary bs (floor_boundary bs i) = true.
Proof.
  induction i as [|j IH]; rewrite floor_boundary_eq.
  - reflexivity.
  - destruct (is_char_boundary bs (S j)) eqn:E; [exact E | exact IH].
Qed.

Theorem floor_boundary_max bs i j :
  (j <= i)%nat -> is_char_boundary bs j = true -> (j <= floor_boundary bs i)%nat.
Proof.
  induction i as [|k IH]; intros Hj Hb; rewrite floor_boundary_eq.
  - destruct (is_char_boundary bs 0); lia.
  - destruct (is_char_boundary bs (S k)) eqn:E; [exact Hj|].
    apply IH; [|exact Hb]. destruct (Nat.eq_dec j (S k)) as [Ej|Ej]; [|lia].
    subst j. rewrite E in Hb. discriminate.
Qed.

Lemma floor_boundary_fix bs i : is_char_boundary bs i = true -> floor_boundary bs i = i.
Proof. intros H. rewrite floor_boundary_eq, H. reflexivity. Qed.

(* the cut made by copy_from_str is valid text *)
Theorem floor_boundary_valid s room :
  Forall scalar s ->
  utf8_valid (firstn (floor_boundary (utf8_enc s) (Nat.min room (length (utf8_enc s)))) (utf8_enc s)) = true.
Proof.
  intros Hs. apply firstn_boundary_valid; [exact Hs| |apply floor_boundary_is_boundary].
  pose proof (floor_boundary_le (utf8_enc s) (Nat.min room (length (utf8_enc s)))). lia.
Qed.

(* "the longest prefix that fits": the cut is a whole number of characters, it
   fits, and the next character (if any) does not *)
Theorem floor_boundary_longest_fit s room :
  Forall scalar s ->
  let k := floor_boundary (utf8_enc s) (Nat.min room (length (utf8_enc s))) in
  exists s1 s2, s = s1 ++ s2 /\ firstn k (utf8_enc s) = utf8_enc s1 /\
    (length (utf8_enc s1) <= room)%nat /\
    (s2 = [] \/ (room < length (utf8_enc s1) + length (utf8_enc_char (hd 0%N s2)))%nat).
Proof.
  intros _ k.
  pose proof (floor_boundary_le (utf8_enc s) (Nat.min room (length (utf8_enc s)))) as Hle.
  fold k in Hle.
  destruct (boundary_cut_gen s k) as (s1 & s2 & Es & Ef);
    [lia | apply floor_boundary_is_boundary |].
  assert (Hk : length (utf8_enc s1) = k).
  { rewrite <- Ef. apply firstn_length_le. lia. }
  exists s1, s2. split; [exact Es|]. split; [exact Ef|]. split; [lia|].
  destruct s2 as [|c s2]; [left; reflexivity|right].
  cbn [hd].
  destruct (Nat.lt_ge_cases room (length (utf8_enc s1) + length (utf8_enc_char c))) as [Hlt|Hge];
    [exact Hlt|exfalso].
  pose proof (utf8_enc_char_length c) as Hc.
  assert (Hj : (length (utf8_enc (s1 ++ [c])) <= k)%nat).
  { apply floor_boundary_max.
    - rewrite Es. rewrite !utf8_enc_app, !utf8_enc_cons, utf8_enc_nil, !app_length. cbn [length]. lia.
    - rewrite Es. replace (s1 ++ c :: s2) with ((s1 ++ [c]) ++ s2) by (rewrite <- app_assoc; reflexivity).
      apply is_char_boundary_enc_prefix. }
  rewrite utf8_enc_app, utf8_enc_cons, utf8_enc_nil, !app_length in Hj. cbn [length] in Hj. lia.
Qed.
