(* "this outcome is a normal return" as a proposition, for run-level
   statements (no element of a run is a panic or a fuel exhaustion). *)
From Coq Require Import List.
From Stevia Require Import Base.Res.
Import ListNotations.

Definition res_ok {A} (r : res A) : Prop := exists a, r = Ok a.

Lemma res_ok_is_ok {A} (r : res A) : res_ok r <-> is_ok r = true.
Proof.
  split.
  - intros [a ->]. reflexivity.
  - destruct r as [a| |]; cbn [is_ok]; intros H; try discriminate. exists a. reflexivity.
Qed.

Lemma res_ok_not_panic {A} (r : res A) : res_ok r -> (forall p, r <> Panic p) /\ r <> Fuel.
Proof. intros [a ->]. split; [intros p|]; discriminate. Qed.

Lemma Forall_map_Ok {A} (l : list A) : Forall res_ok (map Ok l).
Proof. induction l as [|a l IH]; constructor; [exists a; reflexivity | exact IH]. Qed.
