(* UTF-8: the validator (Unicode Table 3-7, which is what Rust's
   core::str::from_utf8 accepts), the encoder of scalar values and Rust's
   str::is_char_boundary.  Definitions only; the theory is in Utf8Facts.v. *)
From Coq Require Import List NArith Bool.
Import ListNotations.
Open Scope N_scope.

Definition inr (lo hi b : N) : bool := (lo <=? b) && (b <=? hi).
Definition cont (b : N) : bool := inr 128 191 b.

Fixpoint utf8_valid (bs : list N) : bool :=
  match bs with
  | [] => true
  | b0 :: r =>
    if b0 <? 128 then utf8_valid r
    else if inr 194 223 b0 then
      match r with b1 :: r' => cont b1 && utf8_valid r' | _ => false end
    else if b0 =? 224 then
      match r with b1 :: b2 :: r' => inr 160 191 b1 && cont b2 && utf8_valid r' | _ => false end
    else if inr 225 236 b0 || inr 238 239 b0 then
      match r with b1 :: b2 :: r' => cont b1 && cont b2 && utf8_valid r' | _ => false end
    else if b0 =? 237 then
      match r with b1 :: b2 :: r' => inr 128 159 b1 && cont b2 && utf8_valid r' | _ => false end
    else if b0 =? 240 then
      match r with b1 :: b2 :: b3 :: r' => inr 144 191 b1 && cont b2 && cont b3 && utf8_valid r' | _ => false end
    else if inr 241 243 b0 then
      match r with b1 :: b2 :: b3 :: r' => cont b1 && cont b2 && cont b3 && utf8_valid r' | _ => false end
    else if b0 =? 244 then
      match r with b1 :: b2 :: b3 :: r' => inr 128 143 b1 && cont b2 && cont b3 && utf8_valid r' | _ => false end
    else false
  end.

(* Unicode scalar values *)
Definition is_scalar (c : N) : bool := (c <? 55296) || ((57344 <=? c) && (c <? 1114112)).

Definition utf8_enc_char (c : N) : list N :=
  if c <? 128 then [c]
  else if c <? 2048 then [192 + c / 64; 128 + c mod 64]
  else if c <? 65536 then [224 + c / 4096; 128 + (c / 64) mod 64; 128 + c mod 64]
  else [240 + c / 262144; 128 + (c / 4096) mod 64; 128 + (c / 64) mod 64; 128 + c mod 64].

Definition utf8_enc (s : list N) : list N := flat_map utf8_enc_char s.

(* str::is_char_boundary(i) on the bytes of a str *)
Definition is_char_boundary (bs : list N) (i : nat) : bool :=
  match i with
  | O => true
  | _ => match nth_error bs i with
         | Some b => negb (cont b)          (* (b as i8) >= -0x40 *)
         | None => Nat.eqb i (length bs)
         end
  end.

(* largest char boundary <= i : the loop `while !s.is_char_boundary(n) { n -= 1 }` *)
Fixpoint floor_boundary (bs : list N) (i : nat) : nat :=
  if is_char_boundary bs i then i else
  match i with O => O | S j => floor_boundary bs j end.
