(* Result monad of the concrete models: every place where the Rust code can
   panic is an explicit [Panic] outcome, loop-fuel exhaustion is [Fuel]. *)
From Coq Require Import List NArith ZArith Bool Lia.
Import ListNotations.

Inductive panic_kind :=
| POob       (* slice / array index out of range                    *)
| PArith     (* checked + / - / cast overflow (overflow-checks on)   *)
| PDivZero   (* remainder by zero                                   *)
| PExplicit  (* panic!(...) in the source                           *)
| PUnwrap    (* Option::unwrap / expect on None                     *)
| PSlice.    (* slice range out of bounds ( &data[..n] )            *)

Inductive res (A : Type) := Ok (a : A) | Panic (p : panic_kind) | Fuel.
Arguments Ok {A}. Arguments Panic {A}. Arguments Fuel {A}.

Definition bind {A B} (m : res A) (f : A -> res B) : res B :=
  match m with Ok a => f a | Panic p => Panic p | Fuel => Fuel end.
Notation "x <- m ;; f" := (bind m (fun x => f))
  (at level 61, m at next level, right associativity).
Notation "' p <- m ;; f" := (bind m (fun x => let p := x in f))
  (at level 61, p pattern, m at next level, right associativity).

Definition is_ok {A} (m : res A) : bool := match m with Ok _ => true | _ => false end.

Lemma bind_ok {A B} (m : res A) (f : A -> res B) b :
  bind m f = Ok b -> exists a, m = Ok a /\ f a = Ok b.
Proof. destruct m; cbn; intros H; try discriminate. eauto. Qed.

(* list update at a position (no-op beyond the end) *)
Fixpoint set_nth {A} (l : list A) (n : nat) (x : A) : list A :=
  match l, n with
  | [], _ => []
  | _ :: t, O => x :: t
  | h :: t, S n => h :: set_nth t n x
  end.

Lemma set_nth_length {A} (l : list A) n x : length (set_nth l n x) = length l.
Proof. revert n; induction l as [|a l IH]; intros [|n]; cbn; auto. Qed.

Lemma nth_error_set_nth_same {A} (l : list A) n x :
  (n < length l)%nat -> nth_error (set_nth l n x) n = Some x.
Proof.
  revert n; induction l as [|a l IH]; intros [|n] H; cbn in *; auto; try lia.
  apply IH; lia.
Qed.

Lemma nth_error_set_nth_other {A} (l : list A) n m x :
  n <> m -> nth_error (set_nth l n x) m = nth_error l m.
Proof.
  revert n m; induction l as [|a l IH]; intros [|n] [|m] H; cbn; auto; try congruence.
Qed.
