(* SipHash-1-3 with zero keys over a byte stream: what
   std::collections::hash_map::DefaultHasher::new() computes.  On N with
   explicit mod 2^64. *)
From Coq Require Import List NArith ZArith Bool.
From Stevia Require Import Base.Bytes.
Import ListNotations.
Open Scope N_scope.

Definition m64 : N := 2 ^ 64.
Definition add64 (a b : N) : N := (a + b) mod m64.
Definition rotl64 (x : N) (k : N) : N := ((x * 2 ^ k) mod m64) + x / 2 ^ (64 - k).

Definition sv := (N * N * N * N)%type.

Definition sipround (v : sv) : sv :=
  let '(v0, v1, v2, v3) := v in
  let v0 := add64 v0 v1 in let v1 := rotl64 v1 13 in let v1 := N.lxor v1 v0 in
  let v0 := rotl64 v0 32 in
  let v2 := add64 v2 v3 in let v3 := rotl64 v3 16 in let v3 := N.lxor v3 v2 in
  let v0 := add64 v0 v3 in let v3 := rotl64 v3 21 in let v3 := N.lxor v3 v0 in
  let v2 := add64 v2 v1 in let v1 := rotl64 v1 17 in let v1 := N.lxor v1 v2 in
  let v2 := rotl64 v2 32 in
  (v0, v1, v2, v3).

Definition sip_init : sv :=
  (8317987319222330741, 7237128888997146477, 7816392313619706465, 8387220255154660723).

Definition sip_word (v : sv) (m : N) : sv :=
  let '(v0, v1, v2, v3) := v in
  let '(v0, v1, v2, v3) := sipround (v0, v1, v2, N.lxor v3 m) in
  (N.lxor v0 m, v1, v2, v3).

Fixpoint sip_words (fuel : nat) (v : sv) (bs : list N) : sv * list N :=
  match fuel with
  | O => (v, bs)
  | S f =>
    if Nat.ltb (length bs) 8 then (v, bs)
    else sip_words f (sip_word v (le_dec (firstn 8 bs))) (skipn 8 bs)
  end.

Definition sip13 (bs : list N) : N :=
  let '(v, tail) := sip_words (length bs) sip_init bs in
  let b := ((N.of_nat (length bs) mod 256) * 2 ^ 56) + le_dec tail in
  let '(v0, v1, v2, v3) := sip_word v b in
  let v2 := N.lxor v2 255 in
  let '(v0, v1, v2, v3) := sipround (sipround (sipround (v0, v1, v2, v3))) in
  N.lxor (N.lxor v0 v1) (N.lxor v2 v3).

(* Hash of the integer value types: write_uN(x) feeds the N-byte
   little-endian encoding *)
Definition hash_int (w : nat) (z : Z) : N := sip13 (z_enc w z).
(* harness type Weak: hashes only (v mod m) as a u64 *)
Definition hash_weak (m : Z) (z : Z) : N := sip13 (z_enc 8 (z mod m)%Z).
