(* Encodings of zero are zero bytes (for "an all-zero buffer reads as empty"). *)
From Coq Require Import List NArith ZArith Lia Bool.
From Stevia Require Import Base.Bytes.
Import ListNotations.
Open Scope N_scope.

Definition allz (l : list N) : Prop := Forall (fun b => b = 0) l.

Lemma allz_zeros_eq l : allz l -> l = zeros (length l).
Proof.
  induction 1 as [|b l Hb Hl IH]; [reflexivity|].
  subst b. cbn [length]. unfold zeros in *. cbn [repeat]. rewrite <- IH. reflexivity.
Qed.

Lemma allz_zeros n : allz (zeros n).
Proof. unfold allz, zeros. apply Forall_forall. intros x Hx. exact (repeat_spec _ _ _ Hx). Qed.

Lemma allz_app l1 l2 : allz l1 -> allz l2 -> allz (l1 ++ l2).
Proof. intros H1 H2. apply Forall_app. split; assumption. Qed.

Lemma allz_le_enc_0 w : allz (le_enc w 0).
Proof.
  induction w as [|w IH]; [constructor|].
  change (le_enc (S w) 0) with ((0 mod 256) :: le_enc w (0 / 256)).
  change (0 mod 256) with 0. change (0 / 256) with 0. constructor; [reflexivity | exact IH].
Qed.

Lemma allz_z_enc_0 w : allz (z_enc w 0).
Proof. unfold z_enc. rewrite Zmod_0_l. apply allz_le_enc_0. Qed.

Lemma allz_flat_map {A} (f : A -> list N) (l : list A) :
  (forall a, In a l -> allz (f a)) -> allz (flat_map f l).
Proof.
  induction l as [|a l IH]; intros H; [constructor|].
  cbn [flat_map]. apply allz_app; [apply H; left; reflexivity|].
  apply IH. intros b Hb. apply H. right. exact Hb.
Qed.
