(* Bytes (as N < 256), little-endian integer encoding and repr(C) layout
   arithmetic.  x86-64 little-endian is the only target modelled. *)
From Coq Require Import List NArith ZArith Lia Bool.
Import ListNotations.
Open Scope N_scope.

Fixpoint le_enc (w : nat) (n : N) : list N :=
  match w with O => [] | S w' => (n mod 256) :: le_enc w' (n / 256) end.

Fixpoint le_dec (bs : list N) : N :=
  match bs with [] => 0 | b :: r => b + 256 * le_dec r end.

(* two's complement at [w] bytes *)
Definition z_enc (w : nat) (z : Z) : list N :=
  le_enc w (Z.to_N (z mod (2 ^ (8 * Z.of_nat w)))%Z).

Definition z_dec (signed : bool) (bs : list N) : Z :=
  let n := Z.of_N (le_dec bs) in
  let m := (2 ^ (8 * Z.of_nat (length bs)))%Z in
  if signed && (m <=? 2 * n)%Z then (n - m)%Z else n.

Definition zeros (n : nat) : list N := repeat 0 n.

Definition round_up (x a : N) : N := if a =? 0 then x else ((x + a - 1) / a) * a.

(* A scalar field type: size, alignment (= size for the integer types used),
   signedness *)
Record fty := { fsz : N; fsigned : bool }.

Fixpoint firstn_skipn_chunks {A} (k : nat) (fuel : nat) (l : list A) : list (list A) :=
  match fuel with
  | O => []
  | S f => match l with [] => [] | _ => firstn k l :: firstn_skipn_chunks k f (skipn k l) end
  end.

Lemma le_enc_length w n : length (le_enc w n) = w.
Proof. revert n; induction w as [|w IH]; intros n; cbn; auto. Qed.

Lemma le_dec_enc w n : n < 2 ^ (8 * N.of_nat w) -> le_dec (le_enc w n) = n.
Proof.
  revert n; induction w as [|w IH]; intros n H.
  - cbn in *. lia.
  - cbn [le_enc le_dec].
    assert (Hd : n / 256 < 2 ^ (8 * N.of_nat w)).
    { apply N.div_lt_upper_bound; [lia|].
      replace (8 * N.of_nat (S w)) with (8 + 8 * N.of_nat w) in H by lia.
      rewrite N.pow_add_r in H. exact H. }
    rewrite IH by exact Hd.
    pose proof (N.div_mod n 256). lia.
Qed.

Lemma le_enc_bytes w n : Forall (fun b => b < 256) (le_enc w n).
Proof.
  revert n; induction w as [|w IH]; intros n; cbn [le_enc]; constructor; auto.
  apply N.mod_lt; lia.
Qed.
