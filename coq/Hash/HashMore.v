(* Further named facts about the hash set that the property files C04, C05,
   C07, C09 and C12 cite: run-level totality, histories split at a point,
   the capacity theorems at every reachable state, where members come from. *)
From Coq Require Import List NArith ZArith Bool Lia Permutation.
From Stevia Require Import Base.Res Base.ResMore Hash.Impl Hash.Spec Hash.ZSet Hash.Mem Hash.Inv Hash.Refine
  Hash.HashProps.
Import ListNotations.
Open Scope N_scope.
Arguments N.add : simpl never.
Arguments N.sub : simpl never.
Arguments N.mul : simpl never.
Arguments N.div : simpl never.
Arguments N.modulo : simpl never.
Arguments N.eqb : simpl never.
Arguments N.ltb : simpl never.
Arguments N.leb : simpl never.
Arguments N.pow : simpl never.
Arguments N.of_nat : simpl never.
Arguments N.to_nat : simpl never.
Arguments Z.add : simpl never.
Arguments Z.sub : simpl never.
Arguments Z.ltb : simpl never.
Arguments Z.eqb : simpl never.

Section More.
Variable hash64 : Z -> N.
Notation hinv := (hinv hash64).
Notation hexec := (hexec hash64).

(* ================= C05 / C12: no operation panics ================= *)
(* every index expression of the hash set is a bounds-checked one ([Panic
   POob] in the model); none of them, nor any other panic, is reachable *)
Theorem hash_no_oob s o : hinv s -> exists s' out, hstep_c hash64 s o = Ok (s', out).
Proof.
  intros Hi. destruct (hash_total hash64 s o Hi) as [s' [out [H _]]]. exists s', out. exact H.
Qed.

Lemma hrun_s_length : forall ops a, length (hrun_s a ops) = length ops.
Proof.
  induction ops as [|o ops IH]; intros a; [reflexivity|].
  cbn [hrun_s]. destruct (hspec_step a o) as [a' x]. cbn [length]. rewrite IH. reflexivity.
Qed.

Theorem hash_run_total s ops : hinv s ->
  Forall res_ok (hrun_c hash64 s ops) /\ length (hrun_c hash64 s ops) = length ops.
Proof.
  intros Hi. rewrite (hrun_refines hash64 ops s Hi). split; [apply Forall_map_Ok|].
  rewrite map_length. apply hrun_s_length.
Qed.

Theorem hash_run_total_init cap ops : cap + 1 < 2 ^ 32 ->
  Forall res_ok (hrun_c hash64 (hinit_c cap cap) ops) /\
  length (hrun_c hash64 (hinit_c cap cap) ops) = length ops.
Proof. intros Hc. apply hash_run_total. apply hinv_init_c. exact Hc. Qed.

(* ================= histories ================= *)
Lemma hexec_total : forall ops s, hinv s ->
  exists s', hexec s ops = Ok s' /\ hinv s' /\ hcap s' = hcap s.
Proof.
  induction ops as [|o ops IH]; intros s Hi.
  - exists s. split; [reflexivity|]. split; [exact Hi | reflexivity].
  - destruct (hash_total hash64 s o Hi) as [s1 [out [H1 [Hi1 Hc1]]]].
    destruct (IH s1 Hi1) as [s' [He [Hi' Hc']]]. exists s'.
    cbn [HashProps.hexec]. rewrite H1. cbn [bind]. split; [exact He|]. split; [exact Hi' | congruence].
Qed.

Theorem hash_reachable cap ops : cap + 1 < 2 ^ 32 ->
  exists s, hexec (hinit_c cap cap) ops = Ok s /\ hinv s /\ hcap s = cap.
Proof.
  intros Hc. destruct (hexec_total ops _ (hinv_init_c hash64 cap Hc)) as [s [He [Hi Hcap]]].
  exists s. split; [exact He|]. split; [exact Hi | exact Hcap].
Qed.

Lemma hexec_app : forall ops1 ops2 s,
  hexec s (ops1 ++ ops2) = (s1 <- hexec s ops1 ;; hexec s1 ops2).
Proof.
  induction ops1 as [|o ops1 IH]; intros ops2 s; [reflexivity|].
  cbn [app HashProps.hexec]. destruct (hstep_c hash64 s o) as [[s' out]| |]; cbn [bind]; [apply IH | reflexivity | reflexivity].
Qed.

Lemma hrun_c_app : forall ops1 ops2 s s1, hexec s ops1 = Ok s1 ->
  hrun_c hash64 s (ops1 ++ ops2) = hrun_c hash64 s ops1 ++ hrun_c hash64 s1 ops2.
Proof.
  induction ops1 as [|o ops1 IH]; intros ops2 s s1 He; cbn [HashProps.hexec] in He.
  - injection He as <-. reflexivity.
  - apply bind_ok in He. destruct He as [[s' out] [Hr He]]. cbv beta iota in He.
    cbn [app hrun_c]. rewrite Hr. rewrite (IH ops2 s' s1 He). reflexivity.
Qed.

(* the members of a reached state were members before or were inserted *)
Lemma hstep_members s o s' out x : hinv s -> hstep_c hash64 s o = Ok (s', out) ->
  In x (habs s') -> In x (habs s) \/ o = HInsert x.
Proof.
  intros Hi Hr Hx. destruct (hstep_refines hash64 s o Hi) as [s1 [out1 [H1 [_ Hs]]]].
  rewrite Hr in H1. injection H1 as <- <-.
  assert (E : habs s' = hsmem (fst (hspec_step (mkHSS (hcap s) (habs s)) o))) by (rewrite <- Hs; reflexivity).
  rewrite E in Hx. clear E Hs Hr.
  destruct o as [v|v|v| | | | | | ]; cbn [hspec_step hsmem hscap fst] in Hx; try (left; exact Hx).
  - destruct (zs_mem (habs s) v || (hcap s <=? hs_len (mkHSS (hcap s) (habs s)))); cbn [fst hsmem] in Hx.
    + left; exact Hx.
    + apply zs_insert_In in Hx. destruct Hx as [->|Hx]; [right; reflexivity | left; exact Hx].
  - left. apply (zs_remove_In (habs s) v x (zs_sort_sorted _)) in Hx. exact (proj1 Hx).
Qed.

Lemma hexec_members : forall ops s s' x, hinv s -> hexec s ops = Ok s' ->
  In x (habs s') -> In x (habs s) \/ In (HInsert x) ops.
Proof.
  induction ops as [|o ops IH]; intros s s' x Hi He Hx; cbn [HashProps.hexec] in He.
  - injection He as <-. left; exact Hx.
  - apply bind_ok in He. destruct He as [[s1 out] [Hr He]]. cbv beta iota in He.
    destruct (hash_total hash64 s o Hi) as [s2 [out2 [H2 [Hi2 _]]]].
    rewrite Hr in H2. injection H2 as <- <-.
    destruct (IH s1 s' x Hi2 He Hx) as [H|H]; [|right; right; exact H].
    destruct (hstep_members s o s1 out x Hi Hr H) as [H'|H']; [left; exact H' | right; left; exact H'].
Qed.

(* ================= C04: nothing of the bucket choice lives in the handle ================= *)
Theorem bucket_of_handle_independent s1 s2 v : hcap s1 = hcap s2 ->
  bucket_of hash64 s1 v = bucket_of hash64 s2 v.
Proof. intros E. unfold bucket_of. rewrite E. reflexivity. Qed.

Theorem hreopen_writes_nothing s : hstep_c hash64 s HReopen = Ok (s, HUnit).
Proof. reflexivity. Qed.

(* ================= C07 at every reachable state ================= *)
Theorem hash_capacity_exact_reachable cap ops s vs : cap + 1 < 2 ^ 32 ->
  hexec (hinit_c cap cap) ops = Ok s ->
  NoDup vs -> (forall v, In v vs -> ~ In v (habs s)) ->
  N.of_nat (length vs) = hcap s - hsize s ->
  hcap s = cap /\
  exists s', hinsert_all hash64 s vs = Ok (s', true) /\ hinv s' /\
    hcap s' = hcap s /\ hsize s' = hcap s /\ his_full s' = true /\
    (forall x, In x (habs s') <-> In x (habs s) \/ In x vs) /\
    (forall w, hinsert hash64 s' w = Ok (s', false)).
Proof.
  intros Hc He ND Hn Hl. destruct (hash_reachable cap ops Hc) as [s0 [He0 [Hi Hcap]]].
  rewrite He in He0. injection He0 as <-. split; [exact Hcap|].
  apply hash_capacity_exact; assumption.
Qed.

Theorem hash_is_full_iff_reachable cap ops s : cap + 1 < 2 ^ 32 ->
  hexec (hinit_c cap cap) ops = Ok s ->
  (his_full s = true <-> hsize s = cap) /\ hsize s <= cap /\ N.of_nat (length (habs s)) = hsize s.
Proof.
  intros Hc He. destruct (hash_reachable cap ops Hc) as [s0 [He0 [Hi Hcap]]].
  rewrite He in He0. injection He0 as <-. rewrite <- Hcap.
  destruct (habs_canonical hash64 s Hi) as [_ [_ [Hl Hle]]].
  split; [apply (his_full_iff hash64); exact Hi|]. split; [exact Hle | exact Hl].
Qed.

Theorem hash_alloc_fresh_reachable cap ops s v : cap + 1 < 2 ^ 32 ->
  hexec (hinit_c cap cap) ops = Ok s -> hsize s < hcap s ->
  exists s1 k, add_node s v = Ok (s1, k) /\ k = hflh s /\ ~ In k (hslots s).
Proof.
  intros Hc He Hlt. apply (hash_alloc_fresh hash64); [|exact Hlt].
  exact (hinv_reachable hash64 cap ops s Hc He).
Qed.

Theorem hash_released_slot_reused_reachable cap ops s v : cap + 1 < 2 ^ 32 ->
  hexec (hinit_c cap cap) ops = Ok s -> In v (habs s) ->
  exists s', hremove hash64 s v = Ok (s', true) /\ hinv s' /\
    In (hflh s') (hslots s) /\ val (hnodes s) (hflh s') = v /\ ~ In (hflh s') (hslots s') /\
    (forall w s2 k, add_node s' w = Ok (s2, k) -> k = hflh s').
Proof.
  intros Hc He Hin. apply (hash_released_slot_reused hash64); [|exact Hin].
  exact (hinv_reachable hash64 cap ops s Hc He).
Qed.

End More.

Print Assumptions hash_no_oob.
Print Assumptions hash_run_total.
Print Assumptions hash_run_total_init.
Print Assumptions hash_reachable.
Print Assumptions hrun_c_app.
Print Assumptions hexec_members.
Print Assumptions hash_capacity_exact_reachable.
Print Assumptions hash_is_full_iff_reachable.
Print Assumptions hash_alloc_fresh_reachable.
Print Assumptions hash_released_slot_reused_reachable.
