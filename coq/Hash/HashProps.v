(* Named consequences of the hash-set refinement that the property files cite. *)
From Coq Require Import List NArith ZArith Bool Lia Permutation.
From Stevia Require Import Base.Res Hash.Impl Hash.Spec Hash.ZSet Hash.Mem Hash.Inv Hash.Refine.
Import ListNotations.
Open Scope N_scope.
Arguments N.add : simpl never.
Arguments N.sub : simpl never.
Arguments N.mul : simpl never.
Arguments N.div : simpl never.
Arguments N.modulo : simpl never.
Arguments N.eqb : simpl never.
Arguments N.ltb : simpl never.
Arguments N.leb : simpl never.
Arguments N.pow : simpl never.
Arguments N.of_nat : simpl never.
Arguments N.to_nat : simpl never.
Arguments Z.add : simpl never.
Arguments Z.sub : simpl never.
Arguments Z.ltb : simpl never.
Arguments Z.eqb : simpl never.

Section Props.
Variable hash64 : Z -> N.
Notation hinv_g := (hinv_g hash64).
Notation hinv := (hinv hash64).
Notation bucket_ix := (bucket_ix hash64).

(* ================= C09: refused / query operations do not write ================= *)
Lemma hinsert_false_unchanged s v s' : hinsert hash64 s v = Ok (s', false) -> s' = s.
Proof.
  unfold hinsert. destruct (hsize s =? hcap s); [intros H; inversion H; auto|].
  intros H. apply bind_ok in H. destruct H as [index [_ H]].
  apply bind_ok in H. destruct H as [b [_ H]].
  apply bind_ok in H. destruct H as [present [_ H]].
  destruct present; [inversion H; auto|].
  apply bind_ok in H. destruct H as [[s1 node] [_ H]]. cbv beta iota in H.
  apply bind_ok in H. destruct H as [b1 [_ H]].
  apply bind_ok in H. destruct H as [ns1 [_ H]].
  apply bind_ok in H. destruct H as [n [_ H]].
  apply bind_ok in H. destruct H as [ns2 [_ H]].
  discriminate.
Qed.

Lemma chain_locate_cur_nz fuel : forall ns v cur prev p c n,
  chain_locate fuel ns v cur prev = Ok (Some (p, c, n)) -> c <> 0.
Proof.
  induction fuel as [|f IH]; intros ns v cur prev p c n H; cbn [chain_locate] in H; [discriminate|].
  destruct (N.eqb_spec cur 0) as [E|E]; [discriminate|].
  apply bind_ok in H. destruct H as [x [_ H]].
  destruct (hv x =? v)%Z.
  - inversion H; subst. auto.
  - eapply IH; eauto.
Qed.

Lemma hremove_false_unchanged s v s' : hremove hash64 s v = Ok (s', false) -> s' = s.
Proof.
  unfold hremove. destruct (his_empty s); [intros H; inversion H; auto|].
  intros H. apply bind_ok in H. destruct H as [index [_ H]].
  apply bind_ok in H. destruct H as [b [_ H]].
  apply bind_ok in H. destruct H as [loc [Hloc H]].
  destruct loc as [[[p c] n]|]; [|inversion H; auto].
  apply chain_locate_cur_nz in Hloc.
  apply bind_ok in H. destruct H as [ns1 [_ H]].
  apply bind_ok in H. destruct H as [[s2 r] [Hrn H]]. cbv beta iota in H.
  unfold hremove_node in Hrn. destruct (N.eqb_spec c 0); [contradiction|].
  apply bind_ok in Hrn. destruct Hrn as [x [_ Hrn]].
  apply bind_ok in Hrn. destruct Hrn as [ns2 [_ Hrn]].
  apply bind_ok in Hrn. destruct Hrn as [sz [_ Hrn]].
  inversion Hrn; subst. discriminate.
Qed.

Definition hop_writes (o : hop) (out : hout) : bool :=
  match o, out with
  | HInsert _, HBool true => true
  | HRemove _, HBool true => true
  | _, _ => false
  end.

(* for EVERY state (no invariant needed): an operation that is not a
   successful insert / remove returns the very same state *)
Theorem hash_refused_unchanged s o s' out :
  hstep_c hash64 s o = Ok (s', out) -> hop_writes o out = false -> s' = s.
Proof.
  destruct o as [v|v|v| | | | | | ]; cbn [hstep_c]; intros H W;
    try (inversion H; subst; reflexivity).
  - apply bind_ok in H. destruct H as [[s1 b] [H1 H]]. cbv beta iota in H.
    inversion H; subst. destruct b; [discriminate|]. eapply hinsert_false_unchanged; eauto.
  - apply bind_ok in H. destruct H as [[s1 b] [H1 H]]. cbv beta iota in H.
    inversion H; subst. destruct b; [discriminate|]. eapply hremove_false_unchanged; eauto.
  - apply bind_ok in H. destruct H as [b [_ H]]. inversion H; auto.
  - apply bind_ok in H. destruct H as [b [_ H]]. inversion H; auto.
Qed.

(* ================= totality ================= *)
Theorem hash_total s o : hinv s ->
  exists s' out, hstep_c hash64 s o = Ok (s', out) /\ hinv s' /\ hcap s' = hcap s.
Proof.
  intros Hi. destruct (hstep_refines hash64 s o Hi) as [s' [out [H [Hi' Hs]]]].
  exists s', out. split; auto. split; auto.
  assert (hscap (fst (mkHSS (hcap s') (habs s'), out)) = hcap s') as E by reflexivity.
  rewrite Hs in E. rewrite <- E.
  destruct o; cbn [hspec_step fst hscap]; try reflexivity.
  destruct (_ || _); reflexivity.
Qed.

(* ================= C10: bucket discipline ================= *)
Definition hbucket_slots (s : hst) (b : N) : list N :=
  cwalk (S (length (hnodes s))) (hnodes s) (bkt (hnodes s) b).
Definition hbucket_members (s : hst) (b : N) : list Z := map (val (hnodes s)) (hbucket_slots s b).

Lemma hbucket_slots_eq s c fr b : hinv_g s c fr -> b < hcap s -> hbucket_slots s b = c b.
Proof.
  intros I Hb. unfold hbucket_slots. apply cwalk_lseg.
  - apply (ig_chain _ _ _ _ I); auto.
  - intros i Hi. pose proof (ig_chain_range hash64 s c fr I b i Hb Hi). lia.
  - apply (ig_chain_len hash64 s c fr I); auto.
Qed.

Theorem hash_bucket_members s b v : hinv s -> b < hcap s ->
  (In v (hbucket_members s b) <-> In v (habs s) /\ (hash64 v mod 2 ^ 32) mod hcap s = b).
Proof.
  intros [c [fr I]] Hb. unfold hbucket_members. rewrite (hbucket_slots_eq s c fr b I Hb).
  rewrite in_map_iff. fold u32max. fold (bucket_ix (hcap s) v). split.
  - intros [i [Hv Hi]]. subst v. split.
    + apply (habs_In hash64 s c fr I). exists i. split; auto. eapply ig_in_live; eauto.
    + apply (ig_buck _ _ _ _ I); auto.
  - intros [Hin Hbk]. apply (habs_In hash64 s c fr I) in Hin. destruct Hin as [i [Hi Hv]].
    exists i. split; auto. destruct (ig_member_bucket hash64 s c fr I i Hi) as [Hc _].
    rewrite Hv, Hbk in Hc. auto.
Qed.

(* every member sits in exactly the bucket its hash selects *)
Theorem hash_member_in_its_bucket s v : hinv s -> In v (habs s) ->
  hcap s <> 0 /\ In v (hbucket_members s ((hash64 v mod 2 ^ 32) mod hcap s)).
Proof.
  intros Hi Hin. assert (hcap s <> 0) as Hc.
  { destruct Hi as [c [fr I]]. pose proof (habs_length hash64 s c fr I) as HL.
    pose proof (ig_size_le hash64 s c fr I). destruct (habs s); [destruct Hin|].
    cbn [length] in HL. lia. }
  split; auto. apply hash_bucket_members; auto. apply N.mod_lt; auto.
Qed.

Theorem habs_canonical s : hinv s ->
  ssorted (habs s) /\ NoDup (habs s) /\ N.of_nat (length (habs s)) = hsize s /\ hsize s <= hcap s.
Proof.
  intros [c [fr I]]. split; [apply zs_sort_sorted|]. split; [apply ssorted_NoDup, zs_sort_sorted|].
  split; [apply (habs_length hash64 s c fr I)|apply (ig_size_le hash64 s c fr I)].
Qed.

(* ================= iteration ================= *)
Theorem hiter_exact s : hinv s ->
  exists l, hiter s = Ok l /\ NoDup l /\ (forall x, In x l <-> In x (habs s)) /\
            Permutation l (habs s) /\ zs_sort l = habs s /\
            N.of_nat (length l) = hsize s.
Proof.
  intros [c [fr I]]. exists (hmembers s). split; [apply (hiter_spec hash64 s c fr I)|].
  assert (NoDup (hmembers s)) as ND.
  { rewrite (hmembers_eq hash64 s c fr I). apply (ig_vals _ _ _ _ I). }
  split; auto. split; [|split; [|split]].
  - intros x. unfold habs. rewrite zs_sort_In. tauto.
  - apply Permutation_sym. unfold habs. apply zs_sort_Permutation; auto.
  - reflexivity.
  - rewrite <- (habs_length hash64 s c fr I). unfold habs. rewrite zs_sort_length; auto.
Qed.

(* ================= remove removes only that value ================= *)
Theorem hremove_only_that_value s v : hinv s ->
  exists s' b, hremove hash64 s v = Ok (s', b) /\ hinv s' /\
    b = zs_mem (habs s) v /\
    hcontains hash64 s' v = Ok false /\
    (forall w, w <> v -> hcontains hash64 s' w = hcontains hash64 s w) /\
    (forall w, In w (habs s') <-> In w (habs s) /\ w <> v).
Proof.
  intros Hi. destruct (hremove_spec hash64 s v Hi) as [s' [b [H [Hi' [Hcap [Hb [Ha _]]]]]]].
  exists s', b. split; auto. split; auto. split; auto.
  assert (ssorted (habs s)) as Hs by apply zs_sort_sorted.
  assert (forall w, In w (habs s') <-> In w (habs s) /\ w <> v) as Hin.
  { intros w. rewrite Ha. apply zs_remove_In; auto. }
  split; [|split; auto].
  - rewrite (hcontains_spec hash64 s' v Hi'). f_equal. apply zs_mem_false.
    intros Hx. apply Hin in Hx. tauto.
  - intros w Hw. rewrite (hcontains_spec hash64 s' w Hi'), (hcontains_spec hash64 s w Hi). f_equal.
    destruct (zs_mem (habs s) w) eqn:E.
    + apply zs_mem_In. apply Hin. split; auto. apply zs_mem_In; auto.
    + apply zs_mem_false. apply zs_mem_false in E. intros Hx. apply Hin in Hx. tauto.
Qed.

(* ================= C07: capacity is exact ================= *)
Definition hinsert_all (s : hst) (vs : list Z) : res (hst * bool) :=
  fold_left (fun acc v => '(st, ok) <- acc ;; '(st', b) <- hinsert hash64 st v ;; Ok (st', ok && b))
            vs (Ok (s, true)).

Lemma his_full_iff s : hinv s -> (his_full s = true <-> hsize s = hcap s).
Proof.
  intros [c [fr I]]. pose proof (ig_size_le hash64 s c fr I). unfold his_full.
  destruct (N.leb_spec (hcap s) (hsize s)); split; intros; auto; try lia; discriminate.
Qed.

Lemma hinsert_fresh s v : hinv s -> ~ In v (habs s) -> hsize s < hcap s ->
  exists s', hinsert hash64 s v = Ok (s', true) /\ hinv s' /\ hcap s' = hcap s /\
    hsize s' = hsize s + 1 /\ (forall x, In x (habs s') <-> x = v \/ In x (habs s)).
Proof.
  intros Hi Hn Hlt. destruct (hinsert_spec hash64 s v Hi) as [s' [b [H [Hi' [Hcap [Hb [_ Ht]]]]]]].
  apply zs_mem_false in Hn. rewrite Hn in Hb.
  destruct (N.leb_spec (hcap s) (hsize s)); [lia|]. cbn [orb negb] in Hb. subst b.
  destruct (Ht eq_refl) as [Ha Hs]. exists s'. repeat split; auto.
  - rewrite Ha. intros Hx. apply zs_insert_In in Hx. auto.
  - rewrite Ha. intros Hx. apply zs_insert_In. auto.
Qed.

Lemma hinsert_many vs : forall s, hinv s -> NoDup vs -> (forall v, In v vs -> ~ In v (habs s)) ->
  N.of_nat (length vs) + hsize s <= hcap s ->
  exists s', hinsert_all s vs = Ok (s', true) /\ hinv s' /\ hcap s' = hcap s /\
    hsize s' = hsize s + N.of_nat (length vs) /\
    (forall x, In x (habs s') <-> In x (habs s) \/ In x vs).
Proof.
  unfold hinsert_all. induction vs as [|v vs IH]; intros s Hi ND Hn Hlen.
  - exists s. cbn [fold_left length In]. repeat split; auto; try lia; tauto.
  - cbn [length] in Hlen. inversion ND as [|v' vs' Hv ND']; subst.
    destruct (hinsert_fresh s v Hi) as [s1 [H1 [Hi1 [Hc1 [Hs1 Ha1]]]]].
    { apply Hn. left; auto. }
    { lia. }
    cbn [fold_left bind]. rewrite H1. cbn [bind andb].
    destruct (IH s1 Hi1 ND') as [s' [H' [Hi' [Hc' [Hs' Ha']]]]].
    { intros w Hw Hin. apply Ha1 in Hin. destruct Hin as [->|Hin]; [contradiction|].
      apply (Hn w); auto. right; auto. }
    { lia. }
    exists s'. split; auto. split; auto. split; [congruence|]. split; [cbn [length]; lia|].
    intros x. rewrite Ha', Ha1. cbn [In]. intuition.
Qed.

Theorem hash_capacity_exact s vs : hinv s -> NoDup vs -> (forall v, In v vs -> ~ In v (habs s)) ->
  N.of_nat (length vs) = hcap s - hsize s ->
  exists s', hinsert_all s vs = Ok (s', true) /\ hinv s' /\
    hcap s' = hcap s /\ hsize s' = hcap s /\ his_full s' = true /\
    (forall x, In x (habs s') <-> In x (habs s) \/ In x vs) /\
    (forall w, hinsert hash64 s' w = Ok (s', false)).
Proof.
  intros Hi ND Hn Hlen.
  assert (hsize s <= hcap s) as Hle by (destruct Hi as [c [fr I]]; apply (ig_size_le hash64 s c fr I)).
  destruct (hinsert_many vs s Hi ND Hn) as [s' [H' [Hi' [Hc' [Hs' Ha']]]]]; [lia|].
  exists s'. split; auto. split; auto. split; auto.
  assert (hsize s' = hcap s') as Hfull by lia.
  split; [congruence|]. split; [apply his_full_iff; auto|]. split; auto.
  intros w. unfold hinsert. rewrite Hfull, N.eqb_refl. reflexivity.
Qed.

(* nothing is handed out twice; a released slot is the next one handed out *)
Lemma add_node_returns_flh s v s1 k : add_node s v = Ok (s1, k) -> k = hflh s.
Proof.
  unfold add_node. intros H.
  apply bind_ok in H. destruct H as [s0 [_ H]].
  apply bind_ok in H. destruct H as [n [_ H]].
  apply bind_ok in H. destruct H as [ns [_ H]].
  apply bind_ok in H. destruct H as [sz [_ H]].
  inversion H; auto.
Qed.

Theorem hash_alloc_fresh s v : hinv s -> hsize s < hcap s ->
  exists s1 k, add_node s v = Ok (s1, k) /\ k = hflh s /\ ~ In k (hslots s).
Proof.
  intros [c [fr I]] Hlt.
  destruct (add_node_spec hash64 s c fr v I Hlt) as [fr' [sq [fl [Hadd [A1 _]]]]].
  eexists _, _. split; [apply Hadd|]. split; auto.
  rewrite (hslots_eq hash64 s c fr I). inversion A1 as [|x l Hn ND]; subst.
  intros Hin. apply Hn. apply in_or_app; auto.
Qed.

Theorem hash_released_slot_reused s v : hinv s -> In v (habs s) ->
  exists s', hremove hash64 s v = Ok (s', true) /\ hinv s' /\
    In (hflh s') (hslots s) /\ val (hnodes s) (hflh s') = v /\ ~ In (hflh s') (hslots s') /\
    (forall w s2 k, add_node s' w = Ok (s2, k) -> k = hflh s').
Proof.
  intros Hi Hin. destruct (hremove_spec hash64 s v Hi) as [s' [b [H [Hi' [Hcap [Hb [Ha [_ Ht]]]]]]]].
  apply zs_mem_In in Hin. rewrite Hin in Hb. subst b.
  destruct (Ht eq_refl) as [_ [_ [H1 [H2 H3]]]].
  exists s'. repeat split; auto. intros w s2 k Hk. eapply add_node_returns_flh; eauto.
Qed.

(* ================= the all-zero buffer reads as the empty set ================= *)
Theorem hash_zero_reads_empty n : let s := mkHS 0 0 0 0 (repeat hnode0 n) in
  (forall v, hcontains hash64 s v = Ok false) /\ hiter s = Ok [] /\
  hsize_of s = 0 /\ his_empty s = true /\ hcapacity s = 0 /\ his_full s = true /\
  (forall v, hremove hash64 s v = Ok (s, false)) /\
  (forall v, hinsert hash64 s v = Ok (s, false)).
Proof.
  cbv zeta. repeat split.
Qed.

(* capacity 0: a legal (invariant-satisfying) set that refuses everything *)
Theorem hash_cap_zero : let s := hinit_c 0 0 in
  hinv s /\ (forall v, hinsert hash64 s v = Ok (s, false)) /\
  (forall v, hremove hash64 s v = Ok (s, false)) /\
  (forall v, hcontains hash64 s v = Ok false) /\ hiter s = Ok [] /\
  his_full s = true /\ his_empty s = true.
Proof.
  cbv zeta. split; [apply hinv_init_c; reflexivity|]. repeat split.
Qed.

(* ================= reachable states satisfy the invariant ================= *)
Fixpoint hexec (s : hst) (ops : list hop) : res hst :=
  match ops with
  | [] => Ok s
  | o :: r => '(s', _) <- hstep_c hash64 s o ;; hexec s' r
  end.

Lemma hinv_hexec ops : forall s s', hinv s -> hexec s ops = Ok s' -> hinv s'.
Proof.
  induction ops as [|o r IH]; intros s s' Hi H; cbn [hexec] in H.
  - inversion H; subst; auto.
  - destruct (hash_total s o Hi) as [s1 [out [H1 [Hi1 _]]]]. rewrite H1 in H. cbn [bind] in H.
    eapply IH; eauto.
Qed.

Theorem hinv_reachable cap ops s : cap + 1 < 2 ^ 32 ->
  hexec (hinit_c cap cap) ops = Ok s -> hinv s.
Proof.
  intros Hc H. eapply hinv_hexec; [|apply H]. apply hinv_init_c. exact Hc.
Qed.

End Props.
