(* Iteration after a mutation, on the concrete hash-set model: the iterator of the state after an accepted insert
   yields the old members plus exactly the new value; after a successful remove, the old members minus exactly
   that value (as multisets - the order is the bucket order and is not part of the contract). *)
From Coq Require Import List NArith ZArith Bool Lia Permutation.
From Stevia Require Import Base.Res Hash.Impl Hash.Spec Hash.ZSet Hash.Mem Hash.Inv Hash.Refine Hash.HashProps.
Import ListNotations.

Lemma zs_insert_perm : forall m v, zs_mem m v = false -> Permutation (zs_insert m v) (v :: m).
Proof.
  induction m as [|x r IH]; intros v Hm; cbn [zs_insert zs_mem] in *; [apply Permutation_refl|].
  destruct (v =? x)%Z eqn:E; [discriminate|]. cbn [orb] in Hm.
  destruct (v <? x)%Z; [apply Permutation_refl|].
  eapply Permutation_trans; [apply perm_skip; apply IH; exact Hm | apply perm_swap].
Qed.

Lemma zs_remove_perm : forall m v, zs_mem m v = true -> Permutation m (v :: zs_remove m v).
Proof.
  induction m as [|x r IH]; intros v Hm; cbn [zs_remove zs_mem] in *; [discriminate|].
  destruct (v =? x)%Z eqn:E.
  - apply Z.eqb_eq in E. subst x. apply Permutation_refl.
  - cbn [orb] in Hm. eapply Permutation_trans; [apply perm_skip; apply IH; exact Hm | apply perm_swap].
Qed.

Theorem hiter_after_insert (hash64 : Z -> N) s v s' : hinv hash64 s -> hinsert hash64 s v = Ok (s', true) ->
  exists l l', hiter s = Ok l /\ hiter s' = Ok l' /\ NoDup l' /\ Permutation l' (v :: l) /\ ~ In v l.
Proof.
  intros Hi Hrun.
  destruct (hinsert_spec hash64 s v Hi) as [s2 [b [H [Hi' [_ [Hb [_ Ht]]]]]]].
  rewrite Hrun in H. injection H as <- <-.
  destruct (Ht eq_refl) as [Habs _].
  assert (Hm : zs_mem (habs s) v = false).
  { symmetry in Hb. apply negb_true_iff in Hb. apply orb_false_iff in Hb. tauto. }
  destruct (hiter_exact hash64 s Hi) as [l [Hl [_ [Hin [Hp _]]]]].
  destruct (hiter_exact hash64 s' Hi') as [l' [Hl' [Hnd' [_ [Hp' _]]]]].
  exists l, l'. split; [exact Hl|]. split; [exact Hl'|]. split; [exact Hnd'|]. split.
  - eapply Permutation_trans; [exact Hp'|]. rewrite Habs.
    eapply Permutation_trans; [apply zs_insert_perm; exact Hm|]. apply perm_skip. apply Permutation_sym. exact Hp.
  - intros Hv. apply Hin in Hv. apply zs_mem_false in Hm. contradiction.
Qed.

Theorem hiter_after_remove (hash64 : Z -> N) s v s' : hinv hash64 s -> hremove hash64 s v = Ok (s', true) ->
  exists l l', hiter s = Ok l /\ hiter s' = Ok l' /\ NoDup l' /\ Permutation l (v :: l') /\ ~ In v l'.
Proof.
  intros Hi Hrun.
  destruct (hstep_refines hash64 s (HRemove v) Hi) as [s2 [out [H [Hi' Hsp]]]].
  unfold hstep_c in H. rewrite Hrun in H. cbn in H. injection H as <- <-.
  cbn [hspec_step hsmem hscap] in Hsp. injection Hsp as _ Habs Hm. symmetry in Hm.
  destruct (hiter_exact hash64 s Hi) as [l [Hl [_ [_ [Hp _]]]]].
  destruct (hiter_exact hash64 s' Hi') as [l' [Hl' [Hnd' [Hin' [Hp' _]]]]].
  exists l, l'. split; [exact Hl|]. split; [exact Hl'|]. split; [exact Hnd'|]. split.
  - eapply Permutation_trans; [exact Hp|].
    eapply Permutation_trans; [apply zs_remove_perm; exact Hm|]. apply perm_skip. rewrite <- Habs.
    apply Permutation_sym. exact Hp'.
  - intros Hv. apply Hin' in Hv. rewrite Habs in Hv.
    destruct (habs_canonical hash64 s Hi) as [Hs _].
    apply (zs_remove_In (habs s) v v Hs) in Hv. destruct Hv as [_ Hne]. apply Hne. reflexivity.
Qed.
