(* Byte format of the hash set: decode after encode is the identity on states
   whose words fit 32 bits and whose values fit the value type. *)
From Coq Require Import List NArith ZArith Bool Lia Arith.
From Stevia Require Import Base.Res Base.Bytes Hash.Impl Hash.Format.
Import ListNotations.
Open Scope N_scope.
Arguments N.add : simpl never.
Arguments N.sub : simpl never.
Arguments N.mul : simpl never.
Arguments N.div : simpl never.
Arguments N.modulo : simpl never.
Arguments N.eqb : simpl never.
Arguments N.ltb : simpl never.
Arguments N.leb : simpl never.
Arguments N.pow : simpl never.
Arguments N.of_nat : simpl never.
Arguments N.to_nat : simpl never.
Arguments Z.add : simpl never.
Arguments Z.sub : simpl never.
Arguments Z.mul : simpl never.
Arguments Z.pow : simpl never.
Arguments Z.ltb : simpl never.
Arguments Z.leb : simpl never.
Arguments Z.eqb : simpl never.
Arguments Z.modulo : simpl never.
Arguments Z.of_nat : simpl never.

(* ---------- list helpers ---------- *)
Lemma firstn_app_exact {A} (l1 l2 : list A) n : length l1 = n -> firstn n (l1 ++ l2) = l1.
Proof.
  intros <-. rewrite firstn_app, Nat.sub_diag, firstn_all. cbn [firstn]. apply app_nil_r.
Qed.

Lemma skipn_app_exact {A} (l1 l2 : list A) n : length l1 = n -> skipn n (l1 ++ l2) = l2.
Proof.
  intros <-. rewrite skipn_app, Nat.sub_diag, skipn_all. reflexivity.
Qed.

Lemma flat_map_length_const {A B} (f : A -> list B) k (l : list A) :
  (forall a, In a l -> length (f a) = k) -> length (flat_map f l) = (length l * k)%nat.
Proof.
  induction l as [|a l IH]; intros H; [reflexivity|].
  cbn [flat_map length]. rewrite app_length, H by (left; auto).
  rewrite IH by (intros b Hb; apply H; right; auto). lia.
Qed.

(* ---------- two's complement round trip ---------- *)
Definition zval_ok (signed : bool) (w : nat) (v : Z) : Prop :=
  if signed then (- 2 ^ (8 * Z.of_nat w - 1) <= v < 2 ^ (8 * Z.of_nat w - 1))%Z
  else (0 <= v < 2 ^ (8 * Z.of_nat w))%Z.

Lemma z_dec_enc signed w v : zval_ok signed w v -> z_dec signed (z_enc w v) = v.
Proof.
  intros H. unfold z_dec, z_enc. rewrite le_enc_length.
  set (M := (2 ^ (8 * Z.of_nat w))%Z).
  assert (0 < M)%Z as HM by (unfold M; apply Z.pow_pos_nonneg; lia).
  pose proof (Z.mod_pos_bound v M HM) as Hr.
  rewrite le_dec_enc.
  2:{ apply N2Z.inj_lt. rewrite Z2N.id by lia. rewrite N2Z.inj_pow, N2Z.inj_mul, nat_N_Z.
      change (Z.of_N 2) with 2%Z. change (Z.of_N 8) with 8%Z. fold M. lia. }
  rewrite Z2N.id by lia. cbv zeta.
  unfold zval_ok in H. destruct signed; cbn [andb].
  - destruct w as [|w].
    { change (8 * Z.of_nat 0 - 1)%Z with (-1)%Z in H. change (2 ^ (-1))%Z with 0%Z in H. lia. }
    set (Hh := (2 ^ (8 * Z.of_nat (S w) - 1))%Z) in *.
    assert (M = 2 * Hh)%Z as EM.
    { unfold M, Hh. replace (8 * Z.of_nat (S w))%Z with (1 + (8 * Z.of_nat (S w) - 1))%Z at 1 by lia.
      rewrite Z.pow_add_r by lia. reflexivity. }
    destruct (Z_lt_le_dec v 0) as [Hneg|Hpos].
    + assert (v mod M = v + M)%Z as ->.
      { symmetry. apply (Z.mod_unique v M (-1) (v + M)); lia. }
      destruct (Z.leb_spec M (2 * (v + M))); lia.
    + rewrite Z.mod_small by lia. destruct (Z.leb_spec M (2 * v)); lia.
  - rewrite Z.mod_small by (fold M in H; lia). reflexivity.
Qed.

(* ---------- layout arithmetic ---------- *)
Lemma round_up_ge x a : x <= round_up x a.
Proof.
  unfold round_up. destruct (N.eqb_spec a 0); [lia|].
  pose proof (N.div_mod (x + a - 1) a ltac:(auto)) as E.
  pose proof (N.mod_lt (x + a - 1) a ltac:(auto)) as L.
  rewrite (N.mul_comm ((x + a - 1) / a) a). lia.
Qed.

Section Fmt.
Variable vty : fty.

Let w := N.to_nat (hvsz vty).

Definition hnode_ok (n : hnode) : Prop :=
  hb n < 2 ^ 32 /\ hn n < 2 ^ 32 /\ zval_ok (fsigned vty) w (hv n).
Definition hst_ok (s : hst) : Prop :=
  hsize s < 2 ^ 32 /\ hcap s < 2 ^ 32 /\ hflh s < 2 ^ 32 /\ hseq s < 2 ^ 32 /\
  Forall hnode_ok (hnodes s).

Lemma hvoff_ge : 8 <= hvoff vty.
Proof. apply round_up_ge. Qed.
Lemma hrec_len_ge : hvoff vty + hvsz vty <= hrec_len vty.
Proof. apply round_up_ge. Qed.

Lemma henc_node_length n : length (henc_node vty n) = N.to_nat (hrec_len vty).
Proof.
  unfold henc_node. rewrite !app_length, !le_enc_length. unfold zeros. rewrite !repeat_length.
  unfold z_enc. rewrite le_enc_length. pose proof hvoff_ge. pose proof hrec_len_ge. lia.
Qed.

Lemma word32 x : x < 2 ^ 32 -> le_dec (le_enc 4 x) = x.
Proof. intros H. apply le_dec_enc. exact H. Qed.

Lemma hdec_node_enc n : hnode_ok n -> hdec_node vty (henc_node vty n) = n.
Proof.
  intros [Hb [Hn Hv]]. destruct n as [b nx v]. cbn [hb hn hv] in *.
  unfold hdec_node, henc_node, hword, hsub. cbn [hb hn hv].
  pose proof hvoff_ge as H8.
  f_equal.
  - change (N.to_nat (0 * 4)) with 0%nat. change (N.to_nat 4) with 4%nat. cbn [skipn].
    rewrite firstn_app_exact by apply le_enc_length. apply word32; auto.
  - change (N.to_nat (1 * 4)) with 4%nat. change (N.to_nat 4) with 4%nat.
    rewrite skipn_app_exact by apply le_enc_length.
    rewrite firstn_app_exact by apply le_enc_length. apply word32; auto.
  - rewrite !app_assoc. rewrite <- (app_assoc _ (z_enc _ _) _).
    rewrite skipn_app_exact.
    2:{ rewrite !app_length, !le_enc_length. unfold zeros. rewrite repeat_length. lia. }
    rewrite firstn_app_exact by (unfold z_enc; apply le_enc_length).
    apply z_dec_enc. exact Hv.
Qed.

Lemma hdec_nodes_enc ns : Forall hnode_ok ns ->
  hdec_nodes vty (length ns) (flat_map (henc_node vty) ns) = ns.
Proof.
  induction ns as [|n ns IH]; intros H; [reflexivity|].
  inversion H as [|n' ns' Hn Hns]; subst. cbn [length hdec_nodes flat_map].
  rewrite firstn_app_exact by apply henc_node_length.
  rewrite skipn_app_exact by apply henc_node_length.
  rewrite hdec_node_enc by auto. rewrite IH by auto. reflexivity.
Qed.

Theorem hdecode_hencode s : hst_ok s -> hdecode vty (hencode vty s) = Some s.
Proof.
  intros [H0 [H1 [H2 [H3 Hns]]]]. destruct s as [sz cap flh sq ns]. cbn [hsize hcap hflh hseq hnodes] in *.
  unfold hdecode, hencode. cbn [hsize hcap hflh hseq hnodes].
  set (body := flat_map (henc_node vty) ns).
  assert (length body = (length ns * N.to_nat (hrec_len vty))%nat) as Lb.
  { apply flat_map_length_const. intros a _. apply henc_node_length. }
  assert (hrec_len vty <> 0) as Rnz.
  { pose proof hvoff_ge. pose proof hrec_len_ge. lia. }
  destruct (Nat.ltb_spec (length (le_enc 4 sz ++ le_enc 4 cap ++ le_enc 4 flh ++ le_enc 4 sq ++ body)) 16) as [L|L].
  { rewrite !app_length, !le_enc_length in L. lia. }
  assert (skipn 16 (le_enc 4 sz ++ le_enc 4 cap ++ le_enc 4 flh ++ le_enc 4 sq ++ body) = body) as ->.
  { rewrite !app_assoc. apply skipn_app_exact. rewrite !app_length, !le_enc_length. reflexivity. }
  assert (N.of_nat (length body) = N.of_nat (length ns) * hrec_len vty) as Lb' by (rewrite Lb; lia).
  rewrite Lb'. rewrite N.mod_mul by auto. change (0 =? 0) with true. cbn [negb].
  rewrite N.div_mul by auto. rewrite Nat2N.id.
  rewrite hdec_nodes_enc by auto.
  f_equal. unfold hword, hsub.
  change (N.to_nat (0 * 4)) with 0%nat. change (N.to_nat (1 * 4)) with 4%nat.
  change (N.to_nat (2 * 4)) with 8%nat. change (N.to_nat (3 * 4)) with 12%nat.
  change (N.to_nat 4) with 4%nat.
  f_equal.
  - cbn [skipn]. rewrite firstn_app_exact by apply le_enc_length. apply word32; auto.
  - rewrite skipn_app_exact by apply le_enc_length.
    rewrite firstn_app_exact by apply le_enc_length. apply word32; auto.
  - rewrite app_assoc. rewrite skipn_app_exact by (rewrite app_length, !le_enc_length; reflexivity).
    rewrite firstn_app_exact by apply le_enc_length. apply word32; auto.
  - rewrite !app_assoc. rewrite <- (app_assoc _ (le_enc 4 sq) body).
    rewrite skipn_app_exact by (rewrite !app_length, !le_enc_length; reflexivity).
    rewrite firstn_app_exact by apply le_enc_length. apply word32; auto.
Qed.

End Fmt.
