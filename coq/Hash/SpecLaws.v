(* Laws of the bounded-set specification itself (layer S of the hash set):
   over strictly sorted duplicate-free lists [zs_insert]/[zs_remove]/[zs_mem]
   are the operations of a finite set - membership after an insertion or a
   removal changes for the touched value only, an insertion of a member and
   a removal of a non-member change nothing, the size moves by exactly one,
   the list stays canonical.  With the refinement theorem (Hash/Refine.v)
   "answers as the specification" becomes "answers as a set". *)
From Coq Require Import List NArith ZArith Bool Lia Sorting.Sorted.
From Stevia Require Import Base.Res Hash.Impl Hash.Spec Hash.ZSet Hash.Mem Hash.Inv Hash.Refine Hash.HashProps.
Import ListNotations.

Lemma zs_insert_member : forall m v, ssorted m -> zs_mem m v = true -> zs_insert m v = m.
Proof.
  induction m as [|x r IH]; intros v Hs Hm; cbn [zs_insert zs_mem] in *; [discriminate|].
  destruct (ssorted_inv _ _ Hs) as [Hr Hlt].
  destruct (v =? x)%Z eqn:E.
  - apply Z.eqb_eq in E. destruct (v <? x)%Z eqn:L; [apply Z.ltb_lt in L; lia | reflexivity].
  - cbn [orb] in Hm. apply zs_mem_In in Hm. specialize (Hlt _ Hm).
    destruct (v <? x)%Z eqn:L; [apply Z.ltb_lt in L; lia|].
    f_equal. apply IH; [exact Hr | apply zs_mem_In; exact Hm].
Qed.

Lemma zs_insert_length : forall m v, zs_mem m v = false -> length (zs_insert m v) = S (length m).
Proof.
  induction m as [|x r IH]; intros v Hm; cbn [zs_insert zs_mem length] in *; [reflexivity|].
  destruct (v =? x)%Z eqn:E; [discriminate|]. cbn [orb] in Hm.
  destruct (v <? x)%Z; cbn [length]; [reflexivity | rewrite IH; [reflexivity | exact Hm]].
Qed.

Lemma zs_remove_length : forall m v, zs_mem m v = true -> S (length (zs_remove m v)) = length m.
Proof.
  induction m as [|x r IH]; intros v Hm; cbn [zs_remove zs_mem length] in *; [discriminate|].
  destruct (v =? x)%Z eqn:E; [reflexivity|]. cbn [orb] in Hm.
  cbn [length]. rewrite IH; [reflexivity | exact Hm].
Qed.

Definition zset_laws (m : list Z) : Prop :=
  (forall v, zs_mem m v = true <-> In v m) /\
  (forall v, ssorted (zs_insert m v) /\ (forall x, In x (zs_insert m v) <-> x = v \/ In x m) /\
     (zs_mem m v = true -> zs_insert m v = m) /\
     (zs_mem m v = false -> length (zs_insert m v) = S (length m))) /\
  (forall v, ssorted (zs_remove m v) /\ (forall x, In x (zs_remove m v) <-> In x m /\ x <> v) /\
     (zs_mem m v = false -> zs_remove m v = m) /\
     (zs_mem m v = true -> S (length (zs_remove m v)) = length m)).

Theorem bounded_set_laws : forall m, ssorted m -> zset_laws m.
Proof.
  intros m Hs. split; [|split].
  - intros v. apply zs_mem_In.
  - intros v. split; [apply zs_insert_sorted; exact Hs|]. split; [intros x; apply zs_insert_In|].
    split; [apply zs_insert_member; exact Hs | apply zs_insert_length].
  - intros v. split; [apply zs_remove_sorted; exact Hs|]. split; [intros x; apply zs_remove_In; exact Hs|].
    split; [|apply zs_remove_length].
    intros Hm. apply zs_remove_notin. apply zs_mem_false. exact Hm.
Qed.

(* ... and therefore of the members of every state satisfying the invariant (every reachable state) *)
Theorem hinv_set_laws (hash64 : Z -> N) s : hinv hash64 s -> ssorted (habs s) /\ zset_laws (habs s).
Proof.
  intros Hi. destruct (habs_canonical hash64 s Hi) as [Hs _].
  split; [exact Hs | exact (bounded_set_laws _ Hs)].
Qed.

Example zset_laws_example :
  let m := [3; 5; 9]%Z in
  ssorted m /\ zs_insert m 4%Z = [3; 4; 5; 9]%Z /\ zs_insert m 5%Z = m /\
  zs_remove m 5%Z = [3; 9]%Z /\ zs_remove m 4%Z = m /\ zs_mem m 9%Z = true /\ zs_mem m 4%Z = false.
Proof.
  cbv zeta. split; [|vm_compute; repeat split; reflexivity].
  repeat (apply ssorted_cons; [|cbn [In]; intros y Hy; lia]). apply ssorted_nil.
Qed.

(* ---- user-level clause on the concrete model: what [contains] answers after an insert ---- *)
Lemma zs_mem_insert_same m v : zs_mem (zs_insert m v) v = true.
Proof. apply zs_mem_In. apply zs_insert_In. left; reflexivity. Qed.

Lemma zs_mem_insert_other m v w : w <> v -> zs_mem (zs_insert m v) w = zs_mem m w.
Proof.
  intros Hw. destruct (zs_mem m w) eqn:E.
  - apply zs_mem_In. apply zs_insert_In. right. apply zs_mem_In. exact E.
  - apply zs_mem_false. intros Hin. apply zs_insert_In in Hin. destruct Hin as [H|H]; [contradiction|].
    apply zs_mem_false in E. contradiction.
Qed.

(* an accepted insert makes exactly that value a member; a refused one (member already, or full) changes nothing;
   for an arbitrary hash function *)
Theorem hinsert_then_contains (hash64 : Z -> N) s v : hinv hash64 s ->
  exists s' b, hinsert hash64 s v = Ok (s', b) /\ hinv hash64 s' /\
    b = negb (zs_mem (habs s) v || (hcap s <=? hsize s)%N) /\
    (b = true -> hcontains hash64 s' v = Ok true /\
                 (forall w, w <> v -> hcontains hash64 s' w = hcontains hash64 s w) /\
                 hsize s' = (hsize s + 1)%N) /\
    (b = false -> s' = s).
Proof.
  intros Hi. destruct (hinsert_spec hash64 s v Hi) as [s' [b [H [Hi' [Hcap [Hb [Hf Ht]]]]]]].
  exists s', b. split; [exact H|]. split; [exact Hi'|]. split; [exact Hb|]. split; [|exact Hf].
  intros Hbt. destruct (Ht Hbt) as [Habs Hsz]. split; [|split; [|exact Hsz]].
  - rewrite (hcontains_spec hash64 s' v Hi'), Habs, zs_mem_insert_same. reflexivity.
  - intros w Hw. rewrite (hcontains_spec hash64 s' w Hi'), (hcontains_spec hash64 s w Hi), Habs.
    rewrite zs_mem_insert_other by exact Hw. reflexivity.
Qed.
