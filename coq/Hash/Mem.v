(* Flat record array of the hash set: total accessors, field-wise updates and
   their frame lemmas, list segments through the [hn] register. *)
From Coq Require Import List NArith ZArith Bool Lia Permutation.
From Stevia Require Import Base.Res Hash.Impl.
Import ListNotations.
Open Scope N_scope.
Arguments N.add : simpl never.
Arguments N.sub : simpl never.
Arguments N.mul : simpl never.
Arguments N.div : simpl never.
Arguments N.modulo : simpl never.
Arguments N.eqb : simpl never.
Arguments N.ltb : simpl never.
Arguments N.leb : simpl never.
Arguments N.pow : simpl never.
Arguments N.of_nat : simpl never.
Arguments N.to_nat : simpl never.
Arguments Z.add : simpl never.
Arguments Z.sub : simpl never.
Arguments Z.ltb : simpl never.
Arguments Z.eqb : simpl never.

(* ---------- total accessors ---------- *)
Definition len (ns : list hnode) : N := N.of_nat (length ns).
Definition rec (ns : list hnode) (i : N) : hnode := nth (N.to_nat i) ns hnode0.
Definition slot (ns : list hnode) (i : N) : hnode := if i =? 0 then hnode0 else rec ns (i - 1).
Definition bkt (ns : list hnode) (b : N) : N := hb (rec ns b).
Definition nxt (ns : list hnode) (i : N) : N := hn (slot ns i).
Definition val (ns : list hnode) (i : N) : Z := hv (slot ns i).
Definition nset (ns : list hnode) (i : N) (x : hnode) := set_nth ns (N.to_nat i) x.

Lemma len_nset ns i x : len (nset ns i x) = len ns.
Proof. unfold len, nset. rewrite set_nth_length. reflexivity. Qed.

Lemma length_nset ns i x : length (nset ns i x) = length ns.
Proof. unfold nset. apply set_nth_length. Qed.

Lemma getb_ok ns i : i < len ns -> getb ns i = Ok (rec ns i).
Proof.
  unfold len, getb, rec. intros H.
  destruct (nth_error ns (N.to_nat i)) as [n|] eqn:E.
  - erewrite nth_error_nth; eauto.
  - apply nth_error_None in E. lia.
Qed.

Lemma setb_ok ns i x : i < len ns -> setb ns i x = Ok (nset ns i x).
Proof.
  unfold len, setb, nset. intros H.
  destruct (Nat.ltb_spec (N.to_nat i) (length ns)); auto. lia.
Qed.

Lemma hgetn_ok ns i : 1 <= i <= len ns -> hgetn ns i = Ok (slot ns i).
Proof.
  intros H. unfold hgetn, slot. destruct (N.eqb_spec i 0); [lia|].
  apply getb_ok. lia.
Qed.

Lemma hsetn_ok ns i x : 1 <= i <= len ns -> hsetn ns i x = Ok (nset ns (i - 1) x).
Proof.
  intros H. unfold hsetn. destruct (N.eqb_spec i 0); [lia|].
  apply setb_ok. lia.
Qed.

Lemma rec_nset_same ns i x : i < len ns -> rec (nset ns i x) i = x.
Proof.
  unfold len, rec, nset. intros H.
  apply nth_error_nth. apply nth_error_set_nth_same. lia.
Qed.

Lemma nth_error_nth_eq {A} (l l' : list A) n m d :
  nth_error l n = nth_error l' m -> nth n l d = nth m l' d.
Proof.
  intros H. destruct (nth_error l n) as [a|] eqn:E.
  - rewrite (nth_error_nth _ _ _ E). symmetry in H. rewrite (nth_error_nth _ _ _ H). reflexivity.
  - symmetry in H. apply nth_error_None in E, H. rewrite !nth_overflow; auto.
Qed.

Lemma rec_nset_other ns i j x : i <> j -> rec (nset ns i x) j = rec ns j.
Proof.
  unfold rec, nset. intros H. apply nth_error_nth_eq.
  apply nth_error_set_nth_other. lia.
Qed.

(* ---------- field-wise updates ---------- *)
(* bucket register of record b *)
Definition upd_b ns b x := nset ns b (hset_b (rec ns b) x).
(* link and value registers of slot i (1-based) *)
Definition upd_s ns i n v := nset ns (i - 1) (mkH (hb (rec ns (i - 1))) n v).

Lemma len_upd_b ns b x : len (upd_b ns b x) = len ns.
Proof. apply len_nset. Qed.
Lemma len_upd_s ns i n v : len (upd_s ns i n v) = len ns.
Proof. apply len_nset. Qed.
Lemma length_upd_b ns b x : length (upd_b ns b x) = length ns.
Proof. apply length_nset. Qed.
Lemma length_upd_s ns i n v : length (upd_s ns i n v) = length ns.
Proof. apply length_nset. Qed.

Lemma bkt_upd_b ns b x b' : b < len ns ->
  bkt (upd_b ns b x) b' = if b' =? b then x else bkt ns b'.
Proof.
  intros H. unfold bkt, upd_b. destruct (N.eqb_spec b' b) as [E|E].
  - subst. rewrite rec_nset_same by auto. reflexivity.
  - rewrite rec_nset_other by auto. reflexivity.
Qed.

Lemma slot_upd_b ns b x i : b < len ns ->
  hn (slot (upd_b ns b x) i) = hn (slot ns i) /\ hv (slot (upd_b ns b x) i) = hv (slot ns i).
Proof.
  intros H. unfold slot, upd_b. destruct (N.eqb_spec i 0); auto.
  destruct (N.eq_dec b (i - 1)) as [E|E].
  - rewrite <- E. rewrite rec_nset_same by auto. split; reflexivity.
  - rewrite rec_nset_other by auto. split; reflexivity.
Qed.

Lemma nxt_upd_b ns b x i : b < len ns -> nxt (upd_b ns b x) i = nxt ns i.
Proof. intros H. unfold nxt. apply slot_upd_b; auto. Qed.
Lemma val_upd_b ns b x i : b < len ns -> val (upd_b ns b x) i = val ns i.
Proof. intros H. unfold val. apply slot_upd_b; auto. Qed.

Lemma bkt_upd_s ns i n v b : 1 <= i <= len ns -> bkt (upd_s ns i n v) b = bkt ns b.
Proof.
  intros H. unfold bkt, upd_s. destruct (N.eq_dec (i - 1) b) as [E|E].
  - rewrite <- E. rewrite rec_nset_same by lia. reflexivity.
  - rewrite rec_nset_other by auto. reflexivity.
Qed.

Lemma slot_upd_s ns i n v j : 1 <= i <= len ns ->
  slot (upd_s ns i n v) j = if j =? i then mkH (hb (rec ns (i - 1))) n v else slot ns j.
Proof.
  intros H. unfold slot, upd_s. destruct (N.eqb_spec j 0) as [E0|E0].
  - destruct (N.eqb_spec j i); auto. lia.
  - destruct (N.eqb_spec j i) as [E|E].
    + subst. rewrite rec_nset_same by lia. reflexivity.
    + rewrite rec_nset_other by lia. reflexivity.
Qed.

Lemma nxt_upd_s ns i n v j : 1 <= i <= len ns ->
  nxt (upd_s ns i n v) j = if j =? i then n else nxt ns j.
Proof.
  intros H. unfold nxt. rewrite slot_upd_s by auto. destruct (j =? i); reflexivity.
Qed.
Lemma val_upd_s ns i n v j : 1 <= i <= len ns ->
  val (upd_s ns i n v) j = if j =? i then v else val ns j.
Proof.
  intros H. unfold val. rewrite slot_upd_s by auto. destruct (j =? i); reflexivity.
Qed.

(* the concrete read/write idioms of the model, in terms of the updates *)
Lemma setb_upd_b ns b x : b < len ns ->
  setb ns b (hset_b (rec ns b) x) = Ok (upd_b ns b x).
Proof. intros H. rewrite setb_ok by auto. reflexivity. Qed.

Lemma slot_rec ns i : i <> 0 -> slot ns i = rec ns (i - 1).
Proof. intros H. unfold slot. destruct (N.eqb_spec i 0); [lia|reflexivity]. Qed.

Lemma hsetn_upd_s ns i n v : 1 <= i <= len ns ->
  hsetn ns i (mkH (hb (slot ns i)) n v) = Ok (upd_s ns i n v).
Proof.
  intros H. rewrite hsetn_ok by auto. rewrite slot_rec by lia. reflexivity.
Qed.

Lemma hsetn_upd_n ns i n : 1 <= i <= len ns ->
  hsetn ns i (hset_n (slot ns i) n) = Ok (upd_s ns i n (val ns i)).
Proof. intros H. unfold hset_n. apply hsetn_upd_s; auto. Qed.

(* ---------- list segments through hn ---------- *)
Fixpoint lseg (ns : list hnode) (h : N) (l : list N) (t : N) : Prop :=
  match l with
  | [] => h = t
  | i :: r => h = i /\ lseg ns (nxt ns i) r t
  end.

Lemma lseg_frame ns ns' l : forall h t,
  (forall i, In i l -> nxt ns' i = nxt ns i) -> lseg ns h l t -> lseg ns' h l t.
Proof.
  induction l as [|i r IH]; intros h t F H; cbn [lseg] in *; auto.
  destruct H as [-> H]. split; auto. rewrite F by (left; auto).
  apply IH; auto. intros j Hj. apply F. right; auto.
Qed.

Lemma lseg_app ns l1 : forall h l2 t,
  lseg ns h (l1 ++ l2) t <-> exists m, lseg ns h l1 m /\ lseg ns m l2 t.
Proof.
  induction l1 as [|i r IH]; intros h l2 t; cbn [lseg app].
  - split.
    + intros H. exists h. auto.
    + intros [m [-> H]]. auto.
  - rewrite IH. split.
    + intros [-> [m [H1 H2]]]. exists m. auto.
    + intros [m [[-> H1] H2]]. split; auto. exists m. auto.
Qed.

Lemma lseg_fun ns l1 : forall l2 h t,
  (forall i, In i l1 -> i <> t) -> (forall i, In i l2 -> i <> t) ->
  lseg ns h l1 t -> lseg ns h l2 t -> l1 = l2.
Proof.
  induction l1 as [|i r IH]; intros [|j r2] h t N1 N2 H1 H2; cbn [lseg] in *; auto.
  - destruct H2 as [E _]. exfalso. apply (N2 j); [left; auto|]. congruence.
  - destruct H1 as [E _]. exfalso. apply (N1 i); [left; auto|]. congruence.
  - destruct H1 as [-> H1]. destruct H2 as [E H2]. subst j. f_equal.
    apply (IH r2 (nxt ns i) t); auto.
    + intros k Hk. apply N1. right; auto.
    + intros k Hk. apply N2. right; auto.
Qed.

(* ---------- bucket index lists ---------- *)
Definition bks (cap : N) : list N := map N.of_nat (seq 0 (N.to_nat cap)).

Lemma bks_In cap b : In b (bks cap) <-> b < cap.
Proof.
  unfold bks. rewrite in_map_iff. split.
  - intros [n [<- H]]. apply in_seq in H. lia.
  - intros H. exists (N.to_nat b). split; [lia|]. apply in_seq. lia.
Qed.

Lemma bks_NoDup cap : NoDup (bks cap).
Proof.
  unfold bks. apply FinFun.Injective_map_NoDup.
  - intros a b H. lia.
  - apply seq_NoDup.
Qed.

Lemma flat_map_ext_in {A B} (f g : A -> list B) L :
  (forall a, In a L -> f a = g a) -> flat_map f L = flat_map g L.
Proof.
  induction L as [|a L IH]; intros H; cbn [flat_map]; auto.
  rewrite H by (left; auto). f_equal. apply IH. intros b Hb. apply H. right; auto.
Qed.

Lemma flat_map_upd_perm {B} (c c' : N -> list B) L b x :
  NoDup L -> In b L -> (forall b', b' <> b -> c' b' = c b') ->
  Permutation (c' b) (x :: c b) ->
  Permutation (flat_map c' L) (x :: flat_map c L).
Proof.
  induction L as [|a L IH]; intros ND Hin E P; [destruct Hin|].
  inversion ND as [|a' L' Hna ND']; subst. cbn [flat_map].
  destruct (N.eq_dec a b) as [->|Hab].
  - rewrite (flat_map_ext_in c' c L).
    + change (x :: c b ++ flat_map c L) with ((x :: c b) ++ flat_map c L).
      apply Permutation_app_tail. auto.
    + intros a Ha. apply E. intros ->. auto.
  - destruct Hin as [Hin|Hin]; [congruence|].
    rewrite E by auto.
    eapply Permutation_trans; [apply Permutation_app_head, IH; auto|].
    apply Permutation_sym, Permutation_middle.
Qed.

Lemma in_flat_map_bks (c : N -> list N) cap i :
  In i (flat_map c (bks cap)) <-> exists b, b < cap /\ In i (c b).
Proof.
  rewrite in_flat_map. split; intros [b [H1 H2]]; exists b; split; auto; apply bks_In; auto.
Qed.

Lemma length_flat_map_le {A B} (c : A -> list B) L b :
  In b L -> (length (c b) <= length (flat_map c L))%nat.
Proof.
  induction L as [|a L IH]; intros H; [destruct H|].
  cbn [flat_map]. rewrite app_length. destruct H as [->|H]; [lia|].
  apply IH in H. lia.
Qed.

Lemma NoDup_app_l {A} (l1 l2 : list A) : NoDup (l1 ++ l2) -> NoDup l1.
Proof.
  induction l1 as [|a l1 IH]; intros H; [constructor|].
  inversion H as [|a' l' Hn ND]; subst. constructor.
  - intros Hin. apply Hn. apply in_or_app. auto.
  - auto.
Qed.

Lemma NoDup_app_r {A} (l1 l2 : list A) : NoDup (l1 ++ l2) -> NoDup l2.
Proof.
  induction l1 as [|a l1 IH]; intros H; auto.
  inversion H as [|a' l' Hn ND]; subst. auto.
Qed.

Lemma NoDup_app_disj {A} (l1 l2 : list A) x : NoDup (l1 ++ l2) -> In x l1 -> In x l2 -> False.
Proof.
  induction l1 as [|a l1 IH]; intros H H1 H2; [destruct H1|].
  inversion H as [|a' l' Hn ND]; subst. destruct H1 as [->|H1].
  - apply Hn. apply in_or_app. auto.
  - auto.
Qed.
