(* Soundness of the independent reader [hdecode_doc] of the hash set, in the
   direction reader -> structure: whatever bytes it is given, if it answers
   [Some d] with [hd_wf d = true] then the decoded state has the structure the
   reader reports.  (Hash/DocFacts.v proves the other direction: on the bytes
   of a state satisfying the invariant the reader succeeds and says [true].)

   The reader does NOT check two things the invariant asks for: that the
   free list ends at the cursor [hseq] (it follows exactly
   [hseq - 1 - #live] links from [hflh] and stops), and that
   [capacity + 1 < 2^32].  With those two added, [hd_wf] gives the invariant
   ([hd_wf_hinv]); without the first it does not ([hd_wf_not_hinv]). *)
From Coq Require Import List NArith ZArith Bool Lia Arith Permutation.
From Stevia Require Import Base.Res Base.ResMore Base.Bytes Base.BytesMore Hash.Impl Hash.Spec Hash.Format Hash.ZSet Hash.Mem
  Hash.Inv Hash.Refine Hash.HashProps Hash.FormatFacts Hash.FormatInv Hash.HashMore Hash.DocFacts.
Import ListNotations.
Open Scope N_scope.
Arguments N.add : simpl never.
Arguments N.sub : simpl never.
Arguments N.mul : simpl never.
Arguments N.div : simpl never.
Arguments N.modulo : simpl never.
Arguments N.eqb : simpl never.
Arguments N.ltb : simpl never.
Arguments N.leb : simpl never.
Arguments N.pow : simpl never.
Arguments N.of_nat : simpl never.
Arguments N.to_nat : simpl never.
Arguments Z.add : simpl never.
Arguments Z.sub : simpl never.
Arguments Z.ltb : simpl never.
Arguments Z.eqb : simpl never.

(* ---------- reflection of the boolean checks ---------- *)
Lemma hnodupb_NoDup (l : list N) : hnodupb l = true -> NoDup l.
Proof.
  induction l as [|a l IH]; intros H; [constructor|].
  cbn [hnodupb] in H. apply andb_true_iff in H. destruct H as [H1 H2].
  constructor; [|apply IH; exact H2].
  intros Hin. apply negb_true_iff in H1.
  assert (existsb (N.eqb a) l = true) as T.
  { apply existsb_exists. exists a. split; [exact Hin|apply N.eqb_refl]. }
  congruence.
Qed.

Lemma hnodupb_iff (l : list N) : hnodupb l = true <-> NoDup l.
Proof. split; [apply hnodupb_NoDup|apply hnodupb_true]. Qed.

Lemma znodupb_NoDup (l : list Z) : znodupb l = true -> NoDup l.
Proof.
  induction l as [|a l IH]; intros H; [constructor|].
  cbn [znodupb] in H. apply andb_true_iff in H. destruct H as [H1 H2].
  constructor; [|apply IH; exact H2].
  intros Hin. apply negb_true_iff in H1.
  assert (existsb (Z.eqb a) l = true) as T.
  { apply existsb_exists. exists a. split; [exact Hin|apply Z.eqb_refl]. }
  congruence.
Qed.

Lemma znodupb_iff (l : list Z) : znodupb l = true <-> NoDup l.
Proof. split; [apply znodupb_NoDup|apply znodupb_true]. Qed.

(* ---------- generic ---------- *)
Lemma all_some_seq_gen {A} (f : nat -> option A) : forall n k r,
  all_some (map f (seq k n)) = Some r ->
  length r = n /\ forall b d, (b < n)%nat -> f (k + b)%nat = Some (nth b r d).
Proof.
  induction n as [|n IH]; intros k r H; cbn [seq map all_some] in H.
  - injection H as <-. split; [reflexivity|]. intros b d Hb. lia.
  - destruct (f k) as [a|] eqn:Ea; [|discriminate].
    destruct (all_some (map f (seq (S k) n))) as [r'|] eqn:Er; [|discriminate].
    injection H as <-. destruct (IH (S k) r' Er) as [HL Hn]. split; [cbn [length]; lia|].
    intros b d Hb. destruct b as [|b]; cbn [nth].
    + rewrite Nat.add_0_r. exact Ea.
    + replace (k + S b)%nat with (S k + b)%nat by lia. apply Hn. lia.
Qed.

Lemma map_nth_seq {A} (d : A) : forall l : list A, l = map (fun k => nth k l d) (seq 0 (length l)).
Proof.
  induction l as [|a l IH]; [reflexivity|].
  cbn [length seq map nth]. f_equal. rewrite <- seq_shift, map_map. exact IH.
Qed.

Lemma in_combine_nth {A B} (l1 : list A) (l2 : list B) k d1 d2 :
  length l1 = length l2 -> (k < length l1)%nat -> In (nth k l1 d1, nth k l2 d2) (combine l1 l2).
Proof.
  intros E Hk. rewrite <- (combine_nth l1 l2 k d1 d2 E). apply nth_In.
  rewrite combine_length. lia.
Qed.

Lemma slot_beyond ns i : len ns < i -> slot ns i = hnode0.
Proof.
  unfold len, slot, rec. intros H. destruct (N.eqb_spec i 0); [reflexivity|].
  apply nth_overflow. lia.
Qed.

(* ---------- the reader's walks, read backwards ---------- *)
Lemma hrec_at_some s i n : hrec_at s i = Some n -> 1 <= i <= len (hnodes s) /\ n = slot (hnodes s) i.
Proof.
  unfold hrec_at, slot, rec, len. destruct (N.eqb_spec i 0) as [E|E]; [discriminate|]. intros H. split.
  - assert (nth_error (hnodes s) (N.to_nat (i - 1)) <> None) as NN by congruence.
    apply nth_error_Some in NN. lia.
  - symmetry. apply nth_error_nth. exact H.
Qed.

Lemma dchain_sound s : forall fuel h l, dchain fuel s h = Some l ->
  lseg (hnodes s) h (map fst l) 0 /\
  (forall i v, In (i, v) l -> 1 <= i <= len (hnodes s) /\ v = val (hnodes s) i).
Proof.
  induction fuel as [|f IH]; intros h l H; cbn [dchain] in H; [discriminate|].
  destruct (N.eqb_spec h 0) as [E|E].
  - injection H as <-. cbn [map lseg]. split; [exact E|]. intros i v [].
  - destruct (hrec_at s h) as [n|] eqn:En; [|discriminate].
    destruct (dchain f s (hn n)) as [r|] eqn:Er; [|discriminate].
    injection H as <-. apply hrec_at_some in En. destruct En as [R ->].
    destruct (IH _ _ Er) as [A B]. cbn [map fst lseg]. split.
    + split; [reflexivity|]. exact A.
    + intros i v [Hiv|Hin]; [|apply B; exact Hin].
      injection Hiv as <- <-. split; [exact R|reflexivity].
Qed.

Lemma hfree_chain_sound s : forall n h fr, hfree_chain n s h = Some fr ->
  length fr = n /\ (exists t, lseg (hnodes s) h fr t) /\
  (forall i, In i fr -> 1 <= i <= len (hnodes s)).
Proof.
  induction n as [|n IH]; intros h fr H; cbn [hfree_chain] in H.
  - injection H as <-. split; [reflexivity|]. split; [exists h; reflexivity|]. intros i [].
  - destruct (hrec_at s h) as [x|] eqn:Ex; [|discriminate].
    destruct (hfree_chain n s (hn x)) as [r|] eqn:Er; [|discriminate].
    injection H as <-. apply hrec_at_some in Ex. destruct Ex as [R ->].
    destruct (IH _ _ Er) as [A [[t B] C]]. split; [cbn [length]; lia|]. split.
    + exists t. cbn [lseg]. split; [reflexivity|exact B].
    + intros i [<-|Hi]; [exact R|apply C; exact Hi].
Qed.

Section Sound.
Variable hash64 : Z -> N.
Variable vty : fty.
Notation hinv := (hinv hash64).
Notation hinv_g := (hinv_g hash64).
Notation bucket_ix := (bucket_ix hash64).

(* the chain function the reader found: slot numbers of bucket b *)
Definition hd_chain (d : hdoc) (b : N) : list N := map fst (nth (N.to_nat b) (hd_buckets d) []).

Lemma hd_live_chains d cap : length (hd_buckets d) = N.to_nat cap ->
  hd_live d = flat_map (hd_chain d) (bks cap).
Proof.
  intros HL. unfold hd_live, hd_chain.
  rewrite (map_nth_seq [] (hd_buckets d)) at 1. rewrite HL.
  rewrite concat_map, map_map, flat_map_concat_map. unfold bks. rewrite map_map.
  f_equal. apply map_ext. intros k. rewrite Nat2N.id. reflexivity.
Qed.

(* ---------- the main statement ---------- *)
Theorem hd_wf_sound bs d : hdecode_doc vty hash64 bs = Some d -> hd_wf d = true ->
  exists s, hdecode vty bs = Some s /\
    hd_hdr d = [hsize s; hcap s; hflh s; hseq s] /\
    (* one record per bucket; cursor between 1 and capacity + 1 *)
    len (hnodes s) = hcap s /\ 1 <= hseq s <= hcap s + 1 /\
    length (hd_buckets d) = N.to_nat (hcap s) /\
    (* each reported chain is the chain of its bucket, ends at the sentinel,
       reports the stored values, and holds only values hashing to that bucket *)
    (forall b, b < hcap s ->
       lseg (hnodes s) (bkt (hnodes s) b) (hd_chain d b) 0 /\
       forall i v, In (i, v) (nth (N.to_nat b) (hd_buckets d) []) ->
         v = val (hnodes s) i /\ (hash64 v mod 2 ^ 32) mod hcap s = b) /\
    (* the live slots are exactly those of the state; likewise the members *)
    hd_live d = hslots s /\ hd_members d = hmembers s /\
    hd_members d = map (val (hnodes s)) (hd_live d) /\
    (* no slot twice in the chains, no value twice *)
    NoDup (hd_live d) /\ NoDup (hd_members d) /\
    (* the size word *)
    hsize s = N.of_nat (length (hd_live d)) /\
    (* recycled records: a path of links from the free-list head, value 0 *)
    (exists t, lseg (hnodes s) (hflh s) (hd_free d) t) /\
    (forall i, In i (hd_free d) -> val (hnodes s) i = 0%Z) /\
    (* never-used records: those from the cursor on, link and value 0 *)
    (forall i, In i (hd_never d) <-> 1 <= i <= hcap s /\ hseq s <= i) /\
    (forall i, In i (hd_never d) -> nxt (hnodes s) i = 0 /\ val (hnodes s) i = 0%Z) /\
    (* every slot 1..capacity is in exactly one class; live and recycled
       together are exactly the slots below the cursor *)
    NoDup (hd_live d ++ hd_free d ++ hd_never d) /\
    (forall i, In i (hd_live d ++ hd_free d ++ hd_never d) <-> 1 <= i <= hcap s) /\
    (forall i, In i (hd_live d ++ hd_free d) <-> 1 <= i < hseq s) /\
    N.of_nat (length (hd_live d) + length (hd_free d)) + 1 = hseq s.
Proof.
  intros H W. unfold hdecode_doc in H.
  destruct (hdecode vty bs) as [s|] eqn:Hd; [|discriminate]. cbv zeta in H.
  match type of H with match ?X with _ => _ end = _ => destruct X as [chains|] eqn:Hch; [|discriminate] end.
  match type of H with match ?X with _ => _ end = _ => destruct X as [fr|] eqn:Hfr; [|discriminate] end.
  injection H as <-. cbn [hd_wf] in W.
  fold (slots_upto (hcap s)) in W. fold (bks (hcap s)) in W.
  rewrite !andb_true_iff in W.
  destruct W as [[[[[[[[[W1 W2] W3] W4] W5] W6] W7] W8] W9] W10].
  exists s. split; [reflexivity|].
  unfold hd_live, hd_members, hd_chain. cbn [hd_hdr hd_buckets hd_free hd_never].
  fold (slots_upto (hcap s)).
  set (live0 := map fst (concat chains)) in *.
  apply hnodupb_NoDup in W1. apply znodupb_NoDup in W7.
  apply N.eqb_eq in W3, W6. apply N.leb_le in W4, W5.
  assert (HR : forall i, In i (live0 ++ fr) -> 1 <= i < hseq s).
  { intros i Hi. rewrite forallb_forall in W2. specialize (W2 i Hi).
    apply andb_true_iff in W2. destruct W2 as [A B]. apply N.leb_le in A. apply N.ltb_lt in B. lia. }
  destruct (all_some_seq_gen _ _ _ _ Hch) as [HLc Hnth].
  destruct (hfree_chain_sound s _ _ _ Hfr) as [HLf [Hseg HRf]].
  assert (HL : len (hnodes s) = hcap s) by exact W6.
  (* per bucket *)
  assert (Hb : forall b, b < hcap s ->
     lseg (hnodes s) (bkt (hnodes s) b) (map fst (nth (N.to_nat b) chains [])) 0 /\
     forall i v, In (i, v) (nth (N.to_nat b) chains []) ->
       1 <= i <= len (hnodes s) /\ v = val (hnodes s) i /\ (hash64 v mod 2 ^ 32) mod hcap s = b).
  { intros b Hlt. specialize (Hnth (N.to_nat b) [] ltac:(lia)). cbn [Nat.add] in Hnth.
    destruct (nth_error (hnodes s) (N.to_nat b)) as [n|] eqn:En; [|discriminate].
    apply dchain_sound in Hnth. destruct Hnth as [A B].
    assert (hb n = bkt (hnodes s) b) as Ebk.
    { unfold bkt, rec. symmetry. f_equal. apply nth_error_nth. exact En. }
    rewrite Ebk in A. split; [exact A|]. intros i v Hin. destruct (B i v Hin) as [B1 B2].
    split; [exact B1|]. split; [exact B2|].
    rewrite forallb_forall in W8.
    assert (In (b, nth (N.to_nat b) chains []) (combine (bks (hcap s)) chains)) as Hcomb.
    { assert (nth (N.to_nat b) (bks (hcap s)) 0 = b) as Eb.
      { unfold bks. rewrite (map_nth N.of_nat _ 0%nat), seq_nth by lia. cbn [Nat.add]. lia. }
      rewrite <- Eb at 1. apply in_combine_nth.
      - unfold bks. rewrite map_length, seq_length. lia.
      - unfold bks. rewrite map_length, seq_length. lia. }
    specialize (W8 _ Hcomb). cbn [fst snd] in W8. rewrite forallb_forall in W8.
    specialize (W8 _ Hin). cbn [fst snd] in W8. apply N.eqb_eq in W8. exact W8. }
  set (c := fun b => map fst (nth (N.to_nat b) chains [])).
  assert (Elive : live0 = live s c).
  { unfold live0, live, c.
    exact (hd_live_chains (mkHDoc [] chains [] [] true) (hcap s) HLc). }
  assert (NDl : NoDup live0) by (apply NoDup_app_l in W1; exact W1).
  assert (Hchlen : forall b, b < hcap s -> (length (c b) < S (length (hnodes s)))%nat).
  { intros b Hlt. pose proof (length_flat_map_le c (bks (hcap s)) b (proj2 (bks_In _ _) Hlt)) as Hle.
    fold (live s c) in Hle. rewrite <- Elive in Hle. unfold len in HL. lia. }
  assert (Hsl : live0 = hslots s).
  { rewrite Elive. unfold hslots, live. apply flat_map_ext_in. intros b Hin. apply bks_In in Hin.
    symmetry. apply cwalk_lseg.
    - apply Hb. exact Hin.
    - intros i Hi. assert (1 <= i < hseq s); [|lia]. apply HR. apply in_or_app. left.
      rewrite Elive. unfold live. apply in_flat_map_bks. exists b. split; assumption.
    - apply Hchlen. exact Hin. }
  assert (Hmem : map snd (concat chains) = map (val (hnodes s)) live0).
  { unfold live0. rewrite map_map. apply map_ext_in. intros [i v] Hin. cbn [fst snd].
    apply in_concat in Hin. destruct Hin as [ch [Hch1 Hch2]].
    destruct (In_nth _ _ [] Hch1) as [k [Hk Ek]]. rewrite HLc in Hk.
    destruct (Hb (N.of_nat k) ltac:(lia)) as [_ B]. rewrite Nat2N.id, Ek in B.
    apply (B i v Hch2). }
  assert (Hcnt : N.of_nat (length live0 + length fr) + 1 = hseq s) by lia.
  assert (Full : forall i, 1 <= i < hseq s -> In i (live0 ++ fr)).
  { apply pigeon_full; [exact W1|exact HR|]. rewrite app_length. exact Hcnt. }
  split; [reflexivity|]. split; [exact HL|]. split; [lia|]. split; [exact HLc|].
  split.
  { intros b Hlt. destruct (Hb b Hlt) as [A B]. split; [exact A|].
    intros i v Hin. destruct (B i v Hin) as [_ [B2 B3]]. split; assumption. }
  split; [exact Hsl|]. split; [unfold hmembers; rewrite <- Hsl; exact Hmem|].
  split; [exact Hmem|]. split; [exact NDl|]. split; [exact W7|]. split; [lia|].
  split; [exact Hseg|].
  split.
  { intros i Hi. rewrite forallb_forall in W10. specialize (W10 i Hi).
    destruct (hrec_at s i) as [n|] eqn:En; [|discriminate]. apply hrec_at_some in En.
    destruct En as [_ ->]. apply Z.eqb_eq in W10. exact W10. }
  split.
  { intros i. rewrite filter_In, slots_upto_In, N.leb_le. tauto. }
  split.
  { intros i Hi. rewrite forallb_forall in W9. specialize (W9 i Hi).
    destruct (hrec_at s i) as [n|] eqn:En; [|discriminate]. apply hrec_at_some in En.
    destruct En as [_ ->]. apply andb_true_iff in W9. destruct W9 as [A B].
    apply N.eqb_eq in A. apply Z.eqb_eq in B. split; assumption. }
  split.
  { rewrite app_assoc. apply nodup_app_intro.
    - exact W1.
    - apply NoDup_filter. apply slots_upto_NoDup.
    - intros x Hx Hf. apply filter_In in Hf. destruct Hf as [_ Hq]. apply N.leb_le in Hq.
      specialize (HR x Hx). lia. }
  split.
  { intros i. rewrite app_assoc, in_app_iff, filter_In, slots_upto_In, N.leb_le. split.
    - intros [Hi|Hi]; [specialize (HR i Hi); lia | lia].
    - intros Hi. destruct (N.lt_ge_cases i (hseq s)) as [Hlt|Hge].
      + left. apply Full. lia.
      + right. lia. }
  split; [|exact Hcnt].
  intros i. split; [apply HR|apply Full].
Qed.

(* ---------- with the two unchecked clauses added: the invariant ---------- *)
Theorem hd_wf_hinv bs d s : hdecode_doc vty hash64 bs = Some d -> hd_wf d = true ->
  hdecode vty bs = Some s ->
  lseg (hnodes s) (hflh s) (hd_free d) (hseq s) -> hcap s + 1 < 4294967296 ->
  hinv_g s (hd_chain d) (hd_free d) /\ live s (hd_chain d) = hd_live d.
Proof.
  intros H W Hd Hfree Hcap.
  destruct (hd_wf_sound bs d H W) as [s0 [Hd0 [_ [HL [HS [HLc [Hb [Hsl [_ [Hmem [NDl [NDm [Hsz [_ [Hfv
    [Hnv [Hnz [ND [_ [HR Hcnt]]]]]]]]]]]]]]]]]]]].
  rewrite Hd in Hd0. injection Hd0 as <-.
  assert (Elive : live s (hd_chain d) = hd_live d).
  { unfold live. symmetry. apply hd_live_chains. exact HLc. }
  split; [|exact Elive].
  constructor; rewrite ?Elive.
  - exact HL.
  - exact Hcap.
  - exact HS.
  - intros b Hlt. apply Hb. exact Hlt.
  - intros b i Hlt Hi. unfold hd_chain in Hi. apply in_map_iff in Hi.
    destruct Hi as [[j v] [E Hin]]. cbn [fst] in E. subst j.
    destruct (Hb b Hlt) as [_ B]. destruct (B i v Hin) as [-> B2]. exact B2.
  - exact Hfree.
  - exact Hfv.
  - intros i Hi. apply HR. exact Hi.
  - rewrite app_assoc in ND. apply NoDup_app_l in ND. exact ND.
  - exact Hcnt.
  - intros i Hi. destruct (N.le_gt_cases i (hcap s)) as [Hle|Hgt].
    + apply Hnz. apply Hnv. lia.
    + unfold nxt, val. rewrite slot_beyond by lia. split; reflexivity.
  - rewrite <- Hmem. exact NDm.
  - exact Hsz.
Qed.

End Sound.

(* ---------- the unchecked clause matters ---------- *)
(* capacity 2, nothing stored, cursor 1, but the free-list head word says 2:
   the reader follows 0 links from it and is satisfied; the invariant is not
   (the empty free list must start at the cursor), and [add_node] would hand
   out record 2 while the cursor stays at 1 *)
Definition rs_u32 : fty := {| fsz := 4; fsigned := false |}.
Definition rs_bad : hst := mkHS 0 2 2 1 [hnode0; hnode0].

Example hd_wf_not_hinv :
  (exists d, hdecode_doc rs_u32 (fun _ => 0) (hencode rs_u32 rs_bad) = Some d /\ hd_wf d = true) /\
  ~ hinv (fun _ => 0) rs_bad.
Proof.
  split.
  - eexists. split; vm_compute; reflexivity.
  - intros [c [fr I]]. pose proof (ig_free _ _ _ _ I) as F. pose proof (ig_range _ _ _ _ I) as R.
    destruct fr as [|k fr].
    + cbn [lseg] in F. discriminate F.
    + assert (1 <= k < hseq rs_bad) as Hk by (apply R; apply in_or_app; right; left; reflexivity).
      cbn [hseq rs_bad] in Hk. lia.
Qed.

Print Assumptions hnodupb_iff.
Print Assumptions znodupb_iff.
Print Assumptions hd_wf_sound.
Print Assumptions hd_wf_hinv.
Print Assumptions hd_wf_not_hinv.
