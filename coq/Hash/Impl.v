(* Layer C for src/collections/hash_set.rs.  Parametric in the 64-bit hash
   function [hash64] of the value type (DefaultHasher = SipHash-1-3 with zero
   keys for the real types; see Base/Sip.v). *)
From Coq Require Import List NArith ZArith Bool.
From Stevia Require Import Base.Res.
Import ListNotations.
Open Scope N_scope.

Record hnode := mkH { hb : N; hn : N; hv : Z }.
Definition hnode0 := mkH 0 0 0%Z.
Record hst := mkHS { hsize : N; hcap : N; hflh : N; hseq : N; hnodes : list hnode }.

Definition hset_b (n : hnode) x := mkH x (hn n) (hv n).
Definition hset_n (n : hnode) x := mkH (hb n) x (hv n).
Definition hset_v (n : hnode) x := mkH (hb n) (hn n) x.

Definition hwith_nodes s ns := mkHS (hsize s) (hcap s) (hflh s) (hseq s) ns.
Definition hwith_size s x := mkHS x (hcap s) (hflh s) (hseq s) (hnodes s).
Definition hwith_flh s x := mkHS (hsize s) (hcap s) x (hseq s) (hnodes s).
Definition hwith_seq s x := mkHS (hsize s) (hcap s) (hflh s) x (hnodes s).

(* bucket_node!(array, index) = array[index as usize] *)
Definition getb (ns : list hnode) (i : N) : res hnode :=
  match nth_error ns (N.to_nat i) with Some n => Ok n | None => Panic POob end.
Definition setb (ns : list hnode) (i : N) (x : hnode) : res (list hnode) :=
  if (N.to_nat i <? length ns)%nat then Ok (set_nth ns (N.to_nat i) x) else Panic POob.
(* node!(array, index) = array[(index - 1) as usize] *)
Definition hgetn (ns : list hnode) (i : N) : res hnode :=
  if i =? 0 then Panic PArith else getb ns (i - 1).
Definition hsetn (ns : list hnode) (i : N) (x : hnode) : res (list hnode) :=
  if i =? 0 then Panic PArith else setb ns (i - 1) x.

Definition u32max : N := 2 ^ 32.
Definition cadd32 (a b : N) : res N := if a + b <? u32max then Ok (a + b) else Panic PArith.
Definition csub32 (a b : N) : res N := if b <=? a then Ok (a - b) else Panic PArith.

Section Hash.
Variable hash64 : Z -> N.

(* hasher.finish() as u32 % capacity *)
Definition bucket_of (s : hst) (v : Z) : res N :=
  if hcap s =? 0 then Panic PDivZero else Ok ((hash64 v mod u32max) mod hcap s).

Definition hcapacity (s : hst) := hcap s.
Definition hsize_of (s : hst) := hsize s.
Definition his_full (s : hst) : bool := hcap s <=? hsize s.
Definition his_empty (s : hst) : bool := hsize s =? 0.

Definition hfuel (s : hst) : nat := S (length (hnodes s)).

Fixpoint chain_find (fuel : nat) (ns : list hnode) (v : Z) (cur : N) : res bool :=
  match fuel with
  | O => Fuel
  | S f =>
    if cur =? 0 then Ok false else
    n <- hgetn ns cur ;;
    if (hv n =? v)%Z then Ok true else chain_find f ns v (hn n)
  end.

Definition hcontains (s : hst) (v : Z) : res bool :=
  (* repair of D7: an empty set (in particular an all-zero buffer, whose
     capacity word is 0) contains nothing *)
  if his_empty s then Ok false else
  index <- bucket_of s v ;;
  b <- getb (hnodes s) index ;;
  chain_find (hfuel s) (hnodes s) v (hb b).

Definition hinitialize (s : hst) (capacity : N) : hst :=
  mkHS 0 capacity 1 1 (hnodes s).

Definition add_node (s : hst) (v : Z) : res (hst * N) :=
  let free_node := hflh s in
  let sequence := hseq s in
  s1 <- (if free_node =? sequence then
           sm1 <- csub32 sequence 1 ;;
           if sm1 =? hcap s then Panic PExplicit else
           sq <- cadd32 sequence 1 ;;
           Ok (hwith_flh (hwith_seq s sq) sq)
         else
           n <- hgetn (hnodes s) free_node ;;
           Ok (hwith_flh s (hn n))) ;;
  n <- hgetn (hnodes s1) free_node ;;
  ns <- hsetn (hnodes s1) free_node (mkH (hb n) 0 v) ;;
  sz <- cadd32 (hsize s1) 1 ;;
  Ok (hwith_size (hwith_nodes s1 ns) sz, free_node).

Definition hremove_node (s : hst) (index : N) : res (hst * option Z) :=
  if index =? 0 then Ok (s, None) else
  n <- hgetn (hnodes s) index ;;
  ns <- hsetn (hnodes s) index (mkH (hb n) (hflh s) 0%Z) ;;
  sz <- csub32 (hsize s) 1 ;;
  Ok (hwith_size (hwith_flh (hwith_nodes s ns) index) sz, Some (hv n)).

Definition hinsert (s : hst) (v : Z) : res (hst * bool) :=
  if hsize s =? hcap s then Ok (s, false) else
  index <- bucket_of s v ;;
  b <- getb (hnodes s) index ;;
  let head := hb b in
  present <- chain_find (hfuel s) (hnodes s) v head ;;
  if present then Ok (s, false) else
  '(s1, node) <- add_node s v ;;
  b1 <- getb (hnodes s1) index ;;
  ns1 <- setb (hnodes s1) index (hset_b b1 node) ;;
  n <- hgetn ns1 node ;;
  ns2 <- hsetn ns1 node (hset_n n head) ;;
  Ok (hwith_nodes s1 ns2, true).

(* the loop of [remove]: returns Some (previous, current, next-of-current)
   when the value is found *)
Fixpoint chain_locate (fuel : nat) (ns : list hnode) (v : Z) (cur prev : N)
  : res (option (N * N * N)) :=
  match fuel with
  | O => Fuel
  | S f =>
    if cur =? 0 then Ok None else
    n <- hgetn ns cur ;;
    if (hv n =? v)%Z then Ok (Some (prev, cur, hn n)) else chain_locate f ns v (hn n) cur
  end.

Definition hremove (s : hst) (v : Z) : res (hst * bool) :=
  if his_empty s then Ok (s, false) else
  index <- bucket_of s v ;;
  b <- getb (hnodes s) index ;;
  loc <- chain_locate (hfuel s) (hnodes s) v (hb b) 0 ;;
  match loc with
  | None => Ok (s, false)
  | Some (previous, current, next) =>
    ns1 <- (if previous =? 0 then
              (* repair of D1: the bucket head becomes the removed node's
                 successor (upstream stored SENTINEL, dropping the chain) *)
              b1 <- getb (hnodes s) index ;; setb (hnodes s) index (hset_b b1 next)
            else
              p <- hgetn (hnodes s) previous ;; hsetn (hnodes s) previous (hset_n p next)) ;;
    '(s2, r) <- hremove_node (hwith_nodes s ns1) current ;;
    Ok (s2, match r with Some _ => true | None => false end)
  end.

(* HashSetIterator::next iterated to exhaustion.  State (bucket, node). *)
Fixpoint iter_loop (fuel : nat) (s : hst) (bucket node : N) (acc : list Z) : res (list Z) :=
  match fuel with
  | O => Fuel
  | S f =>
    if bucket <=? hcap s then
      if node =? 0 then
        (* while self.node == SENTINEL { bucket += 1; ... } : one turn *)
        b1 <- cadd32 bucket 1 ;;
        if hcap s <? b1 then Ok acc else
        n <- hgetn (hnodes s) b1 ;;
        iter_loop f s b1 (hb n) acc
      else
        n <- hgetn (hnodes s) node ;;
        iter_loop f s bucket (hn n) (acc ++ [hv n])
    else Ok acc
  end.

Definition hiter (s : hst) : res (list Z) :=
  iter_loop (S (S (length (hnodes s) + length (hnodes s)))) s 0 0 [].

End Hash.
