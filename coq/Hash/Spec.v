(* Layer S for the hash set: a capacity-bounded set of values, kept as a
   strictly sorted list (canonical form), and the shared operation language. *)
From Coq Require Import List NArith ZArith Bool.
From Stevia Require Import Base.Res Hash.Impl.
Import ListNotations.
Open Scope N_scope.

Inductive hop :=
| HInsert (v : Z) | HRemove (v : Z) | HContains (v : Z)
| HSize | HIsFull | HIsEmpty | HCapacity | HIter | HReopen.

Inductive hout := HBool (b : bool) | HNum (n : N) | HList (l : list Z) | HUnit.

Fixpoint zs_mem (m : list Z) (v : Z) : bool :=
  match m with [] => false | x :: r => (v =? x)%Z || zs_mem r v end.
Fixpoint zs_insert (m : list Z) (v : Z) : list Z :=
  match m with
  | [] => [v]
  | x :: r => if (v <? x)%Z then v :: m else if (v =? x)%Z then m else x :: zs_insert r v
  end.
Fixpoint zs_remove (m : list Z) (v : Z) : list Z :=
  match m with [] => [] | x :: r => if (v =? x)%Z then r else x :: zs_remove r v end.

(* insertion sort, to canonicalise an iteration order *)
Definition zs_sort (l : list Z) : list Z := fold_left zs_insert l [].

Record hsst := mkHSS { hscap : N; hsmem : list Z }.
Definition hs_len (s : hsst) : N := N.of_nat (length (hsmem s)).

Definition hspec_step (s : hsst) (o : hop) : hsst * hout :=
  match o with
  | HInsert v =>
    if zs_mem (hsmem s) v || (hscap s <=? hs_len s) then (s, HBool false)
    else (mkHSS (hscap s) (zs_insert (hsmem s) v), HBool true)
  | HRemove v => (mkHSS (hscap s) (zs_remove (hsmem s) v), HBool (zs_mem (hsmem s) v))
  | HContains v => (s, HBool (zs_mem (hsmem s) v))
  | HSize => (s, HNum (hs_len s))
  | HIsFull => (s, HBool (hscap s <=? hs_len s))
  | HIsEmpty => (s, HBool (hs_len s =? 0))
  | HCapacity => (s, HNum (hscap s))
  | HIter => (s, HList (hsmem s))
  | HReopen => (s, HUnit)
  end.

Section H.
Variable hash64 : Z -> N.

Definition hstep_c (s : hst) (o : hop) : res (hst * hout) :=
  match o with
  | HInsert v => '(s', b) <- hinsert hash64 s v ;; Ok (s', HBool b)
  | HRemove v => '(s', b) <- hremove hash64 s v ;; Ok (s', HBool b)
  | HContains v => b <- hcontains hash64 s v ;; Ok (s, HBool b)
  | HSize => Ok (s, HNum (hsize_of s))
  | HIsFull => Ok (s, HBool (his_full s))
  | HIsEmpty => Ok (s, HBool (his_empty s))
  | HCapacity => Ok (s, HNum (hcapacity s))
  | HIter => l <- hiter s ;; Ok (s, HList (zs_sort l))
  | HReopen => Ok (s, HUnit)
  end.

Definition hinit_c (capacity nrec : N) : hst :=
  hinitialize (mkHS 0 0 0 0 (repeat hnode0 (N.to_nat nrec))) capacity.

Fixpoint hrun_c (s : hst) (ops : list hop) : list (res hout) :=
  match ops with
  | [] => []
  | o :: r =>
    match hstep_c s o with
    | Ok (s', x) => Ok x :: hrun_c s' r
    | Panic p => [Panic p]
    | Fuel => [Fuel]
    end
  end.
End H.

Fixpoint hrun_s (s : hsst) (ops : list hop) : list hout :=
  match ops with
  | [] => []
  | o :: r => let '(s', x) := hspec_step s o in x :: hrun_s s' r
  end.
