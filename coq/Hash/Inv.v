(* Representation invariant of the chained hash set, abstraction function,
   the read-only operations (chain_find, chain_locate, hcontains, hiter) and
   the initial state. *)
From Coq Require Import List NArith ZArith Bool Lia Permutation.
From Stevia Require Import Base.Res Hash.Impl Hash.Spec Hash.ZSet Hash.Mem.
Import ListNotations.
Open Scope N_scope.
Arguments N.add : simpl never.
Arguments N.sub : simpl never.
Arguments N.mul : simpl never.
Arguments N.div : simpl never.
Arguments N.modulo : simpl never.
Arguments N.eqb : simpl never.
Arguments N.ltb : simpl never.
Arguments N.leb : simpl never.
Arguments N.pow : simpl never.
Arguments N.of_nat : simpl never.
Arguments N.to_nat : simpl never.
Arguments Z.add : simpl never.
Arguments Z.sub : simpl never.
Arguments Z.ltb : simpl never.
Arguments Z.eqb : simpl never.

Lemma u32max_eq : u32max = 4294967296.
Proof. reflexivity. Qed.

Lemma cadd32_ok a b : a + b < 4294967296 -> cadd32 a b = Ok (a + b).
Proof.
  intros H. unfold cadd32. rewrite u32max_eq. destruct (N.ltb_spec (a + b) 4294967296); auto. lia.
Qed.
Lemma csub32_ok a b : b <= a -> csub32 a b = Ok (a - b).
Proof. intros H. unfold csub32. destruct (N.leb_spec b a); auto. lia. Qed.

(* ---------- ghost-free enumeration of the live slots ---------- *)
Fixpoint cwalk (fuel : nat) (ns : list hnode) (cur : N) : list N :=
  match fuel with
  | O => []
  | S f => if cur =? 0 then [] else cur :: cwalk f ns (nxt ns cur)
  end.

Definition hslots (s : hst) : list N :=
  flat_map (fun b => cwalk (S (length (hnodes s))) (hnodes s) (bkt (hnodes s) b)) (bks (hcap s)).
Definition hmembers (s : hst) : list Z := map (val (hnodes s)) (hslots s).
Definition habs (s : hst) : list Z := zs_sort (hmembers s).

Lemma cwalk_lseg ns l : forall fuel h,
  lseg ns h l 0 -> (forall i, In i l -> i <> 0) -> (length l < fuel)%nat -> cwalk fuel ns h = l.
Proof.
  induction l as [|i r IH]; intros fuel h H NZ F; cbn [lseg length] in *.
  - subst. destruct fuel as [|f]; [lia|]. reflexivity.
  - destruct H as [-> H]. destruct fuel as [|f]; [lia|]. cbn [cwalk].
    destruct (N.eqb_spec i 0) as [E|E]; [exfalso; apply (NZ i); [left|]; auto|].
    f_equal. apply IH; auto; [|lia]. intros j Hj. apply NZ. right; auto.
Qed.

Section Inv.
Variable hash64 : Z -> N.

Definition bucket_ix (cap : N) (v : Z) : N := (hash64 v mod u32max) mod cap.

Definition live (s : hst) (c : N -> list N) : list N := flat_map c (bks (hcap s)).

Record hinv_g (s : hst) (c : N -> list N) (fr : list N) : Prop := mk_hinv_g {
  ig_len : len (hnodes s) = hcap s;
  ig_cap : hcap s + 1 < 4294967296;
  ig_seq : 1 <= hseq s <= hcap s + 1;
  ig_chain : forall b, b < hcap s -> lseg (hnodes s) (bkt (hnodes s) b) (c b) 0;
  ig_buck : forall b i, b < hcap s -> In i (c b) -> bucket_ix (hcap s) (val (hnodes s) i) = b;
  ig_free : lseg (hnodes s) (hflh s) fr (hseq s);
  ig_freev : forall i, In i fr -> val (hnodes s) i = 0%Z;
  ig_range : forall i, In i (live s c ++ fr) -> 1 <= i < hseq s;
  ig_nodup : NoDup (live s c ++ fr);
  ig_count : N.of_nat (length (live s c) + length fr) + 1 = hseq s;
  ig_fresh : forall i, hseq s <= i -> nxt (hnodes s) i = 0 /\ val (hnodes s) i = 0%Z;
  ig_vals : NoDup (map (val (hnodes s)) (live s c));
  ig_size : hsize s = N.of_nat (length (live s c))
}.

Definition hinv (s : hst) : Prop := exists c fr, hinv_g s c fr.

(* ---------- consequences ---------- *)
Section Facts.
Variables (s : hst) (c : N -> list N) (fr : list N).
Hypothesis I : hinv_g s c fr.

Lemma ig_in_live b i : b < hcap s -> In i (c b) -> In i (live s c).
Proof. intros Hb Hi. unfold live. apply in_flat_map_bks. eauto. Qed.

Lemma ig_chain_range b i : b < hcap s -> In i (c b) -> 1 <= i < hseq s.
Proof.
  intros Hb Hi. apply (ig_range _ _ _ I). apply in_or_app. left. eapply ig_in_live; eauto.
Qed.

Lemma ig_chain_range' b i : b < hcap s -> In i (c b) -> 1 <= i <= len (hnodes s).
Proof.
  intros Hb Hi. pose proof (ig_chain_range b i Hb Hi). pose proof (ig_seq _ _ _ I).
  rewrite (ig_len _ _ _ I). lia.
Qed.

Lemma ig_live_le : (N.of_nat (length (live s c)) + N.of_nat (length fr) + 1 = hseq s).
Proof. pose proof (ig_count _ _ _ I). lia. Qed.

Lemma ig_size_le : hsize s <= hcap s.
Proof. pose proof ig_live_le. pose proof (ig_seq _ _ _ I). rewrite (ig_size _ _ _ I). lia. Qed.

Lemma ig_chain_len b : b < hcap s -> (length (c b) < S (length (hnodes s)))%nat.
Proof.
  intros Hb. pose proof (length_flat_map_le c (bks (hcap s)) b (proj2 (bks_In _ _) Hb)) as H.
  fold (live s c) in H. pose proof ig_live_le. pose proof (ig_seq _ _ _ I).
  pose proof (ig_len _ _ _ I) as HL. unfold len in HL. lia.
Qed.

Lemma ig_chain_NoDup b : b < hcap s -> NoDup (c b).
Proof.
  intros Hb. pose proof (ig_nodup _ _ _ I) as ND. apply NoDup_app_l in ND.
  unfold live in ND. revert ND. generalize (proj2 (bks_In _ _) Hb).
  generalize (bks (hcap s)) as L. induction L as [|a L IH]; intros Hin ND; [destruct Hin|].
  cbn [flat_map] in ND. destruct Hin as [->|Hin].
  - apply NoDup_app_l in ND. auto.
  - apply NoDup_app_r in ND. auto.
Qed.

Lemma hslots_eq : hslots s = live s c.
Proof.
  unfold hslots, live. apply flat_map_ext_in. intros b Hb. apply bks_In in Hb.
  apply cwalk_lseg.
  - apply (ig_chain _ _ _ I); auto.
  - intros i Hi. pose proof (ig_chain_range b i Hb Hi). lia.
  - apply ig_chain_len; auto.
Qed.

Lemma hmembers_eq : hmembers s = map (val (hnodes s)) (live s c).
Proof. unfold hmembers. rewrite hslots_eq. reflexivity. Qed.

Lemma habs_eq : habs s = zs_sort (map (val (hnodes s)) (live s c)).
Proof. unfold habs. rewrite hmembers_eq. reflexivity. Qed.

Lemma habs_length : N.of_nat (length (habs s)) = hsize s.
Proof.
  rewrite habs_eq, zs_sort_length by apply (ig_vals _ _ _ I).
  rewrite map_length. symmetry. apply (ig_size _ _ _ I).
Qed.

Lemma habs_In v : In v (habs s) <-> exists i, In i (live s c) /\ val (hnodes s) i = v.
Proof.
  rewrite habs_eq, zs_sort_In, in_map_iff. split; intros [i [H1 H2]]; exists i; auto.
Qed.

(* a member's slot lies in the chain of the bucket its value hashes to *)
Lemma ig_member_bucket i : In i (live s c) ->
  In i (c (bucket_ix (hcap s) (val (hnodes s) i))) /\ bucket_ix (hcap s) (val (hnodes s) i) < hcap s.
Proof.
  intros Hi. unfold live in Hi. apply in_flat_map_bks in Hi. destruct Hi as [b [Hb Hi]].
  rewrite (ig_buck _ _ _ I b i Hb Hi). auto.
Qed.

Lemma habs_In_bucket v : hcap s <> 0 ->
  In v (habs s) <-> exists i, In i (c (bucket_ix (hcap s) v)) /\ val (hnodes s) i = v.
Proof.
  intros Hc. rewrite habs_In. split.
  - intros [i [Hi Hv]]. exists i. split; auto. rewrite <- Hv. apply ig_member_bucket; auto.
  - intros [i [Hi Hv]]. exists i. split; auto. eapply ig_in_live; eauto.
    unfold bucket_ix. apply N.mod_lt. auto.
Qed.

End Facts.

(* ---------- chain_find / chain_locate ---------- *)
Lemma chain_find_spec ns v l : forall fuel h,
  lseg ns h l 0 -> (forall i, In i l -> 1 <= i <= len ns) -> (length l < fuel)%nat ->
  chain_find fuel ns v h = Ok (existsb (fun i => (val ns i =? v)%Z) l).
Proof.
  induction l as [|i r IH]; intros fuel h H R F; cbn [lseg length existsb] in *.
  - subst. destruct fuel as [|f]; [lia|]. reflexivity.
  - destruct H as [-> H]. destruct fuel as [|f]; [lia|]. cbn [chain_find].
    assert (1 <= i <= len ns) as Ri by (apply R; left; auto).
    destruct (N.eqb_spec i 0) as [E|E]; [lia|].
    rewrite hgetn_ok by auto. cbn [bind]. fold (val ns i).
    destruct (val ns i =? v)%Z; cbn [orb]; auto.
    fold (nxt ns i). apply IH; auto; [|lia]. intros j Hj. apply R. right; auto.
Qed.

Lemma chain_locate_none ns v l : forall fuel h prev,
  lseg ns h l 0 -> (forall i, In i l -> 1 <= i <= len ns) -> (length l < fuel)%nat ->
  (forall i, In i l -> val ns i <> v) ->
  chain_locate fuel ns v h prev = Ok None.
Proof.
  induction l as [|i r IH]; intros fuel h prev H R F NV; cbn [lseg length] in *.
  - subst. destruct fuel as [|f]; [lia|]. reflexivity.
  - destruct H as [-> H]. destruct fuel as [|f]; [lia|]. cbn [chain_locate].
    assert (1 <= i <= len ns) as Ri by (apply R; left; auto).
    destruct (N.eqb_spec i 0) as [E|E]; [lia|].
    rewrite hgetn_ok by auto. cbn [bind]. fold (val ns i).
    destruct (Z.eqb_spec (val ns i) v) as [Ev|Ev].
    + exfalso. apply (NV i); [left|]; auto.
    + fold (nxt ns i). apply IH; auto; [|lia|].
      * intros j Hj. apply R. right; auto.
      * intros j Hj. apply NV. right; auto.
Qed.

Lemma last_cons {A} (r : list A) : forall i d, last (i :: r) d = last r i.
Proof.
  induction r as [|a r IH]; intros i d; [reflexivity|].
  change (last (i :: a :: r) d) with (last (a :: r) d). rewrite !IH. reflexivity.
Qed.

Lemma chain_locate_some ns v l1 : forall fuel h prev cur l2,
  lseg ns h (l1 ++ cur :: l2) 0 -> (forall i, In i (l1 ++ cur :: l2) -> 1 <= i <= len ns) ->
  (length (l1 ++ cur :: l2) < fuel)%nat ->
  (forall i, In i l1 -> val ns i <> v) -> val ns cur = v ->
  chain_locate fuel ns v h prev = Ok (Some (last l1 prev, cur, nxt ns cur)).
Proof.
  induction l1 as [|i r IH]; intros fuel h prev cur l2 H R F NV Hv.
  - cbn [app lseg length last] in *. destruct H as [-> H]. destruct fuel as [|f]; [lia|].
    cbn [chain_locate].
    assert (1 <= cur <= len ns) as Ri by (apply R; left; auto).
    destruct (N.eqb_spec cur 0) as [E|E]; [lia|].
    rewrite hgetn_ok by auto. cbn [bind]. fold (val ns cur). fold (nxt ns cur).
    destruct (Z.eqb_spec (val ns cur) v) as [Ev|Ev]; [reflexivity|congruence].
  - cbn [app lseg length] in *. destruct H as [-> H]. destruct fuel as [|f]; [lia|].
    cbn [chain_locate].
    assert (1 <= i <= len ns) as Ri by (apply R; left; auto).
    destruct (N.eqb_spec i 0) as [E|E]; [lia|].
    rewrite hgetn_ok by auto. cbn [bind]. fold (val ns i). fold (nxt ns i).
    destruct (Z.eqb_spec (val ns i) v) as [Ev|Ev].
    + exfalso. apply (NV i); [left|]; auto.
    + rewrite (IH f (nxt ns i) i cur l2); auto.
      * rewrite last_cons. reflexivity.
      * intros j Hj. apply R. right; auto.
      * lia.
      * intros j Hj. apply NV. right; auto.
Qed.

(* first occurrence of a value in a chain *)
Lemma first_split ns v (l : list N) :
  (forall i, In i l -> val ns i <> v) \/
  exists l1 cur l2, l = l1 ++ cur :: l2 /\ (forall i, In i l1 -> val ns i <> v) /\ val ns cur = v.
Proof.
  induction l as [|i r IH].
  - left. intros i [].
  - destruct (Z.eq_dec (val ns i) v) as [E|E].
    + right. exists [], i, r. split; auto.
    + destruct IH as [IH|[l1 [cur [l2 [-> [H1 H2]]]]]].
      * left. intros j [<-|Hj]; auto.
      * right. exists (i :: l1), cur, l2. split; auto. split; auto.
        intros j [<-|Hj]; auto.
Qed.

Lemma existsb_val_false ns v (l : list N) :
  existsb (fun i => (val ns i =? v)%Z) l = false <-> (forall i, In i l -> val ns i <> v).
Proof.
  split.
  - intros H i Hi Hv. assert (existsb (fun i => (val ns i =? v)%Z) l = true) as T.
    { apply existsb_exists. exists i. split; auto. apply Z.eqb_eq; auto. }
    congruence.
  - intros H. destruct (existsb (fun i => (val ns i =? v)%Z) l) eqn:E; auto.
    apply existsb_exists in E. destruct E as [i [Hi Hv]]. apply Z.eqb_eq in Hv.
    exfalso. eapply H; eauto.
Qed.

Lemma existsb_val_true ns v (l : list N) :
  existsb (fun i => (val ns i =? v)%Z) l = true <-> (exists i, In i l /\ val ns i = v).
Proof.
  rewrite existsb_exists. split; intros [i [H1 H2]]; exists i; split; auto; apply Z.eqb_eq; auto.
Qed.

(* ---------- bucket_of and the search phase ---------- *)
Lemma bucket_of_ok s v : hcap s <> 0 ->
  bucket_of hash64 s v = Ok (bucket_ix (hcap s) v) /\ bucket_ix (hcap s) v < hcap s.
Proof.
  intros H. unfold bucket_of, bucket_ix. destruct (N.eqb_spec (hcap s) 0); [congruence|].
  split; auto. apply N.mod_lt. auto.
Qed.

Lemma zs_mem_habs s c fr v : hinv_g s c fr -> hcap s <> 0 ->
  zs_mem (habs s) v = existsb (fun i => (val (hnodes s) i =? v)%Z) (c (bucket_ix (hcap s) v)).
Proof.
  intros I Hc.
  destruct (existsb (fun i => (val (hnodes s) i =? v)%Z) (c (bucket_ix (hcap s) v))) eqn:E.
  - apply zs_mem_In. apply (habs_In_bucket s c fr I v Hc). apply existsb_val_true; auto.
  - apply zs_mem_false. intros Hin. apply (habs_In_bucket s c fr I v Hc) in Hin.
    apply existsb_val_true in Hin. congruence.
Qed.

Lemma search_find s c fr v : hinv_g s c fr -> hcap s <> 0 ->
  chain_find (hfuel s) (hnodes s) v (bkt (hnodes s) (bucket_ix (hcap s) v)) = Ok (zs_mem (habs s) v).
Proof.
  intros I Hc. rewrite (zs_mem_habs s c fr v I Hc).
  destruct (bucket_of_ok s v Hc) as [_ Hb].
  apply chain_find_spec.
  - apply (ig_chain _ _ _ I); auto.
  - intros i Hi. eapply ig_chain_range'; eauto.
  - unfold hfuel. eapply ig_chain_len; eauto.
Qed.

Theorem hcontains_spec s v : hinv s -> hcontains hash64 s v = Ok (zs_mem (habs s) v).
Proof.
  intros [c [fr I]]. unfold hcontains, his_empty.
  destruct (N.eqb_spec (hsize s) 0) as [E|E].
  - pose proof (habs_length s c fr I) as HL. rewrite E in HL.
    destruct (habs s) as [|x r]; [reflexivity|]. cbn [length] in HL. lia.
  - assert (hcap s <> 0) as Hc by (pose proof (ig_size_le s c fr I); lia).
    destruct (bucket_of_ok s v Hc) as [-> Hb]. cbn [bind].
    rewrite getb_ok by (rewrite (ig_len _ _ _ I); auto). cbn [bind].
    apply (search_find s c fr v I Hc).
Qed.

(* ---------- initial state ---------- *)
Lemma rec_repeat0 n i : rec (repeat hnode0 n) i = hnode0.
Proof.
  unfold rec. destruct (Nat.lt_ge_cases (N.to_nat i) n) as [H|H].
  - apply nth_repeat.
  - apply nth_overflow. rewrite repeat_length. lia.
Qed.

Lemma slot_repeat0 n i : slot (repeat hnode0 n) i = hnode0.
Proof. unfold slot. destruct (i =? 0); auto. apply rec_repeat0. Qed.

Lemma flat_map_nil {A B} (L : list A) : flat_map (fun _ => @nil B) L = [].
Proof. induction L; cbn [flat_map]; auto. Qed.

Theorem hinv_init cap : cap + 1 < 4294967296 ->
  hinv_g (hinit_c cap cap) (fun _ => []) [].
Proof.
  intros H. unfold hinit_c, hinitialize. cbn [hnodes].
  constructor; unfold live; cbn [hnodes hcap hseq hflh hsize]; rewrite ?flat_map_nil.
  - unfold len. rewrite repeat_length. lia.
  - auto.
  - lia.
  - intros b Hb. cbn [lseg]. unfold bkt. rewrite rec_repeat0. reflexivity.
  - intros b i _ [].
  - cbn [lseg]. reflexivity.
  - intros i [].
  - intros i [].
  - constructor.
  - reflexivity.
  - intros i _. unfold nxt, val. rewrite slot_repeat0. auto.
  - constructor.
  - reflexivity.
Qed.

Lemma habs_init cap : cap + 1 < 4294967296 -> habs (hinit_c cap cap) = [].
Proof.
  intros H. rewrite (habs_eq _ _ _ (hinv_init cap H)). unfold live. rewrite flat_map_nil. reflexivity.
Qed.

(* ---------- iteration ---------- *)
Lemma iter_chain s l : forall f k h acc,
  k <= hcap s -> h = h ->
  lseg (hnodes s) h l 0 -> (forall i, In i l -> 1 <= i <= len (hnodes s)) ->
  iter_loop (length l + f) s k h acc = iter_loop f s k 0 (acc ++ map (val (hnodes s)) l).
Proof.
  induction l as [|i r IH]; intros f k h acc Hk _ H R; cbn [lseg length map] in *.
  - subst. rewrite app_nil_r. reflexivity.
  - destruct H as [-> H]. cbn [plus iter_loop].
    assert (1 <= i <= len (hnodes s)) as Ri by (apply R; left; auto).
    destruct (N.leb_spec k (hcap s)); [|lia].
    destruct (N.eqb_spec i 0); [lia|].
    rewrite hgetn_ok by auto. cbn [bind]. fold (val (hnodes s) i). fold (nxt (hnodes s) i).
    rewrite IH; auto; [|intros j Hj; apply R; right; auto]. rewrite <- app_assoc. reflexivity.
Qed.

Lemma iter_buckets s c fr : hinv_g s c fr -> forall d k f acc,
  (k + d = N.to_nat (hcap s))%nat ->
  (1 + d + length (flat_map c (map N.of_nat (seq k d))) <= f)%nat ->
  iter_loop f s (N.of_nat k) 0 acc =
  Ok (acc ++ map (val (hnodes s)) (flat_map c (map N.of_nat (seq k d)))).
Proof.
  intros I. induction d as [|d IH]; intros k f acc Hk Hf.
  - cbn [seq map flat_map length] in *. destruct f as [|f]; [lia|]. cbn [iter_loop].
    destruct (N.leb_spec (N.of_nat k) (hcap s)); [|lia].
    cbn [N.eqb]. change (0 =? 0) with true. cbv iota.
    pose proof (ig_cap _ _ _ I). rewrite cadd32_ok by lia. cbn [bind].
    destruct (N.ltb_spec (hcap s) (N.of_nat k + 1)); [|lia]. rewrite app_nil_r. reflexivity.
  - cbn [seq map flat_map] in *. rewrite app_length in Hf.
    destruct f as [|f]; [lia|]. cbn [iter_loop].
    destruct (N.leb_spec (N.of_nat k) (hcap s)); [|lia].
    change (0 =? 0) with true. cbv iota.
    pose proof (ig_cap _ _ _ I). rewrite cadd32_ok by lia. cbn [bind].
    destruct (N.ltb_spec (hcap s) (N.of_nat k + 1)); [lia|].
    rewrite hgetn_ok by (rewrite (ig_len _ _ _ I); lia). cbn [bind].
    rewrite slot_rec by lia. replace (N.of_nat k + 1 - 1) with (N.of_nat k) by lia.
    fold (bkt (hnodes s) (N.of_nat k)).
    assert (N.of_nat k < hcap s) as Hb by lia.
    replace f with (length (c (N.of_nat k)) + (f - length (c (N.of_nat k))))%nat by lia.
    rewrite (iter_chain s (c (N.of_nat k))); auto.
    + replace (N.of_nat k + 1) with (N.of_nat (S k)) by lia.
      rewrite IH; try lia. rewrite map_app, app_assoc. reflexivity.
    + apply (ig_chain _ _ _ I); auto.
    + intros i Hi. eapply ig_chain_range'; eauto.
Qed.

Theorem hiter_spec s c fr : hinv_g s c fr -> hiter s = Ok (hmembers s).
Proof.
  intros I. unfold hiter. rewrite (hmembers_eq s c fr I). unfold live, bks.
  change 0 with (N.of_nat 0) at 1.
  rewrite (iter_buckets s c fr I (N.to_nat (hcap s)) 0); auto.
  pose proof (ig_live_le s c fr I) as HL. unfold live, bks in HL.
  pose proof (ig_seq _ _ _ I). pose proof (ig_len _ _ _ I) as HN. unfold len in HN. lia.
Qed.

End Inv.
