(* Step refinement of the chained hash set: hinsert / hremove preserve the
   invariant and act on the abstract member list as set insert / remove. *)
From Coq Require Import List NArith ZArith Bool Lia Permutation.
From Stevia Require Import Base.Res Hash.Impl Hash.Spec Hash.ZSet Hash.Mem Hash.Inv.
Import ListNotations.
Open Scope N_scope.
Arguments N.add : simpl never.
Arguments N.sub : simpl never.
Arguments N.mul : simpl never.
Arguments N.div : simpl never.
Arguments N.modulo : simpl never.
Arguments N.eqb : simpl never.
Arguments N.ltb : simpl never.
Arguments N.leb : simpl never.
Arguments N.pow : simpl never.
Arguments N.of_nat : simpl never.
Arguments N.to_nat : simpl never.
Arguments Z.add : simpl never.
Arguments Z.sub : simpl never.
Arguments Z.ltb : simpl never.
Arguments Z.eqb : simpl never.

Section Refine.
Variable hash64 : Z -> N.
Notation hinv_g := (hinv_g hash64).
Notation hinv := (hinv hash64).
Notation bucket_ix := (bucket_ix hash64).

(* ================= allocation ================= *)
Lemma add_node_spec s c fr v : hinv_g s c fr -> hsize s < hcap s ->
  exists fr' sq fl,
    add_node s v = Ok (mkHS (hsize s + 1) (hcap s) fl sq (upd_s (hnodes s) (hflh s) 0 v), hflh s) /\
    NoDup (hflh s :: live s c ++ fr') /\
    (forall i, In i (hflh s :: live s c ++ fr') -> 1 <= i < sq) /\
    N.of_nat (length (live s c) + length fr') + 2 = sq /\
    lseg (hnodes s) fl fr' sq /\
    (forall i, sq <= i -> nxt (hnodes s) i = 0 /\ val (hnodes s) i = 0%Z) /\
    sq <= hcap s + 1 /\
    (forall i, In i fr' -> val (hnodes s) i = 0%Z) /\
    ((fr = hflh s :: fr' /\ sq = hseq s /\ fl = nxt (hnodes s) (hflh s)) \/
     (fr = [] /\ fr' = [] /\ hflh s = hseq s /\ sq = hseq s + 1 /\ fl = hseq s + 1)).
Proof.
  intros I Hsz.
  pose proof (ig_len _ _ _ _ I) as HL. pose proof (ig_cap _ _ _ _ I) as HC.
  pose proof (ig_seq _ _ _ _ I) as HS. pose proof (ig_live_le _ _ _ _ I) as HN.
  pose proof (ig_size _ _ _ _ I) as HZ. pose proof (ig_free _ _ _ _ I) as HF.
  pose proof (ig_range _ _ _ _ I) as HR. pose proof (ig_nodup _ _ _ _ I) as HD.
  unfold add_node. destruct fr as [|k fr'].
  - cbn [lseg] in HF. cbn [length] in HN.
    exists [], (hseq s + 1), (hseq s + 1).
    destruct (N.eqb_spec (hflh s) (hseq s)) as [E|E]; [|congruence].
    rewrite csub32_ok by lia. cbn [bind].
    destruct (N.eqb_spec (hseq s - 1) (hcap s)) as [E1|E1]; [lia|].
    rewrite cadd32_ok by lia. cbn [bind hwith_flh hwith_seq hnodes hsize hcap hflh hseq].
    rewrite hgetn_ok by lia. cbn [bind].
    rewrite hsetn_upd_s by lia. cbn [bind].
    rewrite cadd32_ok by lia. cbn [bind]. unfold hwith_size, hwith_nodes.
    cbn [hnodes hsize hcap hflh hseq]. rewrite E.
    split; [reflexivity|]. rewrite app_nil_r in *.
    split.
    { constructor; auto. intros Hin. apply HR in Hin. lia. }
    split.
    { intros i [<-|Hi]; [lia|]. apply HR in Hi. lia. }
    split; [cbn [length]; lia|].
    split; [cbn [lseg]; reflexivity|].
    split.
    { intros i Hi. apply (ig_fresh _ _ _ _ I). lia. }
    split; [lia|].
    split; [intros i []|].
    right. repeat split; auto.
  - cbn [lseg] in HF. destruct HF as [Hk HF]. cbn [length] in HN.
    assert (1 <= k < hseq s) as Rk by (apply HR; apply in_or_app; right; left; auto).
    exists fr', (hseq s), (nxt (hnodes s) (hflh s)).
    destruct (N.eqb_spec (hflh s) (hseq s)) as [E|E]; [lia|].
    rewrite hgetn_ok by lia. cbn [bind hwith_flh hnodes hsize hcap hflh hseq].
    rewrite hgetn_ok by lia. cbn [bind].
    rewrite hsetn_upd_s by lia. cbn [bind].
    rewrite cadd32_ok by lia. cbn [bind]. unfold hwith_size, hwith_nodes.
    cbn [hnodes hsize hcap hflh hseq]. rewrite Hk.
    split; [reflexivity|].
    assert (Permutation (k :: live s c ++ fr') (live s c ++ k :: fr')) as P by apply Permutation_middle.
    split.
    { eapply Permutation_NoDup; [apply Permutation_sym, P|auto]. }
    split.
    { intros i Hi. apply HR. eapply Permutation_in; eauto. }
    split; [lia|].
    split; [auto|].
    split; [apply (ig_fresh _ _ _ _ I)|].
    split; [lia|].
    split.
    { intros i Hi. apply (ig_freev _ _ _ _ I). right; auto. }
    left. auto.
Qed.

(* ================= insertion: the invariant ================= *)
Lemma hinv_insert s c fr v index k fr' sq fl ns2 :
  hinv_g s c fr ->
  index < hcap s -> bucket_ix (hcap s) v = index ->
  (forall i, In i (c index) -> val (hnodes s) i <> v) ->
  NoDup (k :: live s c ++ fr') ->
  (forall i, In i (k :: live s c ++ fr') -> 1 <= i < sq) ->
  N.of_nat (length (live s c) + length fr') + 2 = sq ->
  lseg (hnodes s) fl fr' sq ->
  (forall i, sq <= i -> nxt (hnodes s) i = 0 /\ val (hnodes s) i = 0%Z) ->
  sq <= hcap s + 1 ->
  (forall i, In i fr' -> val (hnodes s) i = 0%Z) ->
  len ns2 = len (hnodes s) ->
  (forall b, bkt ns2 b = if b =? index then k else bkt (hnodes s) b) ->
  (forall i, nxt ns2 i = if i =? k then bkt (hnodes s) index else nxt (hnodes s) i) ->
  (forall i, val ns2 i = if i =? k then v else val (hnodes s) i) ->
  let c' := fun b => if b =? index then k :: c b else c b in
  hinv_g (mkHS (hsize s + 1) (hcap s) fl sq ns2) c' fr' /\
  Permutation (live s c') (k :: live s c) /\
  Permutation (map (val ns2) (live s c')) (v :: map (val (hnodes s)) (live s c)).
Proof.
  intros I Hidx Hbv Habs A1 A2 A3 A4 A5 A6 A7 Hlen Hb Hn Hv c'.
  set (ns := hnodes s) in *.
  assert (Permutation (live s c') (k :: live s c)) as P.
  { unfold live. apply flat_map_upd_perm with (b := index).
    - apply bks_NoDup.
    - apply bks_In; auto.
    - intros b' Hb'. unfold c'. destruct (N.eqb_spec b' index); [congruence|reflexivity].
    - unfold c'. rewrite N.eqb_refl. apply Permutation_refl. }
  assert (~ In k (live s c ++ fr')) as Knot by (inversion A1; auto).
  assert (forall i, In i (live s c ++ fr') -> nxt ns2 i = nxt ns i /\ val ns2 i = val ns i) as F.
  { intros i Hi. rewrite Hn, Hv. destruct (N.eqb_spec i k) as [->|E]; [contradiction|auto]. }
  assert (forall b i, b < hcap s -> In i (c b) -> In i (live s c ++ fr')) as Lc.
  { intros b i Hb0 Hi. apply in_or_app. left. eapply ig_in_live; eauto. }
  assert (map (val ns2) (live s c) = map (val ns) (live s c)) as Mv.
  { apply map_ext_in. intros i Hi. apply F. apply in_or_app; auto. }
  assert (Permutation (map (val ns2) (live s c')) (v :: map (val ns) (live s c))) as PV.
  { eapply Permutation_trans; [apply Permutation_map, P|]. cbn [map].
    rewrite Hv, N.eqb_refl, Mv. apply Permutation_refl. }
  split; [|split; auto].
  constructor; cbn [hnodes hcap hseq hflh hsize]; fold ns;
    change (live (mkHS (hsize s + 1) (hcap s) fl sq ns2) c') with (live s c').
  - rewrite Hlen. apply (ig_len _ _ _ _ I).
  - apply (ig_cap _ _ _ _ I).
  - split; auto. assert (1 <= k < sq) by (apply A2; left; auto). lia.
  - intros b Hb0. rewrite Hb. unfold c'. destruct (N.eqb_spec b index) as [->|E].
    + cbn [lseg]. split; auto. rewrite Hn, N.eqb_refl.
      apply lseg_frame with ns; [|apply (ig_chain _ _ _ _ I); auto].
      intros i Hi. apply F. eauto.
    + apply lseg_frame with ns; [|apply (ig_chain _ _ _ _ I); auto].
      intros i Hi. apply F. eauto.
  - intros b i Hb0 Hi. unfold c' in Hi. destruct (N.eqb_spec b index) as [->|E].
    + destruct Hi as [<-|Hi].
      * rewrite Hv, N.eqb_refl. auto.
      * rewrite (proj2 (F i (Lc _ _ Hb0 Hi))). apply (ig_buck _ _ _ _ I); auto.
    + rewrite (proj2 (F i (Lc _ _ Hb0 Hi))). apply (ig_buck _ _ _ _ I); auto.
  - apply lseg_frame with ns; auto. intros i Hi. apply F. apply in_or_app; auto.
  - intros i Hi. rewrite (proj2 (F i (in_or_app _ _ _ (or_intror Hi)))). auto.
  - intros i Hi. apply A2. apply in_app_or in Hi. destruct Hi as [Hi|Hi].
    + apply (Permutation_in _ P) in Hi. destruct Hi as [<-|Hi]; [left; auto|].
      right. apply in_or_app; auto.
    + right. apply in_or_app; auto.
  - eapply Permutation_NoDup; [|apply A1].
    change (k :: live s c ++ fr') with ((k :: live s c) ++ fr').
    apply Permutation_app_tail. apply Permutation_sym. auto.
  - rewrite (Permutation_length P). cbn [length]. lia.
  - intros i Hi. rewrite Hn, Hv. assert (1 <= k < sq) by (apply A2; left; auto).
    destruct (N.eqb_spec i k); [lia|]. apply A5; auto.
  - eapply Permutation_NoDup; [apply Permutation_sym, PV|].
    constructor; [|apply (ig_vals _ _ _ _ I)].
    intros Hin. apply in_map_iff in Hin. destruct Hin as [i [Hvi Hi]].
    destruct (ig_member_bucket _ _ _ _ I i Hi) as [Hc _]. fold ns in Hc.
    rewrite Hvi, Hbv in Hc. apply (Habs i); auto.
  - rewrite (Permutation_length P). cbn [length]. rewrite (ig_size _ _ _ _ I). lia.
Qed.

(* ================= hinsert ================= *)
Theorem hinsert_spec s v : hinv s ->
  exists s' b, hinsert hash64 s v = Ok (s', b) /\ hinv s' /\ hcap s' = hcap s /\
    b = negb (zs_mem (habs s) v || (hcap s <=? hsize s)) /\
    (b = false -> s' = s) /\
    (b = true -> habs s' = zs_insert (habs s) v /\ hsize s' = hsize s + 1).
Proof.
  intros [c [fr I]]. unfold hinsert.
  pose proof (ig_size_le _ _ _ _ I) as Hle.
  destruct (N.eqb_spec (hsize s) (hcap s)) as [E|E].
  - exists s, false. split; [reflexivity|]. split; [exists c, fr; auto|]. split; auto.
    split; [|split; [auto|discriminate]].
    destruct (N.leb_spec (hcap s) (hsize s)); [|lia]. rewrite orb_true_r. reflexivity.
  - assert (hsize s < hcap s) as Hlt by lia.
    assert (hcap s <> 0) as Hc by lia.
    destruct (bucket_of_ok hash64 s v Hc) as [-> Hidx]. cbn [bind].
    set (index := bucket_ix (hcap s) v) in *.
    pose proof (ig_len _ _ _ _ I) as HL.
    rewrite getb_ok by (rewrite HL; auto). cbn [bind].
    change (hb (rec (hnodes s) index)) with (bkt (hnodes s) index).
    unfold index at 1. rewrite (search_find hash64 s c fr v I Hc). cbn [bind].
    destruct (N.leb_spec (hcap s) (hsize s)); [lia|]. rewrite orb_false_r.
    destruct (zs_mem (habs s) v) eqn:M.
    + exists s, false. split; [reflexivity|]. split; [exists c, fr; auto|]. split; auto.
      split; auto. split; [auto|discriminate].
    + destruct (add_node_spec s c fr v I Hlt) as [fr' [sq [fl [Hadd [A1 [A2 [A3 [A4 [A5 [A6 [A7 _]]]]]]]]]]].
      rewrite Hadd. cbn [bind hnodes]. set (k := hflh s) in *. set (ns := hnodes s) in *.
      assert (1 <= k <= len ns) as Rk.
      { assert (1 <= k < sq) by (apply A2; left; auto). lia. }
      rewrite getb_ok by (rewrite len_upd_s, HL; auto). cbn [bind].
      rewrite setb_upd_b by (rewrite len_upd_s, HL; auto). cbn [bind].
      rewrite hgetn_ok by (rewrite len_upd_b, len_upd_s; auto). cbn [bind].
      rewrite hsetn_upd_n by (rewrite len_upd_b, len_upd_s; auto). cbn [bind].
      unfold hwith_nodes. cbn [hsize hcap hflh hseq hnodes].
      match goal with |- context [mkHS _ _ _ _ ?n] => set (ns2 := n) end.
      assert (index < len (upd_s ns k 0 v)) as Hi1 by (rewrite len_upd_s, HL; auto).
      assert (1 <= k <= len (upd_b (upd_s ns k 0 v) index k)) as Hk1
        by (rewrite len_upd_b, len_upd_s; auto).
      rewrite zs_mem_false in M.
      assert (forall i, In i (c index) -> val ns i <> v) as Habs.
      { intros i Hi Hvi. apply M. apply (habs_In_bucket hash64 s c fr I v Hc). exists i. auto. }
      destruct (hinv_insert s c fr v index k fr' sq fl ns2 I Hidx eq_refl Habs A1 A2 A3 A4 A5 A6 A7)
        as [I' [P PV]].
      * unfold ns2. rewrite len_upd_s, len_upd_b, len_upd_s. reflexivity.
      * intros b. unfold ns2. rewrite bkt_upd_s, bkt_upd_b, bkt_upd_s by auto. reflexivity.
      * intros i. unfold ns2. rewrite nxt_upd_s, nxt_upd_b, nxt_upd_s by auto.
        destruct (i =? k); reflexivity.
      * intros i. unfold ns2. rewrite val_upd_s, !val_upd_b, !val_upd_s by auto.
        rewrite N.eqb_refl. destruct (i =? k); reflexivity.
      * eexists _, true. split; [reflexivity|]. split; [eexists _, _; apply I'|].
        split; [reflexivity|]. split; [reflexivity|]. split; [discriminate|]. intros _.
        split; [|reflexivity].
        rewrite (habs_eq hash64 _ _ _ I'), (habs_eq hash64 _ _ _ I). cbn [hnodes].
        match goal with |- context [live (mkHS ?a ?b ?c0 ?d ?e) ?f] =>
          change (live (mkHS a b c0 d e) f) with (live s f) end.
        apply zs_sort_as_insert. intros x. split; intros Hx.
        -- apply (Permutation_in _ PV) in Hx. destruct Hx; auto.
        -- apply (Permutation_in _ (Permutation_sym PV)). destruct Hx; [left|right]; auto.
Qed.

(* ================= removal: the invariant ================= *)
Lemma ig_chain_disj s c fr b1 b2 i : hinv_g s c fr ->
  b1 < hcap s -> b2 < hcap s -> In i (c b1) -> In i (c b2) -> b1 = b2.
Proof.
  intros I H1 H2 I1 I2.
  rewrite <- (ig_buck _ _ _ _ I b1 i H1 I1). apply (ig_buck _ _ _ _ I b2 i H2 I2).
Qed.

Lemma NoDup_mid {A} (l1 l2 : list A) x : NoDup (l1 ++ x :: l2) -> ~ In x l1 /\ ~ In x l2.
Proof.
  intros H. apply NoDup_remove_2 in H. split; intros Hin; apply H; apply in_or_app; auto.
Qed.

Lemma hinv_remove s c fr v index l1 cur l2 ns2 :
  hinv_g s c fr ->
  index < hcap s -> c index = l1 ++ cur :: l2 -> val (hnodes s) cur = v ->
  len ns2 = len (hnodes s) ->
  (forall b, b <> index -> bkt ns2 b = bkt (hnodes s) b) ->
  lseg ns2 (bkt ns2 index) (l1 ++ l2) 0 ->
  (forall i, i <> cur -> ~ In i l1 -> nxt ns2 i = nxt (hnodes s) i) ->
  nxt ns2 cur = hflh s ->
  (forall i, val ns2 i = if i =? cur then 0%Z else val (hnodes s) i) ->
  let c' := fun b => if b =? index then l1 ++ l2 else c b in
  hinv_g (mkHS (hsize s - 1) (hcap s) cur (hseq s) ns2) c' (cur :: fr) /\
  Permutation (live s c) (cur :: live s c') /\
  NoDup (v :: map (val ns2) (live s c')) /\
  Permutation (map (val (hnodes s)) (live s c)) (v :: map (val ns2) (live s c')).
Proof.
  intros I Hidx Hc Hvc Hlen Hb Hseg Hn Hnc Hv c'.
  set (ns := hnodes s) in *.
  assert (Permutation (live s c) (cur :: live s c')) as P.
  { unfold live. apply flat_map_upd_perm with (b := index).
    - apply bks_NoDup.
    - apply bks_In; auto.
    - intros b' Hb'. unfold c'. destruct (N.eqb_spec b' index); [congruence|reflexivity].
    - unfold c'. rewrite N.eqb_refl, Hc. apply Permutation_sym, Permutation_middle. }
  assert (Permutation (live s c ++ fr) (live s c' ++ cur :: fr)) as PP.
  { eapply Permutation_trans; [apply Permutation_app_tail, P|].
    change ((cur :: live s c') ++ fr) with (cur :: live s c' ++ fr). apply Permutation_middle. }
  pose proof (ig_nodup _ _ _ _ I) as ND.
  assert (NoDup (cur :: live s c' ++ fr)) as ND'.
  { eapply Permutation_NoDup; [|apply ND].
    change (cur :: live s c' ++ fr) with ((cur :: live s c') ++ fr). apply Permutation_app_tail, P. }
  assert (forall i, In i (live s c' ++ fr) -> i <> cur) as Ncur.
  { intros i Hi ->. inversion ND'; auto. }
  assert (forall i, In i l1 -> In i (live s c)) as L1.
  { intros i Hi. apply (ig_in_live s c index); auto. rewrite Hc. apply in_or_app; auto. }
  assert (forall b i, b < hcap s -> b <> index -> In i (c b) -> ~ In i l1) as L1c.
  { intros b i Hb0 Hne Hi Hin. apply Hne. eapply ig_chain_disj; eauto.
    rewrite Hc. apply in_or_app; auto. }
  assert (forall i, In i fr -> ~ In i l1) as L1f.
  { intros i Hi Hin. eapply (NoDup_app_disj (live s c) fr i); eauto. }
  assert (forall i, In i (live s c' ++ fr) -> val ns2 i = val ns i) as F.
  { intros i Hi. rewrite Hv. destruct (N.eqb_spec i cur) as [E|E]; auto.
    exfalso. eapply Ncur; eauto. }
  assert (forall b i, b < hcap s -> In i (c' b) -> In i (live s c')) as Lc.
  { intros b i Hb0 Hi. unfold live. apply in_flat_map_bks. eauto. }
  assert (forall i, In i (live s c') -> In i (live s c)) as Sub.
  { intros i Hi. apply (Permutation_in _ (Permutation_sym P)). right; auto. }
  assert (forall b i, b < hcap s -> In i (c' b) -> In i (c b)) as Subc.
  { intros b i Hb0 Hi. unfold c' in Hi. destruct (N.eqb_spec b index) as [->|E]; auto.
    rewrite Hc. apply in_app_or in Hi. apply in_or_app. destruct Hi; auto. right; right; auto. }
  assert (map (val ns2) (live s c') = map (val ns) (live s c')) as Mv.
  { apply map_ext_in. intros i Hi. apply F. apply in_or_app; auto. }
  assert (Permutation (map (val ns) (live s c)) (v :: map (val ns2) (live s c'))) as PV.
  { rewrite Mv, <- Hvc. apply (Permutation_map (val ns) P). }
  assert (NoDup (v :: map (val ns2) (live s c'))) as NDV.
  { eapply Permutation_NoDup; [apply PV|apply (ig_vals _ _ _ _ I)]. }
  assert (1 <= cur < hseq s) as Rc.
  { apply (ig_range _ _ _ _ I). apply in_or_app. left. apply (Permutation_in _ (Permutation_sym P)).
    left; auto. }
  split; [|auto].
  constructor; cbn [hnodes hcap hseq hflh hsize]; fold ns;
    change (live (mkHS (hsize s - 1) (hcap s) cur (hseq s) ns2) c') with (live s c').
  - rewrite Hlen. apply (ig_len _ _ _ _ I).
  - apply (ig_cap _ _ _ _ I).
  - apply (ig_seq _ _ _ _ I).
  - intros b Hb0. unfold c'. destruct (N.eqb_spec b index) as [->|E]; auto.
    rewrite Hb by auto. apply lseg_frame with ns; [|apply (ig_chain _ _ _ _ I); auto].
    intros i Hi. apply Hn; [|eapply L1c; eauto].
    apply Ncur. apply in_or_app. left. apply (Lc b); auto. unfold c'.
    destruct (N.eqb_spec b index); [congruence|auto].
  - intros b i Hb0 Hi.
    rewrite (F i (in_or_app _ _ _ (or_introl (Lc _ _ Hb0 Hi)))).
    apply (ig_buck _ _ _ _ I); auto.
  - cbn [lseg]. split; auto. rewrite Hnc. apply lseg_frame with ns; [|apply (ig_free _ _ _ _ I)].
    intros i Hi. apply Hn; auto. apply Ncur. apply in_or_app; auto.
  - intros i [<-|Hi].
    + rewrite Hv, N.eqb_refl. reflexivity.
    + rewrite (F i (in_or_app _ _ _ (or_intror Hi))). apply (ig_freev _ _ _ _ I); auto.
  - intros i Hi. apply (ig_range _ _ _ _ I). apply (Permutation_in _ (Permutation_sym PP)). auto.
  - eapply Permutation_NoDup; [apply PP|auto].
  - pose proof (ig_count _ _ _ _ I) as HC. rewrite (Permutation_length P) in HC.
    cbn [length] in *. lia.
  - intros i Hi. split.
    + rewrite Hn; [apply (ig_fresh _ _ _ _ I); auto|lia|].
      intros H1. apply L1 in H1.
      assert (1 <= i < hseq s) by (apply (ig_range _ _ _ _ I); apply in_or_app; auto). lia.
    + rewrite Hv. destruct (N.eqb_spec i cur); auto. apply (ig_fresh _ _ _ _ I); auto.
  - inversion NDV; auto.
  - pose proof (ig_size _ _ _ _ I) as HZ. rewrite (Permutation_length P) in HZ.
    cbn [length] in HZ. lia.
Qed.

Lemma hremove_node_ok s cur : 1 <= cur <= len (hnodes s) -> 1 <= hsize s ->
  hremove_node s cur =
  Ok (mkHS (hsize s - 1) (hcap s) cur (hseq s) (upd_s (hnodes s) cur (hflh s) 0%Z),
      Some (val (hnodes s) cur)).
Proof.
  intros H1 H2. unfold hremove_node. destruct (N.eqb_spec cur 0); [lia|].
  rewrite hgetn_ok by auto. cbn [bind]. rewrite hsetn_upd_s by auto. cbn [bind].
  rewrite csub32_ok by auto. cbn [bind]. reflexivity.
Qed.

Lemma list_last_cases {A} (l : list A) : l = [] \/ exists l' a, l = l' ++ [a].
Proof.
  destruct l as [|x l]; auto. right.
  destruct (@exists_last _ (x :: l)) as [l' [a E]]; [discriminate|]. eauto.
Qed.

(* ================= hremove ================= *)
Theorem hremove_spec s v : hinv s ->
  exists s' b, hremove hash64 s v = Ok (s', b) /\ hinv s' /\ hcap s' = hcap s /\
    b = zs_mem (habs s) v /\ habs s' = zs_remove (habs s) v /\
    (b = false -> s' = s) /\
    (b = true -> hsize s' = hsize s - 1 /\ 1 <= hsize s /\
                 In (hflh s') (hslots s) /\ val (hnodes s) (hflh s') = v /\
                 ~ In (hflh s') (hslots s')).
Proof.
  intros [c [fr I]]. unfold hremove, his_empty.
  pose proof (ig_size_le _ _ _ _ I) as Hle.
  destruct (N.eqb_spec (hsize s) 0) as [E|E].
  - pose proof (habs_length hash64 s c fr I) as HL. rewrite E in HL.
    assert (habs s = []) as Hnil.
    { destruct (habs s) as [|x r]; [reflexivity|]. cbn [length] in HL. lia. }
    exists s, false. rewrite Hnil. split; [reflexivity|]. split; [exists c, fr; auto|].
    split; [reflexivity|]. split; [reflexivity|]. split; [reflexivity|]. split; [auto|discriminate].
  - assert (hcap s <> 0) as Hc by lia.
    destruct (bucket_of_ok hash64 s v Hc) as [-> Hidx]. cbn [bind].
    set (index := bucket_ix (hcap s) v) in *.
    pose proof (ig_len _ _ _ _ I) as HL.
    rewrite getb_ok by (rewrite HL; auto). cbn [bind].
    change (hb (rec (hnodes s) index)) with (bkt (hnodes s) index).
    set (ns := hnodes s) in *.
    pose proof (ig_chain _ _ _ _ I index Hidx) as Hseg. fold ns in Hseg.
    assert (forall i, In i (c index) -> 1 <= i <= len ns) as Rng.
    { intros i Hi. eapply ig_chain_range'; eauto. }
    pose proof (ig_chain_len hash64 s c fr I index Hidx) as Hfuel. fold ns in Hfuel.
    pose proof (zs_mem_habs hash64 s c fr v I Hc) as Hmem. fold index in Hmem. fold ns in Hmem.
    destruct (first_split ns v (c index)) as [Hnone|[l1 [cur [l2 [Hsplit [Hl1 Hcur]]]]]].
    + unfold hfuel. fold ns. rewrite (chain_locate_none ns v (c index)); auto. cbn [bind].
      apply existsb_val_false in Hnone. rewrite Hnone in Hmem.
      exists s, false. split; [reflexivity|]. split; [exists c, fr; auto|].
      split; auto. split; auto. split.
      * symmetry. apply zs_remove_notin. apply zs_mem_false. auto.
      * split; auto. discriminate.
    + rewrite Hsplit in Hseg, Rng, Hfuel.
      unfold hfuel. fold ns. rewrite (chain_locate_some ns v l1 _ _ 0 cur l2); auto. cbn [bind].
      assert (existsb (fun i => (val ns i =? v)%Z) (c index) = true) as Hex.
      { apply existsb_val_true. exists cur. split; auto. rewrite Hsplit. apply in_or_app. right; left; auto. }
      rewrite Hex in Hmem.
      assert (1 <= cur <= len ns) as Rcur by (apply Rng; apply in_or_app; right; left; auto).
      assert (1 <= hsize s) as Hsz1 by lia.
      pose proof (ig_chain_NoDup _ _ _ _ I index Hidx) as NDc. rewrite Hsplit in NDc.
      destruct (NoDup_mid _ _ _ NDc) as [Nc1 Nc2].
      cbn [lseg] in Hseg. apply lseg_app in Hseg. destruct Hseg as [m [Hs1 Hs2]].
      cbn [lseg] in Hs2. destruct Hs2 as [-> Hs2].
      destruct (list_last_cases l1) as [->|[l1' [p ->]]].
      * (* head of the chain *)
        cbn [last app lseg] in *. subst cur. rename Hs2 into Hs2'.
        set (cur := bkt ns index) in *.
        change (0 =? 0) with true. cbv iota.
        rewrite setb_upd_b by (rewrite HL; auto). cbn [bind].
        rewrite hremove_node_ok; cbn [hwith_nodes hnodes hsize hcap hflh hseq];
          [|rewrite len_upd_b; auto|auto].
        cbn [bind].
        match goal with |- context [mkHS _ _ _ _ ?n] => set (ns2 := n) end.
        assert (index < len ns) as Hil by (rewrite HL; auto).
        assert (1 <= cur <= len (upd_b ns index (nxt ns cur))) as Hcl by (rewrite len_upd_b; auto).
        assert (forall i, nxt ns2 i = if i =? cur then hflh s else nxt ns i) as Hnx.
        { intros i. unfold ns2. rewrite nxt_upd_s, nxt_upd_b by auto. reflexivity. }
        destruct (hinv_remove s c fr v index [] cur l2 ns2 I Hidx Hsplit Hcur) as [I' [P [NDV PV]]].
        -- unfold ns2. rewrite len_upd_s, len_upd_b. reflexivity.
        -- intros b Hb. unfold ns2. rewrite bkt_upd_s, bkt_upd_b by auto.
           destruct (N.eqb_spec b index); [congruence|reflexivity].
        -- cbn [app]. unfold ns2 at 2. rewrite bkt_upd_s, bkt_upd_b, N.eqb_refl by auto.
           apply lseg_frame with ns; auto. intros i Hi. rewrite Hnx.
           destruct (N.eqb_spec i cur); [congruence|reflexivity].
        -- intros i Hi _. rewrite Hnx. destruct (N.eqb_spec i cur); [congruence|reflexivity].
        -- rewrite Hnx, N.eqb_refl. reflexivity.
        -- intros i. unfold ns2. rewrite val_upd_s, val_upd_b by auto. reflexivity.
        -- eexists _, true. split; [reflexivity|]. split; [eexists _, _; apply I'|].
           split; [reflexivity|]. split; [auto|]. split.
           ++ rewrite (habs_eq hash64 _ _ _ I'), (habs_eq hash64 _ _ _ I). cbn [hnodes].
              match goal with |- context [live (mkHS ?a ?b ?c0 ?d ?e) ?f] =>
                change (live (mkHS a b c0 d e) f) with (live s f) end.
              apply zs_sort_as_remove. intros x. fold ns. split.
              ** intros Hx. split.
                 --- apply (Permutation_in _ (Permutation_sym PV)). right; auto.
                 --- intros ->. inversion NDV; auto.
              ** intros [Hx Hne]. apply (Permutation_in _ PV) in Hx. destruct Hx; [congruence|auto].
           ++ split; [discriminate|]. intros _. cbn [hsize hflh hnodes].
              split; [reflexivity|]. split; [auto|].
              rewrite (hslots_eq hash64 _ _ _ I'), (hslots_eq hash64 _ _ _ I).
              match goal with |- context [live (mkHS ?a ?b ?c0 ?d ?e) ?f] =>
                change (live (mkHS a b c0 d e) f) with (live s f) end.
              split; [apply (Permutation_in _ (Permutation_sym P)); left; auto|].
              split; [auto|].
              pose proof (ig_nodup _ _ _ _ I') as ND2. cbn [hcap] in ND2.
              match type of ND2 with context [live (mkHS ?a ?b ?c0 ?d ?e) ?f] =>
                change (live (mkHS a b c0 d e) f) with (live s f) in ND2 end.
              intros Hin. eapply NoDup_app_disj; [apply ND2|apply Hin|left; auto].
      * (* interior node *)
        rewrite last_last in *.
        assert (1 <= p <= len ns) as Rp by (apply Rng; apply in_or_app; left; apply in_or_app; right; left; auto).
        destruct (N.eqb_spec p 0); [lia|].
        rewrite hgetn_ok by auto. cbn [bind].
        rewrite hsetn_upd_n by auto. cbn [bind].
        rewrite hremove_node_ok; cbn [hwith_nodes hnodes hsize hcap hflh hseq];
          [|rewrite len_upd_s; auto|auto].
        cbn [bind].
        match goal with |- context [mkHS _ _ _ _ ?n] => set (ns2 := n) end.
        assert (1 <= cur <= len (upd_s ns p (nxt ns cur) (val ns p))) as Hcl by (rewrite len_upd_s; auto).
        assert (p <> cur) as Hpc.
        { intros ->. apply Nc1. apply in_or_app. right; left; auto. }
        assert (forall i, nxt ns2 i = if i =? cur then hflh s else if i =? p then nxt ns cur else nxt ns i) as Hnx.
        { intros i. unfold ns2. rewrite nxt_upd_s, nxt_upd_s by auto. reflexivity. }
        apply lseg_app in Hs1. destruct Hs1 as [m [Hs1 Hs3]]. cbn [lseg] in Hs3.
        destruct Hs3 as [-> Hs3].
        assert (~ In p l1' /\ ~ In p l2) as [Np1 Np2].
        { rewrite <- app_assoc in NDc. cbn [app] in NDc. apply NoDup_mid in NDc.
          destruct NDc as [A B]. split; auto. intros H. apply B. right; auto. }
        destruct (hinv_remove s c fr v index (l1' ++ [p]) cur l2 ns2 I Hidx Hsplit Hcur) as [I' [P [NDV PV]]].
        -- unfold ns2. rewrite !len_upd_s. reflexivity.
        -- intros b Hb. unfold ns2. rewrite !bkt_upd_s by auto. reflexivity.
        -- unfold ns2 at 2. rewrite !bkt_upd_s by auto.
           apply lseg_app. exists (nxt ns cur). split.
           ++ apply lseg_app. exists p. split.
              ** apply lseg_frame with ns; auto. intros i Hi. rewrite Hnx.
                 destruct (N.eqb_spec i cur) as [->|E1].
                 { exfalso. apply Nc1. apply in_or_app; auto. }
                 destruct (N.eqb_spec i p) as [->|E2]; [contradiction|reflexivity].
              ** cbn [lseg]. split; auto. rewrite Hnx.
                 destruct (N.eqb_spec p cur); [contradiction|]. rewrite N.eqb_refl. reflexivity.
           ++ apply lseg_frame with ns; auto. intros i Hi. rewrite Hnx.
              destruct (N.eqb_spec i cur) as [->|E1]; [contradiction|].
              destruct (N.eqb_spec i p) as [->|E2]; [contradiction|reflexivity].
        -- intros i Hi Hni. rewrite Hnx. destruct (N.eqb_spec i cur); [congruence|].
           destruct (N.eqb_spec i p) as [->|E2]; [|reflexivity].
           exfalso. apply Hni. apply in_or_app. right; left; auto.
        -- rewrite Hnx, N.eqb_refl. reflexivity.
        -- intros i. unfold ns2. rewrite !val_upd_s by auto.
           destruct (N.eqb_spec i cur); auto. destruct (N.eqb_spec i p) as [->|]; auto.
        -- eexists _, true. split; [reflexivity|]. split; [eexists _, _; apply I'|].
           split; [reflexivity|]. split; [auto|]. split.
           ++ rewrite (habs_eq hash64 _ _ _ I'), (habs_eq hash64 _ _ _ I). cbn [hnodes].
              match goal with |- context [live (mkHS ?a ?b ?c0 ?d ?e) ?f] =>
                change (live (mkHS a b c0 d e) f) with (live s f) end.
              apply zs_sort_as_remove. intros x. fold ns. split.
              ** intros Hx. split.
                 --- apply (Permutation_in _ (Permutation_sym PV)). right; auto.
                 --- intros ->. inversion NDV; auto.
              ** intros [Hx Hne]. apply (Permutation_in _ PV) in Hx. destruct Hx; [congruence|auto].
           ++ split; [discriminate|]. intros _. cbn [hsize hflh hnodes].
              split; [reflexivity|]. split; [auto|].
              rewrite (hslots_eq hash64 _ _ _ I'), (hslots_eq hash64 _ _ _ I).
              match goal with |- context [live (mkHS ?a ?b ?c0 ?d ?e) ?f] =>
                change (live (mkHS a b c0 d e) f) with (live s f) end.
              split; [apply (Permutation_in _ (Permutation_sym P)); left; auto|].
              split; [auto|].
              pose proof (ig_nodup _ _ _ _ I') as ND2. cbn [hcap] in ND2.
              match type of ND2 with context [live (mkHS ?a ?b ?c0 ?d ?e) ?f] =>
                change (live (mkHS a b c0 d e) f) with (live s f) in ND2 end.
              intros Hin. eapply NoDup_app_disj; [apply ND2|apply Hin|left; auto].
Qed.

(* ================= one step of the op language ================= *)
Lemma hs_len_habs s : hinv s -> hs_len (mkHSS (hcap s) (habs s)) = hsize s.
Proof. intros [c [fr I]]. unfold hs_len. cbn [hsmem]. apply (habs_length hash64 s c fr I). Qed.

Theorem hstep_refines s o : hinv s ->
  exists s' out, hstep_c hash64 s o = Ok (s', out) /\ hinv s' /\
    (mkHSS (hcap s') (habs s'), out) = hspec_step (mkHSS (hcap s) (habs s)) o.
Proof.
  intros Hi. pose proof (hs_len_habs s Hi) as HLen.
  destruct o as [v|v|v| | | | | | ]; cbn [hstep_c hspec_step hsmem hscap]; rewrite ?HLen.
  - destruct (hinsert_spec s v Hi) as [s' [b [H [Hi' [Hcap [Hb [Hf Ht]]]]]]].
    rewrite H. cbn [bind]. exists s', (HBool b). split; [reflexivity|]. split; auto.
    destruct (zs_mem (habs s) v || (hcap s <=? hsize s)); cbn [negb] in Hb; subst b.
    + rewrite (Hf eq_refl). reflexivity.
    + destruct (Ht eq_refl) as [Ha _]. rewrite Hcap, Ha. reflexivity.
  - destruct (hremove_spec s v Hi) as [s' [b [H [Hi' [Hcap [Hb [Ha _]]]]]]].
    rewrite H. cbn [bind]. exists s', (HBool b). split; [reflexivity|]. split; auto.
    rewrite Hcap, Ha, Hb. reflexivity.
  - rewrite (hcontains_spec hash64 s v Hi). cbn [bind]. eauto.
  - eexists _, _. split; [reflexivity|]. split; eauto.
  - eexists _, _. split; [reflexivity|]. split; eauto.
  - eexists _, _. split; [reflexivity|]. split; eauto.
  - eexists _, _. split; [reflexivity|]. split; eauto.
  - destruct Hi as [c [fr I]]. rewrite (hiter_spec hash64 s c fr I). cbn [bind].
    eexists _, _. split; [reflexivity|]. split; [exists c, fr; auto|]. reflexivity.
  - eexists _, _. split; [reflexivity|]. split; eauto.
Qed.

(* ================= histories ================= *)
Theorem hrun_refines ops : forall s, hinv s ->
  hrun_c hash64 s ops = map Ok (hrun_s (mkHSS (hcap s) (habs s)) ops).
Proof.
  induction ops as [|o r IH]; intros s Hi; [reflexivity|].
  destruct (hstep_refines s o Hi) as [s' [out [H [Hi' Hs]]]].
  cbn [hrun_c hrun_s]. rewrite H, <- Hs. cbn [map]. f_equal. apply IH; auto.
Qed.

Theorem hinv_init_c cap : cap + 1 < 4294967296 -> hinv (hinit_c cap cap).
Proof. intros H. exists (fun _ => []), []. apply hinv_init; auto. Qed.

Theorem hset_refines_bounded_set cap ops : cap + 1 < 2 ^ 32 ->
  hrun_c hash64 (hinit_c cap cap) ops = map Ok (hrun_s (mkHSS cap []) ops).
Proof.
  intros H. change (2 ^ 32) with 4294967296 in H.
  rewrite (hrun_refines ops _ (hinv_init_c cap H)).
  rewrite (habs_init hash64 cap H). reflexivity.
Qed.

End Refine.
