(* The hash set and its bytes, for C04, C09 and C10: the independent reader
   [hdecode_doc] on the bytes of any state satisfying the invariant, the size
   of the buffer, re-opening from the encoded bytes at any point. *)
From Coq Require Import List NArith ZArith Bool Lia Arith Permutation.
From Stevia Require Import Base.Res Base.ResMore Base.Bytes Base.BytesMore Hash.Impl Hash.Spec Hash.Format Hash.ZSet Hash.Mem
  Hash.Inv Hash.Refine Hash.HashProps Hash.FormatFacts Hash.FormatInv Hash.HashMore.
Import ListNotations.
Open Scope N_scope.
Arguments N.add : simpl never.
Arguments N.sub : simpl never.
Arguments N.mul : simpl never.
Arguments N.div : simpl never.
Arguments N.modulo : simpl never.
Arguments N.eqb : simpl never.
Arguments N.ltb : simpl never.
Arguments N.leb : simpl never.
Arguments N.pow : simpl never.
Arguments N.of_nat : simpl never.
Arguments N.to_nat : simpl never.
Arguments Z.add : simpl never.
Arguments Z.sub : simpl never.
Arguments Z.ltb : simpl never.
Arguments Z.eqb : simpl never.

(* ---------- generic ---------- *)
Lemma all_some_map {A B} (f : A -> option B) (g : A -> B) (l : list A) :
  (forall a, In a l -> f a = Some (g a)) -> all_some (map f l) = Some (map g l).
Proof.
  induction l as [|a l IH]; intros H; [reflexivity|].
  cbn [map all_some]. rewrite (H a) by (left; reflexivity).
  rewrite IH by (intros b Hb; apply H; right; exact Hb). reflexivity.
Qed.

Lemma hnodupb_true (l : list N) : NoDup l -> hnodupb l = true.
Proof.
  induction 1 as [|a l Hn ND IH]; [reflexivity|]. cbn [hnodupb]. rewrite IH, andb_true_r.
  apply negb_true_iff. destruct (existsb (N.eqb a) l) eqn:E; [|reflexivity].
  apply existsb_exists in E. destruct E as [x [Hx Hax]]. apply N.eqb_eq in Hax. subst x. contradiction.
Qed.

Lemma znodupb_true (l : list Z) : NoDup l -> znodupb l = true.
Proof.
  induction 1 as [|a l Hn ND IH]; [reflexivity|]. cbn [znodupb]. rewrite IH, andb_true_r.
  apply negb_true_iff. destruct (existsb (Z.eqb a) l) eqn:E; [|reflexivity].
  apply existsb_exists in E. destruct E as [x [Hx Hax]]. apply Z.eqb_eq in Hax. subst x. contradiction.
Qed.

Lemma in_combine_map {A B} (g : A -> B) (l : list A) a b :
  In (a, b) (combine l (map g l)) -> In a l /\ b = g a.
Proof.
  induction l as [|x l IH]; cbn [map combine]; intros H; [contradiction|].
  destruct H as [H|H].
  - injection H as <- <-. split; [left; reflexivity | reflexivity].
  - destruct (IH H) as [H1 H2]. split; [right; exact H1 | exact H2].
Qed.

Lemma nodup_app_intro {A} (l1 l2 : list A) :
  NoDup l1 -> NoDup l2 -> (forall x, In x l1 -> ~ In x l2) -> NoDup (l1 ++ l2).
Proof.
  induction 1 as [|a l1 Hn ND IH]; intros N2 D; [exact N2|].
  cbn [app]. constructor.
  - intros Hin. apply in_app_or in Hin. destruct Hin as [Hin|Hin]; [contradiction|].
    apply (D a); [left; reflexivity | exact Hin].
  - apply IH; [exact N2|]. intros x Hx. apply D. right. exact Hx.
Qed.

Lemma concat_map_map {A B C} (p : B -> C) (c : A -> list B) (L : list A) :
  concat (map (fun b => map p (c b)) L) = map p (flat_map c L).
Proof.
  induction L as [|a L IH]; [reflexivity|].
  cbn [map concat flat_map]. rewrite map_app, IH. reflexivity.
Qed.

(* the slot numbers 1..cap *)
Definition slots_upto (cap : N) : list N := map N.of_nat (seq 1 (N.to_nat cap)).

Lemma slots_upto_In cap i : In i (slots_upto cap) <-> 1 <= i <= cap.
Proof.
  unfold slots_upto. rewrite in_map_iff. split.
  - intros [n [<- H]]. apply in_seq in H. lia.
  - intros H. exists (N.to_nat i). split; [lia|]. apply in_seq. lia.
Qed.

Lemma slots_upto_NoDup cap : NoDup (slots_upto cap).
Proof.
  unfold slots_upto. apply FinFun.Injective_map_NoDup.
  - intros a b H. lia.
  - apply seq_NoDup.
Qed.

Section Doc.
Variable hash64 : Z -> N.
Variable vty : fty.
Notation hinv := (hinv hash64).
Notation hinv_g := (hinv_g hash64).
Notation fits := (zval_ok (fsigned vty) (N.to_nat (hvsz vty))).

(* ---------- the reader's two walks follow the invariant's ghost lists ---------- *)
Lemma hrec_at_ok s i : 1 <= i <= len (hnodes s) -> hrec_at s i = Some (slot (hnodes s) i).
Proof.
  intros H. unfold hrec_at, slot, rec, len in *. destruct (N.eqb_spec i 0) as [E|E]; [lia|].
  apply nth_error_nth'. lia.
Qed.

Lemma dchain_lseg s l : forall fuel h,
  lseg (hnodes s) h l 0 -> (forall i, In i l -> 1 <= i <= len (hnodes s)) -> (length l < fuel)%nat ->
  dchain fuel s h = Some (map (fun i => (i, val (hnodes s) i)) l).
Proof.
  induction l as [|i r IH]; intros fuel h H R F; cbn [lseg length map] in *.
  - subst h. destruct fuel as [|f]; [lia|]. reflexivity.
  - destruct H as [-> H]. destruct fuel as [|f]; [lia|]. cbn [dchain].
    assert (Ri : 1 <= i <= len (hnodes s)) by (apply R; left; reflexivity).
    destruct (N.eqb_spec i 0) as [E|E]; [lia|].
    rewrite (hrec_at_ok s i Ri). fold (nxt (hnodes s) i). fold (val (hnodes s) i).
    rewrite (IH f (nxt (hnodes s) i) H); [reflexivity | | lia].
    intros j Hj. apply R. right. exact Hj.
Qed.

Lemma hfree_chain_lseg s l : forall h t,
  lseg (hnodes s) h l t -> (forall i, In i l -> 1 <= i <= len (hnodes s)) ->
  hfree_chain (length l) s h = Some l.
Proof.
  induction l as [|i r IH]; intros h t H R; cbn [lseg length] in *; [reflexivity|].
  destruct H as [-> H]. cbn [hfree_chain].
  assert (Ri : 1 <= i <= len (hnodes s)) by (apply R; left; reflexivity).
  rewrite (hrec_at_ok s i Ri). fold (nxt (hnodes s) i).
  rewrite (IH (nxt (hnodes s) i) t H); [reflexivity|].
  intros j Hj. apply R. right. exact Hj.
Qed.

(* what the independent reader returns, in terms of the ghost lists *)
Definition hchains (s : hst) (c : N -> list N) : list (list (N * Z)) :=
  map (fun b => map (fun i => (i, val (hnodes s) i)) (c b)) (bks (hcap s)).

Definition hdoc_of (s : hst) (c : N -> list N) (fr : list N) : hdoc :=
  mkHDoc [hsize s; hcap s; hflh s; hseq s] (hchains s c) fr
         (filter (fun i => hseq s <=? i) (slots_upto (hcap s))) true.

Lemma hchains_fst s c : map fst (concat (hchains s c)) = live s c.
Proof.
  unfold hchains, live. rewrite concat_map_map, map_map. cbn [fst]. apply map_id.
Qed.

Lemma hchains_snd s c : map snd (concat (hchains s c)) = map (val (hnodes s)) (live s c).
Proof. unfold hchains, live. rewrite concat_map_map, map_map. reflexivity. Qed.

Theorem hdecode_doc_inv bs s c fr : hinv_g s c fr -> hdecode vty bs = Some s ->
  hdecode_doc vty hash64 bs = Some (hdoc_of s c fr).
Proof.
  intros I Hd.
  pose proof (ig_len _ _ _ _ I) as HL. pose proof (ig_cap _ _ _ _ I) as HC.
  pose proof (ig_seq _ _ _ _ I) as HS. pose proof (ig_range _ _ _ _ I) as HR.
  pose proof (ig_count _ _ _ _ I) as HCnt. pose proof (ig_size _ _ _ _ I) as HSz.
  assert (Hch : all_some (map (fun b => match nth_error (hnodes s) b with
                                      | Some n => dchain (S (length (hnodes s))) s (hb n)
                                      | None => None end) (seq 0 (N.to_nat (hcap s))))
                = Some (hchains s c)).
  { unfold hchains, bks. rewrite map_map. apply all_some_map. intros b Hb. apply in_seq in Hb.
    assert (Hb' : N.of_nat b < hcap s) by lia.
    unfold len in HL. rewrite (nth_error_nth' (hnodes s) hnode0) by lia.
    change (hb (nth b (hnodes s) hnode0)) with (hb (nth b (hnodes s) hnode0)).
    replace (hb (nth b (hnodes s) hnode0)) with (bkt (hnodes s) (N.of_nat b))
      by (unfold bkt, rec; rewrite Nat2N.id; reflexivity).
    apply dchain_lseg.
    - apply (ig_chain _ _ _ _ I). exact Hb'.
    - intros i Hi. exact (ig_chain_range' hash64 s c fr I _ i Hb' Hi).
    - exact (ig_chain_len hash64 s c fr I _ Hb'). }
  assert (Hfr : hfree_chain (length fr) s (hflh s) = Some fr).
  { apply (hfree_chain_lseg s fr (hflh s) (hseq s)); [apply (ig_free _ _ _ _ I)|].
    intros i Hi. assert (1 <= i < hseq s) by (apply HR; apply in_or_app; right; exact Hi). lia. }
  unfold hdecode_doc. rewrite Hd. cbv zeta. rewrite Hch.
  rewrite hchains_fst, hchains_snd.
  replace (N.to_nat (hseq s - 1 - N.of_nat (length (live s c)))) with (length fr)
    by (rewrite app_length in HCnt || idtac; lia).
  rewrite Hfr. unfold hdoc_of. fold (slots_upto (hcap s)). f_equal. f_equal.
  rewrite !andb_true_iff. repeat split.
  - apply hnodupb_true. apply (ig_nodup _ _ _ _ I).
  - apply forallb_forall. intros i Hi. specialize (HR i Hi). apply andb_true_iff.
    split; [apply N.leb_le | apply N.ltb_lt]; lia.
  - apply N.eqb_eq. lia.
  - apply N.leb_le. lia.
  - apply N.leb_le. lia.
  - apply N.eqb_eq. exact HL.
  - apply znodupb_true. apply (ig_vals _ _ _ _ I).
  - apply forallb_forall. intros [b ch] Hbc. fold (bks (hcap s)) in Hbc. unfold hchains in Hbc.
    apply in_combine_map in Hbc. destruct Hbc as [Hb ->]. apply bks_In in Hb.
    apply forallb_forall. intros [i v] Hiv. apply in_map_iff in Hiv. destruct Hiv as [j [E Hj]].
    injection E as <- <-. cbn [fst snd]. apply N.eqb_eq.
    exact (ig_buck _ _ _ _ I b j Hb Hj).
  - apply forallb_forall. intros i Hi. apply filter_In in Hi. destruct Hi as [Hi Hq].
    apply slots_upto_In in Hi. apply N.leb_le in Hq.
    rewrite hrec_at_ok by lia. destruct (ig_fresh _ _ _ _ I i Hq) as [E1 E2].
    unfold nxt in E1. unfold val in E2. rewrite E1, E2. reflexivity.
  - apply forallb_forall. intros i Hi.
    assert (1 <= i < hseq s) by (apply HR; apply in_or_app; right; exact Hi).
    rewrite hrec_at_ok by lia. pose proof (ig_freev _ _ _ _ I i Hi) as E. unfold val in E.
    rewrite E. reflexivity.
Qed.

(* ---------- the size of the buffer ---------- *)
Theorem hencode_length s :
  length (hencode vty s) = (16 + length (hnodes s) * N.to_nat (hrec_len vty))%nat.
Proof.
  unfold hencode. rewrite !app_length, !le_enc_length.
  rewrite (flat_map_length_const (henc_node vty) (N.to_nat (hrec_len vty))); [lia|].
  intros a _. apply henc_node_length.
Qed.

Theorem hash_data_len s : hinv s ->
  length (hencode vty s) = N.to_nat (hdata_len vty (hcap s)).
Proof.
  intros [c [fr I]]. rewrite hencode_length. pose proof (ig_len _ _ _ _ I) as HL.
  unfold len in HL. unfold hdata_len. lia.
Qed.

(* the four header words, little-endian, at byte offsets 0, 4, 8, 12 *)
Theorem hash_header_words s : hinv s ->
  hword (hencode vty s) 0 = hsize s /\ hword (hencode vty s) 1 = hcap s /\
  hword (hencode vty s) 2 = hflh s /\ hword (hencode vty s) 3 = hseq s.
Proof.
  intros [c [fr I]].
  pose proof (ig_cap _ _ _ _ I) as HC. pose proof (ig_seq _ _ _ _ I) as HS.
  pose proof (ig_size_le hash64 _ _ _ I) as HZ. pose proof (ig_range _ _ _ _ I) as HR.
  assert (Hf : hflh s < 4294967296).
  { destruct (lseg_head _ _ _ _ (ig_free _ _ _ _ I)) as [E|E]; [lia|].
    assert (1 <= hflh s < hseq s) by (apply HR; apply in_or_app; right; exact E). lia. }
  unfold hword, hsub, hencode.
  change (N.to_nat (0 * 4)) with 0%nat. change (N.to_nat (1 * 4)) with 4%nat.
  change (N.to_nat (2 * 4)) with 8%nat. change (N.to_nat (3 * 4)) with 12%nat.
  change (N.to_nat 4) with 4%nat.
  assert (W : forall x, x < 4294967296 -> le_dec (le_enc 4 x) = x) by (intros x Hx; apply word32; exact Hx).
  split; [|split; [|split]].
  - cbn [skipn]. rewrite firstn_app_exact by apply le_enc_length. apply W. lia.
  - rewrite skipn_app_exact by apply le_enc_length.
    rewrite firstn_app_exact by apply le_enc_length. apply W. lia.
  - rewrite app_assoc. rewrite skipn_app_exact by (rewrite app_length, !le_enc_length; reflexivity).
    rewrite firstn_app_exact by apply le_enc_length. apply W. exact Hf.
  - rewrite !app_assoc. rewrite <- (app_assoc _ (le_enc 4 (hseq s)) _).
    rewrite skipn_app_exact by (rewrite !app_length, !le_enc_length; reflexivity).
    rewrite firstn_app_exact by apply le_enc_length. apply W. lia.
Qed.

(* ---------- C10: the independent reader in every state of the invariant ---------- *)
Definition hd_live (d : hdoc) : list N := map fst (concat (hd_buckets d)).
Definition hd_members (d : hdoc) : list Z := map snd (concat (hd_buckets d)).

Theorem hash_doc s : hinv s -> fits 0%Z -> (forall v, In v (habs s) -> fits v) ->
  exists d, hdecode_doc vty hash64 (hencode vty s) = Some d /\
    hd_wf d = true /\
    hd_hdr d = [hsize s; hcap s; hflh s; hseq s] /\
    zs_sort (hd_members d) = habs s /\
    Permutation (hd_members d) (habs s) /\
    length (hd_buckets d) = N.to_nat (hcap s) /\
    (forall b, b < hcap s ->
       map snd (nth (N.to_nat b) (hd_buckets d) []) = hbucket_members s b /\
       forall v, In v (hbucket_members s b) <-> In v (habs s) /\ (hash64 v mod 2 ^ 32) mod hcap s = b) /\
    NoDup (hd_live d ++ hd_free d ++ hd_never d) /\
    (forall i, In i (hd_live d ++ hd_free d ++ hd_never d) <-> 1 <= i <= hcap s) /\
    N.of_nat (length (hd_live d)) = hsize s /\
    length (hencode vty s) = N.to_nat (hdata_len vty (hcap s)).
Proof.
  intros Hi Z0 Hv. pose proof (hinv_roundtrip hash64 vty s Hi Z0 Hv) as Hrt.
  pose proof (hash_data_len s Hi) as Hlen. pose proof Hi as Hi0.
  destruct Hi as [c [fr I]].
  exists (hdoc_of s c fr). split; [apply hdecode_doc_inv; assumption|].
  pose proof (ig_seq _ _ _ _ I) as HS. pose proof (ig_range _ _ _ _ I) as HR.
  unfold hd_live, hd_members, hdoc_of. cbn [hd_wf hd_hdr hd_buckets hd_free hd_never].
  rewrite hchains_fst, hchains_snd.
  split; [reflexivity|]. split; [reflexivity|].
  split; [symmetry; apply (habs_eq hash64 s c fr I)|].
  split.
  { rewrite (habs_eq hash64 s c fr I). apply Permutation_sym, zs_sort_Permutation. apply (ig_vals _ _ _ _ I). }
  split; [unfold hchains, bks; rewrite !map_length, seq_length; reflexivity|].
  split.
  { intros b Hb. split; [|intros v; exact (hash_bucket_members hash64 s b v Hi0 Hb)].
    unfold hbucket_members. rewrite (hbucket_slots_eq hash64 s c fr b I Hb).
    unfold hchains, bks. rewrite map_map.
    rewrite (nth_indep _ [] (map (fun i => (i, val (hnodes s) i)) (c (N.of_nat 0))))
      by (rewrite map_length, seq_length; lia).
    rewrite (map_nth (fun x => map (fun i => (i, val (hnodes s) i)) (c (N.of_nat x)))).
    rewrite seq_nth by lia. cbn [Nat.add]. rewrite N2Nat.id, map_map. reflexivity. }
  assert (Full : forall i, 1 <= i < hseq s -> In i (live s c ++ fr)).
  { apply pigeon_full; [apply (ig_nodup _ _ _ _ I) | exact HR|].
    rewrite app_length. apply (ig_count _ _ _ _ I). }
  split; [|split; [|split; [symmetry; apply (ig_size _ _ _ _ I) | exact Hlen]]].
  - rewrite app_assoc. apply nodup_app_intro.
    + apply (ig_nodup _ _ _ _ I).
    + apply NoDup_filter. apply slots_upto_NoDup.
    + intros x Hx Hf. apply filter_In in Hf. destruct Hf as [_ Hq]. apply N.leb_le in Hq.
      specialize (HR x Hx). lia.
  - intros i. rewrite app_assoc, in_app_iff, filter_In, slots_upto_In, N.leb_le. split.
    + intros [H|H]; [specialize (HR i H); lia | lia].
    + intros H. destruct (N.lt_ge_cases i (hseq s)) as [Hlt|Hge].
      * left. apply Full. lia.
      * right. lia.
Qed.

(* ---------- C09 at the level of bytes ---------- *)
Theorem hash_refused_bytes s o s' out :
  hstep_c hash64 s o = Ok (s', out) -> hop_writes o out = false -> hencode vty s' = hencode vty s.
Proof. intros H W. rewrite (hash_refused_unchanged hash64 s o s' out H W). reflexivity. Qed.

(* ---------- C04: decode after encode; continuing after a re-open ---------- *)
Theorem hash_reopen_continues s ops1 ops2 : hinv s -> fits 0%Z ->
  (forall v, In v (habs s) -> fits v) -> (forall v, In (HInsert v) ops1 -> fits v) ->
  exists s1 s1',
    hexec hash64 s ops1 = Ok s1 /\
    hdecode vty (hencode vty s1) = Some s1' /\ s1' = s1 /\
    hencode vty s1' = hencode vty s1 /\
    hrun_c hash64 s (ops1 ++ ops2) = hrun_c hash64 s ops1 ++ hrun_c hash64 s1' ops2.
Proof.
  intros Hi Z0 Hv Hops. destruct (hexec_total hash64 ops1 s Hi) as [s1 [He [Hi1 _]]].
  exists s1, s1. split; [exact He|]. split.
  - apply (hinv_roundtrip hash64 vty s1 Hi1 Z0). intros v Hin.
    destruct (hexec_members hash64 ops1 s s1 v Hi He Hin) as [H|H]; [apply Hv; exact H | apply Hops; exact H].
  - split; [reflexivity|]. split; [reflexivity|]. apply hrun_c_app. exact He.
Qed.

Theorem hash_reopen_anywhere cap ops1 ops2 : cap + 1 < 2 ^ 32 -> fits 0%Z ->
  (forall v, In (HInsert v) ops1 -> fits v) ->
  exists s1 s1',
    hexec hash64 (hinit_c cap cap) ops1 = Ok s1 /\
    hdecode vty (hencode vty s1) = Some s1' /\ s1' = s1 /\
    hencode vty s1' = hencode vty s1 /\
    hrun_c hash64 (hinit_c cap cap) (ops1 ++ ops2)
    = hrun_c hash64 (hinit_c cap cap) ops1 ++ hrun_c hash64 s1' ops2.
Proof.
  intros Hc Z0 Hops. apply hash_reopen_continues; [apply hinv_init_c; exact Hc | exact Z0 | | exact Hops].
  intros v Hin. rewrite (habs_init hash64 cap Hc) in Hin. destruct Hin.
Qed.

(* ---------- C10 along histories ---------- *)
Theorem hash_doc_reachable cap ops : cap + 1 < 2 ^ 32 -> fits 0%Z ->
  (forall v, In (HInsert v) ops -> fits v) ->
  exists s d, hexec hash64 (hinit_c cap cap) ops = Ok s /\ hcap s = cap /\
    hdecode_doc vty hash64 (hencode vty s) = Some d /\
    hd_wf d = true /\
    hd_hdr d = [hsize s; cap; hflh s; hseq s] /\
    zs_sort (hd_members d) = habs s /\
    NoDup (hd_live d ++ hd_free d ++ hd_never d) /\
    (forall i, In i (hd_live d ++ hd_free d ++ hd_never d) <-> 1 <= i <= cap) /\
    length (hencode vty s) = N.to_nat (hdata_len vty cap).
Proof.
  intros Hc Z0 Hops. destruct (hash_reachable hash64 cap ops Hc) as [s [He [Hi Hcap]]].
  assert (Hv : forall v, In v (habs s) -> fits v).
  { intros v Hin. destruct (hexec_members hash64 ops _ s v (hinv_init_c hash64 cap Hc) He Hin) as [H|H].
    - rewrite (habs_init hash64 cap Hc) in H. destruct H.
    - apply Hops. exact H. }
  destruct (hash_doc s Hi Z0 Hv) as [d [H1 [H2 [H3 [H4 [_ [_ [_ [H5 [H6 [_ H7]]]]]]]]]]].
  exists s, d. subst cap.
  split; [exact He|]. split; [reflexivity|]. split; [exact H1|]. split; [exact H2|]. split; [exact H3|].
  split; [exact H4|]. split; [exact H5|]. split; [exact H6 | exact H7].
Qed.

(* ---------- C12: the zero-filled state is the all-zero buffer ---------- *)
Theorem hash_zero_bytes n :
  hencode vty (mkHS 0 0 0 0 (repeat hnode0 n)) = zeros (16 + n * N.to_nat (hrec_len vty)).
Proof.
  assert (Z : allz (hencode vty (mkHS 0 0 0 0 (repeat hnode0 n)))).
  { unfold hencode. cbn [hsize hcap hflh hseq hnodes].
    repeat (apply allz_app; [apply allz_le_enc_0|]).
    apply allz_flat_map. intros a Ha. rewrite (repeat_spec _ _ _ Ha).
    unfold henc_node, hnode0. cbn [hb hn hv].
    repeat (apply allz_app; [first [apply allz_le_enc_0 | apply allz_zeros | apply allz_z_enc_0]|]).
    apply allz_zeros. }
  rewrite (allz_zeros_eq _ Z), hencode_length. cbn [hnodes]. rewrite repeat_length. reflexivity.
Qed.

Theorem hash_zero_buffer_decodes n : fits 0%Z ->
  hdecode vty (zeros (16 + n * N.to_nat (hrec_len vty))) = Some (mkHS 0 0 0 0 (repeat hnode0 n)).
Proof.
  intros Z0. rewrite <- hash_zero_bytes. apply hdecode_hencode.
  unfold hst_ok. cbn [hsize hcap hflh hseq hnodes].
  repeat (split; [reflexivity|]). apply Forall_forall. intros a Ha. rewrite (repeat_spec _ _ _ Ha).
  unfold hnode_ok, hnode0. cbn [hb hn hv]. split; [reflexivity|]. split; [reflexivity | exact Z0].
Qed.

End Doc.

Print Assumptions hdecode_doc_inv.
Print Assumptions hash_data_len.
Print Assumptions hash_header_words.
Print Assumptions hash_doc.
Print Assumptions hash_refused_bytes.
Print Assumptions hash_reopen_continues.
Print Assumptions hash_reopen_anywhere.
Print Assumptions hash_doc_reachable.
Print Assumptions hash_zero_bytes.
Print Assumptions hash_zero_buffer_decodes.
