(* Byte format of the hash set: encode / decode / independent reader. *)
From Coq Require Import List NArith ZArith Bool Arith.
From Stevia Require Import Base.Res Base.Bytes Hash.Impl.
Import ListNotations.
Open Scope N_scope.

Section Fmt.
Variable vty : fty.
Variable hash64 : Z -> N.

Definition hvsz := fsz vty.
Definition hvoff : N := round_up 8 hvsz.
Definition hrec_len : N := round_up (hvoff + hvsz) (N.max 4 hvsz).
Definition hdata_len (capacity : N) : N := 16 + capacity * hrec_len.

Definition henc_node (n : hnode) : list N :=
  le_enc 4 (hb n) ++ le_enc 4 (hn n) ++ zeros (N.to_nat (hvoff - 8))
  ++ z_enc (N.to_nat hvsz) (hv n) ++ zeros (N.to_nat (hrec_len - (hvoff + hvsz))).

Definition hencode (s : hst) : list N :=
  le_enc 4 (hsize s) ++ le_enc 4 (hcap s) ++ le_enc 4 (hflh s) ++ le_enc 4 (hseq s)
  ++ flat_map henc_node (hnodes s).

Definition hsub (bs : list N) (off len : N) : list N :=
  firstn (N.to_nat len) (skipn (N.to_nat off) bs).
Definition hword (bs : list N) (i : N) : N := le_dec (hsub bs (i * 4) 4).

Definition hdec_node (bs : list N) : hnode :=
  mkH (hword bs 0) (hword bs 1) (z_dec (fsigned vty) (hsub bs hvoff hvsz)).

Fixpoint hdec_nodes (cnt : nat) (bs : list N) : list hnode :=
  match cnt with
  | O => []
  | S c => hdec_node (firstn (N.to_nat hrec_len) bs) :: hdec_nodes c (skipn (N.to_nat hrec_len) bs)
  end.

Definition hdecode (bs : list N) : option hst :=
  if (length bs <? 16)%nat then None else
  let body := skipn 16 bs in
  if negb (N.of_nat (length body) mod hrec_len =? 0) then None else
  let cnt := N.to_nat (N.of_nat (length body) / hrec_len) in
  Some (mkHS (hword bs 0) (hword bs 1) (hword bs 2) (hword bs 3) (hdec_nodes cnt body)).

Definition hrec_at (s : hst) (i : N) : option hnode :=
  if i =? 0 then None else nth_error (hnodes s) (N.to_nat (i - 1)).

(* chain of (slot, value) from a head through the next register *)
Fixpoint dchain (fuel : nat) (s : hst) (i : N) : option (list (N * Z)) :=
  match fuel with
  | O => None
  | S f =>
    if i =? 0 then Some [] else
    match hrec_at s i with
    | None => None
    | Some n => match dchain f s (hn n) with Some r => Some ((i, hv n) :: r) | None => None end
    end
  end.

Fixpoint hfree_chain (n : nat) (s : hst) (i : N) : option (list N) :=
  match n with
  | O => Some []
  | S c =>
    match hrec_at s i with
    | None => None
    | Some x => match hfree_chain c s (hn x) with Some r => Some (i :: r) | None => None end
    end
  end.

Fixpoint hnodupb (l : list N) : bool :=
  match l with [] => true | a :: r => negb (existsb (N.eqb a) r) && hnodupb r end.
Fixpoint znodupb (l : list Z) : bool :=
  match l with [] => true | a :: r => negb (existsb (Z.eqb a) r) && znodupb r end.

Fixpoint all_some {A} (l : list (option A)) : option (list A) :=
  match l with
  | [] => Some []
  | Some a :: r => match all_some r with Some r' => Some (a :: r') | None => None end
  | None :: _ => None
  end.

Record hdoc := mkHDoc {
  hd_hdr : list N;
  hd_buckets : list (list (N * Z));   (* per bucket: chain of (slot, value) *)
  hd_free : list N;
  hd_never : list N;
  hd_wf : bool
}.

Definition hdecode_doc (bs : list N) : option hdoc :=
  match hdecode bs with
  | None => None
  | Some s =>
    let cap := hcap s in
    let fuel := S (length (hnodes s)) in
    match all_some (map (fun b => match nth_error (hnodes s) b with
                                  | Some n => dchain fuel s (hb n) | None => None end)
                        (List.seq 0 (N.to_nat cap))) with
    | None => None
    | Some chains =>
      let live := map fst (concat chains) in
      let nlive := N.of_nat (length live) in
      let nfree := N.to_nat (hseq s - 1 - nlive) in
      match hfree_chain nfree s (hflh s) with
      | None => None
      | Some fr =>
        let never := filter (fun i => hseq s <=? i) (map N.of_nat (List.seq 1 (N.to_nat cap))) in
        let bucket_ok :=
          forallb (fun bc => forallb (fun sv => (hash64 (snd sv) mod 2 ^ 32) mod cap =? fst bc) (snd bc))
                  (combine (map N.of_nat (List.seq 0 (N.to_nat cap))) chains) in
        let wf :=
          hnodupb (live ++ fr)
          && forallb (fun i => (1 <=? i) && (i <? hseq s)) (live ++ fr)
          && (nlive =? hsize s) && (nlive + 1 <=? hseq s) && (hseq s <=? cap + 1)
          && (N.of_nat (length (hnodes s)) =? cap)
          && znodupb (map snd (concat chains))
          && bucket_ok
          && forallb (fun i => match hrec_at s i with
                               | Some n => (hn n =? 0) && (hv n =? 0)%Z | None => false end) never
          && forallb (fun i => match hrec_at s i with
                               | Some n => (hv n =? 0)%Z | None => false end) fr
        in
        Some (mkHDoc [hsize s; hcap s; hflh s; hseq s] chains fr never wf)
      end
    end
  end.
End Fmt.
