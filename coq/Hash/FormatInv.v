(* States satisfying the invariant survive an encode / decode round trip
   (all their words fit 32 bits), provided the member values fit the value type. *)
From Coq Require Import List NArith ZArith Bool Lia Arith Permutation.
From Stevia Require Import Base.Res Base.Bytes Hash.Impl Hash.Spec Hash.Format Hash.ZSet Hash.Mem Hash.Inv
  Hash.FormatFacts.
Import ListNotations.
Open Scope N_scope.
Arguments N.add : simpl never.
Arguments N.sub : simpl never.
Arguments N.mul : simpl never.
Arguments N.eqb : simpl never.
Arguments N.ltb : simpl never.
Arguments N.leb : simpl never.
Arguments N.pow : simpl never.
Arguments N.of_nat : simpl never.
Arguments N.to_nat : simpl never.

Lemma lseg_head ns l : forall h t, lseg ns h l t -> h = t \/ In h l.
Proof. destruct l as [|i r]; intros h t H; cbn [lseg] in H; [auto|]. destruct H as [-> _]. right; left; auto. Qed.

Lemma lseg_nxt ns l : forall h t i, lseg ns h l t -> In i l -> nxt ns i = t \/ In (nxt ns i) l.
Proof.
  induction l as [|j r IH]; intros h t i H Hi; [destruct Hi|].
  cbn [lseg] in H. destruct H as [-> H]. destruct Hi as [->|Hi].
  - destruct (lseg_head _ _ _ _ H) as [E|E]; [left; auto|right; right; auto].
  - destruct (IH _ _ _ H Hi) as [E|E]; [left; auto|right; right; auto].
Qed.

(* a duplicate-free list of q-1 numbers in [1,q) contains all of them *)
Lemma pigeon_full (l : list N) q : NoDup l -> (forall i, In i l -> 1 <= i < q) ->
  N.of_nat (length l) + 1 = q -> forall i, 1 <= i < q -> In i l.
Proof.
  intros ND R L i Hi.
  apply (NoDup_length_incl ND (l' := map N.of_nat (seq 1 (length l)))).
  - rewrite map_length, seq_length. lia.
  - intros j Hj. apply R in Hj. apply in_map_iff. exists (N.to_nat j). split; [lia|].
    apply in_seq. lia.
  - apply in_map_iff. exists (N.to_nat i). split; [lia|]. apply in_seq. lia.
Qed.

Section FI.
Variable hash64 : Z -> N.
Variable vty : fty.

Theorem hinv_hst_ok s : hinv hash64 s ->
  zval_ok (fsigned vty) (N.to_nat (hvsz vty)) 0 ->
  (forall v, In v (habs s) -> zval_ok (fsigned vty) (N.to_nat (hvsz vty)) v) ->
  hst_ok vty s.
Proof.
  intros [c [fr I]] Z0 Hv.
  pose proof (ig_len _ _ _ _ I) as HL. pose proof (ig_cap _ _ _ _ I) as HC.
  pose proof (ig_seq _ _ _ _ I) as HS. pose proof (ig_size_le hash64 _ _ _ I) as HZ.
  pose proof (ig_range _ _ _ _ I) as HR.
  change (2 ^ 32) with 4294967296 in *.
  unfold hst_ok. change (2 ^ 32) with 4294967296.
  split; [lia|]. split; [lia|]. split.
  { destruct (lseg_head _ _ _ _ (ig_free _ _ _ _ I)) as [E|E]; [lia|].
    assert (1 <= hflh s < hseq s) by (apply HR; apply in_or_app; auto). lia. }
  split; [lia|].
  assert (forall i, 1 <= i < hseq s -> In i (live s c ++ fr)) as Full.
  { apply pigeon_full; auto. apply (ig_nodup _ _ _ _ I). rewrite app_length. apply (ig_count _ _ _ _ I). }
  apply Forall_forall. intros n Hn. apply (In_nth _ _ hnode0) in Hn. destruct Hn as [r [Hr En]].
  unfold len in HL.
  assert (n = rec (hnodes s) (N.of_nat r)) as ->.
  { unfold rec. rewrite Nat2N.id. auto. }
  unfold hnode_ok. change (2 ^ 32) with 4294967296.
  assert (N.of_nat r < hcap s) as Hb by lia.
  set (i := N.of_nat r + 1).
  assert (rec (hnodes s) (N.of_nat r) = slot (hnodes s) i) as Es.
  { unfold i. rewrite slot_rec by lia. f_equal. lia. }
  split; [|rewrite Es; fold (nxt (hnodes s) i); fold (val (hnodes s) i)].
  - fold (bkt (hnodes s) (N.of_nat r)).
    destruct (lseg_head _ _ _ _ (ig_chain _ _ _ _ I _ Hb)) as [E|E]; [lia|].
    pose proof (ig_chain_range hash64 _ _ _ I _ _ Hb E). lia.
  - destruct (N.lt_ge_cases i (hseq s)) as [Hlt|Hge].
    + assert (In i (live s c ++ fr)) as Hin by (apply Full; unfold i; lia).
      apply in_app_or in Hin. destruct Hin as [Hin|Hin].
      * pose proof Hin as Hin'. unfold live in Hin. apply in_flat_map_bks in Hin.
        destruct Hin as [b [Hb0 Hin]]. split.
        -- destruct (lseg_nxt _ _ _ _ _ (ig_chain _ _ _ _ I _ Hb0) Hin) as [E|E]; [lia|].
           pose proof (ig_chain_range hash64 _ _ _ I _ _ Hb0 E). lia.
        -- apply Hv. apply (habs_In hash64 s c fr I). eauto.
      * split.
        -- destruct (lseg_nxt _ _ _ _ _ (ig_free _ _ _ _ I) Hin) as [E|E]; [lia|].
           assert (1 <= nxt (hnodes s) i < hseq s) by (apply HR; apply in_or_app; auto). lia.
        -- rewrite (ig_freev _ _ _ _ I i Hin). auto.
    + destruct (ig_fresh _ _ _ _ I i Hge) as [E1 E2]. rewrite E1, E2. split; [lia|auto].
Qed.

Theorem hinv_roundtrip s : hinv hash64 s ->
  zval_ok (fsigned vty) (N.to_nat (hvsz vty)) 0 ->
  (forall v, In v (habs s) -> zval_ok (fsigned vty) (N.to_nat (hvsz vty)) v) ->
  hdecode vty (hencode vty s) = Some s.
Proof. intros H Z0 Hv. apply hdecode_hencode. apply hinv_hst_ok; auto. Qed.

End FI.
