(* "A live entry never moves to another record", for the chained hash set.

   [hinsert] and [hremove] never copy a value from one record to another: an
   insertion writes the new value into the record handed out by [add_node]
   (the free-list head, or the next never-used record) and a removal only
   unlinks the record of the removed value and pushes it on the free list.
   The refinement theorems of Hash/Refine.v hide the ghost chain function
   behind [hinv]; here the insert / remove proofs are redone with the ghost
   state of the result exposed ([hinsert_spec_g], [hremove_spec_g]), and the
   slot-stability theorems are read off. *)
From Coq Require Import List NArith ZArith Bool Lia Permutation.
From Stevia Require Import Base.Res Base.ResMore Hash.Impl Hash.Spec Hash.ZSet Hash.Mem Hash.Inv Hash.Refine
  Hash.HashProps Hash.HashMore.
Import ListNotations.
Open Scope N_scope.
Arguments N.add : simpl never.
Arguments N.sub : simpl never.
Arguments N.mul : simpl never.
Arguments N.div : simpl never.
Arguments N.modulo : simpl never.
Arguments N.eqb : simpl never.
Arguments N.ltb : simpl never.
Arguments N.leb : simpl never.
Arguments N.pow : simpl never.
Arguments N.of_nat : simpl never.
Arguments N.to_nat : simpl never.
Arguments Z.add : simpl never.
Arguments Z.sub : simpl never.
Arguments Z.ltb : simpl never.
Arguments Z.eqb : simpl never.

Section Stable.
Variable hash64 : Z -> N.
Notation hinv_g := (hinv_g hash64).
Notation hinv := (hinv hash64).
Notation bucket_ix := (bucket_ix hash64).
Notation hexec := (hexec hash64).

(* [live] only looks at the capacity word *)
Lemma live_cap s s' c : hcap s' = hcap s -> live s' c = live s c.
Proof. intros E. unfold live. rewrite E. reflexivity. Qed.

(* ================= insertion, ghost form ================= *)
(* A successful insertion conses the allocated slot [hflh s] on the chain of
   the value's bucket, leaves every other chain as it was, and changes the
   value register of that slot only. *)
Lemma hinsert_spec_g s c fr v : hinv_g s c fr ->
  hsize s <> hcap s -> zs_mem (habs s) v = false ->
  exists s' fr',
    hinsert hash64 s v = Ok (s', true) /\
    hinv_g s' (fun b => if b =? bucket_ix (hcap s) v then hflh s :: c b else c b) fr' /\
    hcap s' = hcap s /\
    (exists s1, add_node s v = Ok (s1, hflh s)) /\
    ~ In (hflh s) (live s c) /\
    Permutation (live s (fun b => if b =? bucket_ix (hcap s) v then hflh s :: c b else c b))
                (hflh s :: live s c) /\
    (forall i, val (hnodes s') i = if i =? hflh s then v else val (hnodes s) i).
Proof.
  intros I E M. unfold hinsert.
  pose proof (ig_size_le _ _ _ _ I) as Hle.
  destruct (N.eqb_spec (hsize s) (hcap s)) as [E0|_]; [contradiction|].
  assert (hsize s < hcap s) as Hlt by lia.
  assert (hcap s <> 0) as Hc by lia.
  destruct (bucket_of_ok hash64 s v Hc) as [-> Hidx]. cbn [bind].
  set (index := bucket_ix (hcap s) v) in *.
  pose proof (ig_len _ _ _ _ I) as HL.
  rewrite getb_ok by (rewrite HL; auto). cbn [bind].
  change (hb (rec (hnodes s) index)) with (bkt (hnodes s) index).
  unfold index at 1. rewrite (search_find hash64 s c fr v I Hc). cbn [bind].
  rewrite M.
  destruct (add_node_spec hash64 s c fr v I Hlt) as [fr' [sq [fl [Hadd [A1 [A2 [A3 [A4 [A5 [A6 [A7 _]]]]]]]]]]].
  rewrite Hadd. cbn [bind hnodes]. set (k := hflh s) in *. set (ns := hnodes s) in *.
  assert (1 <= k <= len ns) as Rk.
  { assert (1 <= k < sq) by (apply A2; left; auto). lia. }
  rewrite getb_ok by (rewrite len_upd_s, HL; auto). cbn [bind].
  rewrite setb_upd_b by (rewrite len_upd_s, HL; auto). cbn [bind].
  rewrite hgetn_ok by (rewrite len_upd_b, len_upd_s; auto). cbn [bind].
  rewrite hsetn_upd_n by (rewrite len_upd_b, len_upd_s; auto). cbn [bind].
  unfold hwith_nodes. cbn [hsize hcap hflh hseq hnodes].
  match goal with |- context [mkHS _ _ _ _ ?n] => set (ns2 := n) end.
  assert (index < len (upd_s ns k 0 v)) as Hi1 by (rewrite len_upd_s, HL; auto).
  assert (1 <= k <= len (upd_b (upd_s ns k 0 v) index k)) as Hk1
    by (rewrite len_upd_b, len_upd_s; auto).
  rewrite zs_mem_false in M.
  assert (forall i, In i (c index) -> val ns i <> v) as Habs.
  { intros i Hi Hvi. apply M. apply (habs_In_bucket hash64 s c fr I v Hc). exists i. auto. }
  assert (forall i, val ns2 i = if i =? k then v else val ns i) as Hval.
  { intros i. unfold ns2. rewrite val_upd_s, !val_upd_b, !val_upd_s by auto.
    rewrite N.eqb_refl. destruct (i =? k); reflexivity. }
  destruct (hinv_insert hash64 s c fr v index k fr' sq fl ns2 I Hidx eq_refl Habs A1 A2 A3 A4 A5 A6 A7)
    as [I' [P PV]].
  - unfold ns2. rewrite len_upd_s, len_upd_b, len_upd_s. reflexivity.
  - intros b. unfold ns2. rewrite bkt_upd_s, bkt_upd_b, bkt_upd_s by auto. reflexivity.
  - intros i. unfold ns2. rewrite nxt_upd_s, nxt_upd_b, nxt_upd_s by auto.
    destruct (i =? k); reflexivity.
  - exact Hval.
  - eexists _, fr'. split; [reflexivity|]. split; [exact I'|].
    split; [reflexivity|]. split; [eexists; reflexivity|].
    split.
    { inversion A1 as [|x l Hn ND]; subst. intros Hin. apply Hn. apply in_or_app. left. exact Hin. }
    split; [exact P|]. cbn [hnodes]. exact Hval.
Qed.

(* ================= removal, ghost form ================= *)
(* A successful removal deletes one slot [cur] (the record of the removed
   value) from the chain of its bucket, leaves the other chains as they were,
   pushes [cur] on the free list and zeroes its value register; no other value
   register changes. *)
Lemma hremove_spec_g s c fr v : hinv_g s c fr -> zs_mem (habs s) v = true ->
  exists s' cur c',
    hremove hash64 s v = Ok (s', true) /\
    hinv_g s' c' (cur :: fr) /\ hcap s' = hcap s /\ hflh s' = cur /\
    Permutation (live s c) (cur :: live s c') /\
    ~ In cur (live s c') /\
    val (hnodes s) cur = v /\
    (forall b, b <> bucket_ix (hcap s) v -> c' b = c b) /\
    (forall i, val (hnodes s') i = if i =? cur then 0%Z else val (hnodes s) i).
Proof.
  intros I M. unfold hremove, his_empty.
  pose proof (ig_size_le _ _ _ _ I) as Hle.
  destruct (N.eqb_spec (hsize s) 0) as [E|E].
  { exfalso. pose proof (habs_length hash64 s c fr I) as HL. rewrite E in HL.
    destruct (habs s) as [|x r]; [discriminate M|]. cbn [length] in HL. lia. }
  assert (hcap s <> 0) as Hc by lia.
  destruct (bucket_of_ok hash64 s v Hc) as [-> Hidx]. cbn [bind].
  set (index := bucket_ix (hcap s) v) in *.
  pose proof (ig_len _ _ _ _ I) as HL.
  rewrite getb_ok by (rewrite HL; auto). cbn [bind].
  change (hb (rec (hnodes s) index)) with (bkt (hnodes s) index).
  set (ns := hnodes s) in *.
  pose proof (ig_chain _ _ _ _ I index Hidx) as Hseg. fold ns in Hseg.
  assert (forall i, In i (c index) -> 1 <= i <= len ns) as Rng.
  { intros i Hi. eapply ig_chain_range'; eauto. }
  pose proof (ig_chain_len hash64 s c fr I index Hidx) as Hfuel. fold ns in Hfuel.
  pose proof (zs_mem_habs hash64 s c fr v I Hc) as Hmem. fold index in Hmem. fold ns in Hmem.
  destruct (first_split ns v (c index)) as [Hnone|[l1 [cur [l2 [Hsplit [Hl1 Hcur]]]]]].
  { exfalso. apply existsb_val_false in Hnone. rewrite Hnone in Hmem. congruence. }
  rewrite Hsplit in Hseg, Rng, Hfuel.
  unfold hfuel. fold ns. rewrite (chain_locate_some ns v l1 _ _ 0 cur l2); auto. cbn [bind].
  assert (1 <= cur <= len ns) as Rcur by (apply Rng; apply in_or_app; right; left; auto).
  assert (1 <= hsize s) as Hsz1 by lia.
  pose proof (ig_chain_NoDup _ _ _ _ I index Hidx) as NDc. rewrite Hsplit in NDc.
  destruct (NoDup_mid _ _ _ NDc) as [Nc1 Nc2].
  cbn [lseg] in Hseg. apply lseg_app in Hseg. destruct Hseg as [m [Hs1 Hs2]].
  cbn [lseg] in Hs2. destruct Hs2 as [-> Hs2].
  (* what is left to do once the invariant of the result is known *)
  assert (Fin : forall ns2,
    (forall i, val ns2 i = if i =? cur then 0%Z else val ns i) ->
    hinv_g (mkHS (hsize s - 1) (hcap s) cur (hseq s) ns2)
           (fun b => if b =? index then l1 ++ l2 else c b) (cur :: fr) ->
    Permutation (live s c) (cur :: live s (fun b => if b =? index then l1 ++ l2 else c b)) ->
    exists s' cur0 c',
      Ok (mkHS (hsize s - 1) (hcap s) cur (hseq s) ns2, true) = Ok (s', true) /\
      hinv_g s' c' (cur0 :: fr) /\ hcap s' = hcap s /\ hflh s' = cur0 /\
      Permutation (live s c) (cur0 :: live s c') /\
      ~ In cur0 (live s c') /\
      val ns cur0 = v /\
      (forall b, b <> index -> c' b = c b) /\
      (forall i, val (hnodes s') i = if i =? cur0 then 0%Z else val ns i)).
  { intros ns2 Hval I' P.
    exists (mkHS (hsize s - 1) (hcap s) cur (hseq s) ns2), cur,
           (fun b => if b =? index then l1 ++ l2 else c b).
    split; [reflexivity|]. split; [exact I'|]. split; [reflexivity|]. split; [reflexivity|].
    split; [exact P|]. split.
    { pose proof (ig_nodup _ _ _ _ I') as ND2. cbn [hcap] in ND2.
      match type of ND2 with context [live (mkHS ?a ?b ?c0 ?d ?e) ?f] =>
        change (live (mkHS a b c0 d e) f) with (live s f) in ND2 end.
      intros Hin. eapply NoDup_app_disj; [apply ND2|apply Hin|left; auto]. }
    split; [exact Hcur|]. split.
    { intros b Hb. destruct (N.eqb_spec b index); [contradiction|reflexivity]. }
    cbn [hnodes]. exact Hval. }
  destruct (list_last_cases l1) as [->|[l1' [p ->]]].
  - (* head of the chain *)
    cbn [last app lseg] in *. subst cur. rename Hs2 into Hs2'.
    set (cur := bkt ns index) in *.
    change (0 =? 0) with true. cbv iota.
    rewrite setb_upd_b by (rewrite HL; auto). cbn [bind].
    rewrite hremove_node_ok; cbn [hwith_nodes hnodes hsize hcap hflh hseq];
      [|rewrite len_upd_b; auto|auto].
    cbn [bind].
    match goal with |- context [mkHS _ _ _ _ ?n] => set (ns2 := n) end.
    assert (index < len ns) as Hil by (rewrite HL; auto).
    assert (1 <= cur <= len (upd_b ns index (nxt ns cur))) as Hcl by (rewrite len_upd_b; auto).
    assert (forall i, nxt ns2 i = if i =? cur then hflh s else nxt ns i) as Hnx.
    { intros i. unfold ns2. rewrite nxt_upd_s, nxt_upd_b by auto. reflexivity. }
    assert (forall i, val ns2 i = if i =? cur then 0%Z else val ns i) as Hval.
    { intros i. unfold ns2. rewrite val_upd_s, val_upd_b by auto. reflexivity. }
    destruct (hinv_remove hash64 s c fr v index [] cur l2 ns2 I Hidx Hsplit Hcur) as [I' [P [NDV PV]]].
    + unfold ns2. rewrite len_upd_s, len_upd_b. reflexivity.
    + intros b Hb. unfold ns2. rewrite bkt_upd_s, bkt_upd_b by auto.
      destruct (N.eqb_spec b index); [congruence|reflexivity].
    + cbn [app]. unfold ns2 at 2. rewrite bkt_upd_s, bkt_upd_b, N.eqb_refl by auto.
      apply lseg_frame with ns; auto. intros i Hi. rewrite Hnx.
      destruct (N.eqb_spec i cur); [congruence|reflexivity].
    + intros i Hi _. rewrite Hnx. destruct (N.eqb_spec i cur); [congruence|reflexivity].
    + rewrite Hnx, N.eqb_refl. reflexivity.
    + exact Hval.
    + apply (Fin ns2 Hval I' P).
  - (* interior node *)
    rewrite last_last in *.
    assert (1 <= p <= len ns) as Rp by (apply Rng; apply in_or_app; left; apply in_or_app; right; left; auto).
    destruct (N.eqb_spec p 0); [lia|].
    rewrite hgetn_ok by auto. cbn [bind].
    rewrite hsetn_upd_n by auto. cbn [bind].
    rewrite hremove_node_ok; cbn [hwith_nodes hnodes hsize hcap hflh hseq];
      [|rewrite len_upd_s; auto|auto].
    cbn [bind].
    assert (p <> cur) as Hpc.
    { intros ->. apply Nc1. apply in_or_app. right; left; auto. }
    match goal with |- context [mkHS _ _ _ _ ?n] => set (ns2 := n) end.
    assert (1 <= cur <= len (upd_s ns p (nxt ns cur) (val ns p))) as Hcl by (rewrite len_upd_s; auto).
    assert (forall i, nxt ns2 i = if i =? cur then hflh s else if i =? p then nxt ns cur else nxt ns i) as Hnx.
    { intros i. unfold ns2. rewrite nxt_upd_s, nxt_upd_s by auto. reflexivity. }
    assert (forall i, val ns2 i = if i =? cur then 0%Z else val ns i) as Hval.
    { intros i. unfold ns2. rewrite !val_upd_s by auto.
      destruct (N.eqb_spec i cur); auto. destruct (N.eqb_spec i p) as [->|]; auto. }
    apply lseg_app in Hs1. destruct Hs1 as [m [Hs1 Hs3]]. cbn [lseg] in Hs3.
    destruct Hs3 as [-> Hs3].
    assert (~ In p l1' /\ ~ In p l2) as [Np1 Np2].
    { rewrite <- app_assoc in NDc. cbn [app] in NDc. apply NoDup_mid in NDc.
      destruct NDc as [A B]. split; auto. intros H. apply B. right; auto. }
    destruct (hinv_remove hash64 s c fr v index (l1' ++ [p]) cur l2 ns2 I Hidx Hsplit Hcur) as [I' [P [NDV PV]]].
    + unfold ns2. rewrite !len_upd_s. reflexivity.
    + intros b Hb. unfold ns2. rewrite !bkt_upd_s by auto. reflexivity.
    + unfold ns2 at 2. rewrite !bkt_upd_s by auto.
      apply lseg_app. exists (nxt ns cur). split.
      * apply lseg_app. exists p. split.
        -- apply lseg_frame with ns; auto. intros i Hi. rewrite Hnx.
           destruct (N.eqb_spec i cur) as [->|E1].
           { exfalso. apply Nc1. apply in_or_app; auto. }
           destruct (N.eqb_spec i p) as [->|E2]; [contradiction|reflexivity].
        -- cbn [lseg]. split; auto. rewrite Hnx.
           destruct (N.eqb_spec p cur); [contradiction|]. rewrite N.eqb_refl. reflexivity.
      * apply lseg_frame with ns; auto. intros i Hi. rewrite Hnx.
        destruct (N.eqb_spec i cur) as [->|E1]; [contradiction|].
        destruct (N.eqb_spec i p) as [->|E2]; [contradiction|reflexivity].
    + intros i Hi Hni. rewrite Hnx. destruct (N.eqb_spec i cur); [congruence|].
      destruct (N.eqb_spec i p) as [->|E2]; [|reflexivity].
      exfalso. apply Hni. apply in_or_app. right; left; auto.
    + rewrite Hnx, N.eqb_refl. reflexivity.
    + exact Hval.
    + apply (Fin ns2 Hval I' P).
Qed.

(* ================= 1. insertion never moves a live entry ================= *)
Theorem hinsert_stable s v s' b : hinv s -> hinsert hash64 s v = Ok (s', b) ->
  (forall i, In i (hslots s) -> In i (hslots s') /\ val (hnodes s') i = val (hnodes s) i) /\
  (b = true ->
   exists k, k = hflh s /\ (exists s1, add_node s v = Ok (s1, k)) /\
     ~ In k (hslots s) /\ In k (hslots s') /\ val (hnodes s') k = v /\
     forall i, In i (hslots s') -> i = k \/ In i (hslots s)).
Proof.
  intros Hi H. destruct b.
  - destruct (hinsert_spec hash64 s v Hi) as [s0 [b0 [H0 [_ [_ [Hb _]]]]]].
    rewrite H in H0. injection H0 as <- <-.
    symmetry in Hb. apply negb_true_iff, orb_false_iff in Hb. destruct Hb as [M Hfull].
    destruct Hi as [c [fr I]].
    assert (hsize s <> hcap s) as Hne.
    { destruct (N.leb_spec (hcap s) (hsize s)); [discriminate|lia]. }
    destruct (hinsert_spec_g s c fr v I Hne M) as [s1 [fr' [H1 [I' [Hcap [Hadd [Hk [P Hval]]]]]]]].
    rewrite H in H1. injection H1 as <-.
    rewrite (hslots_eq hash64 _ _ _ I'), (hslots_eq hash64 _ _ _ I), (live_cap s s' _ Hcap).
    split.
    + intros i Hin. split.
      * apply (Permutation_in _ (Permutation_sym P)). right. exact Hin.
      * rewrite Hval. destruct (N.eqb_spec i (hflh s)) as [->|_]; [contradiction|reflexivity].
    + intros _. exists (hflh s). split; [reflexivity|]. split; [exact Hadd|]. split; [exact Hk|].
      split; [apply (Permutation_in _ (Permutation_sym P)); left; reflexivity|].
      split; [rewrite Hval, N.eqb_refl; reflexivity|].
      intros i Hin. apply (Permutation_in _ P) in Hin. destruct Hin as [<-|Hin]; [left|right]; auto.
  - rewrite (hinsert_false_unchanged hash64 s v s' H). split; [auto|discriminate].
Qed.

(* ================= 2. removal moves nothing but the removed entry ================= *)
Theorem hremove_stable s v s' : hinv s -> hremove hash64 s v = Ok (s', true) ->
  exists k, In k (hslots s) /\ val (hnodes s) k = v /\ ~ In k (hslots s') /\
    forall i, In i (hslots s) -> i <> k ->
      In i (hslots s') /\ val (hnodes s') i = val (hnodes s) i.
Proof.
  intros Hi H.
  destruct (hremove_spec hash64 s v Hi) as [s0 [b0 [H0 [_ [_ [Hb _]]]]]].
  rewrite H in H0. injection H0 as <- <-. symmetry in Hb.
  destruct Hi as [c [fr I]].
  destruct (hremove_spec_g s c fr v I Hb) as [s1 [cur [c' [H1 [I' [Hcap [_ [P [Hn [Hv [_ Hval]]]]]]]]]]].
  rewrite H in H1. injection H1 as <-.
  rewrite (hslots_eq hash64 _ _ _ I'), (hslots_eq hash64 _ _ _ I), (live_cap s s' _ Hcap).
  exists cur. split; [apply (Permutation_in _ (Permutation_sym P)); left; reflexivity|].
  split; [exact Hv|]. split; [exact Hn|].
  intros i Hin Hne. split.
  - apply (Permutation_in _ P) in Hin. destruct Hin as [E|Hin]; [congruence|exact Hin].
  - rewrite Hval. destruct (N.eqb_spec i cur); [contradiction|reflexivity].
Qed.

(* the same, naming the slot: it is the new head of the free list, so the
   next allocation hands it out again *)
Theorem hremove_stable_flh s v s' : hinv s -> hremove hash64 s v = Ok (s', true) ->
  In (hflh s') (hslots s) /\ val (hnodes s) (hflh s') = v /\ ~ In (hflh s') (hslots s') /\
  (forall i, In i (hslots s) -> i <> hflh s' ->
     In i (hslots s') /\ val (hnodes s') i = val (hnodes s) i) /\
  (forall i, In i (hslots s') -> In i (hslots s) /\ i <> hflh s').
Proof.
  intros Hi H.
  destruct (hremove_spec hash64 s v Hi) as [s0 [b0 [H0 [_ [_ [Hb _]]]]]].
  rewrite H in H0. injection H0 as <- <-. symmetry in Hb.
  destruct Hi as [c [fr I]].
  destruct (hremove_spec_g s c fr v I Hb) as [s1 [cur [c' [H1 [I' [Hcap [Hf [P [Hn [Hv [_ Hval]]]]]]]]]]].
  rewrite H in H1. injection H1 as <-. rewrite Hf.
  rewrite (hslots_eq hash64 _ _ _ I'), (hslots_eq hash64 _ _ _ I), (live_cap s s' _ Hcap).
  split; [apply (Permutation_in _ (Permutation_sym P)); left; reflexivity|].
  split; [exact Hv|]. split; [exact Hn|]. split.
  - intros i Hin Hne. split.
    + apply (Permutation_in _ P) in Hin. destruct Hin as [E|Hin]; [congruence|exact Hin].
    + rewrite Hval. destruct (N.eqb_spec i cur); [contradiction|reflexivity].
  - intros i Hin. split.
    + apply (Permutation_in _ (Permutation_sym P)). right. exact Hin.
    + intros ->. contradiction.
Qed.

(* ================= 3. one step of the operation language ================= *)
(* the slot of a member is well defined: members are pairwise distinct *)
Lemma hslot_unique s i j : hinv s -> In i (hslots s) -> In j (hslots s) ->
  val (hnodes s) i = val (hnodes s) j -> i = j.
Proof.
  intros [c [fr I]]. rewrite (hslots_eq hash64 _ _ _ I).
  pose proof (ig_vals _ _ _ _ I) as ND. revert ND. generalize (live s c) as l.
  induction l as [|a l IH]; intros ND Hi Hj E; [destruct Hi|].
  cbn [map] in ND. inversion ND as [|x y Hn ND']; subst.
  destruct Hi as [->|Hi]; destruct Hj as [->|Hj]; auto.
  - exfalso. apply Hn. rewrite E. apply in_map. exact Hj.
  - exfalso. apply Hn. rewrite <- E. apply in_map. exact Hi.
Qed.

Lemma habs_slot s w : hinv s ->
  (In w (habs s) <-> exists i, In i (hslots s) /\ val (hnodes s) i = w).
Proof.
  intros [c [fr I]]. rewrite (hslots_eq hash64 _ _ _ I). apply (habs_In hash64 s c fr I).
Qed.

Theorem hstep_stable s o s' out : hinv s -> hstep_c hash64 s o = Ok (s', out) ->
  forall i w, In i (hslots s) -> val (hnodes s) i = w -> In w (habs s') ->
    In i (hslots s') /\ val (hnodes s') i = w.
Proof.
  intros Hi H i w Hin Hw Hmem.
  destruct o as [v|v|v| | | | | | ];
    try (rewrite (hash_refused_unchanged hash64 s _ s' out H eq_refl); split; assumption).
  - cbn [hstep_c] in H. apply bind_ok in H. destruct H as [[s1 b] [H1 H]]. cbv beta iota in H.
    injection H as <- _.
    destruct (hinsert_stable s v s1 b Hi H1) as [St _]. destruct (St i Hin) as [A B].
    split; [exact A|]. rewrite B. exact Hw.
  - cbn [hstep_c] in H. apply bind_ok in H. destruct H as [[s1 b] [H1 H]]. cbv beta iota in H.
    injection H as <- _. destruct b.
    + destruct (hremove_stable s v s1 Hi H1) as [k [Hk [Hv [Hnk St]]]].
      destruct (N.eq_dec i k) as [->|Hne].
      * exfalso. rewrite Hv in Hw. subst w.
        destruct (hremove_only_that_value hash64 s v Hi) as [s0 [b0 [H0 [_ [_ [_ [_ Hiff]]]]]]].
        rewrite H1 in H0. injection H0 as <- <-. apply Hiff in Hmem. destruct Hmem as [_ Hmem]. congruence.
      * destruct (St i Hin Hne) as [A B]. split; [exact A|]. rewrite B. exact Hw.
    + rewrite (hremove_false_unchanged hash64 s v s1 H1). split; assumption.
Qed.

(* ================= 3'. along histories ================= *)
(* a value that is a member after every prefix of the operations in between
   is, at the end, in the record it was in at the start *)
Theorem hexec_stable : forall ops s s', hinv s -> hexec s ops = Ok s' ->
  forall i w, In i (hslots s) -> val (hnodes s) i = w ->
  (forall ops1 ops2 sm, ops = ops1 ++ ops2 -> hexec s ops1 = Ok sm -> In w (habs sm)) ->
  In i (hslots s') /\ val (hnodes s') i = w.
Proof.
  induction ops as [|o r IH]; intros s s' Hi He i w Hin Hw Hstay; cbn [HashProps.hexec] in He.
  - injection He as <-. split; assumption.
  - apply bind_ok in He. destruct He as [[s1 out] [Hr He]]. cbv beta iota in He.
    assert (In w (habs s1)) as Hm1.
    { apply (Hstay [o] r s1); [reflexivity|]. cbn [HashProps.hexec]. rewrite Hr. reflexivity. }
    destruct (hstep_stable s o s1 out Hi Hr i w Hin Hw Hm1) as [A B].
    destruct (hash_total hash64 s o Hi) as [s1' [out' [Hr' [Hi1 _]]]].
    rewrite Hr in Hr'. injection Hr' as <- <-.
    apply (IH s1 s' Hi1 He i w A B).
    intros ops1 ops2 sm E Hsm. apply (Hstay (o :: ops1) ops2 sm); [rewrite E; reflexivity|].
    cbn [HashProps.hexec]. rewrite Hr. cbn [bind]. exact Hsm.
Qed.

(* a member stays a member through every operation other than its removal *)
Lemma hstep_member_stays s o s' out w : hinv s -> hstep_c hash64 s o = Ok (s', out) ->
  In w (habs s) -> o <> HRemove w -> In w (habs s').
Proof.
  intros Hi Hr Hw Hne. destruct (hstep_refines hash64 s o Hi) as [s1 [out1 [H1 [_ Hs]]]].
  rewrite Hr in H1. injection H1 as <- <-.
  assert (E : habs s' = hsmem (fst (hspec_step (mkHSS (hcap s) (habs s)) o))) by (rewrite <- Hs; reflexivity).
  rewrite E. destruct o as [v|v|v| | | | | | ]; cbn [hspec_step hsmem hscap fst]; try exact Hw.
  - destruct (zs_mem (habs s) v || (hcap s <=? hs_len (mkHSS (hcap s) (habs s)))); cbn [fst hsmem]; [exact Hw|].
    apply zs_insert_In. right. exact Hw.
  - apply zs_remove_In; [apply zs_sort_sorted|]. split; [exact Hw|]. intros ->. apply Hne. reflexivity.
Qed.

Theorem hexec_stable_no_remove : forall ops s s', hinv s -> hexec s ops = Ok s' ->
  forall i w, In i (hslots s) -> val (hnodes s) i = w -> ~ In (HRemove w) ops ->
  In i (hslots s') /\ val (hnodes s') i = w /\ In w (habs s').
Proof.
  induction ops as [|o r IH]; intros s s' Hi He i w Hin Hw Hnr; cbn [HashProps.hexec] in He.
  - injection He as <-. split; [assumption|]. split; [assumption|].
    apply (habs_slot s w Hi). exists i. split; assumption.
  - apply bind_ok in He. destruct He as [[s1 out] [Hr He]]. cbv beta iota in He.
    assert (In w (habs s)) as Hm by (apply (habs_slot s w Hi); exists i; split; assumption).
    assert (In w (habs s1)) as Hm1.
    { apply (hstep_member_stays s o s1 out w Hi Hr Hm). intros ->. apply Hnr. left. reflexivity. }
    destruct (hstep_stable s o s1 out Hi Hr i w Hin Hw Hm1) as [A B].
    destruct (hash_total hash64 s o Hi) as [s1' [out' [Hr' [Hi1 _]]]].
    rewrite Hr in Hr'. injection Hr' as <- <-.
    apply (IH s1 s' Hi1 He i w A B). intros Hx. apply Hnr. right. exact Hx.
Qed.

(* from the initial state: between any two points of a history *)
Theorem hash_never_moves_reachable cap ops0 ops s s' : cap + 1 < 2 ^ 32 ->
  hexec (hinit_c cap cap) ops0 = Ok s -> hexec s ops = Ok s' ->
  forall i w, In i (hslots s) -> val (hnodes s) i = w ->
  (forall ops1 ops2 sm, ops = ops1 ++ ops2 -> hexec s ops1 = Ok sm -> In w (habs sm)) ->
  In i (hslots s') /\ val (hnodes s') i = w.
Proof.
  intros Hc He0 He. apply (hexec_stable ops s s'); [|exact He].
  exact (hinv_reachable hash64 cap ops0 s Hc He0).
Qed.

End Stable.

(* ================= "the slot of w" as a function ================= *)
Definition hslot_of (s : hst) (w : Z) : option N :=
  find (fun i => (val (hnodes s) i =? w)%Z) (hslots s).

Lemma hslot_of_some s w i : hslot_of s w = Some i -> In i (hslots s) /\ val (hnodes s) i = w.
Proof.
  unfold hslot_of. intros H. apply find_some in H. destruct H as [H1 H2].
  split; [exact H1|]. apply Z.eqb_eq. exact H2.
Qed.

Lemma hslot_of_iff hash64 s w i : hinv hash64 s ->
  (hslot_of s w = Some i <-> In i (hslots s) /\ val (hnodes s) i = w).
Proof.
  intros Hi. split; [apply hslot_of_some|]. intros [Hin Hw].
  destruct (hslot_of s w) as [j|] eqn:E.
  - apply hslot_of_some in E. destruct E as [Hj Hjw]. f_equal.
    apply (hslot_unique hash64 s j i Hi Hj Hin). congruence.
  - exfalso. unfold hslot_of in E. pose proof (find_none _ _ E i Hin) as F. cbv beta in F.
    apply Z.eqb_neq in F. contradiction.
Qed.

Theorem hstep_stable_slot_of hash64 s o s' out i w : hinv hash64 s ->
  hstep_c hash64 s o = Ok (s', out) ->
  hslot_of s w = Some i -> In w (habs s') -> hslot_of s' w = Some i.
Proof.
  intros Hi H Hs Hm. apply hslot_of_some in Hs. destruct Hs as [Hin Hw].
  destruct (hash_total hash64 s o Hi) as [s1 [out1 [H1 [Hi1 _]]]].
  rewrite H in H1. injection H1 as <- <-.
  apply (hslot_of_iff hash64 s' w i Hi1).
  exact (hstep_stable hash64 s o s' out Hi H i w Hin Hw Hm).
Qed.

Print Assumptions hinsert_spec_g.
Print Assumptions hremove_spec_g.
Print Assumptions hinsert_stable.
Print Assumptions hremove_stable.
Print Assumptions hremove_stable_flh.
Print Assumptions hstep_stable.
Print Assumptions hexec_stable.
Print Assumptions hexec_stable_no_remove.
Print Assumptions hash_never_moves_reachable.
Print Assumptions hslot_of_iff.
Print Assumptions hstep_stable_slot_of.
