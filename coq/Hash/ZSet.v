(* Theory of the strictly sorted duplicate-free lists of Hash/Spec.v:
   zs_insert / zs_remove / zs_mem / zs_sort behave as finite-set operations,
   and the sorted representation is canonical. *)
From Coq Require Import List NArith ZArith Bool Lia Sorting.Sorted Permutation.
From Stevia Require Import Base.Res Hash.Impl Hash.Spec.
Import ListNotations.
Arguments N.add : simpl never.
Arguments N.sub : simpl never.
Arguments N.mul : simpl never.
Arguments N.div : simpl never.
Arguments N.modulo : simpl never.
Arguments N.eqb : simpl never.
Arguments N.ltb : simpl never.
Arguments N.leb : simpl never.
Arguments N.max : simpl never.
Arguments N.min : simpl never.
Arguments N.pow : simpl never.
Arguments N.of_nat : simpl never.
Arguments N.to_nat : simpl never.
Arguments Z.add : simpl never.
Arguments Z.sub : simpl never.
Arguments Z.ltb : simpl never.
Arguments Z.eqb : simpl never.

Definition ssorted (l : list Z) : Prop := StronglySorted Z.lt l.

Lemma ssorted_nil : ssorted [].
Proof. constructor. Qed.

Lemma ssorted_inv x l : ssorted (x :: l) -> ssorted l /\ forall y, In y l -> (x < y)%Z.
Proof.
  intros H. inversion H as [|a b Hs Hf]; subst. split; auto.
  intros y Hy. rewrite Forall_forall in Hf. auto.
Qed.

Lemma ssorted_cons x l : ssorted l -> (forall y, In y l -> (x < y)%Z) -> ssorted (x :: l).
Proof. intros H1 H2. constructor; auto. apply Forall_forall; auto. Qed.

Lemma ssorted_NoDup l : ssorted l -> NoDup l.
Proof.
  induction l as [|x l IH]; intros H; constructor.
  - apply ssorted_inv in H. destruct H as [_ H]. intros Hin. apply H in Hin. lia.
  - apply IH. apply ssorted_inv in H. tauto.
Qed.

Lemma zs_mem_In m v : zs_mem m v = true <-> In v m.
Proof.
  induction m as [|x r IH]; cbn [zs_mem In].
  - split; [discriminate|tauto].
  - rewrite orb_true_iff, IH. destruct (Z.eqb_spec v x) as [E|E].
    + subst. tauto.
    + split; intros [H|H]; auto; try discriminate.
Qed.

Lemma zs_mem_false m v : zs_mem m v = false <-> ~ In v m.
Proof.
  rewrite <- zs_mem_In. destruct (zs_mem m v); split; intros H; auto; try discriminate.
  exfalso; apply H; reflexivity.
Qed.

Lemma zs_insert_In m v x : In x (zs_insert m v) <-> x = v \/ In x m.
Proof.
  induction m as [|a r IH]; cbn [zs_insert].
  - cbn [In]. intuition.
  - destruct (Z.ltb_spec v a).
    + cbn [In]. intuition.
    + destruct (Z.eqb_spec v a).
      * subst. cbn [In]. intuition.
      * cbn [In]. rewrite IH. intuition.
Qed.

Lemma zs_insert_sorted m v : ssorted m -> ssorted (zs_insert m v).
Proof.
  induction m as [|a r IH]; intros H; cbn [zs_insert].
  - apply ssorted_cons; [constructor|]. intros y [].
  - destruct (ssorted_inv _ _ H) as [Hr Ha].
    destruct (Z.ltb_spec v a).
    + apply ssorted_cons; auto. intros y [Hy|Hy]; [lia|]. apply Ha in Hy. lia.
    + destruct (Z.eqb_spec v a); auto.
      apply ssorted_cons; auto. intros y Hy. apply zs_insert_In in Hy.
      destruct Hy as [Hy|Hy]; [lia|auto].
Qed.

Lemma fold_insert_In l : forall acc x, In x (fold_left zs_insert l acc) <-> In x acc \/ In x l.
Proof.
  induction l as [|a l IH]; intros acc x; cbn [fold_left In].
  - tauto.
  - rewrite IH, zs_insert_In. intuition.
Qed.

Lemma fold_insert_sorted l : forall acc, ssorted acc -> ssorted (fold_left zs_insert l acc).
Proof.
  induction l as [|a l IH]; intros acc H; cbn [fold_left]; auto.
  apply IH. apply zs_insert_sorted; auto.
Qed.

Lemma zs_sort_In l x : In x (zs_sort l) <-> In x l.
Proof. unfold zs_sort. rewrite fold_insert_In. cbn [In]. tauto. Qed.

Lemma zs_sort_sorted l : ssorted (zs_sort l).
Proof. apply fold_insert_sorted. constructor. Qed.

(* canonicity *)
Lemma ssorted_ext l1 : forall l2, ssorted l1 -> ssorted l2 ->
  (forall x, In x l1 <-> In x l2) -> l1 = l2.
Proof.
  induction l1 as [|a l1 IH]; intros [|b l2] H1 H2 E; auto.
  - exfalso. apply (E b). left; auto.
  - exfalso. apply (E a). left; auto.
  - destruct (ssorted_inv _ _ H1) as [S1 L1]. destruct (ssorted_inv _ _ H2) as [S2 L2].
    assert (a = b) as ->.
    { assert (In a (b :: l2)) as Ha by (apply E; left; auto).
      assert (In b (a :: l1)) as Hb by (apply E; left; auto).
      destruct Ha as [Ha|Ha]; auto. destruct Hb as [Hb|Hb]; auto.
      apply L2 in Ha. apply L1 in Hb. lia. }
    f_equal. apply IH; auto. intros x. split; intros Hx.
    + assert (In x (b :: l2)) as Hx' by (apply E; right; auto).
      destruct Hx' as [Hx'|Hx']; auto. subst. apply L1 in Hx. lia.
    + assert (In x (b :: l1)) as Hx' by (apply E; right; auto).
      destruct Hx' as [Hx'|Hx']; auto. subst. apply L2 in Hx. lia.
Qed.

Lemma zs_sort_ext l1 l2 : (forall x, In x l1 <-> In x l2) -> zs_sort l1 = zs_sort l2.
Proof.
  intros E. apply ssorted_ext; try apply zs_sort_sorted.
  intros x. rewrite !zs_sort_In. auto.
Qed.

Lemma zs_sort_id l : ssorted l -> zs_sort l = l.
Proof.
  intros H. apply ssorted_ext; auto using zs_sort_sorted. intros x. apply zs_sort_In.
Qed.

Lemma zs_sort_perm l1 l2 : Permutation l1 l2 -> zs_sort l1 = zs_sort l2.
Proof.
  intros P. apply zs_sort_ext. intros x. split; apply Permutation_in; auto using Permutation_sym.
Qed.

Lemma zs_sort_length l : NoDup l -> length (zs_sort l) = length l.
Proof.
  intros H. apply Permutation_length. apply NoDup_Permutation; auto.
  - apply ssorted_NoDup, zs_sort_sorted.
  - intros x. apply zs_sort_In.
Qed.

Lemma zs_sort_Permutation l : NoDup l -> Permutation (zs_sort l) l.
Proof.
  intros H. apply NoDup_Permutation; auto.
  - apply ssorted_NoDup, zs_sort_sorted.
  - intros x. apply zs_sort_In.
Qed.

Lemma zs_remove_notin m v : ~ In v m -> zs_remove m v = m.
Proof.
  induction m as [|a r IH]; intros H; cbn [zs_remove]; auto.
  destruct (Z.eqb_spec v a).
  - exfalso. apply H. left; auto.
  - f_equal. apply IH. intros Hin. apply H. right; auto.
Qed.

Lemma zs_remove_In m v x : ssorted m -> In x (zs_remove m v) <-> In x m /\ x <> v.
Proof.
  induction m as [|a r IH]; intros H; cbn [zs_remove].
  - cbn [In]. tauto.
  - destruct (ssorted_inv _ _ H) as [Hr Ha].
    destruct (Z.eqb_spec v a).
    + subst. cbn [In]. split.
      * intros Hx. split; auto. apply Ha in Hx. lia.
      * intros [[Hx|Hx] Hn]; auto. congruence.
    + cbn [In]. rewrite IH by auto. intuition.
Qed.

Lemma zs_remove_sorted m v : ssorted m -> ssorted (zs_remove m v).
Proof.
  induction m as [|a r IH]; intros H; cbn [zs_remove]; auto.
  destruct (ssorted_inv _ _ H) as [Hr Ha].
  destruct (Z.eqb_spec v a); auto.
  apply ssorted_cons; auto. intros y Hy. apply zs_remove_In in Hy; auto. apply Ha. tauto.
Qed.

(* set-level characterisations used by the refinement proof *)
Lemma zs_sort_as_insert l l' v :
  (forall x, In x l' <-> x = v \/ In x l) -> zs_sort l' = zs_insert (zs_sort l) v.
Proof.
  intros E. apply ssorted_ext.
  - apply zs_sort_sorted.
  - apply zs_insert_sorted, zs_sort_sorted.
  - intros x. rewrite zs_sort_In, zs_insert_In, zs_sort_In. auto.
Qed.

Lemma zs_sort_as_remove l l' v :
  (forall x, In x l' <-> In x l /\ x <> v) -> zs_sort l' = zs_remove (zs_sort l) v.
Proof.
  intros E. apply ssorted_ext.
  - apply zs_sort_sorted.
  - apply zs_remove_sorted, zs_sort_sorted.
  - intros x. rewrite zs_sort_In, zs_remove_In, zs_sort_In by apply zs_sort_sorted. auto.
Qed.
