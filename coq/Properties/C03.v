(* C03 - the array set is a sorted set: the binary search finds the unique
   insertion point, every operation refines the sorted-set specification,
   and the slice view is at all times the members in strictly ascending
   order.  Theorems only; each is closed by [exact] of a lemma proved in
   Arr/Search.v or Arr/Refine.v. *)
From Coq Require Import List NArith ZArith Bool Arith.
From Stevia Require Import Base.Res Arr.Impl Arr.Spec Arr.Search Arr.Refine.
Import ListNotations.
Open Scope N_scope.

(* a history of operations on a zero-initialised buffer answers exactly as
   the bounded sorted set does; no panic, no fuel exhaustion *)
Theorem C03_refines_sorted_set : forall pbytes pre post nslots ops,
  Forall aop_ok ops ->
  arun_c pbytes (ainit_c pre post nslots) ops = map Ok (arun_s pbytes (mkAS nslots []) ops).
Proof. exact arun_refines_init. Qed.
Print Assumptions C03_refines_sorted_set.

(* in every reachable state the slice view is the member list, strictly
   ascending by key, and the surrounding memory is as it was *)
Theorem C03_slice_view_sorted : forall pbytes pre post nslots s,
  areach pbytes (ainit_c pre post nslots) s ->
  aderef s = Ok (aabs s) /\ asc (aabs s) /\ apre s = pre /\ apost s = post.
Proof. exact areach_slice_view. Qed.
Print Assumptions C03_slice_view_sorted.

(* one step: total, invariant-preserving, and equal to the specification step *)
Theorem C03_step : forall pbytes s o, ainv pbytes s -> aop_ok o ->
  exists s' out c, astep_c pbytes s o = Ok (s', out, c) /\ ainv pbytes s' /\
    (mkAS (N.of_nat (length (aslots s'))) (aabs s'), out)
    = aspec_step pbytes (mkAS (N.of_nat (length (aslots s))) (aabs s)) o.
Proof. exact astep_refines. Qed.
Print Assumptions C03_step.

(* the binary search: total, finds the member or the unique insertion point,
   with at most (number of binary digits of the count) comparisons *)
Theorem C03_index_correct : forall pbytes s value, ainv pbytes s ->
  exists f g c, aindex s value = Ok (f, g, c) /\
    ((exists i, f = Some i /\ g = None /\ i < alen s /\ akey s i = fst value) \/
     (exists i, f = None /\ g = Some i /\ i <= alen s /\
        (forall j, j < i -> (akey s j < fst value)%Z) /\
        (forall j, i <= j -> j < alen s -> (fst value < akey s j)%Z))) /\
    c <= (if alen s =? 0 then 0 else N.log2 (alen s) + 1).
Proof. exact aindex_correct. Qed.
Print Assumptions C03_index_correct.

Theorem C03_insertion_point_unique : forall s k i i',
  i <= alen s -> i' <= alen s ->
  (forall j, j < i -> (akey s j < k)%Z) -> (forall j, i <= j -> j < alen s -> (k < akey s j)%Z) ->
  (forall j, j < i' -> (akey s j < k)%Z) -> (forall j, i' <= j -> j < alen s -> (k < akey s j)%Z) ->
  i = i'.
Proof. exact insertion_point_unique. Qed.
Print Assumptions C03_insertion_point_unique.

(* lookups against the member list *)
Theorem C03_get_contains : forall pbytes s value, ainv pbytes s ->
  (exists c, aget_val s value = Ok (as_find (aabs s) (fst value), c)) /\
  (exists c, acontains s value = Ok (match as_find (aabs s) (fst value) with Some _ => true | None => false end, c)).
Proof. exact aget_contains_spec. Qed.
Print Assumptions C03_get_contains.

(* non-vacuity: one-byte prefix, four slots, canary cells around the buffer *)
Example C03_example :
  let ops := [AInsert (5, 50); AInsert (3, 30); AInsert (9, 90); AInsert (3, 31); ATake (5, 0); ADeref; ALen]%Z in
  Forall aop_ok ops /\
  arun_c 1 (ainit_c [(7, 7)%Z] [(8, 8)%Z] 4) ops =
    [Ok (ABool true); Ok (ABool true); Ok (ABool true); Ok (ABool false);
     Ok (ACell (Some (5, 50)%Z)); Ok (AList [(3, 30); (9, 90)]%Z); Ok (ANum 2)].
Proof. split; [repeat constructor | vm_compute; reflexivity]. Qed.

Example C03_example_state :
  let s := mkA [(7, 7)%Z] [(3, 30); (9, 90); (9, 90); (0, 0)]%Z [(8, 8)%Z] 2 in
  areach 1 (ainit_c [(7, 7)%Z] [(8, 8)%Z] 4) s /\ ainv 1 s /\ aindex s (5, 0)%Z = Ok (None, Some 1, 2).
Proof. exact areach_example. Qed.
