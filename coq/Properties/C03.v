(* C03 - the array set is a sorted set: the binary search finds the unique
   insertion point, every operation refines the sorted-set specification,
   and the slice view is at all times the members in strictly ascending
   order.  Theorems only; each is closed by [exact] of a lemma proved in
   Arr/Search.v or Arr/Refine.v. *)
From Coq Require Import List NArith ZArith Bool Arith.
From Stevia Require Import Base.Res Arr.Impl Arr.Spec Arr.Search Arr.Refine Arr.SpecLaws Arr.Clauses.
Import ListNotations.
Open Scope N_scope.

(* a history of operations on a zero-initialised buffer answers exactly as
   the bounded sorted set does; no panic, no fuel exhaustion *)
Theorem C03_refines_sorted_set : forall pbytes pre post nslots ops,
  Forall aop_ok ops ->
  arun_c pbytes (ainit_c pre post nslots) ops = map Ok (arun_s pbytes (mkAS nslots []) ops).
Proof. exact arun_refines_init. Qed.
Print Assumptions C03_refines_sorted_set.

(* in every reachable state the slice view is the member list, strictly
   ascending by key, and the surrounding memory is as it was *)
Theorem C03_slice_view_sorted : forall pbytes pre post nslots s,
  areach pbytes (ainit_c pre post nslots) s ->
  aderef s = Ok (aabs s) /\ asc (aabs s) /\ apre s = pre /\ apost s = post.
Proof. exact areach_slice_view. Qed.
Print Assumptions C03_slice_view_sorted.

(* one step: total, invariant-preserving, and equal to the specification step *)
Theorem C03_step : forall pbytes s o, ainv pbytes s -> aop_ok o ->
  exists s' out c, astep_c pbytes s o = Ok (s', out, c) /\ ainv pbytes s' /\
    (mkAS (N.of_nat (length (aslots s'))) (aabs s'), out)
    = aspec_step pbytes (mkAS (N.of_nat (length (aslots s))) (aabs s)) o.
Proof. exact astep_refines. Qed.
Print Assumptions C03_step.

(* the binary search: total, finds the member or the unique insertion point,
   with at most (number of binary digits of the count) comparisons *)
Theorem C03_index_correct : forall pbytes s value, ainv pbytes s ->
  exists f g c, aindex s value = Ok (f, g, c) /\
    ((exists i, f = Some i /\ g = None /\ i < alen s /\ akey s i = fst value) \/
     (exists i, f = None /\ g = Some i /\ i <= alen s /\
        (forall j, j < i -> (akey s j < fst value)%Z) /\
        (forall j, i <= j -> j < alen s -> (fst value < akey s j)%Z))) /\
    c <= (if alen s =? 0 then 0 else N.log2 (alen s) + 1).
Proof. exact aindex_correct. Qed.
Print Assumptions C03_index_correct.

Theorem C03_insertion_point_unique : forall s k i i',
  i <= alen s -> i' <= alen s ->
  (forall j, j < i -> (akey s j < k)%Z) -> (forall j, i <= j -> j < alen s -> (k < akey s j)%Z) ->
  (forall j, j < i' -> (akey s j < k)%Z) -> (forall j, i' <= j -> j < alen s -> (k < akey s j)%Z) ->
  i = i'.
Proof. exact insertion_point_unique. Qed.
Print Assumptions C03_insertion_point_unique.

(* lookups against the member list *)
Theorem C03_get_contains : forall pbytes s value, ainv pbytes s ->
  (exists c, aget_val s value = Ok (as_find (aabs s) (fst value), c)) /\
  (exists c, acontains s value = Ok (match as_find (aabs s) (fst value) with Some _ => true | None => false end, c)).
Proof. exact aget_contains_spec. Qed.
Print Assumptions C03_get_contains.

(* the specification the refinement theorem refers to is itself a finite map keyed by the first component: over a
   strictly ascending member list, a lookup after an insertion, removal or write through get_mut answers for the touched
   key what was done and for every other key what it answered before; a present key is never overwritten by insert;
   the list stays strictly ascending and its length moves by exactly one; list membership is lookup *)
Theorem C03_spec_is_a_set : forall m, asc m ->
  (forall c, as_find m (fst c) = None ->
     asc (as_insert m c) /\ length (as_insert m c) = S (length m) /\
     as_find (as_insert m c) (fst c) = Some c /\
     forall k, k <> fst c -> as_find (as_insert m c) k = as_find m k) /\
  (forall c, as_find m (fst c) <> None -> as_insert m c = m) /\
  (forall k, asc (as_remove m k) /\ as_find (as_remove m k) k = None /\
     (forall k', k' <> k -> as_find (as_remove m k) k' = as_find m k') /\
     (as_find m k = None -> as_remove m k = m) /\
     (as_find m k <> None -> S (length (as_remove m k)) = length m)) /\
  (forall k new, fst new = k -> as_find m k <> None ->
     as_find (as_update m k new) k = Some new /\ length (as_update m k new) = length m /\
     forall k', k' <> k -> as_find (as_update m k new) k' = as_find m k') /\
  (forall c, In c m <-> as_find m (fst c) = Some c).
Proof. exact sorted_set_laws. Qed.
Print Assumptions C03_spec_is_a_set.

(* [set_laws m] is literally the conclusion above *)
Theorem C03_set_laws_def : forall m, set_laws m <->
  (forall c, as_find m (fst c) = None ->
     asc (as_insert m c) /\ length (as_insert m c) = S (length m) /\
     as_find (as_insert m c) (fst c) = Some c /\
     forall k, k <> fst c -> as_find (as_insert m c) k = as_find m k) /\
  (forall c, as_find m (fst c) <> None -> as_insert m c = m) /\
  (forall k, asc (as_remove m k) /\ as_find (as_remove m k) k = None /\
     (forall k', k' <> k -> as_find (as_remove m k) k' = as_find m k') /\
     (as_find m k = None -> as_remove m k = m) /\
     (as_find m k <> None -> S (length (as_remove m k)) = length m)) /\
  (forall k new, fst new = k -> as_find m k <> None ->
     as_find (as_update m k new) k = Some new /\ length (as_update m k new) = length m /\
     forall k', k' <> k -> as_find (as_update m k new) k' = as_find m k') /\
  (forall c, In c m <-> as_find m (fst c) = Some c).
Proof. exact (fun m => conj (fun H => H) (fun H => H)). Qed.
Print Assumptions C03_set_laws_def.

(* in every reachable state of the concrete model the member list obeys them *)
Theorem C03_reachable_members_are_a_set : forall pbytes pre post nslots s,
  areach pbytes (ainit_c pre post nslots) s -> asc (aabs s) /\ set_laws (aabs s).
Proof. exact areach_set_laws. Qed.
Print Assumptions C03_reachable_members_are_a_set.

(* ---- user-level clauses on the concrete model: what a lookup answers AFTER a mutating operation ---- *)
(* a successful insert: the value is found under its key; every other key answers exactly as before *)
Theorem C03_insert_then_get : forall pbytes s c s' n, ainv pbytes s ->
  astep_c pbytes s (AInsert c) = Ok (s', ABool true, n) ->
  ainv pbytes s' /\ as_find (aabs s) (fst c) = None /\ aabs s' = as_insert (aabs s) c /\
  forall v, exists k, aget_val s' v =
    Ok (if (fst v =? fst c)%Z then Some c else as_find (aabs s) (fst v), k).
Proof. exact insert_then_get. Qed.
Print Assumptions C03_insert_then_get.

(* a refused insert (equivalent element present, or no room): the members are what they were *)
Theorem C03_insert_refused_keeps_members : forall pbytes s c s' n, ainv pbytes s ->
  astep_c pbytes s (AInsert c) = Ok (s', ABool false, n) -> ainv pbytes s' /\ aabs s' = aabs s.
Proof. exact insert_refused_then_get. Qed.
Print Assumptions C03_insert_refused_keeps_members.

(* remove: the answer says whether the key was there; afterwards it is not, and every other key answers as before *)
Theorem C03_remove_then_get : forall pbytes s c s' b n, ainv pbytes s ->
  astep_c pbytes s (ARemove c) = Ok (s', ABool b, n) ->
  ainv pbytes s' /\ b = (match as_find (aabs s) (fst c) with Some _ => true | None => false end) /\
  aabs s' = as_remove (aabs s) (fst c) /\
  forall v, exists k, aget_val s' v =
    Ok (if (fst v =? fst c)%Z then None else as_find (aabs s) (fst v), k).
Proof. exact remove_then_get. Qed.
Print Assumptions C03_remove_then_get.

(* take: returns the STORED element (not the probe), otherwise as remove *)
Theorem C03_take_then_get : forall pbytes s c s' r n, ainv pbytes s ->
  astep_c pbytes s (ATake c) = Ok (s', ACell r, n) ->
  ainv pbytes s' /\ r = as_find (aabs s) (fst c) /\ aabs s' = as_remove (aabs s) (fst c) /\
  forall v, exists k, aget_val s' v =
    Ok (if (fst v =? fst c)%Z then None else as_find (aabs s) (fst v), k).
Proof. exact take_then_get. Qed.
Print Assumptions C03_take_then_get.

(* get_mut with a write that keeps the order key: that member is replaced, no other *)
Theorem C03_get_mut_then_get : forall pbytes s c new s' r n, ainv pbytes s -> fst new = fst c ->
  astep_c pbytes s (AGetMut c new) = Ok (s', ACell r, n) ->
  ainv pbytes s' /\ r = as_find (aabs s) (fst c) /\
  forall v, exists k, aget_val s' v =
    Ok (if (fst v =? fst c)%Z then (match r with Some _ => Some new | None => None end)
        else as_find (aabs s) (fst v), k).
Proof. exact get_mut_then_get. Qed.
Print Assumptions C03_get_mut_then_get.

(* insert is accepted exactly when the key is absent and the count is below both the slot count and the largest count the
   length prefix can record (pmax - 1); an accepted insert raises the count by exactly one, the slot count never changes *)
Theorem C03_insert_accepts_iff : forall pbytes s c s' b n, ainv pbytes s ->
  astep_c pbytes s (AInsert c) = Ok (s', ABool b, n) ->
  b = (match as_find (aabs s) (fst c) with
       | Some _ => false
       | None => negb (N.min (N.of_nat (length (aslots s))) (pmax pbytes - 1) <=? alen s)
       end) /\
  alen s' = (if b then alen s + 1 else alen s) /\ length (aslots s') = length (aslots s).
Proof. exact insert_accepts_iff. Qed.
Print Assumptions C03_insert_accepts_iff.

(* ---- exactly [bound - count] further distinct new values fit, from ANY invariant state (whatever the history) ---- *)
Theorem C03_fill_defs :
  (forall pbytes s, abound pbytes s = N.min (N.of_nat (length (aslots s))) (pmax pbytes - 1)) /\
  (forall pbytes s, afill pbytes s [] = Some s) /\
  (forall pbytes s c r, afill pbytes s (c :: r) =
     match astep_c pbytes s (AInsert c) with
     | Ok (s', ABool true, _) => afill pbytes s' r
     | _ => None
     end).
Proof. exact (conj (fun _ _ => eq_refl) (conj (fun _ _ => eq_refl) (fun _ _ _ _ => eq_refl))). Qed.
Print Assumptions C03_fill_defs.

(* any list of distinct new values that fits is accepted completely, lands in the set, disturbs no other key *)
Theorem C03_fill_fits : forall pbytes cs s, ainv pbytes s -> NoDup (map fst cs) ->
  (forall c, In c cs -> as_find (aabs s) (fst c) = None) ->
  alen s + N.of_nat (length cs) <= abound pbytes s ->
  exists s', afill pbytes s cs = Some s' /\ ainv pbytes s' /\
    alen s' = alen s + N.of_nat (length cs) /\ abound pbytes s' = abound pbytes s /\
    (forall c, In c cs -> as_find (aabs s') (fst c) = Some c) /\
    (forall k, ~ In k (map fst cs) -> as_find (aabs s') k = as_find (aabs s) k).
Proof. exact afill_fits. Qed.
Print Assumptions C03_fill_fits.

(* ... and exactly that many: afterwards every further insert is refused *)
Theorem C03_fill_exact : forall pbytes cs s, ainv pbytes s -> NoDup (map fst cs) ->
  (forall c, In c cs -> as_find (aabs s) (fst c) = None) ->
  alen s + N.of_nat (length cs) = abound pbytes s ->
  exists s', afill pbytes s cs = Some s' /\ ainv pbytes s' /\ alen s' = abound pbytes s' /\
    (forall c, In c cs -> as_find (aabs s') (fst c) = Some c) /\
    (forall c s'' b n, astep_c pbytes s' (AInsert c) = Ok (s'', ABool b, n) -> b = false).
Proof. exact afill_exact. Qed.
Print Assumptions C03_fill_exact.

(* non-vacuity: one-byte prefix, four slots, canary cells around the buffer *)
Example C03_example :
  let ops := [AInsert (5, 50); AInsert (3, 30); AInsert (9, 90); AInsert (3, 31); ATake (5, 0); ADeref; ALen]%Z in
  Forall aop_ok ops /\
  arun_c 1 (ainit_c [(7, 7)%Z] [(8, 8)%Z] 4) ops =
    [Ok (ABool true); Ok (ABool true); Ok (ABool true); Ok (ABool false);
     Ok (ACell (Some (5, 50)%Z)); Ok (AList [(3, 30); (9, 90)]%Z); Ok (ANum 2)].
Proof. split; [repeat constructor | vm_compute; reflexivity]. Qed.

Example C03_example_state :
  let s := mkA [(7, 7)%Z] [(3, 30); (9, 90); (9, 90); (0, 0)]%Z [(8, 8)%Z] 2 in
  areach 1 (ainit_c [(7, 7)%Z] [(8, 8)%Z] 4) s /\ ainv 1 s /\ aindex s (5, 0)%Z = Ok (None, Some 1, 2).
Proof. exact areach_example. Qed.

Example C03_set_laws_example :
  let m := [(3, 30); (5, 50); (9, 90)]%Z in
  asc m /\ as_insert m (4, 40)%Z = [(3, 30); (4, 40); (5, 50); (9, 90)]%Z /\
  as_insert m (5, 51)%Z = m /\ as_remove m 5%Z = [(3, 30); (9, 90)]%Z /\
  as_update m 9%Z (9, 91)%Z = [(3, 30); (5, 50); (9, 91)]%Z /\ as_find m 4%Z = None.
Proof. exact set_laws_example. Qed.

Example C03_clauses_example :
  let s0 := ainit_c [(7, 7)%Z] [(8, 8)%Z] 4 in
  exists s1 s2, astep_c 1 s0 (AInsert (5, 50)%Z) = Ok (s1, ABool true, 0%N) /\
    astep_c 1 s1 (AInsert (3, 30)%Z) = Ok (s2, ABool true, 0%N) /\
    (exists k, aget_val s2 (5, 0)%Z = Ok (Some (5, 50)%Z, k)) /\
    exists s3, astep_c 1 s2 (ARemove (5, 0)%Z) = Ok (s3, ABool true, 0%N) /\
      (exists k, aget_val s3 (5, 0)%Z = Ok (None, k)) /\ (exists k, aget_val s3 (3, 0)%Z = Ok (Some (3, 30)%Z, k)).
Proof. exact clauses_example. Qed.

Example C03_fill_example :
  let s0 := ainit_c [(7, 7)%Z] [(8, 8)%Z] 3 in
  exists s1, astep_c 1 s0 (AInsert (5, 50)%Z) = Ok (s1, ABool true, 0%N) /\
    abound 1 s1 = 3%N /\ alen s1 = 1%N /\
    exists s2, afill 1 s1 [(9, 90); (2, 20)]%Z = Some s2 /\ alen s2 = 3%N /\
      aabs s2 = [(2, 20); (5, 50); (9, 90)]%Z /\
      exists n, astep_c 1 s2 (AInsert (4, 40)%Z) = Ok (s2, ABool false, n).
Proof. exact afill_example. Qed.
