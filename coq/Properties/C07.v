(* C07 - exactly `capacity` entries fit, whatever the history of insertions
   and removals (hash set; arbitrary hash function).  Theorems only; each is
   closed by [exact] of a lemma proved in Hash/HashProps.v or Hash/HashMore.v. *)
From Coq Require Import List NArith ZArith Bool.
From Stevia Require Import Base.Res Hash.Impl Hash.Spec Hash.ZSet Hash.Mem Hash.Inv Hash.Refine Hash.HashProps
  Hash.HashMore.
Import ListNotations.
Open Scope N_scope.

(* inserting a list of values one after the other; the flag is the
   conjunction of the individual answers *)
Theorem C07_hash_insert_all_def : forall (hash64 : Z -> N) s vs,
  hinsert_all hash64 s vs =
  fold_left (fun acc v => '(st, ok) <- acc ;; '(st', b) <- hinsert hash64 st v ;; Ok (st', ok && b))
            vs (Ok (s, true)).
Proof. exact (fun _ _ _ => eq_refl). Qed.
Print Assumptions C07_hash_insert_all_def.

(* the states reached by a history from the initialised set *)
Theorem C07_hash_exec_def : forall (hash64 : Z -> N) s o r,
  hexec hash64 s [] = Ok s /\
  hexec hash64 s (o :: r) = ('(s', _) <- hstep_c hash64 s o ;; hexec hash64 s' r).
Proof. exact (fun _ _ _ _ => conj eq_refl eq_refl). Qed.
Print Assumptions C07_hash_exec_def.

Theorem C07_hash_reachable : forall (hash64 : Z -> N) cap ops, cap + 1 < 2 ^ 32 ->
  exists s, hexec hash64 (hinit_c cap cap) ops = Ok s /\ hinv hash64 s /\ hcap s = cap.
Proof. exact hash_reachable. Qed.
Print Assumptions C07_hash_reachable.

(* from a state with n entries and capacity c: any c - n distinct new values
   all go in, each insertion succeeding without panic; the set is then full
   and refuses every further insertion, leaving the state as it is *)
Theorem C07_hash_capacity_exact : forall (hash64 : Z -> N) s vs, hinv hash64 s ->
  NoDup vs -> (forall v, In v vs -> ~ In v (habs s)) ->
  N.of_nat (length vs) = hcap s - hsize s ->
  exists s', hinsert_all hash64 s vs = Ok (s', true) /\ hinv hash64 s' /\
    hcap s' = hcap s /\ hsize s' = hcap s /\ his_full s' = true /\
    (forall x, In x (habs s') <-> In x (habs s) \/ In x vs) /\
    (forall w, hinsert hash64 s' w = Ok (s', false)).
Proof. exact hash_capacity_exact. Qed.
Print Assumptions C07_hash_capacity_exact.

(* the same at every state reachable by any insert / remove / query history *)
Theorem C07_hash_capacity_exact_reachable : forall (hash64 : Z -> N) cap ops s vs, cap + 1 < 2 ^ 32 ->
  hexec hash64 (hinit_c cap cap) ops = Ok s ->
  NoDup vs -> (forall v, In v vs -> ~ In v (habs s)) ->
  N.of_nat (length vs) = hcap s - hsize s ->
  hcap s = cap /\
  exists s', hinsert_all hash64 s vs = Ok (s', true) /\ hinv hash64 s' /\
    hcap s' = hcap s /\ hsize s' = hcap s /\ his_full s' = true /\
    (forall x, In x (habs s') <-> In x (habs s) \/ In x vs) /\
    (forall w, hinsert hash64 s' w = Ok (s', false)).
Proof. exact hash_capacity_exact_reachable. Qed.
Print Assumptions C07_hash_capacity_exact_reachable.

(* is_full is true exactly when n = c *)
Theorem C07_hash_is_full_iff : forall (hash64 : Z -> N) s, hinv hash64 s ->
  (his_full s = true <-> hsize s = hcap s).
Proof. exact his_full_iff. Qed.
Print Assumptions C07_hash_is_full_iff.

Theorem C07_hash_is_full_iff_reachable : forall (hash64 : Z -> N) cap ops s, cap + 1 < 2 ^ 32 ->
  hexec hash64 (hinit_c cap cap) ops = Ok s ->
  (his_full s = true <-> hsize s = cap) /\ hsize s <= cap /\ N.of_nat (length (habs s)) = hsize s.
Proof. exact hash_is_full_iff_reachable. Qed.
Print Assumptions C07_hash_is_full_iff_reachable.

(* no storage is handed out twice: the slot the allocator returns is not one
   of the live slots *)
Theorem C07_hash_alloc_fresh : forall (hash64 : Z -> N) s v, hinv hash64 s -> hsize s < hcap s ->
  exists s1 k, add_node s v = Ok (s1, k) /\ k = hflh s /\ ~ In k (hslots s).
Proof. exact hash_alloc_fresh. Qed.
Print Assumptions C07_hash_alloc_fresh.

Theorem C07_hash_alloc_fresh_reachable : forall (hash64 : Z -> N) cap ops s v, cap + 1 < 2 ^ 32 ->
  hexec hash64 (hinit_c cap cap) ops = Ok s -> hsize s < hcap s ->
  exists s1 k, add_node s v = Ok (s1, k) /\ k = hflh s /\ ~ In k (hslots s).
Proof. exact hash_alloc_fresh_reachable. Qed.
Print Assumptions C07_hash_alloc_fresh_reachable.

(* storage released by a removal is reusable: the slot that held the removed
   value is no longer live and is the very next one handed out *)
Theorem C07_hash_released_slot_reused : forall (hash64 : Z -> N) s v, hinv hash64 s -> In v (habs s) ->
  exists s', hremove hash64 s v = Ok (s', true) /\ hinv hash64 s' /\
    In (hflh s') (hslots s) /\ val (hnodes s) (hflh s') = v /\ ~ In (hflh s') (hslots s') /\
    (forall w s2 k, add_node s' w = Ok (s2, k) -> k = hflh s').
Proof. exact hash_released_slot_reused. Qed.
Print Assumptions C07_hash_released_slot_reused.

Theorem C07_hash_released_slot_reused_reachable : forall (hash64 : Z -> N) cap ops s v, cap + 1 < 2 ^ 32 ->
  hexec hash64 (hinit_c cap cap) ops = Ok s -> In v (habs s) ->
  exists s', hremove hash64 s v = Ok (s', true) /\ hinv hash64 s' /\
    In (hflh s') (hslots s) /\ val (hnodes s) (hflh s') = v /\ ~ In (hflh s') (hslots s') /\
    (forall w s2 k, add_node s' w = Ok (s2, k) -> k = hflh s').
Proof. exact hash_released_slot_reused_reachable. Qed.
Print Assumptions C07_hash_released_slot_reused_reachable.

(* non-vacuity: capacity 5, a free list of mixed age (slots 3 then 1) together
   with a cursor that has not reached the end (sequence 5 of 6); exactly three
   more values fit, the fourth is refused *)
Example C07_hash_example :
  let h := fun v : Z => Z.to_N v in
  exists s, hexec h (hinit_c 5 5) [HInsert 10; HInsert 11; HInsert 12; HInsert 13; HRemove 10; HRemove 12]%Z = Ok s /\
    hinv h s /\ habs s = [11; 13]%Z /\ hsize s = 2 /\ hflh s = 3 /\ hseq s = 5 /\
    hrun_c h s [HIsFull; HInsert 20; HInsert 21; HIsFull; HInsert 22; HIsFull; HInsert 23; HIter]%Z
    = map Ok [HBool false; HBool true; HBool true; HBool false; HBool true; HBool true; HBool false;
              HList [11; 13; 20; 21; 22]%Z].
Proof.
  cbv zeta. eexists. split; [vm_compute; reflexivity|]. split.
  - apply (hinv_reachable (fun v : Z => Z.to_N v) 5
             [HInsert 10; HInsert 11; HInsert 12; HInsert 13; HRemove 10; HRemove 12]%Z);
      [reflexivity | vm_compute; reflexivity].
  - repeat (split; [vm_compute; reflexivity|]). vm_compute; reflexivity.
Qed.

(* TREES: appended below *)

(* AVL trees, both index widths.  Each theorem is closed by [exact] of a
   lemma proved in Avl/Capacity.v; theorems that involve a removal take the
   link for [remove] (Avl/LinkRemove.v) as the explicit premise
   [remove_spec_statement bits]. *)
From Stevia Require Import Avl.Impl Avl.Tree Avl.Spec Avl.Alloc Avl.Inv Avl.LinkInsert Avl.LinkSteps
  Avl.Master Avl.Clauses Avl.Capacity.
From Stevia Require Import Avl.FinalMaster.

(* inserting a list of entries one after the other, directly and as a
   history of the operation language *)
Theorem C07_avl_insert_all_def : forall bits s kv r,
  insert_all bits s [] = Ok (s, []) /\
  insert_all bits s (kv :: r) =
    ('(s1, slot, _) <- insert bits s (fst kv) (snd kv) ;;
     '(s2, slots) <- insert_all bits s1 r ;; Ok (s2, slot :: slots)) /\
  ins_ops (kv :: r) = OInsert (fst kv) (snd kv) :: ins_ops r /\ ins_ops [] = [] /\
  (settled s <-> N.of_nat (length (nodes s)) <= cap s).
Proof. exact (fun _ _ _ _ => conj eq_refl (conj eq_refl (conj eq_refl (conj eq_refl (iff_refl _))))). Qed.
Print Assumptions C07_avl_insert_all_def.

Theorem C07_avl_insert_all_fold : forall bits s kvs,
  insert_all bits s kvs =
  '(s', rslots) <-
    fold_left (fun acc kv => '(st, rslots) <- acc ;;
                             '(st', slot, _) <- insert bits st (fst kv) (snd kv) ;;
                             Ok (st', slot :: rslots))
              kvs (Ok (s, [])) ;;
  Ok (s', rev rslots).
Proof. exact insert_all_fold. Qed.
Print Assumptions C07_avl_insert_all_fold.

(* from a state with n entries and capacity c: any c - n distinct new keys
   all go in, each insertion succeeding without panic; every earlier entry
   is still there with its value; the slots handed out are distinct and none
   of them was live; the tree is then full and refuses every further
   insertion, leaving the state as it is *)
Theorem C07_avl_capacity_exact : forall bits s t fr term kvs,
  Inv bits s t fr term -> okbits bits ->
  NoDup (map fst kvs) -> (forall k, In k (map fst kvs) -> sm_find (inorder t) k = None) ->
  N.of_nat (length kvs) = cap s - size s ->
  exists s' slots t' fr' term',
    insert_all bits s kvs = Ok (s', map Some slots) /\ length slots = length kvs /\
    Inv bits s' t' fr' term' /\ cap s' = cap s /\ size s' = cap s /\ is_full s' = true /\
    (forall k v, sm_find (inorder t) k = Some v -> sm_find (inorder t') k = Some v) /\
    (forall k v, In (k, v) kvs -> sm_find (inorder t') k = Some v) /\
    NoDup (slots ++ idxs t) /\ Permutation.Permutation (idxs t') (slots ++ idxs t) /\
    (forall k v, insert bits s' k v = Ok (s', None, t_log t' k)) /\
    (settled s ->
     run_c bits s (ins_ops kvs) = map Ok (map (fun i => RSlot (Some i)) slots) /\
     final_c bits s (ins_ops kvs) = Ok s' /\
     forall k v, step_c bits s' (OInsert k v) = Ok (s', RSlot None, t_log t' k)).
Proof. exact fill_exact. Qed.
Print Assumptions C07_avl_capacity_exact.

(* fewer also fit *)
Theorem C07_avl_capacity_partial : forall bits kvs s t fr term,
  Inv bits s t fr term -> okbits bits ->
  NoDup (map fst kvs) -> (forall k, In k (map fst kvs) -> sm_find (inorder t) k = None) ->
  N.of_nat (length kvs) <= cap s - size s ->
  exists s' slots t' fr' term',
    insert_all bits s kvs = Ok (s', map Some slots) /\ length slots = length kvs /\
    Inv bits s' t' fr' term' /\ cap s' = cap s /\ length (nodes s') = length (nodes s) /\
    size s' = size s + N.of_nat (length kvs) /\
    (forall k, sm_find (inorder t') k =
               match sm_find (inorder t) k with Some v => Some v | None => sm_find kvs k end) /\
    Permutation.Permutation (idxs t') (slots ++ idxs t) /\
    (settled s ->
     run_c bits s (ins_ops kvs) = map Ok (map (fun i => RSlot (Some i)) slots) /\
     final_c bits s (ins_ops kvs) = Ok s').
Proof. exact insert_all_spec. Qed.
Print Assumptions C07_avl_capacity_partial.

(* the same at every state reachable on a buffer of fixed size by any
   history of insertions, removals, updates and queries *)
Theorem C07_avl_capacity_exact_reachable : forall bits, remove_spec_statement bits ->
  forall capacity ops s,
  okbits bits -> capacity < 2 ^ bits -> (bits <> 8 -> capacity + 1 < 2 ^ bits) ->
  Forall no_ext ops -> final_c bits (init_c capacity capacity) ops = Ok s ->
  exists t fr term,
    Inv bits s t fr term /\ settled s /\ cap s = capacity /\
    (forall k, get s k = Ok (sm_find (inorder t) k, t_log t k)) /\
    (is_full s = true <-> size s = capacity) /\ size s <= capacity /\
    forall kvs,
      NoDup (map fst kvs) -> (forall k, In k (map fst kvs) -> sm_find (inorder t) k = None) ->
      N.of_nat (length kvs) = capacity - size s ->
      exists s' slots t' fr' term',
        run_c bits s (ins_ops kvs) = map Ok (map (fun i => RSlot (Some i)) slots) /\
        final_c bits s (ins_ops kvs) = Ok s' /\ length slots = length kvs /\
        Inv bits s' t' fr' term' /\ size s' = capacity /\ is_full s' = true /\
        (forall k v, sm_find (inorder t) k = Some v -> sm_find (inorder t') k = Some v) /\
        (forall k v, In (k, v) kvs -> sm_find (inorder t') k = Some v) /\
        NoDup (slots ++ idxs t) /\
        (forall k v, step_c bits s' (OInsert k v) = Ok (s', RSlot None, t_log t' k)).
Proof. exact fill_exact_reachable. Qed.
Print Assumptions C07_avl_capacity_exact_reachable.

(* the premise discharged (Avl/FinalMaster.v) *)
Theorem C07_avl_capacity_exact_reachable_final : forall bits capacity ops s,
  okbits bits -> capacity < 2 ^ bits -> (bits <> 8 -> capacity + 1 < 2 ^ bits) ->
  Forall no_ext ops -> final_c bits (init_c capacity capacity) ops = Ok s ->
  exists t fr term,
    Inv bits s t fr term /\ settled s /\ cap s = capacity /\
    (forall k, get s k = Ok (sm_find (inorder t) k, t_log t k)) /\
    (is_full s = true <-> size s = capacity) /\ size s <= capacity /\
    forall kvs,
      NoDup (map fst kvs) -> (forall k, In k (map fst kvs) -> sm_find (inorder t) k = None) ->
      N.of_nat (length kvs) = capacity - size s ->
      exists s' slots t' fr' term',
        run_c bits s (ins_ops kvs) = map Ok (map (fun i => RSlot (Some i)) slots) /\
        final_c bits s (ins_ops kvs) = Ok s' /\ length slots = length kvs /\
        Inv bits s' t' fr' term' /\ size s' = capacity /\ is_full s' = true /\
        (forall k v, sm_find (inorder t) k = Some v -> sm_find (inorder t') k = Some v) /\
        (forall k v, In (k, v) kvs -> sm_find (inorder t') k = Some v) /\
        NoDup (slots ++ idxs t) /\
        (forall k v, step_c bits s' (OInsert k v) = Ok (s', RSlot None, t_log t' k)).
Proof. exact fill_exact_reachable_final. Qed.
Print Assumptions C07_avl_capacity_exact_reachable_final.

(* is_full is true exactly when n = c *)
Theorem C07_avl_is_full_iff : forall bits s t fr term,
  Inv bits s t fr term -> (is_full s = true <-> size s = cap s) /\ size s <= cap s.
Proof. exact is_full_iff. Qed.
Print Assumptions C07_avl_is_full_iff.

(* what is available is the free list plus the never-used slots *)
Theorem C07_avl_available : forall bits s t fr term,
  Inv bits s t fr term -> cap s - size s = N.of_nat (length fr) + (cap s + 1 - lseq bits s).
Proof. exact available. Qed.
Print Assumptions C07_avl_available.

(* no storage is handed out twice: the slot of a successful insertion is not
   the slot of any live entry; it is the head of the free list, or the
   cursor when the free list is empty *)
Theorem C07_avl_alloc_fresh : forall bits s t fr term k v s' new log,
  Inv bits s t fr term -> okbits bits ->
  insert bits s k v = Ok (s', Some new, log) ->
  ~ In new (idxs t) /\
  (forall k0 slot v0, t_find t k0 = Some (slot, v0) -> slot <> new) /\
  ((exists fr', fr = new :: fr') \/ (fr = [] /\ new = lseq bits s)).
Proof. exact insert_fresh_slot. Qed.
Print Assumptions C07_avl_alloc_fresh.

(* storage released by a removal is reusable: the slot of the removed entry
   is no longer live, heads the free list, and is the very next one handed
   out *)
Theorem C07_avl_released_slot_reused : forall bits, remove_spec_statement bits ->
  forall s t fr term k slot v,
  Inv bits s t fr term -> okbits bits -> t_find t k = Some (slot, v) ->
  exists s' term',
    remove bits s k = Ok (s', Some v, t_log t k) /\
    Inv bits s' (t_remove t k) (slot :: fr) term' /\
    In slot (idxs t) /\ ~ In slot (idxs (t_remove t k)) /\
    cap s' = cap s /\ size s' + 1 = size s /\ is_full s' = false /\
    forall k2 v2, t_find (t_remove t k) k2 = None ->
      exists s2 term2,
        insert bits s' k2 v2 = Ok (s2, Some slot, t_log (t_remove t k) k2) /\
        Inv bits s2 (t_insert (t_remove t k) slot k2 v2) fr term2.
Proof. exact released_slot_reused. Qed.
Print Assumptions C07_avl_released_slot_reused.

(* the premise discharged (Avl/FinalMaster.v) *)
Theorem C07_avl_released_slot_reused_final : forall bits s t fr term k slot v,
  Inv bits s t fr term -> okbits bits -> t_find t k = Some (slot, v) ->
  exists s' term',
    remove bits s k = Ok (s', Some v, t_log t k) /\
    Inv bits s' (t_remove t k) (slot :: fr) term' /\
    In slot (idxs t) /\ ~ In slot (idxs (t_remove t k)) /\
    cap s' = cap s /\ size s' + 1 = size s /\ is_full s' = false /\
    forall k2 v2, t_find (t_remove t k) k2 = None ->
      exists s2 term2,
        insert bits s' k2 v2 = Ok (s2, Some slot, t_log (t_remove t k) k2) /\
        Inv bits s2 (t_insert (t_remove t k) slot k2 v2) fr term2.
Proof. exact released_slot_reused_final. Qed.
Print Assumptions C07_avl_released_slot_reused_final.

(* non-vacuity: capacity 5, a free list of mixed age (slots 3 then 1)
   together with a cursor that has not reached the end (sequence 5 of 6);
   exactly three more entries fit - the recycled slots first, then the
   never-used one - and the fourth is refused; both widths *)
Example C07_avl_example :
  let h0 := [OInsert 10 1; OInsert 11 2; OInsert 12 3; OInsert 13 4; ORemove 10; ORemove 12]%Z in
  let h1 := [OIsFull; OLen; OInsert 20 5; OInsert 21 6; OIsFull; OInsert 22 7; OIsFull;
             OInsert 23 8; OGet 11; OGet 13; OLen]%Z in
  let outs := [RSlot (Some 1); RSlot (Some 2); RSlot (Some 3); RSlot (Some 4); RVal (Some 1%Z);
               RVal (Some 3%Z); RBool false; RNum 2; RSlot (Some 3); RSlot (Some 1); RBool false;
               RSlot (Some 5); RBool true; RSlot None; RVal (Some 2%Z); RVal (Some 4%Z); RNum 5] in
  (exists s, final_c 8 (init_c 5 5) h0 = Ok s /\ size s = 2 /\ cap s = 5 /\ flh s = 3 /\ seq s = 5) /\
  run_c 8 (init_c 5 5) (h0 ++ h1) = map Ok outs /\
  run_c 32 (init_c 5 5) (h0 ++ h1) = map Ok outs /\
  Forall no_ext (h0 ++ h1).
Proof.
  cbv zeta. split; [eexists; split; [vm_compute; reflexivity|repeat split]|].
  split; [vm_compute; reflexivity|]. split; [vm_compute; reflexivity|]. repeat constructor.
Qed.

(* the hypotheses of the fill theorem are satisfiable: a partly filled tree
   (3 of 5), and three keys that are not in it *)
Example C07_avl_example_inv :
  exists s t fr term,
    final_c 8 (init_c 5 5) [OInsert 50 500; OInsert 30 300; OInsert 40 400]%Z = Ok s /\
    Inv 8 s t fr term /\ okbits 8 /\ settled s /\ cap s - size s = 2 /\
    inorder t = [(30, 300); (40, 400); (50, 500)]%Z /\
    NoDup (map fst [(1, 1); (99, 2)]%Z) /\
    (forall k, In k (map fst [(1, 1); (99, 2)]%Z) -> sm_find (inorder t) k = None).
Proof.
  destruct (inv_init 8 5) as [Hi Ha]; [reflexivity|congruence|].
  destruct (final_inv_noremove 8 [OInsert 50 500; OInsert 30 300; OInsert 40 400]%Z
              (init_c 5 5) E [] 1 Hi (or_introl eq_refl) (init_sizecond 8 5))
    as (s & t & fr & term & Hf & H & Hsc & Habs).
  - repeat constructor.
  - apply growth_ok_weak, growth_ok_no_ext. repeat constructor.
  - exists s, t, fr, term. split; [exact Hf|]. split; [exact H|]. split; [left; reflexivity|].
    assert (Hio : inorder t = [(30, 300); (40, 400); (50, 500)]%Z).
    { change (inorder t) with (sents (abs_of s t)). rewrite Habs, Ha. vm_compute. reflexivity. }
    vm_compute in Hf. injection Hf as <-.
    split; [vm_compute; discriminate|]. split; [vm_compute; reflexivity|].
    split; [exact Hio|]. split.
    + repeat constructor; cbn; intuition discriminate.
    + rewrite Hio. intros k [<-|[<-|[]]]; reflexivity.
Qed.

(* ------------------------------------------------------------------ *)
(* Explicit handles, continued (Avl/SessionMore.v). *)
From Coq Require Import Permutation.
From Stevia Require Import Avl.Master Avl.LinkSteps Avl.LinkInsert Avl.Session Avl.SessionFacts Avl.Capacity Avl.EndToEnd Avl.SessionMore.
(* through a live handle exactly cap - n more entries fit, also when the buffer has spare records;
   the spare records count after a re-open *)
Theorem C07_session_fill_exact :
  forall (bits : N) (s : st) (t : itree) (fr : list N) (term : N) (kvs : list (Z * Z)),
  Inv bits s t fr term ->
  LinkInsert.okbits bits ->
  NoDup (map fst kvs) ->
  (forall k : Z, In k (map fst kvs) -> sm_find (inorder t) k = None) ->
  N.of_nat (length kvs) = cap s - size s ->
  exists (s' : st) (slots : list N) (t' : itree) (fr' : list N) (term' : N),
  insert_all_sess bits {| c_st := s; c_live := true |} kvs =
  Ok ({| c_st := s'; c_live := true |}, map (fun i : N => RSlot (Some i)) slots) /\
  run_sess bits {| c_st := s; c_live := true |} (Capacity.ins_ops kvs) =
  map Ok (map (fun i : N => RSlot (Some i)) slots) /\
  final_sess bits {| c_st := s; c_live := true |} (Capacity.ins_ops kvs) =
  Ok {| c_st := s'; c_live := true |} /\
  length slots = length kvs /\
  Inv bits s' t' fr' term' /\
  cap s' = cap s /\
  length (nodes s') = length (nodes s) /\
  size s' = cap s /\
  is_full s' = true /\
  (forall k : Z,
  sm_find (inorder t') k =
  match sm_find (inorder t) k with
  | Some v => Some v
  | None => sm_find kvs k
  end) /\
  (forall k v : Z, sm_find (inorder t) k = Some v -> sm_find (inorder t') k = Some v) /\
  (forall k v : Z, In (k, v) kvs -> sm_find (inorder t') k = Some v) /\
  NoDup (slots ++ idxs t) /\
  Permutation.Permutation (idxs t') (slots ++ idxs t) /\
  (forall k v : Z,
  step_sess bits {| c_st := s'; c_live := true |} (OInsert k v) =
  Ok ({| c_st := s'; c_live := true |}, RSlot None, t_log t' k)) /\
  (forall k v : Z,
  run_sess bits {| c_st := s; c_live := true |} (Capacity.ins_ops kvs ++ OInsert k v :: nil) =
  map Ok (map (fun i : N => RSlot (Some i)) slots ++ RSlot None :: nil) /\
  final_sess bits {| c_st := s; c_live := true |} (Capacity.ins_ops kvs ++ OInsert k v :: nil) =
  Ok {| c_st := s'; c_live := true |}).
Proof. exact fill_exact_sess. Qed.
Print Assumptions C07_session_fill_exact.

Theorem C07_session_fill_exact_spare :
  forall (bits : N) (s : st) (t : itree) (fr : list N) (term : N) (kvs kvs2 : list (Z * Z)),
  Inv bits s t fr term ->
  LinkInsert.okbits bits ->
  LinkSteps.sizecond bits s ->
  cap s < nrec s ->
  NoDup (map fst (kvs ++ kvs2)) ->
  (forall k : Z, In k (map fst (kvs ++ kvs2)) -> sm_find (inorder t) k = None) ->
  N.of_nat (length kvs) = cap s - size s ->
  N.of_nat (length kvs2) = nrec s - cap s ->
  exists
  (s' : st) (slots : list N) (t' : itree) (fr' : list N) (term' : N) (s1 : st)
  (fr1 : list N) (s2 : st) (slots2 : list N) (t2 : itree) (fr2 : list N) (term2 : N),
  run_sess bits {| c_st := s; c_live := true |} (Capacity.ins_ops kvs) =
  map Ok (map (fun i : N => RSlot (Some i)) slots) /\
  final_sess bits {| c_st := s; c_live := true |} (Capacity.ins_ops kvs) =
  Ok {| c_st := s'; c_live := true |} /\
  length slots = length kvs /\
  Inv bits s' t' fr' term' /\
  cap s' = cap s /\
  nrec s' = nrec s /\
  size s' = cap s /\
  size s' < nrec s' /\
  is_full s' = true /\
  (forall k v : Z,
  step_sess bits {| c_st := s'; c_live := true |} (OInsert k v) =
  Ok ({| c_st := s'; c_live := true |}, RSlot None, t_log t' k)) /\
  step_sess bits {| c_st := s'; c_live := true |} OOpenMut =
  Ok ({| c_st := s1; c_live := true |}, RUnit, nil) /\
  Inv bits s1 t' fr1 term' /\
  cap s1 = nrec s /\
  is_full s1 = false /\
  run_sess bits {| c_st := s1; c_live := true |} (Capacity.ins_ops kvs2) =
  map Ok (map (fun i : N => RSlot (Some i)) slots2) /\
  final_sess bits {| c_st := s1; c_live := true |} (Capacity.ins_ops kvs2) =
  Ok {| c_st := s2; c_live := true |} /\
  length slots2 = length kvs2 /\
  Inv bits s2 t2 fr2 term2 /\
  cap s2 = nrec s /\
  size s2 = nrec s /\
  is_full s2 = true /\
  (forall k v : Z,
  step_sess bits {| c_st := s2; c_live := true |} (OInsert k v) =
  Ok ({| c_st := s2; c_live := true |}, RSlot None, t_log t2 k)) /\
  run_sess bits {| c_st := s; c_live := true |}
  (Capacity.ins_ops kvs ++ OOpenMut :: Capacity.ins_ops kvs2) =
  map Ok
  (map (fun i : N => RSlot (Some i)) slots ++ RUnit :: map (fun i : N => RSlot (Some i)) slots2).
Proof. exact fill_exact_sess_spare. Qed.
Print Assumptions C07_session_fill_exact_spare.

Theorem C07_session_fresh_slot :
  forall (bits : N) (s : st) (t : itree) (fr : list N) (term : N) (k v : Z)
  (x' : sess) (new : N) (log : list Z),
  Inv bits s t fr term ->
  LinkInsert.okbits bits ->
  step_sess bits {| c_st := s; c_live := true |} (OInsert k v) = Ok (x', RSlot (Some new), log) ->
  c_live x' = true /\
  cap (c_st x') = cap s /\
  length (nodes (c_st x')) = length (nodes s) /\
  ~ In new (idxs t) /\
  (forall (k0 : Z) (slot : N) (v0 : Z), t_find t k0 = Some (slot, v0) -> slot <> new) /\
  ((exists fr' : list N, fr = new :: fr') \/ fr = nil /\ new = Alloc.lseq bits s) /\
  1 <= new /\
  new <= cap s /\ (exists (fr' : list N) (term' : N), Inv bits (c_st x') (t_insert t new k v) fr' term').
Proof. exact insert_fresh_slot_sess. Qed.
Print Assumptions C07_session_fresh_slot.

Theorem C07_session_released_slot_reused :
  forall (bits : N) (s : st) (t : itree) (fr : list N) (term : N) (k : Z) (slot : N) (v : Z),
  Inv bits s t fr term ->
  LinkInsert.okbits bits ->
  t_find t k = Some (slot, v) ->
  exists (s' : st) (term' : N),
  step_sess bits {| c_st := s; c_live := true |} (ORemove k) =
  Ok ({| c_st := s'; c_live := true |}, RVal (Some v), t_log t k) /\
  Inv bits s' (t_remove t k) (slot :: fr) term' /\
  In slot (idxs t) /\
  ~ In slot (idxs (t_remove t k)) /\
  cap s' = cap s /\
  size s' + 1 = size s /\
  is_full s' = false /\
  (forall k2 v2 : Z,
  t_find (t_remove t k) k2 = None ->
  exists (s2 : st) (term2 : N),
  step_sess bits {| c_st := s'; c_live := true |} (OInsert k2 v2) =
  Ok ({| c_st := s2; c_live := true |}, RSlot (Some slot), t_log (t_remove t k) k2) /\
  Inv bits s2 (t_insert (t_remove t k) slot k2 v2) fr term2).
Proof. exact released_slot_reused_sess. Qed.
Print Assumptions C07_session_released_slot_reused.

Theorem C07_session_fill_exact_keep :
  forall (bits capacity nr : N) (ops : list op),
  LinkInsert.okbits bits ->
  capacity <= nr ->
  capacity < 2 ^ bits ->
  (bits <> 8 -> capacity + 1 < 2 ^ bits) ->
  Forall keeps_handle ops ->
  exists (s : st) (t : itree) (fr : list N) (term : N),
  final_sess bits (init_sess capacity nr true) ops = Ok {| c_st := s; c_live := true |} /\
  Inv bits s t fr term /\
  cap s = capacity /\
  nrec s = nr /\
  size s <= capacity /\
  (forall kvs : list (Z * Z),
  NoDup (map fst kvs) ->
  (forall k : Z, In k (map fst kvs) -> sm_find (inorder t) k = None) ->
  N.of_nat (length kvs) = capacity - size s ->
  exists (s' : st) (slots : list N) (t' : itree) (fr' : list N) (term' : N),
  run_sess bits {| c_st := s; c_live := true |} (Capacity.ins_ops kvs) =
  map Ok (map (fun i : N => RSlot (Some i)) slots) /\
  final_sess bits (init_sess capacity nr true) (ops ++ Capacity.ins_ops kvs) =
  Ok {| c_st := s'; c_live := true |} /\
  length slots = length kvs /\
  Inv bits s' t' fr' term' /\
  cap s' = capacity /\
  nrec s' = nr /\
  size s' = capacity /\
  is_full s' = true /\
  (forall k v : Z,
  step_sess bits {| c_st := s'; c_live := true |} (OInsert k v) =
  Ok ({| c_st := s'; c_live := true |}, RSlot None, t_log t' k))).
Proof. exact fill_exact_sess_keep. Qed.
Print Assumptions C07_session_fill_exact_keep.

Example C07_session_example := sess_keep_by_fill_theorem.
