(* C07 - exactly `capacity` entries fit, whatever the history of insertions
   and removals (hash set; arbitrary hash function).  Theorems only; each is
   closed by [exact] of a lemma proved in Hash/HashProps.v or Hash/HashMore.v. *)
From Coq Require Import List NArith ZArith Bool.
From Stevia Require Import Base.Res Hash.Impl Hash.Spec Hash.ZSet Hash.Mem Hash.Inv Hash.Refine Hash.HashProps
  Hash.HashMore.
Import ListNotations.
Open Scope N_scope.

(* inserting a list of values one after the other; the flag is the
   conjunction of the individual answers *)
Theorem C07_hash_insert_all_def : forall (hash64 : Z -> N) s vs,
  hinsert_all hash64 s vs =
  fold_left (fun acc v => '(st, ok) <- acc ;; '(st', b) <- hinsert hash64 st v ;; Ok (st', ok && b))
            vs (Ok (s, true)).
Proof. exact (fun _ _ _ => eq_refl). Qed.
Print Assumptions C07_hash_insert_all_def.

(* the states reached by a history from the initialised set *)
Theorem C07_hash_exec_def : forall (hash64 : Z -> N) s o r,
  hexec hash64 s [] = Ok s /\
  hexec hash64 s (o :: r) = ('(s', _) <- hstep_c hash64 s o ;; hexec hash64 s' r).
Proof. exact (fun _ _ _ _ => conj eq_refl eq_refl). Qed.
Print Assumptions C07_hash_exec_def.

Theorem C07_hash_reachable : forall (hash64 : Z -> N) cap ops, cap + 1 < 2 ^ 32 ->
  exists s, hexec hash64 (hinit_c cap cap) ops = Ok s /\ hinv hash64 s /\ hcap s = cap.
Proof. exact hash_reachable. Qed.
Print Assumptions C07_hash_reachable.

(* from a state with n entries and capacity c: any c - n distinct new values
   all go in, each insertion succeeding without panic; the set is then full
   and refuses every further insertion, leaving the state as it is *)
Theorem C07_hash_capacity_exact : forall (hash64 : Z -> N) s vs, hinv hash64 s ->
  NoDup vs -> (forall v, In v vs -> ~ In v (habs s)) ->
  N.of_nat (length vs) = hcap s - hsize s ->
  exists s', hinsert_all hash64 s vs = Ok (s', true) /\ hinv hash64 s' /\
    hcap s' = hcap s /\ hsize s' = hcap s /\ his_full s' = true /\
    (forall x, In x (habs s') <-> In x (habs s) \/ In x vs) /\
    (forall w, hinsert hash64 s' w = Ok (s', false)).
Proof. exact hash_capacity_exact. Qed.
Print Assumptions C07_hash_capacity_exact.

(* the same at every state reachable by any insert / remove / query history *)
Theorem C07_hash_capacity_exact_reachable : forall (hash64 : Z -> N) cap ops s vs, cap + 1 < 2 ^ 32 ->
  hexec hash64 (hinit_c cap cap) ops = Ok s ->
  NoDup vs -> (forall v, In v vs -> ~ In v (habs s)) ->
  N.of_nat (length vs) = hcap s - hsize s ->
  hcap s = cap /\
  exists s', hinsert_all hash64 s vs = Ok (s', true) /\ hinv hash64 s' /\
    hcap s' = hcap s /\ hsize s' = hcap s /\ his_full s' = true /\
    (forall x, In x (habs s') <-> In x (habs s) \/ In x vs) /\
    (forall w, hinsert hash64 s' w = Ok (s', false)).
Proof. exact hash_capacity_exact_reachable. Qed.
Print Assumptions C07_hash_capacity_exact_reachable.

(* is_full is true exactly when n = c *)
Theorem C07_hash_is_full_iff : forall (hash64 : Z -> N) s, hinv hash64 s ->
  (his_full s = true <-> hsize s = hcap s).
Proof. exact his_full_iff. Qed.
Print Assumptions C07_hash_is_full_iff.

Theorem C07_hash_is_full_iff_reachable : forall (hash64 : Z -> N) cap ops s, cap + 1 < 2 ^ 32 ->
  hexec hash64 (hinit_c cap cap) ops = Ok s ->
  (his_full s = true <-> hsize s = cap) /\ hsize s <= cap /\ N.of_nat (length (habs s)) = hsize s.
Proof. exact hash_is_full_iff_reachable. Qed.
Print Assumptions C07_hash_is_full_iff_reachable.

(* no storage is handed out twice: the slot the allocator returns is not one
   of the live slots *)
Theorem C07_hash_alloc_fresh : forall (hash64 : Z -> N) s v, hinv hash64 s -> hsize s < hcap s ->
  exists s1 k, add_node s v = Ok (s1, k) /\ k = hflh s /\ ~ In k (hslots s).
Proof. exact hash_alloc_fresh. Qed.
Print Assumptions C07_hash_alloc_fresh.

Theorem C07_hash_alloc_fresh_reachable : forall (hash64 : Z -> N) cap ops s v, cap + 1 < 2 ^ 32 ->
  hexec hash64 (hinit_c cap cap) ops = Ok s -> hsize s < hcap s ->
  exists s1 k, add_node s v = Ok (s1, k) /\ k = hflh s /\ ~ In k (hslots s).
Proof. exact hash_alloc_fresh_reachable. Qed.
Print Assumptions C07_hash_alloc_fresh_reachable.

(* storage released by a removal is reusable: the slot that held the removed
   value is no longer live and is the very next one handed out *)
Theorem C07_hash_released_slot_reused : forall (hash64 : Z -> N) s v, hinv hash64 s -> In v (habs s) ->
  exists s', hremove hash64 s v = Ok (s', true) /\ hinv hash64 s' /\
    In (hflh s') (hslots s) /\ val (hnodes s) (hflh s') = v /\ ~ In (hflh s') (hslots s') /\
    (forall w s2 k, add_node s' w = Ok (s2, k) -> k = hflh s').
Proof. exact hash_released_slot_reused. Qed.
Print Assumptions C07_hash_released_slot_reused.

Theorem C07_hash_released_slot_reused_reachable : forall (hash64 : Z -> N) cap ops s v, cap + 1 < 2 ^ 32 ->
  hexec hash64 (hinit_c cap cap) ops = Ok s -> In v (habs s) ->
  exists s', hremove hash64 s v = Ok (s', true) /\ hinv hash64 s' /\
    In (hflh s') (hslots s) /\ val (hnodes s) (hflh s') = v /\ ~ In (hflh s') (hslots s') /\
    (forall w s2 k, add_node s' w = Ok (s2, k) -> k = hflh s').
Proof. exact hash_released_slot_reused_reachable. Qed.
Print Assumptions C07_hash_released_slot_reused_reachable.

(* non-vacuity: capacity 5, a free list of mixed age (slots 3 then 1) together
   with a cursor that has not reached the end (sequence 5 of 6); exactly three
   more values fit, the fourth is refused *)
Example C07_hash_example :
  let h := fun v : Z => Z.to_N v in
  exists s, hexec h (hinit_c 5 5) [HInsert 10; HInsert 11; HInsert 12; HInsert 13; HRemove 10; HRemove 12]%Z = Ok s /\
    hinv h s /\ habs s = [11; 13]%Z /\ hsize s = 2 /\ hflh s = 3 /\ hseq s = 5 /\
    hrun_c h s [HIsFull; HInsert 20; HInsert 21; HIsFull; HInsert 22; HIsFull; HInsert 23; HIter]%Z
    = map Ok [HBool false; HBool true; HBool true; HBool false; HBool true; HBool true; HBool false;
              HList [11; 13; 20; 21; 22]%Z].
Proof.
  cbv zeta. eexists. split; [vm_compute; reflexivity|]. split.
  - apply (hinv_reachable (fun v : Z => Z.to_N v) 5
             [HInsert 10; HInsert 11; HInsert 12; HInsert 13; HRemove 10; HRemove 12]%Z);
      [reflexivity | vm_compute; reflexivity].
  - repeat (split; [vm_compute; reflexivity|]). vm_compute; reflexivity.
Qed.

(* TREES: appended below *)
