(* C05 - no operation touches memory outside the buffer it was given (array
   sets and hash set).  The array-set slots live inside a larger flat memory
   [apre ++ aslots ++ apost]; [ptr_copy] (the unsafe ptr::copy) is checked
   only against that whole memory, so an access outside the slots is
   expressible in the model - and shown impossible.  Theorems only; each is
   closed by [exact] of a lemma proved in Arr/ArrProps.v, Arr/ArrMore.v,
   Hash/HashMore.v. *)
From Coq Require Import List NArith ZArith Bool Arith.
From Stevia Require Import Base.Res Base.ResMore Arr.Impl Arr.Spec Arr.Search Arr.Refine Arr.ArrProps Arr.ArrMore
  Hash.Impl Hash.Spec Hash.ZSet Hash.Mem Hash.Inv Hash.Refine Hash.HashProps Hash.HashMore.
Import ListNotations.
Open Scope N_scope.

(* ---- array sets, every prefix width, arbitrary guard regions ---- *)

(* one step: the guard regions are unchanged, and neither the answer, the
   comparison count, the new slots nor the new count depend on what they hold *)
Theorem C05_arr_frame : forall pbytes s o, ainv pbytes s -> aop_ok o ->
  exists s' out c, astep_c pbytes s o = Ok (s', out, c) /\
    apre s' = apre s /\ apost s' = apost s /\
    forall pre' post',
      astep_c pbytes (mkA pre' (aslots s) post' (alen s)) o
      = Ok (mkA pre' (aslots s') post' (alen s'), out, c).
Proof. exact arr_frame. Qed.
Print Assumptions C05_arr_frame.

(* every reachable state *)
Theorem C05_arr_frame_history : forall pbytes pre post nslots s,
  areach pbytes (ainit_c pre post nslots) s -> apre s = pre /\ apost s = post.
Proof. exact arr_frame_history. Qed.
Print Assumptions C05_arr_frame_history.

(* the flat memory after a step is the old left guard, the new slots, the old
   right guard: every cell written by ptr_copy / values[i] = v is a slot *)
Theorem C05_arr_memory_after_step : forall pbytes s o s' out c, ainv pbytes s -> aop_ok o ->
  astep_c pbytes s o = Ok (s', out, c) ->
  amem s' = apre s ++ aslots s' ++ apost s.
Proof. exact arr_mem_frame. Qed.
Print Assumptions C05_arr_memory_after_step.

(* by address: cells below [length apre] and from [length apre + length aslots]
   on are what they were (AExt, the caller growing the buffer, excepted) *)
Theorem C05_arr_writes_within_slots : forall pbytes s o s' out c, ainv pbytes s -> aop_ok o ->
  astep_c pbytes s o = Ok (s', out, c) -> is_ext o = false ->
  length (amem s') = length (amem s) /\
  forall a, (a < length (apre s) \/ length (apre s) + length (aslots s) <= a)%nat ->
    nth_error (amem s') a = nth_error (amem s) a.
Proof. exact arr_writes_within_slots. Qed.
Print Assumptions C05_arr_writes_within_slots.

(* a whole history run between other guard cells gives the same answers *)
Theorem C05_arr_history_guard_independent : forall pbytes ops s pre' post',
  ainv pbytes s -> Forall aop_ok ops ->
  arun_c pbytes (mkA pre' (aslots s) post' (alen s)) ops = arun_c pbytes s ops.
Proof. exact arun_c_frame. Qed.
Print Assumptions C05_arr_history_guard_independent.

(* ---- hash set: only bounds-checked indexing ---- *)
(* nodes[i] / nodes[i - 1] out of range is [Panic POob] in the model (a panic,
   not an access, in safe Rust); no panic of any kind is reachable *)
Theorem C05_hash_no_oob : forall (hash64 : Z -> N) s o, hinv hash64 s ->
  exists s' out, hstep_c hash64 s o = Ok (s', out).
Proof. exact hash_no_oob. Qed.
Print Assumptions C05_hash_no_oob.

(* NEGATIVE CONTROL.  The upstream copy count (values.len() - index instead
   of self.len() - index, [ainsert_buggy] in Arr/ArrMore.v) overwrites the
   guard cell behind the buffer - (8,8) becomes the last slot (4,4) - where
   the repaired model leaves it alone; with nothing mapped behind the buffer
   it is an access outside every mapped cell.  So the theorems above
   discriminate. *)
Example C05_buggy_count_moves_guard :
  let s := mkA [(7, 7)%Z] [(3, 30); (9, 90); (0, 0); (4, 4)]%Z [(8, 8)%Z] 2 in
  ainv 1 s /\
  ainsert_buggy 1 s (5, 50)%Z
    = Ok (mkA [(7, 7)%Z] [(3, 30); (5, 50); (9, 90); (0, 0)]%Z [(4, 4)%Z] 3, true) /\
  ainsert 1 s (5, 50)%Z
    = Ok (mkA [(7, 7)%Z] [(3, 30); (5, 50); (9, 90); (4, 4)]%Z [(8, 8)%Z] 3, true).
Proof. exact buggy_count_moves_guard. Qed.

Example C05_buggy_count_faults_at_end :
  ainsert_buggy 1 (mkA [] [(3, 30); (9, 90); (0, 0); (0, 0)]%Z [] 2) (5, 50)%Z = Panic POob /\
  exists s', ainsert 1 (mkA [] [(3, 30); (9, 90); (0, 0); (0, 0)]%Z [] 2) (5, 50)%Z = Ok (s', true).
Proof. exact buggy_count_faults_at_end. Qed.

(* non-vacuity: a full set and an insert at the front / take at the front
   (the longest copies), canary cells on both sides *)
Example C05_arr_example :
  let ops := [AInsert (9, 90); AInsert (5, 50); AInsert (3, 30); AInsert (1, 10); AInsert (0, 0);
              ATake (1, 0); AInsert (4, 40); ARemove (9, 0); ADeref]%Z in
  Forall aop_ok ops /\
  arun_c 1 (ainit_c [(7, 7)%Z] [(8, 8)%Z] 4) ops =
    map Ok [ABool true; ABool true; ABool true; ABool true; ABool false;
            ACell (Some (1, 10)%Z); ABool true; ABool true; AList [(3, 30); (4, 40); (5, 50)]%Z] /\
  aexec 1 (ainit_c [(7, 7)%Z] [(8, 8)%Z] 4) ops
    = Ok (mkA [(7, 7)%Z] [(3, 30); (4, 40); (5, 50); (9, 90)]%Z [(8, 8)%Z] 3).
Proof. cbv zeta. split; [repeat constructor|]. split; vm_compute; reflexivity. Qed.

(* TREES: appended below *)

(* ------------------------------------------------------------------ *)
(* The code as it is since the repair of D13: the element shifts are slice::copy_within, checked against
   the slot slice (Arr/Checked.v).  On invariant states the checked operations ARE the modelled ones, so
   every theorem above transfers; and the frame property now holds for EVERY state, reachable or not -
   a length prefix that claims more values than the buffer holds makes the operation panic. *)
From Stevia Require Import Arr.Checked.

Theorem C05_arr_checked_is_model :
  forall (pbytes : N) (s : ast) (o : aop), ainv pbytes s -> astep_chk pbytes s o = astep_c pbytes s o.
Proof. exact astep_chk_eq. Qed.
Print Assumptions C05_arr_checked_is_model.

Theorem C05_arr_checked_history_is_model :
  forall (pbytes : N) (pre post : list cell) (nslots : N) (ops : list aop),
    Forall aop_ok ops ->
    arun_chk pbytes (ainit_c pre post nslots) ops = arun_c pbytes (ainit_c pre post nslots) ops.
Proof. exact arun_chk_eq_init. Qed.
Print Assumptions C05_arr_checked_history_is_model.

Theorem C05_arr_checked_frame_all_states :
  forall (pbytes : N) (s : ast) (o : aop) (s' : ast) (out : aout) (c : N),
    astep_chk pbytes s o = Ok (s', out, c) ->
    apre s' = apre s /\ apost s' = apost s /\ length (aslots s') = (length (aslots s) + ext_of o)%nat.
Proof. exact astep_chk_frame. Qed.
Print Assumptions C05_arr_checked_frame_all_states.

Theorem C05_arr_checked_memory_all_states :
  forall (pbytes : N) (s : ast) (o : aop) (s' : ast) (out : aout) (c : N),
    astep_chk pbytes s o = Ok (s', out, c) -> is_ext o = false ->
    length (amem s') = length (amem s) /\
    (forall a : nat,
       (a < length (apre s))%nat \/ (length (apre s) + length (aslots s) <= a)%nat ->
       nth_error (amem s') a = nth_error (amem s) a).
Proof. exact astep_chk_writes_within_slots. Qed.
Print Assumptions C05_arr_checked_memory_all_states.

Theorem C05_arr_checked_guard_independent_all_states :
  forall (pbytes : N) (s1 s2 : ast) (ops : list aop),
    aslots s1 = aslots s2 -> alen s1 = alen s2 -> arun_chk pbytes s1 ops = arun_chk pbytes s2 ops.
Proof. exact arun_chk_guard_indep. Qed.
Print Assumptions C05_arr_checked_guard_independent_all_states.

Theorem C05_arr_checked_history_frame_all_states :
  forall (pbytes : N) (ops : list aop) (s s' : ast),
    aexec_chk pbytes s ops = Ok s' ->
    apre s' = apre s /\ apost s' = apost s /\ length (aslots s') = (length (aslots s) + ext_total ops)%nat.
Proof. exact aexec_chk_frame. Qed.
Print Assumptions C05_arr_checked_history_frame_all_states.

(* non-vacuity: on the D13 witness (count 8 over 6 slots) the checked insert panics where the unchecked
   memmove wrote into the cells behind the slots *)
Example C05_arr_checked_witness := D13_checked_insert_panics.
