(* C08 - growing the buffer keeps the contents and adds exactly the new slots
   (AVL trees of both widths; array set).  Theorems only; each is closed by
   [exact] of a lemma proved in Avl/Capacity.v, Avl/Master.v or
   Arr/ArrProps.v.  Theorems about histories that contain removals take the
   link for [remove] as the explicit premise [remove_spec_statement bits]. *)
From Coq Require Import List NArith ZArith Bool.
From Stevia Require Import Base.Res Avl.Impl Avl.Tree Avl.Spec Avl.Inv Avl.LinkInsert Avl.LinkSteps
  Avl.Master Avl.Clauses Avl.Capacity
  Arr.Impl Arr.Spec Arr.Search Arr.Refine Arr.ArrProps.
From Stevia Require Import Avl.FinalMaster.
Import ListNotations.
Open Scope N_scope.

(* ---- vocabulary ---- *)
Theorem C08_avl_defs :
  (forall s n, ext_nodes s n = with_nodes s (nodes s ++ repeat node0 (N.to_nat n))) /\
  (forall s, nrec s = N.of_nat (length (nodes s))) /\
  (forall s, settled s <-> nrec s <= cap s) /\
  (forall bits s, sizecond bits s <-> nrec s <= cap s \/ nrec s + 1 < 2 ^ bits) /\
  (forall k r, grow_ops [] = [] /\ grow_ops (k :: r) = OExt k :: OOpenMut :: grow_ops r) /\
  (forall k r, nsum [] = 0 /\ nsum (k :: r) = k + nsum r) /\
  (forall kvs, ins_ops kvs = map (fun kv => OInsert (fst kv) (snd kv)) kvs) /\
  (forall o, ro_op o <->
     match o with
     | OGet _ | OContains _ | OLowest | OLen | OIsEmpty | OIsFull | OCapacity | OOpenRo => True
     | _ => False
     end).
Proof.
  exact (conj (fun _ _ => eq_refl) (conj (fun _ => eq_refl) (conj (fun _ => iff_refl _)
        (conj (fun _ _ => iff_refl _) (conj (fun _ _ => conj eq_refl eq_refl)
        (conj (fun _ _ => conj eq_refl eq_refl) (conj (fun _ => eq_refl) (fun _ => iff_refl _)))))))).
Qed.
Print Assumptions C08_avl_defs.

(* admissible growth of a history, read off the reference run: at every
   extension the record count plus one (the allocator cursor) stays within
   the index width - for the u8 tree: at most 254 records in total *)
Theorem C08_avl_growth_ok_def : forall bits a o r,
  (growth_ok bits a [] <-> True) /\
  (growth_ok bits a (o :: r) <->
   (forall n, o = OExt n -> snrec a + n + 1 < 2 ^ bits) /\ growth_ok bits (fst (spec_step a o)) r) /\
  (growth_okw bits a [] <-> True) /\
  (growth_okw bits a (o :: r) <->
   (forall n, o = OExt n -> snrec a + n <= scap a \/ snrec a + n + 1 < 2 ^ bits) /\
   growth_okw bits (fst (spec_step a o)) r).
Proof. exact (fun _ _ _ _ => conj (iff_refl _) (conj (iff_refl _) (conj (iff_refl _) (iff_refl _)))). Qed.
Print Assumptions C08_avl_growth_ok_def.

Theorem C08_avl_growth_ok_weak : forall bits ops a, growth_ok bits a ops -> growth_okw bits a ops.
Proof. exact growth_ok_weak. Qed.
Print Assumptions C08_avl_growth_ok_weak.

(* ---- extend by k zero-filled records at any state of the invariant and
   re-open mutably: same contents, the capacity is the new record count;
   when no growth was pending it grows by exactly k, and so does the number
   of entries that still fit ---- *)
Theorem C08_avl_grow : forall bits s t fr term k,
  Inv bits s t fr term -> sizecond bits (ext_nodes s k) ->
  exists s' fr',
    open_mut bits (ext_nodes s k) = Ok s' /\
    final_c bits s [OExt k; OOpenMut] = Ok s' /\
    run_c bits s [OExt k; OOpenMut] = [Ok RUnit; Ok RUnit] /\
    Inv bits s' t fr' term /\ size s' = size s /\
    nrec s' = nrec s + k /\ cap s' = N.max (cap s) (nrec s + k) /\ settled s' /\
    (settled s -> cap s' = cap s + k /\ cap s' - size s' = cap s - size s + k).
Proof. exact grow_spec. Qed.
Print Assumptions C08_avl_grow.

(* exactly k more entries than before can be inserted: any [cap - size + k]
   distinct absent keys all go in (no panic), then the tree is full and
   refuses the next one; the earlier entries are all still there *)
Theorem C08_avl_grow_then_fill : forall bits s t fr term k kvs,
  Inv bits s t fr term -> okbits bits -> settled s -> sizecond bits (ext_nodes s k) ->
  NoDup (map fst kvs) -> (forall x, In x (map fst kvs) -> sm_find (inorder t) x = None) ->
  N.of_nat (length kvs) = cap s - size s + k ->
  exists s1 fr1,
    final_c bits s [OExt k; OOpenMut] = Ok s1 /\ Inv bits s1 t fr1 term /\
    cap s1 = cap s + k /\ settled s1 /\
    exists s' slots t' fr' term',
      run_c bits s1 (ins_ops kvs) = map Ok (map (fun i => RSlot (Some i)) slots) /\
      final_c bits s1 (ins_ops kvs) = Ok s' /\ length slots = length kvs /\
      Inv bits s' t' fr' term' /\ cap s' = cap s + k /\ size s' = cap s + k /\ is_full s' = true /\
      (forall x v, sm_find (inorder t) x = Some v -> sm_find (inorder t') x = Some v) /\
      (forall x v, In (x, v) kvs -> sm_find (inorder t') x = Some v) /\
      (forall x v, step_c bits s' (OInsert x v) = Ok (s', RSlot None, t_log t' x)).
Proof. exact grow_then_fill. Qed.
Print Assumptions C08_avl_grow_then_fill.

(* repeated growth *)
Theorem C08_avl_grow_repeated : forall bits ks s t fr term,
  Inv bits s t fr term -> settled s -> nrec s + nsum ks + 1 < 2 ^ bits ->
  exists s' fr',
    final_c bits s (grow_ops ks) = Ok s' /\ Inv bits s' t fr' term /\
    cap s' = cap s + nsum ks /\ nrec s' = nrec s + nsum ks /\ size s' = size s /\ settled s' /\
    cap s' - size s' = cap s - size s + nsum ks.
Proof. exact grow_repeated. Qed.
Print Assumptions C08_avl_grow_repeated.

(* growth at any point of any history, and every continuation afterwards:
   all results are the reference map's, whose capacity is raised to the
   record count at the next mutable use *)
Theorem C08_avl_history : forall bits, remove_spec_statement bits ->
  forall capacity ops,
  okbits bits -> capacity < 2 ^ bits -> (bits <> 8 -> capacity + 1 < 2 ^ bits) ->
  growth_ok bits (spec_init capacity) ops ->
  exists outs, run_c bits (init_c capacity capacity) ops = map Ok outs /\
               map out_abs outs = run_s (spec_init capacity) ops.
Proof. exact run_refines. Qed.
Print Assumptions C08_avl_history.

(* the headline with growth, the premise discharged (Avl/FinalMaster.v: the
   link for [remove] is the theorem [LinkRemove.remove_spec]) *)
Theorem C08_avl_history_final : forall bits capacity ops,
  okbits bits -> capacity < 2 ^ bits -> (bits <> 8 -> capacity + 1 < 2 ^ bits) ->
  growth_ok bits (spec_init capacity) ops ->
  exists outs, run_c bits (init_c capacity capacity) ops = map Ok outs /\
               map out_abs outs = run_s (spec_init capacity) ops.
Proof. exact run_refines_final. Qed.
Print Assumptions C08_avl_history_final.

Theorem C08_avl_history_from : forall bits, remove_spec_statement bits ->
  forall ops s t fr term,
  Inv bits s t fr term -> okbits bits -> sizecond bits s -> growth_okw bits (abs_of s t) ops ->
  exists outs, run_c bits s ops = map Ok outs /\ map out_abs outs = run_s (abs_of s t) ops.
Proof. exact run_refines_from. Qed.
Print Assumptions C08_avl_history_from.

Theorem C08_avl_history_from_final : forall bits ops s t fr term,
  Inv bits s t fr term -> okbits bits -> sizecond bits s -> growth_okw bits (abs_of s t) ops ->
  exists outs, run_c bits s ops = map Ok outs /\ map out_abs outs = run_s (abs_of s t) ops.
Proof. exact run_refines_from_final. Qed.
Print Assumptions C08_avl_history_from_final.

(* the read-only view of the extended buffer: the old capacity, the same
   contents *)
Theorem C08_avl_ext_readonly : forall bits s t fr term k,
  Inv bits s t fr term ->
  (forall key, get (ext_nodes s k) key = Ok (sm_find (inorder t) key, t_log t key) /\
               get s key = Ok (sm_find (inorder t) key, t_log t key)) /\
  (forall key, contains (ext_nodes s k) key = contains s key) /\
  lowest (ext_nodes s k) = lowest s /\
  len (ext_nodes s k) = len s /\ capacity (ext_nodes s k) = capacity s /\
  is_empty (ext_nodes s k) = is_empty s /\ is_full (ext_nodes s k) = is_full s.
Proof. exact ext_readonly. Qed.
Print Assumptions C08_avl_ext_readonly.

Theorem C08_avl_ext_readonly_step : forall bits s t fr term k o,
  Inv bits s t fr term -> ro_op o ->
  exists out log, step_c bits s o = Ok (s, out, log) /\
                  step_c bits (ext_nodes s k) o = Ok (ext_nodes s k, out, log).
Proof. exact ext_readonly_step. Qed.
Print Assumptions C08_avl_ext_readonly_step.

(* ---- array set: extended by n zero-filled slots it keeps its members and
   gains exactly n slots ---- *)
Theorem C08_arr_grow : forall pbytes s n, ainv pbytes s ->
  exists s', astep_c pbytes s (AExt n) = Ok (s', AUnit, 0) /\ ainv pbytes s' /\
    aabs s' = aabs s /\ alen s' = alen s /\
    asbound_slots (abs_st s') = asbound_slots (abs_st s) + n /\
    apre s' = apre s /\ apost s' = apost s.
Proof. exact arr_grow. Qed.
Print Assumptions C08_arr_grow.

(* ---- examples ---- *)

(* the case the test-suite never runs: a tree that was never full (3 of 4
   slots handed out) with a recycled slot is grown by 3.  The read-only view
   still reports capacity 4; after re-opening the capacity is 7 and exactly
   5 = (4 - 2) + 3 insertions succeed (the never-used slot 4 is not lost, the
   recycled slot 1 comes last), the sixth is refused.  Then repeated growth
   by 1 and 2: exactly 3 more.  Both widths; the results are the reference
   map's and the history is admissible. *)
Example C08_avl_example :
  let h := [OInsert 1 10; OInsert 2 20; OInsert 3 30; ORemove 1; OExt 3; OCapacity; OGet 2; OLen;
            OIsFull; OOpenMut; OCapacity;
            OInsert 4 40; OInsert 5 50; OInsert 6 60; OInsert 7 70; OInsert 8 80; OIsFull;
            OInsert 9 90; OExt 1; OOpenMut; OExt 2; OOpenMut; OCapacity;
            OInsert 9 90; OInsert 10 100; OInsert 11 110; OInsert 12 120; OLen; OLowest]%Z in
  let outs := [RSlot (Some 1); RSlot (Some 2); RSlot (Some 3); RVal (Some 10%Z); RUnit; RNum 4;
               RVal (Some 20%Z); RNum 2; RBool false; RUnit; RNum 7;
               RSlot (Some 7); RSlot (Some 6); RSlot (Some 5); RSlot (Some 4); RSlot (Some 1);
               RBool true; RSlot None; RUnit; RUnit; RUnit; RUnit; RNum 10;
               RSlot (Some 10); RSlot (Some 9); RSlot (Some 8); RSlot None; RNum 10;
               RVal (Some 2%Z)] in
  run_c 8 (init_c 4 4) h = map Ok outs /\
  run_c 32 (init_c 4 4) h = map Ok outs /\
  map out_abs outs = run_s (spec_init 4) h /\
  growth_ok 8 (spec_init 4) h /\ growth_ok 32 (spec_init 4) h.
Proof.
  cbv zeta. split; [vm_compute; reflexivity|]. split; [vm_compute; reflexivity|].
  split; [vm_compute; reflexivity|].
  split; cbn [growth_ok]; repeat split; intros n Hn; try discriminate Hn; injection Hn as <-;
    vm_compute; reflexivity.
Qed.

(* the hypotheses of the growth theorems are satisfiable: a partly filled
   tree, no growth pending, room within the index width *)
Example C08_avl_example_inv :
  exists s t fr term,
    final_c 8 (init_c 4 4) [OInsert 50 500; OInsert 30 300; OInsert 40 400]%Z = Ok s /\
    Inv 8 s t fr term /\ okbits 8 /\ settled s /\ sizecond 8 (ext_nodes s 250) /\
    nrec s + nsum [100; 100; 50] + 1 < 2 ^ 8 /\
    inorder t = [(30, 300); (40, 400); (50, 500)]%Z.
Proof.
  destruct (inv_init 8 4) as [Hi Ha]; [reflexivity|congruence|].
  destruct (final_inv_noremove 8 [OInsert 50 500; OInsert 30 300; OInsert 40 400]%Z
              (init_c 4 4) E [] 1 Hi (or_introl eq_refl) (init_sizecond 8 4))
    as (s & t & fr & term & Hf & H & Hsc & Habs).
  - repeat constructor.
  - apply growth_ok_weak, growth_ok_no_ext. repeat constructor.
  - exists s, t, fr, term. split; [exact Hf|]. split; [exact H|]. split; [left; reflexivity|].
    assert (Hio : inorder t = [(30, 300); (40, 400); (50, 500)]%Z).
    { change (inorder t) with (sents (abs_of s t)). rewrite Habs, Ha. vm_compute. reflexivity. }
    vm_compute in Hf. injection Hf as <-.
    split; [vm_compute; discriminate|]. split; [right; vm_compute; reflexivity|].
    split; [vm_compute; reflexivity|exact Hio].
Qed.

(* ------------------------------------------------------------------ *)
(* Explicit handles (Avl/Session.v): a mutable view that stays open across operations, opened anew
   only after the buffer was extended or a view was requested; includes trees initialised with a
   capacity smaller than the record count of their buffer and used through the same handle. *)
From Stevia Require Import Avl.Session Avl.SessionFacts.
Open Scope N_scope.
Theorem C08_session_final_u8 :
  forall (capacity nrec : N) (keep : bool) (ops : list op),
    capacity <= nrec -> nrec <= 254 ->
    growth_okw_sess 8 (spec_init_sess capacity nrec keep) ops ->
    exists (s : st) (live : bool) (t : itree) (fr : list N) (term : N),
      final_sess 8 (init_sess capacity nrec keep) ops = Ok (mkSess s live) /\
      Inv 8 s t fr term /\ LinkSteps.sizecond 8 s /\
      mkSSess (abs_of s t) live = final_s_sess (spec_init_sess capacity nrec keep) ops.
Proof. exact final_sess_refines_u8. Qed.
Print Assumptions C08_session_final_u8.

Theorem C08_session_final_u32 :
  forall (capacity nrec : N) (keep : bool) (ops : list op),
    capacity <= nrec -> nrec + 1 < 2 ^ 32 ->
    growth_okw_sess 32 (spec_init_sess capacity nrec keep) ops ->
    exists (s : st) (live : bool) (t : itree) (fr : list N) (term : N),
      final_sess 32 (init_sess capacity nrec keep) ops = Ok (mkSess s live) /\
      Inv 32 s t fr term /\ LinkSteps.sizecond 32 s /\
      mkSSess (abs_of s t) live = final_s_sess (spec_init_sess capacity nrec keep) ops.
Proof. exact final_sess_refines_u32. Qed.
Print Assumptions C08_session_final_u32.

Theorem C08_session_capacity_stable :
  forall (bits : N) (s : st) (t : itree) (fr : list N) (term : N) (o : op) (x' : sess) (y : out) (log : list Z),
    Inv bits s t fr term -> LinkInsert.okbits bits ->
    step_sess bits (mkSess s true) o = Ok (x', y, log) -> o <> OOpenMut ->
    cap (c_st x') = cap s /\ (no_ext o -> length (nodes (c_st x')) = length (nodes s)).
Proof. exact sess_capacity_stable. Qed.
Print Assumptions C08_session_capacity_stable.

