(* C10 - the bytes are the documented format in every reachable state (hash
   set and array sets).  The independent readers are [hdecode_doc]
   (Hash/Format.v) and [adecode_doc] (Arr/Format.v).  Theorems only; each is
   closed by [exact] of a lemma proved in Arr/FormatFacts.v, Arr/DocFacts.v,
   Hash/HashProps.v, Hash/DocFacts.v. *)
From Coq Require Import List NArith ZArith Bool Arith Permutation.
From Stevia Require Import Base.Res Base.Bytes
  Arr.Impl Arr.Spec Arr.Format Arr.Search Arr.Refine Arr.ArrProps Arr.FormatFacts Arr.ArrMore Arr.DocFacts
  Hash.Impl Hash.Spec Hash.Format Hash.ZSet Hash.Mem Hash.Inv Hash.Refine Hash.HashProps Hash.FormatFacts
  Hash.FormatInv Hash.HashMore Hash.DocFacts.
Import ListNotations.
Open Scope N_scope.

(* ---- hash set: value type vty, arbitrary hash function ---- *)

(* what the reader reports: the slots and the values found in the chains *)
Theorem C10_hash_doc_views_def : forall d,
  hd_live d = map fst (concat (hd_buckets d)) /\ hd_members d = map snd (concat (hd_buckets d)).
Proof. exact (fun d => conj eq_refl eq_refl). Qed.
Print Assumptions C10_hash_doc_views_def.

(* In every state satisfying the invariant, whose members fit the value type,
   the independent reader
   - succeeds and finds the buffer well formed ([hd_wf]: no slot twice among
     live and recycled, all of them below the cursor, size word = number of
     live slots, cursor <= capacity + 1, one record per bucket, no value twice,
     every chain holds only values hashing to its bucket, never-used records
     have zero link and value, recycled records have zero value),
   - reads the header words size, capacity, free-list head, sequence,
   - recovers exactly the members the API reports, bucket by bucket,
   - finds every slot 1..capacity in exactly one of the classes live /
     recycled / never used (the three lists together are duplicate-free and
     contain exactly 1..capacity),
   and the buffer is exactly data_len(capacity) bytes. *)
Theorem C10_hash_doc : forall (hash64 : Z -> N) vty s, hinv hash64 s ->
  zval_ok (fsigned vty) (N.to_nat (hvsz vty)) 0 ->
  (forall v, In v (habs s) -> zval_ok (fsigned vty) (N.to_nat (hvsz vty)) v) ->
  exists d, hdecode_doc vty hash64 (hencode vty s) = Some d /\
    hd_wf d = true /\
    hd_hdr d = [hsize s; hcap s; hflh s; hseq s] /\
    zs_sort (hd_members d) = habs s /\
    Permutation (hd_members d) (habs s) /\
    length (hd_buckets d) = N.to_nat (hcap s) /\
    (forall b, b < hcap s ->
       map snd (nth (N.to_nat b) (hd_buckets d) []) = hbucket_members s b /\
       forall v, In v (hbucket_members s b) <-> In v (habs s) /\ (hash64 v mod 2 ^ 32) mod hcap s = b) /\
    NoDup (hd_live d ++ hd_free d ++ hd_never d) /\
    (forall i, In i (hd_live d ++ hd_free d ++ hd_never d) <-> 1 <= i <= hcap s) /\
    N.of_nat (length (hd_live d)) = hsize s /\
    length (hencode vty s) = N.to_nat (hdata_len vty (hcap s)).
Proof. exact hash_doc. Qed.
Print Assumptions C10_hash_doc.

(* the same along every history from the initialised set, the side condition
   reduced to the inserted values *)
Theorem C10_hash_doc_reachable : forall (hash64 : Z -> N) vty cap ops, cap + 1 < 2 ^ 32 ->
  zval_ok (fsigned vty) (N.to_nat (hvsz vty)) 0 ->
  (forall v, In (HInsert v) ops -> zval_ok (fsigned vty) (N.to_nat (hvsz vty)) v) ->
  exists s d, hexec hash64 (hinit_c cap cap) ops = Ok s /\ hcap s = cap /\
    hdecode_doc vty hash64 (hencode vty s) = Some d /\
    hd_wf d = true /\
    hd_hdr d = [hsize s; cap; hflh s; hseq s] /\
    zs_sort (hd_members d) = habs s /\
    NoDup (hd_live d ++ hd_free d ++ hd_never d) /\
    (forall i, In i (hd_live d ++ hd_free d ++ hd_never d) <-> 1 <= i <= cap) /\
    length (hencode vty s) = N.to_nat (hdata_len vty cap).
Proof. exact hash_doc_reachable. Qed.
Print Assumptions C10_hash_doc_reachable.

(* the parts, separately *)
Theorem C10_hash_data_len : forall (hash64 : Z -> N) vty s, hinv hash64 s ->
  length (hencode vty s) = N.to_nat (hdata_len vty (hcap s)).
Proof. exact hash_data_len. Qed.
Print Assumptions C10_hash_data_len.

Theorem C10_hash_data_len_def : forall vty capacity,
  hdata_len vty capacity = 16 + capacity * hrec_len vty /\
  hrec_len vty = round_up (round_up 8 (fsz vty) + fsz vty) (N.max 4 (fsz vty)).
Proof. exact (fun _ _ => conj eq_refl eq_refl). Qed.
Print Assumptions C10_hash_data_len_def.

(* 32-bit little-endian words size, capacity, free-list head, sequence *)
Theorem C10_hash_header_words : forall (hash64 : Z -> N) vty s, hinv hash64 s ->
  hword (hencode vty s) 0 = hsize s /\ hword (hencode vty s) 1 = hcap s /\
  hword (hencode vty s) 2 = hflh s /\ hword (hencode vty s) 3 = hseq s.
Proof. exact hash_header_words. Qed.
Print Assumptions C10_hash_header_words.

(* record b's bucket head starts the chain of exactly the members whose
   hash, truncated to 32 bits, is b modulo capacity *)
Theorem C10_hash_bucket_members : forall (hash64 : Z -> N) s b v, hinv hash64 s -> b < hcap s ->
  (In v (hbucket_members s b) <-> In v (habs s) /\ (hash64 v mod 2 ^ 32) mod hcap s = b).
Proof. exact hash_bucket_members. Qed.
Print Assumptions C10_hash_bucket_members.

(* ---- array sets: prefix of pb bytes, cells of type ty ---- *)

(* the independent reader sees the count, the members in ascending order and
   a well-formed set (count <= slots, keys strictly ascending) *)
Theorem C10_arr_decode_doc : forall pb ty pbytes s,
  cell_len ty <> 0%nat -> alen s < 2 ^ (8 * N.of_nat pb) -> Forall (cell_ok ty) (aslots s) ->
  ainv pbytes s ->
  adecode_doc pb ty (aencode pb ty s) = Some (alen s, aabs s, true).
Proof. exact adecode_doc_encode. Qed.
Print Assumptions C10_arr_decode_doc.

Theorem C10_arr_length : forall pb ty s,
  length (aencode pb ty s) = (pb + length (aslots s) * cell_len ty)%nat.
Proof. exact arr_encode_length. Qed.
Print Assumptions C10_arr_length.

(* the first pb bytes are the count, little-endian; the rest are the slots *)
Theorem C10_arr_layout : forall pb ty s,
  firstn pb (aencode pb ty s) = le_enc pb (alen s) /\
  skipn pb (aencode pb ty s) = flat_map (enc_cell ty) (aslots s).
Proof. exact arr_encode_layout. Qed.
Print Assumptions C10_arr_layout.

Theorem C10_arr_count_little_endian : forall pb ty s, ainv (N.of_nat pb) s ->
  le_dec (firstn pb (aencode pb ty s)) = alen s.
Proof. exact arr_count_little_endian. Qed.
Print Assumptions C10_arr_count_little_endian.

(* slot i is the cell_len bytes at offset pb + i * cell_len: key then payload *)
Theorem C10_arr_record_at : forall pb ty s i c, nth_error (aslots s) i = Some c ->
  firstn (cell_len ty) (skipn (pb + i * cell_len ty) (aencode pb ty s)) = enc_cell ty c.
Proof. exact arr_record_at. Qed.
Print Assumptions C10_arr_record_at.

(* every reachable state, the side condition reduced to the written values *)
Theorem C10_arr_doc_reachable : forall pb ty pre post nslots ops,
  cell_len ty <> 0%nat -> Forall aop_ok ops -> Forall (op_fits ty) ops ->
  exists s, aexec (N.of_nat pb) (ainit_c pre post nslots) ops = Ok s /\
    adecode_doc pb ty (aencode pb ty s) = Some (alen s, aabs s, true) /\
    aderef s = Ok (aabs s) /\
    length (aencode pb ty s) = (pb + length (aslots s) * cell_len ty)%nat /\
    le_dec (firstn pb (aencode pb ty s)) = alen s.
Proof. exact arr_doc_reachable. Qed.
Print Assumptions C10_arr_doc_reachable.

(* ---- examples: the actual bytes ---- *)

(* u32 values (no padding: 12-byte records), capacity 3, hash = value.
   5 and 8 collide in bucket 2; 4 went to bucket 1 and was removed again. *)
Example C10_hash_example :
  let h := fun v : Z => Z.to_N v in
  let vty := {| fsz := 4; fsigned := false |} in
  exists s, hexec h (hinit_c 3 3) [HInsert 5; HInsert 4; HInsert 8; HRemove 4]%Z = Ok s /\
    hencode vty s =
      [2; 0; 0; 0;   3; 0; 0; 0;   2; 0; 0; 0;   4; 0; 0; 0;
       0; 0; 0; 0;   0; 0; 0; 0;   5; 0; 0; 0;
       0; 0; 0; 0;   4; 0; 0; 0;   0; 0; 0; 0;
       3; 0; 0; 0;   1; 0; 0; 0;   8; 0; 0; 0] /\
    hdecode_doc vty h (hencode vty s)
    = Some (mkHDoc [2; 3; 2; 4] [[]; []; [(3, 8%Z); (1, 5%Z)]] [2] [] true).
Proof. cbv zeta. eexists. split; [vm_compute; reflexivity|]. split; vm_compute; reflexivity. Qed.

(* u64 values: value at offset 8, 16-byte records; i8 values: 3 bytes of
   padding after the value, 12-byte records *)
Example C10_hash_record_sizes :
  hrec_len {| fsz := 8; fsigned := false |} = 16 /\ hvoff {| fsz := 8; fsigned := false |} = 8 /\
  hrec_len {| fsz := 1; fsigned := true |} = 12 /\
  hrec_len {| fsz := 16; fsigned := false |} = 32 /\ hvoff {| fsz := 16; fsigned := false |} = 16 /\
  hdata_len {| fsz := 8; fsigned := false |} 10 = 176.
Proof. repeat split. Qed.

(* a reader that meets a slot both live and recycled says so: the same bytes
   with the free-list head pointing at the live slot 1 *)
Example C10_hash_reader_discriminates :
  let h := fun v : Z => Z.to_N v in
  let vty := {| fsz := 4; fsigned := false |} in
  exists d, hdecode_doc vty h
      [2; 0; 0; 0;   3; 0; 0; 0;   1; 0; 0; 0;   4; 0; 0; 0;
       0; 0; 0; 0;   0; 0; 0; 0;   5; 0; 0; 0;
       0; 0; 0; 0;   4; 0; 0; 0;   0; 0; 0; 0;
       3; 0; 0; 0;   1; 0; 0; 0;   8; 0; 0; 0] = Some d /\ hd_wf d = false.
Proof. cbv zeta. eexists. split; vm_compute; reflexivity. Qed.

(* u8 count, (i16 key, u8 payload) cells, 3 slots, two members and a stale
   third slot *)
Example C10_arr_example :
  let ty := mkCty {| fsz := 2; fsigned := true |} {| fsz := 1; fsigned := false |} in
  exists s, aexec 1 (ainit_c [(7, 7)%Z] [(8, 8)%Z] 3)
              [AInsert (300, 9); AInsert (-2, 1); AInsert (5, 5); ARemove (5, 0)]%Z = Ok s /\
    aencode 1 ty s = [2;  254; 255; 1;  44; 1; 9;  44; 1; 9] /\
    adecode_doc 1 ty (aencode 1 ty s) = Some (2, [(-2, 1); (300, 9)]%Z, true) /\
    adecode_doc 1 ty [2;  44; 1; 9;  254; 255; 1;  0; 0; 0] = Some (2, [(300, 9); (-2, 1)]%Z, false).
Proof.
  cbv zeta. eexists. split; [vm_compute; reflexivity|]. split; [vm_compute; reflexivity|].
  split; vm_compute; reflexivity.
Qed.

(* TREES: appended below *)
