(* C10 - the bytes are the documented format in every reachable state (hash
   set and array sets).  The independent readers are [hdecode_doc]
   (Hash/Format.v) and [adecode_doc] (Arr/Format.v).  Theorems only; each is
   closed by [exact] of a lemma proved in Arr/FormatFacts.v, Arr/DocFacts.v,
   Hash/HashProps.v, Hash/DocFacts.v. *)
From Coq Require Import List NArith ZArith Bool Arith Permutation.
From Stevia Require Import Base.Res Base.Bytes
  Arr.Impl Arr.Spec Arr.Format Arr.Search Arr.Refine Arr.ArrProps Arr.FormatFacts Arr.ArrMore Arr.DocFacts
  Hash.Impl Hash.Spec Hash.Format Hash.ZSet Hash.Mem Hash.Inv Hash.Refine Hash.HashProps Hash.FormatFacts
  Hash.FormatInv Hash.HashMore Hash.DocFacts.
Import ListNotations.
Open Scope N_scope.

(* ---- hash set: value type vty, arbitrary hash function ---- *)

(* what the reader reports: the slots and the values found in the chains *)
Theorem C10_hash_doc_views_def : forall d,
  hd_live d = map fst (concat (hd_buckets d)) /\ hd_members d = map snd (concat (hd_buckets d)).
Proof. exact (fun d => conj eq_refl eq_refl). Qed.
Print Assumptions C10_hash_doc_views_def.

(* In every state satisfying the invariant, whose members fit the value type,
   the independent reader
   - succeeds and finds the buffer well formed ([hd_wf]: no slot twice among
     live and recycled, all of them below the cursor, size word = number of
     live slots, cursor <= capacity + 1, one record per bucket, no value twice,
     every chain holds only values hashing to its bucket, never-used records
     have zero link and value, recycled records have zero value),
   - reads the header words size, capacity, free-list head, sequence,
   - recovers exactly the members the API reports, bucket by bucket,
   - finds every slot 1..capacity in exactly one of the classes live /
     recycled / never used (the three lists together are duplicate-free and
     contain exactly 1..capacity),
   and the buffer is exactly data_len(capacity) bytes. *)
Theorem C10_hash_doc : forall (hash64 : Z -> N) vty s, hinv hash64 s ->
  zval_ok (fsigned vty) (N.to_nat (hvsz vty)) 0 ->
  (forall v, In v (habs s) -> zval_ok (fsigned vty) (N.to_nat (hvsz vty)) v) ->
  exists d, hdecode_doc vty hash64 (hencode vty s) = Some d /\
    hd_wf d = true /\
    hd_hdr d = [hsize s; hcap s; hflh s; hseq s] /\
    zs_sort (hd_members d) = habs s /\
    Permutation (hd_members d) (habs s) /\
    length (hd_buckets d) = N.to_nat (hcap s) /\
    (forall b, b < hcap s ->
       map snd (nth (N.to_nat b) (hd_buckets d) []) = hbucket_members s b /\
       forall v, In v (hbucket_members s b) <-> In v (habs s) /\ (hash64 v mod 2 ^ 32) mod hcap s = b) /\
    NoDup (hd_live d ++ hd_free d ++ hd_never d) /\
    (forall i, In i (hd_live d ++ hd_free d ++ hd_never d) <-> 1 <= i <= hcap s) /\
    N.of_nat (length (hd_live d)) = hsize s /\
    length (hencode vty s) = N.to_nat (hdata_len vty (hcap s)).
Proof. exact hash_doc. Qed.
Print Assumptions C10_hash_doc.

(* the same along every history from the initialised set, the side condition
   reduced to the inserted values *)
Theorem C10_hash_doc_reachable : forall (hash64 : Z -> N) vty cap ops, cap + 1 < 2 ^ 32 ->
  zval_ok (fsigned vty) (N.to_nat (hvsz vty)) 0 ->
  (forall v, In (HInsert v) ops -> zval_ok (fsigned vty) (N.to_nat (hvsz vty)) v) ->
  exists s d, hexec hash64 (hinit_c cap cap) ops = Ok s /\ hcap s = cap /\
    hdecode_doc vty hash64 (hencode vty s) = Some d /\
    hd_wf d = true /\
    hd_hdr d = [hsize s; cap; hflh s; hseq s] /\
    zs_sort (hd_members d) = habs s /\
    NoDup (hd_live d ++ hd_free d ++ hd_never d) /\
    (forall i, In i (hd_live d ++ hd_free d ++ hd_never d) <-> 1 <= i <= cap) /\
    length (hencode vty s) = N.to_nat (hdata_len vty cap).
Proof. exact hash_doc_reachable. Qed.
Print Assumptions C10_hash_doc_reachable.

(* the parts, separately *)
Theorem C10_hash_data_len : forall (hash64 : Z -> N) vty s, hinv hash64 s ->
  length (hencode vty s) = N.to_nat (hdata_len vty (hcap s)).
Proof. exact hash_data_len. Qed.
Print Assumptions C10_hash_data_len.

Theorem C10_hash_data_len_def : forall vty capacity,
  hdata_len vty capacity = 16 + capacity * hrec_len vty /\
  hrec_len vty = round_up (round_up 8 (fsz vty) + fsz vty) (N.max 4 (fsz vty)).
Proof. exact (fun _ _ => conj eq_refl eq_refl). Qed.
Print Assumptions C10_hash_data_len_def.

(* 32-bit little-endian words size, capacity, free-list head, sequence *)
Theorem C10_hash_header_words : forall (hash64 : Z -> N) vty s, hinv hash64 s ->
  hword (hencode vty s) 0 = hsize s /\ hword (hencode vty s) 1 = hcap s /\
  hword (hencode vty s) 2 = hflh s /\ hword (hencode vty s) 3 = hseq s.
Proof. exact hash_header_words. Qed.
Print Assumptions C10_hash_header_words.

(* record b's bucket head starts the chain of exactly the members whose
   hash, truncated to 32 bits, is b modulo capacity *)
Theorem C10_hash_bucket_members : forall (hash64 : Z -> N) s b v, hinv hash64 s -> b < hcap s ->
  (In v (hbucket_members s b) <-> In v (habs s) /\ (hash64 v mod 2 ^ 32) mod hcap s = b).
Proof. exact hash_bucket_members. Qed.
Print Assumptions C10_hash_bucket_members.

(* ---- array sets: prefix of pb bytes, cells of type ty ---- *)

(* the independent reader sees the count, the members in ascending order and
   a well-formed set (count <= slots, keys strictly ascending) *)
Theorem C10_arr_decode_doc : forall pb ty pbytes s,
  cell_len ty <> 0%nat -> alen s < 2 ^ (8 * N.of_nat pb) -> Forall (cell_ok ty) (aslots s) ->
  ainv pbytes s ->
  adecode_doc pb ty (aencode pb ty s) = Some (alen s, aabs s, true).
Proof. exact adecode_doc_encode. Qed.
Print Assumptions C10_arr_decode_doc.

Theorem C10_arr_length : forall pb ty s,
  length (aencode pb ty s) = (pb + length (aslots s) * cell_len ty)%nat.
Proof. exact arr_encode_length. Qed.
Print Assumptions C10_arr_length.

(* the first pb bytes are the count, little-endian; the rest are the slots *)
Theorem C10_arr_layout : forall pb ty s,
  firstn pb (aencode pb ty s) = le_enc pb (alen s) /\
  skipn pb (aencode pb ty s) = flat_map (enc_cell ty) (aslots s).
Proof. exact arr_encode_layout. Qed.
Print Assumptions C10_arr_layout.

Theorem C10_arr_count_little_endian : forall pb ty s, ainv (N.of_nat pb) s ->
  le_dec (firstn pb (aencode pb ty s)) = alen s.
Proof. exact arr_count_little_endian. Qed.
Print Assumptions C10_arr_count_little_endian.

(* slot i is the cell_len bytes at offset pb + i * cell_len: key then payload *)
Theorem C10_arr_record_at : forall pb ty s i c, nth_error (aslots s) i = Some c ->
  firstn (cell_len ty) (skipn (pb + i * cell_len ty) (aencode pb ty s)) = enc_cell ty c.
Proof. exact arr_record_at. Qed.
Print Assumptions C10_arr_record_at.

(* every reachable state, the side condition reduced to the written values *)
Theorem C10_arr_doc_reachable : forall pb ty pre post nslots ops,
  cell_len ty <> 0%nat -> Forall aop_ok ops -> Forall (op_fits ty) ops ->
  exists s, aexec (N.of_nat pb) (ainit_c pre post nslots) ops = Ok s /\
    adecode_doc pb ty (aencode pb ty s) = Some (alen s, aabs s, true) /\
    aderef s = Ok (aabs s) /\
    length (aencode pb ty s) = (pb + length (aslots s) * cell_len ty)%nat /\
    le_dec (firstn pb (aencode pb ty s)) = alen s.
Proof. exact arr_doc_reachable. Qed.
Print Assumptions C10_arr_doc_reachable.

(* ---- examples: the actual bytes ---- *)

(* u32 values (no padding: 12-byte records), capacity 3, hash = value.
   5 and 8 collide in bucket 2; 4 went to bucket 1 and was removed again. *)
Example C10_hash_example :
  let h := fun v : Z => Z.to_N v in
  let vty := {| fsz := 4; fsigned := false |} in
  exists s, hexec h (hinit_c 3 3) [HInsert 5; HInsert 4; HInsert 8; HRemove 4]%Z = Ok s /\
    hencode vty s =
      [2; 0; 0; 0;   3; 0; 0; 0;   2; 0; 0; 0;   4; 0; 0; 0;
       0; 0; 0; 0;   0; 0; 0; 0;   5; 0; 0; 0;
       0; 0; 0; 0;   4; 0; 0; 0;   0; 0; 0; 0;
       3; 0; 0; 0;   1; 0; 0; 0;   8; 0; 0; 0] /\
    hdecode_doc vty h (hencode vty s)
    = Some (mkHDoc [2; 3; 2; 4] [[]; []; [(3, 8%Z); (1, 5%Z)]] [2] [] true).
Proof. cbv zeta. eexists. split; [vm_compute; reflexivity|]. split; vm_compute; reflexivity. Qed.

(* u64 values: value at offset 8, 16-byte records; i8 values: 3 bytes of
   padding after the value, 12-byte records *)
Example C10_hash_record_sizes :
  hrec_len {| fsz := 8; fsigned := false |} = 16 /\ hvoff {| fsz := 8; fsigned := false |} = 8 /\
  hrec_len {| fsz := 1; fsigned := true |} = 12 /\
  hrec_len {| fsz := 16; fsigned := false |} = 32 /\ hvoff {| fsz := 16; fsigned := false |} = 16 /\
  hdata_len {| fsz := 8; fsigned := false |} 10 = 176.
Proof. repeat split. Qed.

(* a reader that meets a slot both live and recycled says so: the same bytes
   with the free-list head pointing at the live slot 1 *)
Example C10_hash_reader_discriminates :
  let h := fun v : Z => Z.to_N v in
  let vty := {| fsz := 4; fsigned := false |} in
  exists d, hdecode_doc vty h
      [2; 0; 0; 0;   3; 0; 0; 0;   1; 0; 0; 0;   4; 0; 0; 0;
       0; 0; 0; 0;   0; 0; 0; 0;   5; 0; 0; 0;
       0; 0; 0; 0;   4; 0; 0; 0;   0; 0; 0; 0;
       3; 0; 0; 0;   1; 0; 0; 0;   8; 0; 0; 0] = Some d /\ hd_wf d = false.
Proof. cbv zeta. eexists. split; vm_compute; reflexivity. Qed.

(* u8 count, (i16 key, u8 payload) cells, 3 slots, two members and a stale
   third slot *)
Example C10_arr_example :
  let ty := mkCty {| fsz := 2; fsigned := true |} {| fsz := 1; fsigned := false |} in
  exists s, aexec 1 (ainit_c [(7, 7)%Z] [(8, 8)%Z] 3)
              [AInsert (300, 9); AInsert (-2, 1); AInsert (5, 5); ARemove (5, 0)]%Z = Ok s /\
    aencode 1 ty s = [2;  254; 255; 1;  44; 1; 9;  44; 1; 9] /\
    adecode_doc 1 ty (aencode 1 ty s) = Some (2, [(-2, 1); (300, 9)]%Z, true) /\
    adecode_doc 1 ty [2;  44; 1; 9;  254; 255; 1;  0; 0; 0] = Some (2, [(300, 9); (-2, 1)]%Z, false).
Proof.
  cbv zeta. eexists. split; [vm_compute; reflexivity|]. split; [vm_compute; reflexivity|].
  split; vm_compute; reflexivity.
Qed.

(* TREES: appended below *)

(* ---- AVL trees: index words of wbytes bytes (1 or 4), key and value field
   types given by [lay].  The independent reader is [decode_doc]
   (Avl/Format.v).  Each theorem is closed by [exact] of a lemma proved in
   Avl/DocFacts.v (which builds on Avl/FormatFacts.v, Avl/Alloc.v, Avl/Inv.v,
   Avl/LinkInsert.v, Avl/LinkSteps.v).  [remove_spec_statement bits] is the
   statement of Avl/LinkRemove.v's [remove_spec]; the theorem about removal
   takes it as a premise. ---- *)
From Stevia Require Import Avl.Impl Avl.Tree Avl.Rep Avl.Spec Avl.TreeInv Avl.TreeOps Avl.Alloc Avl.Inv
  Avl.LinkInsert Avl.LinkSteps Avl.Format Avl.FormatFacts Avl.Balance Avl.DocFacts.
(* Avl/WordsOk.v: the word invariant [words_ok] (every header word and every
   index/height register fits an index word), which holds initially, is
   preserved by every operation and, with the master invariant, implies
   [hdr_fits].  Avl/Final.v: [remove_spec_statement] proved from
   Avl/LinkRemove.v.  The [_final] theorems below are the conditional ones
   with [hdr_fits] replaced by [words_ok] / without the removal premise. *)
From Stevia Require Import Avl.LinkRemove Avl.WordsOk Avl.Final.

(* the vocabulary: the index width in bits; "keys and values fit their field
   types"; "cursor and free-chain terminator fit an index word" (an explicit
   premise: the allocator invariant as it stands does not bound them once the
   cursor has passed the capacity, see C10_avl_hdr_fits_needed); the reader's
   tree for a tree of layer T; data_len *)
Theorem C10_avl_defs : forall wbytes lay s t term c,
  bits_of wbytes = 8 * N.of_nat wbytes /\
  (kv_fits lay t <->
   forall slot k v, In (slot, k, v) (triples t) ->
     zval_ok (fsigned (kty lay)) (N.to_nat (ksz lay)) k /\
     zval_ok (fsigned (vty lay)) (N.to_nat (vsz lay)) v) /\
  (hdr_fits wbytes s term <-> seq s < 2 ^ bits_of wbytes /\ term < 2 ^ bits_of wbytes) /\
  dt_of E = DE /\
  (forall l i k v h r, dt_of (T l i k v h r) = DT (dt_of l) i k v h (dt_of r)) /\
  data_len wbytes lay c = N.of_nat (hdr_len wbytes) + c * rec_len wbytes lay /\
  hdr_len 1 = 8%nat /\ hdr_len 4 = 24%nat /\
  rec_len wbytes lay =
    round_up (round_up (round_up (4 * N.of_nat wbytes) (ksz lay) + ksz lay) (vsz lay) + vsz lay)
             (N.max (N.of_nat wbytes) (N.max (ksz lay) (vsz lay))).
Proof.
  exact (fun wbytes lay s t term c =>
    conj eq_refl (conj (iff_refl _) (conj (iff_refl _) (conj eq_refl (conj (fun l i k v h r => eq_refl)
      (conj eq_refl (conj eq_refl (conj eq_refl eq_refl)))))))).
Qed.
Print Assumptions C10_avl_defs.

(* the word invariant: purely syntactic, independent of trees *)
Theorem C10_avl_words_ok_def_final : forall bits s,
  words_ok bits s <->
  root s < 2 ^ bits /\ size s < 2 ^ bits /\ cap s < 2 ^ bits /\ flh s < 2 ^ bits /\ seq s < 2 ^ bits /\
  Forall (fun n => nl n < 2 ^ bits /\ nr n < 2 ^ bits /\ nh n < 2 ^ bits) (nodes s).
Proof. exact (fun bits s => iff_refl _). Qed.
Print Assumptions C10_avl_words_ok_def_final.

(* it holds in an initialised buffer, every operation preserves it (no other
   hypothesis), so it holds after every history *)
Theorem C10_avl_words_ok_init_final : forall bits capacity nrec,
  1 <= bits -> capacity < 2 ^ bits -> words_ok bits (init_c capacity nrec).
Proof. exact words_ok_init. Qed.
Print Assumptions C10_avl_words_ok_init_final.

Theorem C10_avl_words_ok_step_final : forall bits s o s' out log,
  step_c bits s o = Ok (s', out, log) -> words_ok bits s -> words_ok bits s'.
Proof. exact step_c_words_ok. Qed.
Print Assumptions C10_avl_words_ok_step_final.

Theorem C10_avl_words_ok_run_final : forall bits capacity nrec ops s,
  1 <= bits -> capacity < 2 ^ bits -> final_c bits (init_c capacity nrec) ops = Ok s -> words_ok bits s.
Proof. exact run_words_ok. Qed.
Print Assumptions C10_avl_words_ok_run_final.

(* with the master invariant it gives the extra premise [hdr_fits]: the
   terminator of the free chain is the free-list head word or the height
   register of the last recycled record *)
Theorem C10_avl_hdr_fits_words_final : forall wbytes s t fr term,
  Inv (bits_of wbytes) s t fr term -> words_ok (bits_of wbytes) s -> hdr_fits wbytes s term.
Proof. exact hdr_fits_words. Qed.
Print Assumptions C10_avl_hdr_fits_words_final.

(* every state satisfying the invariant is representable: all header words
   and registers fit the index width, keys and values fit their fields *)
Theorem C10_avl_st_ok : forall wbytes lay,
  wbytes = 1%nat \/ wbytes = 4%nat -> 0 < ksz lay -> 0 < vsz lay ->
  forall s t fr term,
  Inv (bits_of wbytes) s t fr term -> kv_fits lay t -> hdr_fits wbytes s term ->
  st_ok wbytes lay s.
Proof. exact inv_st_ok. Qed.
Print Assumptions C10_avl_st_ok.

Theorem C10_avl_st_ok_final : forall wbytes lay,
  wbytes = 1%nat \/ wbytes = 4%nat -> 0 < ksz lay -> 0 < vsz lay ->
  forall s t fr term,
  Inv (bits_of wbytes) s t fr term -> kv_fits lay t -> words_ok (bits_of wbytes) s ->
  st_ok wbytes lay s.
Proof. exact inv_st_ok_w. Qed.
Print Assumptions C10_avl_st_ok_final.

(* where the extra premise follows from the invariant *)
Theorem C10_avl_hdr_fits_room : forall wbytes s t fr term,
  Inv (bits_of wbytes) s t fr term -> Alloc.lseq (bits_of wbytes) s <= cap s -> hdr_fits wbytes s term.
Proof. exact hdr_fits_room. Qed.
Print Assumptions C10_avl_hdr_fits_room.

Theorem C10_avl_seq_fits_u32 : forall wbytes s t fr term,
  Inv (bits_of wbytes) s t fr term -> wbytes = 4%nat -> seq s < 2 ^ bits_of wbytes.
Proof. exact seq_fits_u32. Qed.
Print Assumptions C10_avl_seq_fits_u32.

(* and that it is needed *)
Theorem C10_avl_hdr_fits_needed :
  let s := mkS 0 0 1 1 2 [mkN 0 0 999 0 0] in
  Inv 8 s E [1] 999 /\ decode 1 ex_lay8 (encode 1 ex_lay8 s) <> Some s.
Proof. exact term_not_bounded_by_inv. Qed.
Print Assumptions C10_avl_hdr_fits_needed.

(* In every state satisfying the invariant the independent reader
   - succeeds and reads the header words root, size, capacity, free-list
     head, sequence;
   - following the links from the root reads exactly the tree, so its in-order
     list of (slot, key, value) is that of the tree and the (key, value)
     pairs are exactly the contents the API reports ([get] answers from them);
   - following the height registers from the free-list head for
     lseq - 1 - size steps reads exactly the free chain;
   - finds the never-used slots to be those from the cursor on;
   - finds the buffer well formed ([d_wf]: no slot twice among live and
     recycled, all of them in [1, cursor), size word = number of live slots,
     cursor <= capacity + 1, capacity <= number of records, never-used records
     all zero, recycled records zero but for the chain link), the keys strictly
     increasing in order ([d_bst]) and the tree height balanced with exact
     stored heights ([d_bal]);
   - every slot 1..number of records is in exactly one of the classes live /
     recycled / never used;
   and the buffer is exactly data_len(number of records) bytes. *)
Theorem C10_avl_doc : forall wbytes lay,
  wbytes = 1%nat \/ wbytes = 4%nat -> 0 < ksz lay -> 0 < vsz lay ->
  forall s t fr term,
  Inv (bits_of wbytes) s t fr term -> kv_fits lay t -> hdr_fits wbytes s term ->
  exists d, decode_doc wbytes lay (encode wbytes lay s) = Some d /\
    d_hdr d = [root s; size s; cap s; flh s; seq s] /\
    d_tree d = dt_of t /\
    d_inorder (d_tree d) = triples t /\
    map tr_kv (d_inorder (d_tree d)) = inorder t /\
    (forall key, get s key = Ok (sm_find (map tr_kv (d_inorder (d_tree d))) key, t_log t key)) /\
    d_free d = fr /\ N.of_nat (length fr) = Alloc.lseq (bits_of wbytes) s - 1 - size s /\
    (forall i, In i (d_never d) <->
       Alloc.lseq (bits_of wbytes) s <= i /\ 1 <= i <= N.of_nat (length (nodes s))) /\
    d_wf d = true /\ d_bst d = true /\ d_bal d = true /\
    NoDup (idxs t ++ fr ++ d_never d) /\
    (forall i, In i (idxs t ++ fr ++ d_never d) <-> 1 <= i <= N.of_nat (length (nodes s))) /\
    N.of_nat (length (encode wbytes lay s)) = data_len wbytes lay (N.of_nat (length (nodes s))).
Proof. exact avl_doc. Qed.
Print Assumptions C10_avl_doc.

Theorem C10_avl_doc_final : forall wbytes lay,
  wbytes = 1%nat \/ wbytes = 4%nat -> 0 < ksz lay -> 0 < vsz lay ->
  forall s t fr term,
  Inv (bits_of wbytes) s t fr term -> kv_fits lay t -> words_ok (bits_of wbytes) s ->
  exists d, decode_doc wbytes lay (encode wbytes lay s) = Some d /\
    d_hdr d = [root s; size s; cap s; flh s; seq s] /\
    d_tree d = dt_of t /\
    d_inorder (d_tree d) = triples t /\
    map tr_kv (d_inorder (d_tree d)) = inorder t /\
    (forall key, get s key = Ok (sm_find (map tr_kv (d_inorder (d_tree d))) key, t_log t key)) /\
    d_free d = fr /\ N.of_nat (length fr) = Alloc.lseq (bits_of wbytes) s - 1 - size s /\
    (forall i, In i (d_never d) <->
       Alloc.lseq (bits_of wbytes) s <= i /\ 1 <= i <= N.of_nat (length (nodes s))) /\
    d_wf d = true /\ d_bst d = true /\ d_bal d = true /\
    NoDup (idxs t ++ fr ++ d_never d) /\
    (forall i, In i (idxs t ++ fr ++ d_never d) <-> 1 <= i <= N.of_nat (length (nodes s))) /\
    N.of_nat (length (encode wbytes lay s)) = data_len wbytes lay (N.of_nat (length (nodes s))).
Proof. exact avl_doc_w. Qed.
Print Assumptions C10_avl_doc_final.

(* [reach bits s]: s is reached from an initialised buffer of [capacity]
   records by any operations; a growth step must leave the record count
   addressable by an index word *)
Theorem C10_avl_reach_def : forall bits s,
  reach bits s <->
  (exists capacity, capacity < 2 ^ bits /\ (bits <> 8 -> capacity + 1 < 2 ^ bits) /\
     s = init_c capacity capacity) \/
  (exists s0 o out log, reach bits s0 /\ step_c bits s0 o = Ok (s, out, log) /\
     (forall n, o = OExt n -> sizecond bits s)).
Proof. exact reach_unfold. Qed.
Print Assumptions C10_avl_reach_def.

(* every reachable state satisfies the master invariant for some tree, and
   for every such tree whose keys and values fit the layout the state is
   representable, decodes to itself, and the independent reader's verdicts
   hold - no further premise *)
Theorem C10_avl_doc_reachable : forall wbytes lay,
  wbytes = 1%nat \/ wbytes = 4%nat -> 0 < ksz lay -> 0 < vsz lay ->
  forall s, reach (bits_of wbytes) s ->
  (exists t fr term, Inv (bits_of wbytes) s t fr term /\ hdr_fits wbytes s term) /\
  (forall t fr term, Inv (bits_of wbytes) s t fr term -> kv_fits lay t ->
   hdr_fits wbytes s term /\ st_ok wbytes lay s /\
   decode wbytes lay (encode wbytes lay s) = Some s /\
   exists d, decode_doc wbytes lay (encode wbytes lay s) = Some d /\
    d_hdr d = [root s; size s; cap s; flh s; seq s] /\
    d_tree d = dt_of t /\
    d_inorder (d_tree d) = triples t /\
    map tr_kv (d_inorder (d_tree d)) = inorder t /\
    (forall key, get s key = Ok (sm_find (map tr_kv (d_inorder (d_tree d))) key, t_log t key)) /\
    d_free d = fr /\ N.of_nat (length fr) = Alloc.lseq (bits_of wbytes) s - 1 - size s /\
    (forall i, In i (d_never d) <->
       Alloc.lseq (bits_of wbytes) s <= i /\ 1 <= i <= N.of_nat (length (nodes s))) /\
    d_wf d = true /\ d_bst d = true /\ d_bal d = true /\
    NoDup (idxs t ++ fr ++ d_never d) /\
    (forall i, In i (idxs t ++ fr ++ d_never d) <-> 1 <= i <= N.of_nat (length (nodes s))) /\
    N.of_nat (length (encode wbytes lay s)) = data_len wbytes lay (N.of_nat (length (nodes s)))).
Proof. exact avl_doc_reachable. Qed.
Print Assumptions C10_avl_doc_reachable.

(* what the reader's verdicts mean *)
Theorem C10_avl_verdicts_sound : forall t l,
  (d_balanced (dt_of t) = true -> avl t /\ hok t) /\
  (sorted_keys l = true -> Sorted.StronglySorted Z.lt l).
Proof. exact (fun t l => conj (d_balanced_sound t) (sorted_keys_sound l)). Qed.
Print Assumptions C10_avl_verdicts_sound.

(* the header words *)
Theorem C10_avl_header_words : forall wbytes lay,
  wbytes = 1%nat \/ wbytes = 4%nat -> 0 < ksz lay -> 0 < vsz lay ->
  forall s t fr term,
  Inv (bits_of wbytes) s t fr term -> kv_fits lay t -> hdr_fits wbytes s term ->
  word wbytes (encode wbytes lay s) 0 = root s /\ word wbytes (encode wbytes lay s) 1 = size s /\
  word wbytes (encode wbytes lay s) 2 = cap s /\ word wbytes (encode wbytes lay s) 3 = flh s /\
  word wbytes (encode wbytes lay s) 4 = seq s.
Proof. exact inv_header_words. Qed.
Print Assumptions C10_avl_header_words.

Theorem C10_avl_header_words_final : forall wbytes lay,
  wbytes = 1%nat \/ wbytes = 4%nat -> 0 < ksz lay -> 0 < vsz lay ->
  forall s t fr term,
  Inv (bits_of wbytes) s t fr term -> kv_fits lay t -> words_ok (bits_of wbytes) s ->
  word wbytes (encode wbytes lay s) 0 = root s /\ word wbytes (encode wbytes lay s) 1 = size s /\
  word wbytes (encode wbytes lay s) 2 = cap s /\ word wbytes (encode wbytes lay s) 3 = flh s /\
  word wbytes (encode wbytes lay s) 4 = seq s.
Proof. exact inv_header_words_w. Qed.
Print Assumptions C10_avl_header_words_final.

(* every entry is the record addressed by its 1-based slot *)
Theorem C10_avl_entry_bytes : forall wbytes lay,
  wbytes = 1%nat \/ wbytes = 4%nat -> 0 < ksz lay -> 0 < vsz lay ->
  forall s t fr term slot k v,
  Inv (bits_of wbytes) s t fr term -> In (slot, k, v) (triples t) ->
  exists n, rec_at s slot = Some n /\ nk n = k /\ nv n = v /\
    sub (encode wbytes lay s) (rec_off wbytes lay slot) (rec_len wbytes lay) = enc_node wbytes lay n /\
    (kv_fits lay t -> hdr_fits wbytes s term ->
     dec_node wbytes lay (sub (encode wbytes lay s) (rec_off wbytes lay slot) (rec_len wbytes lay)) = n).
Proof. exact inv_entry_bytes. Qed.
Print Assumptions C10_avl_entry_bytes.

Theorem C10_avl_entry_bytes_final : forall wbytes lay,
  wbytes = 1%nat \/ wbytes = 4%nat -> 0 < ksz lay -> 0 < vsz lay ->
  forall s t fr term slot k v,
  Inv (bits_of wbytes) s t fr term -> In (slot, k, v) (triples t) ->
  exists n, rec_at s slot = Some n /\ nk n = k /\ nv n = v /\
    sub (encode wbytes lay s) (rec_off wbytes lay slot) (rec_len wbytes lay) = enc_node wbytes lay n /\
    (kv_fits lay t -> words_ok (bits_of wbytes) s ->
     dec_node wbytes lay (sub (encode wbytes lay s) (rec_off wbytes lay slot) (rec_len wbytes lay)) = n).
Proof. exact inv_entry_bytes_w. Qed.
Print Assumptions C10_avl_entry_bytes_final.

(* data_len(c) is exactly header plus c records *)
Theorem C10_avl_data_len : forall wbytes lay,
  wbytes = 1%nat \/ wbytes = 4%nat -> 0 < ksz lay -> 0 < vsz lay ->
  forall s t fr term,
  Inv (bits_of wbytes) s t fr term ->
  N.of_nat (length (encode wbytes lay s)) = data_len wbytes lay (N.of_nat (length (nodes s))) /\
  (N.of_nat (length (nodes s)) <= cap s ->
   N.of_nat (length (encode wbytes lay s)) = data_len wbytes lay (cap s)) /\
  data_len wbytes lay (cap s) <= N.of_nat (length (encode wbytes lay s)).
Proof. exact inv_data_len. Qed.
Print Assumptions C10_avl_data_len.

(* the index returned by a tree insertion is the record holding that entry *)
Theorem C10_avl_insert_slot : forall bits s t fr term key value s' new log,
  Inv bits s t fr term -> okbits bits ->
  insert bits s key value = Ok (s', Some new, log) ->
  exists fr' term',
    Inv bits s' (t_insert t new key value) fr' term' /\
    In (new, key, value) (triples (t_insert t new key value)) /\
    t_find (t_insert t new key value) key = Some (new, value) /\
    ~ In new (idxs t) /\
    (exists n, getn (nodes s') new = Ok n /\ rec_at s' new = Some n /\ nk n = key /\ nv n = value) /\
    (forall slot k v, In (slot, k, v) (triples t) -> In (slot, k, v) (triples (t_insert t new key value))).
Proof. exact insert_slot_holds. Qed.
Print Assumptions C10_avl_insert_slot.

Theorem C10_avl_insert_slot_bytes : forall wbytes lay,
  wbytes = 1%nat \/ wbytes = 4%nat -> 0 < ksz lay -> 0 < vsz lay ->
  forall s t fr term key value s' new log,
  Inv (bits_of wbytes) s t fr term ->
  insert (bits_of wbytes) s key value = Ok (s', Some new, log) ->
  exists n, rec_at s' new = Some n /\ nk n = key /\ nv n = value /\
    sub (encode wbytes lay s') (rec_off wbytes lay new) (rec_len wbytes lay) = enc_node wbytes lay n.
Proof. exact insert_slot_bytes. Qed.
Print Assumptions C10_avl_insert_slot_bytes.

(* a live entry never moves to another record *)
Theorem C10_avl_never_moves_insert : forall bits s t fr term key value,
  Inv bits s t fr term -> okbits bits ->
  exists s' r t' fr' term',
    insert bits s key value = Ok (s', r, t_log t key) /\ Inv bits s' t' fr' term' /\
    (forall slot k v, In (slot, k, v) (triples t) -> In (slot, k, v) (triples t') /\
       exists n, getn (nodes s') slot = Ok n /\ nk n = k /\ nv n = v).
Proof. exact insert_never_moves. Qed.
Print Assumptions C10_avl_never_moves_insert.

Theorem C10_avl_never_moves_get_mut : forall bits s t fr term key v',
  Inv bits s t fr term ->
  exists s',
    get_mut_set s key v' = Ok (s', sm_find (inorder t) key, t_log t key) /\
    Inv bits s' (t_update t key v') fr term /\
    (forall slot k v, In (slot, k, v) (triples t) -> k <> key ->
       In (slot, k, v) (triples (t_update t key v')) /\
       exists n, getn (nodes s') slot = Ok n /\ nk n = k /\ nv n = v) /\
    (forall slot v, t_find t key = Some (slot, v) ->
       t_find (t_update t key v') key = Some (slot, v') /\
       exists n, getn (nodes s') slot = Ok n /\ nk n = key /\ nv n = v').
Proof. exact get_mut_never_moves. Qed.
Print Assumptions C10_avl_never_moves_get_mut.

Theorem C10_avl_never_moves_remove : forall bits, remove_spec_statement bits ->
  forall s t fr term key,
  Inv bits s t fr term -> okbits bits ->
  exists s' r t' fr' term',
    remove bits s key = Ok (s', r, t_log t key) /\ Inv bits s' t' fr' term' /\
    r = option_map snd (t_find t key) /\
    (forall slot v, t_find t key = Some (slot, v) -> fr' = slot :: fr /\ t' = t_remove t key) /\
    (t_find t key = None -> s' = s /\ t' = t) /\
    (forall slot k v, In (slot, k, v) (triples t) -> k <> key ->
       In (slot, k, v) (triples t') /\
       exists n, getn (nodes s') slot = Ok n /\ nk n = k /\ nv n = v).
Proof. exact remove_never_moves. Qed.
Print Assumptions C10_avl_never_moves_remove.

Theorem C10_avl_remove_spec_holds_final : forall bits, remove_spec_statement bits.
Proof. exact remove_spec_holds. Qed.
Print Assumptions C10_avl_remove_spec_holds_final.

Theorem C10_avl_never_moves_remove_final : forall bits s t fr term key,
  Inv bits s t fr term -> okbits bits ->
  exists s' r t' fr' term',
    remove bits s key = Ok (s', r, t_log t key) /\ Inv bits s' t' fr' term' /\
    r = option_map snd (t_find t key) /\
    (forall slot v, t_find t key = Some (slot, v) -> fr' = slot :: fr /\ t' = t_remove t key) /\
    (t_find t key = None -> s' = s /\ t' = t) /\
    (forall slot k v, In (slot, k, v) (triples t) -> k <> key ->
       In (slot, k, v) (triples t') /\
       exists n, getn (nodes s') slot = Ok n /\ nk n = k /\ nv n = v).
Proof. exact remove_never_moves_final. Qed.
Print Assumptions C10_avl_never_moves_remove_final.

(* ---- example: the u8 tree of Avl/Balance.v (eight ascending insertions and
   a removal; u8 keys, i32 values, 12-byte records): its bytes, and what the
   reader finds - slot 2 recycled, slots 9 and 10 never used ---- *)
Example C10_avl_example :
  final_c 8 (init_c 9 10)
    [OInsert 10 100; OInsert 20 200; OInsert 30 300; OInsert 40 400; OInsert 50 500;
     OInsert 60 600; OInsert 70 700; OInsert 45 450; ORemove 20]%Z = Ok ex_state /\
  Inv 8 ex_state ex_tree [2] 9 /\ kv_fits ex_lay8 ex_tree /\ hdr_fits 1 ex_state 9 /\
  encode 1 ex_lay8 ex_state =
    [4; 7; 10; 2; 9; 0; 0; 0;
     0; 0; 0; 0;   10; 0; 0; 0;   100; 0; 0; 0;
     0; 0; 9; 0;    0; 0; 0; 0;     0; 0; 0; 0;
     1; 0; 1; 0;   30; 0; 0; 0;    44; 1; 0; 0;
     3; 6; 3; 0;   40; 0; 0; 0;   144; 1; 0; 0;
     8; 0; 1; 0;   50; 0; 0; 0;   244; 1; 0; 0;
     5; 7; 2; 0;   60; 0; 0; 0;    88; 2; 0; 0;
     0; 0; 0; 0;   70; 0; 0; 0;   188; 2; 0; 0;
     0; 0; 0; 0;   45; 0; 0; 0;   194; 1; 0; 0;
     0; 0; 0; 0;    0; 0; 0; 0;     0; 0; 0; 0;
     0; 0; 0; 0;    0; 0; 0; 0;     0; 0; 0; 0] /\
  decode_doc 1 ex_lay8 (encode 1 ex_lay8 ex_state) =
    Some (mkDoc [4; 7; 10; 2; 9]
            (DT (DT (DT DE 1 10 100 0 DE) 3 30 300 1 DE) 4 40 400 3
                (DT (DT (DT DE 8 45 450 0 DE) 5 50 500 1 DE) 6 60 600 2 (DT DE 7 70 700 0 DE)))
            [2] [9; 10] true true true).
Proof.
  split; [exact ex_run|]. split; [exact ex_inv|]. destruct ex_doc as (H1 & H2 & H3).
  split; [exact H1|]. split; [exact H2|]. split; [vm_compute; reflexivity|exact H3].
Qed.

(* a reader that meets a slot both live and recycled says so: the same bytes
   with the free-list head pointing at the live slot 1 *)
Example C10_avl_reader_discriminates :
  exists d, decode_doc 1 ex_lay8 (encode 1 ex_lay8 (with_flh ex_state 1)) = Some d /\ d_wf d = false.
Proof. eexists. split; vm_compute; reflexivity. Qed.

(* the example state satisfies the word invariant (it is the result of a
   history), so the [_final] theorems apply to it *)
Example C10_avl_words_ok_example : words_ok 8 ex_state /\ hdr_fits 1 ex_state 9.
Proof.
  assert (H : words_ok 8 ex_state).
  { apply (run_words_ok 8 9 10 ex_ops ex_state); [intros HH; discriminate HH|reflexivity|exact ex_run]. }
  split; [exact H|]. exact (hdr_fits_words 1 ex_state ex_tree [2] 9 ex_inv H).
Qed.

(* ---- hash set: a live entry never moves to another record (Hash/Stable.v),
   and the reader's verdict read backwards (Hash/ReaderSound.v) ---- *)
From Stevia Require Import Hash.Stable Hash.ReaderSound.

(* Insertion: every live slot stays live and keeps its value; when the
   insertion succeeds, the new member is stored in the slot handed out by
   [add_node] (the free-list head word), which was not live, and no other slot
   becomes live. *)
Theorem C10_hash_never_moves_insert : forall (hash64 : Z -> N) s v s' b,
  hinv hash64 s -> hinsert hash64 s v = Ok (s', b) ->
  (forall i, In i (hslots s) -> In i (hslots s') /\ Hash.Mem.val (hnodes s') i = Hash.Mem.val (hnodes s) i) /\
  (b = true ->
   exists k, k = hflh s /\ (exists s1, add_node s v = Ok (s1, k)) /\
     ~ In k (hslots s) /\ In k (hslots s') /\ Hash.Mem.val (hnodes s') k = v /\
     forall i, In i (hslots s') -> i = k \/ In i (hslots s)).
Proof. exact hinsert_stable. Qed.
Print Assumptions C10_hash_never_moves_insert.

(* Removal: only the slot of the removed value leaves; every other live slot
   stays live and keeps its value. *)
Theorem C10_hash_never_moves_remove : forall (hash64 : Z -> N) s v s',
  hinv hash64 s -> hremove hash64 s v = Ok (s', true) ->
  exists k, In k (hslots s) /\ Hash.Mem.val (hnodes s) k = v /\ ~ In k (hslots s') /\
    forall i, In i (hslots s) -> i <> k ->
      In i (hslots s') /\ Hash.Mem.val (hnodes s') i = Hash.Mem.val (hnodes s) i.
Proof. exact hremove_stable. Qed.
Print Assumptions C10_hash_never_moves_remove.

(* ... and the slot that leaves is the new free-list head (so the next
   allocation hands it out again); nothing else changes class *)
Theorem C10_hash_never_moves_remove_flh : forall (hash64 : Z -> N) s v s',
  hinv hash64 s -> hremove hash64 s v = Ok (s', true) ->
  In (hflh s') (hslots s) /\ Hash.Mem.val (hnodes s) (hflh s') = v /\ ~ In (hflh s') (hslots s') /\
  (forall i, In i (hslots s) -> i <> hflh s' ->
     In i (hslots s') /\ Hash.Mem.val (hnodes s') i = Hash.Mem.val (hnodes s) i) /\
  (forall i, In i (hslots s') -> In i (hslots s) /\ i <> hflh s').
Proof. exact hremove_stable_flh. Qed.
Print Assumptions C10_hash_never_moves_remove_flh.

(* One step of the operation language: a value that is still a member after
   the step is in the same record as before.  (Members are pairwise distinct
   under the invariant, so "the slot of w" is well defined: [hslot_unique].) *)
Theorem C10_hash_never_moves_step : forall (hash64 : Z -> N) s o s' out,
  hinv hash64 s -> hstep_c hash64 s o = Ok (s', out) ->
  forall i w, In i (hslots s) -> Hash.Mem.val (hnodes s) i = w -> In w (habs s') ->
    In i (hslots s') /\ Hash.Mem.val (hnodes s') i = w.
Proof. exact hstep_stable. Qed.
Print Assumptions C10_hash_never_moves_step.

Theorem C10_hash_slot_unique : forall (hash64 : Z -> N) s i j,
  hinv hash64 s -> In i (hslots s) -> In j (hslots s) ->
  Hash.Mem.val (hnodes s) i = Hash.Mem.val (hnodes s) j -> i = j.
Proof. exact hslot_unique. Qed.
Print Assumptions C10_hash_slot_unique.

(* Along a history from the initial state, between any two of its points: a
   value that is a member after every prefix of the operations in between is,
   at the end, in the record it was in at the start. *)
Theorem C10_hash_never_moves_history : forall (hash64 : Z -> N) cap ops0 ops s s',
  cap + 1 < 2 ^ 32 ->
  hexec hash64 (hinit_c cap cap) ops0 = Ok s -> hexec hash64 s ops = Ok s' ->
  forall i w, In i (hslots s) -> Hash.Mem.val (hnodes s) i = w ->
  (forall ops1 ops2 sm, ops = ops1 ++ ops2 -> hexec hash64 s ops1 = Ok sm -> In w (habs sm)) ->
  In i (hslots s') /\ Hash.Mem.val (hnodes s') i = w.
Proof. exact hash_never_moves_reachable. Qed.
Print Assumptions C10_hash_never_moves_history.

(* the same with a syntactic premise: the value is not removed in between *)
Theorem C10_hash_never_moves_no_remove : forall (hash64 : Z -> N) ops s s',
  hinv hash64 s -> hexec hash64 s ops = Ok s' ->
  forall i w, In i (hslots s) -> Hash.Mem.val (hnodes s) i = w -> ~ In (HRemove w) ops ->
  In i (hslots s') /\ Hash.Mem.val (hnodes s') i = w /\ In w (habs s').
Proof. exact hexec_stable_no_remove. Qed.
Print Assumptions C10_hash_never_moves_no_remove.

(* The reader's verdict read backwards: on ANY bytes, if the independent
   reader answers [Some d] with [hd_wf d = true], the decoded state has the
   structure the reader reports.  (The reader does not check that the free
   list ends at the cursor, nor capacity + 1 < 2^32; with those two added the
   invariant follows - [C10_hash_reader_sound_inv].) *)
Theorem C10_hash_reader_sound : forall (hash64 : Z -> N) vty bs d,
  hdecode_doc vty hash64 bs = Some d -> hd_wf d = true ->
  exists s, hdecode vty bs = Some s /\
    hd_hdr d = [hsize s; hcap s; hflh s; hseq s] /\
    Hash.Mem.len (hnodes s) = hcap s /\ 1 <= hseq s <= hcap s + 1 /\
    length (hd_buckets d) = N.to_nat (hcap s) /\
    (forall b, b < hcap s ->
       lseg (hnodes s) (bkt (hnodes s) b) (hd_chain d b) 0 /\
       forall i v, In (i, v) (nth (N.to_nat b) (hd_buckets d) []) ->
         v = Hash.Mem.val (hnodes s) i /\ (hash64 v mod 2 ^ 32) mod hcap s = b) /\
    hd_live d = hslots s /\ hd_members d = hmembers s /\
    hd_members d = map (Hash.Mem.val (hnodes s)) (hd_live d) /\
    NoDup (hd_live d) /\ NoDup (hd_members d) /\
    hsize s = N.of_nat (length (hd_live d)) /\
    (exists t, lseg (hnodes s) (hflh s) (hd_free d) t) /\
    (forall i, In i (hd_free d) -> Hash.Mem.val (hnodes s) i = 0%Z) /\
    (forall i, In i (hd_never d) <-> 1 <= i <= hcap s /\ hseq s <= i) /\
    (forall i, In i (hd_never d) -> nxt (hnodes s) i = 0 /\ Hash.Mem.val (hnodes s) i = 0%Z) /\
    NoDup (hd_live d ++ hd_free d ++ hd_never d) /\
    (forall i, In i (hd_live d ++ hd_free d ++ hd_never d) <-> 1 <= i <= hcap s) /\
    (forall i, In i (hd_live d ++ hd_free d) <-> 1 <= i < hseq s) /\
    N.of_nat (length (hd_live d) + length (hd_free d)) + 1 = hseq s.
Proof. exact hd_wf_sound. Qed.
Print Assumptions C10_hash_reader_sound.

Theorem C10_hash_reader_reflect : forall (l : list N) (m : list Z),
  (hnodupb l = true <-> NoDup l) /\ (znodupb m = true <-> NoDup m).
Proof. exact (fun l m => conj (hnodupb_iff l) (znodupb_iff m)). Qed.
Print Assumptions C10_hash_reader_reflect.

Theorem C10_hash_reader_sound_inv : forall (hash64 : Z -> N) vty bs d s,
  hdecode_doc vty hash64 bs = Some d -> hd_wf d = true -> hdecode vty bs = Some s ->
  lseg (hnodes s) (hflh s) (hd_free d) (hseq s) -> hcap s + 1 < 4294967296 ->
  hinv_g hash64 s (hd_chain d) (hd_free d) /\ live s (hd_chain d) = hd_live d.
Proof. exact hd_wf_hinv. Qed.
Print Assumptions C10_hash_reader_sound_inv.

(* ---- example: constant hash (everything collides in bucket 0), capacity 4:
   insert 5, 7, 9 (slots 1, 2, 3); remove 7; insert 11.  5 and 9 are where
   they were, 11 sits in the record 7 had. ---- *)
Example C10_hash_never_moves_example :
  let h := fun _ : Z => 0 in
  exists s3 s4 s5,
    hexec h (hinit_c 4 4) [HInsert 5; HInsert 7; HInsert 9]%Z = Ok s3 /\
    hexec h s3 [HRemove 7]%Z = Ok s4 /\ hexec h s4 [HInsert 11]%Z = Ok s5 /\
    hslots s3 = [3; 2; 1] /\ map (hslot_of s3) [5; 7; 9; 11]%Z = [Some 1; Some 2; Some 3; None] /\
    hslots s4 = [3; 1] /\ map (hslot_of s4) [5; 7; 9; 11]%Z = [Some 1; None; Some 3; None] /\
    hflh s4 = 2 /\
    hslots s5 = [2; 3; 1] /\ map (hslot_of s5) [5; 7; 9; 11]%Z = [Some 1; None; Some 3; Some 2].
Proof. cbv zeta. eexists _, _, _. repeat (split; [vm_compute; reflexivity|]). vm_compute; reflexivity. Qed.

(* the clause the reader leaves unchecked matters: a free-list head word that
   does not point at the cursor while nothing is recycled passes the reader
   but is not a state of the invariant *)
Example C10_hash_reader_not_inv :
  (exists d, hdecode_doc rs_u32 (fun _ => 0) (hencode rs_u32 rs_bad) = Some d /\ hd_wf d = true) /\
  ~ hinv (fun _ => 0) rs_bad.
Proof. exact hd_wf_not_hinv. Qed.

(* ---- trees: the reader's verdicts read backwards (Avl/ReaderSound.v), and
   the end-to-end statement about the bytes after a history
   (Avl/EndToEnd.v) ---- *)
From Stevia Require Avl.Master.
From Stevia Require Import Avl.ReaderSound Avl.EndToEnd.

(* the vocabulary: slot of the root of the reader's tree; "the record array
   holds the tree" ([holds ns i l r h k v]: record i has these registers, key
   and value); live slots and keys in order; sub-tree; "the arguments of the
   operations fit the key and value fields" *)
Theorem C10_avl_reader_defs : forall ns lay,
  dslot DE = 0 /\ (forall l i k v h r, dslot (DT l i k v h r) = i) /\
  (drep ns DE <-> True) /\
  (forall l i k v h r, drep ns (DT l i k v h r) <->
     (exists n, getn ns i = Ok n /\ nl n = dslot l /\ nr n = dslot r /\ nh n = h /\ nk n = k /\ nv n = v) /\
     drep ns l /\ drep ns r) /\
  (forall t, dlive t = map (fun x => fst (fst x)) (d_inorder t)) /\
  (forall t, dkeys t = map (fun x => snd (fst x)) (d_inorder t)) /\
  (forall o, op_fit lay o <->
     match o with
     | OInsert k v | OGetMut k v =>
       zval_ok (fsigned (kty lay)) (N.to_nat (ksz lay)) k /\
       zval_ok (fsigned (vty lay)) (N.to_nat (vsz lay)) v
     | _ => True
     end) /\
  (forall ops, ops_fit lay ops <-> Forall (op_fit lay) ops).
Proof.
  exact (fun ns lay => conj eq_refl (conj (fun l i k v h r => eq_refl) (conj (iff_refl _)
    (conj (fun l i k v h r => iff_refl _) (conj (fun t => eq_refl) (conj (fun t => eq_refl)
    (conj (fun o => iff_refl _) (fun ops => iff_refl _)))))))).
Qed.
Print Assumptions C10_avl_reader_defs.

(* Whatever the bytes: if the independent reader answers [Some d] then the
   buffer decodes to a state s whose header words are the ones reported; the
   tree reported is held by the record array and hangs off the root word; the
   recycled slots reported are a chain of height registers from the free-list
   head; the never-used slots are the records from the (logical) cursor on;
   and
   - [d_wf d = true] means: live, recycled and never-used slots are pairwise
     disjoint, duplicate-free and together exactly 1..number of records, live
     and recycled together exactly the slots below the cursor; in particular
     no record is reached twice from the root (no sharing, no cycle) and none
     is both live and recycled; the size word counts the live slots; cursor
     <= capacity + 1 and capacity <= number of records; recycled records are
     cleared but for the chain link, never-used records are all zero;
   - [d_bst d = true] means the keys in order are strictly increasing;
   - [d_bal d = true] means at every node the two subtrees differ by at most
     one level and the stored height is exact. *)
Theorem C10_avl_reader_sound : forall wbytes lay bs d,
  decode_doc wbytes lay bs = Some d ->
  exists s, decode wbytes lay bs = Some s /\
    d_hdr d = [root s; size s; cap s; flh s; seq s] /\
    drep (nodes s) (d_tree d) /\ dslot (d_tree d) = root s /\
    (forall i, In i (dlive (d_tree d)) -> 1 <= i <= N.of_nat (length (nodes s))) /\
    (exists term, fchain (nodes s) (flh s) (d_free d) term) /\
    N.of_nat (length (d_free d)) = Format.lseq wbytes s - 1 - N.of_nat (length (dlive (d_tree d))) /\
    (forall i, In i (d_free d) -> 1 <= i <= N.of_nat (length (nodes s))) /\
    (forall i, In i (d_never d) <-> Format.lseq wbytes s <= i /\ 1 <= i <= N.of_nat (length (nodes s))) /\
    (d_wf d = true ->
       NoDup (dlive (d_tree d) ++ d_free d ++ d_never d) /\
       (forall i, In i (dlive (d_tree d) ++ d_free d ++ d_never d) <-> 1 <= i <= N.of_nat (length (nodes s))) /\
       (forall i, In i (dlive (d_tree d) ++ d_free d) <-> 1 <= i < Format.lseq wbytes s) /\
       N.of_nat (length (dlive (d_tree d)) + length (d_free d)) + 1 = Format.lseq wbytes s /\
       NoDup (dlive (d_tree d)) /\ NoDup (d_free d) /\
       (forall i, In i (dlive (d_tree d)) -> ~ In i (d_free d)) /\
       N.of_nat (length (dlive (d_tree d))) = size s /\
       1 <= Format.lseq wbytes s <= cap s + 1 /\ cap s <= N.of_nat (length (nodes s)) /\
       (forall i, In i (d_free d) ->
          exists n, getn (nodes s) i = Ok n /\ nl n = 0 /\ nr n = 0 /\ nk n = 0%Z /\ nv n = 0%Z) /\
       (forall i, In i (d_never d) -> getn (nodes s) i = Ok node0)) /\
    (d_bst d = true -> Sorted.StronglySorted Z.lt (dkeys (d_tree d))) /\
    (d_bal d = true ->
       forall l i k v h r, dsub (DT l i k v h r) (d_tree d) ->
         d_levels l <= d_levels r + 1 /\ d_levels r <= d_levels l + 1 /\
         h + 1 = d_levels (DT l i k v h r)).
Proof. exact avl_reader_sound. Qed.
Print Assumptions C10_avl_reader_sound.

(* the boolean duplicate check is the proposition *)
Theorem C10_avl_reader_reflect : forall l : list N, nodupb l = true <-> NoDup l.
Proof. exact nodupb_iff. Qed.
Print Assumptions C10_avl_reader_reflect.

(* the same in the vocabulary of the invariant: the tree of layer T with the
   reader's shape is represented by the record array, and the two verdicts
   are [bst], [avl] and [hok] of it *)
Theorem C10_avl_reader_tree : forall wbytes lay bs d s,
  decode_doc wbytes lay bs = Some d -> decode wbytes lay bs = Some s ->
  rep (nodes s) (it_of (d_tree d)) /\ idx (it_of (d_tree d)) = root s /\
  triples (it_of (d_tree d)) = d_inorder (d_tree d) /\
  (d_bst d = true -> bst (it_of (d_tree d))) /\
  (d_bal d = true -> avl (it_of (d_tree d)) /\ hok (it_of (d_tree d))).
Proof. exact avl_reader_tree. Qed.
Print Assumptions C10_avl_reader_tree.

(* with the clauses the reader does not check added (the free chain ends at
   the cursor while there is room; the capacity word leaves room for the
   cursor in an index word), acceptance gives the master invariant *)
Theorem C10_avl_reader_sound_inv : forall wbytes lay,
  wbytes = 1%nat \/ wbytes = 4%nat ->
  forall bs d s term,
  decode_doc wbytes lay bs = Some d -> decode wbytes lay bs = Some s ->
  d_wf d = true -> d_bst d = true -> d_bal d = true ->
  fchain (nodes s) (flh s) (d_free d) term -> (Format.lseq wbytes s <= cap s -> term = seq s) ->
  cap s < 2 ^ bits_of wbytes -> (bits_of wbytes <> 8 -> cap s + 1 < 2 ^ bits_of wbytes) ->
  Inv (bits_of wbytes) s (it_of (d_tree d)) (d_free d) term.
Proof. exact avl_reader_inv. Qed.
Print Assumptions C10_avl_reader_sound_inv.

(* every stored entry was an argument of an earlier operation *)
Theorem C10_avl_kv_from_ops : forall capacity ops s t slot k v,
  abs_of s t = Master.final_s (spec_init capacity) ops -> In (slot, k, v) (triples t) ->
  In (OInsert k v) ops \/ (In (OGetMut k v) ops /\ exists v0, In (OInsert k v0) ops).
Proof. exact kv_from_ops. Qed.
Print Assumptions C10_avl_kv_from_ops.

(* End to end, bytes and API answers only.  For a u8 or u32 tree, any key and
   value types of positive size, any initial capacity an index word can hold,
   and any history with admissible growth whose arguments fit the key and
   value fields: every call returns normally and answers as the reference map
   (the slot number of an insertion apart); the bytes of the final state
   decode; the independent reader accepts them with all three verdicts and
   reads, in key order, exactly the contents of the reference map; and the
   buffer is data_len(number of records) bytes long. *)
Theorem C10_avl_history_bytes_doc : forall wbytes lay,
  wbytes = 1%nat \/ wbytes = 4%nat -> 0 < ksz lay -> 0 < vsz lay ->
  forall capacity ops,
  capacity < 2 ^ bits_of wbytes -> (bits_of wbytes <> 8 -> capacity + 1 < 2 ^ bits_of wbytes) ->
  Master.growth_ok (bits_of wbytes) (spec_init capacity) ops -> ops_fit lay ops ->
  exists s outs d,
    final_c (bits_of wbytes) (init_c capacity capacity) ops = Ok s /\
    run_c (bits_of wbytes) (init_c capacity capacity) ops = map Ok outs /\
    map out_abs outs = run_s (spec_init capacity) ops /\
    decode wbytes lay (encode wbytes lay s) = Some s /\
    decode_doc wbytes lay (encode wbytes lay s) = Some d /\
    d_wf d = true /\ d_bst d = true /\ d_bal d = true /\
    map (fun x => (snd (fst x), snd x)) (d_inorder (d_tree d))
      = sents (Master.final_s (spec_init capacity) ops) /\
    N.of_nat (length (encode wbytes lay s))
      = data_len wbytes lay (snrec (Master.final_s (spec_init capacity) ops)).
Proof. exact history_bytes_doc. Qed.
Print Assumptions C10_avl_history_bytes_doc.

(* the hypotheses are satisfiable (the history of C10_avl_example, capacity
   9), and on it the conclusion computes *)
Example C10_avl_history_example :
  (9 < 2 ^ bits_of 1 /\ Master.growth_ok (bits_of 1) (spec_init 9) ex_ops /\ ops_fit ex_lay8 ex_ops) /\
  exists s d,
    final_c 8 (init_c 9 9) ex_ops = Ok s /\
    decode_doc 1 ex_lay8 (encode 1 ex_lay8 s) = Some d /\
    d_wf d = true /\ d_bst d = true /\ d_bal d = true /\
    map (fun x => (snd (fst x), snd x)) (d_inorder (d_tree d))
      = [(10, 100); (30, 300); (40, 400); (45, 450); (50, 500); (60, 600); (70, 700)]%Z /\
    sents (Master.final_s (spec_init 9) ex_ops)
      = [(10, 100); (30, 300); (40, 400); (45, 450); (50, 500); (60, 600); (70, 700)]%Z.
Proof.
  split; [exact e2e_example_hyps|]. eexists. eexists.
  split; [vm_compute; reflexivity|]. split; [vm_compute; reflexivity|].
  repeat split; vm_compute; reflexivity.
Qed.

(* bytes the reader rejects: a free-list head pointing at a live slot
   ([d_wf] false, as in C10_avl_reader_discriminates); a cyclic link (the
   walk runs out of fuel: no answer); a record with two parents ([d_wf]
   false); and bytes it accepts although they are no state of the invariant
   (the unchecked clause) *)
Example C10_avl_reader_rejects :
  (exists d, decode_doc 1 ex_lay8 (encode 1 ex_lay8 (with_flh ex_state 1)) = Some d /\ d_wf d = false) /\
  (decode 1 ex_lay8 (encode 1 ex_lay8 cyc_self) = Some cyc_self /\
   decode_doc 1 ex_lay8 (encode 1 ex_lay8 cyc_self) = None /\
   decode 1 ex_lay8 (encode 1 ex_lay8 cyc_two) = Some cyc_two /\
   decode_doc 1 ex_lay8 (encode 1 ex_lay8 cyc_two) = None) /\
  (exists d, decode_doc 1 ex_lay8 (encode 1 ex_lay8 shared_child) = Some d /\
     dlive (d_tree d) = [2; 1; 2] /\ d_wf d = false) /\
  ((exists d, decode_doc 1 ex_lay8 (encode 1 ex_lay8 avl_rs_bad) = Some d /\
      d_wf d = true /\ d_bst d = true /\ d_bal d = true) /\
   ~ inv 8 avl_rs_bad).
Proof. exact (conj reject_live_and_free (conj reject_cycle (conj reject_shared avl_reader_not_inv))). Qed.

(* ------------------------------------------------------------------ *)
(* Explicit handles, continued (Avl/SessionMore.v). *)
From Coq Require Import Permutation.
From Stevia Require Import Avl.Master Avl.LinkSteps Avl.LinkInsert Avl.Session Avl.SessionFacts Avl.Capacity Avl.EndToEnd Avl.SessionMore.
(* the independent reader on the bytes after any session history *)
Theorem C10_session_bytes_doc :
  forall (wbytes : nat) (lay : layout),
  wbytes = 1%nat \/ wbytes = 4%nat ->
  0 < ksz lay ->
  0 < vsz lay ->
  forall (capacity nr : N) (keep : bool) (ops : list op),
  capacity <= nr ->
  nr + 1 < 2 ^ DocFacts.bits_of wbytes ->
  growth_okw_sess (DocFacts.bits_of wbytes) (spec_init_sess capacity nr keep) ops ->
  ops_fit lay ops ->
  exists (s : st) (live : bool) (outs : list out) (d : doc),
  final_sess (DocFacts.bits_of wbytes) (init_sess capacity nr keep) ops =
  Ok {| c_st := s; c_live := live |} /\
  run_sess (DocFacts.bits_of wbytes) (init_sess capacity nr keep) ops = map Ok outs /\
  map out_abs outs = run_s_sess (spec_init_sess capacity nr keep) ops /\
  live = a_live (final_s_sess (spec_init_sess capacity nr keep) ops) /\
  decode wbytes lay (encode wbytes lay s) = Some s /\
  decode_doc wbytes lay (encode wbytes lay s) = Some d /\
  d_wf d = true /\
  d_bst d = true /\
  d_bal d = true /\
  map (fun x : N * Z * Z => (snd (fst x), snd x)) (d_inorder (d_tree d)) =
  sents (a_st (final_s_sess (spec_init_sess capacity nr keep) ops)) /\
  d_hdr d =
  root s
  :: s_len (a_st (final_s_sess (spec_init_sess capacity nr keep) ops))
  :: scap (a_st (final_s_sess (spec_init_sess capacity nr keep) ops)) :: flh s :: seq s :: nil /\
  word wbytes (encode wbytes lay s) 1 =
  s_len (a_st (final_s_sess (spec_init_sess capacity nr keep) ops)) /\
  word wbytes (encode wbytes lay s) 2 =
  scap (a_st (final_s_sess (spec_init_sess capacity nr keep) ops)) /\
  NoDup (map TreeInv.tr_slot (d_inorder (d_tree d)) ++ d_free d ++ d_never d) /\
  (forall i : N,
  In i (map TreeInv.tr_slot (d_inorder (d_tree d)) ++ d_free d ++ d_never d) <->
  1 <= i <= snrec (a_st (final_s_sess (spec_init_sess capacity nr keep) ops))) /\
  (forall i : N,
  In i (map TreeInv.tr_slot (d_inorder (d_tree d))) ->
  i <= scap (a_st (final_s_sess (spec_init_sess capacity nr keep) ops))) /\
  N.of_nat (length (encode wbytes lay s)) =
  data_len wbytes lay (snrec (a_st (final_s_sess (spec_init_sess capacity nr keep) ops))).
Proof. exact session_bytes_doc_simple. Qed.
Print Assumptions C10_session_bytes_doc.

Example C10_session_example_u8 := session_bytes_example_u8.
Example C10_session_example_u32 := session_bytes_example_u32.
