(* C12 - operations are total at the edges; an all-zero buffer reads as empty
   (array sets and hash set).  Theorems only; each is closed by [exact] of a
   lemma proved in Arr/ArrProps.v, Arr/ArrMore.v, Arr/DocFacts.v,
   Hash/HashProps.v, Hash/HashMore.v, Hash/DocFacts.v. *)
From Coq Require Import List NArith ZArith Bool Arith.
From Stevia Require Import Base.Res Base.ResMore Base.Bytes
  Arr.Impl Arr.Spec Arr.Format Arr.Search Arr.Refine Arr.ArrProps Arr.FormatFacts Arr.ArrMore Arr.DocFacts
  Hash.Impl Hash.Spec Hash.Format Hash.ZSet Hash.Mem Hash.Inv Hash.Refine Hash.HashProps Hash.FormatFacts
  Hash.HashMore Hash.DocFacts.
Import ListNotations.
Open Scope N_scope.

(* "a normal return": not a panic (index, arithmetic overflow, division by
   zero, unwrap, slice range, explicit) and not a loop that ran out of fuel *)
Theorem C12_res_ok_def : forall A (r : res A),
  (res_ok r <-> exists a, r = Ok a) /\ (res_ok r <-> is_ok r = true) /\
  (res_ok r -> (forall p, r <> Panic p) /\ r <> Fuel).
Proof. exact (fun A r => conj (iff_refl _) (conj (res_ok_is_ok r) (res_ok_not_panic r))). Qed.
Print Assumptions C12_res_ok_def.

(* ---- array sets: every prefix width, every number of slots (0 included,
   and more slots than the prefix can count) ---- *)

Theorem C12_arr_total : forall pbytes s o, ainv pbytes s -> aop_ok o ->
  exists r, astep_c pbytes s o = Ok r.
Proof. exact arr_total. Qed.
Print Assumptions C12_arr_total.

Theorem C12_arr_run_total : forall pbytes s ops, ainv pbytes s -> Forall aop_ok ops ->
  Forall res_ok (arun_c pbytes s ops) /\ length (arun_c pbytes s ops) = length ops.
Proof. exact arr_run_total. Qed.
Print Assumptions C12_arr_run_total.

Theorem C12_arr_run_total_init : forall pbytes pre post nslots ops, Forall aop_ok ops ->
  Forall res_ok (arun_c pbytes (ainit_c pre post nslots) ops) /\
  length (arun_c pbytes (ainit_c pre post nslots) ops) = length ops.
Proof. exact arr_run_total_init. Qed.
Print Assumptions C12_arr_run_total_init.

(* the count has reached the largest value the prefix type holds: the set is
   full whatever the number of slots, and an insert is refused, not a panic *)
Theorem C12_arr_prefix_exhausted : forall pbytes s, ainv pbytes s -> alen s + 1 = pmax pbytes ->
  ais_full pbytes s = true /\
  forall v, astep_c pbytes s (AInsert v) = Ok (s, ABool false, 0).
Proof. exact arr_prefix_exhausted. Qed.
Print Assumptions C12_arr_prefix_exhausted.

Theorem C12_arr_is_full_iff : forall pbytes s, ainv pbytes s ->
  (ais_full pbytes s = true <->
   alen s = N.min (N.of_nat (length (aslots s))) (pmax pbytes - 1)).
Proof. exact arr_is_full_iff. Qed.
Print Assumptions C12_arr_is_full_iff.

(* the zero-initialised state answers every read-only query as the empty set *)
Theorem C12_arr_zero_reads_empty : forall pbytes pre post nslots,
  let s := ainit_c pre post nslots in
  ainv pbytes s /\
  astep_c pbytes s ALen = Ok (s, ANum 0, 0) /\
  astep_c pbytes s AIsEmpty = Ok (s, ABool true, 0) /\
  (forall v, astep_c pbytes s (AGet v) = Ok (s, ACell None, 0)) /\
  (forall v, astep_c pbytes s (AContains v) = Ok (s, ABool false, 0)) /\
  astep_c pbytes s ADeref = Ok (s, AList [], 0).
Proof. exact arr_zero_reads_empty. Qed.
Print Assumptions C12_arr_zero_reads_empty.

(* ... and that state is the all-zero buffer, in both directions *)
Theorem C12_arr_zero_bytes : forall pb ty pre post nslots,
  aencode pb ty (ainit_c pre post nslots) = zeros (pb + N.to_nat nslots * cell_len ty).
Proof. exact arr_zero_bytes. Qed.
Print Assumptions C12_arr_zero_bytes.

Theorem C12_arr_zero_buffer_decodes : forall pb ty nslots, cell_len ty <> 0%nat ->
  adecode pb ty (zeros (pb + N.to_nat nslots * cell_len ty)) = Some (ainit_c [] [] nslots).
Proof. exact arr_zero_buffer_decodes. Qed.
Print Assumptions C12_arr_zero_buffer_decodes.

(* ---- hash set: every capacity with cap + 1 < 2^32 (0, 1, 2, ...), every
   hash function ---- *)

Theorem C12_hash_total : forall (hash64 : Z -> N) s o, hinv hash64 s ->
  exists s' out, hstep_c hash64 s o = Ok (s', out) /\ hinv hash64 s' /\ hcap s' = hcap s.
Proof. exact hash_total. Qed.
Print Assumptions C12_hash_total.

Theorem C12_hash_init : forall (hash64 : Z -> N) cap, cap + 1 < 4294967296 -> hinv hash64 (hinit_c cap cap).
Proof. exact hinv_init_c. Qed.
Print Assumptions C12_hash_init.

Theorem C12_hash_run_total : forall (hash64 : Z -> N) s ops, hinv hash64 s ->
  Forall res_ok (hrun_c hash64 s ops) /\ length (hrun_c hash64 s ops) = length ops.
Proof. exact hash_run_total. Qed.
Print Assumptions C12_hash_run_total.

Theorem C12_hash_run_total_init : forall (hash64 : Z -> N) cap ops, cap + 1 < 2 ^ 32 ->
  Forall res_ok (hrun_c hash64 (hinit_c cap cap) ops) /\
  length (hrun_c hash64 (hinit_c cap cap) ops) = length ops.
Proof. exact hash_run_total_init. Qed.
Print Assumptions C12_hash_run_total_init.

(* capacity 0 (hash % capacity would divide by zero): a legal set that refuses
   every insert and contains nothing *)
Theorem C12_hash_cap_zero : forall (hash64 : Z -> N), let s := hinit_c 0 0 in
  hinv hash64 s /\ (forall v, hinsert hash64 s v = Ok (s, false)) /\
  (forall v, hremove hash64 s v = Ok (s, false)) /\
  (forall v, hcontains hash64 s v = Ok false) /\ hiter s = Ok [] /\
  his_full s = true /\ his_empty s = true.
Proof. exact hash_cap_zero. Qed.
Print Assumptions C12_hash_cap_zero.

(* a zero-filled buffer with any number of records: capacity word 0, every
   query answers "empty", every update is refused *)
Theorem C12_hash_zero_reads_empty : forall (hash64 : Z -> N) n,
  let s := mkHS 0 0 0 0 (repeat hnode0 n) in
  (forall v, hcontains hash64 s v = Ok false) /\ hiter s = Ok [] /\
  hsize_of s = 0 /\ his_empty s = true /\ hcapacity s = 0 /\ his_full s = true /\
  (forall v, hremove hash64 s v = Ok (s, false)) /\
  (forall v, hinsert hash64 s v = Ok (s, false)).
Proof. exact hash_zero_reads_empty. Qed.
Print Assumptions C12_hash_zero_reads_empty.

Theorem C12_hash_zero_bytes : forall vty n,
  hencode vty (mkHS 0 0 0 0 (repeat hnode0 n)) = zeros (16 + n * N.to_nat (hrec_len vty)).
Proof. exact hash_zero_bytes. Qed.
Print Assumptions C12_hash_zero_bytes.

Theorem C12_hash_zero_buffer_decodes : forall vty n, zval_ok (fsigned vty) (N.to_nat (hvsz vty)) 0 ->
  hdecode vty (zeros (16 + n * N.to_nat (hrec_len vty))) = Some (mkHS 0 0 0 0 (repeat hnode0 n)).
Proof. exact hash_zero_buffer_decodes. Qed.
Print Assumptions C12_hash_zero_buffer_decodes.

(* ---- examples at the edges ---- *)

(* one-byte prefix, 300 slots: 255 inserts succeed, then the set is full and
   the next insert is refused without a panic *)
Example C12_arr_one_byte_prefix_300_slots :
  arun_c 1 (ainit_c [(7, 7)%Z] [(8, 8)%Z] 300)
    (ins_keys 255 ++ [AIsFull; AInsert (1000, 0)%Z; ALen; AContains (254, 0)%Z])
  = map Ok (repeat (ABool true) 255 ++ [ABool true; ABool false; ANum 255; ABool true]).
Proof. exact one_byte_prefix_300_slots. Qed.

(* no slots at all; one slot; keys at the i64 extremes *)
Example C12_arr_edges :
  arun_c 8 (ainit_c [] [] 0)
    [AInsert (1, 1); ATake (1, 0); ARemove (1, 0); AGet (1, 0); AContains (1, 0); AIsFull; AIsEmpty; ALen; ADeref]%Z
  = map Ok [ABool false; ACell None; ABool false; ACell None; ABool false; ABool true; ABool true; ANum 0; AList []] /\
  arun_c 1 (ainit_c [] [] 1)
    [AInsert (-9223372036854775808, 1); AInsert (9223372036854775807, 2); AIsFull;
     ATake (9223372036854775807, 0); ATake (-9223372036854775808, 0); AIsEmpty;
     AInsert (9223372036854775807, 2); ADeref]%Z
  = map Ok [ABool true; ABool false; ABool true; ACell None; ACell (Some (-9223372036854775808, 1)%Z);
            ABool true; ABool true; AList [(9223372036854775807, 2)%Z]].
Proof. split; vm_compute; reflexivity. Qed.

(* capacities 0, 1, 2 of the hash set; the hash is the value itself *)
Example C12_hash_edges :
  let h := fun v : Z => Z.to_N v in
  hrun_c h (hinit_c 0 0) [HInsert 5; HRemove 5; HContains 5; HIter; HIsFull; HIsEmpty; HSize; HCapacity]%Z
  = map Ok [HBool false; HBool false; HBool false; HList []; HBool true; HBool true; HNum 0; HNum 0] /\
  hrun_c h (hinit_c 1 1) [HInsert 5; HInsert 6; HIsFull; HRemove 6; HRemove 5; HIsEmpty; HInsert 6; HIter]%Z
  = map Ok [HBool true; HBool false; HBool true; HBool false; HBool true; HBool true; HBool true; HList [6%Z]] /\
  hrun_c h (hinit_c 2 2) [HInsert 4; HInsert 6; HInsert 7; HRemove 4; HInsert 7; HIter; HRemove 6; HRemove 7; HIter]%Z
  = map Ok [HBool true; HBool true; HBool false; HBool true; HBool true; HList [6; 7]%Z;
            HBool true; HBool true; HList []].
Proof. cbv zeta. split; [|split]; vm_compute; reflexivity. Qed.

(* TREES: appended below *)

(* AVL trees, both index widths.  Each theorem is closed by [exact] of a
   lemma proved in Avl/Quiet.v, Avl/Master.v or Avl/FormatFacts.v; the
   totality theorems cover [remove] and so take its link (Avl/LinkRemove.v)
   as the explicit premise [remove_spec_statement bits]. *)
From Stevia Require Import Avl.Impl Avl.Tree Avl.Spec Avl.Format Avl.FormatFacts Avl.Inv Avl.LinkInsert
  Avl.LinkSteps Avl.Master Avl.Clauses Avl.Capacity Avl.Quiet.
From Stevia Require Import Avl.FinalMaster.

(* every history on an initialised buffer returns normally at every step -
   no panic (index, overflow, unwrap, explicit), no loop out of fuel.
   Configurations: u8 tree, every capacity 0 .. 255 (255 is the largest the
   u8 index type holds; there the allocator cursor wraps); u32 tree, every
   capacity 0 .. 2^32 - 2.  Keys and values are arbitrary integers. *)
Theorem C12_avl_run_total_fixed : forall bits, remove_spec_statement bits ->
  forall capacity ops,
  okbits bits -> capacity < 2 ^ bits -> (bits <> 8 -> capacity + 1 < 2 ^ bits) ->
  Forall no_ext ops ->
  Forall res_ok (run_c bits (init_c capacity capacity) ops) /\
  length (run_c bits (init_c capacity capacity) ops) = length ops.
Proof. exact run_total_fixed. Qed.
Print Assumptions C12_avl_run_total_fixed.

(* the premise discharged (Avl/FinalMaster.v: the link for [remove] is the
   theorem [LinkRemove.remove_spec]) *)
Theorem C12_avl_run_total_fixed_final : forall bits capacity ops,
  okbits bits -> capacity < 2 ^ bits -> (bits <> 8 -> capacity + 1 < 2 ^ bits) ->
  Forall no_ext ops ->
  Forall res_ok (run_c bits (init_c capacity capacity) ops) /\
  length (run_c bits (init_c capacity capacity) ops) = length ops.
Proof. exact run_total_fixed_final. Qed.
Print Assumptions C12_avl_run_total_fixed_final.

Theorem C12_avl_run_total_u8 : forall capacity ops,
  remove_spec_statement 8 -> capacity <= 255 -> Forall no_ext ops ->
  Forall res_ok (run_c 8 (init_c capacity capacity) ops) /\
  length (run_c 8 (init_c capacity capacity) ops) = length ops.
Proof. exact run_total_u8. Qed.
Print Assumptions C12_avl_run_total_u8.

Theorem C12_avl_run_total_u8_final : forall capacity ops,
  capacity <= 255 -> Forall no_ext ops ->
  Forall res_ok (run_c 8 (init_c capacity capacity) ops) /\
  length (run_c 8 (init_c capacity capacity) ops) = length ops.
Proof. exact run_total_u8_final. Qed.
Print Assumptions C12_avl_run_total_u8_final.

Theorem C12_avl_run_total_u32 : forall capacity ops,
  remove_spec_statement 32 -> capacity + 1 < 2 ^ 32 -> Forall no_ext ops ->
  Forall res_ok (run_c 32 (init_c capacity capacity) ops) /\
  length (run_c 32 (init_c capacity capacity) ops) = length ops.
Proof. exact run_total_u32. Qed.
Print Assumptions C12_avl_run_total_u32.

Theorem C12_avl_run_total_u32_final : forall capacity ops,
  capacity + 1 < 2 ^ 32 -> Forall no_ext ops ->
  Forall res_ok (run_c 32 (init_c capacity capacity) ops) /\
  length (run_c 32 (init_c capacity capacity) ops) = length ops.
Proof. exact run_total_u32_final. Qed.
Print Assumptions C12_avl_run_total_u32_final.

(* capacities 0, 1, 2 and 255 of the u8 tree, explicitly *)
Theorem C12_avl_run_total_u8_edges : forall ops,
  remove_spec_statement 8 -> Forall no_ext ops ->
  Forall (fun c => Forall res_ok (run_c 8 (init_c c c) ops) /\
                   length (run_c 8 (init_c c c) ops) = length ops) [0; 1; 2; 255].
Proof. exact run_total_u8_edges. Qed.
Print Assumptions C12_avl_run_total_u8_edges.

Theorem C12_avl_run_total_u8_edges_final : forall ops,
  Forall no_ext ops ->
  Forall (fun c => Forall res_ok (run_c 8 (init_c c c) ops) /\
                   length (run_c 8 (init_c c c) ops) = length ops) [0; 1; 2; 255].
Proof. exact run_total_u8_edges_final. Qed.
Print Assumptions C12_avl_run_total_u8_edges_final.

(* with buffer growth, as long as the record count plus one fits the index
   width (see C08 for [growth_ok]) *)
Theorem C12_avl_run_total : forall bits, remove_spec_statement bits ->
  forall capacity ops,
  okbits bits -> capacity < 2 ^ bits -> (bits <> 8 -> capacity + 1 < 2 ^ bits) ->
  growth_ok bits (spec_init capacity) ops ->
  Forall res_ok (run_c bits (init_c capacity capacity) ops) /\
  length (run_c bits (init_c capacity capacity) ops) = length ops.
Proof. exact run_total. Qed.
Print Assumptions C12_avl_run_total.

Theorem C12_avl_run_total_final : forall bits capacity ops,
  okbits bits -> capacity < 2 ^ bits -> (bits <> 8 -> capacity + 1 < 2 ^ bits) ->
  growth_ok bits (spec_init capacity) ops ->
  Forall res_ok (run_c bits (init_c capacity capacity) ops) /\
  length (run_c bits (init_c capacity capacity) ops) = length ops.
Proof. exact run_total_final. Qed.
Print Assumptions C12_avl_run_total_final.

(* from every state of the master invariant *)
Theorem C12_avl_run_total_from : forall bits, remove_spec_statement bits ->
  forall s t fr term ops,
  Inv bits s t fr term -> okbits bits -> sizecond bits s -> growth_okw bits (abs_of s t) ops ->
  Forall res_ok (run_c bits s ops) /\ length (run_c bits s ops) = length ops.
Proof. exact run_total_from. Qed.
Print Assumptions C12_avl_run_total_from.

Theorem C12_avl_run_total_from_final : forall bits s t fr term ops,
  Inv bits s t fr term -> okbits bits -> sizecond bits s -> growth_okw bits (abs_of s t) ops ->
  Forall res_ok (run_c bits s ops) /\ length (run_c bits s ops) = length ops.
Proof. exact run_total_from_final. Qed.
Print Assumptions C12_avl_run_total_from_final.

(* every single operation in every reachable state *)
Theorem C12_avl_step_total : forall bits, remove_spec_statement bits ->
  forall capacity s o,
  okbits bits -> capacity < 2 ^ bits -> (bits <> 8 -> capacity + 1 < 2 ^ bits) ->
  reach bits capacity s -> (forall n, o = OExt n -> nrec s + n + 1 < 2 ^ bits) ->
  exists s' out log, step_c bits s o = Ok (s', out, log) /\ reach bits capacity s'.
Proof. exact reach_total. Qed.
Print Assumptions C12_avl_step_total.

Theorem C12_avl_step_total_final : forall bits capacity s o,
  okbits bits -> capacity < 2 ^ bits -> (bits <> 8 -> capacity + 1 < 2 ^ bits) ->
  reach bits capacity s -> (forall n, o = OExt n -> nrec s + n + 1 < 2 ^ bits) ->
  exists s' out log, step_c bits s o = Ok (s', out, log) /\ reach bits capacity s'.
Proof. exact reach_total_final. Qed.
Print Assumptions C12_avl_step_total_final.

(* a zero-filled buffer with any number of records reads as an empty tree of
   capacity 0 through every read-only query *)
Theorem C12_avl_zero_reads_empty : forall bits n,
  let z := mkS 0 0 0 0 0 (repeat node0 n) in
  (forall k, get z k = Ok (None, [])) /\
  (forall k, contains z k = Ok (false, [])) /\
  lowest z = Ok None /\ Avl.Impl.len z = 0 /\ is_empty z = true /\ capacity z = 0 /\ is_full z = true /\
  (forall k, step_c bits z (OGet k) = Ok (z, RVal None, [])) /\
  (forall k, step_c bits z (OContains k) = Ok (z, RBool false, [])) /\
  step_c bits z OLowest = Ok (z, RVal None, []) /\
  step_c bits z OLen = Ok (z, RNum 0, []) /\
  step_c bits z OIsEmpty = Ok (z, RBool true, []) /\
  step_c bits z OCapacity = Ok (z, RNum 0, []).
Proof. exact zero_buffer_reads_empty. Qed.
Print Assumptions C12_avl_zero_reads_empty.

(* ... and that state is the all-zero buffer, in both directions *)
Theorem C12_avl_zero_bytes : forall wbytes lay,
  (wbytes = 1 \/ wbytes = 4)%nat -> 0 < ksz lay -> 0 < vsz lay -> forall n,
  encode wbytes lay (mkS 0 0 0 0 0 (repeat node0 n))
  = repeat 0 (hdr_len wbytes + n * N.to_nat (rec_len wbytes lay)).
Proof. exact encode_zero_state. Qed.
Print Assumptions C12_avl_zero_bytes.

Theorem C12_avl_zero_buffer_decodes : forall wbytes lay,
  (wbytes = 1 \/ wbytes = 4)%nat -> 0 < ksz lay -> 0 < vsz lay -> forall n,
  decode wbytes lay (repeat 0 (hdr_len wbytes + n * N.to_nat (rec_len wbytes lay)))
  = Some (mkS 0 0 0 0 0 (repeat node0 n)).
Proof. exact decode_zeros. Qed.
Print Assumptions C12_avl_zero_buffer_decodes.

(* ---- examples at the edges ---- *)

(* the u8 tree at its largest capacity: 255 insertions succeed (the cursor
   wraps to 0 on the last one), the tree is full and refuses the next one
   without a panic; a removal frees a slot which is handed out again *)
Example C12_avl_u8_capacity_255 :
  run_c 8 (init_c 255 255)
    (map (fun i => OInsert (Z.of_nat i) 7%Z) (List.seq 0 255) ++
     [OIsFull; OInsert 1000 0; OLen; ORemove 17; OIsFull; OInsert 1000 1; OGet 1000; OInsert 1001 1;
      OLowest; OCapacity]%Z)
  = map Ok (map (fun i => RSlot (Some (N.of_nat (S i)))) (List.seq 0 255) ++
            [RBool true; RSlot None; RNum 255; RVal (Some 7%Z); RBool false; RSlot (Some 18);
             RVal (Some 1%Z); RSlot None; RVal (Some 0%Z); RNum 255]).
Proof. vm_compute. reflexivity. Qed.

(* capacities 0, 1 and 2; keys and values at the i64 extremes *)
Example C12_avl_edges :
  run_c 8 (init_c 0 0)
    [OInsert 5 5; ORemove 5; OGet 5; OGetMut 5 6; OGetMut0 5; OContains 5; OLowest; OLen; OIsEmpty;
     OIsFull; OCapacity; OOpenMut; OOpenRo]%Z
  = map Ok [RSlot None; RVal None; RVal None; RVal None; RVal None; RBool false; RVal None; RNum 0;
            RBool true; RBool true; RNum 0; RUnit; RUnit] /\
  run_c 32 (init_c 0 0)
    [OInsert 5 5; ORemove 5; OGet 5; OGetMut 5 6; OGetMut0 5; OContains 5; OLowest; OLen; OIsEmpty;
     OIsFull; OCapacity; OOpenMut; OOpenRo]%Z
  = map Ok [RSlot None; RVal None; RVal None; RVal None; RVal None; RBool false; RVal None; RNum 0;
            RBool true; RBool true; RNum 0; RUnit; RUnit] /\
  run_c 8 (init_c 1 1)
    [OInsert (-9223372036854775808) 9223372036854775807; OInsert 9223372036854775807 1; OIsFull;
     OLowest; ORemove 9223372036854775807; ORemove (-9223372036854775808); OIsEmpty;
     OInsert 9223372036854775807 (-9223372036854775808); OGet 9223372036854775807]%Z
  = map Ok [RSlot (Some 1); RSlot None; RBool true; RVal (Some (-9223372036854775808)%Z); RVal None;
            RVal (Some 9223372036854775807%Z); RBool true; RSlot (Some 1);
            RVal (Some (-9223372036854775808)%Z)] /\
  run_c 8 (init_c 2 2)
    [OInsert 4 40; OInsert 6 60; OInsert 7 70; ORemove 4; OInsert 7 70; OLowest; ORemove 6; ORemove 7;
     OLowest; OIsEmpty]%Z
  = map Ok [RSlot (Some 1); RSlot (Some 2); RSlot None; RVal (Some 40%Z); RSlot (Some 1);
            RVal (Some 6%Z); RVal (Some 60%Z); RVal (Some 70%Z); RVal None; RBool true].
Proof. repeat split; vm_compute; reflexivity. Qed.

(* ------------------------------------------------------------------ *)
(* Explicit handles (Avl/Session.v): a mutable view that stays open across operations, opened anew
   only after the buffer was extended or a view was requested; includes trees initialised with a
   capacity smaller than the record count of their buffer and used through the same handle. *)
From Stevia Require Import Avl.Session Avl.SessionFacts.
Open Scope N_scope.
Theorem C12_session_total_u8 :
  forall (capacity nrec : N) (keep : bool) (ops : list op),
    capacity <= nrec -> nrec <= 254 ->
    growth_okw_sess 8 (spec_init_sess capacity nrec keep) ops ->
    Forall ResMore.res_ok (run_sess 8 (init_sess capacity nrec keep) ops) /\
    length (run_sess 8 (init_sess capacity nrec keep) ops) = length ops.
Proof. exact run_sess_total_u8. Qed.
Print Assumptions C12_session_total_u8.

Theorem C12_session_total_u32 :
  forall (capacity nrec : N) (keep : bool) (ops : list op),
    capacity <= nrec -> nrec + 1 < 2 ^ 32 ->
    growth_okw_sess 32 (spec_init_sess capacity nrec keep) ops ->
    Forall ResMore.res_ok (run_sess 32 (init_sess capacity nrec keep) ops) /\
    length (run_sess 32 (init_sess capacity nrec keep) ops) = length ops.
Proof. exact run_sess_total_u32. Qed.
Print Assumptions C12_session_total_u32.

Theorem C12_session_total_u8_255 :
  forall (keep : bool) (ops : list op),
    Forall no_ext ops ->
    exists outs : list out,
      run_sess 8 (init_sess 255 255 keep) ops = map Ok outs /\
      map out_abs outs = run_s_sess (spec_init_sess 255 255 keep) ops.
Proof. exact run_sess_refines_u8_255. Qed.
Print Assumptions C12_session_total_u8_255.

