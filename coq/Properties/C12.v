(* C12 - operations are total at the edges; an all-zero buffer reads as empty
   (array sets and hash set).  Theorems only; each is closed by [exact] of a
   lemma proved in Arr/ArrProps.v, Arr/ArrMore.v, Arr/DocFacts.v,
   Hash/HashProps.v, Hash/HashMore.v, Hash/DocFacts.v. *)
From Coq Require Import List NArith ZArith Bool Arith.
From Stevia Require Import Base.Res Base.ResMore Base.Bytes
  Arr.Impl Arr.Spec Arr.Format Arr.Search Arr.Refine Arr.ArrProps Arr.FormatFacts Arr.ArrMore Arr.DocFacts
  Hash.Impl Hash.Spec Hash.Format Hash.ZSet Hash.Mem Hash.Inv Hash.Refine Hash.HashProps Hash.FormatFacts
  Hash.HashMore Hash.DocFacts.
Import ListNotations.
Open Scope N_scope.

(* "a normal return": not a panic (index, arithmetic overflow, division by
   zero, unwrap, slice range, explicit) and not a loop that ran out of fuel *)
Theorem C12_res_ok_def : forall A (r : res A),
  (res_ok r <-> exists a, r = Ok a) /\ (res_ok r <-> is_ok r = true) /\
  (res_ok r -> (forall p, r <> Panic p) /\ r <> Fuel).
Proof. exact (fun A r => conj (iff_refl _) (conj (res_ok_is_ok r) (res_ok_not_panic r))). Qed.
Print Assumptions C12_res_ok_def.

(* ---- array sets: every prefix width, every number of slots (0 included,
   and more slots than the prefix can count) ---- *)

Theorem C12_arr_total : forall pbytes s o, ainv pbytes s -> aop_ok o ->
  exists r, astep_c pbytes s o = Ok r.
Proof. exact arr_total. Qed.
Print Assumptions C12_arr_total.

Theorem C12_arr_run_total : forall pbytes s ops, ainv pbytes s -> Forall aop_ok ops ->
  Forall res_ok (arun_c pbytes s ops) /\ length (arun_c pbytes s ops) = length ops.
Proof. exact arr_run_total. Qed.
Print Assumptions C12_arr_run_total.

Theorem C12_arr_run_total_init : forall pbytes pre post nslots ops, Forall aop_ok ops ->
  Forall res_ok (arun_c pbytes (ainit_c pre post nslots) ops) /\
  length (arun_c pbytes (ainit_c pre post nslots) ops) = length ops.
Proof. exact arr_run_total_init. Qed.
Print Assumptions C12_arr_run_total_init.

(* the count has reached the largest value the prefix type holds: the set is
   full whatever the number of slots, and an insert is refused, not a panic *)
Theorem C12_arr_prefix_exhausted : forall pbytes s, ainv pbytes s -> alen s + 1 = pmax pbytes ->
  ais_full pbytes s = true /\
  forall v, astep_c pbytes s (AInsert v) = Ok (s, ABool false, 0).
Proof. exact arr_prefix_exhausted. Qed.
Print Assumptions C12_arr_prefix_exhausted.

Theorem C12_arr_is_full_iff : forall pbytes s, ainv pbytes s ->
  (ais_full pbytes s = true <->
   alen s = N.min (N.of_nat (length (aslots s))) (pmax pbytes - 1)).
Proof. exact arr_is_full_iff. Qed.
Print Assumptions C12_arr_is_full_iff.

(* the zero-initialised state answers every read-only query as the empty set *)
Theorem C12_arr_zero_reads_empty : forall pbytes pre post nslots,
  let s := ainit_c pre post nslots in
  ainv pbytes s /\
  astep_c pbytes s ALen = Ok (s, ANum 0, 0) /\
  astep_c pbytes s AIsEmpty = Ok (s, ABool true, 0) /\
  (forall v, astep_c pbytes s (AGet v) = Ok (s, ACell None, 0)) /\
  (forall v, astep_c pbytes s (AContains v) = Ok (s, ABool false, 0)) /\
  astep_c pbytes s ADeref = Ok (s, AList [], 0).
Proof. exact arr_zero_reads_empty. Qed.
Print Assumptions C12_arr_zero_reads_empty.

(* ... and that state is the all-zero buffer, in both directions *)
Theorem C12_arr_zero_bytes : forall pb ty pre post nslots,
  aencode pb ty (ainit_c pre post nslots) = zeros (pb + N.to_nat nslots * cell_len ty).
Proof. exact arr_zero_bytes. Qed.
Print Assumptions C12_arr_zero_bytes.

Theorem C12_arr_zero_buffer_decodes : forall pb ty nslots, cell_len ty <> 0%nat ->
  adecode pb ty (zeros (pb + N.to_nat nslots * cell_len ty)) = Some (ainit_c [] [] nslots).
Proof. exact arr_zero_buffer_decodes. Qed.
Print Assumptions C12_arr_zero_buffer_decodes.

(* ---- hash set: every capacity with cap + 1 < 2^32 (0, 1, 2, ...), every
   hash function ---- *)

Theorem C12_hash_total : forall (hash64 : Z -> N) s o, hinv hash64 s ->
  exists s' out, hstep_c hash64 s o = Ok (s', out) /\ hinv hash64 s' /\ hcap s' = hcap s.
Proof. exact hash_total. Qed.
Print Assumptions C12_hash_total.

Theorem C12_hash_init : forall (hash64 : Z -> N) cap, cap + 1 < 4294967296 -> hinv hash64 (hinit_c cap cap).
Proof. exact hinv_init_c. Qed.
Print Assumptions C12_hash_init.

Theorem C12_hash_run_total : forall (hash64 : Z -> N) s ops, hinv hash64 s ->
  Forall res_ok (hrun_c hash64 s ops) /\ length (hrun_c hash64 s ops) = length ops.
Proof. exact hash_run_total. Qed.
Print Assumptions C12_hash_run_total.

Theorem C12_hash_run_total_init : forall (hash64 : Z -> N) cap ops, cap + 1 < 2 ^ 32 ->
  Forall res_ok (hrun_c hash64 (hinit_c cap cap) ops) /\
  length (hrun_c hash64 (hinit_c cap cap) ops) = length ops.
Proof. exact hash_run_total_init. Qed.
Print Assumptions C12_hash_run_total_init.

(* capacity 0 (hash % capacity would divide by zero): a legal set that refuses
   every insert and contains nothing *)
Theorem C12_hash_cap_zero : forall (hash64 : Z -> N), let s := hinit_c 0 0 in
  hinv hash64 s /\ (forall v, hinsert hash64 s v = Ok (s, false)) /\
  (forall v, hremove hash64 s v = Ok (s, false)) /\
  (forall v, hcontains hash64 s v = Ok false) /\ hiter s = Ok [] /\
  his_full s = true /\ his_empty s = true.
Proof. exact hash_cap_zero. Qed.
Print Assumptions C12_hash_cap_zero.

(* a zero-filled buffer with any number of records: capacity word 0, every
   query answers "empty", every update is refused *)
Theorem C12_hash_zero_reads_empty : forall (hash64 : Z -> N) n,
  let s := mkHS 0 0 0 0 (repeat hnode0 n) in
  (forall v, hcontains hash64 s v = Ok false) /\ hiter s = Ok [] /\
  hsize_of s = 0 /\ his_empty s = true /\ hcapacity s = 0 /\ his_full s = true /\
  (forall v, hremove hash64 s v = Ok (s, false)) /\
  (forall v, hinsert hash64 s v = Ok (s, false)).
Proof. exact hash_zero_reads_empty. Qed.
Print Assumptions C12_hash_zero_reads_empty.

Theorem C12_hash_zero_bytes : forall vty n,
  hencode vty (mkHS 0 0 0 0 (repeat hnode0 n)) = zeros (16 + n * N.to_nat (hrec_len vty)).
Proof. exact hash_zero_bytes. Qed.
Print Assumptions C12_hash_zero_bytes.

Theorem C12_hash_zero_buffer_decodes : forall vty n, zval_ok (fsigned vty) (N.to_nat (hvsz vty)) 0 ->
  hdecode vty (zeros (16 + n * N.to_nat (hrec_len vty))) = Some (mkHS 0 0 0 0 (repeat hnode0 n)).
Proof. exact hash_zero_buffer_decodes. Qed.
Print Assumptions C12_hash_zero_buffer_decodes.

(* ---- examples at the edges ---- *)

(* one-byte prefix, 300 slots: 255 inserts succeed, then the set is full and
   the next insert is refused without a panic *)
Example C12_arr_one_byte_prefix_300_slots :
  arun_c 1 (ainit_c [(7, 7)%Z] [(8, 8)%Z] 300)
    (ins_keys 255 ++ [AIsFull; AInsert (1000, 0)%Z; ALen; AContains (254, 0)%Z])
  = map Ok (repeat (ABool true) 255 ++ [ABool true; ABool false; ANum 255; ABool true]).
Proof. exact one_byte_prefix_300_slots. Qed.

(* no slots at all; one slot; keys at the i64 extremes *)
Example C12_arr_edges :
  arun_c 8 (ainit_c [] [] 0)
    [AInsert (1, 1); ATake (1, 0); ARemove (1, 0); AGet (1, 0); AContains (1, 0); AIsFull; AIsEmpty; ALen; ADeref]%Z
  = map Ok [ABool false; ACell None; ABool false; ACell None; ABool false; ABool true; ABool true; ANum 0; AList []] /\
  arun_c 1 (ainit_c [] [] 1)
    [AInsert (-9223372036854775808, 1); AInsert (9223372036854775807, 2); AIsFull;
     ATake (9223372036854775807, 0); ATake (-9223372036854775808, 0); AIsEmpty;
     AInsert (9223372036854775807, 2); ADeref]%Z
  = map Ok [ABool true; ABool false; ABool true; ACell None; ACell (Some (-9223372036854775808, 1)%Z);
            ABool true; ABool true; AList [(9223372036854775807, 2)%Z]].
Proof. split; vm_compute; reflexivity. Qed.

(* capacities 0, 1, 2 of the hash set; the hash is the value itself *)
Example C12_hash_edges :
  let h := fun v : Z => Z.to_N v in
  hrun_c h (hinit_c 0 0) [HInsert 5; HRemove 5; HContains 5; HIter; HIsFull; HIsEmpty; HSize; HCapacity]%Z
  = map Ok [HBool false; HBool false; HBool false; HList []; HBool true; HBool true; HNum 0; HNum 0] /\
  hrun_c h (hinit_c 1 1) [HInsert 5; HInsert 6; HIsFull; HRemove 6; HRemove 5; HIsEmpty; HInsert 6; HIter]%Z
  = map Ok [HBool true; HBool false; HBool true; HBool false; HBool true; HBool true; HBool true; HList [6%Z]] /\
  hrun_c h (hinit_c 2 2) [HInsert 4; HInsert 6; HInsert 7; HRemove 4; HInsert 7; HIter; HRemove 6; HRemove 7; HIter]%Z
  = map Ok [HBool true; HBool true; HBool false; HBool true; HBool true; HList [6; 7]%Z;
            HBool true; HBool true; HList []].
Proof. cbv zeta. split; [|split]; vm_compute; reflexivity. Qed.

(* TREES: appended below *)
