(* C14 - Pod strings: NUL-padded fixed-size text.
   Theorems only; each is closed by [exact] of a lemma proved in
   Pod/PodStrFacts.v. *)
From Coq Require Import List NArith Bool Arith.
From Stevia Require Import Base.Res Base.Bytes Base.Utf8 Base.Utf8Facts Pod.PodStr Pod.PodStrFacts.
Import ListNotations.
Open Scope N_scope.

Theorem C14_no_nul_def : forall s, no_nul s <-> Forall (fun b => b <> 0) s.
Proof. exact (fun s => iff_refl _). Qed.
Print Assumptions C14_no_nul_def.

(* ---- 1. copy_from_slice ---- *)
Theorem C14_copy_from_slice : forall n s,
  ps_copy_from_slice n s = firstn (Nat.min (length s) n) s ++ zeros (n - Nat.min (length s) n).
Proof. exact ps_copy_from_slice_eq. Qed.
Print Assumptions C14_copy_from_slice.

Theorem C14_copy_from_slice_length : forall n s, length (ps_copy_from_slice n s) = n.
Proof. exact ps_copy_from_slice_length. Qed.
Print Assumptions C14_copy_from_slice_length.

Theorem C14_copy_fits : forall n s, (length s <= n)%nat ->
  ps_copy_from_slice n s = s ++ zeros (n - length s).
Proof. exact ps_copy_from_slice_fits. Qed.
Print Assumptions C14_copy_fits.

Theorem C14_copy_truncates : forall n s, (n <= length s)%nat -> ps_copy_from_slice n s = firstn n s.
Proof. exact ps_copy_from_slice_truncates. Qed.
Print Assumptions C14_copy_truncates.

Theorem C14_copy_ignores_previous : forall n s v0 v0', ps_copy_over n v0 s = ps_copy_over n v0' s.
Proof. exact ps_copy_ignores_previous. Qed.
Print Assumptions C14_copy_ignores_previous.

Theorem C14_copy_variants : forall n s,
  ps_copy_from_str n s = ps_copy_from_slice n s /\ ps_from n s = ps_copy_from_slice n s.
Proof. exact ps_copy_variants. Qed.
Print Assumptions C14_copy_variants.

(* ---- 2. round trip ---- *)
Theorem C14_roundtrip : forall n s,
  (length s <= n)%nat -> Forall (fun b => b <> 0) s -> utf8_valid s = true ->
  ps_as_str (ps_copy_from_slice n s) = Some s.
Proof. exact ps_roundtrip. Qed.
Print Assumptions C14_roundtrip.

Theorem C14_until_nul_padding : forall s k, Forall (fun b => b <> 0) s -> until_nul (s ++ zeros k) = s.
Proof. exact until_nul_app_zeros. Qed.
Print Assumptions C14_until_nul_padding.

(* ---- 3. as_str is total over arbitrary bytes ---- *)
Theorem C14_as_str_some : forall v t, ps_as_str v = Some t -> t = until_nul v /\ utf8_valid t = true.
Proof. exact ps_as_str_some. Qed.
Print Assumptions C14_as_str_some.

Theorem C14_as_str_some_iff : forall v t, ps_as_str v = Some t <-> t = until_nul v /\ utf8_valid t = true.
Proof. exact ps_as_str_some_iff. Qed.
Print Assumptions C14_as_str_some_iff.

Theorem C14_as_str_none_iff : forall v, ps_as_str v = None <-> utf8_valid (until_nul v) = false.
Proof. exact ps_as_str_none_iff. Qed.
Print Assumptions C14_as_str_none_iff.

Theorem C14_until_nul_spec : forall v,
  Forall (fun b => b <> 0) (until_nul v) /\
  exists rest, v = until_nul v ++ rest /\ (rest = [] \/ exists rest', rest = 0 :: rest').
Proof. exact until_nul_spec. Qed.
Print Assumptions C14_until_nul_spec.

(* ---- 4. Display ---- *)
Theorem C14_display_is_as_str : forall v, ps_display v = ps_as_str v.
Proof. exact ps_display_eq. Qed.
Print Assumptions C14_display_is_as_str.

Theorem C14_display_no_padding : forall v t, ps_display v = Some t ->
  ps_as_str v = Some t /\ Forall (fun b => b <> 0) t /\ utf8_valid t = true /\ t = until_nul v.
Proof. exact ps_display_no_padding. Qed.
Print Assumptions C14_display_no_padding.

Theorem C14_display_roundtrip : forall n s,
  (length s <= n)%nat -> Forall (fun b => b <> 0) s -> utf8_valid s = true ->
  ps_display (ps_copy_from_slice n s) = Some s.
Proof. exact ps_display_roundtrip. Qed.
Print Assumptions C14_display_roundtrip.

(* ---- 5. load ---- *)
Theorem C14_load_ignores_trailing : forall n v extra, length v = n -> ps_load n (v ++ extra) = Ok v.
Proof. exact ps_load_prefix. Qed.
Print Assumptions C14_load_ignores_trailing.

Theorem C14_load_panic_iff : forall n d, ps_load n d = Panic PSlice <-> (length d < n)%nat.
Proof. exact ps_load_panic_iff. Qed.
Print Assumptions C14_load_panic_iff.

Theorem C14_load_total : forall n d,
  (ps_load n d = Panic PSlice /\ (length d < n)%nat) \/
  (ps_load n d = Ok (firstn n d) /\ (n <= length d)%nat /\ length (firstn n d) = n).
Proof. exact ps_load_total. Qed.
Print Assumptions C14_load_total.

(* non-vacuity: "hi" in a PodStr<4>, a full PodStr<2>, truncation, capacity 0,
   text after the first NUL is not shown, invalid text is an error *)
Example C14_example :
  ps_copy_from_slice 4 [104; 105] = [104; 105; 0; 0] /\
  ps_as_str [104; 105; 0; 0] = Some [104; 105] /\
  ps_as_str (ps_copy_from_slice 2 [104; 105]) = Some [104; 105] /\
  ps_copy_from_slice 2 [104; 105; 33] = [104; 105] /\
  ps_copy_from_slice 0 [104] = [] /\ ps_as_str [] = Some [] /\
  ps_display [104; 0; 105; 0] = Some [104] /\
  ps_as_str [195; 0; 0] = None /\
  ps_load 2 [104; 105; 7] = Ok [104; 105] /\ ps_load 2 [104] = Panic PSlice.
Proof. repeat split. Qed.
