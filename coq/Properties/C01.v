(* C01 - the AVL trees (both index widths) behave as a capacity-bounded
   ordered map over every history.  Theorems only; each is closed by [exact]
   of a lemma proved in Avl/Master.v or Avl/Clauses.v.  The link for [remove]
   (Avl/LinkRemove.v, lemma remove_spec) enters as the explicit premise
   [remove_spec_statement bits]. *)
From Coq Require Import List NArith ZArith Bool.
From Stevia Require Import Base.Res Avl.Impl Avl.Tree Avl.Spec Avl.Inv Avl.LinkInsert Avl.LinkSteps
  Avl.Master Avl.Clauses.
From Stevia Require Import Avl.FinalMaster.
Import ListNotations.
Open Scope N_scope.

(* ---- vocabulary ---- *)
Theorem C01_avl_defs :
  (forall bits, okbits bits <-> bits = 8 \/ bits = 32) /\
  (forall o, no_ext o <-> match o with OExt _ => False | _ => True end) /\
  (forall s, nrec s = N.of_nat (length (nodes s))) /\
  (forall s, settled s <-> nrec s <= cap s) /\
  (forall bits s, sizecond bits s <-> nrec s <= cap s \/ nrec s + 1 < 2 ^ bits) /\
  (forall s t, abs_of s t = mkSS (cap s) (inorder t) (nrec s)) /\
  (forall a o r, final_s a [] = a /\ final_s a (o :: r) = final_s (fst (spec_step a o)) r).
Proof.
  exact (conj (fun _ => iff_refl _) (conj (fun _ => iff_refl _) (conj (fun _ => eq_refl)
        (conj (fun _ => iff_refl _) (conj (fun _ _ => iff_refl _) (conj (fun _ _ => eq_refl)
        (fun _ _ _ => conj eq_refl eq_refl))))))).
Qed.
Print Assumptions C01_avl_defs.

(* the link for remove, as proved in Avl/LinkRemove.v *)
Theorem C01_avl_remove_link_def : forall bits,
  remove_spec_statement bits <->
  (forall s t fr term key, Inv bits s t fr term -> okbits bits ->
    (t_find t key = None -> remove bits s key = Ok (s, None, t_log t key)) /\
    (forall slot v, t_find t key = Some (slot, v) ->
       exists s' fr' term', remove bits s key = Ok (s', Some v, t_log t key) /\
         Inv bits s' (t_remove t key) fr' term' /\ fr' = slot :: fr /\ cap s' = cap s /\
         length (nodes s') = length (nodes s))).
Proof. exact (fun _ => iff_refl _). Qed.
Print Assumptions C01_avl_remove_link_def.

(* ---- every history on an initialised buffer of fixed size: each result is
   the reference map's (the slot number of a successful insert forgotten),
   no panic, no loop running out of fuel.  u8: capacities 0..255, u32:
   capacities 0..2^32-2 ---- *)
Theorem C01_avl_refines_ordered_map : forall bits, remove_spec_statement bits ->
  forall capacity ops,
  okbits bits -> capacity < 2 ^ bits -> (bits <> 8 -> capacity + 1 < 2 ^ bits) ->
  Forall no_ext ops ->
  exists outs, run_c bits (init_c capacity capacity) ops = map Ok outs /\
               map out_abs outs = run_s (spec_init capacity) ops.
Proof. exact run_refines_fixed. Qed.
Print Assumptions C01_avl_refines_ordered_map.

(* the headline, the premise discharged (Avl/FinalMaster.v: the link for
   [remove] is the theorem [LinkRemove.remove_spec]) *)
Theorem C01_avl_refines_ordered_map_final : forall bits capacity ops,
  okbits bits -> capacity < 2 ^ bits -> (bits <> 8 -> capacity + 1 < 2 ^ bits) ->
  Forall no_ext ops ->
  exists outs, run_c bits (init_c capacity capacity) ops = map Ok outs /\
               map out_abs outs = run_s (spec_init capacity) ops.
Proof. exact run_refines_fixed_final. Qed.
Print Assumptions C01_avl_refines_ordered_map_final.

(* one step, every operation, from every state of the invariant *)
Theorem C01_avl_step : forall bits, remove_spec_statement bits ->
  forall s t fr term o,
  Inv bits s t fr term -> okbits bits -> sizecond bits s ->
  (forall n, o = OExt n -> sizecond bits (ext_nodes s n)) ->
  exists s' out log t' fr' term',
    step_c bits s o = Ok (s', out, log) /\
    Inv bits s' t' fr' term' /\
    (abs_of s' t', out_abs out) = spec_step (abs_of s t) o /\
    sizecond bits s'.
Proof. exact step_refines. Qed.
Print Assumptions C01_avl_step.

Theorem C01_avl_step_final : forall bits s t fr term o,
  Inv bits s t fr term -> okbits bits -> sizecond bits s ->
  (forall n, o = OExt n -> sizecond bits (ext_nodes s n)) ->
  exists s' out log t' fr' term',
    step_c bits s o = Ok (s', out, log) /\
    Inv bits s' t' fr' term' /\
    (abs_of s' t', out_abs out) = spec_step (abs_of s t) o /\
    sizecond bits s'.
Proof. exact step_refines_final. Qed.
Print Assumptions C01_avl_step_final.

(* the final state of a history satisfies the invariant and represents the
   reference map's final state *)
Theorem C01_avl_final : forall bits, remove_spec_statement bits ->
  forall capacity ops s,
  okbits bits -> capacity < 2 ^ bits -> (bits <> 8 -> capacity + 1 < 2 ^ bits) ->
  Forall no_ext ops -> final_c bits (init_c capacity capacity) ops = Ok s ->
  exists t fr term, Inv bits s t fr term /\ settled s /\ cap s = capacity /\ nrec s = capacity.
Proof. exact final_fixed. Qed.
Print Assumptions C01_avl_final.

Theorem C01_avl_final_final : forall bits capacity ops s,
  okbits bits -> capacity < 2 ^ bits -> (bits <> 8 -> capacity + 1 < 2 ^ bits) ->
  Forall no_ext ops -> final_c bits (init_c capacity capacity) ops = Ok s ->
  exists t fr term, Inv bits s t fr term /\ settled s /\ cap s = capacity /\ nrec s = capacity.
Proof. exact final_fixed_final. Qed.
Print Assumptions C01_avl_final_final.

(* ---- reachable states ---- *)
Theorem C01_avl_reach_def : forall bits capacity s,
  reach bits capacity s <->
  s = init_c capacity capacity \/
  exists s0 o out log,
    reach bits capacity s0 /\ (forall n, o = OExt n -> nrec s0 + n + 1 < 2 ^ bits) /\
    step_c bits s0 o = Ok (s, out, log).
Proof. exact reach_unfold. Qed.
Print Assumptions C01_avl_reach_def.

Theorem C01_avl_reach_inv : forall bits, remove_spec_statement bits ->
  forall capacity s,
  okbits bits -> capacity < 2 ^ bits -> (bits <> 8 -> capacity + 1 < 2 ^ bits) ->
  reach bits capacity s -> exists t fr term, Inv bits s t fr term /\ sizecond bits s.
Proof. exact reach_inv. Qed.
Print Assumptions C01_avl_reach_inv.

Theorem C01_avl_reach_inv_final : forall bits capacity s,
  okbits bits -> capacity < 2 ^ bits -> (bits <> 8 -> capacity + 1 < 2 ^ bits) ->
  reach bits capacity s -> exists t fr term, Inv bits s t fr term /\ sizecond bits s.
Proof. exact FinalMaster.reach_inv_final. Qed.
Print Assumptions C01_avl_reach_inv_final.

Theorem C01_avl_final_reach : forall bits, remove_spec_statement bits ->
  forall capacity ops s,
  okbits bits -> capacity < 2 ^ bits -> (bits <> 8 -> capacity + 1 < 2 ^ bits) ->
  growth_ok bits (spec_init capacity) ops ->
  final_c bits (init_c capacity capacity) ops = Ok s -> reach bits capacity s.
Proof. exact final_reach. Qed.
Print Assumptions C01_avl_final_reach.

Theorem C01_avl_final_reach_final : forall bits capacity ops s,
  okbits bits -> capacity < 2 ^ bits -> (bits <> 8 -> capacity + 1 < 2 ^ bits) ->
  growth_ok bits (spec_init capacity) ops ->
  final_c bits (init_c capacity capacity) ops = Ok s -> reach bits capacity s.
Proof. exact final_reach_final. Qed.
Print Assumptions C01_avl_final_reach_final.

(* ---- the clauses, from every state of the invariant ---- *)

(* insert succeeds exactly when the key is absent and the tree is not full;
   it never overwrites: a present key keeps its value, every other key is
   untouched; refused = nothing happened *)
Theorem C01_avl_insert : forall bits s t fr term k v,
  Inv bits s t fr term -> okbits bits -> sizecond bits s ->
  exists s' r log t' fr' term',
    step_c bits s (OInsert k v) = Ok (s', RSlot r, log) /\
    Inv bits s' t' fr' term' /\ sizecond bits s' /\
    cap s' = N.max (cap s) (nrec s) /\ nrec s' = nrec s /\
    ((exists slot, r = Some slot) <-> sm_find (inorder t) k = None /\ size s < cap s') /\
    ((exists slot, r = Some slot) ->
       sm_find (inorder t') k = Some v /\ size s' = size s + 1 /\
       inorder t' = sm_insert (inorder t) k v) /\
    (r = None -> t' = t /\ size s' = size s /\ (settled s -> s' = s)) /\
    (forall k', k' <> k -> sm_find (inorder t') k' = sm_find (inorder t) k') /\
    (forall v0, sm_find (inorder t) k = Some v0 -> sm_find (inorder t') k = Some v0).
Proof. exact insert_clause. Qed.
Print Assumptions C01_avl_insert.

(* remove returns the stored value exactly when the key is present, and
   removes only that key *)
Theorem C01_avl_remove : forall bits, remove_spec_statement bits ->
  forall s t fr term k,
  Inv bits s t fr term -> okbits bits -> sizecond bits s ->
  exists s' log t' fr' term',
    step_c bits s (ORemove k) = Ok (s', RVal (sm_find (inorder t) k), log) /\
    Inv bits s' t' fr' term' /\ sizecond bits s' /\
    cap s' = N.max (cap s) (nrec s) /\ nrec s' = nrec s /\
    sm_find (inorder t') k = None /\
    (forall k', k' <> k -> sm_find (inorder t') k' = sm_find (inorder t) k') /\
    inorder t' = sm_remove (inorder t) k /\
    (forall v, sm_find (inorder t) k = Some v -> size s' + 1 = size s) /\
    (sm_find (inorder t) k = None -> t' = t /\ size s' = size s /\ (settled s -> s' = s)).
Proof. exact remove_clause. Qed.
Print Assumptions C01_avl_remove.

Theorem C01_avl_remove_final : forall bits s t fr term k,
  Inv bits s t fr term -> okbits bits -> sizecond bits s ->
  exists s' log t' fr' term',
    step_c bits s (ORemove k) = Ok (s', RVal (sm_find (inorder t) k), log) /\
    Inv bits s' t' fr' term' /\ sizecond bits s' /\
    cap s' = N.max (cap s) (nrec s) /\ nrec s' = nrec s /\
    sm_find (inorder t') k = None /\
    (forall k', k' <> k -> sm_find (inorder t') k' = sm_find (inorder t) k') /\
    inorder t' = sm_remove (inorder t) k /\
    (forall v, sm_find (inorder t) k = Some v -> size s' + 1 = size s) /\
    (sm_find (inorder t) k = None -> t' = t /\ size s' = size s /\ (settled s -> s' = s)).
Proof. exact remove_clause_final. Qed.
Print Assumptions C01_avl_remove_final.

(* lookups: the value the map holds for the key *)
Theorem C01_avl_get : forall bits s t fr term k,
  Inv bits s t fr term ->
  step_c bits s (OGet k) = Ok (s, RVal (sm_find (inorder t) k), t_log t k).
Proof. exact get_clause. Qed.
Print Assumptions C01_avl_get.

Theorem C01_avl_contains : forall bits s t fr term k,
  Inv bits s t fr term ->
  step_c bits s (OContains k) =
  Ok (s, RBool (match sm_find (inorder t) k with Some _ => true | None => false end), t_log t k).
Proof. exact contains_clause. Qed.
Print Assumptions C01_avl_contains.

(* get_mut and a write: returns the old value; afterwards a lookup returns
   the value written; every other key is untouched *)
Theorem C01_avl_get_mut : forall bits s t fr term k v',
  Inv bits s t fr term -> okbits bits -> sizecond bits s ->
  exists s' log t' fr' term',
    step_c bits s (OGetMut k v') = Ok (s', RVal (sm_find (inorder t) k), log) /\
    Inv bits s' t' fr' term' /\ sizecond bits s' /\
    cap s' = N.max (cap s) (nrec s) /\ nrec s' = nrec s /\ size s' = size s /\
    sm_find (inorder t') k = match sm_find (inorder t) k with Some _ => Some v' | None => None end /\
    (forall k', k' <> k -> sm_find (inorder t') k' = sm_find (inorder t) k') /\
    (sm_find (inorder t) k = None -> t' = t /\ (settled s -> s' = s)) /\
    get s' k = Ok (match sm_find (inorder t) k with Some _ => Some v' | None => None end, t_log t' k).
Proof. exact get_mut_clause. Qed.
Print Assumptions C01_avl_get_mut.

Theorem C01_avl_get_after_insert : forall bits s t fr term k v s' slot log,
  Inv bits s t fr term -> okbits bits -> sizecond bits s ->
  step_c bits s (OInsert k v) = Ok (s', RSlot (Some slot), log) ->
  exists log', get s' k = Ok (Some v, log').
Proof. exact get_after_insert. Qed.
Print Assumptions C01_avl_get_after_insert.

Theorem C01_avl_get_after_remove : forall bits, remove_spec_statement bits ->
  forall s t fr term k,
  Inv bits s t fr term -> okbits bits -> sizecond bits s ->
  exists s' out log, step_c bits s (ORemove k) = Ok (s', out, log) /\
    exists log', get s' k = Ok (None, log').
Proof. exact get_after_remove. Qed.
Print Assumptions C01_avl_get_after_remove.

Theorem C01_avl_get_after_remove_final : forall bits s t fr term k,
  Inv bits s t fr term -> okbits bits -> sizecond bits s ->
  exists s' out log, step_c bits s (ORemove k) = Ok (s', out, log) /\
    exists log', get s' k = Ok (None, log').
Proof. exact get_after_remove_final. Qed.
Print Assumptions C01_avl_get_after_remove_final.

(* lowest is the minimum key *)
Theorem C01_avl_lowest : forall bits s t fr term,
  Inv bits s t fr term ->
  exists r, step_c bits s OLowest = Ok (s, RVal r, []) /\
    match r with
    | None => inorder t = [] /\ size s = 0
    | Some k0 => (exists v0, sm_find (inorder t) k0 = Some v0) /\
                 (forall k v, sm_find (inorder t) k = Some v -> (k0 <= k)%Z)
    end.
Proof. exact lowest_clause. Qed.
Print Assumptions C01_avl_lowest.

(* len, is_empty, is_full, capacity track the entry count *)
Theorem C01_avl_sizes : forall bits s t fr term,
  Inv bits s t fr term ->
  let n := N.of_nat (length (inorder t)) in
  step_c bits s OLen = Ok (s, RNum n, []) /\
  step_c bits s OIsEmpty = Ok (s, RBool (n =? 0), []) /\
  step_c bits s OIsFull = Ok (s, RBool (cap s <=? n), []) /\
  step_c bits s OCapacity = Ok (s, RNum (cap s), []) /\
  n <= cap s /\ (is_full s = true <-> n = cap s) /\ (is_empty s = true <-> inorder t = []).
Proof. exact sizes_clause. Qed.
Print Assumptions C01_avl_sizes.

(* ---- examples ---- *)

(* a history on both widths: a double rotation (50, 30, 40), a refused
   duplicate, get_mut with a write read back, removal of the root with two
   children, re-use of its slot, a refused insert into the full tree,
   removal of an absent key; the results are the reference map's *)
Example C01_avl_example_history :
  let h := [OInsert 50 500; OInsert 30 300; OInsert 40 400; OInsert 40 999; OGetMut 30 333; OGet 30;
            ORemove 40; OGet 40; OInsert 60 600; OInsert 70 700; OInsert 20 200; OIsFull;
            OInsert 80 800; OLowest; OLen; ORemove 99; OContains 50; OGetMut0 70]%Z in
  let outs := [RSlot (Some 1); RSlot (Some 2); RSlot (Some 3); RSlot None; RVal (Some 300%Z);
               RVal (Some 333%Z); RVal (Some 400%Z); RVal None; RSlot (Some 3); RSlot (Some 4);
               RSlot (Some 5); RBool true; RSlot None; RVal (Some 20%Z); RNum 5; RVal None;
               RBool true; RVal (Some 700%Z)] in
  run_c 8 (init_c 5 5) h = map Ok outs /\
  run_c 32 (init_c 5 5) h = map Ok outs /\
  map out_abs outs = run_s (spec_init 5) h /\
  Forall no_ext h.
Proof.
  cbv zeta. split; [vm_compute; reflexivity|]. split; [vm_compute; reflexivity|].
  split; [vm_compute; reflexivity|]. repeat constructor.
Qed.

(* the hypotheses of the clauses are satisfiable by a non-trivial state: the
   tree after the double rotation, on both widths and at the u8 tree's
   largest capacity *)
Example C01_avl_example_inv :
  (exists s t fr term,
     final_c 8 (init_c 255 255) [OInsert 50 500; OInsert 30 300; OInsert 40 400]%Z = Ok s /\
     Inv 8 s t fr term /\ okbits 8 /\ sizecond 8 s /\
     inorder t = [(30, 300); (40, 400); (50, 500)]%Z /\ root s = 3) /\
  (exists s t fr term,
     final_c 32 (init_c 5 5) [OInsert 50 500; OInsert 30 300; OInsert 40 400]%Z = Ok s /\
     Inv 32 s t fr term /\ okbits 32 /\ sizecond 32 s /\
     inorder t = [(30, 300); (40, 400); (50, 500)]%Z /\ root s = 3).
Proof.
  split.
  - destruct (inv_init 8 255) as [Hi Ha]; [reflexivity|congruence|].
    destruct (final_inv_noremove 8 [OInsert 50 500; OInsert 30 300; OInsert 40 400]%Z
                (init_c 255 255) E [] 1 Hi (or_introl eq_refl) (init_sizecond 8 255))
      as (s & t & fr & term & Hf & H & Hsc & Habs).
    + repeat constructor.
    + apply growth_ok_weak, growth_ok_no_ext. repeat constructor.
    + exists s, t, fr, term. split; [exact Hf|]. split; [exact H|]. split; [left; reflexivity|].
      split; [exact Hsc|]. split.
      * change (inorder t) with (sents (abs_of s t)). rewrite Habs, Ha. vm_compute. reflexivity.
      * vm_compute in Hf. injection Hf as <-. reflexivity.
  - destruct (inv_init 32 5) as [Hi Ha]; [reflexivity|intros _; reflexivity|].
    destruct (final_inv_noremove 32 [OInsert 50 500; OInsert 30 300; OInsert 40 400]%Z
                (init_c 5 5) E [] 1 Hi (or_intror eq_refl) (init_sizecond 32 5))
      as (s & t & fr & term & Hf & H & Hsc & Habs).
    + repeat constructor.
    + apply growth_ok_weak, growth_ok_no_ext. repeat constructor.
    + exists s, t, fr, term. split; [exact Hf|]. split; [exact H|]. split; [right; reflexivity|].
      split; [exact Hsc|]. split.
      * change (inorder t) with (sents (abs_of s t)). rewrite Habs, Ha. vm_compute. reflexivity.
      * vm_compute in Hf. injection Hf as <-. reflexivity.
Qed.

(* ------------------------------------------------------------------ *)
(* Explicit handles (Avl/Session.v): a mutable view that stays open across operations, opened anew
   only after the buffer was extended or a view was requested; includes trees initialised with a
   capacity smaller than the record count of their buffer and used through the same handle. *)
From Stevia Require Import Avl.Session Avl.SessionFacts.
Open Scope N_scope.
Theorem C01_session_refines_u8 :
  forall (capacity nrec : N) (keep : bool) (ops : list op),
    capacity <= nrec -> nrec <= 254 ->
    growth_okw_sess 8 (spec_init_sess capacity nrec keep) ops ->
    exists outs : list out,
      run_sess 8 (init_sess capacity nrec keep) ops = map Ok outs /\
      map out_abs outs = run_s_sess (spec_init_sess capacity nrec keep) ops.
Proof. exact run_sess_refines_u8. Qed.
Print Assumptions C01_session_refines_u8.

Theorem C01_session_refines_u32 :
  forall (capacity nrec : N) (keep : bool) (ops : list op),
    capacity <= nrec -> nrec + 1 < 2 ^ 32 ->
    growth_okw_sess 32 (spec_init_sess capacity nrec keep) ops ->
    exists outs : list out,
      run_sess 32 (init_sess capacity nrec keep) ops = map Ok outs /\
      map out_abs outs = run_s_sess (spec_init_sess capacity nrec keep) ops.
Proof. exact run_sess_refines_u32. Qed.
Print Assumptions C01_session_refines_u32.

Theorem C01_session_conservative :
  forall (ops : list op) (x : ssess),
    Forall no_ext ops -> snrec (a_st x) <= scap (a_st x) -> run_s_sess x ops = run_s (a_st x) ops.
Proof. exact run_s_sess_fixed. Qed.
Print Assumptions C01_session_conservative.

Theorem C01_session_dead_handle_is_step_c :
  forall (bits : N) (s : st) (o : op),
    step_sess bits (mkSess s false) o =
    (x <- step_c bits s o ;; let '(s', r, log) := x in Ok (mkSess s' (live_after false o), r, log)).
Proof. exact step_sess_dead. Qed.
Print Assumptions C01_session_dead_handle_is_step_c.

