(* C06 - lookups stay logarithmic: AVL balance in every state; binary search
   in the array sets.  Theorems only; each is closed by [exact] of a lemma
   proved in Avl/Balance.v (which builds on Avl/TreeHeight.v, Avl/TreeOps.v,
   Avl/LinkFind.v, Avl/LinkInsert.v, Avl/LinkSteps.v) and Arr/ArrProps.v.
   [remove_spec_statement bits] is the statement of Avl/LinkRemove.v's
   [remove_spec]; the theorems about removal take it as a premise. *)
From Coq Require Import List NArith ZArith Bool.
From Stevia Require Import Base.Res Avl.Impl Avl.Tree Avl.Rep Avl.Spec Avl.TreeOps Avl.TreeHeight
  Avl.Alloc Avl.Inv Avl.LinkInsert Avl.LinkSteps Avl.Balance
  Arr.Impl Arr.Spec Arr.Search Arr.Refine Arr.ArrProps.
(* the removal premise discharged: Avl/Final.v proves [remove_spec_statement
   bits] from Avl/LinkRemove.v's [remove_spec]; the [_final] theorems below
   are the conditional ones without the premise *)
From Stevia Require Import Avl.LinkRemove Avl.Final.
Import ListNotations.
Open Scope N_scope.

(* the vocabulary *)
Theorem C06_defs : forall bits s t log u,
  (node_balanced u <->
   match u with
   | E => True
   | T l _ _ _ h r =>
     levels l <= levels r + 1 /\ levels r <= levels l + 1 /\ h + 1 = 1 + N.max (levels l) (levels r)
   end) /\
  (on_one_path t log <->
   exists p : list (Z * bool),
     is_path t (map fst p) /\ N.of_nat (length p) <= levels t /\
     log = flat_map (fun kb : Z * bool => if snd kb then [fst kb; fst kb] else [fst kb]) p) /\
  (path_cost t log <->
   on_one_path t log /\
   (forall d, NoDup d -> incl d log -> N.of_nat (length d) <= levels t) /\
   N.of_nat (length log) <= 2 * levels t /\
   (bst t -> forall x, (count_occ Z.eq_dec log x <= 2)%nat)) /\
  (bounded_cost bits s t log <->
   path_cost t log /\ levels t <= lvbound bits /\
   minnodes (N.to_nat (levels t)) <= size s /\ 2 ^ (levels t / 2) <= size s + 1) /\
  lvbound 8 = 11 /\ lvbound 32 = 45.
Proof.
  intros bits s t log u. split; [destruct u; exact (iff_refl _)|].
  split; [exact (iff_refl _)|]. split; [exact (iff_refl _)|]. split; [exact (iff_refl _)|].
  split; reflexivity.
Qed.
Print Assumptions C06_defs.

(* in every state satisfying the invariant the tree is height balanced at
   every node, with exact stored heights *)
Theorem C06_avl_balanced : forall bits s t fr term,
  Inv bits s t fr term ->
  avl t /\ hok t /\ (forall u, subtree u t -> node_balanced u).
Proof. exact inv_balanced. Qed.
Print Assumptions C06_avl_balanced.

Theorem C06_avl_balanced_nodes : forall bits s t fr term l i k v h r,
  Inv bits s t fr term -> subtree (T l i k v h r) t ->
  levels l <= levels r + 1 /\ levels r <= levels l + 1 /\ h = N.max (levels l) (levels r).
Proof. exact inv_balanced_nodes. Qed.
Print Assumptions C06_avl_balanced_nodes.

(* the number of levels is at most the greatest number of levels of a
   height-balanced tree with [size s] entries *)
Theorem C06_avl_height_bound : forall bits s t fr term,
  Inv bits s t fr term -> minnodes (N.to_nat (levels t)) <= size s.
Proof. exact inv_height_bound. Qed.
Print Assumptions C06_avl_height_bound.

Theorem C06_avl_height_lt : forall bits s t fr term h,
  Inv bits s t fr term -> size s < minnodes h -> levels t < N.of_nat h.
Proof. exact inv_height_lt. Qed.
Print Assumptions C06_avl_height_lt.

Theorem C06_avl_height_bound_tight : forall h,
  exists t, avl t /\ tsize t = minnodes h /\ levels t = N.of_nat h.
Proof. exact height_bound_tight. Qed.
Print Assumptions C06_avl_height_bound_tight.

Theorem C06_avl_height_closed : forall bits s t fr term,
  Inv bits s t fr term -> 2 ^ (levels t / 2) <= size s + 1.
Proof. exact inv_height_closed. Qed.
Print Assumptions C06_avl_height_closed.

Theorem C06_avl_levels_u8 : forall s t fr term, Inv 8 s t fr term -> levels t <= 11.
Proof. exact inv_levels_u8. Qed.
Print Assumptions C06_avl_levels_u8.

Theorem C06_avl_levels_u32 : forall s t fr term, Inv 32 s t fr term -> levels t <= 45.
Proof. exact inv_levels_u32. Qed.
Print Assumptions C06_avl_levels_u32.

(* the cost of one descent *)
Theorem C06_avl_log_cost : forall t key log, log = t_log t key -> path_cost t log.
Proof. exact log_cost. Qed.
Print Assumptions C06_avl_log_cost.

Theorem C06_avl_cost_get : forall bits s t fr term key,
  Inv bits s t fr term -> okbits bits ->
  exists r, get s key = Ok (r, t_log t key) /\ bounded_cost bits s t (t_log t key).
Proof. exact cost_get. Qed.
Print Assumptions C06_avl_cost_get.

Theorem C06_avl_cost_contains : forall bits s t fr term key,
  Inv bits s t fr term -> okbits bits ->
  exists r, contains s key = Ok (r, t_log t key) /\ bounded_cost bits s t (t_log t key).
Proof. exact cost_contains. Qed.
Print Assumptions C06_avl_cost_contains.

Theorem C06_avl_cost_get_mut : forall bits s t fr term key v',
  Inv bits s t fr term -> okbits bits ->
  exists s' r, get_mut_set s key v' = Ok (s', r, t_log t key) /\ bounded_cost bits s t (t_log t key).
Proof. exact cost_get_mut. Qed.
Print Assumptions C06_avl_cost_get_mut.

Theorem C06_avl_cost_insert : forall bits s t fr term key value,
  Inv bits s t fr term -> okbits bits ->
  exists s' r, insert bits s key value = Ok (s', r, t_log t key) /\
    bounded_cost bits s t (t_log t key) /\
    (t_find t key <> None -> s' = s /\ r = None) /\
    (t_find t key = None -> is_full s = true -> s' = s /\ r = None) /\
    (t_find t key = None -> is_full s = false -> exists new, r = Some new).
Proof. exact cost_insert. Qed.
Print Assumptions C06_avl_cost_insert.

Theorem C06_avl_cost_remove : forall bits, remove_spec_statement bits ->
  forall s t fr term key,
  Inv bits s t fr term -> okbits bits ->
  exists s' r, remove bits s key = Ok (s', r, t_log t key) /\ bounded_cost bits s t (t_log t key).
Proof. exact cost_remove. Qed.
Print Assumptions C06_avl_cost_remove.

(* the premise holds *)
Theorem C06_avl_remove_spec_holds_final : forall bits, remove_spec_statement bits.
Proof. exact remove_spec_holds. Qed.
Print Assumptions C06_avl_remove_spec_holds_final.

Theorem C06_avl_cost_remove_final : forall bits s t fr term key,
  Inv bits s t fr term -> okbits bits ->
  exists s' r, remove bits s key = Ok (s', r, t_log t key) /\ bounded_cost bits s t (t_log t key).
Proof. exact cost_remove_final. Qed.
Print Assumptions C06_avl_cost_remove_final.

(* every state reachable by any history of operations and buffer growth
   (within what the index width can address) satisfies the invariant, hence
   is balanced *)
Theorem C06_avl_reachable_balanced : forall bits, remove_spec_statement bits ->
  forall s, okbits bits -> reach bits s ->
  exists t fr term, Inv bits s t fr term /\
    avl t /\ hok t /\ (forall u, subtree u t -> node_balanced u) /\
    minnodes (N.to_nat (levels t)) <= size s /\ levels t <= lvbound bits.
Proof. exact reach_balanced. Qed.
Print Assumptions C06_avl_reachable_balanced.

Theorem C06_avl_reachable_balanced_final : forall bits s, okbits bits -> reach bits s ->
  exists t fr term, Inv bits s t fr term /\
    avl t /\ hok t /\ (forall u, subtree u t -> node_balanced u) /\
    minnodes (N.to_nat (levels t)) <= size s /\ levels t <= lvbound bits.
Proof. exact reach_balanced_final. Qed.
Print Assumptions C06_avl_reachable_balanced_final.

(* array sets: at most ceil(log2(n+1)) comparisons, which is within the
   stated ceil(log2(n+1)) + 1 *)
Theorem C06_arr_lookup_cost : forall pbytes s o s' out c,
  ainv pbytes s -> aop_ok o -> astep_c pbytes s o = Ok (s', out, c) ->
  exists k, is_clog2 (alen s + 1) k /\ c <= k /\ c <= k + 1 /\
    (alen s = 0 -> c = 0) /\ (1 <= alen s -> c <= N.log2 (alen s) + 1).
Proof. exact arr_cost_c06. Qed.
Print Assumptions C06_arr_lookup_cost.

Theorem C06_arr_clog2_def : forall m k,
  is_clog2 m k <-> m <= 2 ^ k /\ forall j, m <= 2 ^ j -> k <= j.
Proof. exact (fun m k => iff_refl _). Qed.
Print Assumptions C06_arr_clog2_def.

(* ---- example: a u8 tree after eight ascending insertions and a removal ---- *)
Example C06_example :
  final_c 8 (init_c 9 10)
    [OInsert 10 100; OInsert 20 200; OInsert 30 300; OInsert 40 400; OInsert 50 500;
     OInsert 60 600; OInsert 70 700; OInsert 45 450; ORemove 20]%Z = Ok ex_state /\
  ex_tree = T (T (T E 1 10 100 0 E) 3 30 300 1 E) 4 40 400 3
              (T (T (T E 8 45 450 0 E) 5 50 500 1 E) 6 60 600 2 (T E 7 70 700 0 E)) /\
  Inv 8 ex_state ex_tree [2] 9 /\ okbits 8 /\
  get ex_state 45%Z = Ok (Some 450%Z, [40; 40; 60; 50; 45; 45]%Z) /\
  t_log ex_tree 45%Z = [40; 40; 60; 50; 45; 45]%Z /\ levels ex_tree = 4 /\
  size ex_state = 7 /\ minnodes 4 = 7 /\ minnodes 5 = 12.
Proof.
  split; [exact ex_run|]. split; [reflexivity|]. split; [exact ex_inv|]. split; [left; reflexivity|].
  repeat split; vm_compute; reflexivity.
Qed.

(* 4 members, probe above all of them: 3 = ceil(log2 5) comparisons *)
Example C06_arr_example :
  astep_c 1 (mkA [] [(1, 0); (3, 0); (5, 0); (7, 0)]%Z [] 4) (AContains (9, 0)%Z)
    = Ok (mkA [] [(1, 0); (3, 0); (5, 0); (7, 0)]%Z [] 4, ABool false, 3) /\ N.size 4 = 3.
Proof. split; reflexivity. Qed.
