(* C15 - Pod bool/option and load/load_mut are total, size-transparent views.
   Theorems only; each is closed by [exact] of a lemma proved elsewhere. *)
From Coq Require Import List NArith Bool Arith.
From Stevia Require Import Base.Res Pod.Pod Pod.PodFacts Pod.PodMore.
Import ListNotations.
Open Scope N_scope.

(* load is total: a panic exactly when the buffer is too short, otherwise the
   first size_of bytes *)
Theorem C15_load_total : forall sz data,
  (load sz data = Panic PSlice /\ (length data < sz)%nat) \/
  (load sz data = Ok (firstn sz data) /\ (sz <= length data)%nat).
Proof. exact load_total. Qed.
Print Assumptions C15_load_total.

Theorem C15_load_ignores_trailing : forall sz v rest, length v = sz -> load sz (v ++ rest) = Ok v.
Proof. exact load_prefix. Qed.
Print Assumptions C15_load_ignores_trailing.

Theorem C15_load_pure_view : forall sz d1 d2,
  firstn sz d1 = firstn sz d2 -> (sz <= length d1)%nat -> (sz <= length d2)%nat -> load sz d1 = load sz d2.
Proof. exact load_ext. Qed.
Print Assumptions C15_load_pure_view.

Theorem C15_load_mut_writes_land : forall sz data v,
  length v = sz -> (sz <= length data)%nat ->
  exists data', load_mut_store sz data v = Ok data' /\
    length data' = length data /\ load sz data' = Ok v /\ skipn sz data' = skipn sz data.
Proof. exact load_mut_store_spec. Qed.
Print Assumptions C15_load_mut_writes_land.

Theorem C15_load_mut_short_rejected : forall sz data v,
  (length data < sz)%nat -> load_mut_store sz data v = Panic PSlice.
Proof. exact load_mut_store_short. Qed.
Print Assumptions C15_load_mut_short_rejected.

Theorem C15_bool_every_byte : forall b, b < 256 ->
  bool_of_pod b = negb (b =? 0) /\ bool_of_pod (pod_of_bool (bool_of_pod b)) = bool_of_pod b.
Proof. exact bool_all_bytes. Qed.
Print Assumptions C15_bool_every_byte.

Theorem C15_bool_zero_is_false : forall b, bool_of_pod b = false <-> b = 0.
Proof. exact bool_of_pod_zero. Qed.
Print Assumptions C15_bool_zero_is_false.

Theorem C15_bool_roundtrip : forall x, bool_of_pod (pod_of_bool x) = x /\ pod_of_bool x = (if x then 1 else 0).
Proof. exact (fun x => conj (pod_roundtrip x) (pod_of_bool_enc x)). Qed.
Print Assumptions C15_bool_roundtrip.

Theorem C15_option_some_iff : forall (T : Type) (is_some : T -> bool) x,
  (po_value T is_some x = Some x <-> is_some x = true) /\
  (po_value T is_some x = None <-> is_some x = false) /\
  (forall y, po_value T is_some x = Some y -> y = x) /\
  po_value_mut T is_some x = po_value T is_some x /\
  po_new T x = x.
Proof.
  exact (fun T f x => conj (po_value_some T f x) (conj (po_value_none T f x)
         (conj (po_value_only T f x) (conj eq_refl (po_transparent T x))))).
Qed.
Print Assumptions C15_option_some_iff.

(* non-vacuity *)
Example C15_example : load 2 [1; 2; 3] = Ok [1; 2] /\ load 4 [1; 2; 3] = Panic PSlice /\ bool_of_pod 7 = true.
Proof. repeat split. Qed.

(* ---- the view is a lens on the first size_of bytes ---- *)
(* storing back what was loaded changes no byte *)
Theorem C15_store_loaded_is_identity : forall sz data v,
  load sz data = Ok v -> load_mut_store sz data v = Ok data.
Proof. exact load_mut_store_same. Qed.
Print Assumptions C15_store_loaded_is_identity.

(* the last store wins: nothing of an earlier store through load_mut survives a later one *)
Theorem C15_last_store_wins : forall sz data v w d1,
  length v = sz -> length w = sz -> load_mut_store sz data v = Ok d1 ->
  load_mut_store sz d1 w = load_mut_store sz data w.
Proof. exact load_mut_store_twice. Qed.
Print Assumptions C15_last_store_wins.

(* a loaded value has exactly size_of bytes and is its own view *)
Theorem C15_load_idempotent : forall sz data v,
  load sz data = Ok v -> load sz v = Ok v /\ length v = sz.
Proof. exact load_idempotent. Qed.
Print Assumptions C15_load_idempotent.

(* the result of a store depends on the bytes behind the view and on the stored value only *)
Theorem C15_store_overwrites_whole_view : forall sz d1 d2 v r1 r2,
  length v = sz -> skipn sz d1 = skipn sz d2 ->
  load_mut_store sz d1 v = Ok r1 -> load_mut_store sz d2 v = Ok r2 -> r1 = r2.
Proof. exact load_mut_store_frame. Qed.
Print Assumptions C15_store_overwrites_whole_view.

Example C15_lens_example :
  load 2 [7; 8; 9]%N = Ok [7; 8]%N /\ load_mut_store 2 [7; 8; 9]%N [1; 2]%N = Ok [1; 2; 9]%N /\
  load_mut_store 2 [1; 2; 9]%N [7; 8]%N = Ok [7; 8; 9]%N /\ load 2 [7]%N = Panic PSlice.
Proof. exact lens_example. Qed.
