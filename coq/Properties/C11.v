(* C11 - Every str handed out by the safe API is valid UTF-8.
   Theorems only; each is closed by [exact] of a lemma proved in
   Base/Utf8Facts.v, Str/PrefixFacts.v or Pod/PodStrFacts.v. *)
From Coq Require Import List NArith Bool Arith.
From Stevia Require Import Base.Res Base.Bytes Base.Utf8 Base.Utf8Facts
  Str.Prefix Str.PrefixFacts Pod.PodStr Pod.PodStrFacts.
Import ListNotations.
Open Scope N_scope.

(* the vocabulary: a well-formed handle and a handle whose text is valid *)
Theorem C11_wf_def : forall p h,
  wf p h <-> (le_dec (firstn p (pbuf h)) = N.of_nat (plen h) /\ (p + plen h <= length (pbuf h))%nat).
Proof. exact (fun p h => iff_refl _). Qed.
Print Assumptions C11_wf_def.

Theorem C11_valid_def : forall p h, valid p h <-> utf8_valid (payload p h) = true.
Proof. exact (fun p h => iff_refl _). Qed.
Print Assumptions C11_valid_def.

Theorem C11_scalar_def : forall c, scalar c <-> is_scalar c = true.
Proof. exact (fun c => iff_refl _). Qed.
Print Assumptions C11_scalar_def.

(* the validator is the Unicode Table 3-7 grammar *)
Theorem C11_utf8_valid_iff_WellFormed : forall bs, utf8_valid bs = true <-> WellFormed bs.
Proof. exact utf8_valid_iff_WellFormed. Qed.
Print Assumptions C11_utf8_valid_iff_WellFormed.

(* every Rust String / &str is the encoding of scalar values, hence valid *)
Theorem C11_utf8_enc_valid : forall s,
  Forall (fun c => is_scalar c = true) s -> utf8_valid (utf8_enc s) = true.
Proof. exact utf8_enc_valid. Qed.
Print Assumptions C11_utf8_enc_valid.

Theorem C11_utf8_valid_app : forall a b,
  utf8_valid a = true -> utf8_valid b = true -> utf8_valid (a ++ b) = true.
Proof. exact utf8_valid_app. Qed.
Print Assumptions C11_utf8_valid_app.

Theorem C11_utf8_valid_zeros : forall n, utf8_valid (zeros n) = true.
Proof. exact utf8_valid_zeros. Qed.
Print Assumptions C11_utf8_valid_zeros.

(* cutting encoded text at a char boundary leaves valid text *)
Theorem C11_cut_at_boundary_valid : forall s i,
  Forall scalar s -> (i <= length (utf8_enc s))%nat -> is_char_boundary (utf8_enc s) i = true ->
  utf8_valid (firstn i (utf8_enc s)) = true.
Proof. exact firstn_boundary_valid. Qed.
Print Assumptions C11_cut_at_boundary_valid.

(* from_bytes: Some only for valid payloads ... *)
Theorem C11_from_bytes_some_valid : forall p bytes h,
  from_bytes p bytes = Ok (Some h) -> valid p h /\ wf p h /\ pbuf h = bytes.
Proof. exact from_bytes_some. Qed.
Print Assumptions C11_from_bytes_some_valid.

(* ... Some for every in-range valid payload ... *)
Theorem C11_from_bytes_some_iff : forall p bytes,
  (exists h, from_bytes p bytes = Ok (Some h)) <->
  (p <= length bytes)%nat /\ le_dec (firstn p bytes) <= N.of_nat (length bytes - p) /\
  utf8_valid (payload p (mkP bytes (N.to_nat (le_dec (firstn p bytes))))) = true.
Proof. exact from_bytes_some_iff. Qed.
Print Assumptions C11_from_bytes_some_iff.

(* ... and None exactly for the in-range invalid ones *)
Theorem C11_from_bytes_none_iff : forall p bytes,
  from_bytes p bytes = Ok None <->
  (p <= length bytes)%nat /\ le_dec (firstn p bytes) <= N.of_nat (length bytes - p) /\
  utf8_valid (payload p (mkP bytes (N.to_nat (le_dec (firstn p bytes))))) = false.
Proof. exact from_bytes_none_iff. Qed.
Print Assumptions C11_from_bytes_none_iff.

(* new: Some exactly when the payload of the handle it built is valid *)
Theorem C11_new_some_iff_valid : forall p data buf' o,
  new p data = Ok (buf', o) ->
  exists h, new_unchecked p data = Ok h /\ buf' = pbuf h /\ wf p h /\
    (o = Some h <-> utf8_valid (payload p h) = true) /\
    (o = None <-> utf8_valid (payload p h) = false) /\
    (forall h', o = Some h' -> h' = h /\ valid p h').
Proof. exact new_result. Qed.
Print Assumptions C11_new_some_iff_valid.

(* copy_from_str of any string keeps the handle valid (and well formed) *)
Theorem C11_copy_from_str_valid : forall p h cs,
  wf p h -> Forall scalar cs -> valid p (copy_from_str p h (utf8_enc cs)).
Proof. exact copy_from_str_valid. Qed.
Print Assumptions C11_copy_from_str_valid.

Theorem C11_copy_from_str_wf : forall p h s, wf p h -> wf p (copy_from_str p h s).
Proof. exact copy_from_str_wf. Qed.
Print Assumptions C11_copy_from_str_wf.

(* the invariant over any sequence of copies *)
Theorem C11_copy_sequence : forall p ss h,
  wf p h -> valid p h -> Forall (Forall scalar) ss ->
  wf p (fold_left (fun h s => copy_from_str p h (utf8_enc s)) ss h) /\
  valid p (fold_left (fun h s => copy_from_str p h (utf8_enc s)) ss h).
Proof. exact copy_from_str_fold_valid. Qed.
Print Assumptions C11_copy_sequence.

Theorem C11_copy_sequence_nonempty : forall p s ss h,
  wf p h -> Forall (Forall scalar) (s :: ss) ->
  valid p (fold_left (fun h s => copy_from_str p h (utf8_enc s)) (s :: ss) h).
Proof. exact copy_from_str_fold_valid_nonempty. Qed.
Print Assumptions C11_copy_sequence_nonempty.

(* PodStr::as_str and Display hand out only valid text *)
Theorem C11_ps_as_str_valid : forall v t,
  ps_as_str v = Some t -> t = until_nul v /\ utf8_valid t = true.
Proof. exact ps_as_str_some. Qed.
Print Assumptions C11_ps_as_str_valid.

Theorem C11_ps_as_str_none_iff : forall v, ps_as_str v = None <-> utf8_valid (until_nul v) = false.
Proof. exact ps_as_str_none_iff. Qed.
Print Assumptions C11_ps_as_str_none_iff.

(* non-vacuity: p = 1, an 8-byte buffer with a 4-byte payload; copying
   "aé€" stores "aé" and one NUL; a lone continuation byte is
   refused by from_bytes *)
Example C11_example :
  let h := mkP [4; 120; 120; 120; 120; 9; 9; 9] 4 in
  wf 1 h /\ valid 1 h /\
  utf8_enc [97; 233; 8364] = [97; 195; 169; 226; 130; 172] /\
  copy_from_str 1 h (utf8_enc [97; 233; 8364]) = mkP [4; 97; 195; 169; 0; 9; 9; 9] 4 /\
  payload 1 (copy_from_str 1 h (utf8_enc [97; 233; 8364])) = [97; 195; 169; 0] /\
  from_bytes 1 [1; 169] = Ok None /\
  from_bytes 1 [2; 195; 169] = Ok (Some (mkP [2; 195; 169] 2)).
Proof. repeat split; try reflexivity. vm_compute. repeat constructor. Qed.
