(* C13 - Prefixed strings expose the payload, store what fits, survive reload.
   Theorems only; each is closed by [exact] of a lemma proved in
   Str/PrefixFacts.v (which uses Base/Utf8Facts.v). *)
From Coq Require Import List NArith Bool Arith.
From Stevia Require Import Base.Res Base.Bytes Base.Utf8 Base.Utf8Facts Str.Prefix Str.PrefixFacts.
Import ListNotations.
Open Scope N_scope.

Theorem C13_wf_def : forall p h,
  wf p h <-> (le_dec (firstn p (pbuf h)) = N.of_nat (plen h) /\ (p + plen h <= length (pbuf h))%nat).
Proof. exact (fun p h => iff_refl _). Qed.
Print Assumptions C13_wf_def.

Theorem C13_valid_def : forall p h, valid p h <-> utf8_valid (payload p h) = true.
Proof. exact (fun p h => iff_refl _). Qed.
Print Assumptions C13_valid_def.

(* ---- new: total, never wraps, exposes the whole area ---- *)
Theorem C13_new_short : forall p data, (length data < p)%nat -> new p data = Panic PSlice.
Proof. exact new_short. Qed.
Print Assumptions C13_new_short.

Theorem C13_new_total : forall p data,
  ((length data < p)%nat /\ new p data = Panic PSlice) \/
  ((p <= length data)%nat /\ exists buf' o, new p data = Ok (buf', o)).
Proof. exact new_total. Qed.
Print Assumptions C13_new_total.

Theorem C13_new_spec : forall p data,
  (p <= length data)%nat ->
  exists buf' o h,
    new p data = Ok (buf', o) /\ new_unchecked p data = Ok h /\
    buf' = le_enc p (N.min (N.of_nat (length data - p)) (pfx_max p)) ++ skipn p data /\
    length buf' = length data /\ pbuf h = buf' /\ wf p h /\
    N.of_nat (plen h) = N.min (N.of_nat (length data - p)) (pfx_max p) /\
    payload p h = firstn (plen h) (skipn p data) /\
    (N.of_nat (length data - p) <= pfx_max p -> payload p h = skipn p data) /\
    (pfx_max p < N.of_nat (length data - p) -> N.of_nat (plen h) = pfx_max p) /\
    (o = Some h <-> utf8_valid (payload p h) = true) /\
    (o = None <-> utf8_valid (payload p h) = false) /\
    (forall h', o = Some h' -> h' = h).
Proof. exact new_spec. Qed.
Print Assumptions C13_new_spec.

Theorem C13_pfx_max_fits : forall p, pfx_max p < 2 ^ (8 * N.of_nat p).
Proof. exact pfx_max_lt. Qed.
Print Assumptions C13_pfx_max_fits.

(* ---- from_bytes: the only failure is the range check ---- *)
Theorem C13_from_bytes_panic_iff : forall p bytes,
  from_bytes p bytes = Panic PSlice <->
  ((length bytes < p)%nat \/ N.of_nat (length bytes - p) < le_dec (firstn p bytes)).
Proof. exact from_bytes_panic_iff. Qed.
Print Assumptions C13_from_bytes_panic_iff.

Theorem C13_from_bytes_total : forall p bytes,
  from_bytes p bytes = Panic PSlice \/ from_bytes p bytes = Ok None \/
  exists h, from_bytes p bytes = Ok (Some h).
Proof. exact from_bytes_total. Qed.
Print Assumptions C13_from_bytes_total.

Theorem C13_from_bytes_view : forall p bytes h,
  from_bytes p bytes = Ok (Some h) -> valid p h /\ wf p h /\ pbuf h = bytes.
Proof. exact from_bytes_some. Qed.
Print Assumptions C13_from_bytes_view.

(* ---- copy_from_str: what is kept, what is written ---- *)
Theorem C13_copy_keeps_plen : forall p h s, plen (copy_from_str p h s) = plen h.
Proof. exact copy_from_str_plen. Qed.
Print Assumptions C13_copy_keeps_plen.

Theorem C13_copy_keeps_length : forall p h s,
  wf p h -> length (pbuf (copy_from_str p h s)) = length (pbuf h).
Proof. exact copy_from_str_length. Qed.
Print Assumptions C13_copy_keeps_length.

Theorem C13_copy_keeps_prefix : forall p h s,
  wf p h -> firstn p (pbuf (copy_from_str p h s)) = firstn p (pbuf h).
Proof. exact copy_from_str_prefix. Qed.
Print Assumptions C13_copy_keeps_prefix.

Theorem C13_copy_keeps_tail : forall p h s,
  wf p h -> skipn (p + plen h) (pbuf (copy_from_str p h s)) = skipn (p + plen h) (pbuf h).
Proof. exact copy_from_str_tail. Qed.
Print Assumptions C13_copy_keeps_tail.

Theorem C13_copy_keeps_wf : forall p h s, wf p h -> wf p (copy_from_str p h s).
Proof. exact copy_from_str_wf. Qed.
Print Assumptions C13_copy_keeps_wf.

Theorem C13_copy_payload : forall p h s, wf p h ->
  let keep := firstn (floor_boundary s (Nat.min (plen h) (length s))) s in
  payload p (copy_from_str p h s) = keep ++ zeros (plen h - length keep).
Proof. exact copy_from_str_payload. Qed.
Print Assumptions C13_copy_payload.

Theorem C13_copy_overwrites : forall p h1 h2 s, wf p h1 -> wf p h2 -> plen h1 = plen h2 ->
  payload p (copy_from_str p h1 s) = payload p (copy_from_str p h2 s).
Proof. exact copy_from_str_overwrites. Qed.
Print Assumptions C13_copy_overwrites.

(* for a real string the stored text is the longest whole-character prefix that
   fits, NUL padded; the next character (if any) does not fit *)
Theorem C13_copy_stores_longest_fit : forall p h cs, wf p h -> Forall scalar cs ->
  exists cs1 cs2, cs = cs1 ++ cs2 /\
    payload p (copy_from_str p h (utf8_enc cs)) = utf8_enc cs1 ++ zeros (plen h - length (utf8_enc cs1)) /\
    (length (utf8_enc cs1) <= plen h)%nat /\
    (cs2 = [] \/ (plen h < length (utf8_enc cs1) + length (utf8_enc_char (hd 0%N cs2)))%nat).
Proof. exact copy_from_str_longest_fit. Qed.
Print Assumptions C13_copy_stores_longest_fit.

(* the underlying facts about floor_boundary *)
Theorem C13_floor_boundary_le : forall bs i, (floor_boundary bs i <= i)%nat.
Proof. exact floor_boundary_le. Qed.
Print Assumptions C13_floor_boundary_le.

Theorem C13_floor_boundary_is_boundary : forall bs i, is_char_boundary bs (floor_boundary bs i) = true.
Proof. exact floor_boundary_is_boundary. Qed.
Print Assumptions C13_floor_boundary_is_boundary.

Theorem C13_floor_boundary_max : forall bs i j,
  (j <= i)%nat -> is_char_boundary bs j = true -> (j <= floor_boundary bs i)%nat.
Proof. exact floor_boundary_max. Qed.
Print Assumptions C13_floor_boundary_max.

Theorem C13_boundary_cut : forall s i,
  Forall scalar s -> (i <= length (utf8_enc s))%nat -> is_char_boundary (utf8_enc s) i = true ->
  exists s1 s2, s = s1 ++ s2 /\ firstn i (utf8_enc s) = utf8_enc s1.
Proof. exact boundary_cut. Qed.
Print Assumptions C13_boundary_cut.

Theorem C13_longest_fit : forall s room, Forall scalar s ->
  let k := floor_boundary (utf8_enc s) (Nat.min room (length (utf8_enc s))) in
  exists s1 s2, s = s1 ++ s2 /\ firstn k (utf8_enc s) = utf8_enc s1 /\
    (length (utf8_enc s1) <= room)%nat /\
    (s2 = [] \/ (room < length (utf8_enc s1) + length (utf8_enc_char (hd 0%N s2)))%nat).
Proof. exact floor_boundary_longest_fit. Qed.
Print Assumptions C13_longest_fit.

(* ---- reload ---- *)
Theorem C13_reload : forall p h, wf p h -> valid p h -> from_bytes p (pbuf h) = Ok (Some h).
Proof. exact reload. Qed.
Print Assumptions C13_reload.

Theorem C13_reload_same_text : forall p h, wf p h -> valid p h ->
  exists h', from_bytes p (pbuf h) = Ok (Some h') /\ payload p h' = payload p h /\ plen h' = plen h.
Proof. exact reload_ex. Qed.
Print Assumptions C13_reload_same_text.

Theorem C13_reload_ignores_tail : forall p h junk, wf p h -> valid p h ->
  exists h', from_bytes p (firstn (p + plen h) (pbuf h) ++ junk) = Ok (Some h') /\
             payload p h' = payload p h /\ plen h' = plen h.
Proof. exact reload_ignores_tail. Qed.
Print Assumptions C13_reload_ignores_tail.

(* ---- size and text ---- *)
Theorem C13_psize : forall p h, psize p h = (p + plen h)%nat.
Proof. exact psize_eq. Qed.
Print Assumptions C13_psize.

Theorem C13_as_str : forall p h, as_str p h = payload p h.
Proof. exact as_str_eq. Qed.
Print Assumptions C13_as_str.

Theorem C13_payload_length : forall p h, wf p h -> length (payload p h) = plen h.
Proof. exact payload_length. Qed.
Print Assumptions C13_payload_length.

(* non-vacuity *)
Example C13_example_copy :
  let h := mkP [4; 120; 120; 120; 120; 9; 9; 9] 4 in
  wf 1 h /\ valid 1 h /\
  copy_from_str 1 h [97; 195; 169; 226; 130; 172] = mkP [4; 97; 195; 169; 0; 9; 9; 9] 4 /\
  payload 1 (copy_from_str 1 h [97; 195; 169; 226; 130; 172]) = [97; 195; 169; 0] /\
  from_bytes 1 [4; 97; 195; 169; 0; 9; 9; 9] = Ok (Some (mkP [4; 97; 195; 169; 0; 9; 9; 9] 4)) /\
  from_bytes 1 [4; 97; 195; 169; 0] = Ok (Some (mkP [4; 97; 195; 169; 0] 4)) /\
  from_bytes 1 [4; 97; 195; 169] = Panic PSlice.
Proof. repeat split; try reflexivity. vm_compute. repeat constructor. Qed.

(* new: a 2-byte text after a 1-byte prefix; and saturation at 255 for a
   300-byte area under a 1-byte prefix (not 300 mod 256 = 44) *)
Example C13_example_new :
  new 1 [0; 104; 105] = Ok ([2; 104; 105], Some (mkP [2; 104; 105] 2)) /\
  new 1 (0 :: repeat 97 300) = Ok (255 :: repeat 97 300, Some (mkP (255 :: repeat 97 300) 255)) /\
  new 2 [0] = Panic PSlice /\
  new 2 [7; 7; 255] = Ok ([1; 0; 255], None).
Proof. repeat split; vm_compute; reflexivity. Qed.
