(* C04 - all state lives in the bytes: a collection can be dropped and
   re-opened anywhere (array sets and hash set).  In the model a handle IS the
   state decoded from the bytes, so dropping and re-opening is decoding the
   encoded bytes again.  Theorems only; each is closed by [exact] of a lemma
   proved in Arr/FormatFacts.v, Arr/ArrMore.v, Arr/DocFacts.v,
   Hash/FormatInv.v, Hash/HashMore.v, Hash/DocFacts.v. *)
From Coq Require Import List NArith ZArith Bool Arith.
From Stevia Require Import Base.Res Base.Bytes
  Arr.Impl Arr.Spec Arr.Format Arr.Search Arr.Refine Arr.ArrProps Arr.FormatFacts Arr.ArrMore Arr.DocFacts
  Hash.Impl Hash.Spec Hash.Format Hash.ZSet Hash.Mem Hash.Inv Hash.Refine Hash.HashProps Hash.FormatFacts
  Hash.FormatInv Hash.HashMore Hash.DocFacts.
Import ListNotations.
Open Scope N_scope.

(* ---- array sets: prefix of pb bytes, cells of type ty ---- *)

(* values that fit the key / payload fields *)
Theorem C04_arr_fits_def : forall ty c o,
  (cell_ok ty c <-> z_ok (fsigned (ckey ty)) (cksz ty) (fst c) /\ z_ok (fsigned (cpay ty)) (cpsz ty) (snd c)) /\
  (op_fits ty o <-> Forall (cell_ok ty) (match o with AInsert c => [c] | AGetMut _ new => [new] | _ => [] end)).
Proof. exact (fun ty c o => conj (iff_refl _) (iff_refl _)). Qed.
Print Assumptions C04_arr_fits_def.

(* the decoded handle has the same count and slots (it knows nothing of the
   memory around the buffer) *)
Theorem C04_arr_decode_encode : forall pb ty s, cell_len ty <> 0%nat -> ainv (N.of_nat pb) s ->
  Forall (cell_ok ty) (aslots s) ->
  adecode pb ty (aencode pb ty s) = Some (mkA [] (aslots s) [] (alen s)).
Proof. exact arr_decode_encode. Qed.
Print Assumptions C04_arr_decode_encode.

(* opening writes nothing *)
Theorem C04_arr_reopen_bytes : forall pb ty s s', adecode pb ty (aencode pb ty s) = Some s' ->
  cell_len ty <> 0%nat -> ainv (N.of_nat pb) s -> Forall (cell_ok ty) (aslots s) ->
  aencode pb ty s' = aencode pb ty s.
Proof. exact arr_reopen_bytes. Qed.
Print Assumptions C04_arr_reopen_bytes.

(* values that fit the cell type stay fitting along every step, so the side
   condition of the round trip holds in every reachable state *)
Theorem C04_arr_fits_preserved : forall pb ty s o s' out c, ainv (N.of_nat pb) s -> aop_ok o ->
  astep_c (N.of_nat pb) s o = Ok (s', out, c) -> op_fits ty o ->
  Forall (cell_ok ty) (aslots s) -> Forall (cell_ok ty) (aslots s').
Proof. exact astep_fits. Qed.
Print Assumptions C04_arr_fits_preserved.

(* a history interrupted after [ops1] by dropping the handle and re-opening
   from the bytes - in place or in a copy placed between other cells
   [pre'], [post'] - answers [ops2] exactly as the uninterrupted history *)
Theorem C04_arr_reopen_continues : forall pb ty s ops1 ops2 pre' post',
  cell_len ty <> 0%nat -> ainv (N.of_nat pb) s -> Forall (cell_ok ty) (aslots s) ->
  Forall aop_ok ops1 -> Forall (op_fits ty) ops1 -> Forall aop_ok ops2 ->
  exists s1 s1',
    aexec (N.of_nat pb) s ops1 = Ok s1 /\
    adecode pb ty (aencode pb ty s1) = Some s1' /\
    aslots s1' = aslots s1 /\ alen s1' = alen s1 /\
    aencode pb ty s1' = aencode pb ty s1 /\
    arun_c (N.of_nat pb) s (ops1 ++ ops2)
    = arun_c (N.of_nat pb) s ops1 ++ arun_c (N.of_nat pb) (mkA pre' (aslots s1') post' (alen s1')) ops2.
Proof. exact arr_reopen_continues. Qed.
Print Assumptions C04_arr_reopen_continues.

Theorem C04_arr_reopen_anywhere : forall pb ty pre post nslots ops1 ops2 pre' post',
  cell_len ty <> 0%nat ->
  Forall aop_ok ops1 -> Forall (op_fits ty) ops1 -> Forall aop_ok ops2 ->
  exists s1 s1',
    aexec (N.of_nat pb) (ainit_c pre post nslots) ops1 = Ok s1 /\
    adecode pb ty (aencode pb ty s1) = Some s1' /\
    aslots s1' = aslots s1 /\ alen s1' = alen s1 /\
    aencode pb ty s1' = aencode pb ty s1 /\
    arun_c (N.of_nat pb) (ainit_c pre post nslots) (ops1 ++ ops2)
    = arun_c (N.of_nat pb) (ainit_c pre post nslots) ops1
      ++ arun_c (N.of_nat pb) (mkA pre' (aslots s1') post' (alen s1')) ops2.
Proof. exact arr_reopen_anywhere. Qed.
Print Assumptions C04_arr_reopen_anywhere.

(* splitting a history at any point *)
Theorem C04_arr_run_app : forall pbytes ops1 ops2 s s1, aexec pbytes s ops1 = Ok s1 ->
  arun_c pbytes s (ops1 ++ ops2) = arun_c pbytes s ops1 ++ arun_c pbytes s1 ops2.
Proof. exact arun_c_app. Qed.
Print Assumptions C04_arr_run_app.

(* ---- hash set: value type vty, arbitrary hash function ---- *)

Theorem C04_hash_decode_encode : forall (hash64 : Z -> N) vty s, hinv hash64 s ->
  zval_ok (fsigned vty) (N.to_nat (hvsz vty)) 0 ->
  (forall v, In v (habs s) -> zval_ok (fsigned vty) (N.to_nat (hvsz vty)) v) ->
  hdecode vty (hencode vty s) = Some s.
Proof. exact hinv_roundtrip. Qed.
Print Assumptions C04_hash_decode_encode.

(* re-opening a set whose buffer still matches its capacity writes nothing *)
Theorem C04_hash_reopen_writes_nothing : forall (hash64 : Z -> N) s,
  hstep_c hash64 s HReopen = Ok (s, HUnit).
Proof. exact hreopen_writes_nothing. Qed.
Print Assumptions C04_hash_reopen_writes_nothing.

(* the bucket of a value depends on the capacity word and the value only:
   nothing of it lives in the handle or the process *)
Theorem C04_hash_bucket_handle_independent : forall (hash64 : Z -> N) s1 s2 v, hcap s1 = hcap s2 ->
  bucket_of hash64 s1 v = bucket_of hash64 s2 v.
Proof. exact bucket_of_handle_independent. Qed.
Print Assumptions C04_hash_bucket_handle_independent.

(* the members of a reached state were there before or were inserted: the
   side condition of the round trip follows from the inserted values *)
Theorem C04_hash_members_inserted : forall (hash64 : Z -> N) ops s s' x, hinv hash64 s ->
  hexec hash64 s ops = Ok s' -> In x (habs s') -> In x (habs s) \/ In (HInsert x) ops.
Proof. exact hexec_members. Qed.
Print Assumptions C04_hash_members_inserted.

Theorem C04_hash_reopen_continues : forall (hash64 : Z -> N) vty s ops1 ops2, hinv hash64 s ->
  zval_ok (fsigned vty) (N.to_nat (hvsz vty)) 0 ->
  (forall v, In v (habs s) -> zval_ok (fsigned vty) (N.to_nat (hvsz vty)) v) ->
  (forall v, In (HInsert v) ops1 -> zval_ok (fsigned vty) (N.to_nat (hvsz vty)) v) ->
  exists s1 s1',
    hexec hash64 s ops1 = Ok s1 /\
    hdecode vty (hencode vty s1) = Some s1' /\ s1' = s1 /\
    hencode vty s1' = hencode vty s1 /\
    hrun_c hash64 s (ops1 ++ ops2) = hrun_c hash64 s ops1 ++ hrun_c hash64 s1' ops2.
Proof. exact hash_reopen_continues. Qed.
Print Assumptions C04_hash_reopen_continues.

Theorem C04_hash_reopen_anywhere : forall (hash64 : Z -> N) vty cap ops1 ops2, cap + 1 < 2 ^ 32 ->
  zval_ok (fsigned vty) (N.to_nat (hvsz vty)) 0 ->
  (forall v, In (HInsert v) ops1 -> zval_ok (fsigned vty) (N.to_nat (hvsz vty)) v) ->
  exists s1 s1',
    hexec hash64 (hinit_c cap cap) ops1 = Ok s1 /\
    hdecode vty (hencode vty s1) = Some s1' /\ s1' = s1 /\
    hencode vty s1' = hencode vty s1 /\
    hrun_c hash64 (hinit_c cap cap) (ops1 ++ ops2)
    = hrun_c hash64 (hinit_c cap cap) ops1 ++ hrun_c hash64 s1' ops2.
Proof. exact hash_reopen_anywhere. Qed.
Print Assumptions C04_hash_reopen_anywhere.

Theorem C04_hash_run_app : forall (hash64 : Z -> N) ops1 ops2 s s1, hexec hash64 s ops1 = Ok s1 ->
  hrun_c hash64 s (ops1 ++ ops2) = hrun_c hash64 s ops1 ++ hrun_c hash64 s1 ops2.
Proof. exact hrun_c_app. Qed.
Print Assumptions C04_hash_run_app.

(* ---- examples: really decode the bytes and go on ---- *)

(* u16 count, cells of an i32 key and a u8 payload; re-opened after three
   operations between different guard cells *)
Example C04_arr_example :
  let ty := mkCty {| fsz := 4; fsigned := true |} {| fsz := 1; fsigned := false |} in
  let ops1 := [AInsert (5, 50); AInsert (-3, 30); AInsert (9, 90); ATake (5, 0)]%Z in
  let ops2 := [AInsert (4, 40); AContains (-3, 0); ADeref; AIsFull]%Z in
  exists s1 s1', aexec 2 (ainit_c [(7, 7)%Z] [(8, 8)%Z] 3) ops1 = Ok s1 /\
    Forall (op_fits ty) ops1 /\
    aencode 2 ty s1 = [2; 0;  253; 255; 255; 255; 30;  9; 0; 0; 0; 90;  9; 0; 0; 0; 90] /\
    adecode 2 ty (aencode 2 ty s1) = Some s1' /\
    arun_c 2 (mkA [(1, 1)%Z] (aslots s1') [] (alen s1')) ops2
    = map Ok [ABool true; ABool true; AList [(-3, 30); (4, 40); (9, 90)]%Z; ABool true] /\
    arun_c 2 (ainit_c [(7, 7)%Z] [(8, 8)%Z] 3) (ops1 ++ ops2)
    = arun_c 2 (ainit_c [(7, 7)%Z] [(8, 8)%Z] 3) ops1
      ++ arun_c 2 (mkA [(1, 1)%Z] (aslots s1') [] (alen s1')) ops2.
Proof.
  cbv zeta. eexists. eexists. split; [vm_compute; reflexivity|].
  split; [repeat constructor; vm_compute; first [discriminate | reflexivity]|].
  split; [vm_compute; reflexivity|]. split; [vm_compute; reflexivity|].
  split; vm_compute; reflexivity.
Qed.

(* u64 values, capacity 3, the hash is the value: re-opened with a member, a
   released slot and an unused slot *)
Example C04_hash_example :
  let h := fun v : Z => Z.to_N v in
  let vty := {| fsz := 8; fsigned := false |} in
  let ops1 := [HInsert 5; HInsert 8; HRemove 5]%Z in
  let ops2 := [HInsert 11; HContains 8; HInsert 2; HInsert 3; HIter]%Z in
  exists s1 s1', hexec h (hinit_c 3 3) ops1 = Ok s1 /\
    hdecode vty (hencode vty s1) = Some s1' /\
    length (hencode vty s1) = 64%nat /\
    hrun_c h s1' ops2 = map Ok [HBool true; HBool true; HBool true; HBool false; HList [2; 8; 11]%Z] /\
    hrun_c h (hinit_c 3 3) (ops1 ++ ops2) = hrun_c h (hinit_c 3 3) ops1 ++ hrun_c h s1' ops2.
Proof.
  cbv zeta. eexists. eexists. split; [vm_compute; reflexivity|].
  split; [vm_compute; reflexivity|]. split; [vm_compute; reflexivity|].
  split; vm_compute; reflexivity.
Qed.

(* TREES: appended below *)

(* ---- AVL trees: index words of wbytes bytes (1 or 4), key and value field
   types given by [lay].  In the model a handle IS the state decoded from the
   bytes ([decode], which knows nothing of addresses: a copy of the bytes
   elsewhere is the same list), the mutable view additionally runs
   [open_mut] (from_bytes_mut's header logic).  Each theorem is closed by
   [exact] of a lemma proved in Avl/DocFacts.v / Avl/Alloc.v.  [kv_fits] and
   [hdr_fits] are spelled out in C10_avl_defs. ---- *)
From Stevia Require Import Avl.Impl Avl.Tree Avl.Rep Avl.Spec Avl.TreeInv Avl.TreeOps Avl.Alloc Avl.Inv
  Avl.LinkInsert Avl.LinkSteps Avl.Format Avl.FormatFacts Avl.Balance Avl.DocFacts.
(* Avl/WordsOk.v: the word invariant [words_ok] (spelled out, and shown to
   hold after every history, in C10_avl_words_ok_*_final), which with the
   master invariant implies [hdr_fits]; the [_final] theorems below are the
   [hdr_fits]-premised ones with [words_ok] instead *)
From Stevia Require Import Avl.WordsOk.

(* the handle re-opened from the bytes is the very same state: it reports
   the same contents and answers every operation identically *)
Theorem C04_avl_decode_encode : forall wbytes lay,
  wbytes = 1%nat \/ wbytes = 4%nat -> 0 < ksz lay -> 0 < vsz lay ->
  forall s t fr term,
  Inv (bits_of wbytes) s t fr term -> kv_fits lay t -> hdr_fits wbytes s term ->
  decode wbytes lay (encode wbytes lay s) = Some s.
Proof. exact inv_decode_encode. Qed.
Print Assumptions C04_avl_decode_encode.

Theorem C04_avl_decode_encode_final : forall wbytes lay,
  wbytes = 1%nat \/ wbytes = 4%nat -> 0 < ksz lay -> 0 < vsz lay ->
  forall s t fr term,
  Inv (bits_of wbytes) s t fr term -> kv_fits lay t -> words_ok (bits_of wbytes) s ->
  decode wbytes lay (encode wbytes lay s) = Some s.
Proof. exact inv_decode_encode_w. Qed.
Print Assumptions C04_avl_decode_encode_final.

(* a history interrupted at any point by dropping the handle and re-opening
   from the bytes continues exactly as the uninterrupted one: same outputs,
   same final state *)
Theorem C04_avl_reopen_continues : forall wbytes lay,
  wbytes = 1%nat \/ wbytes = 4%nat -> 0 < ksz lay -> 0 < vsz lay ->
  forall s ops1 s1 t fr term ops2,
  final_c (bits_of wbytes) s ops1 = Ok s1 ->
  Inv (bits_of wbytes) s1 t fr term -> kv_fits lay t -> hdr_fits wbytes s1 term ->
  exists s1', decode wbytes lay (encode wbytes lay s1) = Some s1' /\
    run_c (bits_of wbytes) s (ops1 ++ ops2) =
      run_c (bits_of wbytes) s ops1 ++ run_c (bits_of wbytes) s1' ops2 /\
    final_c (bits_of wbytes) s (ops1 ++ ops2) = final_c (bits_of wbytes) s1' ops2.
Proof. exact reopen_continues. Qed.
Print Assumptions C04_avl_reopen_continues.

Theorem C04_avl_reopen_continues_final : forall wbytes lay,
  wbytes = 1%nat \/ wbytes = 4%nat -> 0 < ksz lay -> 0 < vsz lay ->
  forall s ops1 s1 t fr term ops2,
  final_c (bits_of wbytes) s ops1 = Ok s1 ->
  Inv (bits_of wbytes) s1 t fr term -> kv_fits lay t -> words_ok (bits_of wbytes) s1 ->
  exists s1', decode wbytes lay (encode wbytes lay s1) = Some s1' /\
    run_c (bits_of wbytes) s (ops1 ++ ops2) =
      run_c (bits_of wbytes) s ops1 ++ run_c (bits_of wbytes) s1' ops2 /\
    final_c (bits_of wbytes) s (ops1 ++ ops2) = final_c (bits_of wbytes) s1' ops2.
Proof. exact reopen_continues_w. Qed.
Print Assumptions C04_avl_reopen_continues_final.

Theorem C04_avl_run_app : forall bits ops1 s s1 ops2,
  final_c bits s ops1 = Ok s1 ->
  run_c bits s (ops1 ++ ops2) = run_c bits s ops1 ++ run_c bits s1 ops2.
Proof. exact run_c_app. Qed.
Print Assumptions C04_avl_run_app.

(* re-opening, through the mutable view, a tree whose buffer size still
   matches its capacity leaves every byte unchanged *)
Theorem C04_avl_open_mut_same : forall bits s,
  N.of_nat (length (nodes s)) <= cap s -> open_mut bits s = Ok s.
Proof. exact open_mut_same. Qed.
Print Assumptions C04_avl_open_mut_same.

Theorem C04_avl_reopen_mut_same : forall wbytes lay,
  wbytes = 1%nat \/ wbytes = 4%nat -> 0 < ksz lay -> 0 < vsz lay ->
  forall s t fr term,
  Inv (bits_of wbytes) s t fr term -> kv_fits lay t -> hdr_fits wbytes s term ->
  N.of_nat (length (nodes s)) <= cap s ->
  exists s0, decode wbytes lay (encode wbytes lay s) = Some s0 /\
    open_mut (bits_of wbytes) s0 = Ok s0 /\ encode wbytes lay s0 = encode wbytes lay s.
Proof. exact inv_reopen_mut_same. Qed.
Print Assumptions C04_avl_reopen_mut_same.

Theorem C04_avl_reopen_mut_same_final : forall wbytes lay,
  wbytes = 1%nat \/ wbytes = 4%nat -> 0 < ksz lay -> 0 < vsz lay ->
  forall s t fr term,
  Inv (bits_of wbytes) s t fr term -> kv_fits lay t -> words_ok (bits_of wbytes) s ->
  N.of_nat (length (nodes s)) <= cap s ->
  exists s0, decode wbytes lay (encode wbytes lay s) = Some s0 /\
    open_mut (bits_of wbytes) s0 = Ok s0 /\ encode wbytes lay s0 = encode wbytes lay s.
Proof. exact inv_reopen_mut_same_w. Qed.
Print Assumptions C04_avl_reopen_mut_same_final.

(* in general (the buffer has grown) the mutable view keeps the tree - same
   contents in the same slots - and claims the new records *)
Theorem C04_avl_reopen_mut : forall wbytes lay,
  wbytes = 1%nat \/ wbytes = 4%nat -> 0 < ksz lay -> 0 < vsz lay ->
  forall s t fr term,
  Inv (bits_of wbytes) s t fr term -> kv_fits lay t -> hdr_fits wbytes s term ->
  sizecond (bits_of wbytes) s ->
  exists s0 s' fr',
    decode wbytes lay (encode wbytes lay s) = Some s0 /\ open_mut (bits_of wbytes) s0 = Ok s' /\
    Inv (bits_of wbytes) s' t fr' term /\ cap s' = N.of_nat (length (nodes s)) /\
    length (nodes s') = length (nodes s) /\
    (N.of_nat (length (nodes s)) <= cap s -> s' = s /\ fr' = fr).
Proof. exact inv_reopen_mut. Qed.
Print Assumptions C04_avl_reopen_mut.

Theorem C04_avl_reopen_mut_final : forall wbytes lay,
  wbytes = 1%nat \/ wbytes = 4%nat -> 0 < ksz lay -> 0 < vsz lay ->
  forall s t fr term,
  Inv (bits_of wbytes) s t fr term -> kv_fits lay t -> words_ok (bits_of wbytes) s ->
  sizecond (bits_of wbytes) s ->
  exists s0 s' fr',
    decode wbytes lay (encode wbytes lay s) = Some s0 /\ open_mut (bits_of wbytes) s0 = Ok s' /\
    Inv (bits_of wbytes) s' t fr' term /\ cap s' = N.of_nat (length (nodes s)) /\
    length (nodes s') = length (nodes s) /\
    (N.of_nat (length (nodes s)) <= cap s -> s' = s /\ fr' = fr).
Proof. exact inv_reopen_mut_w. Qed.
Print Assumptions C04_avl_reopen_mut_final.

(* ---- example: the history of C10_avl_example dropped after five operations
   and re-opened from its bytes ---- *)
Example C04_avl_example :
  let ops1 := [OInsert 10 100; OInsert 20 200; OInsert 30 300; OInsert 40 400; OInsert 50 500]%Z in
  let ops2 := [OInsert 60 600; OInsert 70 700; OInsert 45 450; ORemove 20; OGet 45]%Z in
  exists s1 s1',
    final_c 8 (init_c 9 10) ops1 = Ok s1 /\
    decode 1 ex_lay8 (encode 1 ex_lay8 s1) = Some s1' /\ s1' = s1 /\
    open_mut 8 s1' = Ok s1' /\
    run_c 8 (init_c 9 10) (ops1 ++ ops2) = run_c 8 (init_c 9 10) ops1 ++ run_c 8 s1' ops2 /\
    run_c 8 s1' ops2 =
      [Ok (RSlot (Some 6)); Ok (RSlot (Some 7)); Ok (RSlot (Some 8)); Ok (RVal (Some 200%Z));
       Ok (RVal (Some 450%Z))].
Proof.
  cbv zeta. eexists. eexists. split; [vm_compute; reflexivity|].
  split; [vm_compute; reflexivity|]. split; [reflexivity|]. split; [vm_compute; reflexivity|].
  split; vm_compute; reflexivity.
Qed.

(* ---- trees: drop and re-open anywhere in a history, bytes and API answers
   only (Avl/EndToEnd.v; [ops_fit] is spelled out in C10_avl_reader_defs) ---- *)
From Stevia Require Avl.Master.
From Stevia Require Import Avl.EndToEnd.

(* For a u8 or u32 tree, any key and value types of positive size, any
   initial capacity an index word can hold, and any history ops1 ++ ops2 with
   admissible growth whose arguments fit the key and value fields: running
   ops1, taking the bytes, decoding them into a new handle and running ops2 on
   it returns normally everywhere, gives call by call the answers of the
   uninterrupted run, and ends in the same bytes. *)
Theorem C04_avl_history_reopen : forall wbytes lay,
  wbytes = 1%nat \/ wbytes = 4%nat -> 0 < ksz lay -> 0 < vsz lay ->
  forall capacity ops1 ops2,
  capacity < 2 ^ bits_of wbytes -> (bits_of wbytes <> 8 -> capacity + 1 < 2 ^ bits_of wbytes) ->
  Master.growth_ok (bits_of wbytes) (spec_init capacity) (ops1 ++ ops2) -> ops_fit lay (ops1 ++ ops2) ->
  exists s1 s1' sf sf' outs,
    final_c (bits_of wbytes) (init_c capacity capacity) ops1 = Ok s1 /\
    decode wbytes lay (encode wbytes lay s1) = Some s1' /\
    final_c (bits_of wbytes) s1' ops2 = Ok sf' /\
    final_c (bits_of wbytes) (init_c capacity capacity) (ops1 ++ ops2) = Ok sf /\
    run_c (bits_of wbytes) (init_c capacity capacity) (ops1 ++ ops2) = map Ok outs /\
    run_c (bits_of wbytes) (init_c capacity capacity) ops1 ++ run_c (bits_of wbytes) s1' ops2 = map Ok outs /\
    encode wbytes lay sf' = encode wbytes lay sf.
Proof. exact history_reopen. Qed.
Print Assumptions C04_avl_history_reopen.

Theorem C04_avl_growth_ok_def : forall bits a o r,
  (Master.growth_ok bits a [] <-> True) /\
  (Master.growth_ok bits a (o :: r) <->
     (forall n, o = OExt n -> snrec a + n + 1 < 2 ^ bits) /\ Master.growth_ok bits (fst (spec_step a o)) r).
Proof. exact (fun bits a o r => conj (iff_refl _) (iff_refl _)). Qed.
Print Assumptions C04_avl_growth_ok_def.

(* the hypotheses are satisfiable: the history of C04_avl_example split after
   five operations, capacity 9 *)
Example C04_avl_history_reopen_example :
  let ops1 := [OInsert 10 100; OInsert 20 200; OInsert 30 300; OInsert 40 400; OInsert 50 500]%Z in
  let ops2 := [OInsert 60 600; OInsert 70 700; OInsert 45 450; ORemove 20]%Z in
  9 < 2 ^ bits_of 1 /\ Master.growth_ok (bits_of 1) (spec_init 9) (ops1 ++ ops2) /\
  ops_fit ex_lay8 (ops1 ++ ops2).
Proof. exact e2e_example_hyps. Qed.

(* ------------------------------------------------------------------ *)
(* Explicit handles, continued (Avl/SessionMore.v). *)
From Coq Require Import Permutation.
From Stevia Require Import Avl.Master Avl.LinkSteps Avl.LinkInsert Avl.Session Avl.SessionFacts Avl.Capacity Avl.EndToEnd Avl.SessionMore.
(* dropping the handle of a settled tree changes nothing *)
Theorem C04_session_reopen_settled :
  forall (bits : N) (s : st) (ops : list op),
  settled s ->
  run_sess bits {| c_st := s; c_live := false |} ops = run_sess bits {| c_st := s; c_live := true |} ops /\
  x <- final_sess bits {| c_st := s; c_live := false |} ops;; Ok (c_st x) =
  x <- final_sess bits {| c_st := s; c_live := true |} ops;; Ok (c_st x).
Proof. exact session_reopen_settled. Qed.
Print Assumptions C04_session_reopen_settled.

Example C04_session_unsettled_differs := sess_reopen_unsettled_differs.
