(* C04 - all state lives in the bytes: a collection can be dropped and
   re-opened anywhere (array sets and hash set).  In the model a handle IS the
   state decoded from the bytes, so dropping and re-opening is decoding the
   encoded bytes again.  Theorems only; each is closed by [exact] of a lemma
   proved in Arr/FormatFacts.v, Arr/ArrMore.v, Arr/DocFacts.v,
   Hash/FormatInv.v, Hash/HashMore.v, Hash/DocFacts.v. *)
From Coq Require Import List NArith ZArith Bool Arith.
From Stevia Require Import Base.Res Base.Bytes
  Arr.Impl Arr.Spec Arr.Format Arr.Search Arr.Refine Arr.ArrProps Arr.FormatFacts Arr.ArrMore Arr.DocFacts
  Hash.Impl Hash.Spec Hash.Format Hash.ZSet Hash.Mem Hash.Inv Hash.Refine Hash.HashProps Hash.FormatFacts
  Hash.FormatInv Hash.HashMore Hash.DocFacts.
Import ListNotations.
Open Scope N_scope.

(* ---- array sets: prefix of pb bytes, cells of type ty ---- *)

(* values that fit the key / payload fields *)
Theorem C04_arr_fits_def : forall ty c o,
  (cell_ok ty c <-> z_ok (fsigned (ckey ty)) (cksz ty) (fst c) /\ z_ok (fsigned (cpay ty)) (cpsz ty) (snd c)) /\
  (op_fits ty o <-> Forall (cell_ok ty) (match o with AInsert c => [c] | AGetMut _ new => [new] | _ => [] end)).
Proof. exact (fun ty c o => conj (iff_refl _) (iff_refl _)). Qed.
Print Assumptions C04_arr_fits_def.

(* the decoded handle has the same count and slots (it knows nothing of the
   memory around the buffer) *)
Theorem C04_arr_decode_encode : forall pb ty s, cell_len ty <> 0%nat -> ainv (N.of_nat pb) s ->
  Forall (cell_ok ty) (aslots s) ->
  adecode pb ty (aencode pb ty s) = Some (mkA [] (aslots s) [] (alen s)).
Proof. exact arr_decode_encode. Qed.
Print Assumptions C04_arr_decode_encode.

(* opening writes nothing *)
Theorem C04_arr_reopen_bytes : forall pb ty s s', adecode pb ty (aencode pb ty s) = Some s' ->
  cell_len ty <> 0%nat -> ainv (N.of_nat pb) s -> Forall (cell_ok ty) (aslots s) ->
  aencode pb ty s' = aencode pb ty s.
Proof. exact arr_reopen_bytes. Qed.
Print Assumptions C04_arr_reopen_bytes.

(* values that fit the cell type stay fitting along every step, so the side
   condition of the round trip holds in every reachable state *)
Theorem C04_arr_fits_preserved : forall pb ty s o s' out c, ainv (N.of_nat pb) s -> aop_ok o ->
  astep_c (N.of_nat pb) s o = Ok (s', out, c) -> op_fits ty o ->
  Forall (cell_ok ty) (aslots s) -> Forall (cell_ok ty) (aslots s').
Proof. exact astep_fits. Qed.
Print Assumptions C04_arr_fits_preserved.

(* a history interrupted after [ops1] by dropping the handle and re-opening
   from the bytes - in place or in a copy placed between other cells
   [pre'], [post'] - answers [ops2] exactly as the uninterrupted history *)
Theorem C04_arr_reopen_continues : forall pb ty s ops1 ops2 pre' post',
  cell_len ty <> 0%nat -> ainv (N.of_nat pb) s -> Forall (cell_ok ty) (aslots s) ->
  Forall aop_ok ops1 -> Forall (op_fits ty) ops1 -> Forall aop_ok ops2 ->
  exists s1 s1',
    aexec (N.of_nat pb) s ops1 = Ok s1 /\
    adecode pb ty (aencode pb ty s1) = Some s1' /\
    aslots s1' = aslots s1 /\ alen s1' = alen s1 /\
    aencode pb ty s1' = aencode pb ty s1 /\
    arun_c (N.of_nat pb) s (ops1 ++ ops2)
    = arun_c (N.of_nat pb) s ops1 ++ arun_c (N.of_nat pb) (mkA pre' (aslots s1') post' (alen s1')) ops2.
Proof. exact arr_reopen_continues. Qed.
Print Assumptions C04_arr_reopen_continues.

Theorem C04_arr_reopen_anywhere : forall pb ty pre post nslots ops1 ops2 pre' post',
  cell_len ty <> 0%nat ->
  Forall aop_ok ops1 -> Forall (op_fits ty) ops1 -> Forall aop_ok ops2 ->
  exists s1 s1',
    aexec (N.of_nat pb) (ainit_c pre post nslots) ops1 = Ok s1 /\
    adecode pb ty (aencode pb ty s1) = Some s1' /\
    aslots s1' = aslots s1 /\ alen s1' = alen s1 /\
    aencode pb ty s1' = aencode pb ty s1 /\
    arun_c (N.of_nat pb) (ainit_c pre post nslots) (ops1 ++ ops2)
    = arun_c (N.of_nat pb) (ainit_c pre post nslots) ops1
      ++ arun_c (N.of_nat pb) (mkA pre' (aslots s1') post' (alen s1')) ops2.
Proof. exact arr_reopen_anywhere. Qed.
Print Assumptions C04_arr_reopen_anywhere.

(* splitting a history at any point *)
Theorem C04_arr_run_app : forall pbytes ops1 ops2 s s1, aexec pbytes s ops1 = Ok s1 ->
  arun_c pbytes s (ops1 ++ ops2) = arun_c pbytes s ops1 ++ arun_c pbytes s1 ops2.
Proof. exact arun_c_app. Qed.
Print Assumptions C04_arr_run_app.

(* ---- hash set: value type vty, arbitrary hash function ---- *)

Theorem C04_hash_decode_encode : forall (hash64 : Z -> N) vty s, hinv hash64 s ->
  zval_ok (fsigned vty) (N.to_nat (hvsz vty)) 0 ->
  (forall v, In v (habs s) -> zval_ok (fsigned vty) (N.to_nat (hvsz vty)) v) ->
  hdecode vty (hencode vty s) = Some s.
Proof. exact hinv_roundtrip. Qed.
Print Assumptions C04_hash_decode_encode.

(* re-opening a set whose buffer still matches its capacity writes nothing *)
Theorem C04_hash_reopen_writes_nothing : forall (hash64 : Z -> N) s,
  hstep_c hash64 s HReopen = Ok (s, HUnit).
Proof. exact hreopen_writes_nothing. Qed.
Print Assumptions C04_hash_reopen_writes_nothing.

(* the bucket of a value depends on the capacity word and the value only:
   nothing of it lives in the handle or the process *)
Theorem C04_hash_bucket_handle_independent : forall (hash64 : Z -> N) s1 s2 v, hcap s1 = hcap s2 ->
  bucket_of hash64 s1 v = bucket_of hash64 s2 v.
Proof. exact bucket_of_handle_independent. Qed.
Print Assumptions C04_hash_bucket_handle_independent.

(* the members of a reached state were there before or were inserted: the
   side condition of the round trip follows from the inserted values *)
Theorem C04_hash_members_inserted : forall (hash64 : Z -> N) ops s s' x, hinv hash64 s ->
  hexec hash64 s ops = Ok s' -> In x (habs s') -> In x (habs s) \/ In (HInsert x) ops.
Proof. exact hexec_members. Qed.
Print Assumptions C04_hash_members_inserted.

Theorem C04_hash_reopen_continues : forall (hash64 : Z -> N) vty s ops1 ops2, hinv hash64 s ->
  zval_ok (fsigned vty) (N.to_nat (hvsz vty)) 0 ->
  (forall v, In v (habs s) -> zval_ok (fsigned vty) (N.to_nat (hvsz vty)) v) ->
  (forall v, In (HInsert v) ops1 -> zval_ok (fsigned vty) (N.to_nat (hvsz vty)) v) ->
  exists s1 s1',
    hexec hash64 s ops1 = Ok s1 /\
    hdecode vty (hencode vty s1) = Some s1' /\ s1' = s1 /\
    hencode vty s1' = hencode vty s1 /\
    hrun_c hash64 s (ops1 ++ ops2) = hrun_c hash64 s ops1 ++ hrun_c hash64 s1' ops2.
Proof. exact hash_reopen_continues. Qed.
Print Assumptions C04_hash_reopen_continues.

Theorem C04_hash_reopen_anywhere : forall (hash64 : Z -> N) vty cap ops1 ops2, cap + 1 < 2 ^ 32 ->
  zval_ok (fsigned vty) (N.to_nat (hvsz vty)) 0 ->
  (forall v, In (HInsert v) ops1 -> zval_ok (fsigned vty) (N.to_nat (hvsz vty)) v) ->
  exists s1 s1',
    hexec hash64 (hinit_c cap cap) ops1 = Ok s1 /\
    hdecode vty (hencode vty s1) = Some s1' /\ s1' = s1 /\
    hencode vty s1' = hencode vty s1 /\
    hrun_c hash64 (hinit_c cap cap) (ops1 ++ ops2)
    = hrun_c hash64 (hinit_c cap cap) ops1 ++ hrun_c hash64 s1' ops2.
Proof. exact hash_reopen_anywhere. Qed.
Print Assumptions C04_hash_reopen_anywhere.

Theorem C04_hash_run_app : forall (hash64 : Z -> N) ops1 ops2 s s1, hexec hash64 s ops1 = Ok s1 ->
  hrun_c hash64 s (ops1 ++ ops2) = hrun_c hash64 s ops1 ++ hrun_c hash64 s1 ops2.
Proof. exact hrun_c_app. Qed.
Print Assumptions C04_hash_run_app.

(* ---- examples: really decode the bytes and go on ---- *)

(* u16 count, cells of an i32 key and a u8 payload; re-opened after three
   operations between different guard cells *)
Example C04_arr_example :
  let ty := mkCty {| fsz := 4; fsigned := true |} {| fsz := 1; fsigned := false |} in
  let ops1 := [AInsert (5, 50); AInsert (-3, 30); AInsert (9, 90); ATake (5, 0)]%Z in
  let ops2 := [AInsert (4, 40); AContains (-3, 0); ADeref; AIsFull]%Z in
  exists s1 s1', aexec 2 (ainit_c [(7, 7)%Z] [(8, 8)%Z] 3) ops1 = Ok s1 /\
    Forall (op_fits ty) ops1 /\
    aencode 2 ty s1 = [2; 0;  253; 255; 255; 255; 30;  9; 0; 0; 0; 90;  9; 0; 0; 0; 90] /\
    adecode 2 ty (aencode 2 ty s1) = Some s1' /\
    arun_c 2 (mkA [(1, 1)%Z] (aslots s1') [] (alen s1')) ops2
    = map Ok [ABool true; ABool true; AList [(-3, 30); (4, 40); (9, 90)]%Z; ABool true] /\
    arun_c 2 (ainit_c [(7, 7)%Z] [(8, 8)%Z] 3) (ops1 ++ ops2)
    = arun_c 2 (ainit_c [(7, 7)%Z] [(8, 8)%Z] 3) ops1
      ++ arun_c 2 (mkA [(1, 1)%Z] (aslots s1') [] (alen s1')) ops2.
Proof.
  cbv zeta. eexists. eexists. split; [vm_compute; reflexivity|].
  split; [repeat constructor; vm_compute; first [discriminate | reflexivity]|].
  split; [vm_compute; reflexivity|]. split; [vm_compute; reflexivity|].
  split; vm_compute; reflexivity.
Qed.

(* u64 values, capacity 3, the hash is the value: re-opened with a member, a
   released slot and an unused slot *)
Example C04_hash_example :
  let h := fun v : Z => Z.to_N v in
  let vty := {| fsz := 8; fsigned := false |} in
  let ops1 := [HInsert 5; HInsert 8; HRemove 5]%Z in
  let ops2 := [HInsert 11; HContains 8; HInsert 2; HInsert 3; HIter]%Z in
  exists s1 s1', hexec h (hinit_c 3 3) ops1 = Ok s1 /\
    hdecode vty (hencode vty s1) = Some s1' /\
    length (hencode vty s1) = 64%nat /\
    hrun_c h s1' ops2 = map Ok [HBool true; HBool true; HBool true; HBool false; HList [2; 8; 11]%Z] /\
    hrun_c h (hinit_c 3 3) (ops1 ++ ops2) = hrun_c h (hinit_c 3 3) ops1 ++ hrun_c h s1' ops2.
Proof.
  cbv zeta. eexists. eexists. split; [vm_compute; reflexivity|].
  split; [vm_compute; reflexivity|]. split; [vm_compute; reflexivity|].
  split; vm_compute; reflexivity.
Qed.

(* TREES: appended below *)
