(* C09 - refused operations and queries leave every byte unchanged (array
   sets and hash set).  Theorems only; each is closed by [exact] of a lemma
   proved in Arr/ArrProps.v, Arr/DocFacts.v, Hash/HashProps.v, Hash/DocFacts.v. *)
From Coq Require Import List NArith ZArith Bool Arith.
From Stevia Require Import Base.Res Base.Bytes Arr.Impl Arr.Spec Arr.Format Arr.Search Arr.Refine Arr.ArrProps
  Arr.FormatFacts Arr.ArrMore Arr.DocFacts
  Hash.Impl Hash.Spec Hash.Format Hash.ZSet Hash.Mem Hash.Inv Hash.Refine Hash.HashProps Hash.HashMore Hash.DocFacts.
Import ListNotations.
Open Scope N_scope.

(* ---- array sets, every prefix width ---- *)

(* which (operation, answer) pairs are "did nothing": a refused insert, an
   absent remove / take / get_mut, and every query *)
Theorem C09_arr_quiet_def : forall o out,
  aquiet o out <->
  match o, out with
  | AInsert _, ABool false | ARemove _, ABool false | ATake _, ACell None | AGetMut _ _, ACell None => True
  | AGet _, _ | AContains _, _ | ALen, _ | AIsFull, _ | AIsEmpty, _ | ADeref, _ => True
  | _, _ => False
  end.
Proof. exact (fun o out => iff_refl _). Qed.
Print Assumptions C09_arr_quiet_def.

(* the very same state: count, every slot (also the stale ones behind the
   members) and the guard cells *)
Theorem C09_arr_refused_unchanged : forall pbytes s o s' out c, ainv pbytes s -> aop_ok o ->
  astep_c pbytes s o = Ok (s', out, c) -> aquiet o out -> s' = s.
Proof. exact arr_refused_unchanged. Qed.
Print Assumptions C09_arr_refused_unchanged.

(* the same, about bytes: the buffer and the buffer with its surroundings *)
Theorem C09_arr_refused_bytes : forall pbytes pb ty s o s' out c, ainv pbytes s -> aop_ok o ->
  astep_c pbytes s o = Ok (s', out, c) -> aquiet o out ->
  aencode pb ty s' = aencode pb ty s /\ aencode_mem pb ty s' = aencode_mem pb ty s.
Proof. exact arr_refused_bytes. Qed.
Print Assumptions C09_arr_refused_bytes.

(* ---- hash set, arbitrary hash function; no invariant needed ---- *)

Theorem C09_hash_writes_def : forall o out,
  hop_writes o out = match o, out with
                     | HInsert _, HBool true => true
                     | HRemove _, HBool true => true
                     | _, _ => false
                     end.
Proof. exact (fun o out => eq_refl). Qed.
Print Assumptions C09_hash_writes_def.

Theorem C09_hash_refused_unchanged : forall (hash64 : Z -> N) s o s' out,
  hstep_c hash64 s o = Ok (s', out) -> hop_writes o out = false -> s' = s.
Proof. exact hash_refused_unchanged. Qed.
Print Assumptions C09_hash_refused_unchanged.

Theorem C09_hash_refused_bytes : forall (hash64 : Z -> N) vty s o s' out,
  hstep_c hash64 s o = Ok (s', out) -> hop_writes o out = false -> hencode vty s' = hencode vty s.
Proof. exact hash_refused_bytes. Qed.
Print Assumptions C09_hash_refused_bytes.

(* non-vacuity: a reachable array set with a stale slot and guard cells; a
   duplicate insert, an absent take, an absent get_mut and the queries each
   answer and leave the state as it is; full set refuses a fresh key *)
Example C09_arr_example :
  let s := mkA [(7, 7)%Z] [(3, 30); (9, 90); (9, 90); (0, 0)]%Z [(8, 8)%Z] 2 in
  let f := mkA [(7, 7)%Z] [(3, 30); (9, 90)]%Z [(8, 8)%Z] 2 in
  ainv 1 s /\ ainv 1 f /\
  astep_c 1 s (AInsert (9, 91)%Z) = Ok (s, ABool false, 0) /\
  astep_c 1 s (ATake (5, 0)%Z) = Ok (s, ACell None, 0) /\
  astep_c 1 s (ARemove (5, 0)%Z) = Ok (s, ABool false, 0) /\
  astep_c 1 s (AGetMut (5, 0) (5, 1))%Z = Ok (s, ACell None, 0) /\
  astep_c 1 s (AGet (9, 0)%Z) = Ok (s, ACell (Some (9, 90)%Z), 2) /\
  astep_c 1 s ADeref = Ok (s, AList [(3, 30); (9, 90)]%Z, 0) /\
  astep_c 1 f (AInsert (5, 50)%Z) = Ok (f, ABool false, 0).
Proof.
  cbv zeta. split; [exact (proj1 (proj2 areach_example))|]. split.
  - split; [cbn; auto|]. split; [reflexivity|]. cbn. repeat constructor.
  - repeat (split; [vm_compute; reflexivity|]). vm_compute; reflexivity.
Qed.

(* a hash set with two colliding members and a released slot: duplicate
   insert, absent remove, insert into the full set *)
Example C09_hash_example :
  exists s, hexec (fun _ => 0) (hinit_c 3 3) [HInsert 5; HInsert 7; HInsert 9; HRemove 7]%Z = Ok s /\
    hinv (fun _ => 0) s /\ habs s = [5; 9]%Z /\
    hstep_c (fun _ => 0) s (HInsert 9%Z) = Ok (s, HBool false) /\
    hstep_c (fun _ => 0) s (HRemove 7%Z) = Ok (s, HBool false) /\
    hstep_c (fun _ => 0) s (HContains 5%Z) = Ok (s, HBool true) /\
    hstep_c (fun _ => 0) s HIter = Ok (s, HList [5; 9]%Z) /\
    exists s2, hexec (fun _ => 0) s [HInsert 1%Z] = Ok s2 /\
      hstep_c (fun _ => 0) s2 (HInsert 2%Z) = Ok (s2, HBool false).
Proof.
  eexists. split; [vm_compute; reflexivity|]. split.
  - apply (hinv_reachable (fun _ => 0) 3 [HInsert 5; HInsert 7; HInsert 9; HRemove 7]%Z); [reflexivity | vm_compute; reflexivity].
  - repeat (split; [vm_compute; reflexivity|]). eexists. split; [vm_compute; reflexivity|]. vm_compute; reflexivity.
Qed.

(* TREES: appended below *)
