(* C09 - refused operations and queries leave every byte unchanged (array
   sets and hash set).  Theorems only; each is closed by [exact] of a lemma
   proved in Arr/ArrProps.v, Arr/DocFacts.v, Hash/HashProps.v, Hash/DocFacts.v. *)
From Coq Require Import List NArith ZArith Bool Arith.
From Stevia Require Import Base.Res Base.Bytes Arr.Impl Arr.Spec Arr.Format Arr.Search Arr.Refine Arr.ArrProps
  Arr.FormatFacts Arr.ArrMore Arr.DocFacts
  Hash.Impl Hash.Spec Hash.Format Hash.ZSet Hash.Mem Hash.Inv Hash.Refine Hash.HashProps Hash.HashMore Hash.DocFacts.
Import ListNotations.
Open Scope N_scope.

(* ---- array sets, every prefix width ---- *)

(* which (operation, answer) pairs are "did nothing": a refused insert, an
   absent remove / take / get_mut, and every query *)
Theorem C09_arr_quiet_def : forall o out,
  aquiet o out <->
  match o, out with
  | AInsert _, ABool false | ARemove _, ABool false | ATake _, ACell None | AGetMut _ _, ACell None => True
  | AGet _, _ | AContains _, _ | ALen, _ | AIsFull, _ | AIsEmpty, _ | ADeref, _ => True
  | _, _ => False
  end.
Proof. exact (fun o out => iff_refl _). Qed.
Print Assumptions C09_arr_quiet_def.

(* the very same state: count, every slot (also the stale ones behind the
   members) and the guard cells *)
Theorem C09_arr_refused_unchanged : forall pbytes s o s' out c, ainv pbytes s -> aop_ok o ->
  astep_c pbytes s o = Ok (s', out, c) -> aquiet o out -> s' = s.
Proof. exact arr_refused_unchanged. Qed.
Print Assumptions C09_arr_refused_unchanged.

(* the same, about bytes: the buffer and the buffer with its surroundings *)
Theorem C09_arr_refused_bytes : forall pbytes pb ty s o s' out c, ainv pbytes s -> aop_ok o ->
  astep_c pbytes s o = Ok (s', out, c) -> aquiet o out ->
  aencode pb ty s' = aencode pb ty s /\ aencode_mem pb ty s' = aencode_mem pb ty s.
Proof. exact arr_refused_bytes. Qed.
Print Assumptions C09_arr_refused_bytes.

(* ---- hash set, arbitrary hash function; no invariant needed ---- *)

Theorem C09_hash_writes_def : forall o out,
  hop_writes o out = match o, out with
                     | HInsert _, HBool true => true
                     | HRemove _, HBool true => true
                     | _, _ => false
                     end.
Proof. exact (fun o out => eq_refl). Qed.
Print Assumptions C09_hash_writes_def.

Theorem C09_hash_refused_unchanged : forall (hash64 : Z -> N) s o s' out,
  hstep_c hash64 s o = Ok (s', out) -> hop_writes o out = false -> s' = s.
Proof. exact hash_refused_unchanged. Qed.
Print Assumptions C09_hash_refused_unchanged.

Theorem C09_hash_refused_bytes : forall (hash64 : Z -> N) vty s o s' out,
  hstep_c hash64 s o = Ok (s', out) -> hop_writes o out = false -> hencode vty s' = hencode vty s.
Proof. exact hash_refused_bytes. Qed.
Print Assumptions C09_hash_refused_bytes.

(* non-vacuity: a reachable array set with a stale slot and guard cells; a
   duplicate insert, an absent take, an absent get_mut and the queries each
   answer and leave the state as it is; full set refuses a fresh key *)
Example C09_arr_example :
  let s := mkA [(7, 7)%Z] [(3, 30); (9, 90); (9, 90); (0, 0)]%Z [(8, 8)%Z] 2 in
  let f := mkA [(7, 7)%Z] [(3, 30); (9, 90)]%Z [(8, 8)%Z] 2 in
  ainv 1 s /\ ainv 1 f /\
  astep_c 1 s (AInsert (9, 91)%Z) = Ok (s, ABool false, 0) /\
  astep_c 1 s (ATake (5, 0)%Z) = Ok (s, ACell None, 0) /\
  astep_c 1 s (ARemove (5, 0)%Z) = Ok (s, ABool false, 0) /\
  astep_c 1 s (AGetMut (5, 0) (5, 1))%Z = Ok (s, ACell None, 0) /\
  astep_c 1 s (AGet (9, 0)%Z) = Ok (s, ACell (Some (9, 90)%Z), 2) /\
  astep_c 1 s ADeref = Ok (s, AList [(3, 30); (9, 90)]%Z, 0) /\
  astep_c 1 f (AInsert (5, 50)%Z) = Ok (f, ABool false, 0).
Proof.
  cbv zeta. split; [exact (proj1 (proj2 areach_example))|]. split.
  - split; [cbn; auto|]. split; [reflexivity|]. cbn. repeat constructor.
  - repeat (split; [vm_compute; reflexivity|]). vm_compute; reflexivity.
Qed.

(* a hash set with two colliding members and a released slot: duplicate
   insert, absent remove, insert into the full set *)
Example C09_hash_example :
  exists s, hexec (fun _ => 0) (hinit_c 3 3) [HInsert 5; HInsert 7; HInsert 9; HRemove 7]%Z = Ok s /\
    hinv (fun _ => 0) s /\ habs s = [5; 9]%Z /\
    hstep_c (fun _ => 0) s (HInsert 9%Z) = Ok (s, HBool false) /\
    hstep_c (fun _ => 0) s (HRemove 7%Z) = Ok (s, HBool false) /\
    hstep_c (fun _ => 0) s (HContains 5%Z) = Ok (s, HBool true) /\
    hstep_c (fun _ => 0) s HIter = Ok (s, HList [5; 9]%Z) /\
    exists s2, hexec (fun _ => 0) s [HInsert 1%Z] = Ok s2 /\
      hstep_c (fun _ => 0) s2 (HInsert 2%Z) = Ok (s2, HBool false).
Proof.
  eexists. split; [vm_compute; reflexivity|]. split.
  - apply (hinv_reachable (fun _ => 0) 3 [HInsert 5; HInsert 7; HInsert 9; HRemove 7]%Z); [reflexivity | vm_compute; reflexivity].
  - repeat (split; [vm_compute; reflexivity|]). eexists. split; [vm_compute; reflexivity|]. vm_compute; reflexivity.
Qed.

(* TREES: appended below *)

(* AVL trees, both index widths.  Each theorem is closed by [exact] of a
   lemma proved in Avl/Quiet.v; theorems about a removal take the link for
   [remove] (Avl/LinkRemove.v) as the explicit premise
   [remove_spec_statement bits]. *)
From Stevia Require Import Avl.Impl Avl.Tree Avl.Spec Avl.Format Avl.Inv Avl.LinkInsert Avl.LinkSteps
  Avl.Master Avl.Clauses Avl.Capacity Avl.Quiet.
From Stevia Require Import Avl.FinalMaster.

(* which (operation, answer) pairs are "did nothing": a refused insert, a
   remove or a get_mut of an absent key, get_mut without a write, every
   query, and re-opening the buffer *)
Theorem C09_avl_quiet_def : forall o x,
  quiet o x <->
  match o, x with
  | OInsert _ _, RSlot None => True
  | ORemove _, RVal None => True
  | OGetMut _ _, RVal None => True
  | OGetMut0 _, _ => True
  | OGet _, _ | OContains _, _ | OLowest, _ | OLen, _ | OIsEmpty, _ | OIsFull, _
  | OCapacity, _ | OOpenRo, _ | OOpenMut, _ => True
  | _, _ => False
  end.
Proof. exact (fun o x => iff_refl _). Qed.
Print Assumptions C09_avl_quiet_def.

Theorem C09_avl_defs :
  (forall s, settled s <-> N.of_nat (length (nodes s)) <= cap s) /\
  (forall o, ro_op o <->
     match o with
     | OGet _ | OContains _ | OLowest | OLen | OIsEmpty | OIsFull | OCapacity | OOpenRo => True
     | _ => False
     end) /\
  (forall o, not_remove o <-> match o with ORemove _ => False | _ => True end) /\
  (forall o, no_ext o <-> match o with OExt _ => False | _ => True end).
Proof. exact (conj (fun _ => iff_refl _) (conj (fun _ => iff_refl _) (conj (fun _ => iff_refl _) (fun _ => iff_refl _)))). Qed.
Print Assumptions C09_avl_defs.

(* a refused insert hands back the very same state; it is refused exactly
   for a present key or a full tree *)
Theorem C09_avl_insert_refused_same : forall bits s t fr term k v s' log,
  Inv bits s t fr term -> okbits bits ->
  insert bits s k v = Ok (s', None, log) -> s' = s.
Proof. exact insert_refused_same. Qed.
Print Assumptions C09_avl_insert_refused_same.

Theorem C09_avl_insert_refused_iff : forall bits s t fr term k v,
  Inv bits s t fr term -> okbits bits ->
  (t_find t k <> None \/ is_full s = true <->
   insert bits s k v = Ok (s, None, t_log t k)).
Proof. exact insert_refused_iff. Qed.
Print Assumptions C09_avl_insert_refused_iff.

(* removing an absent key *)
Theorem C09_avl_remove_absent_same : forall bits, remove_spec_statement bits ->
  forall s t fr term k s' log,
  Inv bits s t fr term -> okbits bits ->
  remove bits s k = Ok (s', None, log) -> s' = s.
Proof. exact remove_absent_same. Qed.
Print Assumptions C09_avl_remove_absent_same.

(* the premise discharged (Avl/FinalMaster.v) *)
Theorem C09_avl_remove_absent_same_final : forall bits s t fr term k s' log,
  Inv bits s t fr term -> okbits bits ->
  remove bits s k = Ok (s', None, log) -> s' = s.
Proof. exact remove_absent_same_final. Qed.
Print Assumptions C09_avl_remove_absent_same_final.

Theorem C09_avl_remove_absent_iff : forall bits, remove_spec_statement bits ->
  forall s t fr term k,
  Inv bits s t fr term -> okbits bits ->
  (t_find t k = None <-> remove bits s k = Ok (s, None, t_log t k)).
Proof. exact remove_absent_iff. Qed.
Print Assumptions C09_avl_remove_absent_iff.

Theorem C09_avl_remove_absent_iff_final : forall bits s t fr term k,
  Inv bits s t fr term -> okbits bits ->
  (t_find t k = None <-> remove bits s k = Ok (s, None, t_log t k)).
Proof. exact remove_absent_iff_final. Qed.
Print Assumptions C09_avl_remove_absent_iff_final.

(* get_mut of an absent key *)
Theorem C09_avl_get_mut_absent_same : forall bits s t fr term k v' s' log,
  Inv bits s t fr term -> get_mut_set s k v' = Ok (s', None, log) -> s' = s.
Proof. exact get_mut_absent_same. Qed.
Print Assumptions C09_avl_get_mut_absent_same.

(* the queries: no invariant needed *)
Theorem C09_avl_query_same : forall bits s o s' x log,
  ro_op o -> step_c bits s o = Ok (s', x, log) -> s' = s.
Proof. exact ro_step_same. Qed.
Print Assumptions C09_avl_query_same.

(* every quiet step, from every state of the invariant with no growth
   pending: the very same state, hence the very same bytes in every layout *)
Theorem C09_avl_refused_unchanged : forall bits, remove_spec_statement bits ->
  forall s t fr term o s' x log,
  Inv bits s t fr term -> okbits bits -> settled s ->
  step_c bits s o = Ok (s', x, log) -> quiet o x -> s' = s.
Proof. exact quiet_step_same. Qed.
Print Assumptions C09_avl_refused_unchanged.

(* the premise discharged (Avl/FinalMaster.v) *)
Theorem C09_avl_refused_unchanged_final : forall bits s t fr term o s' x log,
  Inv bits s t fr term -> okbits bits -> settled s ->
  step_c bits s o = Ok (s', x, log) -> quiet o x -> s' = s.
Proof. exact quiet_step_same_final. Qed.
Print Assumptions C09_avl_refused_unchanged_final.

Theorem C09_avl_refused_bytes : forall bits, remove_spec_statement bits ->
  forall wb lay s t fr term o s' x log,
  Inv bits s t fr term -> okbits bits -> settled s ->
  step_c bits s o = Ok (s', x, log) -> quiet o x ->
  encode wb lay s' = encode wb lay s.
Proof. exact quiet_step_bytes. Qed.
Print Assumptions C09_avl_refused_bytes.

Theorem C09_avl_refused_bytes_final : forall bits wb lay s t fr term o s' x log,
  Inv bits s t fr term -> okbits bits -> settled s ->
  step_c bits s o = Ok (s', x, log) -> quiet o x ->
  encode wb lay s' = encode wb lay s.
Proof. exact quiet_step_bytes_final. Qed.
Print Assumptions C09_avl_refused_bytes_final.

(* the same for every operation but remove, with no premise *)
Theorem C09_avl_refused_unchanged_noremove : forall bits s t fr term o s' x log,
  Inv bits s t fr term -> okbits bits -> settled s -> not_remove o ->
  step_c bits s o = Ok (s', x, log) -> quiet o x -> s' = s.
Proof. exact quiet_step_same_noremove. Qed.
Print Assumptions C09_avl_refused_unchanged_noremove.

Theorem C09_avl_refused_bytes_noremove : forall bits wb lay s t fr term o s' x log,
  Inv bits s t fr term -> okbits bits -> settled s -> not_remove o ->
  step_c bits s o = Ok (s', x, log) -> quiet o x ->
  encode wb lay s' = encode wb lay s.
Proof. exact quiet_step_bytes_noremove. Qed.
Print Assumptions C09_avl_refused_bytes_noremove.

(* in every state reachable on a buffer of fixed size *)
Theorem C09_avl_refused_unchanged_reachable : forall bits, remove_spec_statement bits ->
  forall capacity ops s o s' x log,
  okbits bits -> capacity < 2 ^ bits -> (bits <> 8 -> capacity + 1 < 2 ^ bits) ->
  Forall no_ext ops -> final_c bits (init_c capacity capacity) ops = Ok s ->
  step_c bits s o = Ok (s', x, log) -> quiet o x -> s' = s.
Proof. exact quiet_step_same_reachable. Qed.
Print Assumptions C09_avl_refused_unchanged_reachable.

(* the premise discharged (Avl/FinalMaster.v) *)
Theorem C09_avl_refused_unchanged_reachable_final : forall bits capacity ops s o s' x log,
  okbits bits -> capacity < 2 ^ bits -> (bits <> 8 -> capacity + 1 < 2 ^ bits) ->
  Forall no_ext ops -> final_c bits (init_c capacity capacity) ops = Ok s ->
  step_c bits s o = Ok (s', x, log) -> quiet o x -> s' = s.
Proof. exact quiet_step_same_reachable_final. Qed.
Print Assumptions C09_avl_refused_unchanged_reachable_final.

(* non-vacuity: a tree with a recycled slot (a rotation and a removal
   behind it); a duplicate insert, an absent remove, an absent get_mut and
   every query answer and hand back the very same state; after one more
   insertion the tree is full and refuses a fresh key; both widths *)
Example C09_avl_example :
  let h0 := [OInsert 50 500; OInsert 30 300; OInsert 70 700; OInsert 20 200; ORemove 30]%Z in
  let qs := [OInsert 50 999; ORemove 30; OGetMut 31 5; OGetMut0 70; OGet 20; OContains 60; OLowest;
             OLen; OIsEmpty; OIsFull; OCapacity; OOpenRo; OOpenMut]%Z in
  (exists s, final_c 8 (init_c 4 4) h0 = Ok s /\ size s = 3 /\ flh s = 2 /\ seq s = 5 /\
     Forall (fun o => exists x log, step_c 8 s o = Ok (s, x, log) /\ quiet o x) qs /\
     exists f, final_c 8 s [OInsert 60 600%Z] = Ok f /\ is_full f = true /\
       exists log, step_c 8 f (OInsert 80 800%Z) = Ok (f, RSlot None, log)) /\
  (exists s, final_c 32 (init_c 4 4) h0 = Ok s /\
     Forall (fun o => exists x log, step_c 32 s o = Ok (s, x, log) /\ quiet o x) qs).
Proof.
  cbv zeta. split.
  - eexists. split; [vm_compute; reflexivity|]. split; [reflexivity|]. split; [reflexivity|].
    split; [reflexivity|]. split.
    + repeat constructor; eexists; eexists; (split; [vm_compute; reflexivity|exact I]).
    + eexists. split; [vm_compute; reflexivity|]. split; [reflexivity|].
      eexists. vm_compute. reflexivity.
  - eexists. split; [vm_compute; reflexivity|].
    repeat constructor; eexists; eexists; (split; [vm_compute; reflexivity|exact I]).
Qed.

(* the hypotheses of the theorems are satisfiable: a full tree (4 of 4) with
   no growth pending, which refuses a fresh key and a duplicate *)
Example C09_avl_example_inv :
  exists s t fr term,
    final_c 8 (init_c 4 4) [OInsert 50 500; OInsert 30 300; OInsert 40 400; OInsert 60 600]%Z = Ok s /\
    Inv 8 s t fr term /\ okbits 8 /\ settled s /\ is_full s = true /\
    inorder t = [(30, 300); (40, 400); (50, 500); (60, 600)]%Z /\
    (exists log, step_c 8 s (OInsert 70 700%Z) = Ok (s, RSlot None, log)) /\
    (exists log, step_c 8 s (OInsert 40 444%Z) = Ok (s, RSlot None, log)).
Proof.
  destruct (inv_init 8 4) as [Hi Ha]; [reflexivity|congruence|].
  destruct (final_inv_noremove 8 [OInsert 50 500; OInsert 30 300; OInsert 40 400; OInsert 60 600]%Z
              (init_c 4 4) E [] 1 Hi (or_introl eq_refl) (init_sizecond 8 4))
    as (s & t & fr & term & Hf & H & Hsc & Habs).
  - repeat constructor.
  - apply growth_ok_weak, growth_ok_no_ext. repeat constructor.
  - exists s, t, fr, term. split; [exact Hf|]. split; [exact H|]. split; [left; reflexivity|].
    assert (Hio : inorder t = [(30, 300); (40, 400); (50, 500); (60, 600)]%Z).
    { change (inorder t) with (sents (abs_of s t)). rewrite Habs, Ha. vm_compute. reflexivity. }
    vm_compute in Hf. injection Hf as <-.
    split; [vm_compute; discriminate|]. split; [reflexivity|]. split; [exact Hio|].
    split; eexists; vm_compute; reflexivity.
Qed.

(* ------------------------------------------------------------------ *)
(* Explicit handles (Avl/Session.v): a mutable view that stays open across operations, opened anew
   only after the buffer was extended or a view was requested; includes trees initialised with a
   capacity smaller than the record count of their buffer and used through the same handle. *)
From Stevia Require Import Avl.Session Avl.SessionFacts.
Open Scope N_scope.
Theorem C09_session_refused_same_state :
  forall (bits : N) (s : st) (t : itree) (fr : list N) (term : N) (o : op) (x' : sess) (y : out) (log : list Z),
    Inv bits s t fr term -> LinkInsert.okbits bits ->
    step_sess bits (mkSess s true) o = Ok (x', y, log) ->
    quiet o y -> o <> OOpenMut -> c_st x' = s.
Proof. exact sess_refused_same_state. Qed.
Print Assumptions C09_session_refused_same_state.

Theorem C09_session_refused_same_bytes :
  forall (bits : N) (wb : nat) (lay : layout) (s : st) (t : itree) (fr : list N) (term : N) (o : op) (x' : sess) (y : out) (log : list Z),
    Inv bits s t fr term -> LinkInsert.okbits bits ->
    step_sess bits (mkSess s true) o = Ok (x', y, log) ->
    quiet o y -> o <> OOpenMut -> encode wb lay (c_st x') = encode wb lay s.
Proof. exact sess_refused_same_bytes. Qed.
Print Assumptions C09_session_refused_same_bytes.

Theorem C09_session_refused_same_reachable :
  forall (bits capacity nrec : N) (keep : bool) (ops : list op) (x : sess) (o : op) (x' : sess) (y : out) (log : list Z),
    LinkInsert.okbits bits -> capacity <= nrec -> nrec + 1 < 2 ^ bits ->
    growth_okw_sess bits (spec_init_sess capacity nrec keep) ops ->
    final_sess bits (init_sess capacity nrec keep) ops = Ok x -> c_live x = true ->
    step_sess bits x o = Ok (x', y, log) -> quiet o y -> o <> OOpenMut ->
    c_st x' = c_st x /\ cap (c_st x') = cap (c_st x).
Proof. exact sess_refused_same_reachable. Qed.
Print Assumptions C09_session_refused_same_reachable.

(* non-vacuity: a tree of capacity 2 in a buffer of 4 records refuses the third key through the handle
   that initialised it and stays Leibniz-equal; see SessionFacts.sess_full_refusal_same_state *)
Example C09_session_example := sess_full_refusal_same_state.
