(* C02 - the chained hash set is a capacity-bounded set, however the values
   collide (every theorem is for an ARBITRARY hash function [hash64]).
   Theorems only; each is closed by [exact] of a lemma proved elsewhere. *)
From Coq Require Import List NArith ZArith Bool Permutation.
From Stevia Require Import Base.Res Hash.Impl Hash.Spec Hash.ZSet Hash.Mem Hash.Inv Hash.Refine Hash.HashProps Hash.SpecLaws Hash.IterLaws.
Import ListNotations.
Open Scope N_scope.

(* every history from the empty set agrees with the bounded-set specification:
   no panic, no fuel exhaustion, same answers *)
Theorem C02_refines_bounded_set : forall (hash64 : Z -> N) cap ops, cap + 1 < 2 ^ 32 ->
  hrun_c hash64 (hinit_c cap cap) ops = map Ok (hrun_s (mkHSS cap []) ops).
Proof. exact hset_refines_bounded_set. Qed.
Print Assumptions C02_refines_bounded_set.

Theorem C02_init : forall (hash64 : Z -> N) cap, cap + 1 < 4294967296 -> hinv hash64 (hinit_c cap cap).
Proof. exact hinv_init_c. Qed.
Print Assumptions C02_init.

(* one step from any state satisfying the invariant *)
Theorem C02_step : forall (hash64 : Z -> N) s o, hinv hash64 s ->
  exists s' out, hstep_c hash64 s o = Ok (s', out) /\ hinv hash64 s' /\
    (mkHSS (hcap s') (habs s'), out) = hspec_step (mkHSS (hcap s) (habs s)) o.
Proof. exact hstep_refines. Qed.
Print Assumptions C02_step.

(* iterating yields every member exactly once and nothing else *)
Theorem C02_iteration_exact : forall (hash64 : Z -> N) s, hinv hash64 s ->
  exists l, hiter s = Ok l /\ NoDup l /\ (forall x, In x l <-> In x (habs s)) /\
            Permutation l (habs s) /\ zs_sort l = habs s /\
            N.of_nat (length l) = hsize s.
Proof. exact hiter_exact. Qed.
Print Assumptions C02_iteration_exact.

(* remove removes that value and only that value *)
Theorem C02_remove_only_that_value : forall (hash64 : Z -> N) s v, hinv hash64 s ->
  exists s' b, hremove hash64 s v = Ok (s', b) /\ hinv hash64 s' /\
    b = zs_mem (habs s) v /\
    hcontains hash64 s' v = Ok false /\
    (forall w, w <> v -> hcontains hash64 s' w = hcontains hash64 s w) /\
    (forall w, In w (habs s') <-> In w (habs s) /\ w <> v).
Proof. exact hremove_only_that_value. Qed.
Print Assumptions C02_remove_only_that_value.

(* insert: refused iff present or full, otherwise adds exactly that value *)
Theorem C02_insert : forall (hash64 : Z -> N) s v, hinv hash64 s ->
  exists s' b, hinsert hash64 s v = Ok (s', b) /\ hinv hash64 s' /\ hcap s' = hcap s /\
    b = negb (zs_mem (habs s) v || (hcap s <=? hsize s)) /\
    (b = false -> s' = s) /\
    (b = true -> habs s' = zs_insert (habs s) v /\ hsize s' = hsize s + 1).
Proof. exact hinsert_spec. Qed.
Print Assumptions C02_insert.

(* the abstraction is canonical: a strictly sorted duplicate-free list whose
   length is the size word *)
Theorem C02_abs_canonical : forall (hash64 : Z -> N) s, hinv hash64 s ->
  ssorted (habs s) /\ NoDup (habs s) /\ N.of_nat (length (habs s)) = hsize s /\ hsize s <= hcap s.
Proof. exact habs_canonical. Qed.
Print Assumptions C02_abs_canonical.

(* capacity 0 is a legal set that refuses every insert and contains nothing *)
Theorem C02_cap_zero : forall (hash64 : Z -> N), let s := hinit_c 0 0 in
  hinv hash64 s /\ (forall v, hinsert hash64 s v = Ok (s, false)) /\
  (forall v, hremove hash64 s v = Ok (s, false)) /\
  (forall v, hcontains hash64 s v = Ok false) /\ hiter s = Ok [] /\
  his_full s = true /\ his_empty s = true.
Proof. exact hash_cap_zero. Qed.
Print Assumptions C02_cap_zero.

(* all values collide into one bucket: the answers are still those of a set *)
Example C02_all_collide :
  hrun_c (fun _ => 0) (hinit_c 3 3)
    [HInsert 5; HInsert 7; HInsert 5; HInsert 9; HInsert 11; HContains 7; HRemove 7; HIter;
     HInsert 11; HIter; HSize; HIsFull; HRemove 5; HRemove 11; HRemove 9; HIsEmpty; HIter]%Z
  = map Ok
    [HBool true; HBool true; HBool false; HBool true; HBool false; HBool true; HBool true;
     HList [5; 9]; HBool true; HList [5; 9; 11]; HNum 3; HBool true;
     HBool true; HBool true; HBool true; HBool true; HList []]%Z.
Proof. vm_compute. reflexivity. Qed.

(* the invariant is satisfiable by a non-trivial state: three colliding members,
   one slot released to the free list *)
Example C02_inv_nontrivial :
  exists s, hexec (fun _ => 0) (hinit_c 4 4) [HInsert 5; HInsert 7; HInsert 9; HInsert 2; HRemove 7]%Z = Ok s /\
    hinv (fun _ => 0) s /\ habs s = [2; 5; 9]%Z /\ hflh s = 2 /\ hseq s = 5.
Proof.
  eexists. split; [vm_compute; reflexivity|]. split.
  - apply (hinv_reachable (fun _ => 0) 4 [HInsert 5; HInsert 7; HInsert 9; HInsert 2; HRemove 7]%Z).
    + reflexivity.
    + vm_compute. reflexivity.
  - vm_compute. auto.
Qed.

(* the specification the refinement theorem refers to is itself a finite set: over a strictly sorted member list,
   membership after an insertion or removal changes for the touched value only, inserting a member and removing a
   non-member change nothing, the size moves by exactly one, the list stays strictly sorted *)
Theorem C02_spec_is_a_set : forall m, ssorted m ->
  (forall v, zs_mem m v = true <-> In v m) /\
  (forall v, ssorted (zs_insert m v) /\ (forall x, In x (zs_insert m v) <-> x = v \/ In x m) /\
     (zs_mem m v = true -> zs_insert m v = m) /\
     (zs_mem m v = false -> length (zs_insert m v) = S (length m))) /\
  (forall v, ssorted (zs_remove m v) /\ (forall x, In x (zs_remove m v) <-> In x m /\ x <> v) /\
     (zs_mem m v = false -> zs_remove m v = m) /\
     (zs_mem m v = true -> S (length (zs_remove m v)) = length m)).
Proof. exact bounded_set_laws. Qed.
Print Assumptions C02_spec_is_a_set.

(* [zset_laws m] is literally the conclusion above *)
Theorem C02_zset_laws_def : forall m, zset_laws m <->
  (forall v, zs_mem m v = true <-> In v m) /\
  (forall v, ssorted (zs_insert m v) /\ (forall x, In x (zs_insert m v) <-> x = v \/ In x m) /\
     (zs_mem m v = true -> zs_insert m v = m) /\
     (zs_mem m v = false -> length (zs_insert m v) = S (length m))) /\
  (forall v, ssorted (zs_remove m v) /\ (forall x, In x (zs_remove m v) <-> In x m /\ x <> v) /\
     (zs_mem m v = false -> zs_remove m v = m) /\
     (zs_mem m v = true -> S (length (zs_remove m v)) = length m)).
Proof. exact (fun m => conj (fun H => H) (fun H => H)). Qed.
Print Assumptions C02_zset_laws_def.

(* in every state satisfying the invariant (hence every reachable state, C02_init + C02_step) the members obey them,
   for an arbitrary hash function *)
Theorem C02_members_are_a_set : forall (hash64 : Z -> N) s, hinv hash64 s ->
  ssorted (habs s) /\ zset_laws (habs s).
Proof. exact hinv_set_laws. Qed.
Print Assumptions C02_members_are_a_set.

(* insert makes that value, and only that value, a member: after an accepted insert [contains] answers true for it and
   for every other value what it answered before, and the size grew by one; a refused insert returns the same state *)
Theorem C02_insert_then_contains : forall (hash64 : Z -> N) s v, hinv hash64 s ->
  exists s' b, hinsert hash64 s v = Ok (s', b) /\ hinv hash64 s' /\
    b = negb (zs_mem (habs s) v || (hcap s <=? hsize s)) /\
    (b = true -> hcontains hash64 s' v = Ok true /\
                 (forall w, w <> v -> hcontains hash64 s' w = hcontains hash64 s w) /\
                 hsize s' = hsize s + 1) /\
    (b = false -> s' = s).
Proof. exact hinsert_then_contains. Qed.
Print Assumptions C02_insert_then_contains.

(* iteration after a mutation: the iterator of the state after an accepted insert yields the old members plus exactly
   the new value, after a successful remove the old members minus exactly that value - each once (as multisets: the
   order is the bucket order and is not part of the contract), for an arbitrary hash function *)
Theorem C02_iteration_after_insert : forall (hash64 : Z -> N) s v s', hinv hash64 s ->
  hinsert hash64 s v = Ok (s', true) ->
  exists l l', hiter s = Ok l /\ hiter s' = Ok l' /\ NoDup l' /\ Permutation l' (v :: l) /\ ~ In v l.
Proof. exact hiter_after_insert. Qed.
Print Assumptions C02_iteration_after_insert.

Theorem C02_iteration_after_remove : forall (hash64 : Z -> N) s v s', hinv hash64 s ->
  hremove hash64 s v = Ok (s', true) ->
  exists l l', hiter s = Ok l /\ hiter s' = Ok l' /\ NoDup l' /\ Permutation l (v :: l') /\ ~ In v l'.
Proof. exact hiter_after_remove. Qed.
Print Assumptions C02_iteration_after_remove.

Example C02_zset_laws_example :
  let m := [3; 5; 9]%Z in
  ssorted m /\ zs_insert m 4%Z = [3; 4; 5; 9]%Z /\ zs_insert m 5%Z = m /\
  zs_remove m 5%Z = [3; 9]%Z /\ zs_remove m 4%Z = m /\ zs_mem m 9%Z = true /\ zs_mem m 4%Z = false.
Proof. exact zset_laws_example. Qed.
