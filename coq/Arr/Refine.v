(* The array-set operations against the sorted-set specification: every
   operation is total on well-formed states, keeps the invariant, refines the
   specification step, never touches the memory around the slots and does
   not depend on it. *)
From Coq Require Import List NArith ZArith Bool Arith Lia Sorted.
From Stevia Require Import Base.Res Arr.Impl Arr.Spec Arr.Search.
Import ListNotations.
Open Scope N_scope.

Arguments N.add : simpl never.
Arguments N.sub : simpl never.
Arguments N.mul : simpl never.
Arguments N.div : simpl never.
Arguments N.eqb : simpl never.
Arguments N.ltb : simpl never.
Arguments N.leb : simpl never.
Arguments N.min : simpl never.
Arguments N.pow : simpl never.
Arguments N.log2 : simpl never.
Arguments Z.ltb : simpl never.
Arguments Z.eqb : simpl never.

(* ------------------------------------------------------------------ *)
(* the unchecked copy on a memory split around the moved block         *)

Lemma ptr_copy_up (P l2 : list cell) r Q :
  ptr_copy (P ++ l2 ++ r :: Q) (length P) (length P + 1) (length l2)
  = Ok (P ++ firstn 1 (l2 ++ [r]) ++ l2 ++ Q).
Proof.
  unfold ptr_copy.
  assert (C : ((length P + length l2 <=? length (P ++ l2 ++ r :: Q)) &&
               (length P + 1 + length l2 <=? length (P ++ l2 ++ r :: Q)))%nat = true).
  { apply andb_true_intro; split; apply Nat.leb_le; rewrite !app_length; cbn [length]; lia. }
  rewrite C. f_equal.
  rewrite firstn_len_add_app, skipn_len_app, firstn_len_app.
  replace (length P + 1 + length l2)%nat with (length P + (length l2 + 1))%nat by lia.
  rewrite !skipn_len_add_app. cbn [skipn]. rewrite <- app_assoc.
  destruct l2; reflexivity.
Qed.

Lemma ptr_copy_down (P l2 : list cell) x Q :
  ptr_copy (P ++ x :: l2 ++ Q) (length P + 1) (length P) (length l2)
  = Ok (P ++ l2 ++ skipn (length l2) (x :: l2) ++ Q).
Proof.
  unfold ptr_copy.
  assert (C : ((length P + 1 + length l2 <=? length (P ++ x :: l2 ++ Q)) &&
               (length P + length l2 <=? length (P ++ x :: l2 ++ Q)))%nat = true).
  { apply andb_true_intro; split; apply Nat.leb_le; rewrite !app_length; cbn [length]; rewrite app_length; lia. }
  rewrite C. f_equal.
  rewrite <- (Nat.add_0_r (length P)) at 1. rewrite firstn_len_add_app. cbn [firstn]. rewrite app_nil_r.
  rewrite !skipn_len_add_app. cbn [skipn]. rewrite firstn_len_app.
  change (x :: l2 ++ Q) with ((x :: l2) ++ Q). rewrite skipn_app.
  replace (length l2 - length (x :: l2))%nat with 0%nat by (cbn [length]; lia).
  reflexivity.
Qed.

Ltac len := repeat (progress (rewrite ?app_length; cbn [length])); try lia.

Lemma of_mem_slots s sl' : length sl' = length (aslots s) ->
  of_mem s (apre s ++ sl' ++ apost s) = mkA (apre s) sl' (apost s) (alen s).
Proof.
  intros H. unfold of_mem. rewrite <- H.
  rewrite firstn_len_app, skipn_len_app, firstn_len_app.
  rewrite skipn_len_add_app, skipn_len_app. reflexivity.
Qed.

Lemma set_nth_app {A} (l1 : list A) y T v : set_nth (l1 ++ y :: T) (length l1) v = l1 ++ v :: T.
Proof. induction l1 as [|a l1 IH]; cbn [app length set_nth]; [reflexivity | now rewrite IH]. Qed.

Lemma copy_up_mem s l1 l2 r R : aslots s = l1 ++ l2 ++ r :: R ->
  ptr_copy (amem s) (length (apre s) + length l1) (length (apre s) + length l1 + 1) (length l2)
  = Ok (apre s ++ (l1 ++ firstn 1 (l2 ++ [r]) ++ l2 ++ R) ++ apost s).
Proof.
  intros H. unfold amem. rewrite H. rewrite <- app_length.
  replace (apre s ++ (l1 ++ l2 ++ r :: R) ++ apost s) with ((apre s ++ l1) ++ l2 ++ r :: (R ++ apost s))
    by (rewrite <- ?app_assoc, <- ?app_comm_cons; reflexivity).
  rewrite ptr_copy_up. f_equal. rewrite <- ?app_assoc. reflexivity.
Qed.

Lemma copy_down_mem s l1 x l2 R : aslots s = l1 ++ x :: l2 ++ R ->
  ptr_copy (amem s) (length (apre s) + length l1 + 1) (length (apre s) + length l1) (length l2)
  = Ok (apre s ++ (l1 ++ l2 ++ skipn (length l2) (x :: l2) ++ R) ++ apost s).
Proof.
  intros H. unfold amem. rewrite H. rewrite <- app_length.
  replace (apre s ++ (l1 ++ x :: l2 ++ R) ++ apost s) with ((apre s ++ l1) ++ x :: l2 ++ (R ++ apost s))
    by (rewrite <- ?app_assoc, <- ?app_comm_cons, <- ?app_assoc; reflexivity).
  rewrite ptr_copy_down. f_equal. rewrite <- ?app_assoc. reflexivity.
Qed.

Lemma firstn1_single (l2 : list cell) r : exists y, firstn 1 (l2 ++ [r]) = [y].
Proof. destruct l2 as [|y l2]; cbn [app firstn]; eauto. Qed.

Lemma skipn_last_single (l2 : list cell) x : exists z, skipn (length l2) (x :: l2) = [z].
Proof.
  revert x; induction l2 as [|y l2 IH]; intros x; cbn [length skipn]; [eauto|]. apply IH.
Qed.

Lemma firstn_eq_app {A} (a b : list A) n : n = length a -> firstn n (a ++ b) = a.
Proof. intros ->. apply firstn_len_app. Qed.

Section Prefix.
Variable pbytes : N.
Notation pmax := (pmax pbytes).
Notation ainv := (ainv pbytes).
Notation ainv_core := (ainv_core pbytes).

Lemma pmax_pos : 0 < pmax.
Proof. unfold Impl.pmax. apply N.neq_0_lt_0. apply N.pow_nonzero. discriminate. Qed.

(* ------------------------------------------------------------------ *)
(* explicit results of the three writers, given the search result      *)

Lemma ainsert_absent s v l1 l2 r R f c :
  aslots s = l1 ++ l2 ++ r :: R -> N.to_nat (alen s) = (length l1 + length l2)%nat ->
  alen s + 1 < pmax ->
  aindex s v = Ok (f, Some (N.of_nat (length l1)), c) ->
  ainsert pbytes s v = Ok (mkA (apre s) (l1 ++ v :: l2 ++ R) (apost s) (alen s + 1), true).
Proof.
  intros Hsl Hn Hmax Hidx. unfold ainsert, ais_full.
  assert (Hlen : length (aslots s) = (length l1 + length l2 + 1 + length R)%nat).
  { rewrite Hsl. len. }
  destruct (N.eqb_spec (alen s) (N.of_nat (length (aslots s)))) as [E|_]; [lia|].
  destruct (N.leb_spec pmax (alen s + 1)) as [E|_]; [lia|].
  cbn [orb]. rewrite Hidx. cbn [bind].
  destruct (N.leb_spec (N.of_nat (length l1)) (alen s)) as [_|E]; [|lia].
  cbn [bind]. rewrite Nat2N.id.
  replace (N.to_nat (alen s - N.of_nat (length l1))) with (length l2) by lia.
  rewrite (copy_up_mem s l1 l2 r R Hsl). cbn [bind].
  destruct (firstn1_single l2 r) as [y Hy]. rewrite Hy.
  rewrite of_mem_slots by (rewrite Hlen; len).
  unfold aset. cbn [aslots]. rewrite Nat2N.id.
  destruct (Nat.ltb_spec (length l1) (length (l1 ++ [y] ++ l2 ++ R))) as [_|E].
  2:{ exfalso. revert E. len. }
  cbn [bind]. unfold with_slots. cbn [aslots apre apost alen app].
  rewrite set_nth_app. unfold cinc. cbn [alen].
  destruct (N.ltb_spec (alen s + 1) pmax) as [_|E]; [|lia].
  cbn [bind]. unfold with_alen. cbn [aslots apre apost alen]. reflexivity.
Qed.

Lemma aget_at s l1 x T : aslots s = l1 ++ x :: T -> aget s (N.of_nat (length l1)) = Ok x.
Proof.
  intros H. unfold aget. rewrite Nat2N.id, H, nth_error_app2 by lia. rewrite Nat.sub_diag. reflexivity.
Qed.

Lemma atake_absent s v g c : aindex s v = Ok (None, g, c) -> atake s v = Ok (s, None).
Proof. intros H. unfold atake. destruct (ais_empty s); [reflexivity|]. rewrite H. reflexivity. Qed.

Lemma atake_found s v l1 x l2 R g c :
  aslots s = l1 ++ x :: l2 ++ R -> N.to_nat (alen s) = (length l1 + 1 + length l2)%nat ->
  aindex s v = Ok (Some (N.of_nat (length l1)), g, c) ->
  atake s v = Ok (mkA (apre s) (l1 ++ l2 ++ skipn (length l2) (x :: l2) ++ R) (apost s) (alen s - 1), Some x).
Proof.
  intros Hsl Hn Hidx. unfold atake, ais_empty.
  destruct (N.eqb_spec (alen s) 0) as [E|_]; [lia|].
  rewrite Hidx. cbn [bind]. rewrite (aget_at s l1 x (l2 ++ R) Hsl). cbn [bind].
  unfold cdec at 1. destruct (N.leb_spec 1 (alen s)) as [_|E]; [|lia]. cbn [bind].
  destruct (N.ltb_spec (N.of_nat (length l1)) (alen s - 1)) as [Hlt|Hge].
  - rewrite Nat2N.id.
    replace (N.to_nat (alen s - N.of_nat (length l1) - 1)) with (length l2) by lia.
    rewrite (copy_down_mem s l1 x l2 R Hsl). cbn [bind].
    rewrite of_mem_slots.
    2:{ destruct (skipn_last_single l2 x) as [z Hz]. rewrite Hz, Hsl. len. }
    unfold cdec. cbn [alen]. destruct (N.leb_spec 1 (alen s)) as [_|E]; [|lia].
    cbn [bind]. unfold with_alen. cbn [aslots apre apost alen]. reflexivity.
  - assert (El : l2 = []) by (destruct l2; [reflexivity | cbn [length] in Hn; lia]).
    subst l2. cbn [bind]. unfold cdec. destruct (N.leb_spec 1 (alen s)) as [_|E]; [|lia].
    cbn [bind length skipn app]. unfold with_alen. rewrite Hsl. reflexivity.
Qed.

Lemma aget_mut_absent s v new g c : aindex s v = Ok (None, g, c) -> aget_mut_set s v new = Ok (s, None).
Proof. intros H. unfold aget_mut_set. rewrite H. reflexivity. Qed.

Lemma aget_mut_found s v new l1 x T g c :
  aslots s = l1 ++ x :: T -> aindex s v = Ok (Some (N.of_nat (length l1)), g, c) ->
  aget_mut_set s v new = Ok (mkA (apre s) (l1 ++ new :: T) (apost s) (alen s), Some x).
Proof.
  intros Hsl Hidx. unfold aget_mut_set. rewrite Hidx. cbn [bind].
  rewrite (aget_at s l1 x T Hsl). cbn [bind]. unfold aset. rewrite Nat2N.id.
  destruct (Nat.ltb_spec (length l1) (length (aslots s))) as [_|E].
  2:{ exfalso. revert E. rewrite Hsl. len. }
  cbn [bind]. unfold with_slots. rewrite Hsl, set_nth_app. reflexivity.
Qed.

(* ------------------------------------------------------------------ *)
(* fullness                                                            *)

Lemma ais_full_spec s : ainv s ->
  ais_full pbytes s = (as_bound pbytes (abs_st s) <=? as_len (abs_st s)).
Proof.
  intros [Hl [Hm Hs]]. unfold ais_full, as_bound, as_len, abs_st. cbn [asbound_slots asmem].
  rewrite (aabs_length s Hl). rewrite N2Nat.id. pose proof pmax_pos as Hp.
  destruct (N.eqb_spec (alen s) (N.of_nat (length (aslots s)))) as [E|E];
  destruct (N.leb_spec pmax (alen s + 1)) as [E2|E2];
  destruct (N.leb_spec (N.min (N.of_nat (length (aslots s))) (pmax - 1)) (alen s)) as [E3|E3];
  cbn [orb]; try reflexivity; lia.
Qed.

(* ------------------------------------------------------------------ *)
(* the step characterisation                                           *)

(* AGetMut may only write a value of the same order class *)
Definition aop_ok (o : aop) : Prop :=
  match o with AGetMut c new => fst new = fst c | _ => True end.

(* refused updates and queries *)
Definition aquiet (o : aop) (out : aout) : Prop :=
  match o, out with
  | AInsert _, ABool false | ARemove _, ABool false | ATake _, ACell None | AGetMut _ _, ACell None => True
  | AGet _, _ | AContains _, _ | ALen, _ | AIsFull, _ | AIsEmpty, _ | ADeref, _ => True
  | _, _ => False
  end.

Definition abs_core (sl : list cell) (n : N) : asst :=
  mkAS (N.of_nat (length sl)) (firstn (N.to_nat n) sl).

Lemma ainv_view s : ainv s ->
  exists R, aslots s = aabs s ++ R /\ length (aabs s) = N.to_nat (alen s) /\ asc (aabs s) /\ alen s < pmax.
Proof.
  intros [Hl [Hm Hs]]. exists (skipn (N.to_nat (alen s)) (aslots s)).
  split; [apply aslots_split|]. split; [apply aabs_length; exact Hl|]. split; [exact Hs | exact Hm].
Qed.

Definition step_char (s : ast) (o : aop) (sl' : list cell) (n' : N) (out : aout) (c : N) : Prop :=
  (forall s2, aslots s2 = aslots s -> alen s2 = alen s ->
     astep_c pbytes s2 o = Ok (mkA (apre s2) sl' (apost s2) n', out, c)) /\
  ainv_core sl' n' /\
  (abs_core sl' n', out) = aspec_step pbytes (abs_st s) o /\
  (aquiet o out -> sl' = aslots s /\ n' = alen s) /\
  c <= lookup_bound (alen s).

Lemma rebuild s2 s : aslots s2 = aslots s -> alen s2 = alen s ->
  s2 = mkA (apre s2) (aslots s) (apost s2) (alen s).
Proof. intros <- <-. destruct s2; reflexivity. Qed.

Lemma abs_core_st s : abs_core (aslots s) (alen s) = abs_st s.
Proof. reflexivity. Qed.

Lemma step_char_query s o out c : ainv s ->
  (forall s2, aslots s2 = aslots s -> alen s2 = alen s -> astep_c pbytes s2 o = Ok (s2, out, c)) ->
  (abs_st s, out) = aspec_step pbytes (abs_st s) o ->
  c <= lookup_bound (alen s) ->
  step_char s o (aslots s) (alen s) out c.
Proof.
  intros Hinv Hrun Hspec Hc. split; [|split; [exact Hinv | split; [exact Hspec | split; [auto | exact Hc]]]].
  intros s2 E1 E2. rewrite (Hrun s2 E1 E2). rewrite (rebuild s2 s E1 E2) at 1. reflexivity.
Qed.

Lemma lookup_bound_0 n : 0 <= lookup_bound n.
Proof. lia. Qed.

Lemma ainv_frame s2 s : aslots s2 = aslots s -> alen s2 = alen s -> ainv s -> ainv s2.
Proof. unfold Search.ainv. intros -> ->. auto. Qed.

Lemma aget_val_frame s2 s v : aslots s2 = aslots s -> alen s2 = alen s -> aget_val s2 v = aget_val s v.
Proof.
  intros E1 E2. unfold aget_val, aget. rewrite (aindex_frame s2 s v E1 E2), E1. reflexivity.
Qed.

Lemma take_char s (v : cell) l1 x l2 R : ainv s ->
  aslots s = l1 ++ x :: l2 ++ R -> aabs s = l1 ++ x :: l2 -> below (fst v) l1 -> fst x = fst v ->
  ainv_core (l1 ++ l2 ++ skipn (length l2) (x :: l2) ++ R) (alen s - 1) /\
  abs_core (l1 ++ l2 ++ skipn (length l2) (x :: l2) ++ R) (alen s - 1)
    = mkAS (N.of_nat (length (aslots s))) (as_remove (aabs s) (fst v)) /\
  as_find (aabs s) (fst v) = Some x.
Proof.
  intros Hinv Hsl Ha Hb Hx. pose proof Hinv as [Hl [Hm Hs]].
  pose proof (aabs_length s Hl) as Hlen. rewrite Ha in Hlen. revert Hlen. len. intros Hlen.
  destruct (skipn_last_single l2 x) as [z Hz]. rewrite Hz.
  assert (Habs : firstn (N.to_nat (alen s - 1)) (l1 ++ l2 ++ [z] ++ R) = l1 ++ l2).
  { replace (l1 ++ l2 ++ [z] ++ R) with ((l1 ++ l2) ++ [z] ++ R) by (rewrite <- app_assoc; reflexivity).
    apply firstn_eq_app. len. }
  split; [|split].
  - split; [|split; [lia|]].
    + rewrite Hsl in Hl. revert Hl. len.
    + rewrite Habs. apply (asc_remove l1 x l2). rewrite <- Ha. exact Hs.
  - unfold abs_core. rewrite Habs, Ha, as_remove_found by auto. f_equal. rewrite Hsl. len.
  - rewrite Ha. apply as_find_found; auto.
Qed.

Theorem astep_char s o : ainv s -> aop_ok o -> exists sl' n' out c, step_char s o sl' n' out c.
Proof.
  intros Hinv Hok.
  destruct (ainv_view s Hinv) as [R [Hsl [Hlen [Hasc Hmax]]]].
  pose proof Hinv as [Hl _].
  destruct o as [v|v|v|v|v new|v| | | | |n].
  - (* AInsert *)
    destruct (aindex_split pbytes s v Hinv) as [f [g [c [Hr [Hp Hc]]]]].
    destruct (ais_full pbytes s) eqn:Hfull.
    + exists (aslots s), (alen s), (ABool false), 0. apply step_char_query; auto; [| |apply lookup_bound_0].
      * intros s2 E1 E2. cbn [astep_c]. unfold ainsert.
        replace (ais_full pbytes s2) with true by (rewrite <- Hfull; unfold ais_full; rewrite E1, E2; reflexivity).
        reflexivity.
      * cbn [aspec_step]. rewrite <- (ais_full_spec s Hinv), Hfull.
        destruct (as_find (asmem (abs_st s)) (fst v)); reflexivity.
    + destruct Hp as [l1 x l2 Ha Hx Hb Hab | l1 l2 Ha Hb Hab].
      * exists (aslots s), (alen s), (ABool false), 0. apply step_char_query; auto; [| |apply lookup_bound_0].
        -- intros s2 E1 E2. cbn [astep_c]. unfold ainsert.
           replace (ais_full pbytes s2) with false by (rewrite <- Hfull; unfold ais_full; rewrite E1, E2; reflexivity).
           rewrite (aindex_frame s2 s v E1 E2), Hr. reflexivity.
        -- cbn [aspec_step abs_st asmem]. rewrite Ha, as_find_found; auto.
      * (* the real insertion *)
        pose proof Hfull as Hfull'. unfold ais_full in Hfull'.
        apply orb_false_elim in Hfull'. destruct Hfull' as [Hf1 Hf2].
        apply N.eqb_neq in Hf1. apply N.leb_gt in Hf2.
        rewrite Ha in Hsl, Hlen. rewrite app_length in Hlen.
        destruct R as [|r R].
        { exfalso. apply Hf1. rewrite Hsl, app_nil_r, app_length. lia. }
        rewrite <- app_assoc in Hsl.
        exists (l1 ++ v :: l2 ++ R), (alen s + 1), (ABool true), 0.
        assert (Habs : firstn (N.to_nat (alen s + 1)) (l1 ++ v :: l2 ++ R) = l1 ++ v :: l2).
        { change (l1 ++ v :: l2 ++ R) with (l1 ++ (v :: l2) ++ R). rewrite app_assoc.
          apply firstn_eq_app. rewrite app_length. cbn [length]. lia. }
        split; [|split; [|split; [|split]]].
        -- intros s2 E1 E2. cbn [astep_c].
           rewrite (ainsert_absent s2 v l1 l2 r R None c); [rewrite E2; reflexivity | | | |].
           ++ rewrite E1; exact Hsl.
           ++ rewrite E2; lia.
           ++ rewrite E2; exact Hf2.
           ++ rewrite (aindex_frame s2 s v E1 E2). exact Hr.
        -- split; [|split; [exact Hf2|]].
           ++ len.
           ++ rewrite Habs. apply asc_insert; auto. rewrite <- Ha. exact Hasc.
        -- unfold abs_core. rewrite Habs. cbn [aspec_step abs_st asmem asbound_slots].
           rewrite Ha, as_find_absent by auto.
           rewrite <- (ais_full_spec s Hinv), Hfull.
           rewrite as_insert_absent by auto. f_equal. f_equal.
           rewrite Hsl. len.
        -- intros [].
        -- apply lookup_bound_0.
  - (* ARemove *)
    destruct (aindex_split pbytes s v Hinv) as [f [g [c [Hr [Hp Hc]]]]].
    destruct Hp as [l1 x l2 Ha Hx Hb Hab | l1 l2 Ha Hb Hab].
    + rewrite Ha in Hsl. rewrite <- app_assoc, <- app_comm_cons in Hsl.
      destruct (take_char s v l1 x l2 R Hinv Hsl Ha Hb Hx) as [T1 [T2 T3]].
      eexists _, _, (ABool true), 0. split; [|split; [exact T1 | split; [|split]]].
      * intros s2 E1 E2. cbn [astep_c]. unfold aremove.
        rewrite (atake_found s2 v l1 x l2 R None c); [rewrite E2; reflexivity | | |].
        -- rewrite E1; exact Hsl.
        -- rewrite E2, <- Hlen, Ha. len.
        -- rewrite (aindex_frame s2 s v E1 E2). exact Hr.
      * rewrite T2. cbn [aspec_step abs_st asmem asbound_slots]. rewrite T3. reflexivity.
      * intros [].
      * apply lookup_bound_0.
    + exists (aslots s), (alen s), (ABool false), 0. apply step_char_query; auto; [| |apply lookup_bound_0].
      * intros s2 E1 E2. cbn [astep_c]. unfold aremove.
        rewrite (atake_absent s2 v (Some (N.of_nat (length l1))) c); [reflexivity|].
        rewrite (aindex_frame s2 s v E1 E2). exact Hr.
      * unfold abs_st. cbn [aspec_step asmem asbound_slots].
        rewrite Ha, as_find_absent, as_remove_absent by auto. reflexivity.
  - (* ATake *)
    destruct (aindex_split pbytes s v Hinv) as [f [g [c [Hr [Hp Hc]]]]].
    destruct Hp as [l1 x l2 Ha Hx Hb Hab | l1 l2 Ha Hb Hab].
    + rewrite Ha in Hsl. rewrite <- app_assoc, <- app_comm_cons in Hsl.
      destruct (take_char s v l1 x l2 R Hinv Hsl Ha Hb Hx) as [T1 [T2 T3]].
      eexists _, _, (ACell (Some x)), 0. split; [|split; [exact T1 | split; [|split]]].
      * intros s2 E1 E2. cbn [astep_c].
        rewrite (atake_found s2 v l1 x l2 R None c); [rewrite E2; reflexivity | | |].
        -- rewrite E1; exact Hsl.
        -- rewrite E2, <- Hlen, Ha. len.
        -- rewrite (aindex_frame s2 s v E1 E2). exact Hr.
      * rewrite T2. cbn [aspec_step abs_st asmem asbound_slots]. rewrite T3. reflexivity.
      * intros [].
      * apply lookup_bound_0.
    + exists (aslots s), (alen s), (ACell None), 0. apply step_char_query; auto; [| |apply lookup_bound_0].
      * intros s2 E1 E2. cbn [astep_c].
        rewrite (atake_absent s2 v (Some (N.of_nat (length l1))) c); [reflexivity|].
        rewrite (aindex_frame s2 s v E1 E2). exact Hr.
      * unfold abs_st. cbn [aspec_step asmem asbound_slots].
        rewrite Ha, as_find_absent, as_remove_absent by auto. reflexivity.
  - (* AGet *)
    destruct (aget_val_correct pbytes s v Hinv) as [c [Hr Hc]].
    exists (aslots s), (alen s), (ACell (as_find (aabs s) (fst v))), c. apply step_char_query; auto.
    intros s2 E1 E2. cbn [astep_c]. rewrite (aget_val_frame s2 s v E1 E2), Hr. reflexivity.
  - (* AGetMut *)
    cbn [aop_ok] in Hok.
    destruct (aindex_split pbytes s v Hinv) as [f [g [c [Hr [Hp Hc]]]]].
    destruct Hp as [l1 x l2 Ha Hx Hb Hab | l1 l2 Ha Hb Hab].
    + rewrite Ha in Hsl. rewrite <- app_assoc, <- app_comm_cons in Hsl.
      assert (Habs : firstn (N.to_nat (alen s)) (l1 ++ new :: l2 ++ R) = l1 ++ new :: l2).
      { change (l1 ++ new :: l2 ++ R) with (l1 ++ (new :: l2) ++ R). rewrite app_assoc.
        apply firstn_eq_app. rewrite <- Hlen, Ha. len. }
      exists (l1 ++ new :: l2 ++ R), (alen s), (ACell (Some x)), 0.
      split; [|split; [|split; [|split]]].
      * intros s2 E1 E2. cbn [astep_c].
        rewrite (aget_mut_found s2 v new l1 x (l2 ++ R) None c); [rewrite E2; reflexivity | |].
        -- rewrite E1; exact Hsl.
        -- rewrite (aindex_frame s2 s v E1 E2). exact Hr.
      * split; [|split; [exact Hmax|]].
        -- rewrite Hsl in Hl. revert Hl. len.
        -- rewrite Habs. apply (asc_update l1 x new l2); [rewrite <- Ha; exact Hasc | congruence].
      * unfold abs_core. rewrite Habs. unfold abs_st. cbn [aspec_step asmem asbound_slots].
        rewrite Ha, as_find_found, as_update_found by auto. f_equal. f_equal. rewrite Hsl. len.
      * intros [].
      * apply lookup_bound_0.
    + exists (aslots s), (alen s), (ACell None), 0. apply step_char_query; auto; [| |apply lookup_bound_0].
      * intros s2 E1 E2. cbn [astep_c].
        rewrite (aget_mut_absent s2 v new (Some (N.of_nat (length l1))) c); [reflexivity|].
        rewrite (aindex_frame s2 s v E1 E2). exact Hr.
      * unfold abs_st. cbn [aspec_step asmem asbound_slots].
        rewrite Ha, as_find_absent, as_update_absent by auto. reflexivity.
  - (* AContains *)
    destruct (acontains_correct pbytes s v Hinv) as [c [Hr Hc]].
    eexists (aslots s), (alen s), (ABool _), c. apply step_char_query; auto.
    + intros s2 E1 E2. cbn [astep_c]. unfold acontains. rewrite (aget_val_frame s2 s v E1 E2).
      unfold acontains in Hr. rewrite Hr. reflexivity.
    + reflexivity.
  - (* ALen *)
    exists (aslots s), (alen s), (ANum (alen s)), 0. apply step_char_query; auto; [| |apply lookup_bound_0].
    + intros s2 E1 E2. cbn [astep_c]. unfold alength. rewrite E2. reflexivity.
    + cbn [aspec_step]. unfold as_len, abs_st. cbn [asmem]. rewrite Hlen, N2Nat.id. reflexivity.
  - (* AIsFull *)
    exists (aslots s), (alen s), (ABool (ais_full pbytes s)), 0.
    apply step_char_query; auto; [| |apply lookup_bound_0].
    + intros s2 E1 E2. cbn [astep_c]. unfold ais_full. rewrite E1, E2. reflexivity.
    + cbn [aspec_step]. rewrite (ais_full_spec s Hinv). reflexivity.
  - (* AIsEmpty *)
    exists (aslots s), (alen s), (ABool (ais_empty s)), 0.
    apply step_char_query; auto; [| |apply lookup_bound_0].
    + intros s2 E1 E2. cbn [astep_c]. unfold ais_empty. rewrite E2. reflexivity.
    + cbn [aspec_step]. unfold as_len, abs_st, ais_empty. cbn [asmem]. rewrite Hlen, N2Nat.id. reflexivity.
  - (* ADeref *)
    exists (aslots s), (alen s), (AList (aabs s)), 0.
    apply step_char_query; auto; [|apply lookup_bound_0].
    intros s2 E1 E2. cbn [astep_c]. unfold aderef. rewrite E1, E2.
    destruct (Nat.leb_spec (N.to_nat (alen s)) (length (aslots s))) as [_|E]; [reflexivity | lia].
  - (* AExt *)
    exists (aslots s ++ repeat cell0 (N.to_nat n)), (alen s), AUnit, 0.
    assert (Habs : firstn (N.to_nat (alen s)) (aslots s ++ repeat cell0 (N.to_nat n)) = aabs s).
    { apply firstn_le_app. exact Hl. }
    split; [|split; [|split; [|split]]].
    + intros s2 E1 E2. cbn [astep_c]. rewrite E1, E2. reflexivity.
    + split; [|split; [exact Hmax|]].
      * rewrite app_length. lia.
      * rewrite Habs. exact Hasc.
    + unfold abs_core. rewrite Habs. unfold abs_st. cbn [aspec_step asmem asbound_slots].
      f_equal. f_equal. rewrite app_length, repeat_length. lia.
    + intros [].
    + apply lookup_bound_0.
Qed.

(* ------------------------------------------------------------------ *)
(* item 4: one step                                                    *)

Lemma ast_eta s : mkA (apre s) (aslots s) (apost s) (alen s) = s.
Proof. destruct s; reflexivity. Qed.

Theorem astep_refines s o : ainv s -> aop_ok o ->
  exists s' out c, astep_c pbytes s o = Ok (s', out, c) /\ ainv s' /\
    (abs_st s', out) = aspec_step pbytes (abs_st s) o.
Proof.
  intros Hinv Hok. destruct (astep_char s o Hinv Hok) as [sl' [n' [out [c [Hrun [Hi [Hsp _]]]]]]].
  exists (mkA (apre s) sl' (apost s) n'), out, c.
  split; [apply Hrun; reflexivity|]. split; [exact Hi | exact Hsp].
Qed.

(* no operation panics or runs out of fuel on a well-formed state *)
Theorem astep_total s o : ainv s -> aop_ok o -> exists r, astep_c pbytes s o = Ok r.
Proof.
  intros Hinv Hok. destruct (astep_refines s o Hinv Hok) as [s' [out [c [H _]]]]. eauto.
Qed.

(* functional form *)
Corollary astep_sound s o s' out c : ainv s -> aop_ok o -> astep_c pbytes s o = Ok (s', out, c) ->
  ainv s' /\ (abs_st s', out) = aspec_step pbytes (abs_st s) o.
Proof.
  intros Hinv Hok Hr. destruct (astep_refines s o Hinv Hok) as [s1 [out1 [c1 [H [Hi Hs]]]]].
  rewrite Hr in H. injection H as -> -> ->. auto.
Qed.

(* ------------------------------------------------------------------ *)
(* item 6: frame and non-interference                                  *)

Theorem astep_frame s o : ainv s -> aop_ok o ->
  exists s' out c, astep_c pbytes s o = Ok (s', out, c) /\
    apre s' = apre s /\ apost s' = apost s /\
    forall pre' post',
      astep_c pbytes (mkA pre' (aslots s) post' (alen s)) o = Ok (mkA pre' (aslots s') post' (alen s'), out, c).
Proof.
  intros Hinv Hok. destruct (astep_char s o Hinv Hok) as [sl' [n' [out [c [Hrun _]]]]].
  exists (mkA (apre s) sl' (apost s) n'), out, c.
  split; [apply Hrun; reflexivity|]. split; [reflexivity|]. split; [reflexivity|].
  intros pre' post'. apply (Hrun (mkA pre' (aslots s) post' (alen s))); reflexivity.
Qed.

(* ------------------------------------------------------------------ *)
(* item 7: refused updates and queries return the very same state      *)

Theorem astep_quiet s o s' out c : ainv s -> aop_ok o ->
  astep_c pbytes s o = Ok (s', out, c) -> aquiet o out -> s' = s.
Proof.
  intros Hinv Hok Hr Hq.
  destruct (astep_char s o Hinv Hok) as [sl' [n' [out1 [c1 [Hrun [_ [_ [Hqq _]]]]]]]].
  rewrite (Hrun s eq_refl eq_refl) in Hr. injection Hr as <- <- <-.
  destruct (Hqq Hq) as [-> ->]. apply ast_eta.
Qed.

(* ------------------------------------------------------------------ *)
(* item 2 at the level of operations                                   *)

Theorem astep_cost s o s' out c : ainv s -> aop_ok o ->
  astep_c pbytes s o = Ok (s', out, c) ->
  (alen s = 0 -> c = 0) /\ (1 <= alen s -> c <= N.log2 (alen s) + 1).
Proof.
  intros Hinv Hok Hr.
  destruct (astep_char s o Hinv Hok) as [sl' [n' [out1 [c1 [Hrun [_ [_ [_ Hc]]]]]]]].
  rewrite (Hrun s eq_refl eq_refl) in Hr. injection Hr as <- <- <-.
  unfold lookup_bound in Hc. destruct (N.eqb_spec (alen s) 0); split; intros; lia.
Qed.

(* ------------------------------------------------------------------ *)
(* AExt                                                                *)

Theorem aext_grow s n : ainv s ->
  exists s', astep_c pbytes s (AExt n) = Ok (s', AUnit, 0) /\ ainv s' /\
    aabs s' = aabs s /\ alen s' = alen s /\
    asbound_slots (abs_st s') = asbound_slots (abs_st s) + n /\
    apre s' = apre s /\ apost s' = apost s.
Proof.
  intros Hinv. destruct (astep_refines s (AExt n) Hinv I) as [s' [out [c [Hr [Hi Hs]]]]].
  cbn [astep_c] in Hr. injection Hr as <- <- <-.
  eexists. split; [reflexivity|]. split; [exact Hi|].
  cbn [aspec_step] in Hs. injection Hs as H1 H2.
  split; [exact H2|]. split; [reflexivity|]. split; [|split; reflexivity].
  cbn [abs_st asbound_slots aslots]. exact H1.
Qed.

(* ------------------------------------------------------------------ *)
(* item 5: histories                                                   *)

Lemma arun_refines : forall ops s, ainv s -> Forall aop_ok ops ->
  arun_c pbytes s ops = map Ok (arun_s pbytes (abs_st s) ops).
Proof.
  induction ops as [|o ops IH]; intros s Hinv Hok; [reflexivity|].
  inversion Hok as [|o' ops' Ho Hops]; subst.
  destruct (astep_refines s o Hinv Ho) as [s' [out [c [Hr [Hi Hs]]]]].
  cbn [arun_c arun_s]. rewrite Hr, <- Hs. cbn [map]. rewrite (IH s' Hi Hops). reflexivity.
Qed.

End Prefix.

Section Init.
Variable pbytes : N.

Lemma ainit_inv pre post nslots : ainv pbytes (ainit_c pre post nslots).
Proof.
  unfold ainv, ainv_core, ainit_c. cbn [aslots alen]. split; [cbn; lia|]. split; [apply pmax_pos|].
  cbn [N.to_nat firstn]. constructor.
Qed.

Lemma ainit_abs pre post nslots : abs_st (ainit_c pre post nslots) = mkAS nslots [].
Proof.
  unfold abs_st, aabs, ainit_c. cbn [aslots alen N.to_nat firstn]. rewrite repeat_length, N2Nat.id. reflexivity.
Qed.

Theorem arun_refines_init pre post nslots ops : Forall aop_ok ops ->
  arun_c pbytes (ainit_c pre post nslots) ops = map Ok (arun_s pbytes (mkAS nslots []) ops).
Proof.
  intros Hok. rewrite (arun_refines pbytes ops _ (ainit_inv pre post nslots) Hok), ainit_abs. reflexivity.
Qed.

(* states reachable from an initial state by permitted operations *)
Inductive areach (s0 : ast) : ast -> Prop :=
| areach_init : areach s0 s0
| areach_step s o s' out c :
    areach s0 s -> aop_ok o -> astep_c pbytes s o = Ok (s', out, c) -> areach s0 s'.

Lemma areach_inv s0 s : ainv pbytes s0 -> areach s0 s ->
  ainv pbytes s /\ apre s = apre s0 /\ apost s = apost s0.
Proof.
  intros H0. induction 1 as [|s o s' out c Hreach IH Hok Hr]; [auto|].
  destruct IH as [Hi [Hp Hq]].
  split; [exact (proj1 (astep_sound pbytes s o s' out c Hi Hok Hr))|].
  destruct (astep_frame pbytes s o Hi Hok) as [s1 [out1 [c1 [Hr1 [Hp1 [Hq1 _]]]]]].
  rewrite Hr in Hr1. injection Hr1 as <- <- <-. split; congruence.
Qed.

Lemma ainv_deref s : ainv pbytes s -> aderef s = Ok (aabs s) /\ asc (aabs s).
Proof.
  intros [Hl [Hm Hs]]. split; [|exact Hs]. unfold aderef.
  destruct (Nat.leb_spec (N.to_nat (alen s)) (length (aslots s))) as [_|E]; [reflexivity | lia].
Qed.

Theorem areach_slice_view pre post nslots s : areach (ainit_c pre post nslots) s ->
  aderef s = Ok (aabs s) /\ asc (aabs s) /\ apre s = pre /\ apost s = post.
Proof.
  intros Hr. destruct (areach_inv _ s (ainit_inv pre post nslots) Hr) as [Hi [Hp Hq]].
  destruct (ainv_deref s Hi) as [Hd Ha]. auto.
Qed.

(* ------------------------------------------------------------------ *)
(* item 8: the zero buffer                                             *)

Theorem ainit_reads_empty pre post nslots :
  let s := ainit_c pre post nslots in
  ainv pbytes s /\
  astep_c pbytes s ALen = Ok (s, ANum 0, 0) /\
  astep_c pbytes s AIsEmpty = Ok (s, ABool true, 0) /\
  (forall v, astep_c pbytes s (AGet v) = Ok (s, ACell None, 0)) /\
  (forall v, astep_c pbytes s (AContains v) = Ok (s, ABool false, 0)) /\
  astep_c pbytes s ADeref = Ok (s, AList [], 0).
Proof.
  cbv zeta. split; [apply ainit_inv|]. repeat split.
Qed.

End Init.

(* ------------------------------------------------------------------ *)
(* concrete witnesses                                                  *)

(* a reachable, non-trivial state (one-byte prefix, four slots, canary cells
   around the buffer; the slot after the members still holds a stale copy) *)
Lemma areach_example :
  let s := mkA [(7, 7)%Z] [(3, 30); (9, 90); (9, 90); (0, 0)]%Z [(8, 8)%Z] 2 in
  areach 1 (ainit_c [(7, 7)%Z] [(8, 8)%Z] 4) s /\ ainv 1 s /\ aindex s (5, 0)%Z = Ok (None, Some 1, 2).
Proof.
  cbv zeta.
  assert (R : areach 1 (ainit_c [(7, 7)%Z] [(8, 8)%Z] 4)
                (mkA [(7, 7)%Z] [(3, 30); (9, 90); (9, 90); (0, 0)]%Z [(8, 8)%Z] 2)).
  { apply (areach_step 1 _ (mkA [(7, 7)%Z] [(3, 30); (5, 50); (9, 90); (0, 0)]%Z [(8, 8)%Z] 3)
             (ATake (5, 0)%Z) _ (ACell (Some (5, 50)%Z)) 0); [|exact I|reflexivity].
    apply (areach_step 1 _ (mkA [(7, 7)%Z] [(3, 30); (5, 50); (0, 0); (0, 0)]%Z [(8, 8)%Z] 2)
             (AInsert (9, 90)%Z) _ (ABool true) 0); [|exact I|reflexivity].
    apply (areach_step 1 _ (mkA [(7, 7)%Z] [(5, 50); (0, 0); (0, 0); (0, 0)]%Z [(8, 8)%Z] 1)
             (AInsert (3, 30)%Z) _ (ABool true) 0); [|exact I|reflexivity].
    apply (areach_step 1 _ (ainit_c [(7, 7)%Z] [(8, 8)%Z] 4)
             (AInsert (5, 50)%Z) _ (ABool true) 0); [|exact I|reflexivity].
    apply areach_init. }
  split; [exact R|]. split; [|reflexivity].
  exact (proj1 (areach_inv 1 _ _ (ainit_inv 1 _ _ _) R)).
Qed.

(* the documented logic error: a write through get_mut that changes the key
   leaves the slice view unsorted (so [aop_ok] is needed) *)
Example getmut_key_change_breaks_order :
  let s := mkA [] [(3, 30); (9, 90)]%Z [] 2 in
  ainv 1 s /\
  exists s', astep_c 1 s (AGetMut (3, 0) (10, 0))%Z = Ok (s', ACell (Some (3, 30)%Z), 0) /\
             aabs s' = [(10, 0); (9, 90)]%Z /\ ~ ainv 1 s'.
Proof.
  cbv zeta. split.
  - split; [cbn; lia|]. split; [reflexivity|]. cbn. repeat constructor.
  - eexists. split; [reflexivity|]. split; [reflexivity|].
    intros [_ [_ H]]. cbn in H. inversion H as [|a l Hs Hf]; subst.
    inversion Hf as [|a l Hlt Hr]; subst. unfold clt in Hlt. cbn in Hlt. lia.
Qed.
