(* Layer S for the array sets: a bounded, strictly ascending (by key) list of
   cells, and the shared operation language. *)
From Coq Require Import List NArith ZArith Bool.
From Stevia Require Import Base.Res Arr.Impl.
Import ListNotations.
Open Scope N_scope.

Inductive aop :=
| AInsert (c : cell) | ARemove (c : cell) | ATake (c : cell) | AGet (c : cell)
| AGetMut (c new : cell)   (* get_mut, then write `new` (same key) through the reference *)
| AContains (c : cell) | ALen | AIsFull | AIsEmpty | ADeref
| AExt (n : N).            (* extend the buffer by n zero-filled slots *)

Inductive aout :=
| ABool (b : bool) | ANum (n : N) | ACell (o : option cell) | AList (l : list cell) | AUnit.

Fixpoint as_find (m : list cell) (k : Z) : option cell :=
  match m with [] => None | c :: r => if (k =? fst c)%Z then Some c else as_find r k end.
Fixpoint as_insert (m : list cell) (c : cell) : list cell :=
  match m with
  | [] => [c]
  | x :: r => if (fst c <? fst x)%Z then c :: m
              else if (fst c =? fst x)%Z then m else x :: as_insert r c
  end.
Fixpoint as_remove (m : list cell) (k : Z) : list cell :=
  match m with [] => [] | x :: r => if (k =? fst x)%Z then r else x :: as_remove r k end.
Fixpoint as_update (m : list cell) (k : Z) (new : cell) : list cell :=
  match m with [] => [] | x :: r => if (k =? fst x)%Z then new :: r else x :: as_update r k new end.

Record asst := mkAS { asbound_slots : N; asmem : list cell }.
Definition as_len (s : asst) : N := N.of_nat (length (asmem s)).

Section P.
Variable pbytes : N.
(* the largest count the format can record *)
Definition as_bound (s : asst) : N := N.min (asbound_slots s) (pmax pbytes - 1).

Definition aspec_step (s : asst) (o : aop) : asst * aout :=
  match o with
  | AInsert c =>
    match as_find (asmem s) (fst c) with
    | Some _ => (s, ABool false)
    | None => if as_bound s <=? as_len s then (s, ABool false)
              else (mkAS (asbound_slots s) (as_insert (asmem s) c), ABool true)
    end
  | ARemove c =>
    (mkAS (asbound_slots s) (as_remove (asmem s) (fst c)),
     ABool (match as_find (asmem s) (fst c) with Some _ => true | None => false end))
  | ATake c => (mkAS (asbound_slots s) (as_remove (asmem s) (fst c)), ACell (as_find (asmem s) (fst c)))
  | AGet c => (s, ACell (as_find (asmem s) (fst c)))
  | AGetMut c new =>
    (mkAS (asbound_slots s) (as_update (asmem s) (fst c) new), ACell (as_find (asmem s) (fst c)))
  | AContains c => (s, ABool (match as_find (asmem s) (fst c) with Some _ => true | None => false end))
  | ALen => (s, ANum (as_len s))
  | AIsFull => (s, ABool (as_bound s <=? as_len s))
  | AIsEmpty => (s, ABool (as_len s =? 0))
  | ADeref => (s, AList (asmem s))
  | AExt n => (mkAS (asbound_slots s + n) (asmem s), AUnit)
  end.

Definition astep_c (s : ast) (o : aop) : res (ast * aout * N) :=
  match o with
  | AInsert c => '(s', b) <- ainsert pbytes s c ;; Ok (s', ABool b, 0)
  | ARemove c => '(s', b) <- aremove s c ;; Ok (s', ABool b, 0)
  | ATake c => '(s', r) <- atake s c ;; Ok (s', ACell r, 0)
  | AGet c => '(r, n) <- aget_val s c ;; Ok (s, ACell r, n)
  | AGetMut c new => '(s', r) <- aget_mut_set s c new ;; Ok (s', ACell r, 0)
  | AContains c => '(b, n) <- acontains s c ;; Ok (s, ABool b, n)
  | ALen => Ok (s, ANum (alength s), 0)
  | AIsFull => Ok (s, ABool (ais_full pbytes s), 0)
  | AIsEmpty => Ok (s, ABool (ais_empty s), 0)
  | ADeref => l <- aderef s ;; Ok (s, AList l, 0)
  | AExt n => Ok (mkA (apre s) (aslots s ++ repeat cell0 (N.to_nat n)) (apost s) (alen s), AUnit, 0)
  end.

Fixpoint arun_c (s : ast) (ops : list aop) : list (res aout) :=
  match ops with
  | [] => []
  | o :: r =>
    match astep_c s o with
    | Ok (s', x, _) => Ok x :: arun_c s' r
    | Panic p => [Panic p]
    | Fuel => [Fuel]
    end
  end.
End P.

Definition ainit_c (pre post : list cell) (nslots : N) : ast :=
  mkA pre (repeat cell0 (N.to_nat nslots)) post 0.

Fixpoint arun_s (pbytes : N) (s : asst) (ops : list aop) : list aout :=
  match ops with
  | [] => []
  | o :: r => let '(s', x) := aspec_step pbytes s o in x :: arun_s pbytes s' r
  end.
