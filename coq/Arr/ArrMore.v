(* Further named facts about the array sets that the property files C04, C05,
   C09 and C12 cite: flat-memory form of the frame theorem, the upstream-buggy
   copy count as a negative control, run-level totality, histories split at a
   point, independence of a whole history from the guard regions. *)
From Coq Require Import List NArith ZArith Bool Arith Lia.
From Stevia Require Import Base.Res Base.ResMore Arr.Impl Arr.Spec Arr.Search Arr.Refine Arr.ArrProps.
Import ListNotations.
Open Scope N_scope.

Arguments N.add : simpl never.
Arguments N.sub : simpl never.
Arguments N.mul : simpl never.
Arguments N.div : simpl never.
Arguments N.eqb : simpl never.
Arguments N.ltb : simpl never.
Arguments N.leb : simpl never.
Arguments N.min : simpl never.
Arguments N.pow : simpl never.
Arguments Z.ltb : simpl never.
Arguments Z.eqb : simpl never.

(* ------------------------------------------------------------------ *)
(* generic                                                             *)

Lemma nth_error_app_l {A} (a b : list A) i : (i < length a)%nat -> nth_error (a ++ b) i = nth_error a i.
Proof. intros H. apply nth_error_app1. exact H. Qed.

Definition is_ext (o : aop) : bool := match o with AExt _ => true | _ => false end.

Section Prefix.
Variable pbytes : N.

(* ------------------------------------------------------------------ *)
(* C05: the flat memory after a step                                   *)

(* the memory after any step is the old left guard, the new slots, the old
   right guard: every write of [ptr_copy]/[aset] landed inside the slots *)
Theorem arr_mem_frame : forall s o s' out c, ainv pbytes s -> aop_ok o ->
  astep_c pbytes s o = Ok (s', out, c) ->
  amem s' = apre s ++ aslots s' ++ apost s.
Proof.
  intros s o s' out c Hi Hok Hr.
  destruct (arr_frame pbytes s o Hi Hok) as [s1 [out1 [c1 [Hr1 [Hp [Hq _]]]]]].
  rewrite Hr in Hr1. injection Hr1 as <- <- <-.
  unfold amem. rewrite Hp, Hq. reflexivity.
Qed.

(* the number of slots changes only when the caller extends the buffer *)
Lemma arr_slots_length : forall s o s' out c, ainv pbytes s -> aop_ok o ->
  astep_c pbytes s o = Ok (s', out, c) -> is_ext o = false ->
  length (aslots s') = length (aslots s).
Proof.
  intros s o s' out c Hi Hok Hr Hne.
  destruct (arr_step_sound pbytes s o s' out c Hi Hok Hr) as [_ Hs].
  assert (E : asbound_slots (fst (abs_st s', out)) = asbound_slots (abs_st s)).
  { rewrite Hs. destruct o; cbn [is_ext] in Hne; try discriminate; cbn [aspec_step];
      repeat match goal with |- context [match ?x with _ => _ end] => destruct x end; reflexivity. }
  cbn [fst abs_st asbound_slots] in E. lia.
Qed.

(* cell-wise: every flat-memory cell at an address outside
   [length apre, length apre + length aslots) is what it was *)
Theorem arr_writes_within_slots : forall s o s' out c, ainv pbytes s -> aop_ok o ->
  astep_c pbytes s o = Ok (s', out, c) -> is_ext o = false ->
  length (amem s') = length (amem s) /\
  forall a, (a < length (apre s) \/ length (apre s) + length (aslots s) <= a)%nat ->
    nth_error (amem s') a = nth_error (amem s) a.
Proof.
  intros s o s' out c Hi Hok Hr Hne.
  pose proof (arr_mem_frame s o s' out c Hi Hok Hr) as Hm.
  pose proof (arr_slots_length s o s' out c Hi Hok Hr Hne) as Hl.
  rewrite Hm. unfold amem. split.
  - rewrite !app_length, Hl. reflexivity.
  - intros a [Ha|Ha].
    + rewrite !nth_error_app_l by exact Ha. reflexivity.
    + rewrite !(nth_error_app2 (apre s)) by lia.
      rewrite !nth_error_app2 by lia. rewrite Hl. reflexivity.
Qed.

(* ------------------------------------------------------------------ *)
(* the executed state of a history                                     *)

Fixpoint aexec (s : ast) (ops : list aop) : res ast :=
  match ops with
  | [] => Ok s
  | o :: r => '(s', _, _) <- astep_c pbytes s o ;; aexec s' r
  end.

Lemma aexec_ok : forall ops s, ainv pbytes s -> Forall aop_ok ops ->
  exists s', aexec s ops = Ok s' /\ ainv pbytes s' /\ areach pbytes s s' /\
             apre s' = apre s /\ apost s' = apost s.
Proof.
  induction ops as [|o ops IH]; intros s Hi Hok.
  - exists s. split; [reflexivity|]. split; [exact Hi|]. split; [apply areach_init|]. split; reflexivity.
  - inversion Hok as [|o' ops' Ho Hops]; subst.
    destruct (arr_frame pbytes s o Hi Ho) as [s1 [out [c [Hr [Hp [Hq _]]]]]].
    destruct (arr_step_sound pbytes s o s1 out c Hi Ho Hr) as [Hi1 _].
    destruct (IH s1 Hi1 Hops) as [s' [He [Hi' [Hre [Hp' Hq']]]]].
    exists s'. cbn [aexec]. rewrite Hr. cbn [bind]. split; [exact He|]. split; [exact Hi'|].
    split; [|split; congruence].
    clear - Hre Hr Ho. induction Hre as [|sa oa sb outa ca Hra IHa Hoa Hsa].
    + apply (areach_step pbytes s s o s1 out c); [apply areach_init | exact Ho | exact Hr].
    + apply (areach_step pbytes s sa oa sb outa ca); [exact IHa | exact Hoa | exact Hsa].
Qed.

Lemma arun_c_app : forall ops1 ops2 s s1, aexec s ops1 = Ok s1 ->
  arun_c pbytes s (ops1 ++ ops2) = arun_c pbytes s ops1 ++ arun_c pbytes s1 ops2.
Proof.
  induction ops1 as [|o ops1 IH]; intros ops2 s s1 He; cbn [aexec] in He.
  - injection He as <-. reflexivity.
  - apply bind_ok in He. destruct He as [[[s' out] c] [Hr He]]. cbv beta iota in He.
    cbn [app arun_c]. rewrite Hr. rewrite (IH ops2 s' s1 He). reflexivity.
Qed.

(* a whole history does not depend on the guard regions *)
Lemma arun_c_frame : forall ops s pre' post', ainv pbytes s -> Forall aop_ok ops ->
  arun_c pbytes (mkA pre' (aslots s) post' (alen s)) ops = arun_c pbytes s ops.
Proof.
  induction ops as [|o ops IH]; intros s pre' post' Hi Hok; [reflexivity|].
  inversion Hok as [|o' ops' Ho Hops]; subst.
  destruct (arr_frame pbytes s o Hi Ho) as [s1 [out [c [Hr [_ [_ Hf]]]]]].
  destruct (arr_step_sound pbytes s o s1 out c Hi Ho Hr) as [Hi1 _].
  cbn [arun_c]. rewrite Hr, (Hf pre' post'). f_equal. apply IH; assumption.
Qed.

Lemma ainv_guards s pre' post' : ainv pbytes s -> ainv pbytes (mkA pre' (aslots s) post' (alen s)).
Proof. intros H. exact H. Qed.

(* ------------------------------------------------------------------ *)
(* C12: no element of any run is a panic or a fuel exhaustion          *)

Theorem arr_run_total : forall s ops, ainv pbytes s -> Forall aop_ok ops ->
  Forall res_ok (arun_c pbytes s ops) /\ length (arun_c pbytes s ops) = length ops.
Proof.
  intros s ops Hi Hok. rewrite (arun_refines pbytes ops s Hi Hok). split; [apply Forall_map_Ok|].
  rewrite map_length. clear Hi Hok. generalize (abs_st s) as a.
  induction ops as [|o ops IH]; intros a; [reflexivity|].
  cbn [arun_s]. destruct (aspec_step pbytes a o) as [a' x]. cbn [length]. rewrite IH. reflexivity.
Qed.

Theorem arr_run_total_init : forall pre post nslots ops, Forall aop_ok ops ->
  Forall res_ok (arun_c pbytes (ainit_c pre post nslots) ops) /\
  length (arun_c pbytes (ainit_c pre post nslots) ops) = length ops.
Proof. intros pre post nslots ops Hok. apply arr_run_total; [apply ainit_inv | exact Hok]. Qed.

(* the count has reached what the prefix can record: full, whatever the
   number of slots; the next insert is refused, not a panic *)
Theorem arr_prefix_exhausted : forall s, ainv pbytes s -> alen s + 1 = pmax pbytes ->
  ais_full pbytes s = true /\
  forall v, astep_c pbytes s (AInsert v) = Ok (s, ABool false, 0).
Proof.
  intros s _ E.
  assert (F : ais_full pbytes s = true).
  { unfold ais_full. apply orb_true_iff. right. apply N.leb_le. lia. }
  split; [exact F|]. intros v. cbn [astep_c]. unfold ainsert. rewrite F. reflexivity.
Qed.

(* is_full exactly when the bound of the specification is reached *)
Theorem arr_is_full_iff : forall s, ainv pbytes s ->
  (ais_full pbytes s = true <->
   alen s = N.min (N.of_nat (length (aslots s))) (pmax pbytes - 1)).
Proof.
  intros s [Hl [Hm _]]. unfold ais_full. rewrite orb_true_iff, N.eqb_eq, N.leb_le. lia.
Qed.

End Prefix.

(* ------------------------------------------------------------------ *)
(* negative control for C05: the upstream copy count                   *)

(* upstream array_set.rs:221-227 before the repair of D2: the number of cells
   moved is values.len() - index (the slot count), not self.len() - index *)
Definition ainsert_buggy (pbytes : N) (s : ast) (value : cell) : res (ast * bool) :=
  if ais_full pbytes s then Ok (s, false) else
  '(_, g, _) <- aindex s value ;;
  match g with
  | Some index =>
    let off := length (apre s) in
    let i := N.to_nat index in
    let cnt := (length (aslots s) - i)%nat in
    m <- ptr_copy (amem s) (off + i) (off + i + 1) cnt ;;
    let s1 := of_mem s m in
    s2 <- aset s1 index value ;;
    n <- cinc pbytes (alen s2) ;;
    Ok (with_alen s2 n, true)
  | None => Ok (s, false)
  end.

(* four slots, two members, one guard cell on each side: the buggy count
   overwrites the guard cell after the buffer, the repaired one does not *)
Example buggy_count_moves_guard :
  let s := mkA [(7, 7)%Z] [(3, 30); (9, 90); (0, 0); (4, 4)]%Z [(8, 8)%Z] 2 in
  ainv 1 s /\
  ainsert_buggy 1 s (5, 50)%Z
    = Ok (mkA [(7, 7)%Z] [(3, 30); (5, 50); (9, 90); (0, 0)]%Z [(4, 4)%Z] 3, true) /\
  ainsert 1 s (5, 50)%Z
    = Ok (mkA [(7, 7)%Z] [(3, 30); (5, 50); (9, 90); (4, 4)]%Z [(8, 8)%Z] 3, true).
Proof.
  cbv zeta. split; [|split; vm_compute; reflexivity].
  split; [cbn; lia|]. split; [reflexivity|]. cbn. repeat constructor.
Qed.

(* with nothing mapped behind the buffer the buggy copy is an access outside
   every mapped cell *)
Example buggy_count_faults_at_end :
  ainsert_buggy 1 (mkA [] [(3, 30); (9, 90); (0, 0); (0, 0)]%Z [] 2) (5, 50)%Z = Panic POob /\
  exists s', ainsert 1 (mkA [] [(3, 30); (9, 90); (0, 0); (0, 0)]%Z [] 2) (5, 50)%Z = Ok (s', true).
Proof. split; [vm_compute; reflexivity | eexists; vm_compute; reflexivity]. Qed.

(* ------------------------------------------------------------------ *)
(* C12: a slot count larger than a one-byte prefix can count           *)

Definition ins_keys (n : nat) : list aop := map (fun k => AInsert (Z.of_nat k, 0%Z)) (seq 0 n).

Example one_byte_prefix_300_slots :
  arun_c 1 (ainit_c [(7, 7)%Z] [(8, 8)%Z] 300) (ins_keys 255 ++ [AIsFull; AInsert (1000, 0)%Z; ALen; AContains (254, 0)%Z])
  = map Ok (repeat (ABool true) 255 ++ [ABool true; ABool false; ANum 255; ABool true]).
Proof. vm_compute. reflexivity. Qed.

Print Assumptions arr_mem_frame.
Print Assumptions arr_writes_within_slots.
Print Assumptions aexec_ok.
Print Assumptions arun_c_app.
Print Assumptions arun_c_frame.
Print Assumptions arr_run_total.
Print Assumptions arr_run_total_init.
Print Assumptions arr_prefix_exhausted.
Print Assumptions arr_is_full_iff.
