(* Byte format of the array sets: a little-endian count of [pbytes] bytes
   followed by the value slots. A cell is key (ksz bytes) then payload
   (psz bytes; 0 for the scalar value types). *)
From Coq Require Import List NArith ZArith Bool Arith.
From Stevia Require Import Base.Res Base.Bytes Arr.Impl.
Import ListNotations.
Open Scope N_scope.

Record cty := mkCty { ckey : fty; cpay : fty }.

Section Fmt.
Variable pbytes : nat.
Variable ty : cty.

Definition cksz := N.to_nat (fsz (ckey ty)).
Definition cpsz := N.to_nat (fsz (cpay ty)).
Definition cell_len : nat := cksz + cpsz.

Definition enc_cell (c : cell) : list N := z_enc cksz (fst c) ++ z_enc cpsz (snd c).
Definition aencode (s : ast) : list N := le_enc pbytes (alen s) ++ flat_map enc_cell (aslots s).
Definition aencode_mem (s : ast) : list N :=
  flat_map enc_cell (apre s) ++ aencode s ++ flat_map enc_cell (apost s).

Definition dec_cell (bs : list N) : cell :=
  (z_dec (fsigned (ckey ty)) (firstn cksz bs), z_dec (fsigned (cpay ty)) (firstn cpsz (skipn cksz bs))).

Fixpoint dec_cells (cnt : nat) (bs : list N) : list cell :=
  match cnt with
  | O => []
  | S c => dec_cell (firstn cell_len bs) :: dec_cells c (skipn cell_len bs)
  end.

Definition adecode (bs : list N) : option ast :=
  if (length bs <? pbytes)%nat then None else
  let body := skipn pbytes bs in
  if Nat.eqb cell_len 0 then None else
  if negb (Nat.eqb (length body mod cell_len) 0) then None else
  Some (mkA [] (dec_cells (length body / cell_len) body) [] (le_dec (firstn pbytes bs))).

Fixpoint strictly_asc (ks : list Z) : bool :=
  match ks with
  | a :: ((b :: _) as r) => (a <? b)%Z && strictly_asc r
  | _ => true
  end.

(* the independent reader: count, the occupied prefix, well-formedness *)
Definition adecode_doc (bs : list N) : option (N * list cell * bool) :=
  match adecode bs with
  | None => None
  | Some s =>
    let n := N.to_nat (alen s) in
    let mem := firstn n (aslots s) in
    Some (alen s, mem, (n <=? length (aslots s))%nat && strictly_asc (map fst mem))
  end.
End Fmt.
