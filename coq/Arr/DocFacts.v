(* Array sets and their bytes, for C04 and C10: sizes, the little-endian
   count, values that fit their type stay fitting along every history,
   re-opening from the encoded bytes at any point of a history. *)
From Coq Require Import List NArith ZArith Bool Arith Lia.
From Stevia Require Import Base.Res Base.Bytes Base.BytesMore Arr.Impl Arr.Spec Arr.Format Arr.Search Arr.Refine
  Arr.ArrProps Arr.FormatFacts Arr.ArrMore.
Import ListNotations.
Open Scope N_scope.

Arguments N.add : simpl never.
Arguments N.sub : simpl never.
Arguments N.mul : simpl never.
Arguments N.div : simpl never.
Arguments N.eqb : simpl never.
Arguments N.ltb : simpl never.
Arguments N.leb : simpl never.
Arguments N.pow : simpl never.
Arguments Z.add : simpl never.
Arguments Z.sub : simpl never.
Arguments Z.mul : simpl never.
Arguments Z.pow : simpl never.
Arguments Z.ltb : simpl never.
Arguments Z.eqb : simpl never.

(* ------------------------------------------------------------------ *)
(* where the cells of the slots come from (no invariant needed)        *)

Lemma in_firstn {A} (x : A) n : forall l, In x (firstn n l) -> In x l.
Proof.
  induction n as [|n IH]; intros [|a l] H; cbn [firstn] in H; try contradiction.
  destruct H as [->|H]; [left; reflexivity | right; apply IH; exact H].
Qed.

Lemma in_skipn {A} (x : A) n : forall l, In x (skipn n l) -> In x l.
Proof.
  induction n as [|n IH]; intros [|a l] H; cbn [skipn] in H; try contradiction; try exact H.
  right. apply IH. exact H.
Qed.

Lemma in_set_nth {A} (x v : A) : forall l n, In x (set_nth l n v) -> x = v \/ In x l.
Proof.
  induction l as [|a l IH]; intros [|n] H; cbn [set_nth] in H; try contradiction.
  - destruct H as [<-|H]; [left; reflexivity | right; right; exact H].
  - destruct H as [<-|H]; [right; left; reflexivity|].
    destruct (IH n H) as [E|E]; [left; exact E | right; right; exact E].
Qed.

Lemma ptr_copy_in m src dst cnt m' x : ptr_copy m src dst cnt = Ok m' -> In x m' -> In x m.
Proof.
  unfold ptr_copy. destruct (_ && _); [|discriminate]. intros H Hx. injection H as <-.
  apply in_app_or in Hx. destruct Hx as [Hx|Hx]; [exact (in_firstn _ _ _ Hx)|].
  apply in_app_or in Hx. destruct Hx as [Hx|Hx]; [exact (in_skipn _ _ _ (in_firstn _ _ _ Hx))|].
  exact (in_skipn _ _ _ Hx).
Qed.

Lemma of_mem_in s m x : In x (aslots (of_mem s m)) -> In x m.
Proof. unfold of_mem. cbn [aslots]. intros H. exact (in_skipn _ _ _ (in_firstn _ _ _ H)). Qed.

Lemma aset_in s i v s' x : aset s i v = Ok s' -> In x (aslots s') -> x = v \/ In x (aslots s).
Proof.
  unfold aset. destruct (_ <? _)%nat; [|discriminate]. intros H Hx. injection H as <-.
  cbn [with_slots aslots] in Hx. exact (in_set_nth _ _ _ _ Hx).
Qed.

Lemma amem_slots_in s x : In x (aslots s) -> In x (amem s).
Proof. intros H. unfold amem. apply in_or_app. right. apply in_or_app. left. exact H. Qed.

Definition op_cells (o : aop) : list cell :=
  match o with
  | AInsert c => [c]
  | AGetMut _ new => [new]
  | _ => []
  end.

Lemma ainsert_in pbytes s v s' b x : ainsert pbytes s v = Ok (s', b) ->
  In x (aslots s') -> x = v \/ In x (amem s).
Proof.
  unfold ainsert. destruct (ais_full pbytes s).
  { intros H Hx. injection H as <- <-. right. apply amem_slots_in. exact Hx. }
  intros H Hx. apply bind_ok in H. destruct H as [[[f g] c] [_ H]]. cbv beta iota zeta in H.
  destruct g as [index|].
  2:{ injection H as <- <-. right. apply amem_slots_in. exact Hx. }
  apply bind_ok in H. destruct H as [cnt [_ H]].
  apply bind_ok in H. destruct H as [m [Hm H]].
  apply bind_ok in H. destruct H as [s2 [Hs2 H]].
  apply bind_ok in H. destruct H as [n [_ H]]. injection H as <- <-.
  cbn [with_alen aslots] in Hx.
  destruct (aset_in _ _ _ _ _ Hs2 Hx) as [E|E]; [left; exact E|].
  right. apply (ptr_copy_in _ _ _ _ _ _ Hm). apply (of_mem_in s). exact E.
Qed.

Lemma atake_in s v s' r x : atake s v = Ok (s', r) -> In x (aslots s') -> In x (amem s).
Proof.
  unfold atake. destruct (ais_empty s).
  { intros H Hx. injection H as <- <-. apply amem_slots_in. exact Hx. }
  intros H Hx. apply bind_ok in H. destruct H as [[[f g] c] [_ H]]. cbv beta iota zeta in H.
  destruct f as [index|].
  2:{ injection H as <- <-. apply amem_slots_in. exact Hx. }
  apply bind_ok in H. destruct H as [y [_ H]].
  apply bind_ok in H. destruct H as [lm1 [_ H]].
  apply bind_ok in H. destruct H as [s1 [Hs1 H]].
  apply bind_ok in H. destruct H as [n [_ H]]. injection H as <- <-.
  cbn [with_alen aslots] in Hx.
  destruct (index <? lm1).
  - apply bind_ok in Hs1. destruct Hs1 as [m [Hm Hs1]]. injection Hs1 as <-.
    apply (ptr_copy_in _ _ _ _ _ _ Hm). apply (of_mem_in s). exact Hx.
  - injection Hs1 as <-. apply amem_slots_in. exact Hx.
Qed.

Lemma aget_mut_in s v new s' r x : aget_mut_set s v new = Ok (s', r) ->
  In x (aslots s') -> x = new \/ In x (aslots s).
Proof.
  unfold aget_mut_set. intros H Hx. apply bind_ok in H. destruct H as [[[f g] c] [_ H]].
  cbv beta iota zeta in H. destruct f as [i|].
  2:{ injection H as <- <-. right. exact Hx. }
  apply bind_ok in H. destruct H as [y [_ H]].
  apply bind_ok in H. destruct H as [s2 [Hs2 H]]. injection H as <- <-.
  exact (aset_in _ _ _ _ _ Hs2 Hx).
Qed.

(* every cell found in the slots after a step was in the flat memory before,
   or is the argument written by the operation, or is a fresh zero cell *)
Lemma astep_slots_in pbytes s o s' out c x : astep_c pbytes s o = Ok (s', out, c) ->
  In x (aslots s') -> In x (amem s) \/ In x (op_cells o) \/ x = cell0.
Proof.
  destruct o as [v|v|v|v|v new|v| | | | |n]; cbn [astep_c op_cells]; intros H Hx.
  - apply bind_ok in H. destruct H as [[s1 b] [H1 H]]. cbv beta iota in H. injection H as <- <- <-.
    destruct (ainsert_in _ _ _ _ _ _ H1 Hx) as [E|E]; [right; left; left; auto | left; exact E].
  - unfold aremove in H. apply bind_ok in H. destruct H as [[s1 b] [H1 H]]. cbv beta iota in H.
    injection H as <- <- <-. apply bind_ok in H1. destruct H1 as [[s2 r] [H2 H1]]. cbv beta iota in H1.
    injection H1 as <- <-. left. exact (atake_in _ _ _ _ _ H2 Hx).
  - apply bind_ok in H. destruct H as [[s1 r] [H1 H]]. cbv beta iota in H. injection H as <- <- <-.
    left. exact (atake_in _ _ _ _ _ H1 Hx).
  - apply bind_ok in H. destruct H as [[r n] [_ H]]. cbv beta iota in H. injection H as <- <- <-.
    left. apply amem_slots_in. exact Hx.
  - apply bind_ok in H. destruct H as [[s1 r] [H1 H]]. cbv beta iota in H. injection H as <- <- <-.
    destruct (aget_mut_in _ _ _ _ _ _ H1 Hx) as [E|E]; [right; left; left; auto | left; apply amem_slots_in; exact E].
  - apply bind_ok in H. destruct H as [[b n] [_ H]]. cbv beta iota in H. injection H as <- <- <-.
    left. apply amem_slots_in. exact Hx.
  - injection H as <- <- <-. left. apply amem_slots_in. exact Hx.
  - injection H as <- <- <-. left. apply amem_slots_in. exact Hx.
  - injection H as <- <- <-. left. apply amem_slots_in. exact Hx.
  - apply bind_ok in H. destruct H as [l [_ H]]. injection H as <- <- <-.
    left. apply amem_slots_in. exact Hx.
  - injection H as <- <- <-. cbn [aslots] in Hx. apply in_app_or in Hx. destruct Hx as [Hx|Hx].
    + left. apply amem_slots_in. exact Hx.
    + right. right. exact (repeat_spec _ _ _ Hx).
Qed.

Section Fmt.
Variable pb : nat.
Variable ty : cty.
Notation pbytes := (N.of_nat pb).

(* ------------------------------------------------------------------ *)
(* C10: sizes and the count                                            *)

Theorem arr_encode_length s :
  length (aencode pb ty s) = (pb + length (aslots s) * cell_len ty)%nat.
Proof. unfold aencode. rewrite app_length, le_enc_length, flat_enc_length. reflexivity. Qed.

Theorem arr_encode_layout s :
  firstn pb (aencode pb ty s) = le_enc pb (alen s) /\
  skipn pb (aencode pb ty s) = flat_map (enc_cell ty) (aslots s).
Proof.
  unfold aencode. pose proof (le_enc_length pb (alen s)) as Hl. split.
  - rewrite <- Hl at 1. apply firstn_len_app.
  - rewrite <- Hl at 1. apply skipn_len_app.
Qed.

Lemma pmax_of_nat : pmax pbytes = 2 ^ (8 * N.of_nat pb).
Proof. reflexivity. Qed.

Theorem arr_count_little_endian s : ainv pbytes s ->
  le_dec (firstn pb (aencode pb ty s)) = alen s.
Proof.
  intros [_ [Hm _]]. rewrite (proj1 (arr_encode_layout s)). apply le_dec_enc. exact Hm.
Qed.

Lemma skipn_add {A} (a b : nat) (l : list A) : skipn (a + b) l = skipn b (skipn a l).
Proof.
  revert l. induction a as [|a IH]; intros l; [reflexivity|].
  destruct l as [|x l]; [cbn [Nat.add skipn]; rewrite skipn_nil; reflexivity|].
  cbn [Nat.add skipn]. apply IH.
Qed.

(* record i of the buffer is the encoding of slot i *)
Theorem arr_record_at s i c : nth_error (aslots s) i = Some c ->
  firstn (cell_len ty) (skipn (pb + i * cell_len ty) (aencode pb ty s)) = enc_cell ty c.
Proof.
  intros H. rewrite skipn_add, (proj2 (arr_encode_layout s)).
  apply nth_error_split in H. destruct H as [l1 [l2 [E Hl]]]. rewrite E, <- Hl.
  rewrite flat_map_app. cbn [flat_map].
  rewrite <- (flat_enc_length ty l1), skipn_len_app.
  rewrite <- (enc_cell_length ty c) at 1. apply firstn_len_app.
Qed.

(* ------------------------------------------------------------------ *)
(* values that fit the cell type stay fitting                          *)

Lemma z_ok_0 sg w : z_ok sg w 0.
Proof.
  assert (0 < 2 ^ (8 * Z.of_nat w))%Z by (apply Z.pow_pos_nonneg; lia).
  unfold z_ok. destruct sg; lia.
Qed.

Lemma cell_ok_0 : cell_ok ty cell0.
Proof. split; apply z_ok_0. Qed.

Definition op_fits (o : aop) : Prop := Forall (cell_ok ty) (op_cells o).

Lemma astep_fits s o s' out c : ainv pbytes s -> aop_ok o ->
  astep_c pbytes s o = Ok (s', out, c) -> op_fits o ->
  Forall (cell_ok ty) (aslots s) -> Forall (cell_ok ty) (aslots s').
Proof.
  intros Hi Hok Hr Hf Hs.
  destruct (arr_frame pbytes s o Hi Hok) as [s1 [out1 [c1 [Hr1 [_ [_ Hfr]]]]]].
  rewrite Hr in Hr1. injection Hr1 as <- <- <-.
  specialize (Hfr [] []). apply Forall_forall. intros x Hx.
  destruct (astep_slots_in pbytes _ o _ out c x Hfr Hx) as [E|[E|E]].
  - unfold amem in E. cbn [apre aslots apost app] in E. rewrite app_nil_r in E.
    rewrite Forall_forall in Hs. exact (Hs x E).
  - unfold op_fits in Hf. rewrite Forall_forall in Hf. exact (Hf x E).
  - subst x. apply cell_ok_0.
Qed.

Lemma aexec_fits : forall ops s s', ainv pbytes s -> Forall aop_ok ops -> Forall op_fits ops ->
  aexec pbytes s ops = Ok s' -> Forall (cell_ok ty) (aslots s) -> Forall (cell_ok ty) (aslots s').
Proof.
  induction ops as [|o ops IH]; intros s s' Hi Hok Hf He Hs; cbn [aexec] in He.
  - injection He as <-. exact Hs.
  - inversion Hok as [|o' ops' Ho Hops]; subst. inversion Hf as [|o' ops' Hfo Hfops]; subst.
    apply bind_ok in He. destruct He as [[[s1 out] c] [Hr He]]. cbv beta iota in He.
    destruct (arr_step_sound pbytes s o s1 out c Hi Ho Hr) as [Hi1 _].
    apply (IH s1 s' Hi1 Hops Hfops He). exact (astep_fits s o s1 out c Hi Ho Hr Hfo Hs).
Qed.

Lemma ainit_fits pre post nslots : Forall (cell_ok ty) (aslots (ainit_c pre post nslots)).
Proof.
  unfold ainit_c. cbn [aslots]. apply Forall_forall. intros x Hx.
  rewrite (repeat_spec _ _ _ Hx). apply cell_ok_0.
Qed.

(* ------------------------------------------------------------------ *)
(* C04: decode after encode, and continuing after a re-open            *)

(* the decoded handle: same count, same slots, no knowledge of the guards *)
Theorem arr_decode_encode s : cell_len ty <> 0%nat -> ainv pbytes s ->
  Forall (cell_ok ty) (aslots s) ->
  adecode pb ty (aencode pb ty s) = Some (mkA [] (aslots s) [] (alen s)).
Proof.
  intros Hc [_ [Hm _]] Hf. apply adecode_encode; [exact Hc | exact Hm | exact Hf].
Qed.

(* opening writes nothing: the bytes of the re-opened handle are the bytes
   it was opened from *)
Theorem arr_reopen_bytes s s' : adecode pb ty (aencode pb ty s) = Some s' ->
  cell_len ty <> 0%nat -> ainv pbytes s -> Forall (cell_ok ty) (aslots s) ->
  aencode pb ty s' = aencode pb ty s.
Proof.
  intros Hd Hc Hi Hf. rewrite (arr_decode_encode s Hc Hi Hf) in Hd. injection Hd as <-. reflexivity.
Qed.

(* a history interrupted at any point by dropping the handle and decoding the
   bytes again (placed between arbitrary other guard cells: relocation)
   continues exactly as the uninterrupted history *)
Theorem arr_reopen_continues : forall s ops1 ops2 pre' post',
  cell_len ty <> 0%nat -> ainv pbytes s -> Forall (cell_ok ty) (aslots s) ->
  Forall aop_ok ops1 -> Forall op_fits ops1 -> Forall aop_ok ops2 ->
  exists s1 s1',
    aexec pbytes s ops1 = Ok s1 /\
    adecode pb ty (aencode pb ty s1) = Some s1' /\
    aslots s1' = aslots s1 /\ alen s1' = alen s1 /\
    aencode pb ty s1' = aencode pb ty s1 /\
    arun_c pbytes s (ops1 ++ ops2)
    = arun_c pbytes s ops1 ++ arun_c pbytes (mkA pre' (aslots s1') post' (alen s1')) ops2.
Proof.
  intros s ops1 ops2 pre' post' Hc Hi Hf Hok1 Hfit1 Hok2.
  destruct (aexec_ok pbytes ops1 s Hi Hok1) as [s1 [He [Hi1 _]]].
  pose proof (aexec_fits ops1 s s1 Hi Hok1 Hfit1 He Hf) as Hf1.
  exists s1, (mkA [] (aslots s1) [] (alen s1)).
  split; [exact He|]. split; [exact (arr_decode_encode s1 Hc Hi1 Hf1)|].
  split; [reflexivity|]. split; [reflexivity|]. split; [reflexivity|].
  cbn [aslots alen]. rewrite (arun_c_app pbytes ops1 ops2 s s1 He).
  rewrite (arun_c_frame pbytes ops2 s1 pre' post' Hi1 Hok2). reflexivity.
Qed.

Theorem arr_reopen_anywhere : forall pre post nslots ops1 ops2 pre' post',
  cell_len ty <> 0%nat ->
  Forall aop_ok ops1 -> Forall op_fits ops1 -> Forall aop_ok ops2 ->
  exists s1 s1',
    aexec pbytes (ainit_c pre post nslots) ops1 = Ok s1 /\
    adecode pb ty (aencode pb ty s1) = Some s1' /\
    aslots s1' = aslots s1 /\ alen s1' = alen s1 /\
    aencode pb ty s1' = aencode pb ty s1 /\
    arun_c pbytes (ainit_c pre post nslots) (ops1 ++ ops2)
    = arun_c pbytes (ainit_c pre post nslots) ops1
      ++ arun_c pbytes (mkA pre' (aslots s1') post' (alen s1')) ops2.
Proof.
  intros pre post nslots ops1 ops2 pre' post' Hc Hok1 Hfit1 Hok2.
  apply arr_reopen_continues; try assumption; [apply ainit_inv | apply ainit_fits].
Qed.

(* ------------------------------------------------------------------ *)
(* C10 along histories: the independent reader in every reachable state *)

Theorem arr_doc_reachable : forall pre post nslots ops,
  cell_len ty <> 0%nat -> Forall aop_ok ops -> Forall op_fits ops ->
  exists s, aexec pbytes (ainit_c pre post nslots) ops = Ok s /\
    adecode_doc pb ty (aencode pb ty s) = Some (alen s, aabs s, true) /\
    aderef s = Ok (aabs s) /\
    length (aencode pb ty s) = (pb + length (aslots s) * cell_len ty)%nat /\
    le_dec (firstn pb (aencode pb ty s)) = alen s.
Proof.
  intros pre post nslots ops Hc Hok Hfit.
  destruct (aexec_ok pbytes ops _ (ainit_inv pbytes pre post nslots) Hok) as [s [He [Hi _]]].
  pose proof (aexec_fits ops _ s (ainit_inv pbytes pre post nslots) Hok Hfit He (ainit_fits pre post nslots)) as Hf.
  exists s. split; [exact He|]. split.
  - apply (adecode_doc_encode pb ty pbytes s Hc); [exact (proj1 (proj2 Hi)) | exact Hf | exact Hi].
  - split; [exact (proj1 (ainv_deref pbytes s Hi))|]. split; [apply arr_encode_length|].
    apply arr_count_little_endian. exact Hi.
Qed.

(* ------------------------------------------------------------------ *)
(* C12: the zero-initialised state is the all-zero buffer              *)

Theorem arr_zero_bytes pre post nslots :
  aencode pb ty (ainit_c pre post nslots) = zeros (pb + N.to_nat nslots * cell_len ty).
Proof.
  assert (Z : allz (aencode pb ty (ainit_c pre post nslots))).
  { unfold aencode, ainit_c. cbn [alen aslots]. apply allz_app; [apply allz_le_enc_0|].
    apply allz_flat_map. intros a Ha. rewrite (repeat_spec _ _ _ Ha).
    unfold enc_cell, cell0. cbn [fst snd]. apply allz_app; apply allz_z_enc_0. }
  rewrite (allz_zeros_eq _ Z), arr_encode_length. unfold ainit_c. cbn [aslots].
  rewrite repeat_length. reflexivity.
Qed.

(* ... and the all-zero buffer decodes to the zero-initialised state *)
Theorem arr_zero_buffer_decodes nslots : cell_len ty <> 0%nat ->
  adecode pb ty (zeros (pb + N.to_nat nslots * cell_len ty)) = Some (ainit_c [] [] nslots).
Proof.
  intros Hc. rewrite <- (arr_zero_bytes [] [] nslots).
  apply (arr_decode_encode (ainit_c [] [] nslots) Hc); [apply ainit_inv | apply ainit_fits].
Qed.

End Fmt.

(* C09 at the level of bytes, guard cells included *)
Theorem arr_refused_bytes pbytes pb ty s o s' out c : ainv pbytes s -> aop_ok o ->
  astep_c pbytes s o = Ok (s', out, c) -> aquiet o out ->
  aencode pb ty s' = aencode pb ty s /\ aencode_mem pb ty s' = aencode_mem pb ty s.
Proof.
  intros Hi Hok Hr Hq. rewrite (arr_refused_unchanged pbytes s o s' out c Hi Hok Hr Hq). split; reflexivity.
Qed.

Print Assumptions arr_encode_length.
Print Assumptions arr_encode_layout.
Print Assumptions arr_count_little_endian.
Print Assumptions arr_record_at.
Print Assumptions astep_fits.
Print Assumptions arr_decode_encode.
Print Assumptions arr_reopen_bytes.
Print Assumptions arr_reopen_continues.
Print Assumptions arr_reopen_anywhere.
Print Assumptions arr_doc_reachable.
Print Assumptions arr_zero_bytes.
Print Assumptions arr_zero_buffer_decodes.
Print Assumptions arr_refused_bytes.
