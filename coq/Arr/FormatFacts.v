(* Byte format of the array sets: decoding an encoded state gives back the
   slots and the count (for cells that fit their field types). *)
From Coq Require Import List NArith ZArith Bool Arith Lia Sorted.
From Stevia Require Import Base.Res Base.Bytes Arr.Impl Arr.Spec Arr.Format Arr.Search.
Import ListNotations.
Open Scope N_scope.

Arguments N.add : simpl never.
Arguments N.sub : simpl never.
Arguments N.mul : simpl never.
Arguments N.div : simpl never.
Arguments N.modulo : simpl never.
Arguments N.pow : simpl never.
Arguments Z.add : simpl never.
Arguments Z.sub : simpl never.
Arguments Z.mul : simpl never.
Arguments Z.pow : simpl never.
Arguments Z.modulo : simpl never.
Arguments Z.ltb : simpl never.
Arguments Z.leb : simpl never.

(* a value that fits a [w]-byte field (w = 0: only 0) *)
Definition z_ok (signed : bool) (w : nat) (z : Z) : Prop :=
  if signed then (- 2 ^ (8 * Z.of_nat w) <= 2 * z < 2 ^ (8 * Z.of_nat w))%Z
  else (0 <= z < 2 ^ (8 * Z.of_nat w))%Z.

Lemma to_N_lt_pow w x : (0 <= x < 2 ^ (8 * Z.of_nat w))%Z -> Z.to_N x < 2 ^ (8 * N.of_nat w).
Proof.
  intros H. apply N2Z.inj_lt. rewrite Z2N.id by lia.
  rewrite N2Z.inj_pow, N2Z.inj_mul, nat_N_Z. exact (proj2 H).
Qed.

Lemma z_dec_enc sg w z : z_ok sg w z -> z_dec sg (z_enc w z) = z.
Proof.
  intros H. unfold z_dec, z_enc. rewrite le_enc_length.
  set (m := (2 ^ (8 * Z.of_nat w))%Z) in *.
  assert (Hm : (0 < m)%Z) by (unfold m; apply Z.pow_pos_nonneg; lia).
  assert (Hr : (0 <= z mod m < m)%Z) by (apply Z.mod_pos_bound; exact Hm).
  rewrite le_dec_enc by (apply to_N_lt_pow; exact Hr).
  rewrite Z2N.id by lia.
  unfold z_ok in H. destruct sg; cbn [andb].
  - destruct (Z_lt_le_dec z 0) as [Hn|Hp].
    + assert (E : (z mod m = z + m)%Z).
      { rewrite <- (Z.mod_small (z + m) m) by lia. rewrite <- (Z_mod_plus_full z 1 m). f_equal. lia. }
      rewrite E. destruct (Z.leb_spec m (2 * (z + m))); lia.
    + rewrite Z.mod_small by lia. destruct (Z.leb_spec m (2 * z)); lia.
  - rewrite Z.mod_small by lia. reflexivity.
Qed.

Section Fmt.
Variable pb : nat.
Variable ty : cty.

Definition cell_ok (c : cell) : Prop :=
  z_ok (fsigned (ckey ty)) (cksz ty) (fst c) /\ z_ok (fsigned (cpay ty)) (cpsz ty) (snd c).

Lemma z_enc_length w z : length (z_enc w z) = w.
Proof. unfold z_enc. apply le_enc_length. Qed.

Lemma enc_cell_length c : length (enc_cell ty c) = cell_len ty.
Proof. unfold enc_cell, cell_len. rewrite app_length, !z_enc_length. reflexivity. Qed.

Lemma dec_enc_cell c : cell_ok c -> dec_cell ty (enc_cell ty c) = c.
Proof.
  intros [Hk Hp]. unfold dec_cell, enc_cell.
  rewrite <- (z_enc_length (cksz ty) (fst c)) at 1 3.
  rewrite firstn_len_app, skipn_len_app.
  rewrite firstn_all2 by (rewrite z_enc_length; lia).
  rewrite !z_dec_enc by assumption. destruct c; reflexivity.
Qed.

Lemma dec_cells_enc l rest : Forall cell_ok l ->
  dec_cells ty (length l) (flat_map (enc_cell ty) l ++ rest) = l.
Proof.
  induction 1 as [|c l Hc Hl IH]; [reflexivity|].
  cbn [length flat_map dec_cells]. rewrite <- app_assoc.
  rewrite <- (enc_cell_length c). rewrite firstn_len_app, skipn_len_app.
  rewrite dec_enc_cell by exact Hc. rewrite IH. reflexivity.
Qed.

Lemma flat_enc_length l : length (flat_map (enc_cell ty) l) = (length l * cell_len ty)%nat.
Proof.
  induction l as [|c l IH]; [reflexivity|].
  cbn [flat_map length]. rewrite app_length, enc_cell_length, IH. lia.
Qed.

(* item 9 *)
Theorem adecode_encode s :
  cell_len ty <> 0%nat -> alen s < 2 ^ (8 * N.of_nat pb) -> Forall cell_ok (aslots s) ->
  adecode pb ty (aencode pb ty s) = Some (mkA [] (aslots s) [] (alen s)).
Proof.
  intros Hcl Hn Hc. unfold adecode, aencode.
  assert (Hl : length (le_enc pb (alen s)) = pb) by apply le_enc_length.
  destruct (Nat.ltb_spec (length (le_enc pb (alen s) ++ flat_map (enc_cell ty) (aslots s))) pb) as [E|_].
  { rewrite app_length in E. lia. }
  assert (Hsk : skipn pb (le_enc pb (alen s) ++ flat_map (enc_cell ty) (aslots s))
                = flat_map (enc_cell ty) (aslots s)).
  { rewrite <- Hl at 1. apply skipn_len_app. }
  assert (Hfi : firstn pb (le_enc pb (alen s) ++ flat_map (enc_cell ty) (aslots s)) = le_enc pb (alen s)).
  { rewrite <- Hl at 1. apply firstn_len_app. }
  rewrite Hsk, Hfi.
  destruct (Nat.eqb_spec (cell_len ty) 0) as [E|_]; [contradiction|].
  rewrite flat_enc_length, Nat.mod_mul, Nat.div_mul by exact Hcl.
  cbn [Nat.eqb negb]. rewrite le_dec_enc by exact Hn.
  rewrite <- (app_nil_r (flat_map (enc_cell ty) (aslots s))). rewrite dec_cells_enc by exact Hc.
  reflexivity.
Qed.

Lemma strictly_asc_asc (l : list cell) : strictly_asc (map fst l) = true <-> asc l.
Proof.
  induction l as [|a l IH]; [split; [constructor | reflexivity]|].
  destruct l as [|b l].
  - split; [intros _; repeat constructor | reflexivity].
  - change (strictly_asc (map fst (a :: b :: l))) with ((fst a <? fst b)%Z && strictly_asc (map fst (b :: l))).
    rewrite andb_true_iff, IH. split.
    + intros [Hab Hs]. apply Z.ltb_lt in Hab. constructor; [exact Hs|].
      constructor; [exact Hab|]. inversion Hs as [|x y Hs' Hf]; subst.
      apply Forall_forall. intros x Hx. rewrite Forall_forall in Hf. specialize (Hf x Hx).
      unfold clt in *. lia.
    + intros H. inversion H as [|x y Hs Hf]; subst. inversion Hf as [|x y Hab Hr]; subst.
      split; [apply Z.ltb_lt; exact Hab | exact Hs].
Qed.

(* the independent reader sees the count, the members, and a well-formed set *)
Theorem adecode_doc_encode pbytes s :
  cell_len ty <> 0%nat -> alen s < 2 ^ (8 * N.of_nat pb) -> Forall cell_ok (aslots s) ->
  ainv pbytes s ->
  adecode_doc pb ty (aencode pb ty s) = Some (alen s, aabs s, true).
Proof.
  intros Hcl Hn Hc [Hl [_ Hs]]. unfold adecode_doc. rewrite adecode_encode by assumption.
  cbn [alen aslots]. fold (aabs s).
  destruct (Nat.leb_spec (N.to_nat (alen s)) (length (aslots s))) as [_|E]; [|lia].
  replace (strictly_asc (map fst (aabs s))) with true by (symmetry; apply strictly_asc_asc; exact Hs).
  reflexivity.
Qed.

End Fmt.

Print Assumptions adecode_encode.
Print Assumptions adecode_doc_encode.
