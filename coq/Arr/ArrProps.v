(* Named facts about the array sets that the property files cite.  All of
   them are corollaries of [Arr.Refine.astep_char]. *)
From Coq Require Import List NArith ZArith Bool Arith Lia.
From Stevia Require Import Base.Res Arr.Impl Arr.Spec Arr.Search Arr.Refine.
Import ListNotations.
Open Scope N_scope.

Section Prefix.
Variable pbytes : N.

(* C05: the cells around the slots are neither written nor read *)
Theorem arr_frame : forall s o, ainv pbytes s -> aop_ok o ->
  exists s' out c, astep_c pbytes s o = Ok (s', out, c) /\
    apre s' = apre s /\ apost s' = apost s /\
    forall pre' post',
      astep_c pbytes (mkA pre' (aslots s) post' (alen s)) o
      = Ok (mkA pre' (aslots s') post' (alen s'), out, c).
Proof. exact (astep_frame pbytes). Qed.

(* C05 along a whole history *)
Theorem arr_frame_history : forall pre post nslots s,
  areach pbytes (ainit_c pre post nslots) s -> apre s = pre /\ apost s = post.
Proof.
  intros pre post nslots s H. destruct (areach_slice_view pbytes pre post nslots s H) as [_ [_ HH]]. exact HH.
Qed.

(* C09: a refused update or a query hands back the very same state *)
Theorem arr_refused_unchanged : forall s o s' out c, ainv pbytes s -> aop_ok o ->
  astep_c pbytes s o = Ok (s', out, c) -> aquiet o out -> s' = s.
Proof. exact (astep_quiet pbytes). Qed.

(* no panic, no fuel exhaustion *)
Theorem arr_total : forall s o, ainv pbytes s -> aop_ok o -> exists r, astep_c pbytes s o = Ok r.
Proof. exact (astep_total pbytes). Qed.

Theorem arr_step_sound : forall s o s' out c, ainv pbytes s -> aop_ok o ->
  astep_c pbytes s o = Ok (s', out, c) ->
  ainv pbytes s' /\ (abs_st s', out) = aspec_step pbytes (abs_st s) o.
Proof. exact (astep_sound pbytes). Qed.

(* C12: the all-zero buffer is the empty set *)
Theorem arr_zero_reads_empty : forall pre post nslots,
  let s := ainit_c pre post nslots in
  ainv pbytes s /\
  astep_c pbytes s ALen = Ok (s, ANum 0, 0) /\
  astep_c pbytes s AIsEmpty = Ok (s, ABool true, 0) /\
  (forall v, astep_c pbytes s (AGet v) = Ok (s, ACell None, 0)) /\
  (forall v, astep_c pbytes s (AContains v) = Ok (s, ABool false, 0)) /\
  astep_c pbytes s ADeref = Ok (s, AList [], 0).
Proof. exact (ainit_reads_empty pbytes). Qed.

(* the comparison count of any operation: none on the empty set, at most
   the number of binary digits of the count otherwise *)
Theorem arr_lookup_cost : forall s o s' out c, ainv pbytes s -> aop_ok o ->
  astep_c pbytes s o = Ok (s', out, c) ->
  (alen s = 0 -> c = 0) /\ (1 <= alen s -> c <= N.log2 (alen s) + 1).
Proof. exact (astep_cost pbytes). Qed.

(* the same with N.size n = ceil(log2(n+1)) *)
Theorem arr_lookup_cost_size : forall s o s' out c, ainv pbytes s -> aop_ok o ->
  astep_c pbytes s o = Ok (s', out, c) ->
  c <= N.size (alen s) /\ alen s < 2 ^ N.size (alen s) /\ 2 ^ N.size (alen s) <= 2 * alen s + 1.
Proof.
  intros s o s' out c Hi Hok Hr. destruct (astep_cost pbytes s o s' out c Hi Hok Hr) as [H0 H1].
  split; [|split].
  - destruct (N.eq_dec (alen s) 0) as [E|E]; [rewrite (H0 E); apply N.le_0_l|].
    rewrite N.size_log2 by exact E. rewrite <- N.add_1_r. apply H1. lia.
  - apply N.size_gt.
  - pose proof (N.size_le (alen s)) as H. rewrite N.succ_double_spec in H. exact H.
Qed.

(* the search itself *)
Theorem arr_index_cost : forall s v r c, ainv pbytes s -> aindex s v = Ok (r, c) ->
  (alen s = 0 -> c = 0) /\ (1 <= alen s -> c <= N.log2 (alen s) + 1).
Proof. exact (aindex_cost pbytes). Qed.

(* growing the buffer keeps the members and raises the bound by exactly n *)
Theorem arr_grow : forall s n, ainv pbytes s ->
  exists s', astep_c pbytes s (AExt n) = Ok (s', AUnit, 0) /\ ainv pbytes s' /\
    aabs s' = aabs s /\ alen s' = alen s /\
    asbound_slots (abs_st s') = asbound_slots (abs_st s) + n /\
    apre s' = apre s /\ apost s' = apost s.
Proof. exact (aext_grow pbytes). Qed.

End Prefix.

Print Assumptions arr_frame.
Print Assumptions arr_frame_history.
Print Assumptions arr_refused_unchanged.
Print Assumptions arr_total.
Print Assumptions arr_step_sound.
Print Assumptions arr_zero_reads_empty.
Print Assumptions arr_lookup_cost.
Print Assumptions arr_lookup_cost_size.
Print Assumptions arr_index_cost.
Print Assumptions arr_grow.

(* the bound is attained: 4 members, probe above all of them, 3 = log2 4 + 1 comparisons;
   and the saturated [middle - 1] path: 2 members, probe below both, 2 = log2 2 + 1 *)
Example lookup_cost_tight :
  astep_c 1 (mkA [] [(1, 0); (3, 0); (5, 0); (7, 0)]%Z [] 4) (AContains (9, 0)%Z)
    = Ok (mkA [] [(1, 0); (3, 0); (5, 0); (7, 0)]%Z [] 4, ABool false, 3) /\
  astep_c 1 (mkA [] [(1, 0); (3, 0)]%Z [] 2) (AContains (0, 0)%Z)
    = Ok (mkA [] [(1, 0); (3, 0)]%Z [] 2, ABool false, 2).
Proof. split; reflexivity. Qed.
