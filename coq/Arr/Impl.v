(* Layer C for src/collections/array_set.rs, for every prefix width.
   The value slots live inside a larger memory [apre ++ aslots ++ apost] of
   cells; [ptr_copy] has memmove semantics and is NOT bounds-checked against
   the slots (only against the whole memory), which is what lets the model
   express an access outside the buffer (C05).  A cell is a value (key,
   payload): the ordering looks at the key only. *)
From Coq Require Import List NArith ZArith Bool Arith.
From Stevia Require Import Base.Res.
Import ListNotations.
Open Scope N_scope.

Definition cell := (Z * Z)%type.
Definition cell0 : cell := (0%Z, 0%Z).

Record ast := mkA { apre : list cell; aslots : list cell; apost : list cell; alen : N }.

Definition with_slots (s : ast) sl := mkA (apre s) sl (apost s) (alen s).
Definition with_alen (s : ast) n := mkA (apre s) (aslots s) (apost s) n.

Definition amem (s : ast) : list cell := apre s ++ aslots s ++ apost s.

(* re-split a flat memory along the (unchanged) region lengths *)
Definition of_mem (s : ast) (m : list cell) : ast :=
  let a := length (apre s) in let b := length (aslots s) in
  mkA (firstn a m) (firstn b (skipn a m)) (skipn (a + b) m) (alen s).

(* std::ptr::copy(src, dst, count) on cell addresses of the flat memory;
   PFault stands for an access outside every mapped cell (undefined
   behaviour in the real program) *)
Definition ptr_copy (m : list cell) (src dst count : nat) : res (list cell) :=
  if ((src + count <=? length m) && (dst + count <=? length m))%nat then
    Ok (firstn dst m ++ firstn count (skipn src m) ++ skipn (dst + count) m)
  else Panic POob.

Inductive ord := Lt | Eq | Gt.
Definition cmp_cell (a b : cell) : ord :=
  if (fst a <? fst b)%Z then Lt else if (fst b <? fst a)%Z then Gt else Eq.

Section Prefix.
(* width of the length prefix in bytes: 1, 2, 4 or 8 *)
Variable pbytes : N.
Definition pmax : N := 2 ^ (8 * pbytes).

Definition alength (s : ast) : N := alen s.
Definition ais_empty (s : ast) : bool := alen s =? 0.
(* repair of D8: also full when the count has reached the prefix type's
   maximum (self.length.checked_add(1).is_none()) *)
Definition ais_full (s : ast) : bool :=
  (alen s =? N.of_nat (length (aslots s))) || (pmax <=? alen s + 1).

(* values[i], bounds-checked against the slot slice *)
Definition aget (s : ast) (i : N) : res cell :=
  match nth_error (aslots s) (N.to_nat i) with Some c => Ok c | None => Panic POob end.
Definition aset (s : ast) (i : N) (c : cell) : res ast :=
  if (N.to_nat i <? length (aslots s))%nat
  then Ok (with_slots s (set_nth (aslots s) (N.to_nat i) c)) else Panic POob.

(* the binary search; also returns the number of comparisons made *)
Fixpoint index_loop (fuel : nat) (s : ast) (value : cell) (start end_ : N) (cmps : N)
  : res (option N * option N * N) :=
  match fuel with
  | O => Fuel
  | S f =>
    if start <=? end_ then
      let middle := start + (end_ - start) / 2 in
      c <- aget s middle ;;
      match cmp_cell value c with
      | Lt => if end_ =? start then Ok (None, Some start, cmps + 1)
              else index_loop f s value start (middle - 1) (cmps + 1)
      | Gt => index_loop f s value (middle + 1) end_ (cmps + 1)
      | Eq => Ok (Some middle, None, cmps + 1)
      end
    else Ok (None, Some start, cmps)
  end.

Definition aindex (s : ast) (value : cell) : res (option N * option N * N) :=
  if ais_empty s then Ok (None, Some 0, 0) else
  index_loop (S (S (N.to_nat (alen s)))) s value 0 (alen s - 1) 0.

Definition aget_val (s : ast) (value : cell) : res (option cell * N) :=
  '(f, _, c) <- aindex s value ;;
  match f with
  | Some i => x <- aget s i ;; Ok (Some x, c)
  | None => Ok (None, c)
  end.

Definition acontains (s : ast) (value : cell) : res (bool * N) :=
  '(r, c) <- aget_val s value ;; Ok (match r with Some _ => true | None => false end, c).

(* get_mut followed by a write through the reference *)
Definition aget_mut_set (s : ast) (value new : cell) : res (ast * option cell) :=
  '(f, _, _) <- aindex s value ;;
  match f with
  | Some i => x <- aget s i ;; s' <- aset s i new ;; Ok (s', Some x)
  | None => Ok (s, None)
  end.

Definition cinc (a : N) : res N := if a + 1 <? pmax then Ok (a + 1) else Panic PArith.
Definition cdec (a : N) : res N := if 1 <=? a then Ok (a - 1) else Panic PArith.

Definition ainsert (s : ast) (value : cell) : res (ast * bool) :=
  if ais_full s then Ok (s, false) else
  '(_, g, _) <- aindex s value ;;
  match g with
  | Some index =>
    let off := length (apre s) in
    let i := N.to_nat index in
    (* repair of D2: count = self.len() - index (upstream: values.len() - index) *)
    cnt <- (if index <=? alen s then Ok (N.to_nat (alen s - index)) else Panic PArith) ;;
    m <- ptr_copy (amem s) (off + i) (off + i + 1) cnt ;;
    let s1 := of_mem s m in
    s2 <- aset s1 index value ;;
    n <- cinc (alen s2) ;;
    Ok (with_alen s2 n, true)
  | None => Ok (s, false)
  end.

Definition atake (s : ast) (value : cell) : res (ast * option cell) :=
  if ais_empty s then Ok (s, None) else
  '(f, _, _) <- aindex s value ;;
  match f with
  | Some index =>
    x <- aget s index ;;
    lm1 <- cdec (alen s) ;;
    s1 <- (if index <? lm1 then
             let off := length (apre s) in
             let i := N.to_nat index in
             (* repair of D2: count = self.len() - index - 1 *)
             m <- ptr_copy (amem s) (off + i + 1) (off + i) (N.to_nat (alen s - index - 1)) ;;
             Ok (of_mem s m)
           else Ok s) ;;
    n <- cdec (alen s1) ;;
    Ok (with_alen s1 n, Some x)
  | None => Ok (s, None)
  end.

Definition aremove (s : ast) (value : cell) : res (ast * bool) :=
  '(s', r) <- atake s value ;; Ok (s', match r with Some _ => true | None => false end).

(* Deref: &self.values[..self.len()] *)
Definition aderef (s : ast) : res (list cell) :=
  if (N.to_nat (alen s) <=? length (aslots s))%nat
  then Ok (firstn (N.to_nat (alen s)) (aslots s)) else Panic PSlice.

End Prefix.
