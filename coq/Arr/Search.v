(* The binary search of the array sets: totality, correctness (unique
   insertion point) and the comparison count, for every prefix width. *)
From Coq Require Import List NArith ZArith Bool Arith Lia Sorted.
From Stevia Require Import Base.Res Arr.Impl Arr.Spec.
Import ListNotations.
Open Scope N_scope.

Arguments N.add : simpl never.
Arguments N.sub : simpl never.
Arguments N.mul : simpl never.
Arguments N.div : simpl never.
Arguments N.modulo : simpl never.
Arguments N.eqb : simpl never.
Arguments N.ltb : simpl never.
Arguments N.leb : simpl never.
Arguments N.max : simpl never.
Arguments N.min : simpl never.
Arguments N.log2 : simpl never.
Arguments N.pow : simpl never.
Arguments Z.add : simpl never.
Arguments Z.sub : simpl never.
Arguments Z.ltb : simpl never.
Arguments Z.eqb : simpl never.

(* ------------------------------------------------------------------ *)
(* generic list facts                                                  *)

Lemma firstn_len_app {A} (a b : list A) : firstn (length a) (a ++ b) = a.
Proof. induction a as [|x a IH]; cbn [length firstn app]; [destruct b; reflexivity | now rewrite IH]. Qed.

Lemma skipn_len_app {A} (a b : list A) : skipn (length a) (a ++ b) = b.
Proof. induction a as [|x a IH]; cbn [length skipn app]; auto. Qed.

Lemma firstn_len_add_app {A} (a b : list A) n :
  firstn (length a + n) (a ++ b) = a ++ firstn n b.
Proof. induction a as [|x a IH]; cbn [length firstn app Nat.add]; [reflexivity | now rewrite IH]. Qed.

Lemma skipn_len_add_app {A} (a b : list A) n :
  skipn (length a + n) (a ++ b) = skipn n b.
Proof. induction a as [|x a IH]; cbn [length skipn app Nat.add]; auto. Qed.

Lemma firstn_le_app {A} (a b : list A) n :
  (n <= length a)%nat -> firstn n (a ++ b) = firstn n a.
Proof.
  revert n; induction a as [|x a IH]; intros [|n] H; cbn [length firstn app] in *; try reflexivity; try lia.
  rewrite IH by lia. reflexivity.
Qed.

Lemma nth_firstn_lt {A} (l : list A) n i d : (i < n)%nat -> nth i (firstn n l) d = nth i l d.
Proof.
  revert n i; induction l as [|x l IH]; intros [|n] [|i] H; cbn [firstn nth]; try reflexivity; try lia.
  apply IH; lia.
Qed.

Lemma firstn_skipn_nth {A} (l : list A) i d :
  (i < length l)%nat -> l = firstn i l ++ nth i l d :: skipn (S i) l.
Proof.
  revert i; induction l as [|x l IH]; intros [|i] H; cbn [length firstn skipn nth app] in *; try lia; try reflexivity.
  f_equal. apply IH. lia.
Qed.

(* ------------------------------------------------------------------ *)
(* strictly ascending keys                                             *)

Definition clt (a b : cell) : Prop := (fst a < fst b)%Z.
Definition asc (l : list cell) : Prop := StronglySorted clt l.
Definition below (k : Z) (l : list cell) : Prop := Forall (fun x => (fst x < k)%Z) l.
Definition above (k : Z) (l : list cell) : Prop := Forall (fun x => (k < fst x)%Z) l.

Lemma asc_nth l : asc l -> forall i j, (i < j)%nat -> (j < length l)%nat ->
  (fst (nth i l cell0) < fst (nth j l cell0))%Z.
Proof.
  induction 1 as [|a l Hl IH Ha]; intros i j Hij Hj; cbn [length] in *; [lia|].
  destruct j as [|j]; [lia|]. cbn [nth].
  destruct i as [|i].
  - rewrite Forall_forall in Ha. apply Ha. apply nth_In. lia.
  - apply IH; lia.
Qed.

Lemma nth_asc l :
  (forall i j, (i < j)%nat -> (j < length l)%nat -> (fst (nth i l cell0) < fst (nth j l cell0))%Z) -> asc l.
Proof.
  induction l as [|a l IH]; intros H; [constructor|].
  constructor.
  - apply IH. intros i j Hij Hj. apply (H (S i) (S j)); cbn [length]; lia.
  - apply Forall_forall. intros x Hx. destruct (In_nth _ _ cell0 Hx) as [j [Hj Hn]].
    subst x. apply (H O (S j)); cbn [length]; lia.
Qed.

Lemma asc_app l1 l2 :
  asc (l1 ++ l2) <-> asc l1 /\ asc l2 /\ Forall (fun x => Forall (clt x) l2) l1.
Proof.
  induction l1 as [|a l1 IH]; cbn [app].
  - split; [intros H; repeat split; auto; constructor | intros [_ [H _]]; exact H].
  - split.
    + intros H. inversion H as [|a' l' Hs Hf]; subst. apply IH in Hs. destruct Hs as [H1 [H2 H3]].
      apply Forall_app in Hf. destruct Hf as [Hf1 Hf2].
      repeat split; auto; constructor; auto.
    + intros [H1 [H2 H3]]. inversion H1 as [|a' l' Hs Hf]; subst.
      inversion H3 as [|a' l' Ha Hr]; subst.
      constructor; [apply IH; auto | apply Forall_app; auto].
Qed.

Lemma asc_insert l1 l2 v :
  asc (l1 ++ l2) -> below (fst v) l1 -> above (fst v) l2 -> asc (l1 ++ v :: l2).
Proof.
  intros H Hb Ha. apply asc_app in H. destruct H as [H1 [H2 H3]].
  apply asc_app. repeat split; auto.
  - constructor; auto.
  - unfold below in Hb. rewrite Forall_forall in *. intros x Hx. constructor; [apply Hb; auto | apply H3; auto].
Qed.

Lemma asc_remove l1 x l2 : asc (l1 ++ x :: l2) -> asc (l1 ++ l2).
Proof.
  intros H. apply asc_app in H. destruct H as [H1 [H2 H3]].
  apply asc_app. inversion H2 as [|a' l' Hs Hf]; subst. repeat split; auto.
  rewrite Forall_forall in *. intros y Hy. specialize (H3 y Hy). inversion H3; auto.
Qed.

Lemma asc_update l1 x new l2 : asc (l1 ++ x :: l2) -> fst new = fst x -> asc (l1 ++ new :: l2).
Proof.
  intros H E. apply asc_app in H. destruct H as [H1 [H2 H3]].
  apply asc_app. inversion H2 as [|a' l' Hs Hf]; subst. repeat split; auto.
  - constructor; auto. unfold clt in *. rewrite E. exact Hf.
  - rewrite Forall_forall in *. intros y Hy. specialize (H3 y Hy).
    inversion H3 as [|a' l' Hyx Hr]; subst. constructor; auto. unfold clt in *. rewrite E. exact Hyx.
Qed.

(* around an element of an ascending list everything before is below, everything after above *)
Lemma asc_split l1 x l2 : asc (l1 ++ x :: l2) -> below (fst x) l1 /\ above (fst x) l2.
Proof.
  intros H. apply asc_app in H. destruct H as [H1 [H2 H3]]. split.
  - unfold below. rewrite Forall_forall in *. intros y Hy. specialize (H3 y Hy). inversion H3; auto.
  - inversion H2; auto.
Qed.

(* ------------------------------------------------------------------ *)
(* invariant and abstraction                                           *)

Definition aabs (s : ast) : list cell := firstn (N.to_nat (alen s)) (aslots s).
Definition akey (s : ast) (i : N) : Z := fst (nth (N.to_nat i) (aslots s) cell0).

Lemma aabs_length s : (N.to_nat (alen s) <= length (aslots s))%nat -> length (aabs s) = N.to_nat (alen s).
Proof. intros H. unfold aabs. apply firstn_length_le. exact H. Qed.

Lemma aslots_split s : aslots s = aabs s ++ skipn (N.to_nat (alen s)) (aslots s).
Proof. unfold aabs. symmetry. apply firstn_skipn. Qed.

Section Prefix.
Variable pbytes : N.

Definition ainv_core (sl : list cell) (n : N) : Prop :=
  (N.to_nat n <= length sl)%nat /\ n < pmax pbytes /\ asc (firstn (N.to_nat n) sl).
Definition ainv (s : ast) : Prop := ainv_core (aslots s) (alen s).

Definition abs_st (s : ast) : asst := mkAS (N.of_nat (length (aslots s))) (aabs s).

Lemma ainv_keys s : ainv s -> forall i j, i < j -> j < alen s -> (akey s i < akey s j)%Z.
Proof.
  intros [Hl [_ Hs]] i j Hij Hj. unfold akey.
  rewrite <- (nth_firstn_lt (aslots s) (N.to_nat (alen s)) (N.to_nat i)) by lia.
  rewrite <- (nth_firstn_lt (aslots s) (N.to_nat (alen s)) (N.to_nat j)) by lia.
  apply asc_nth; auto; try lia. rewrite firstn_length_le; lia.
Qed.

Lemma aget_ok s i : (N.to_nat i < length (aslots s))%nat ->
  aget s i = Ok (nth (N.to_nat i) (aslots s) cell0).
Proof.
  intros H. unfold aget. rewrite (nth_error_nth' _ cell0 H). reflexivity.
Qed.

(* ------------------------------------------------------------------ *)
(* the loop                                                            *)

(* what a finished search says about the probe *)
Definition search_post (s : ast) (value : cell) (f g : option N) : Prop :=
  (exists i, f = Some i /\ g = None /\ i < alen s /\ akey s i = fst value) \/
  (exists i, f = None /\ g = Some i /\ i <= alen s /\
     (forall j, j < i -> (akey s j < fst value)%Z) /\
     (forall j, i <= j -> j < alen s -> (fst value < akey s j)%Z)).

(* comparisons still to be made when [d = hi - start] positions are undecided *)
Definition cmp_bound (d start : N) : N :=
  if d =? 0 then (if start =? 0 then 1 else 0) else N.log2 d + 1.

Lemma log2_half d d' : 1 <= d' -> 2 * d' <= d -> N.log2 d' + 1 <= N.log2 d.
Proof.
  intros H1 H2. rewrite N.add_1_r. rewrite <- N.log2_double by lia. apply N.log2_le_mono. exact H2.
Qed.

Lemma cmp_bound_step d d' st st' :
  1 <= d -> 2 * d' <= d -> (d' = 0 -> st' = 0 -> d = 2) -> 1 + cmp_bound d' st' <= cmp_bound d st.
Proof.
  intros Hd Hh Hz. unfold cmp_bound.
  destruct (N.eqb_spec d 0) as [E|E]; [lia|].
  destruct (N.eqb_spec d' 0) as [E'|E'].
  - destruct (N.eqb_spec st' 0) as [E2|E2]; [|lia].
    rewrite (Hz E' E2). change (N.log2 2) with 1. lia.
  - pose proof (log2_half d d'). lia.
Qed.

Ltac Zify.zify_post_hook ::= Z.div_mod_to_equations.

Lemma index_loop_spec : forall fuel s value start hi cmps,
  0 < alen s -> (N.to_nat (alen s) <= length (aslots s))%nat ->
  (forall i j, i < j -> j < alen s -> (akey s i < akey s j)%Z) ->
  start <= hi -> hi <= alen s ->
  (forall j, j < start -> (akey s j < fst value)%Z) ->
  (forall j, hi <= j -> j < alen s -> (fst value < akey s j)%Z) ->
  (N.to_nat (hi - start) < fuel)%nat ->
  exists f g c, index_loop fuel s value start (hi - 1) cmps = Ok (f, g, c) /\
    search_post s value f g /\ c <= cmps + cmp_bound (hi - start) start.
Proof.
  induction fuel as [|fu IH]; intros s value start hi cmps Hpos Hlen Hsort Hsh Hhi Hlo Hup Hfuel; [lia|].
  cbn [index_loop].
  destruct (N.leb_spec start (hi - 1)) as [Hle|Hgt].
  - set (middle := start + (hi - 1 - start) / 2).
    assert (Hm1 : start <= middle) by (unfold middle; lia).
    assert (Hm2 : middle <= hi - 1) by (unfold middle; lia).
    assert (Hm3 : middle < alen s) by lia.
    rewrite aget_ok by lia. cbn [bind]. unfold cmp_cell.
    change (fst (nth (N.to_nat middle) (aslots s) cell0)) with (akey s middle).
    destruct (Z.ltb_spec (fst value) (akey s middle)) as [Hlt|Hnlt].
    + (* value < slot: go left *)
      destruct (N.eqb_spec (hi - 1) start) as [Ee|Ene].
      * exists None, (Some start), (cmps + 1). split; [reflexivity|]. split.
        -- right. exists start. repeat split; auto; try lia.
           intros j Hj1 Hj2.
           assert (Hmid : middle = start) by (unfold middle; rewrite Ee; lia).
           destruct (N.eq_dec j start) as [->|Hne]; [rewrite <- Hmid; exact Hlt|].
           apply Hup; lia.
        -- unfold cmp_bound.
           destruct (N.eqb_spec (hi - start) 0) as [E0|E0].
           ++ destruct (N.eqb_spec start 0) as [E1|E1]; lia.
           ++ lia.
      * assert (Hd : start < hi - 1) by lia.
        destruct (IH s value start middle (cmps + 1)) as [f [g [c [Hr [Hp Hc]]]]]; auto; try lia.
        -- intros j Hj1 Hj2. destruct (N.eq_dec j middle) as [->|Hne]; [exact Hlt|].
           specialize (Hsort middle j). lia.
        -- exists f, g, c. split; [exact Hr|]. split; [exact Hp|].
           pose proof (cmp_bound_step (hi - start) (middle - start) start start) as Hb.
           assert (1 + cmp_bound (middle - start) start <= cmp_bound (hi - start) start).
           { apply Hb; unfold middle; lia. }
           lia.
    + assert (Hhm : middle < hi).
      { destruct (N.ltb_spec middle hi) as [Hx|Hx]; [exact Hx|]. specialize (Hup middle). lia. }
      destruct (Z.ltb_spec (akey s middle) (fst value)) as [Hgt|Hngt].
      * (* slot < value: go right *)
        destruct (IH s value (middle + 1) hi (cmps + 1)) as [f [g [c [Hr [Hp Hc]]]]]; auto; try lia.
        -- intros j Hj. destruct (N.eq_dec j middle) as [->|Hne]; [exact Hgt|].
           specialize (Hsort j middle). lia.
        -- exists f, g, c. split; [exact Hr|]. split; [exact Hp|].
           pose proof (cmp_bound_step (hi - start) (hi - (middle + 1)) start (middle + 1)) as Hb.
           assert (1 + cmp_bound (hi - (middle + 1)) (middle + 1) <= cmp_bound (hi - start) start).
           { apply Hb; unfold middle; lia. }
           lia.
      * (* equal keys *)
        exists (Some middle), None, (cmps + 1). split; [reflexivity|]. split.
        -- left. exists middle. repeat split; auto. lia.
        -- unfold cmp_bound. destruct (N.eqb_spec (hi - start) 0) as [E0|E0]; lia.
  - exists None, (Some start), cmps. split; [reflexivity|]. split.
    + right. exists start. repeat split; auto; try lia. intros j Hj1 Hj2. apply Hup; lia.
    + lia.
Qed.

(* the documented bound: ceil(log2(n+1)) = number of binary digits of n *)
Definition lookup_bound (n : N) : N := if n =? 0 then 0 else N.log2 n + 1.

(* item 1 and 2: total, correct, and logarithmic *)
Theorem aindex_correct s value : ainv s ->
  exists f g c, aindex s value = Ok (f, g, c) /\ search_post s value f g /\ c <= lookup_bound (alen s).
Proof.
  intros Hinv. pose proof Hinv as [Hl [Hm Hs]]. unfold aindex, ais_empty, lookup_bound.
  destruct (N.eqb_spec (alen s) 0) as [E|E].
  - exists None, (Some 0), 0. split; [reflexivity|]. split; [|lia].
    right. exists 0. repeat split; auto; intros; lia.
  - destruct (index_loop_spec (S (S (N.to_nat (alen s)))) s value 0 (alen s) 0)
      as [f [g [c [Hr [Hp Hc]]]]]; auto; try lia.
    + apply ainv_keys; auto.
    + exists f, g, c. split; [exact Hr|]. split; [exact Hp|].
      unfold cmp_bound in Hc. rewrite N.sub_0_r in Hc.
      destruct (N.eqb_spec (alen s) 0); lia.
Qed.

(* the insertion point is determined by the two key conditions *)
Lemma insertion_point_unique s k i i' :
  i <= alen s -> i' <= alen s ->
  (forall j, j < i -> (akey s j < k)%Z) -> (forall j, i <= j -> j < alen s -> (k < akey s j)%Z) ->
  (forall j, j < i' -> (akey s j < k)%Z) -> (forall j, i' <= j -> j < alen s -> (k < akey s j)%Z) ->
  i = i'.
Proof.
  intros Hi Hi' L U L' U'.
  destruct (N.lt_trichotomy i i') as [H|[H|H]]; [|exact H|].
  - specialize (L' i H). specialize (U i). lia.
  - specialize (L i' H). specialize (U' i'). lia.
Qed.

Corollary aindex_total s value : ainv s -> exists r, aindex s value = Ok r.
Proof. intros H. destruct (aindex_correct s value H) as [f [g [c [Hr _]]]]. eauto. Qed.

Corollary aindex_cost s value r c : ainv s -> aindex s value = Ok (r, c) ->
  (alen s = 0 -> c = 0) /\ (1 <= alen s -> c <= N.log2 (alen s) + 1).
Proof.
  intros H Hr. destruct (aindex_correct s value H) as [f [g [c' [Hr' [_ Hc]]]]].
  rewrite Hr in Hr'. injection Hr' as _ ->. unfold lookup_bound in Hc.
  destruct (N.eqb_spec (alen s) 0); split; intros; lia.
Qed.

(* the search looks at the slots and the count only *)
Lemma index_loop_frame s2 s : aslots s2 = aslots s ->
  forall fuel value start end_ cmps,
  index_loop fuel s2 value start end_ cmps = index_loop fuel s value start end_ cmps.
Proof.
  intros Hs. induction fuel as [|fu IH]; intros value start end_ cmps; [reflexivity|].
  cbn [index_loop]. unfold aget. rewrite Hs.
  destruct (start <=? end_); [|reflexivity].
  destruct (nth_error (aslots s) (N.to_nat (start + (end_ - start) / 2))) as [c|]; cbn [bind]; [|reflexivity].
  destruct (cmp_cell value c); try rewrite !IH; reflexivity.
Qed.

Lemma aindex_frame s2 s value : aslots s2 = aslots s -> alen s2 = alen s -> aindex s2 value = aindex s value.
Proof.
  intros Hs Hn. unfold aindex, ais_empty. rewrite Hn. rewrite (index_loop_frame s2 s Hs). reflexivity.
Qed.

(* ------------------------------------------------------------------ *)
(* the search result as a split of the member list                     *)

Lemma below_nth l k : (forall j, (j < length l)%nat -> (fst (nth j l cell0) < k)%Z) -> below k l.
Proof. intros H. apply Forall_nth. intros i d Hi. rewrite (@nth_indep (Z * Z)%type l i d cell0 Hi). apply H; auto. Qed.

Lemma above_nth l k : (forall j, (j < length l)%nat -> (k < fst (nth j l cell0))%Z) -> above k l.
Proof. intros H. apply Forall_nth. intros i d Hi. rewrite (@nth_indep (Z * Z)%type l i d cell0 Hi). apply H; auto. Qed.

Inductive search_split (s : ast) (value : cell) : option N -> option N -> Prop :=
| ss_found l1 x l2 :
    aabs s = l1 ++ x :: l2 -> fst x = fst value ->
    below (fst value) l1 -> above (fst value) l2 ->
    search_split s value (Some (N.of_nat (length l1))) None
| ss_absent l1 l2 :
    aabs s = l1 ++ l2 -> below (fst value) l1 -> above (fst value) l2 ->
    search_split s value None (Some (N.of_nat (length l1))).

Lemma nth_skipn_add {A} (l : list A) i j d : nth j (skipn i l) d = nth (i + j) l d.
Proof.
  revert l; induction i as [|i IH]; intros l; [reflexivity|].
  destruct l as [|x l]; cbn [skipn Nat.add nth]; [destruct j; reflexivity | apply IH].
Qed.

Theorem aindex_split s value : ainv s ->
  exists f g c, aindex s value = Ok (f, g, c) /\ search_split s value f g /\ c <= lookup_bound (alen s).
Proof.
  intros Hinv. destruct (aindex_correct s value Hinv) as [f [g [c [Hr [Hp Hc]]]]].
  exists f, g, c. split; [exact Hr|]. split; [|exact Hc].
  pose proof Hinv as [Hl [Hm Hs]]. pose proof (aabs_length s Hl) as Hlen.
  assert (Hkey : forall j, (j < N.to_nat (alen s))%nat -> fst (nth j (aabs s) cell0) = akey s (N.of_nat j)).
  { intros j Hj. unfold aabs, akey. rewrite nth_firstn_lt by lia. rewrite Nat2N.id. reflexivity. }
  destruct Hp as [[i [-> [-> [Hi Hk]]]] | [i [-> [-> [Hi [Hlo Hup]]]]]].
  - pose proof (firstn_skipn_nth (aabs s) (N.to_nat i) cell0) as Hsp.
    assert (Hil : (N.to_nat i < length (aabs s))%nat) by lia. specialize (Hsp Hil).
    assert (Hx : fst (nth (N.to_nat i) (aabs s) cell0) = fst value).
    { rewrite Hkey by lia. rewrite N2Nat.id. exact Hk. }
    assert (Hasc : asc (aabs s)) by exact Hs.
    rewrite Hsp in Hasc. apply asc_split in Hasc. rewrite Hx in Hasc. destruct Hasc as [Hb Ha].
    replace i with (N.of_nat (length (firstn (N.to_nat i) (aabs s)))) at 1
      by (rewrite firstn_length_le by lia; apply N2Nat.id).
    eapply ss_found; eauto.
  - replace i with (N.of_nat (length (firstn (N.to_nat i) (aabs s))))
      by (rewrite firstn_length_le by lia; apply N2Nat.id).
    apply ss_absent with (l2 := skipn (N.to_nat i) (aabs s)).
    + symmetry. apply firstn_skipn.
    + apply below_nth. intros j Hj. rewrite firstn_length_le in Hj by lia.
      rewrite nth_firstn_lt by lia. rewrite Hkey by lia. apply Hlo. lia.
    + apply above_nth. intros j Hj. rewrite skipn_length in Hj.
      rewrite nth_skipn_add. rewrite Hkey by lia. apply Hup; lia.
Qed.

(* ------------------------------------------------------------------ *)
(* the member list against the specification's functions               *)

Lemma as_find_below l1 l2 k : below k l1 -> as_find (l1 ++ l2) k = as_find l2 k.
Proof.
  induction 1 as [|y l1 Hy Hr IH]; cbn [app as_find]; [reflexivity|].
  destruct (Z.eqb_spec k (fst y)); [lia | exact IH].
Qed.

Lemma as_find_above l k : above k l -> as_find l k = None.
Proof.
  induction 1 as [|y l Hy Hr IH]; cbn [as_find]; [reflexivity|].
  destruct (Z.eqb_spec k (fst y)); [lia | exact IH].
Qed.

Lemma as_find_found l1 x l2 k : below k l1 -> fst x = k -> as_find (l1 ++ x :: l2) k = Some x.
Proof.
  intros Hb E. rewrite as_find_below by exact Hb. cbn [as_find].
  destruct (Z.eqb_spec k (fst x)); [reflexivity | congruence].
Qed.

Lemma as_find_absent l1 l2 k : below k l1 -> above k l2 -> as_find (l1 ++ l2) k = None.
Proof. intros Hb Ha. rewrite as_find_below by exact Hb. apply as_find_above; exact Ha. Qed.

Lemma as_insert_absent l1 l2 v : below (fst v) l1 -> above (fst v) l2 -> as_insert (l1 ++ l2) v = l1 ++ v :: l2.
Proof.
  intros Hb Ha. induction Hb as [|y l1 Hy Hr IH]; cbn [app as_insert].
  - destruct Ha as [|y l2 Hy Hr]; cbn [as_insert]; [reflexivity|].
    destruct (Z.ltb_spec (fst v) (fst y)); [reflexivity | lia].
  - destruct (Z.ltb_spec (fst v) (fst y)); [lia|].
    destruct (Z.eqb_spec (fst v) (fst y)); [lia|]. rewrite IH. reflexivity.
Qed.

Lemma as_remove_above l k : above k l -> as_remove l k = l.
Proof.
  induction 1 as [|y l Hy Hr IH]; cbn [as_remove]; [reflexivity|].
  destruct (Z.eqb_spec k (fst y)); [lia | now rewrite IH].
Qed.

Lemma as_remove_found l1 x l2 k : below k l1 -> fst x = k -> as_remove (l1 ++ x :: l2) k = l1 ++ l2.
Proof.
  intros Hb E. induction Hb as [|y l1 Hy Hr IH]; cbn [app as_remove].
  - destruct (Z.eqb_spec k (fst x)); [reflexivity | congruence].
  - destruct (Z.eqb_spec k (fst y)); [lia | now rewrite IH].
Qed.

Lemma as_remove_absent l1 l2 k : below k l1 -> above k l2 -> as_remove (l1 ++ l2) k = l1 ++ l2.
Proof.
  intros Hb Ha. induction Hb as [|y l1 Hy Hr IH]; cbn [app as_remove].
  - apply as_remove_above; exact Ha.
  - destruct (Z.eqb_spec k (fst y)); [lia | now rewrite IH].
Qed.

Lemma as_update_above l k new : above k l -> as_update l k new = l.
Proof.
  induction 1 as [|y l Hy Hr IH]; cbn [as_update]; [reflexivity|].
  destruct (Z.eqb_spec k (fst y)); [lia | now rewrite IH].
Qed.

Lemma as_update_found l1 x l2 k new : below k l1 -> fst x = k ->
  as_update (l1 ++ x :: l2) k new = l1 ++ new :: l2.
Proof.
  intros Hb E. induction Hb as [|y l1 Hy Hr IH]; cbn [app as_update].
  - destruct (Z.eqb_spec k (fst x)); [reflexivity | congruence].
  - destruct (Z.eqb_spec k (fst y)); [lia | now rewrite IH].
Qed.

Lemma as_update_absent l1 l2 k new : below k l1 -> above k l2 -> as_update (l1 ++ l2) k new = l1 ++ l2.
Proof.
  intros Hb Ha. induction Hb as [|y l1 Hy Hr IH]; cbn [app as_update].
  - apply as_update_above; exact Ha.
  - destruct (Z.eqb_spec k (fst y)); [lia | now rewrite IH].
Qed.

(* ------------------------------------------------------------------ *)
(* item 3: get / contains                                              *)

Lemma aget_member s l1 x l2 :
  (N.to_nat (alen s) <= length (aslots s))%nat -> aabs s = l1 ++ x :: l2 ->
  aget s (N.of_nat (length l1)) = Ok x.
Proof.
  intros Hl Ha. unfold aget. rewrite Nat2N.id. rewrite (aslots_split s), Ha.
  rewrite <- app_assoc. rewrite nth_error_app2 by lia. rewrite Nat.sub_diag. reflexivity.
Qed.

Theorem aget_val_correct s value : ainv s ->
  exists c, aget_val s value = Ok (as_find (aabs s) (fst value), c) /\ c <= lookup_bound (alen s).
Proof.
  intros Hinv. destruct (aindex_split s value Hinv) as [f [g [c [Hr [Hp Hc]]]]].
  exists c. split; [|exact Hc]. unfold aget_val. rewrite Hr. cbn [bind].
  destruct Hp as [l1 x l2 Ha Hx Hb Hab | l1 l2 Ha Hb Hab].
  - rewrite (aget_member s l1 x l2 (proj1 Hinv) Ha). cbn [bind].
    rewrite Ha, as_find_found; auto.
  - rewrite Ha, as_find_absent; auto.
Qed.

Theorem acontains_correct s value : ainv s ->
  exists c, acontains s value =
    Ok (match as_find (aabs s) (fst value) with Some _ => true | None => false end, c) /\
    c <= lookup_bound (alen s).
Proof.
  intros Hinv. destruct (aget_val_correct s value Hinv) as [c [Hr Hc]].
  exists c. split; [|exact Hc]. unfold acontains. rewrite Hr. reflexivity.
Qed.

Corollary aget_contains_spec s value : ainv s ->
  (exists c, aget_val s value = Ok (as_find (aabs s) (fst value), c)) /\
  (exists c, acontains s value =
     Ok (match as_find (aabs s) (fst value) with Some _ => true | None => false end, c)).
Proof.
  intros H. split.
  - destruct (aget_val_correct s value H) as [c [E _]]. eauto.
  - destruct (acontains_correct s value H) as [c [E _]]. eauto.
Qed.

End Prefix.
