(* Laws of the sorted-set specification itself (layer S of the array sets):
   over strictly ascending member lists, [as_insert]/[as_remove]/[as_update]
   and [as_find] are the operations of a finite map keyed by the first
   component - a lookup after an insertion, removal or update answers for the
   touched key exactly what was done and for every other key what it answered
   before, and the list stays strictly ascending.  Together with the
   refinement theorem (Arr/Refine.v) this turns "behaves as the spec" into
   "behaves as a set": the clauses of C03 about other members are corollaries. *)
From Coq Require Import List NArith ZArith Bool Lia Sorted.
From Stevia Require Import Base.Res Arr.Impl Arr.Spec Arr.Search Arr.Refine.
Import ListNotations.

Lemma asc_cons_inv x l : asc (x :: l) -> asc l /\ above (fst x) l.
Proof.
  intros H. inversion H as [|a b Hs Hf]; subst. split; [exact Hs|].
  unfold above. eapply Forall_impl; [|exact Hf]. intros y Hy; exact Hy.
Qed.

Lemma asc_cons x l : asc l -> above (fst x) l -> asc (x :: l).
Proof.
  intros Hs Ha. constructor; [exact Hs|].
  unfold above in Ha. eapply Forall_impl; [|exact Ha]. intros y Hy; exact Hy.
Qed.

Lemma above_trans k k' l : (k <= k')%Z -> above k' l -> above k l.
Proof. intros Hk Ha. unfold above in *. eapply Forall_impl; [|exact Ha]. intros y Hy; cbn beta in *; lia. Qed.

(* lookups see insertions *)
Lemma as_find_insert_same : forall m c, as_find m (fst c) = None ->
  as_find (as_insert m c) (fst c) = Some c.
Proof.
  induction m as [|x r IH]; intros c Hn; cbn [as_insert as_find] in *.
  - rewrite Z.eqb_refl. reflexivity.
  - destruct (fst c =? fst x)%Z eqn:E; [discriminate|].
    destruct (fst c <? fst x)%Z eqn:L; cbn [as_find].
    + rewrite Z.eqb_refl. reflexivity.
    + rewrite E. apply IH. exact Hn.
Qed.

Lemma as_find_insert_other : forall m c k, k <> fst c ->
  as_find (as_insert m c) k = as_find m k.
Proof.
  induction m as [|x r IH]; intros c k Hk; cbn [as_insert as_find].
  - destruct (k =? fst c)%Z eqn:E; [apply Z.eqb_eq in E; contradiction | reflexivity].
  - destruct (fst c <? fst x)%Z eqn:L; cbn [as_find].
    + destruct (k =? fst c)%Z eqn:E; [apply Z.eqb_eq in E; contradiction | reflexivity].
    + destruct (fst c =? fst x)%Z eqn:E2; cbn [as_find]; [reflexivity|].
      destruct (k =? fst x)%Z; [reflexivity | apply IH; exact Hk].
Qed.

(* an insertion of a present key changes nothing (the set never overwrites) *)
Lemma as_insert_present : forall m c, asc m -> as_find m (fst c) <> None -> as_insert m c = m.
Proof.
  induction m as [|x r IH]; intros c Hs Hp; cbn [as_insert as_find] in *; [contradiction Hp; reflexivity|].
  apply asc_cons_inv in Hs. destruct Hs as [Hs Ha].
  destruct (fst c =? fst x)%Z eqn:E.
  - apply Z.eqb_eq in E. destruct (fst c <? fst x)%Z eqn:L; [apply Z.ltb_lt in L; lia | reflexivity].
  - destruct (fst c <? fst x)%Z eqn:L.
    + exfalso. apply Hp. apply as_find_above. apply Z.ltb_lt in L.
      apply above_trans with (k' := fst x); [lia | exact Ha].
    + f_equal. apply IH; assumption.
Qed.

Lemma as_insert_asc : forall m c, asc m -> asc (as_insert m c).
Proof.
  induction m as [|x r IH]; intros c Hs; cbn [as_insert].
  - apply asc_cons; [constructor | constructor].
  - destruct (asc_cons_inv _ _ Hs) as [Hr Ha].
    destruct (fst c <? fst x)%Z eqn:L.
    + apply Z.ltb_lt in L. apply asc_cons; [exact Hs|].
      constructor; [exact L | apply above_trans with (k' := fst x); [lia | exact Ha]].
    + destruct (fst c =? fst x)%Z eqn:E; [exact Hs|].
      apply Z.ltb_ge in L. apply Z.eqb_neq in E.
      apply asc_cons; [apply IH; exact Hr|].
      (* every member of the new tail is above x *)
      clear IH Hs. revert Ha. clear Hr. induction r as [|y r IHr]; intros Ha; cbn [as_insert].
      * constructor; [lia | constructor].
      * inversion Ha as [|a b Hy Hr']; subst.
        destruct (fst c <? fst y)%Z; [constructor; [lia | exact Ha]|].
        destruct (fst c =? fst y)%Z; [exact Ha|].
        constructor; [exact Hy | apply IHr; exact Hr'].
Qed.

Lemma as_insert_length : forall m c, as_find m (fst c) = None ->
  length (as_insert m c) = S (length m).
Proof.
  induction m as [|x r IH]; intros c Hn; cbn [as_insert as_find length] in *; [reflexivity|].
  destruct (fst c =? fst x)%Z eqn:E; [discriminate|].
  destruct (fst c <? fst x)%Z; cbn [length]; [reflexivity | rewrite IH; [reflexivity | exact Hn]].
Qed.

(* lookups see removals *)
Lemma as_find_remove_same : forall m k, asc m -> as_find (as_remove m k) k = None.
Proof.
  induction m as [|x r IH]; intros k Hs; cbn [as_remove as_find]; [reflexivity|].
  destruct (asc_cons_inv _ _ Hs) as [Hr Ha].
  destruct (k =? fst x)%Z eqn:E.
  - apply Z.eqb_eq in E. subst k. apply as_find_above. exact Ha.
  - cbn [as_find]. rewrite E. apply IH. exact Hr.
Qed.

Lemma as_find_remove_other : forall m k k', k' <> k ->
  as_find (as_remove m k) k' = as_find m k'.
Proof.
  induction m as [|x r IH]; intros k k' Hk; cbn [as_remove as_find]; [reflexivity|].
  destruct (k =? fst x)%Z eqn:E.
  - apply Z.eqb_eq in E. destruct (k' =? fst x)%Z eqn:E2; [apply Z.eqb_eq in E2; lia | reflexivity].
  - cbn [as_find]. destruct (k' =? fst x)%Z; [reflexivity | apply IH; exact Hk].
Qed.

Lemma as_remove_absent_same : forall m k, as_find m k = None -> as_remove m k = m.
Proof.
  induction m as [|x r IH]; intros k Hn; cbn [as_remove as_find] in *; [reflexivity|].
  destruct (k =? fst x)%Z; [discriminate | f_equal; apply IH; exact Hn].
Qed.

Lemma as_remove_above_keep k : forall m k', above k' m -> above k' (as_remove m k).
Proof.
  induction m as [|x r IH]; intros k' Ha; cbn [as_remove]; [exact Ha|].
  inversion Ha as [|a b Hx Hr]; subst.
  destruct (k =? fst x)%Z; [exact Hr | constructor; [exact Hx | apply IH; exact Hr]].
Qed.

Lemma as_remove_asc : forall m k, asc m -> asc (as_remove m k).
Proof.
  induction m as [|x r IH]; intros k Hs; cbn [as_remove]; [exact Hs|].
  destruct (asc_cons_inv _ _ Hs) as [Hr Ha].
  destruct (k =? fst x)%Z; [exact Hr|].
  apply asc_cons; [apply IH; exact Hr | apply as_remove_above_keep; exact Ha].
Qed.

Lemma as_remove_length : forall m k, as_find m k <> None ->
  S (length (as_remove m k)) = length m.
Proof.
  induction m as [|x r IH]; intros k Hp; cbn [as_remove as_find length] in *; [contradiction Hp; reflexivity|].
  destruct (k =? fst x)%Z; [reflexivity | cbn [length]; rewrite IH; [reflexivity | exact Hp]].
Qed.

(* get_mut: a write through the reference that keeps the key replaces that member only *)
Lemma as_find_update_same : forall m k new, fst new = k -> as_find m k <> None ->
  as_find (as_update m k new) k = Some new.
Proof.
  induction m as [|x r IH]; intros k new Hk Hp; cbn [as_update as_find] in *; [contradiction Hp; reflexivity|].
  destruct (k =? fst x)%Z eqn:E; cbn [as_find].
  - rewrite Hk, Z.eqb_refl. reflexivity.
  - rewrite E. apply IH; assumption.
Qed.

Lemma as_find_update_other : forall m k new k', fst new = k -> k' <> k ->
  as_find (as_update m k new) k' = as_find m k'.
Proof.
  induction m as [|x r IH]; intros k new k' Hn Hk; cbn [as_update as_find]; [reflexivity|].
  destruct (k =? fst x)%Z eqn:E; cbn [as_find].
  - apply Z.eqb_eq in E. rewrite Hn.
    destruct (k' =? k)%Z eqn:E1; [apply Z.eqb_eq in E1; contradiction|].
    destruct (k' =? fst x)%Z eqn:E2; [apply Z.eqb_eq in E2; lia | reflexivity].
  - destruct (k' =? fst x)%Z; [reflexivity | apply IH; assumption].
Qed.

Lemma as_update_length : forall m k new, length (as_update m k new) = length m.
Proof.
  induction m as [|x r IH]; intros k new; cbn [as_update length]; [reflexivity|].
  destruct (k =? fst x)%Z; cbn [length]; [reflexivity | rewrite IH; reflexivity].
Qed.

(* a member found under key k carries key k *)
Lemma as_find_key : forall m k c, as_find m k = Some c -> fst c = k.
Proof.
  induction m as [|x r IH]; intros k c H; cbn [as_find] in H; [discriminate|].
  destruct (k =? fst x)%Z eqn:E; [apply Z.eqb_eq in E; injection H as Hx; subst c; symmetry; exact E | apply IH; exact H].
Qed.

(* membership in the list view is membership by lookup *)
Lemma as_find_In : forall m c, asc m -> (In c m <-> as_find m (fst c) = Some c).
Proof.
  induction m as [|x r IH]; intros c Hs; cbn [In as_find]; [split; [contradiction | discriminate]|].
  destruct (asc_cons_inv _ _ Hs) as [Hr Ha].
  destruct (fst c =? fst x)%Z eqn:E.
  - apply Z.eqb_eq in E. split.
    + intros [H|H]; [subst; reflexivity|]. exfalso.
      unfold above in Ha. rewrite Forall_forall in Ha. specialize (Ha _ H). lia.
    + intros H. inversion H. left; reflexivity.
  - apply Z.eqb_neq in E. rewrite <- IH by exact Hr. split.
    + intros [H|H]; [subst; contradiction E; reflexivity | exact H].
    + intros H; right; exact H.
Qed.

(* all laws at once, in the shape the property file states them *)
Theorem sorted_set_laws : forall m, asc m ->
  (forall c, as_find m (fst c) = None ->
     asc (as_insert m c) /\ length (as_insert m c) = S (length m) /\
     as_find (as_insert m c) (fst c) = Some c /\
     forall k, k <> fst c -> as_find (as_insert m c) k = as_find m k) /\
  (forall c, as_find m (fst c) <> None -> as_insert m c = m) /\
  (forall k, asc (as_remove m k) /\ as_find (as_remove m k) k = None /\
     (forall k', k' <> k -> as_find (as_remove m k) k' = as_find m k') /\
     (as_find m k = None -> as_remove m k = m) /\
     (as_find m k <> None -> S (length (as_remove m k)) = length m)) /\
  (forall k new, fst new = k -> as_find m k <> None ->
     as_find (as_update m k new) k = Some new /\ length (as_update m k new) = length m /\
     forall k', k' <> k -> as_find (as_update m k new) k' = as_find m k') /\
  (forall c, In c m <-> as_find m (fst c) = Some c).
Proof.
  intros m Hs. repeat split.
  - apply as_insert_asc; exact Hs.
  - apply as_insert_length; assumption.
  - apply as_find_insert_same; assumption.
  - intros k Hk. apply as_find_insert_other; exact Hk.
  - intros c Hp. apply as_insert_present; assumption.
  - apply as_remove_asc; exact Hs.
  - apply as_find_remove_same; exact Hs.
  - intros k' Hk. apply as_find_remove_other; exact Hk.
  - apply as_remove_absent_same.
  - apply as_remove_length.
  - apply as_find_update_same; assumption.
  - apply as_update_length.
  - intros k' Hk. apply as_find_update_other; assumption.
  - apply as_find_In; exact Hs.
  - apply as_find_In; exact Hs.
Qed.

(* ... and therefore of the member list of every reachable state of the concrete model *)
Definition set_laws (m : list cell) : Prop :=
  (forall c, as_find m (fst c) = None ->
     asc (as_insert m c) /\ length (as_insert m c) = S (length m) /\
     as_find (as_insert m c) (fst c) = Some c /\
     forall k, k <> fst c -> as_find (as_insert m c) k = as_find m k) /\
  (forall c, as_find m (fst c) <> None -> as_insert m c = m) /\
  (forall k, asc (as_remove m k) /\ as_find (as_remove m k) k = None /\
     (forall k', k' <> k -> as_find (as_remove m k) k' = as_find m k') /\
     (as_find m k = None -> as_remove m k = m) /\
     (as_find m k <> None -> S (length (as_remove m k)) = length m)) /\
  (forall k new, fst new = k -> as_find m k <> None ->
     as_find (as_update m k new) k = Some new /\ length (as_update m k new) = length m /\
     forall k', k' <> k -> as_find (as_update m k new) k' = as_find m k') /\
  (forall c, In c m <-> as_find m (fst c) = Some c).

Theorem areach_set_laws pbytes pre post nslots s :
  areach pbytes (ainit_c pre post nslots) s -> asc (aabs s) /\ set_laws (aabs s).
Proof.
  intros Hr. destruct (areach_slice_view pbytes pre post nslots s Hr) as [_ [Hs _]].
  split; [exact Hs | exact (sorted_set_laws _ Hs)].
Qed.

(* the laws say something: on a three-member list every clause has a witness *)
Example set_laws_example :
  let m := [(3, 30); (5, 50); (9, 90)]%Z in
  asc m /\ as_insert m (4, 40)%Z = [(3, 30); (4, 40); (5, 50); (9, 90)]%Z /\
  as_insert m (5, 51)%Z = m /\ as_remove m 5%Z = [(3, 30); (9, 90)]%Z /\
  as_update m 9%Z (9, 91)%Z = [(3, 30); (5, 50); (9, 91)]%Z /\ as_find m 4%Z = None.
Proof.
  cbv zeta. split; [|vm_compute; repeat split; reflexivity].
  repeat (apply asc_cons; [|repeat constructor; cbn; lia]). constructor.
Qed.
