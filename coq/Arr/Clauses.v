(* The user-level clauses of C03 on the concrete model: what a lookup answers
   AFTER a mutating operation, for the touched key and for every other key.
   Obtained by composing the refinement of one step (Arr/Refine.v), the
   lookup characterisation (Arr/Search.v) and the laws of the specification
   (Arr/SpecLaws.v). *)
From Coq Require Import List NArith ZArith Bool Lia.
From Stevia Require Import Base.Res Arr.Impl Arr.Spec Arr.Search Arr.Refine Arr.SpecLaws.
Import ListNotations.

Section P.
Variable pbytes : N.

Lemma step_spec s o s' out c : ainv pbytes s -> aop_ok o -> astep_c pbytes s o = Ok (s', out, c) ->
  ainv pbytes s' /\ (abs_st s', out) = aspec_step pbytes (abs_st s) o.
Proof.
  intros Hi Hok Hrun. destruct (astep_refines pbytes s o Hi Hok) as [s2 [out2 [c2 [E [Hi2 Hsp]]]]].
  rewrite Hrun in E. injection E as <- <- <-. split; assumption.
Qed.

Lemma get_after s v : ainv pbytes s -> exists c, aget_val s v = Ok (as_find (aabs s) (fst v), c).
Proof. intros Hi. exact (proj1 (aget_contains_spec pbytes s v Hi)). Qed.

Lemma ainv_asc s : ainv pbytes s -> asc (aabs s).
Proof. intros [_ [_ H]]. exact H. Qed.

(* a successful insert: the new value is found under its key, every other key answers as before *)
Theorem insert_then_get s c s' n : ainv pbytes s -> astep_c pbytes s (AInsert c) = Ok (s', ABool true, n) ->
  ainv pbytes s' /\ as_find (aabs s) (fst c) = None /\ aabs s' = as_insert (aabs s) c /\
  forall v, exists k, aget_val s' v =
    Ok (if (fst v =? fst c)%Z then Some c else as_find (aabs s) (fst v), k).
Proof.
  intros Hi Hrun. destruct (step_spec s (AInsert c) s' _ n Hi I Hrun) as [Hi' Hsp].
  cbn [aspec_step abs_st asmem asbound_slots] in Hsp.
  destruct (as_find (aabs s) (fst c)) eqn:F; [discriminate|].
  match type of Hsp with context [if ?b then _ else _] => destruct b end; [discriminate|].
  injection Hsp as _ Habs. unfold abs_st in *.
  split; [exact Hi'|]. split; [reflexivity|]. split; [exact Habs|].
  intros v. destruct (get_after s' v Hi') as [k E]. exists k. rewrite E, Habs.
  destruct (fst v =? fst c)%Z eqn:Ek.
  - apply Z.eqb_eq in Ek. rewrite Ek. rewrite as_find_insert_same by exact F. reflexivity.
  - apply Z.eqb_neq in Ek. rewrite as_find_insert_other by exact Ek. reflexivity.
Qed.

(* a refused insert (present key, or full): nothing a lookup can see changes *)
Theorem insert_refused_then_get s c s' n : ainv pbytes s -> astep_c pbytes s (AInsert c) = Ok (s', ABool false, n) ->
  ainv pbytes s' /\ aabs s' = aabs s.
Proof.
  intros Hi Hrun. destruct (step_spec s (AInsert c) s' _ n Hi I Hrun) as [Hi' Hsp].
  cbn [aspec_step abs_st asmem asbound_slots] in Hsp. split; [exact Hi'|].
  destruct (as_find (aabs s) (fst c)); [injection Hsp as _ H; exact H|].
  match type of Hsp with context [if ?b then _ else _] => destruct b end;
    [injection Hsp as _ H; exact H | discriminate].
Qed.

(* remove / take: the key is gone, the answer tells whether (which value) it was there, other keys answer as before *)
Theorem remove_then_get s c s' b n : ainv pbytes s -> astep_c pbytes s (ARemove c) = Ok (s', ABool b, n) ->
  ainv pbytes s' /\ b = (match as_find (aabs s) (fst c) with Some _ => true | None => false end) /\
  aabs s' = as_remove (aabs s) (fst c) /\
  forall v, exists k, aget_val s' v =
    Ok (if (fst v =? fst c)%Z then None else as_find (aabs s) (fst v), k).
Proof.
  intros Hi Hrun. destruct (step_spec s (ARemove c) s' _ n Hi I Hrun) as [Hi' Hsp].
  cbn [aspec_step abs_st asmem asbound_slots] in Hsp. injection Hsp as _ Habs Hb.
  split; [exact Hi'|]. split; [exact Hb|]. split; [exact Habs|].
  intros v. destruct (get_after s' v Hi') as [k E]. exists k. rewrite E, Habs.
  destruct (fst v =? fst c)%Z eqn:Ek.
  - apply Z.eqb_eq in Ek. rewrite Ek. rewrite as_find_remove_same by (apply ainv_asc; exact Hi). reflexivity.
  - apply Z.eqb_neq in Ek. rewrite as_find_remove_other by exact Ek. reflexivity.
Qed.

Theorem take_then_get s c s' r n : ainv pbytes s -> astep_c pbytes s (ATake c) = Ok (s', ACell r, n) ->
  ainv pbytes s' /\ r = as_find (aabs s) (fst c) /\ aabs s' = as_remove (aabs s) (fst c) /\
  forall v, exists k, aget_val s' v =
    Ok (if (fst v =? fst c)%Z then None else as_find (aabs s) (fst v), k).
Proof.
  intros Hi Hrun. destruct (step_spec s (ATake c) s' _ n Hi I Hrun) as [Hi' Hsp].
  cbn [aspec_step abs_st asmem asbound_slots] in Hsp. injection Hsp as _ Habs Hr.
  split; [exact Hi'|]. split; [exact Hr|]. split; [exact Habs|].
  intros v. destruct (get_after s' v Hi') as [k E]. exists k. rewrite E, Habs.
  destruct (fst v =? fst c)%Z eqn:Ek.
  - apply Z.eqb_eq in Ek. rewrite Ek. rewrite as_find_remove_same by (apply ainv_asc; exact Hi). reflexivity.
  - apply Z.eqb_neq in Ek. rewrite as_find_remove_other by exact Ek. reflexivity.
Qed.

(* get_mut with a write that keeps the key: that member is replaced, no other *)
Theorem get_mut_then_get s c new s' r n : ainv pbytes s -> fst new = fst c ->
  astep_c pbytes s (AGetMut c new) = Ok (s', ACell r, n) ->
  ainv pbytes s' /\ r = as_find (aabs s) (fst c) /\
  forall v, exists k, aget_val s' v =
    Ok (if (fst v =? fst c)%Z then (match r with Some _ => Some new | None => None end)
        else as_find (aabs s) (fst v), k).
Proof.
  intros Hi Hnew Hrun. destruct (step_spec s (AGetMut c new) s' _ n Hi Hnew Hrun) as [Hi' Hsp].
  cbn [aspec_step abs_st asmem asbound_slots] in Hsp. injection Hsp as _ Habs Hr.
  split; [exact Hi'|]. split; [exact Hr|].
  intros v. destruct (get_after s' v Hi') as [k E]. exists k. rewrite E, Habs.
  destruct (fst v =? fst c)%Z eqn:Ek.
  - apply Z.eqb_eq in Ek. rewrite Ek. subst r. destruct (as_find (aabs s) (fst c)) eqn:F.
    + rewrite as_find_update_same; [reflexivity | exact Hnew | rewrite F; discriminate].
    + f_equal. f_equal. clear E Habs. revert F. generalize (aabs s) as m. induction m as [|x m IH]; intros F; cbn [as_update as_find] in *; [reflexivity|].
      destruct (fst c =? fst x)%Z eqn:Ex; [discriminate|]. cbn [as_find]. rewrite Ex. apply IH. exact F.
  - apply Z.eqb_neq in Ek. rewrite as_find_update_other by assumption. reflexivity.
Qed.

(* insert is accepted exactly when the key is absent and the count is below both the slot count and the largest
   count the prefix can record; an accepted insert raises the count by exactly one *)
Theorem insert_accepts_iff s c s' b n : ainv pbytes s -> astep_c pbytes s (AInsert c) = Ok (s', ABool b, n) ->
  b = (match as_find (aabs s) (fst c) with
       | Some _ => false
       | None => negb (N.min (N.of_nat (length (aslots s))) (pmax pbytes - 1) <=? alen s)%N
       end) /\
  alen s' = (if b then alen s + 1 else alen s)%N /\ length (aslots s') = length (aslots s).
Proof.
  intros Hi Hrun. destruct (step_spec s (AInsert c) s' _ n Hi I Hrun) as [Hi' Hsp].
  assert (Hlen : forall t, ainv pbytes t -> N.of_nat (length (aabs t)) = alen t).
  { intros t [Hl _]. rewrite aabs_length by exact Hl. apply N2Nat.id. }
  cbn [aspec_step abs_st asmem asbound_slots] in Hsp. unfold as_bound, as_len in Hsp.
  unfold abs_st in Hsp. cbn [asmem asbound_slots] in Hsp. rewrite (Hlen s Hi) in Hsp.
  assert (Hl' := Hlen s' Hi').
  destruct (as_find (aabs s) (fst c)) eqn:F.
  - injection Hsp as Hsl Habs Hb. subst b. split; [reflexivity|]. split.
    + rewrite <- Hl', Habs. apply Hlen. exact Hi.
    + apply Nat2N.inj. exact Hsl.
  - destruct (N.min (N.of_nat (length (aslots s))) (pmax pbytes - 1) <=? alen s)%N eqn:Efull.
    + injection Hsp as Hsl Habs Hb. subst b. split; [reflexivity|]. split.
      * rewrite <- Hl', Habs. apply Hlen. exact Hi.
      * apply Nat2N.inj. exact Hsl.
    + injection Hsp as Hsl Habs Hb. subst b. split; [reflexivity|]. split.
      * rewrite <- Hl', Habs. rewrite as_insert_length by exact F. rewrite Nat2N.inj_succ, (Hlen s Hi). lia.
      * apply Nat2N.inj. exact Hsl.
Qed.

(* ---- exactly [bound - count] further distinct new values fit, whatever the history that led to the state ---- *)
Definition abound (s : ast) : N := N.min (N.of_nat (length (aslots s))) (pmax pbytes - 1).

Fixpoint afill (s : ast) (cs : list cell) : option ast :=
  match cs with
  | [] => Some s
  | c :: r => match astep_c pbytes s (AInsert c) with
              | Ok (s', ABool true, _) => afill s' r
              | _ => None
              end
  end.

Lemma afill_fits : forall cs s, ainv pbytes s -> NoDup (map fst cs) ->
  (forall c, In c cs -> as_find (aabs s) (fst c) = None) ->
  (alen s + N.of_nat (length cs) <= abound s)%N ->
  exists s', afill s cs = Some s' /\ ainv pbytes s' /\
    alen s' = (alen s + N.of_nat (length cs))%N /\ abound s' = abound s /\
    (forall c, In c cs -> as_find (aabs s') (fst c) = Some c) /\
    (forall k, ~ In k (map fst cs) -> as_find (aabs s') k = as_find (aabs s) k).
Proof.
  induction cs as [|c r IH]; intros s Hi Hnd Habsent Hroom; cbn [afill length map] in *.
  - exists s. split; [reflexivity|]. split; [exact Hi|]. split; [lia|]. split; [reflexivity|].
    split; [intros c []|]. intros k _. reflexivity.
  - inversion Hnd as [|a l Hnotin Hnd']; subst.
    destruct (astep_total pbytes s (AInsert c) Hi I) as [[[s1 out] n] Hrun].
    assert (Hout : exists b, out = ABool b).
    { unfold astep_c in Hrun. destruct (ainsert pbytes s c) as [[s2 b2]| |]; cbn in Hrun; try discriminate.
      injection Hrun as _ <- _. eauto. }
    destruct Hout as [b ->].
    destruct (insert_accepts_iff s c s1 b n Hi Hrun) as [Hb [Hlen Hslots]].
    rewrite (Habsent c (or_introl eq_refl)) in Hb. fold (abound s) in Hb.
    assert (Hbt : b = true).
    { rewrite Hb. apply negb_true_iff. apply N.leb_gt. lia. }
    clear Hb. subst b. rewrite Hrun. cbn [negb] in Hlen.
    destruct (insert_then_get s c s1 n Hi Hrun) as [Hi1 [_ [Habs1 _]]].
    assert (Hb1 : abound s1 = abound s) by (unfold abound; rewrite Hslots; reflexivity).
    destruct (IH s1 Hi1 Hnd') as [s' [Hf [Hi' [Hl' [Hbd' [Hin' Hout']]]]]].
    + intros d Hd. rewrite Habs1. rewrite as_find_insert_other.
      * apply Habsent. right; exact Hd.
      * intros E. apply Hnotin. rewrite <- E. apply in_map. exact Hd.
    + rewrite Hb1, Hlen. lia.
    + exists s'. split; [exact Hf|]. split; [exact Hi'|]. split; [rewrite Hl', Hlen; lia|].
      split; [rewrite Hbd'; exact Hb1|]. split.
      * intros d [Hd|Hd]; [|apply Hin'; exact Hd]. subst d.
        rewrite Hout' by exact Hnotin. rewrite Habs1. apply as_find_insert_same. apply Habsent. left; reflexivity.
      * intros k Hk. rewrite Hout' by (intros Hin; apply Hk; right; exact Hin).
        rewrite Habs1. apply as_find_insert_other. intros E. apply Hk. left. symmetry; exact E.
Qed.

(* exactly that many: after them the set reports full and refuses every further value *)
Theorem afill_exact : forall cs s, ainv pbytes s -> NoDup (map fst cs) ->
  (forall c, In c cs -> as_find (aabs s) (fst c) = None) ->
  (alen s + N.of_nat (length cs) = abound s)%N ->
  exists s', afill s cs = Some s' /\ ainv pbytes s' /\ alen s' = abound s' /\
    (forall c, In c cs -> as_find (aabs s') (fst c) = Some c) /\
    (forall c s'' b n, astep_c pbytes s' (AInsert c) = Ok (s'', ABool b, n) -> b = false).
Proof.
  intros cs s Hi Hnd Habsent Hroom.
  destruct (afill_fits cs s Hi Hnd Habsent) as [s' [Hf [Hi' [Hl' [Hbd' [Hin' _]]]]]]; [lia|].
  exists s'. split; [exact Hf|]. split; [exact Hi'|]. split; [rewrite Hbd'; lia|]. split; [exact Hin'|].
  intros c s'' b n Hrun. destruct (insert_accepts_iff s' c s'' b n Hi' Hrun) as [Hb _].
  rewrite Hb. destruct (as_find (aabs s') (fst c)); [reflexivity|].
  fold (abound s'). apply negb_false_iff. apply N.leb_le. rewrite Hbd'. lia.
Qed.

End P.

Example clauses_example :
  let s0 := ainit_c [(7, 7)%Z] [(8, 8)%Z] 4 in
  exists s1 s2, astep_c 1 s0 (AInsert (5, 50)%Z) = Ok (s1, ABool true, 0%N) /\
    astep_c 1 s1 (AInsert (3, 30)%Z) = Ok (s2, ABool true, 0%N) /\
    (exists k, aget_val s2 (5, 0)%Z = Ok (Some (5, 50)%Z, k)) /\
    exists s3, astep_c 1 s2 (ARemove (5, 0)%Z) = Ok (s3, ABool true, 0%N) /\
      (exists k, aget_val s3 (5, 0)%Z = Ok (None, k)) /\ (exists k, aget_val s3 (3, 0)%Z = Ok (Some (3, 30)%Z, k)).
Proof. cbv zeta. vm_compute. repeat eexists. Qed.

Example afill_example :
  let s0 := ainit_c [(7, 7)%Z] [(8, 8)%Z] 3 in
  exists s1, astep_c 1 s0 (AInsert (5, 50)%Z) = Ok (s1, ABool true, 0%N) /\
    abound 1 s1 = 3%N /\ alen s1 = 1%N /\
    exists s2, afill 1 s1 [(9, 90); (2, 20)]%Z = Some s2 /\ alen s2 = 3%N /\
      aabs s2 = [(2, 20); (5, 50); (9, 90)]%Z /\
      exists n, astep_c 1 s2 (AInsert (4, 40)%Z) = Ok (s2, ABool false, n).
Proof. cbv zeta. vm_compute. repeat eexists. Qed.
