(* The array-set writers as they are after the repair of D13: the element
   shift is slice::copy_within on the value slots, whose range is checked
   against the slot slice.  No flat memory is involved any more, so the
   frame property (guards untouched, results independent of the guards)
   holds for EVERY state, not only for the states satisfying [ainv]; on the
   states satisfying [ainv] the checked operations coincide with the model
   of Arr/Impl.v, so every theorem about [astep_c] transfers. *)
From Coq Require Import List NArith ZArith Bool Arith Lia.
From Stevia Require Import Base.Res Arr.Impl Arr.Spec Arr.Search Arr.Refine Arr.ArrProps Arr.ArrMore.
Import ListNotations.
Open Scope N_scope.

Arguments N.add : simpl never.
Arguments N.sub : simpl never.
Arguments N.mul : simpl never.
Arguments N.div : simpl never.
Arguments N.eqb : simpl never.
Arguments N.ltb : simpl never.
Arguments N.leb : simpl never.
Arguments N.pow : simpl never.

(* ------------------------------------------------------------------ *)
(* the memmove on a list, and its checked form                         *)

(* move [cnt] cells starting at [lo] to [dst] (overlap-safe: reads happen
   on the old list) *)
Definition move_within (sl : list cell) (lo dst cnt : nat) : list cell :=
  firstn dst sl ++ firstn cnt (skipn lo sl) ++ skipn (dst + cnt) sl.

(* <[T]>::copy_within(lo..hi, dst): panics unless lo <= hi, hi <= len and
   dst + (hi - lo) <= len *)
Definition copy_within_chk (sl : list cell) (lo hi dst : nat) : res (list cell) :=
  if ((lo <=? hi) && (hi <=? length sl) && (dst + (hi - lo) <=? length sl))%nat
  then Ok (move_within sl lo dst (hi - lo)) else Panic POob.

Lemma move_within_length sl lo dst cnt :
  (lo + cnt <= length sl)%nat -> (dst + cnt <= length sl)%nat ->
  length (move_within sl lo dst cnt) = length sl.
Proof.
  intros H1 H2. unfold move_within.
  rewrite !app_length, !firstn_length, !skipn_length. lia.
Qed.

Lemma copy_within_chk_ok sl lo hi dst sl' :
  copy_within_chk sl lo hi dst = Ok sl' ->
  (lo <= hi)%nat /\ (hi <= length sl)%nat /\ (dst + (hi - lo) <= length sl)%nat /\
  sl' = move_within sl lo dst (hi - lo).
Proof.
  unfold copy_within_chk.
  destruct (Nat.leb_spec lo hi); destruct (Nat.leb_spec hi (length sl));
  destruct (Nat.leb_spec (dst + (hi - lo)) (length sl)); cbn [andb]; intros E; try discriminate.
  injection E as <-. auto.
Qed.

Lemma copy_within_chk_length sl lo hi dst sl' :
  copy_within_chk sl lo hi dst = Ok sl' -> length sl' = length sl.
Proof.
  intros H. apply copy_within_chk_ok in H. destruct H as [H1 [H2 [H3 ->]]].
  apply move_within_length; lia.
Qed.

Lemma copy_within_chk_in_range sl lo hi dst :
  (lo <= hi)%nat -> (hi <= length sl)%nat -> (dst + (hi - lo) <= length sl)%nat ->
  copy_within_chk sl lo hi dst = Ok (move_within sl lo dst (hi - lo)).
Proof.
  intros H1 H2 H3. unfold copy_within_chk.
  destruct (Nat.leb_spec lo hi); [|lia]. destruct (Nat.leb_spec hi (length sl)); [|lia].
  destruct (Nat.leb_spec (dst + (hi - lo)) (length sl)); [|lia]. reflexivity.
Qed.

(* the copy never panics with anything but POob and never runs out of fuel *)
Lemma copy_within_chk_cases sl lo hi dst :
  copy_within_chk sl lo hi dst = Ok (move_within sl lo dst (hi - lo)) \/
  copy_within_chk sl lo hi dst = Panic POob.
Proof. unfold copy_within_chk. destruct (_ && _)%bool; auto. Qed.

(* an in-range unchecked copy on the flat memory is the list-level move on
   the slots *)
Lemma ptr_copy_slots (P sl Q : list cell) lo dst cnt :
  (lo + cnt <= length sl)%nat -> (dst + cnt <= length sl)%nat ->
  ptr_copy (P ++ sl ++ Q) (length P + lo) (length P + dst) cnt
  = Ok (P ++ move_within sl lo dst cnt ++ Q).
Proof.
  intros H1 H2. unfold ptr_copy.
  assert (C : ((length P + lo + cnt <=? length (P ++ sl ++ Q)) &&
               (length P + dst + cnt <=? length (P ++ sl ++ Q)))%nat = true).
  { apply andb_true_intro; split; apply Nat.leb_le; rewrite !app_length; lia. }
  rewrite C. f_equal. unfold move_within.
  rewrite firstn_len_add_app, skipn_len_add_app.
  rewrite <- Nat.add_assoc, skipn_len_add_app.
  rewrite (firstn_le_app sl Q dst) by lia.
  rewrite !skipn_app.
  replace (lo - length sl)%nat with 0%nat by lia.
  replace (dst + cnt - length sl)%nat with 0%nat by lia.
  cbn [skipn].
  rewrite (firstn_le_app (skipn lo sl) Q cnt) by (rewrite skipn_length; lia).
  rewrite <- !app_assoc. reflexivity.
Qed.

Lemma ptr_copy_amem s lo dst cnt :
  (lo + cnt <= length (aslots s))%nat -> (dst + cnt <= length (aslots s))%nat ->
  ptr_copy (amem s) (length (apre s) + lo) (length (apre s) + dst) cnt
  = Ok (amem (with_slots s (move_within (aslots s) lo dst cnt))).
Proof. intros H1 H2. unfold amem. apply ptr_copy_slots; assumption. Qed.

Lemma of_mem_with_slots s sl' : length sl' = length (aslots s) ->
  of_mem s (amem (with_slots s sl')) = with_slots s sl'.
Proof. intros H. unfold amem, with_slots. cbn [apre aslots apost]. apply of_mem_slots. exact H. Qed.

(* a [res] functor, to state "same outcome kind, related results" *)
Definition rmap {A B} (f : A -> B) (r : res A) : res B :=
  match r with Ok a => Ok (f a) | Panic p => Panic p | Fuel => Fuel end.

(* the same slots and count between other guards *)
Definition reguard (pre' post' : list cell) (s : ast) : ast := mkA pre' (aslots s) post' (alen s).

Lemma reguard_self s : reguard (apre s) (apost s) s = s.
Proof. destruct s; reflexivity. Qed.

Section Prefix.
Variable pbytes : N.
Notation pmax := (pmax pbytes).
Notation ainv := (ainv pbytes).

(* ------------------------------------------------------------------ *)
(* 1. the code as it is now                                            *)

(* self.values.copy_within(index..self.len(), index + 1) *)
Definition ainsert_chk (s : ast) (value : cell) : res (ast * bool) :=
  if ais_full pbytes s then Ok (s, false) else
  '(_, g, _) <- aindex s value ;;
  match g with
  | Some index =>
    let i := N.to_nat index in
    sl <- copy_within_chk (aslots s) i (N.to_nat (alen s)) (i + 1) ;;
    let s1 := with_slots s sl in
    s2 <- aset s1 index value ;;
    n <- cinc pbytes (alen s2) ;;
    Ok (with_alen s2 n, true)
  | None => Ok (s, false)
  end.

(* if index < self.len() - 1 { self.values.copy_within(index + 1..self.len(), index) } *)
Definition atake_chk (s : ast) (value : cell) : res (ast * option cell) :=
  if ais_empty s then Ok (s, None) else
  '(f, _, _) <- aindex s value ;;
  match f with
  | Some index =>
    x <- aget s index ;;
    lm1 <- cdec (alen s) ;;
    s1 <- (if index <? lm1 then
             let i := N.to_nat index in
             sl <- copy_within_chk (aslots s) (i + 1) (N.to_nat (alen s)) i ;;
             Ok (with_slots s sl)
           else Ok s) ;;
    n <- cdec (alen s1) ;;
    Ok (with_alen s1 n, Some x)
  | None => Ok (s, None)
  end.

Definition aremove_chk (s : ast) (value : cell) : res (ast * bool) :=
  '(s', r) <- atake_chk s value ;; Ok (s', match r with Some _ => true | None => false end).

Definition astep_chk (s : ast) (o : aop) : res (ast * aout * N) :=
  match o with
  | AInsert c => '(s', b) <- ainsert_chk s c ;; Ok (s', ABool b, 0)
  | ARemove c => '(s', b) <- aremove_chk s c ;; Ok (s', ABool b, 0)
  | ATake c => '(s', r) <- atake_chk s c ;; Ok (s', ACell r, 0)
  | AGet c => '(r, n) <- aget_val s c ;; Ok (s, ACell r, n)
  | AGetMut c new => '(s', r) <- aget_mut_set s c new ;; Ok (s', ACell r, 0)
  | AContains c => '(b, n) <- acontains s c ;; Ok (s, ABool b, n)
  | ALen => Ok (s, ANum (alength s), 0)
  | AIsFull => Ok (s, ABool (ais_full pbytes s), 0)
  | AIsEmpty => Ok (s, ABool (ais_empty s), 0)
  | ADeref => l <- aderef s ;; Ok (s, AList l, 0)
  | AExt n => Ok (mkA (apre s) (aslots s ++ repeat cell0 (N.to_nat n)) (apost s) (alen s), AUnit, 0)
  end.

Fixpoint arun_chk (s : ast) (ops : list aop) : list (res aout) :=
  match ops with
  | [] => []
  | o :: r =>
    match astep_chk s o with
    | Ok (s', x, _) => Ok x :: arun_chk s' r
    | Panic p => [Panic p]
    | Fuel => [Fuel]
    end
  end.

(* the executed state of a history *)
Fixpoint aexec_chk (s : ast) (ops : list aop) : res ast :=
  match ops with
  | [] => Ok s
  | o :: r => '(s', _, _) <- astep_chk s o ;; aexec_chk s' r
  end.

(* ------------------------------------------------------------------ *)
(* 2. agreement with the unchecked model on invariant states           *)

Lemma ainsert_chk_eq s v : ainv s -> ainsert_chk s v = ainsert pbytes s v.
Proof.
  intros Hinv. pose proof Hinv as [Hl [Hm Hs]].
  unfold ainsert_chk, ainsert. destruct (ais_full pbytes s) eqn:Hfull; [reflexivity|].
  destruct (aindex_correct pbytes s v Hinv) as [f [g [c [Hr [Hp _]]]]].
  rewrite Hr. cbn [bind].
  destruct Hp as [[i [-> [-> _]]] | [i [-> [-> [Hi _]]]]]; [reflexivity|].
  unfold ais_full in Hfull. apply orb_false_iff in Hfull. destruct Hfull as [Hf _].
  apply N.eqb_neq in Hf.
  destruct (N.leb_spec i (alen s)) as [_|E]; [|lia]. cbn [bind].
  rewrite copy_within_chk_in_range by lia. cbn [bind].
  replace (N.to_nat (alen s - i)) with (N.to_nat (alen s) - N.to_nat i)%nat by lia.
  replace (length (apre s) + N.to_nat i + 1)%nat with (length (apre s) + (N.to_nat i + 1))%nat by lia.
  rewrite ptr_copy_amem by lia. cbn [bind].
  rewrite of_mem_with_slots by (apply move_within_length; lia).
  reflexivity.
Qed.

Lemma atake_chk_eq s v : ainv s -> atake_chk s v = atake s v.
Proof.
  intros Hinv. pose proof Hinv as [Hl [Hm Hs]].
  unfold atake_chk, atake. destruct (ais_empty s) eqn:Hemp; [reflexivity|].
  destruct (aindex_correct pbytes s v Hinv) as [f [g [c [Hr [Hp _]]]]].
  rewrite Hr. cbn [bind].
  destruct Hp as [[i [-> [-> [Hi _]]]] | [i [-> [-> _]]]]; [|reflexivity].
  destruct (aget s i) as [x| |]; cbn [bind]; try reflexivity.
  destruct (cdec (alen s)) as [lm1| |]; cbn [bind]; try reflexivity.
  destruct (i <? lm1); [|reflexivity].
  rewrite copy_within_chk_in_range by lia. cbn [bind].
  replace (N.to_nat (alen s - i - 1)) with (N.to_nat (alen s) - (N.to_nat i + 1))%nat by lia.
  replace (length (apre s) + N.to_nat i + 1)%nat with (length (apre s) + (N.to_nat i + 1))%nat by lia.
  rewrite ptr_copy_amem by lia. cbn [bind].
  rewrite of_mem_with_slots by (apply move_within_length; lia).
  reflexivity.
Qed.

Lemma aremove_chk_eq s v : ainv s -> aremove_chk s v = aremove s v.
Proof. intros Hinv. unfold aremove_chk, aremove. rewrite atake_chk_eq by exact Hinv. reflexivity. Qed.

(* no side condition on the operation is needed for one step *)
Theorem astep_chk_eq s o : ainv s -> astep_chk s o = astep_c pbytes s o.
Proof.
  intros Hinv. destruct o; cbn [astep_chk astep_c];
    rewrite ?ainsert_chk_eq, ?aremove_chk_eq, ?atake_chk_eq by exact Hinv; reflexivity.
Qed.

(* ------------------------------------------------------------------ *)
(* 3. the frame, for all states                                        *)

(* slots added by the operation (only the caller's AExt adds any) *)
Definition ext_of (o : aop) : nat := match o with AExt n => N.to_nat n | _ => 0%nat end.

Definition same_frame (s s' : ast) : Prop :=
  apre s' = apre s /\ apost s' = apost s /\ length (aslots s') = length (aslots s).

Lemma same_frame_refl s : same_frame s s.
Proof. repeat split. Qed.

Lemma aset_frame s i c s' : aset s i c = Ok s' -> same_frame s s' /\ alen s' = alen s.
Proof.
  unfold aset. destruct (N.to_nat i <? length (aslots s))%nat; intros H; [|discriminate].
  injection H as <-. unfold same_frame, with_slots. cbn [apre apost aslots alen].
  rewrite set_nth_length. auto.
Qed.

Lemma ainsert_chk_frame s v s' b : ainsert_chk s v = Ok (s', b) -> same_frame s s'.
Proof.
  unfold ainsert_chk. destruct (ais_full pbytes s).
  { intros H. injection H as <- <-. apply same_frame_refl. }
  destruct (aindex s v) as [[[f g] c]| |]; cbn [bind]; try discriminate.
  destruct g as [i|].
  2:{ intros H. injection H as <- <-. apply same_frame_refl. }
  destruct (copy_within_chk (aslots s) (N.to_nat i) (N.to_nat (alen s)) (N.to_nat i + 1)) as [sl| |] eqn:Hc;
    cbn [bind]; try discriminate.
  apply copy_within_chk_length in Hc.
  destruct (aset (with_slots s sl) i v) as [s2| |] eqn:Ha; cbn [bind]; try discriminate.
  apply aset_frame in Ha. destruct Ha as [[H1 [H2 H3]] _].
  destruct (cinc pbytes (alen s2)) as [n| |]; cbn [bind]; try discriminate.
  intros H. injection H as <- <-. unfold same_frame, with_alen. cbn [apre apost aslots].
  unfold with_slots in H1, H2, H3. cbn [apre apost aslots] in H1, H2, H3.
  split; [exact H1|]. split; [exact H2|]. lia.
Qed.

Lemma atake_chk_frame s v s' r : atake_chk s v = Ok (s', r) -> same_frame s s'.
Proof.
  unfold atake_chk. destruct (ais_empty s).
  { intros H. injection H as <- <-. apply same_frame_refl. }
  destruct (aindex s v) as [[[f g] c]| |]; cbn [bind]; try discriminate.
  destruct f as [i|].
  2:{ intros H. injection H as <- <-. apply same_frame_refl. }
  destruct (aget s i) as [x| |]; cbn [bind]; try discriminate.
  destruct (cdec (alen s)) as [lm1| |]; cbn [bind]; try discriminate.
  destruct (i <? lm1).
  - destruct (copy_within_chk (aslots s) (N.to_nat i + 1) (N.to_nat (alen s)) (N.to_nat i)) as [sl| |] eqn:Hc;
      cbn [bind]; try discriminate.
    apply copy_within_chk_length in Hc.
    destruct (cdec (alen (with_slots s sl))) as [n| |]; cbn [bind]; try discriminate.
    intros H. injection H as <- <-. unfold same_frame, with_alen, with_slots. cbn [apre apost aslots]. auto.
  - cbn [bind]. destruct (cdec (alen s)) as [n| |]; cbn [bind]; try discriminate.
    intros H. injection H as <- <-. unfold same_frame, with_alen. cbn [apre apost aslots]. auto.
Qed.

Lemma aget_mut_set_frame s v new s' r : aget_mut_set s v new = Ok (s', r) -> same_frame s s'.
Proof.
  unfold aget_mut_set.
  destruct (aindex s v) as [[[f g] c]| |]; cbn [bind]; try discriminate.
  destruct f as [i|].
  2:{ intros H. injection H as <- <-. apply same_frame_refl. }
  destruct (aget s i) as [x| |]; cbn [bind]; try discriminate.
  destruct (aset s i new) as [s2| |] eqn:Ha; cbn [bind]; try discriminate.
  intros H. injection H as <- <-. apply aset_frame in Ha. apply Ha.
Qed.

(* the point of the repair: no hypothesis on the state *)
Theorem astep_chk_frame s o s' out c : astep_chk s o = Ok (s', out, c) ->
  apre s' = apre s /\ apost s' = apost s /\
  length (aslots s') = (length (aslots s) + ext_of o)%nat.
Proof.
  assert (G : same_frame s s' -> ext_of o = 0%nat ->
    apre s' = apre s /\ apost s' = apost s /\ length (aslots s') = (length (aslots s) + ext_of o)%nat).
  { intros [H1 [H2 H3]] ->. rewrite Nat.add_0_r. auto. }
  destruct o as [v|v|v|v|v new|v| | | | |n]; cbn [astep_chk]; intros H.
  - apply bind_ok in H. destruct H as [[s1 b] [H1 H2]]. injection H2 as <- <- <-.
    apply G; [|reflexivity]. eapply ainsert_chk_frame; eauto.
  - apply bind_ok in H. destruct H as [[s1 b] [H1 H2]]. injection H2 as <- <- <-.
    unfold aremove_chk in H1. apply bind_ok in H1. destruct H1 as [[s2 r] [H1 H2]]. injection H2 as <- <-.
    apply G; [|reflexivity]. eapply atake_chk_frame; eauto.
  - apply bind_ok in H. destruct H as [[s1 r] [H1 H2]]. injection H2 as <- <- <-.
    apply G; [|reflexivity]. eapply atake_chk_frame; eauto.
  - apply bind_ok in H. destruct H as [[r n] [H1 H2]]. injection H2 as <- <- <-.
    apply G; [apply same_frame_refl|reflexivity].
  - apply bind_ok in H. destruct H as [[s1 r] [H1 H2]]. injection H2 as <- <- <-.
    apply G; [|reflexivity]. eapply aget_mut_set_frame; eauto.
  - apply bind_ok in H. destruct H as [[b n] [H1 H2]]. injection H2 as <- <- <-.
    apply G; [apply same_frame_refl|reflexivity].
  - injection H as <- <- <-. apply G; [apply same_frame_refl|reflexivity].
  - injection H as <- <- <-. apply G; [apply same_frame_refl|reflexivity].
  - injection H as <- <- <-. apply G; [apply same_frame_refl|reflexivity].
  - apply bind_ok in H. destruct H as [l [H1 H2]]. injection H2 as <- <- <-.
    apply G; [apply same_frame_refl|reflexivity].
  - injection H as <- <- <-. cbn [apre apost aslots ext_of].
    rewrite app_length, repeat_length. auto.
Qed.

(* the form asked for: the slot count is constant unless the caller extends *)
Corollary astep_chk_frame_noext s o s' out c : astep_chk s o = Ok (s', out, c) -> is_ext o = false ->
  apre s' = apre s /\ apost s' = apost s /\ length (aslots s') = length (aslots s).
Proof.
  intros H Hne. destruct (astep_chk_frame s o s' out c H) as [H1 [H2 H3]].
  split; [exact H1|]. split; [exact H2|].
  destruct o; cbn [is_ext] in Hne; try discriminate; cbn [ext_of] in H3; lia.
Qed.

(* flat-memory forms, as for the unchecked model on invariant states *)
Corollary astep_chk_mem_frame s o s' out c : astep_chk s o = Ok (s', out, c) ->
  amem s' = apre s ++ aslots s' ++ apost s.
Proof.
  intros H. destruct (astep_chk_frame s o s' out c H) as [H1 [H2 _]].
  unfold amem. rewrite H1, H2. reflexivity.
Qed.

Corollary astep_chk_writes_within_slots s o s' out c : astep_chk s o = Ok (s', out, c) -> is_ext o = false ->
  length (amem s') = length (amem s) /\
  forall a, (a < length (apre s) \/ length (apre s) + length (aslots s) <= a)%nat ->
    nth_error (amem s') a = nth_error (amem s) a.
Proof.
  intros H Hne. pose proof (astep_chk_mem_frame s o s' out c H) as Hm.
  destruct (astep_chk_frame_noext s o s' out c H Hne) as [_ [_ Hl]].
  rewrite Hm. unfold amem. split.
  - rewrite !app_length, Hl. reflexivity.
  - intros a [Ha|Ha].
    + rewrite !nth_error_app_l by exact Ha. reflexivity.
    + rewrite !(nth_error_app2 (apre s)) by lia.
      rewrite !nth_error_app2 by lia. rewrite Hl. reflexivity.
Qed.

(* ------------------------------------------------------------------ *)
(* guard independence, for all states                                  *)

Notation rg2 pre' post' := (fun r : ast * _ => (reguard pre' post' (fst r), snd r)).

Lemma ais_full_reguard pre' post' s : ais_full pbytes (reguard pre' post' s) = ais_full pbytes s.
Proof. reflexivity. Qed.

Lemma aindex_reguard pre' post' s v : aindex (reguard pre' post' s) v = aindex s v.
Proof. apply aindex_frame; reflexivity. Qed.

Lemma aset_reguard pre' post' s i c :
  aset (reguard pre' post' s) i c = rmap (reguard pre' post') (aset s i c).
Proof.
  unfold aset. cbn [reguard aslots].
  destruct (N.to_nat i <? length (aslots s))%nat; reflexivity.
Qed.

Lemma ainsert_chk_reguard pre' post' s v :
  ainsert_chk (reguard pre' post' s) v = rmap (rg2 pre' post') (ainsert_chk s v).
Proof.
  unfold ainsert_chk. rewrite ais_full_reguard, aindex_reguard.
  destruct (ais_full pbytes s); [reflexivity|].
  destruct (aindex s v) as [[[f g] c]| |]; cbn [bind rmap]; try reflexivity.
  destruct g as [i|]; [|reflexivity].
  cbn [reguard aslots alen].
  destruct (copy_within_chk (aslots s) (N.to_nat i) (N.to_nat (alen s)) (N.to_nat i + 1)) as [sl| |];
    cbn [bind rmap]; try reflexivity.
  change (with_slots (reguard pre' post' s) sl) with (reguard pre' post' (with_slots s sl)).
  rewrite aset_reguard.
  destruct (aset (with_slots s sl) i v) as [s2| |]; cbn [bind rmap]; try reflexivity.
  cbn [reguard alen].
  destruct (cinc pbytes (alen s2)) as [n| |]; cbn [bind rmap]; reflexivity.
Qed.

Lemma atake_chk_reguard pre' post' s v :
  atake_chk (reguard pre' post' s) v = rmap (rg2 pre' post') (atake_chk s v).
Proof.
  unfold atake_chk. rewrite aindex_reguard.
  change (ais_empty (reguard pre' post' s)) with (ais_empty s).
  destruct (ais_empty s); [reflexivity|].
  destruct (aindex s v) as [[[f g] c]| |]; cbn [bind rmap]; try reflexivity.
  destruct f as [i|]; [|reflexivity].
  change (aget (reguard pre' post' s) i) with (aget s i).
  destruct (aget s i) as [x| |]; cbn [bind rmap]; try reflexivity.
  unfold reguard. cbn [apre apost aslots alen].
  destruct (cdec (alen s)) as [lm1| |]; cbn [bind rmap]; try reflexivity.
  destruct (i <? lm1).
  - destruct (copy_within_chk (aslots s) (N.to_nat i + 1) (N.to_nat (alen s)) (N.to_nat i)) as [sl| |];
      cbn [bind rmap]; try reflexivity.
    unfold with_slots. cbn [alen].
    destruct (cdec (alen s)) as [n| |]; cbn [bind rmap]; reflexivity.
  - cbn [bind alen]. destruct (cdec (alen s)) as [n| |]; cbn [bind rmap]; reflexivity.
Qed.

Lemma aget_mut_set_reguard pre' post' s v new :
  aget_mut_set (reguard pre' post' s) v new = rmap (rg2 pre' post') (aget_mut_set s v new).
Proof.
  unfold aget_mut_set. rewrite aindex_reguard.
  destruct (aindex s v) as [[[f g] c]| |]; cbn [bind rmap]; try reflexivity.
  destruct f as [i|]; [|reflexivity].
  change (aget (reguard pre' post' s) i) with (aget s i).
  destruct (aget s i) as [x| |]; cbn [bind rmap]; try reflexivity.
  rewrite aset_reguard.
  destruct (aset s i new) as [s2| |]; cbn [bind rmap]; reflexivity.
Qed.

Lemma aget_val_reguard pre' post' s v : aget_val (reguard pre' post' s) v = aget_val s v.
Proof. apply aget_val_frame; reflexivity. Qed.

Definition reguard3 (pre' post' : list cell) (r : ast * aout * N) : ast * aout * N :=
  let '(s', out, c) := r in (reguard pre' post' s', out, c).

(* replacing the guards of ANY state replaces the guards of the result and
   changes nothing else: same outcome kind, same output, same count of
   comparisons, same slots and count *)
Theorem astep_chk_reguard pre' post' s o :
  astep_chk (reguard pre' post' s) o = rmap (reguard3 pre' post') (astep_chk s o).
Proof.
  destruct o as [v|v|v|v|v new|v| | | | |n]; cbn [astep_chk].
  - rewrite ainsert_chk_reguard. destruct (ainsert_chk s v) as [[s1 b]| |]; reflexivity.
  - unfold aremove_chk. rewrite atake_chk_reguard. destruct (atake_chk s v) as [[s1 b]| |]; reflexivity.
  - rewrite atake_chk_reguard. destruct (atake_chk s v) as [[s1 b]| |]; reflexivity.
  - rewrite aget_val_reguard. destruct (aget_val s v) as [[r n]| |]; reflexivity.
  - rewrite aget_mut_set_reguard. destruct (aget_mut_set s v new) as [[s1 b]| |]; reflexivity.
  - unfold acontains. rewrite aget_val_reguard. destruct (aget_val s v) as [[r n]| |]; reflexivity.
  - reflexivity.
  - reflexivity.
  - reflexivity.
  - change (aderef (reguard pre' post' s)) with (aderef s). destruct (aderef s); reflexivity.
  - reflexivity.
Qed.

(* the step as a function of the slots and the count alone *)
Definition astep_core (sl : list cell) (n : N) (o : aop) : res (list cell * N * aout * N) :=
  rmap (fun r : ast * aout * N => let '(s', out, c) := r in (aslots s', alen s', out, c))
       (astep_chk (mkA [] sl [] n) o).

Theorem astep_chk_core s o :
  astep_chk s o = rmap (fun r : list cell * N * aout * N =>
                          let '(sl', n', out, c) := r in (mkA (apre s) sl' (apost s) n', out, c))
                       (astep_core (aslots s) (alen s) o).
Proof.
  unfold astep_core. rewrite <- (reguard_self s) at 1.
  change (mkA [] (aslots s) [] (alen s)) with (reguard [] [] s).
  rewrite !astep_chk_reguard.
  destruct (astep_chk s o) as [[[s1 out] c]| |]; reflexivity.
Qed.

(* two-state form *)
Definition same_outcome (r1 r2 : res (ast * aout * N)) : Prop :=
  match r1, r2 with
  | Ok (s1, o1, c1), Ok (s2, o2, c2) => aslots s1 = aslots s2 /\ alen s1 = alen s2 /\ o1 = o2 /\ c1 = c2
  | Panic p, Panic q => p = q
  | Fuel, Fuel => True
  | _, _ => False
  end.

Theorem astep_chk_guard_indep s1 s2 o : aslots s1 = aslots s2 -> alen s1 = alen s2 ->
  same_outcome (astep_chk s1 o) (astep_chk s2 o).
Proof.
  intros E1 E2. rewrite (astep_chk_core s1), (astep_chk_core s2), E1, E2.
  destruct (astep_core (aslots s2) (alen s2) o) as [[[[sl n] out] c]| |]; cbn [rmap same_outcome aslots alen]; auto.
Qed.

(* ------------------------------------------------------------------ *)
(* 4. histories                                                        *)

Lemma arun_chk_eq : forall ops s, ainv s -> Forall aop_ok ops ->
  arun_chk s ops = arun_c pbytes s ops.
Proof.
  induction ops as [|o ops IH]; intros s Hinv Hok; [reflexivity|].
  inversion Hok as [|o' ops' Ho Hops]; subst.
  cbn [arun_chk arun_c]. rewrite (astep_chk_eq s o Hinv).
  destruct (astep_c pbytes s o) as [[[s' out] c]| |] eqn:Hr; try reflexivity.
  f_equal. apply IH; [|exact Hops].
  exact (proj1 (astep_sound pbytes s o s' out c Hinv Ho Hr)).
Qed.

Lemma aexec_chk_eq : forall ops s, ainv s -> Forall aop_ok ops ->
  aexec_chk s ops = aexec pbytes s ops.
Proof.
  induction ops as [|o ops IH]; intros s Hinv Hok; [reflexivity|].
  inversion Hok as [|o' ops' Ho Hops]; subst.
  cbn [aexec_chk aexec]. rewrite (astep_chk_eq s o Hinv).
  destruct (astep_c pbytes s o) as [[[s' out] c]| |] eqn:Hr; try reflexivity.
  cbn [bind]. apply IH; [|exact Hops].
  exact (proj1 (astep_sound pbytes s o s' out c Hinv Ho Hr)).
Qed.

(* hence the refinement of the specification by the repaired code *)
Corollary arun_chk_refines s ops : ainv s -> Forall aop_ok ops ->
  arun_chk s ops = map Ok (arun_s pbytes (abs_st s) ops).
Proof. intros Hinv Hok. rewrite arun_chk_eq by assumption. apply arun_refines; assumption. Qed.

Fixpoint ext_total (ops : list aop) : nat :=
  match ops with [] => 0%nat | o :: r => (ext_of o + ext_total r)%nat end.

(* the frame along any history from any state *)
Theorem aexec_chk_frame : forall ops s s', aexec_chk s ops = Ok s' ->
  apre s' = apre s /\ apost s' = apost s /\
  length (aslots s') = (length (aslots s) + ext_total ops)%nat.
Proof.
  induction ops as [|o ops IH]; intros s s' H; cbn [aexec_chk ext_total] in *.
  - injection H as <-. rewrite Nat.add_0_r. auto.
  - apply bind_ok in H. destruct H as [[[s1 out] c] [H1 H2]]. cbv beta iota in H2.
    destruct (astep_chk_frame s o s1 out c H1) as [A1 [A2 A3]].
    destruct (IH s1 s' H2) as [B1 [B2 B3]].
    split; [congruence|]. split; [congruence|]. lia.
Qed.

(* a whole history from any state does not depend on the guards *)
Theorem arun_chk_reguard : forall ops s pre' post',
  arun_chk (reguard pre' post' s) ops = arun_chk s ops.
Proof.
  induction ops as [|o ops IH]; intros s pre' post'; [reflexivity|].
  cbn [arun_chk]. rewrite astep_chk_reguard.
  destruct (astep_chk s o) as [[[s1 out] c]| |]; cbn [rmap reguard3]; try reflexivity.
  f_equal. apply IH.
Qed.

Theorem aexec_chk_reguard : forall ops s pre' post',
  aexec_chk (reguard pre' post' s) ops = rmap (reguard pre' post') (aexec_chk s ops).
Proof.
  induction ops as [|o ops IH]; intros s pre' post'; [reflexivity|].
  cbn [aexec_chk]. rewrite astep_chk_reguard.
  destruct (astep_chk s o) as [[[s1 out] c]| |]; cbn [rmap reguard3 bind]; try reflexivity.
  apply IH.
Qed.

Corollary arun_chk_guard_indep s1 s2 ops : aslots s1 = aslots s2 -> alen s1 = alen s2 ->
  arun_chk s1 ops = arun_chk s2 ops.
Proof.
  intros E1 E2. rewrite <- (reguard_self s1). unfold reguard at 1. rewrite E1, E2.
  apply (arun_chk_reguard ops s2).
Qed.

End Prefix.

Section Init.
Variable pbytes : N.

Theorem arun_chk_eq_init pre post nslots ops : Forall aop_ok ops ->
  arun_chk pbytes (ainit_c pre post nslots) ops = arun_c pbytes (ainit_c pre post nslots) ops.
Proof. intros Hok. apply arun_chk_eq; [apply ainit_inv | exact Hok]. Qed.

Theorem arun_chk_refines_init pre post nslots ops : Forall aop_ok ops ->
  arun_chk pbytes (ainit_c pre post nslots) ops = map Ok (arun_s pbytes (mkAS nslots []) ops).
Proof.
  intros Hok. rewrite arun_chk_refines by (try apply ainit_inv; exact Hok).
  rewrite ainit_abs. reflexivity.
Qed.

(* states reachable through the checked step, from any state, by any operations *)
Inductive areach_chk (s0 : ast) : ast -> Prop :=
| areach_chk_init : areach_chk s0 s0
| areach_chk_step s o s' out c :
    areach_chk s0 s -> astep_chk pbytes s o = Ok (s', out, c) -> areach_chk s0 s'.

Theorem areach_chk_frame s0 s : areach_chk s0 s ->
  apre s = apre s0 /\ apost s = apost s0 /\ (length (aslots s0) <= length (aslots s))%nat.
Proof.
  induction 1 as [|s o s' out c Hreach IH Hr]; [auto|].
  destruct IH as [H1 [H2 H3]].
  destruct (astep_chk_frame pbytes s o s' out c Hr) as [A1 [A2 A3]].
  split; [congruence|]. split; [congruence|]. lia.
Qed.

(* on histories of permitted operations from an invariant state the two
   notions of reachability coincide *)
Theorem areach_chk_of_areach s0 s : ainv pbytes s0 -> areach pbytes s0 s -> areach_chk s0 s.
Proof.
  intros H0. induction 1 as [|s o s' out c Hreach IH Hok Hr]; [apply areach_chk_init|].
  apply (areach_chk_step s0 s o s' out c IH).
  rewrite astep_chk_eq; [exact Hr|]. exact (proj1 (areach_inv pbytes s0 s H0 Hreach)).
Qed.

End Init.

(* ------------------------------------------------------------------ *)
(* 5. the D13 witness (Regress/ArrDefects.v): the count claims 8 values,
   the buffer holds 6                                                  *)

Definition D13_state : ast :=
  mkA [] [(2, 0); (4, 0); (6, 0); (8, 0); (0, 0); (0, 0)]%Z [(170, 170); (171, 171); (172, 172)]%Z 8.

Example D13_checked_insert_panics :
  ainsert_chk 1 D13_state (7, 0)%Z = Panic POob /\
  ainsert 1 D13_state (7, 0)%Z =
    Ok (mkA [] [(2, 0); (4, 0); (6, 0); (7, 0); (8, 0); (0, 0)]%Z
            [(0, 0); (170, 170); (171, 171)]%Z 9, true) /\
  [(0, 0); (170, 170); (171, 171)]%Z <> apost D13_state.
Proof. split; [vm_compute; reflexivity|]. split; [vm_compute; reflexivity|]. vm_compute. discriminate. Qed.

Example D13_checked_take_panics :
  atake_chk D13_state (4, 0)%Z = Panic POob /\
  exists s', atake D13_state (4, 0)%Z = Ok (s', Some (4, 0)%Z) /\ apost s' <> apost D13_state.
Proof.
  split; [vm_compute; reflexivity|]. eexists. split; [vm_compute; reflexivity|]. vm_compute. discriminate.
Qed.

Print Assumptions ptr_copy_slots.
Print Assumptions ainsert_chk_eq.
Print Assumptions atake_chk_eq.
Print Assumptions astep_chk_eq.
Print Assumptions astep_chk_frame.
Print Assumptions astep_chk_frame_noext.
Print Assumptions astep_chk_mem_frame.
Print Assumptions astep_chk_writes_within_slots.
Print Assumptions astep_chk_reguard.
Print Assumptions astep_chk_core.
Print Assumptions astep_chk_guard_indep.
Print Assumptions arun_chk_eq.
Print Assumptions aexec_chk_eq.
Print Assumptions arun_chk_refines.
Print Assumptions aexec_chk_frame.
Print Assumptions arun_chk_reguard.
Print Assumptions aexec_chk_reguard.
Print Assumptions arun_chk_guard_indep.
Print Assumptions arun_chk_eq_init.
Print Assumptions arun_chk_refines_init.
Print Assumptions areach_chk_frame.
Print Assumptions areach_chk_of_areach.
Print Assumptions D13_checked_insert_panics.
Print Assumptions D13_checked_take_panics.
