(* More small facts about the reference map (layer S): how lookups see
   insertions, removals and updates; the first entry of a sorted map is its
   minimum. *)
From Coq Require Import List NArith ZArith Bool Lia Sorted.
From Stevia Require Import Avl.Impl Avl.Spec Avl.SmapFacts.
Import ListNotations.
Open Scope Z_scope.

Arguments Z.add : simpl never.
Arguments Z.sub : simpl never.
Arguments Z.ltb : simpl never.
Arguments Z.eqb : simpl never.

(* ---- membership ---- *)
Lemma sm_find_none_notin m k : sm_find m k = None <-> ~ In k (skeys m).
Proof.
  split; [|apply sm_find_notin].
  induction m as [|[k1 v1] m IH]; cbn [sm_find skeys map fst In]; [tauto|].
  destruct (Z.eqb_spec k k1) as [->|Hne]; [discriminate|].
  intros H [Heq|Hin]; [congruence|]. exact (IH H Hin).
Qed.

Lemma sm_find_in_keys m k v : sm_find m k = Some v -> In k (skeys m).
Proof.
  intros H. destruct (in_dec Z.eq_dec k (skeys m)) as [Hi|Hi]; [exact Hi|].
  apply sm_find_none_notin in Hi. congruence.
Qed.

Lemma sm_in_find m k v : ssorted m -> In (k, v) m -> sm_find m k = Some v.
Proof.
  unfold ssorted, zsorted, skeys.
  induction m as [|[k1 v1] m IH]; cbn [sm_find map fst In]; intros S Hin; [tauto|].
  inversion S as [|? ? Hs Hf]; subst.
  destruct Hin as [[= -> ->]|Hin]; [rewrite Z.eqb_refl; reflexivity|].
  destruct (Z.eqb_spec k k1) as [->|Hne]; [|auto].
  exfalso. rewrite Forall_forall in Hf.
  assert (Hk : In k1 (map fst m)) by (apply in_map_iff; exists (k1, v); auto).
  specialize (Hf k1 Hk). lia.
Qed.

Lemma sm_find_iff_in m k v : ssorted m -> (sm_find m k = Some v <-> In (k, v) m).
Proof. intros S. split; [apply sm_find_some_in|apply sm_in_find; exact S]. Qed.

(* ---- insertion ---- *)
Lemma sm_find_insert_same m k v : sm_find m k = None -> sm_find (sm_insert m k v) k = Some v.
Proof.
  induction m as [|[k1 v1] m IH]; cbn [sm_find sm_insert].
  - intros _. rewrite Z.eqb_refl. reflexivity.
  - destruct (Z.eqb_spec k k1) as [->|Hne]; [discriminate|]. intros H.
    destruct (k <? k1).
    + cbn [sm_find]. rewrite Z.eqb_refl. reflexivity.
    + cbn [sm_find]. destruct (Z.eqb_spec k k1) as [?|_]; [congruence|]. auto.
Qed.

Lemma sm_find_insert_other m k v k' : k' <> k -> sm_find (sm_insert m k v) k' = sm_find m k'.
Proof.
  intros Hne. induction m as [|[k1 v1] m IH]; cbn [sm_find sm_insert].
  - destruct (Z.eqb_spec k' k) as [?|_]; [congruence|reflexivity].
  - destruct (k <? k1).
    + cbn [sm_find]. destruct (Z.eqb_spec k' k) as [?|_]; [congruence|reflexivity].
    + destruct (k =? k1); [reflexivity|]. cbn [sm_find]. rewrite IH. reflexivity.
Qed.

Lemma sm_insert_present_find m k v v0 : sm_find m k = Some v0 -> ssorted m -> sm_insert m k v = m.
Proof. intros H S. apply sm_insert_present; [exact S|]. exact (sm_find_in_keys _ _ _ H). Qed.

Lemma sm_insert_length_find m k v : sm_find m k = None -> length (sm_insert m k v) = S (length m).
Proof. intros H. apply sm_insert_length. apply sm_find_none_notin. exact H. Qed.

(* ---- removal ---- *)
Lemma sm_remove_absent m k : sm_find m k = None -> sm_remove m k = m.
Proof. intros H. apply sm_remove_notin. apply sm_find_none_notin. exact H. Qed.

Lemma sm_find_remove_other m k k' : k' <> k -> sm_find (sm_remove m k) k' = sm_find m k'.
Proof.
  intros Hne. induction m as [|[k1 v1] m IH]; cbn [sm_find sm_remove]; [reflexivity|].
  destruct (Z.eqb_spec k k1) as [->|Hk].
  - destruct (Z.eqb_spec k' k1) as [?|_]; [congruence|reflexivity].
  - cbn [sm_find]. rewrite IH. reflexivity.
Qed.

Lemma sm_find_remove_same m k : ssorted m -> sm_find (sm_remove m k) k = None.
Proof.
  unfold ssorted, zsorted, skeys.
  induction m as [|[k1 v1] m IH]; cbn [sm_find sm_remove map fst]; intros S; [reflexivity|].
  inversion S as [|? ? Hs Hf]; subst.
  destruct (Z.eqb_spec k k1) as [->|Hk].
  - apply sm_find_notin. intros Hin. rewrite Forall_forall in Hf. specialize (Hf k1 Hin). lia.
  - cbn [sm_find]. destruct (Z.eqb_spec k k1) as [?|_]; [congruence|]. auto.
Qed.

Lemma sm_remove_length m k v : sm_find m k = Some v -> S (length (sm_remove m k)) = length m.
Proof.
  induction m as [|[k1 v1] m IH]; cbn [sm_find sm_remove length]; [discriminate|].
  destruct (k =? k1); [reflexivity|]. intros H. cbn [length]. rewrite IH; [reflexivity|exact H].
Qed.

(* ---- update ---- *)
Lemma sm_find_update_same m k v :
  sm_find (sm_update m k v) k = match sm_find m k with Some _ => Some v | None => None end.
Proof.
  induction m as [|[k1 v1] m IH]; cbn [sm_find sm_update]; [reflexivity|].
  destruct (Z.eqb_spec k k1) as [->|Hk]; cbn [sm_find].
  - rewrite Z.eqb_refl. reflexivity.
  - destruct (Z.eqb_spec k k1) as [?|_]; [congruence|]. exact IH.
Qed.

Lemma sm_find_update_other m k v k' : k' <> k -> sm_find (sm_update m k v) k' = sm_find m k'.
Proof.
  intros Hne. induction m as [|[k1 v1] m IH]; cbn [sm_find sm_update]; [reflexivity|].
  destruct (Z.eqb_spec k k1) as [->|Hk]; cbn [sm_find].
  - destruct (Z.eqb_spec k' k1) as [?|_]; [congruence|reflexivity].
  - rewrite IH. reflexivity.
Qed.

Lemma sm_update_length m k v : length (sm_update m k v) = length m.
Proof.
  induction m as [|[k1 v1] m IH]; cbn [sm_update length]; [reflexivity|].
  destruct (k =? k1); cbn [length]; [reflexivity|]. rewrite IH. reflexivity.
Qed.

Lemma sm_update_absent m k v : sm_find m k = None -> sm_update m k v = m.
Proof. intros H. apply sm_update_notin. apply sm_find_none_notin. exact H. Qed.

(* ---- the first entry of a sorted map is its minimum ---- *)
Definition sm_lowest (m : smap) : option Z := match m with [] => None | (k, _) :: _ => Some k end.

Lemma sm_lowest_min m :
  ssorted m ->
  match sm_lowest m with
  | None => m = []
  | Some k0 => In k0 (skeys m) /\ (forall k, In k (skeys m) -> k0 <= k) /\
               (exists v0, sm_find m k0 = Some v0)
  end.
Proof.
  unfold ssorted, zsorted, skeys. destruct m as [|[k0 v0] m]; cbn [sm_lowest map fst]; [reflexivity|].
  intros S. inversion S as [|? ? Hs Hf]; subst. split; [left; reflexivity|]. split.
  - intros k [<-|Hin]; [lia|]. rewrite Forall_forall in Hf. specialize (Hf k Hin). lia.
  - exists v0. cbn [sm_find]. rewrite Z.eqb_refl. reflexivity.
Qed.
