(* C06 for the AVL trees: in every state satisfying the master invariant the
   represented tree is height balanced with exact stored heights, its number
   of levels is bounded by the greatest number of levels a height-balanced
   tree with that many entries can have, and every operation compares the
   sought key only with the keys of ONE root-to-leaf path, each at most
   twice.  The facts about [remove] are taken from the hypothesis
   [remove_spec_statement] (proved in Avl/LinkRemove.v by its own author). *)
From Coq Require Import List NArith ZArith Bool Lia ZifyBool Permutation.
From Stevia Require Import Base.Res Avl.Impl Avl.Tree Avl.Rep Avl.Spec Avl.LinkPrim.
From Stevia Require Import Avl.TreeInv Avl.SmapFacts Avl.TreeOps Avl.TreeHeight Avl.TreeProps.
From Stevia Require Import Avl.LinkFind Avl.Alloc Avl.Inv Avl.LinkInsert Avl.LinkSteps.
From Stevia Require Import Arr.Impl Arr.Spec Arr.Search Arr.Refine Arr.ArrProps.
Import ListNotations.
Open Scope N_scope.

Arguments N.add : simpl never.
Arguments N.sub : simpl never.
Arguments N.mul : simpl never.
Arguments N.div : simpl never.
Arguments N.pow : simpl never.
Arguments N.modulo : simpl never.
Arguments N.eqb : simpl never.
Arguments N.ltb : simpl never.
Arguments N.leb : simpl never.
Arguments N.max : simpl never.
Arguments Z.add : simpl never.
Arguments Z.sub : simpl never.
Arguments Z.ltb : simpl never.
Arguments Z.gtb : simpl never.
Arguments Z.eqb : simpl never.
Arguments N.of_nat : simpl never.
Arguments N.to_nat : simpl never.

(* The statement proved by Avl/LinkRemove.v (lemma remove_spec), verbatim. *)
Definition remove_spec_statement (bits : N) : Prop :=
  forall s t fr term key, Inv bits s t fr term -> okbits bits ->
    (t_find t key = None -> remove bits s key = Ok (s, None, t_log t key)) /\
    (forall slot v, t_find t key = Some (slot, v) ->
       exists s' fr' term', remove bits s key = Ok (s', Some v, t_log t key) /\
         Inv bits s' (t_remove t key) fr' term' /\ fr' = slot :: fr /\ cap s' = cap s /\
         length (nodes s') = length (nodes s)).

(* ------------------------------------------------------------------ *)
(* 1. balance at every node                                            *)

(* [subtree u t]: u occurs in t (t itself included) *)
Inductive subtree (u : itree) : itree -> Prop :=
| sub_here : subtree u u
| sub_left l i k v h r : subtree u l -> subtree u (T l i k v h r)
| sub_right l i k v h r : subtree u r -> subtree u (T l i k v h r).

Lemma subtree_avl u t : subtree u t -> avl t -> avl u.
Proof.
  induction 1 as [|l i k v h r _ IH|l i k v h r _ IH]; [auto| |];
    cbn [avl]; intros (_ & _ & Al & Ar); auto.
Qed.
Lemma subtree_hok u t : subtree u t -> hok t -> hok u.
Proof.
  induction 1 as [|l i k v h r _ IH|l i k v h r _ IH]; [auto| |];
    cbn [hok]; intros (_ & Hl & Hr); auto.
Qed.
Lemma subtree_bst u t : subtree u t -> bst t -> bst u.
Proof.
  induction 1 as [|l i k v h r _ IH|l i k v h r _ IH]; [auto| |];
    cbn [bst]; intros (_ & _ & Bl & Br); auto.
Qed.
Lemma subtree_levels u t : subtree u t -> levels u <= levels t.
Proof.
  induction 1 as [|l i k v h r _ IH|l i k v h r _ IH]; cbn [levels]; lia.
Qed.
Lemma subtree_trans a b c : subtree a b -> subtree b c -> subtree a c.
Proof.
  intros Hab Hbc. induction Hbc as [|l i k v h r _ IH|l i k v h r _ IH];
    [assumption|apply sub_left; assumption|apply sub_right; assumption].
Qed.
(* every slot of the tree is the root of a subtree *)
Lemma subtree_of_slot t j : In j (idxs t) -> exists l k v h r, subtree (T l j k v h r) t.
Proof.
  induction t as [|l IHl i k v h r IHr]; cbn [idxs]; [intros []|].
  intros Hj. apply in_app_or in Hj. destruct Hj as [Hj|[<-|Hj]].
  - destruct (IHl Hj) as (l' & k' & v' & h' & r' & Hs). exists l', k', v', h', r'. apply sub_left. exact Hs.
  - exists l, k, v, h, r. apply sub_here.
  - destruct (IHr Hj) as (l' & k' & v' & h' & r' & Hs). exists l', k', v', h', r'. apply sub_right. exact Hs.
Qed.

(* at a node: the two subtrees differ in height by at most one, and the
   stored height register is the height of the subtree in edges (leaf = 0) *)
Definition node_balanced (u : itree) : Prop :=
  match u with
  | E => True
  | T l _ _ _ h r =>
    levels l <= levels r + 1 /\ levels r <= levels l + 1 /\ h + 1 = 1 + N.max (levels l) (levels r)
  end.

Lemma balanced_everywhere t : avl t -> hok t -> forall u, subtree u t -> node_balanced u.
Proof.
  intros Ha Hh u Hs. pose proof (subtree_avl u t Hs Ha) as Hau. pose proof (subtree_hok u t Hs Hh) as Hhu.
  destruct u as [|l i k v h r]; [exact I|]. cbn [node_balanced avl hok levels] in *. lia.
Qed.

Section W.
Variable bits : N.

Theorem inv_balanced s t fr term :
  Inv bits s t fr term ->
  avl t /\ hok t /\ (forall u, subtree u t -> node_balanced u).
Proof.
  intros H. pose proof (inv_avl _ _ _ _ _ H) as Ha. pose proof (inv_hok _ _ _ _ _ H) as Hh.
  split; [exact Ha|]. split; [exact Hh|]. apply balanced_everywhere; assumption.
Qed.

(* the explicit form of the third clause *)
Theorem inv_balanced_nodes s t fr term l i k v h r :
  Inv bits s t fr term -> subtree (T l i k v h r) t ->
  levels l <= levels r + 1 /\ levels r <= levels l + 1 /\ h = N.max (levels l) (levels r).
Proof.
  intros H Hs. destruct (inv_balanced s t fr term H) as (_ & _ & Hb).
  specialize (Hb _ Hs). cbn [node_balanced] in Hb. lia.
Qed.

Lemma inv_size_tsize s t fr term : Inv bits s t fr term -> size s = tsize t.
Proof.
  intros H. rewrite (ai_size _ _ _ _ _ (inv_alloc _ _ _ _ _ H)), tsize_idxs. reflexivity.
Qed.

(* the height bound: [minnodes h] is the least number of entries of a
   height-balanced tree with h levels, so a tree with [size s] entries has at
   most the greatest h with minnodes h <= size s *)
Theorem inv_height_bound s t fr term :
  Inv bits s t fr term -> minnodes (N.to_nat (levels t)) <= size s.
Proof.
  intros H. rewrite (inv_size_tsize s t fr term H). apply avl_height_bound. exact (inv_avl _ _ _ _ _ H).
Qed.

Theorem inv_height_lt s t fr term h :
  Inv bits s t fr term -> size s < minnodes h -> levels t < N.of_nat h.
Proof.
  intros H Hs. apply avl_levels_lt; [exact (inv_avl _ _ _ _ _ H)|].
  rewrite <- (inv_size_tsize s t fr term H). exact Hs.
Qed.

Theorem inv_height_closed s t fr term :
  Inv bits s t fr term -> 2 ^ (levels t / 2) <= size s + 1.
Proof.
  intros H. pose proof (inv_height_bound s t fr term H) as Hb.
  pose proof (minnodes_closed (N.to_nat (levels t))) as Hc. rewrite N2Nat.id in Hc. lia.
Qed.

Theorem inv_levels_width s t fr term :
  Inv bits s t fr term -> okbits bits -> levels t <= lvbound bits.
Proof. apply inv_levels. Qed.

(* ------------------------------------------------------------------ *)
(* 2. comparison cost                                                  *)

(* the keys compared lie on one path from the root, in order, each key
   once (descent to the left) or twice *)
Definition on_one_path (t : itree) (log : list Z) : Prop :=
  exists p : list (Z * bool),
    is_path t (map fst p) /\ N.of_nat (length p) <= levels t /\
    log = flat_map (fun kb : Z * bool => if snd kb then [fst kb; fst kb] else [fst kb]) p.

Definition path_cost (t : itree) (log : list Z) : Prop :=
  on_one_path t log /\
  (forall d, NoDup d -> incl d log -> N.of_nat (length d) <= levels t) /\
  N.of_nat (length log) <= 2 * levels t /\
  (bst t -> forall x, (count_occ Z.eq_dec log x <= 2)%nat).

Lemma is_path_keys t : forall p, is_path t p -> incl p (keys t).
Proof.
  induction t as [|l IHl i k v h r IHr]; intros p; destruct p as [|x p]; cbn [is_path keys].
  - intros _ y [].
  - intros [].
  - intros _ y [].
  - intros [-> [Hp|Hp]] y [<-|Hy].
    + apply in_or_app. right. left. reflexivity.
    + apply in_or_app. left. exact (IHl p Hp y Hy).
    + apply in_or_app. right. left. reflexivity.
    + apply in_or_app. right. right. exact (IHr p Hp y Hy).
Qed.

Lemma is_path_nodup t : forall p, bst t -> is_path t p -> NoDup p.
Proof.
  induction t as [|l IHl i k v h r IHr]; intros p Hb; destruct p as [|x p]; cbn [is_path];
    try (intros; constructor; fail); [intros []|].
  cbn [bst] in Hb. destruct Hb as (Hlt & Hgt & Bl & Br).
  intros [-> [Hp|Hp]]; constructor.
  - intros Hin. apply (is_path_keys l p Hp) in Hin.
    pose proof (all_keys_In _ _ _ Hlt Hin) as HH. cbv beta in HH. lia.
  - apply IHl; assumption.
  - intros Hin. apply (is_path_keys r p Hp) in Hin.
    pose proof (all_keys_In _ _ _ Hgt Hin) as HH. cbv beta in HH. lia.
  - apply IHr; assumption.
Qed.

Lemma log_of_count p x : NoDup (map fst p) -> (count_occ Z.eq_dec (log_of p) x <= 2)%nat.
Proof.
  induction p as [|[k b] p IH]; cbn [map fst]; intros Hnd; [cbn; lia|].
  inversion Hnd as [|? ? Hk Hp]; subst. specialize (IH Hp).
  change (log_of ((k, b) :: p)) with ((if b then [k; k] else [k]) ++ log_of p).
  rewrite count_occ_app. destruct (Z.eq_dec k x) as [->|Hne].
  - assert (Hz : count_occ Z.eq_dec (log_of p) x = 0%nat).
    { apply count_occ_not_In. intros Hin. apply Hk. apply log_of_incl. exact Hin. }
    rewrite Hz. destruct b; cbn [count_occ]; destruct (Z.eq_dec x x); lia.
  - assert (Hz : count_occ Z.eq_dec (if b then [k; k] else [k]) x = 0%nat).
    { apply count_occ_not_In. destruct b; cbn [In]; intuition. }
    rewrite Hz. lia.
Qed.

(* the generic statement: whatever returns the log [t_log t key] has the
   cost of one descent *)
Theorem log_cost t key log : log = t_log t key -> path_cost t log.
Proof.
  intros ->. destruct (TreeOps.t_log_path t key) as (p & Pp & Lp & Ep).
  split; [exists p; auto|]. split; [intros d; apply t_log_distinct|].
  split; [apply t_log_length|].
  intros Hb x. rewrite Ep. apply log_of_count. apply (is_path_nodup t); assumption.
Qed.

(* what C06 says about an operation that returned [log] in state [s]
   representing [t] *)
Definition bounded_cost (s : st) (t : itree) (log : list Z) : Prop :=
  path_cost t log /\ levels t <= lvbound bits /\
  minnodes (N.to_nat (levels t)) <= size s /\ 2 ^ (levels t / 2) <= size s + 1.

Lemma inv_bounded_cost s t fr term key :
  Inv bits s t fr term -> okbits bits -> bounded_cost s t (t_log t key).
Proof.
  intros H Hb. split; [apply (log_cost t key); reflexivity|].
  split; [apply (inv_levels_width s t fr term); assumption|].
  split; [apply (inv_height_bound s t fr term H)|apply (inv_height_closed s t fr term H)].
Qed.

Theorem cost_get s t fr term key :
  Inv bits s t fr term -> okbits bits ->
  exists r, get s key = Ok (r, t_log t key) /\ bounded_cost s t (t_log t key).
Proof.
  intros H Hb. exists (sm_find (inorder t) key). split; [apply (get_inv_spec bits s t fr term); exact H|].
  apply (inv_bounded_cost s t fr term); assumption.
Qed.

Theorem cost_contains s t fr term key :
  Inv bits s t fr term -> okbits bits ->
  exists r, contains s key = Ok (r, t_log t key) /\ bounded_cost s t (t_log t key).
Proof.
  intros H Hb. eexists. split; [apply (contains_inv_spec bits s t fr term); exact H|].
  apply (inv_bounded_cost s t fr term); assumption.
Qed.

Theorem cost_get_mut s t fr term key v' :
  Inv bits s t fr term -> okbits bits ->
  exists s' r, get_mut_set s key v' = Ok (s', r, t_log t key) /\ bounded_cost s t (t_log t key).
Proof.
  intros H Hb. destruct (get_mut_inv_spec bits s t fr term key v' H) as (s' & Hg & _).
  exists s'. eexists. split; [exact Hg|]. apply (inv_bounded_cost s t fr term); assumption.
Qed.

(* insert: the key is present / absent and the tree full / absent and the
   key is inserted - in all three cases the log is that of one descent *)
Theorem cost_insert s t fr term key value :
  Inv bits s t fr term -> okbits bits ->
  exists s' r, insert bits s key value = Ok (s', r, t_log t key) /\
    bounded_cost s t (t_log t key) /\
    (t_find t key <> None -> s' = s /\ r = None) /\
    (t_find t key = None -> is_full s = true -> s' = s /\ r = None) /\
    (t_find t key = None -> is_full s = false -> exists new, r = Some new).
Proof.
  intros H Hb. destruct (insert_spec bits s t fr term key value H Hb) as (H1 & H2 & H3).
  pose proof (inv_bounded_cost s t fr term key H Hb) as Hc.
  destruct (t_find t key) as [x|] eqn:Ef.
  - exists s, None. split; [apply H1; discriminate|]. split; [exact Hc|].
    split; [auto|]. split; intros; discriminate.
  - destruct (is_full s) eqn:Efull.
    + exists s, None. split; [apply H2; reflexivity|]. split; [exact Hc|].
      split; [intros HH; congruence|]. split; [auto|intros; discriminate].
    + destruct (H3 eq_refl eq_refl) as (s' & new & fr' & term' & Hi & _).
      exists s', (Some new). split; [exact Hi|]. split; [exact Hc|].
      split; [intros HH; congruence|]. split; [intros; discriminate|]. intros _ _. exists new. reflexivity.
Qed.

Section Remove.
Hypothesis Hremove : remove_spec_statement bits.

Theorem cost_remove s t fr term key :
  Inv bits s t fr term -> okbits bits ->
  exists s' r, remove bits s key = Ok (s', r, t_log t key) /\ bounded_cost s t (t_log t key).
Proof.
  intros H Hb. destruct (Hremove s t fr term key H Hb) as (H1 & H2).
  pose proof (inv_bounded_cost s t fr term key H Hb) as Hc.
  destruct (t_find t key) as [[slot v]|] eqn:Ef.
  - destruct (H2 slot v eq_refl) as (s' & fr' & term' & Hr & _). exists s', (Some v). auto.
  - exists s, None. auto.
Qed.

(* every operation of a history keeps the invariant: "every reachable state" *)
Theorem step_inv s t fr term o :
  Inv bits s t fr term -> okbits bits -> sizecond bits s ->
  (forall n, o = OExt n -> sizecond bits (ext_nodes s n)) ->
  exists s' out log t' fr' term',
    step_c bits s o = Ok (s', out, log) /\ Inv bits s' t' fr' term' /\ sizecond bits s'.
Proof.
  intros H Hb Hsc Hext. destruct o as [k v|k|k|k v|k|k| | | | | |n| |];
    try (match goal with |- context [step_c bits s ?oo] =>
           destruct (step_refines_noremove bits s t fr term oo H Hb Hsc I Hext)
             as (s' & out & log & t' & fr' & term' & Hs & Hi & _ & Hsc') end;
         exists s', out, log, t', fr', term'; auto; fail).
  destruct (open_mut_inv_spec bits s t fr term H Hsc) as (s1 & fr1 & Ho & H1 & Hc1 & _ & Hl1 & _).
  assert (Hsc1 : sizecond bits s1) by (apply (sizecond_mono bits s s1); [exact Hl1|lia|exact Hsc]).
  cbn [step_c]. rewrite Ho. cbn [bind].
  destruct (Hremove s1 t fr1 term k H1 Hb) as (R1 & R2).
  destruct (t_find t k) as [[slot v]|] eqn:Ef.
  - destruct (R2 slot v eq_refl) as (s' & fr' & term' & Hr & Hi & _ & Hc & Hl).
    rewrite Hr. cbn [bind]. exists s', (RVal (Some v)), (t_log t k), (t_remove t k), fr', term'.
    split; [reflexivity|]. split; [exact Hi|].
    apply (sizecond_mono bits s1 s'); [exact Hl|lia|exact Hsc1].
  - rewrite (R1 eq_refl). cbn [bind]. exists s1, (RVal None), (t_log t k), t, fr1, term. auto.
Qed.

(* states reachable from an initialised buffer by any history in which the
   buffer never grows beyond what the index width can address *)
Inductive reach : st -> Prop :=
| reach_init capacity :
    capacity < 2 ^ bits -> (bits <> 8 -> capacity + 1 < 2 ^ bits) -> reach (init_c capacity capacity)
| reach_step s o s' out log :
    reach s -> step_c bits s o = Ok (s', out, log) ->
    (forall n, o = OExt n -> sizecond bits s') -> reach s'.

Theorem reach_inv s : okbits bits -> reach s -> exists t fr term, Inv bits s t fr term /\ sizecond bits s.
Proof.
  intros Hb. induction 1 as [capacity H1 H2|s o s' out log _ IH Hs Hext].
  - exists E, [], 1. split; [apply inv_init; assumption|].
    left. unfold init_c, initialize. cbn [nodes cap]. rewrite repeat_length. lia.
  - destruct IH as (t & fr & term & Hi & Hsc).
    destruct (step_inv s t fr term o Hi Hb Hsc) as (s2 & out2 & log2 & t' & fr' & term' & Hs2 & Hi2 & Hsc2).
    { intros n ->. specialize (Hext n eq_refl). cbn [step_c] in Hs. injection Hs as <- _ _. exact Hext. }
    rewrite Hs in Hs2. injection Hs2 as <- _ _. exists t', fr', term'. auto.
Qed.

Theorem reach_balanced s : okbits bits -> reach s ->
  exists t fr term, Inv bits s t fr term /\
    avl t /\ hok t /\ (forall u, subtree u t -> node_balanced u) /\
    minnodes (N.to_nat (levels t)) <= size s /\ levels t <= lvbound bits.
Proof.
  intros Hb Hr. destruct (reach_inv s Hb Hr) as (t & fr & term & Hi & _).
  exists t, fr, term. destruct (inv_balanced s t fr term Hi) as (Ha & Hh & Hn).
  repeat (split; [assumption|]). split; [apply (inv_height_bound s t fr term Hi)|].
  apply (inv_levels_width s t fr term); assumption.
Qed.
End Remove.
End W.

(* the two widths *)
Theorem inv_levels_u8 s t fr term : Inv 8 s t fr term -> levels t <= 11.
Proof. intros H. apply (inv_levels 8 s t fr term H). left. reflexivity. Qed.
Theorem inv_levels_u32 s t fr term : Inv 32 s t fr term -> levels t <= 45.
Proof. intros H. apply (inv_levels 32 s t fr term H). right. reflexivity. Qed.

(* the bound [minnodes] is attained by a height-balanced tree for every
   number of levels: it IS the greatest height possible *)
Theorem height_bound_tight h :
  exists t, avl t /\ tsize t = minnodes h /\ levels t = N.of_nat h.
Proof. destruct (fibtree_spec h) as [(L & S & A) _]. exists (fibtree h). auto. Qed.

(* ------------------------------------------------------------------ *)
(* 3. array sets                                                       *)

(* k = ceil(log2 m): the least k with m <= 2^k *)
Definition is_clog2 (m k : N) : Prop := m <= 2 ^ k /\ forall j, m <= 2 ^ j -> k <= j.

Lemma size_is_clog2 n : is_clog2 (n + 1) (N.size n).
Proof.
  split.
  - pose proof (N.size_gt n). lia.
  - intros j Hj. destruct (N.le_gt_cases (N.size n) j) as [Hle|Hgt]; [exact Hle|exfalso].
    destruct (N.eq_dec n 0) as [->|Hn]; [change (N.size 0) with 0 in Hgt; lia|].
    rewrite N.size_log2 in Hgt by exact Hn.
    assert (Hp : 2 ^ j <= 2 ^ N.log2 n) by (apply N.pow_le_mono_r; lia).
    pose proof (N.log2_spec n) as Hs. lia.
Qed.

(* an array-set operation compares the sought value with at most
   ceil(log2(n+1)) elements (hence with at most ceil(log2(n+1)) + 1) *)
Theorem arr_cost_c06 pbytes s o s' out c :
  ainv pbytes s -> aop_ok o -> astep_c pbytes s o = Ok (s', out, c) ->
  exists k, is_clog2 (alen s + 1) k /\ c <= k /\ c <= k + 1 /\
    (alen s = 0 -> c = 0) /\ (1 <= alen s -> c <= N.log2 (alen s) + 1).
Proof.
  intros Hi Hok Hr. exists (N.size (alen s)).
  destruct (arr_lookup_cost_size pbytes s o s' out c Hi Hok Hr) as (Hc & _).
  split; [apply size_is_clog2|]. split; [exact Hc|]. split; [lia|].
  exact (arr_lookup_cost pbytes s o s' out c Hi Hok Hr).
Qed.

(* ------------------------------------------------------------------ *)
(* Example: eight insertions (ascending, so every rotation case of the
   insertion path occurs) and one removal, in a u8 tree initialised with
   capacity 9 in a buffer of 10 records (so the first insertion also claims
   the tenth record).  Slot 2 is recycled, slots 9 and 10 were never used. *)
Definition ex_ops : list op :=
  [OInsert 10 100; OInsert 20 200; OInsert 30 300; OInsert 40 400; OInsert 50 500;
   OInsert 60 600; OInsert 70 700; OInsert 45 450; ORemove 20]%Z.
Definition ex_state : st :=
  mkS 4 7 10 2 9
    [mkN 0 0 0 10 100; mkN 0 0 9 0 0; mkN 1 0 1 30 300; mkN 3 6 3 40 400; mkN 8 0 1 50 500;
     mkN 5 7 2 60 600; mkN 0 0 0 70 700; mkN 0 0 0 45 450; node0; node0]%Z.
Definition ex_tree : itree :=
  T (T (T E 1 10 100 0 E) 3 30 300 1 E) 4 40 400 3
    (T (T (T E 8 45 450 0 E) 5 50 500 1 E) 6 60 600 2 (T E 7 70 700 0 E)).

Example ex_run : final_c 8 (init_c 9 10) ex_ops = Ok ex_state.
Proof. vm_compute. reflexivity. Qed.

Example ex_inv : Inv 8 ex_state ex_tree [2] 9.
Proof.
  constructor.
  - cbn [rep ex_tree idx]. unfold holds.
    repeat match goal with
           | |- _ /\ _ => split
           | |- True => exact I
           | |- exists n, _ => eexists; split; [vm_compute; reflexivity|repeat split]
           end.
  - reflexivity.
  - cbv [ex_tree hok levels]. repeat split; reflexivity.
  - cbv [ex_tree avl levels]. repeat split; try exact I; discriminate.
  - cbv [ex_tree bst all_keys]. repeat split; try exact I; reflexivity.
  - constructor.
    + cbn [ex_tree idxs app].
      repeat (constructor; [cbn [In]; intros HH;
                            repeat (destruct HH as [HH|HH]; [discriminate HH|]); exact HH|]).
      constructor.
    + intros x Hx. cbn [ex_tree idxs app In] in Hx. change (lseq 8 ex_state) with 9.
      repeat (destruct Hx as [<-|Hx]; [lia|]). destruct Hx.
    + reflexivity.
    + reflexivity.
    + cbn [fchain]. split; [reflexivity|]. eexists. split; [vm_compute; reflexivity|reflexivity].
    + reflexivity.
    + intros x [<-|[]]. eexists. split; [vm_compute; reflexivity|]. repeat split.
    + change (lseq 8 ex_state) with 9. change (N.of_nat (length (nodes ex_state))) with 10.
      intros j H1 H2. assert (Hj : j = 9 \/ j = 10) by lia. destruct Hj as [-> | ->]; reflexivity.
    + change (lseq 8 ex_state) with 9. lia.
    + change (lseq 8 ex_state) with 9. cbn [cap ex_state]. lia.
    + change (N.of_nat (length (nodes ex_state))) with 10. cbn [cap ex_state]. lia.
    + reflexivity.
    + intros HH. exfalso. apply HH. reflexivity.
Qed.

(* looking up 45 compares with the keys of the path 40, 60, 50, 45: four
   distinct keys = the number of levels; 7 entries allow no more than 4 *)
Example ex_lookup :
  get ex_state 45%Z = Ok (Some 450%Z, [40; 40; 60; 50; 45; 45]%Z) /\
  t_log ex_tree 45%Z = [40; 40; 60; 50; 45; 45]%Z /\ levels ex_tree = 4 /\
  minnodes 4 = 7 /\ minnodes 5 = 12.
Proof. repeat split; vm_compute; reflexivity. Qed.

Print Assumptions inv_balanced.
Print Assumptions inv_balanced_nodes.
Print Assumptions inv_height_bound.
Print Assumptions inv_height_closed.
Print Assumptions inv_levels_u8.
Print Assumptions inv_levels_u32.
Print Assumptions log_cost.
Print Assumptions cost_get.
Print Assumptions cost_contains.
Print Assumptions cost_get_mut.
Print Assumptions cost_insert.
Print Assumptions cost_remove.
Print Assumptions reach_balanced.
Print Assumptions height_bound_tight.
Print Assumptions arr_cost_c06.
