(* Layer T theory, part 1: heights, balance, the rebalancing step. *)
From Coq Require Import List NArith ZArith Bool Lia Permutation.
From Stevia Require Import Avl.Tree.
Import ListNotations.
Open Scope N_scope.
Arguments N.add : simpl never. Arguments N.sub : simpl never. Arguments N.max : simpl never.
Arguments Z.add : simpl never. Arguments Z.sub : simpl never. Arguments Z.of_N : simpl never.
Arguments Z.ltb : simpl never. Arguments N.leb : simpl never.

(* ------------------------------------------------------------------ *)
(* The in-order list of (slot, key, value) triples: the finest "content"
   observation; everything else about contents is a projection of it. *)
Fixpoint triples t : list (N * Z * Z) :=
  match t with E => [] | T l i k v _ r => triples l ++ (i, k, v) :: triples r end.
Definition tr_slot (x : N * Z * Z) : N := fst (fst x).
Definition tr_key (x : N * Z * Z) : Z := snd (fst x).
Definition tr_kv (x : N * Z * Z) : Z * Z := (snd (fst x), snd x).

Lemma inorder_triples t : inorder t = map tr_kv (triples t).
Proof.
  induction t as [|l IHl i k v h r IHr]; [reflexivity|].
  cbn [inorder triples]. rewrite map_app. cbn [map]. rewrite IHl, IHr. reflexivity.
Qed.
Lemma idxs_triples t : idxs t = map tr_slot (triples t).
Proof.
  induction t as [|l IHl i k v h r IHr]; [reflexivity|].
  cbn [idxs triples]. rewrite map_app. cbn [map]. rewrite IHl, IHr. reflexivity.
Qed.
Lemma keys_inorder t : keys t = map fst (inorder t).
Proof.
  induction t as [|l IHl i k v h r IHr]; [reflexivity|].
  cbn [keys inorder]. rewrite map_app. cbn [map]. rewrite IHl, IHr. reflexivity.
Qed.
Lemma keys_triples t : keys t = map tr_key (triples t).
Proof. rewrite keys_inorder, inorder_triples, map_map. reflexivity. Qed.
Lemma tsize_triples t : tsize t = N.of_nat (length (triples t)).
Proof.
  induction t as [|l IHl i k v h r IHr]; [reflexivity|].
  cbn [tsize triples]. rewrite app_length. cbn [length]. rewrite IHl, IHr. lia.
Qed.
Lemma tsize_inorder t : tsize t = N.of_nat (length (inorder t)).
Proof. rewrite tsize_triples, inorder_triples, map_length. reflexivity. Qed.

Lemma all_keys_Forall P t : all_keys P t <-> Forall P (keys t).
Proof.
  induction t as [|l IHl i k v h r IHr]; cbn [all_keys keys].
  - split; auto.
  - rewrite Forall_app, Forall_cons_iff, IHl, IHr. tauto.
Qed.
Lemma all_keys_inorder P t : all_keys P t <-> Forall (fun y => P (fst y)) (inorder t).
Proof. rewrite all_keys_Forall, keys_inorder, Forall_map. reflexivity. Qed.
Lemma all_keys_imp (P Q : Z -> Prop) t : (forall x, P x -> Q x) -> all_keys P t -> all_keys Q t.
Proof. rewrite !all_keys_Forall. intros H. apply Forall_impl. exact H. Qed.
Lemma all_keys_In P t x : all_keys P t -> In x (keys t) -> P x.
Proof. rewrite all_keys_Forall, Forall_forall. auto. Qed.

(* ------------------------------------------------------------------ *)
Lemma hp_levels t : hok t -> hp t = Z.of_N (levels t).
Proof. destruct t; cbn [hok hp levels]; [reflexivity|]. intros [H _]. rewrite <- H. lia. Qed.

Lemma sth_levels t : hok t -> t <> E -> sth t + 1 = levels t.
Proof. destruct t; cbn [hok sth levels]; [congruence|]. intros [H _] _. exact H. Qed.

Lemma levels_pos l i k v h r : 1 <= levels (T l i k v h r).
Proof. cbn [levels]. lia. Qed.

Lemma levels_E_inv t : levels t = 0 -> t = E.
Proof. destruct t; [reflexivity|]. cbn [levels]. lia. Qed.

Lemma newh_ok l r : hok l -> hok r -> newh l r + 1 = 1 + N.max (levels l) (levels r).
Proof.
  intros Hl Hr. destruct l as [|ll li lk lv lh lr], r as [|rl ri rk rv rh rr]; cbn [newh sth].
  - cbn [levels]. lia.
  - cbn [hok] in Hr. destruct Hr as [Hr _]. revert Hr. generalize (levels (T rl ri rk rv rh rr)).
    cbn [levels]. intros. lia.
  - cbn [hok] in Hl. destruct Hl as [Hl _]. revert Hl. generalize (levels (T ll li lk lv lh lr)).
    cbn [levels]. intros. lia.
  - cbn [hok] in Hl, Hr. destruct Hl as [Hl _], Hr as [Hr _]. revert Hl Hr.
    generalize (levels (T ll li lk lv lh lr)), (levels (T rl ri rk rv rh rr)). intros. lia.
Qed.

Lemma hok_mk l i k v r : hok l -> hok r -> hok (mk l i k v r).
Proof. intros Hl Hr. unfold mk. cbn [hok levels]. rewrite newh_ok by assumption. auto. Qed.
Lemma levels_mk l i k v r : levels (mk l i k v r) = 1 + N.max (levels l) (levels r).
Proof. reflexivity. Qed.
Lemma inorder_mk l i k v r : inorder (mk l i k v r) = inorder l ++ (k, v) :: inorder r.
Proof. reflexivity. Qed.
Lemma triples_mk l i k v r : triples (mk l i k v r) = triples l ++ (i, k, v) :: triples r.
Proof. reflexivity. Qed.
Lemma idxs_mk l i k v r : idxs (mk l i k v r) = idxs l ++ i :: idxs r.
Proof. reflexivity. Qed.
Lemma tsize_mk l i k v r : tsize (mk l i k v r) = 1 + tsize l + tsize r.
Proof. reflexivity. Qed.
Lemma avl_mk l i k v r :
  avl l -> avl r -> levels l <= levels r + 1 -> levels r <= levels l + 1 -> avl (mk l i k v r).
Proof. intros. unfold mk. cbn [avl]. auto. Qed.

Lemma rotl_T l i k v h b j kj vj hj c :
  rotl (T l i k v h (T b j kj vj hj c)) = mk (mk l i k v b) j kj vj c.
Proof. reflexivity. Qed.
Lemma rotr_T a j kj vj hj b i k v h r :
  rotr (T (T a j kj vj hj b) i k v h r) = mk a j kj vj (mk b i k v r).
Proof. reflexivity. Qed.
Lemma rotl_mk l i k v h b j kj vj c :
  rotl (T l i k v h (mk b j kj vj c)) = mk (mk l i k v b) j kj vj c.
Proof. reflexivity. Qed.
Lemma rotr_mk a j kj vj b i k v h r :
  rotr (T (mk a j kj vj b) i k v h r) = mk a j kj vj (mk b i k v r).
Proof. reflexivity. Qed.

(* ------------------------------------------------------------------ *)
(* Rotations never change the in-order sequence of triples: unconditional. *)
Ltac norm_app := repeat first [rewrite <- app_assoc | progress cbn [app]].

Lemma triples_rotl t : triples (rotl t) = triples t.
Proof.
  destruct t as [|l i k v h r]; [reflexivity|].
  destruct r as [|b j kj vj hj c]; [reflexivity|].
  rewrite rotl_T, !triples_mk. cbn [triples]. norm_app. reflexivity.
Qed.
Lemma triples_rotr t : triples (rotr t) = triples t.
Proof.
  destruct t as [|l i k v h r]; [reflexivity|].
  destruct l as [|a j kj vj hj b]; [reflexivity|].
  rewrite rotr_T, !triples_mk. cbn [triples]. norm_app. reflexivity.
Qed.

Lemma triples_rebal t : triples (rebal t) = triples t.
Proof.
  destruct t as [|l i k v h r]; [reflexivity|]. cbn [rebal].
  destruct (1 <? bfac l r)%Z.
  - destruct l as [|ll li lk lv lh lr]; [reflexivity|].
    rewrite triples_rotr. cbn [triples]. f_equal.
    destruct (bfac ll lr <? 0)%Z; [apply triples_rotl|reflexivity].
  - destruct (bfac l r <? -1)%Z; [|reflexivity].
    destruct r as [|rl ri rk rv rh rr]; [reflexivity|].
    rewrite triples_rotl. cbn [triples]. do 2 f_equal.
    destruct (0 <? bfac rl rr)%Z; [apply triples_rotr|reflexivity].
Qed.

Lemma inorder_rebal t : inorder (rebal t) = inorder t.
Proof. rewrite !inorder_triples, triples_rebal. reflexivity. Qed.
Lemma idxs_rebal t : idxs (rebal t) = idxs t.
Proof. rewrite !idxs_triples, triples_rebal. reflexivity. Qed.
Lemma keys_rebal t : keys (rebal t) = keys t.
Proof. rewrite !keys_triples, triples_rebal. reflexivity. Qed.
Lemma tsize_rebal t : tsize (rebal t) = tsize t.
Proof. rewrite !tsize_triples, triples_rebal. reflexivity. Qed.
Lemma all_keys_rebal P t : all_keys P (rebal t) <-> all_keys P t.
Proof. rewrite !all_keys_Forall, keys_rebal. reflexivity. Qed.
Lemma rebal_ne l i k v h r : rebal (T l i k v h r) <> E.
Proof.
  intros H. assert (H1 : triples (rebal (T l i k v h r)) = []) by (rewrite H; reflexivity).
  rewrite triples_rebal in H1. cbn [triples] in H1. destruct (triples l); discriminate.
Qed.

(* ------------------------------------------------------------------ *)
(* everything the later proofs need to know about one rebalancing step *)
Record rebal_post (l : itree) (i : N) (k v : Z) (r : itree) (t' : itree) : Prop := {
  rp_hok : hok t';
  rp_avl : avl t';
  rp_inorder : inorder t' = inorder l ++ (k, v) :: inorder r;
  rp_idxs : Permutation (idxs t') (idxs l ++ i :: idxs r);
  rp_size : tsize t' = 1 + tsize l + tsize r;
  rp_lo : N.max (levels l) (levels r) <= levels t';
  rp_hi : levels t' <= 1 + N.max (levels l) (levels r);
  rp_same : levels l <= levels r + 1 -> levels r <= levels l + 1 ->
            levels t' = 1 + N.max (levels l) (levels r);
  rp_ne : t' <> E;
  (* added: rotations keep the exact in-order sequence of (slot, key, value) *)
  rp_triples : triples t' = triples l ++ (i, k, v) :: triples r;
  rp_idxs_eq : idxs t' = idxs l ++ i :: idxs r;
  rp_keys : keys t' = keys l ++ k :: keys r;
  rp_all_keys : forall P, all_keys P t' <-> (all_keys P l /\ P k /\ all_keys P r)
}.

(* The shape part of rebal_post. *)
Record rebal_shape (l r t' : itree) : Prop := {
  rs_hok : hok t';
  rs_avl : avl t';
  rs_lo : N.max (levels l) (levels r) <= levels t';
  rs_hi : levels t' <= 1 + N.max (levels l) (levels r);
  rs_same : levels l <= levels r + 1 -> levels r <= levels l + 1 ->
            levels t' = 1 + N.max (levels l) (levels r)
}.

Ltac clr :=
  repeat match goal with
         | H : hok _ |- _ => clear H
         | H : avl _ |- _ => clear H
         end.

Ltac split_hyps :=
  repeat match goal with
         | H : _ /\ _ |- _ => destruct H
         | H : hok (T _ _ _ _ _ _) |- _ => cbn [hok] in H
         | H : avl (T _ _ _ _ _ _) |- _ => cbn [avl] in H
         | H : _ + 1 = levels (T _ _ _ _ _ _) |- _ => clear H
         end.

(* close a goal that is pure arithmetic over [levels] of atoms *)
Ltac lv_arith := rewrite ?levels_mk; cbn [levels]; intros; clr; lia.

Ltac rs_fin :=
  constructor;
  [ repeat (match goal with |- hok (mk _ _ _ _ _) => apply hok_mk end; try assumption)
  | repeat (match goal with |- avl (mk _ _ _ _ _) => apply avl_mk end; try assumption); lv_arith
  | lv_arith
  | lv_arith
  | lv_arith ].

Lemma rebal_shape_spec l i k v h r :
  hok l -> hok r -> avl l -> avl r -> levels l <= levels r + 2 -> levels r <= levels l + 2 ->
  rebal_shape l r (rebal (T l i k v h r)).
Proof.
  intros Hl Hr Al Ar D1 D2. cbn [rebal]. unfold bfac. rewrite !hp_levels by assumption.
  destruct (Z.ltb_spec 1 (Z.of_N (levels l) - Z.of_N (levels r))) as [Hbig|Hnb].
  - (* left heavy *)
    destruct l as [|ll li lk lv lh lr]; [cbn [levels] in Hbig; lia|].
    split_hyps. rewrite !hp_levels by assumption.
    destruct (Z.ltb_spec (Z.of_N (levels ll) - Z.of_N (levels lr)) 0) as [Hneg|Hnn].
    + (* double rotation *)
      destruct lr as [|b bi bk bv bh c]; [cbn [levels] in *; lia|].
      split_hyps. rewrite rotl_T, rotr_mk. cbn [levels] in *. rs_fin.
    + rewrite rotr_T. cbn [levels] in *. rs_fin.
  - destruct (Z.ltb_spec (Z.of_N (levels l) - Z.of_N (levels r)) (-1)) as [Hsm|Hns].
    + (* right heavy *)
      destruct r as [|rl ri rk rv rh rr]; [cbn [levels] in Hsm; lia|].
      split_hyps. rewrite !hp_levels by assumption.
      destruct (Z.ltb_spec 0 (Z.of_N (levels rl) - Z.of_N (levels rr))) as [Hpos|Hnp].
      * destruct rl as [|b bi bk bv bh c]; [cbn [levels] in *; lia|].
        split_hyps. rewrite rotr_T, rotl_mk. cbn [levels] in *. rs_fin.
      * rewrite rotl_T. cbn [levels] in *. rs_fin.
    + rs_fin.
Qed.

Lemma rebal_spec l i k v h r :
  hok l -> hok r -> avl l -> avl r -> levels l <= levels r + 2 -> levels r <= levels l + 2 ->
  rebal_post l i k v r (rebal (T l i k v h r)).
Proof.
  intros Hl Hr Al Ar D1 D2.
  destruct (rebal_shape_spec l i k v h r Hl Hr Al Ar D1 D2) as [S1 S2 S3 S4 S5].
  constructor; try assumption.
  - rewrite inorder_rebal. reflexivity.
  - rewrite idxs_rebal. reflexivity.
  - rewrite tsize_rebal. reflexivity.
  - apply rebal_ne.
  - rewrite triples_rebal. reflexivity.
  - rewrite idxs_rebal. reflexivity.
  - rewrite keys_rebal. reflexivity.
  - intros P. rewrite all_keys_rebal. cbn [all_keys]. tauto.
Qed.

(* rebal is the identity on trees that are already consistent and balanced *)
Lemma rebal_id t : hok t -> avl t -> rebal t = t.
Proof.
  destruct t as [|l i k v h r]; [reflexivity|].
  cbn [hok avl]. intros (Hh & Hl & Hr) (B1 & B2 & _ & _).
  cbn [rebal]. unfold bfac. rewrite !hp_levels by assumption.
  destruct (Z.ltb_spec 1 (Z.of_N (levels l) - Z.of_N (levels r))) as [Hbig|_]; [lia|].
  destruct (Z.ltb_spec (Z.of_N (levels l) - Z.of_N (levels r)) (-1)) as [Hsm|_]; [lia|].
  unfold mk. f_equal. pose proof (newh_ok l r Hl Hr) as Hn. cbn [levels] in Hh. lia.
Qed.

(* ------------------------------------------------------------------ *)
(* One rebalancing step after a child grew / shrank by at most one level. *)
Definition bal (l r : itree) : Prop := levels l <= levels r + 1 /\ levels r <= levels l + 1.

Lemma grow_arith a a' b x :
  a <= b + 1 -> b <= a + 1 -> a <= a' -> a' <= a + 1 ->
  N.max a' b <= x -> x <= 1 + N.max a' b ->
  (a' <= b + 1 -> b <= a' + 1 -> x = 1 + N.max a' b) ->
  1 + N.max a b <= x /\ x <= 1 + N.max a b + 1.
Proof. intros. lia. Qed.
Lemma shrink_arith a a' b x :
  a <= b + 1 -> b <= a + 1 -> a' <= a -> a <= a' + 1 ->
  N.max a' b <= x -> x <= 1 + N.max a' b ->
  (a' <= b + 1 -> b <= a' + 1 -> x = 1 + N.max a' b) ->
  x <= 1 + N.max a b /\ 1 + N.max a b <= x + 1.
Proof. intros. lia. Qed.

Lemma rebal_grow_l l l' i k v h r :
  hok l' -> avl l' -> hok r -> avl r -> bal l r ->
  levels l <= levels l' -> levels l' <= levels l + 1 ->
  hok (rebal (T l' i k v h r)) /\ avl (rebal (T l' i k v h r)) /\
  1 + N.max (levels l) (levels r) <= levels (rebal (T l' i k v h r)) /\
  levels (rebal (T l' i k v h r)) <= 1 + N.max (levels l) (levels r) + 1.
Proof.
  intros Hl Al Hr Ar [B1 B2] G1 G2.
  destruct (rebal_shape_spec l' i k v h r) as [S1 S2 S3 S4 S5]; try assumption; try lia.
  split; [assumption|]. split; [assumption|].
  exact (grow_arith _ _ _ _ B1 B2 G1 G2 S3 S4 S5).
Qed.
Lemma rebal_grow_r l r r' i k v h :
  hok l -> avl l -> hok r' -> avl r' -> bal l r ->
  levels r <= levels r' -> levels r' <= levels r + 1 ->
  hok (rebal (T l i k v h r')) /\ avl (rebal (T l i k v h r')) /\
  1 + N.max (levels l) (levels r) <= levels (rebal (T l i k v h r')) /\
  levels (rebal (T l i k v h r')) <= 1 + N.max (levels l) (levels r) + 1.
Proof.
  intros Hl Al Hr Ar [B1 B2] G1 G2.
  destruct (rebal_shape_spec l i k v h r') as [S1 S2 S3 S4 S5]; try assumption; try lia.
  split; [assumption|]. split; [assumption|].
  rewrite (N.max_comm (levels l) (levels r)). rewrite (N.max_comm (levels l) (levels r')) in S3, S4, S5.
  apply (grow_arith _ _ _ _ B2 B1 G1 G2 S3 S4). intros; apply S5; assumption.
Qed.
Lemma rebal_shrink_l l l' i k v h r :
  hok l' -> avl l' -> hok r -> avl r -> bal l r ->
  levels l' <= levels l -> levels l <= levels l' + 1 ->
  hok (rebal (T l' i k v h r)) /\ avl (rebal (T l' i k v h r)) /\
  levels (rebal (T l' i k v h r)) <= 1 + N.max (levels l) (levels r) /\
  1 + N.max (levels l) (levels r) <= levels (rebal (T l' i k v h r)) + 1.
Proof.
  intros Hl Al Hr Ar [B1 B2] G1 G2.
  destruct (rebal_shape_spec l' i k v h r) as [S1 S2 S3 S4 S5]; try assumption; try lia.
  split; [assumption|]. split; [assumption|].
  exact (shrink_arith _ _ _ _ B1 B2 G1 G2 S3 S4 S5).
Qed.
Lemma rebal_shrink_r l r r' i k v h :
  hok l -> avl l -> hok r' -> avl r' -> bal l r ->
  levels r' <= levels r -> levels r <= levels r' + 1 ->
  hok (rebal (T l i k v h r')) /\ avl (rebal (T l i k v h r')) /\
  levels (rebal (T l i k v h r')) <= 1 + N.max (levels l) (levels r) /\
  1 + N.max (levels l) (levels r) <= levels (rebal (T l i k v h r')) + 1.
Proof.
  intros Hl Al Hr Ar [B1 B2] G1 G2.
  destruct (rebal_shape_spec l i k v h r') as [S1 S2 S3 S4 S5]; try assumption; try lia.
  split; [assumption|]. split; [assumption|].
  rewrite (N.max_comm (levels l) (levels r)). rewrite (N.max_comm (levels l) (levels r')) in S3, S4, S5.
  apply (shrink_arith _ _ _ _ B2 B1 G1 G2 S3 S4). intros; apply S5; assumption.
Qed.
