(* Link C <-> T for [remove], part 1: the building blocks.
     - the pointer surgery around the removed node (re-pointing the parent,
       unlinking the in-order successor from the bottom of a left spine);
     - what is left to do once the array represents the spliced context:
       [rebalance], then [remove_node], and the master invariant again. *)
From Coq Require Import List NArith ZArith Bool Lia ZifyBool Permutation.
From Stevia Require Import Base.Res Avl.Impl Avl.Tree Avl.Rep Avl.Spec Avl.LinkPrim Avl.LinkRebal
  Avl.TreeInv Avl.TreeOps Avl.TreeHeight Avl.LinkFind Avl.Alloc Avl.Inv Avl.RemoveCtx.
Import ListNotations.
Open Scope N_scope.
Arguments N.add : simpl never.
Arguments N.sub : simpl never.
Arguments N.mul : simpl never.
Arguments N.max : simpl never.
Arguments N.pow : simpl never.
Arguments N.eqb : simpl never.
Arguments N.ltb : simpl never.
Arguments N.leb : simpl never.
Arguments Z.add : simpl never.
Arguments Z.sub : simpl never.
Arguments Z.ltb : simpl never.
Arguments Z.leb : simpl never.
Arguments Z.eqb : simpl never.
Arguments Z.of_N : simpl never.
Arguments N.of_nat : simpl never.

(* ---------------------------------------------------------------- *)
(* lists, paths                                                      *)

Lemma pop_last_snoc {A} (l : list A) x : pop_last (l ++ [x]) = Some (l, x).
Proof. unfold pop_last. rewrite rev_app_distr. cbn [rev app]. rewrite rev_involutive. reflexivity. Qed.

Definition parent_of (c : ctx) : option N := match c with [] => None | f :: _ => Some (fidx f) end.
Definition branch_of (c : ctx) : option dir := match c with [] => None | f :: _ => Some (fdir f) end.
Definition init_of (c : ctx) : list anc := match c with [] => [] | f :: c' => path_of c' (fidx f) end.

Lemma path_of_init c y : path_of c y = init_of c ++ [(parent_of c, branch_of c, y)].
Proof. destruct c; reflexivity. Qed.
Lemma pop_last_path_of c y : pop_last (path_of c y) = Some (init_of c, (parent_of c, branch_of c, y)).
Proof. rewrite path_of_init. apply pop_last_snoc. Qed.

Lemma ctx_idxs_app c1 c2 : ctx_idxs (c1 ++ c2) = ctx_idxs c1 ++ ctx_idxs c2.
Proof.
  induction c1 as [|f c1 IH]; [reflexivity|]. cbn [app ctx_idxs]. rewrite IH, <- app_assoc. reflexivity.
Qed.

Lemma rep_ctx_root_in ns c : forall hole rt, rep_ctx ns c hole rt -> c <> [] -> In rt (ctx_idxs c).
Proof.
  induction c as [|f c IH]; intros hole rt Hc Hne; [congruence|].
  assert (Hc' : rep_ctx ns c (fidx f) rt) by (destruct f; cbn [rep_ctx fidx] in *; tauto).
  cbn [ctx_idxs]. destruct c as [|g c'].
  - cbn [rep_ctx] in Hc'. left. congruence.
  - right. apply in_or_app. right. apply (IH _ _ Hc'). discriminate.
Qed.

Lemma NoDup_perm_app_l {A} (L a b : list A) : NoDup L -> Permutation L (a ++ b) -> NoDup a.
Proof. intros H P. apply (Permutation_NoDup P) in H. apply nodup_app in H. tauto. Qed.
Lemma NoDup_perm_notin {A} (L a b : list A) x : NoDup L -> Permutation L (x :: a ++ b) -> ~ In x a.
Proof.
  intros H P. apply (Permutation_NoDup P) in H. apply NoDup_cons_iff in H.
  rewrite in_app_iff in H. tauto.
Qed.
Lemma NoDup_perm_neq {A} (L a : list A) x y : NoDup L -> Permutation L (x :: y :: a) -> x <> y.
Proof.
  intros H P. apply (Permutation_NoDup P) in H. apply NoDup_cons_iff in H.
  cbn [In] in H. intuition congruence.
Qed.
Lemma NoDup_perm_disj {A} (L a b c : list A) y :
  NoDup L -> Permutation L (a ++ b ++ c) -> In y a -> ~ In y b.
Proof.
  intros H P Ha Hb. apply (Permutation_NoDup P) in H. apply nodup_app in H.
  destruct H as [_ [_ Hd]]. apply (Hd y Ha). apply in_or_app. auto.
Qed.

Section Width.
Variable bits : N.
Local Notation W := (2 ^ bits).
Local Notation B := (2 ^ (bits - 1)).

(* ---------------------------------------------------------------- *)
(* re-pointing the parent of the removed node at the replacement     *)

Definition repoint_parent (ns : list node) (c : ctx) (new : N) : res (list node) :=
  match parent_of c with
  | Some p => d <- expect_dir (branch_of c) ;; update_child bits ns p d new
  | None => Ok ns
  end.

Definition root_after (c : ctx) (new rt : N) : N := match c with [] => new | _ :: _ => rt end.

Lemma repoint_spec ns0 ns c x rt u ch X :
  rep_ctx ns0 c x rt -> same_outside ns0 ns ch -> (forall j, In j (ctx_idxs c) -> ~ In j ch) ->
  rep ns u -> NoDup (idxs u ++ ctx_idxs c) ->
  hmax u <= X -> cmax c <= X -> X + 1 < W ->
  exists ns4, repoint_parent ns c (idx u) = Ok ns4 /\
    rep ns4 u /\ rep_ctx ns4 c (idx u) (root_after c (idx u) rt) /\
    same_outside ns ns4 (match c with [] => [] | f :: _ => [fidx f] end) /\
    length ns4 = length ns.
Proof.
  intros Rc0 Hs Hch Ru Hnd HXu HXc HXW.
  pose proof (rep_ctx_frame ns0 ns ch c x rt Hs Hch Rc0) as Rc.
  unfold repoint_parent. destruct c as [|f c'].
  - exists ns. cbn [parent_of root_after rep_ctx]. repeat split; auto; apply same_outside_refl.
  - cbn [parent_of branch_of expect_dir bind root_after].
    destruct (nodup_ctx_split _ _ _ Hnd) as [Hndu [Hpu [Hps [Hsu [Hcu [Hnds Hndc]]]]]].
    cbn [cmax] in HXc.
    pose proof (newh_hmax u (fsib f)) as Hn1. pose proof (newh_hmax (fsib f) u) as Hn2.
    assert (Hrc' : forall ns4, same_outside ns ns4 [fidx f] -> rep_ctx ns c' (fidx f) rt ->
                               rep_ctx ns4 c' (fidx f) rt).
    { intros ns4 S4. apply (rep_ctx_frame ns ns4 [fidx f]); [exact S4|].
      intros j Hj [<-|[]]. destruct (Hcu _ Hj) as [_ [Hne _]]. congruence. }
    destruct f as [p kp vp sib|sib p kp vp]; cbn [fidx fdir fsib rep_ctx] in *.
    + destruct Rc as [[hp Hp] [Rs Rcc]].
      destruct (update_child_L_spec bits ns p x (idx sib) hp kp vp u sib)
        as [ns4 [U4 [R4 [S4 L4]]]]; auto; [lia|].
      exists ns4. split; [exact U4|]. cbn [mk rep] in R4. destruct R4 as [Hp4 [Ru4 Rs4]].
      split; [exact Ru4|]. split; [|split; [exact S4|exact L4]].
      split; [eauto|]. split; [exact Rs4|]. apply Hrc'; assumption.
    + destruct Rc as [[hp Hp] [Rs Rcc]].
      destruct (update_child_R_spec bits ns p (idx sib) x hp kp vp sib u)
        as [ns4 [U4 [R4 [S4 L4]]]]; auto; [lia|].
      exists ns4. split; [exact U4|]. cbn [mk rep] in R4. destruct R4 as [Hp4 [Rs4 Ru4]].
      split; [exact Ru4|]. split; [|split; [exact S4|exact L4]].
      split; [eauto|]. split; [exact Rs4|]. apply Hrc'; assumption.
Qed.

(* ---------------------------------------------------------------- *)
(* unlinking the minimum of a subtree whose root is not the minimum  *)

Lemma detach_spec ns l : forall i k v h r c c' b m km vm X,
  rep ns (T l i k v h r) -> l <> E -> NoDup (idxs (T l i k v h r)) ->
  minpar l i k v r c = (c', b, (m, km, vm)) ->
  hmax (T l i k v h r) <= X -> X + 1 < W ->
  exists mr pm kpm vpm pr hm,
    b = T mr pm kpm vpm 0 pr /\ holds ns m 0 (idx mr) hm km vm /\
    In pm (idxs (T l i k v h r)) /\ pm <> m /\
    exists ns1, update_child bits ns pm L (idx mr) = Ok ns1 /\
      rep ns1 (detach_min l i k v h r) /\ rep ns1 mr /\ holds ns1 m 0 (idx mr) hm km vm /\
      same_outside ns ns1 [pm] /\ length ns1 = length ns.
Proof.
  induction l as [|ll IHll li lk lv lh lr _]; intros i k v h r c c' b m km vm X Rt Hne Hnd Hmp HX HW;
    [congruence|].
  cbn [minpar detach_min] in *. destruct ll as [|l3 i3 k3 v3 h3 r3].
  - injection Hmp as <- <- <- <- <-.
    cbn [rep idx] in Rt. destruct Rt as [Hi [[Hli [_ Rlr]] Rr]].
    assert (Hd : ~ In i (idxs lr) /\ ~ In i (idxs r) /\ i <> li).
    { clear - Hnd. nd_auto i li li. }
    destruct Hd as [Hilr [Hir Hili]].
    pose proof (newh_hmax lr r) as Hn. cbn [hmax] in HX.
    destruct (update_child_L_spec bits ns i li (idx r) h k v lr r) as [ns1 [U1 [R1 [S1 L1]]]];
      auto; [lia|].
    exists lr, i, k, v, r, lh. split; [reflexivity|]. split; [exact Hli|].
    split; [cbn [idxs]; apply in_or_app; right; left; reflexivity|]. split; [exact Hili|].
    exists ns1. split; [exact U1|]. split; [exact R1|].
    cbn [mk rep] in R1. split; [tauto|]. split; [|split; [exact S1|exact L1]].
    eapply holds_frame; eauto. intros [?|[]]. congruence.
  - set (tl := T l3 i3 k3 v3 h3 r3) in *.
    change (rep ns (T (T tl li lk lv lh lr) i k v h r))
      with (holds ns i li (idx r) h k v /\ rep ns (T tl li lk lv lh lr) /\ rep ns r) in Rt.
    destruct Rt as [Hi [Rl Rr]].
    change (idxs (T (T tl li lk lv lh lr) i k v h r)) with (idxs (T tl li lk lv lh lr) ++ i :: idxs r) in *.
    change (hmax (T (T tl li lk lv lh lr) i k v h r))
      with (N.max h (N.max (hmax (T tl li lk lv lh lr)) (hmax r))) in HX.
    destruct (nodup_split _ _ _ Hnd) as [Hil [Hir [Hndl [Hndr Hdis]]]].
    destruct (IHll li lk lv lh lr _ _ _ _ _ _ X Rl ltac:(discriminate) Hndl Hmp ltac:(lia) HW)
      as [mr [pm [kpm [vpm [pr [hm [Hb [Hm [Hpm [Hne' [ns1 [U1 [R1 [Rmr [Hm1 [S1 L1]]]]]]]]]]]]]]]].
    exists mr, pm, kpm, vpm, pr, hm. split; [exact Hb|]. split; [exact Hm|].
    split; [apply in_or_app; left; exact Hpm|]. split; [exact Hne'|].
    exists ns1. split; [exact U1|]. split; [|split; [exact Rmr|split; [exact Hm1|split; [exact S1|exact L1]]]].
    change (rep ns1 (T (detach_min tl li lk lv lh lr) i k v h r))
      with (holds ns1 i (idx (detach_min tl li lk lv lh lr)) (idx r) h k v /\
            rep ns1 (detach_min tl li lk lv lh lr) /\ rep ns1 r).
    rewrite detach_min_idx by discriminate. split; [|split; [exact R1|]].
    + eapply holds_frame; eauto. intros [<-|[]]. contradiction.
    + eapply rep_frame; eauto. intros j Hj [<-|[]]. exact (Hdis _ Hpm Hj).
Qed.

(* the unlinked subtree, seen as the minimum's former parent in its spine context *)
Lemma detach_decompose ns l : forall i k v h r c c' b m rt,
  l <> E -> minpar l i k v r c = (c', b, m) ->
  rep ns (detach_min l i k v h r) -> rep_ctx ns c i rt ->
  rep_top ns b /\ rep_ctx ns c' (idx b) rt.
Proof.
  induction l as [|ll IHll li lk lv lh lr _]; intros i k v h r c c' b m rt Hne Hmp Rd Rc; [congruence|].
  cbn [minpar detach_min] in *. destruct ll as [|l3 i3 k3 v3 h3 r3].
  - injection Hmp as <- <- <-. cbn [idx]. split; [|exact Rc].
    apply rep_rep_top in Rd. exact Rd.
  - set (tl := T l3 i3 k3 v3 h3 r3) in *.
    change (rep ns (T (detach_min tl li lk lv lh lr) i k v h r))
      with (holds ns i (idx (detach_min tl li lk lv lh lr)) (idx r) h k v /\
            rep ns (detach_min tl li lk lv lh lr) /\ rep ns r) in Rd.
    rewrite detach_min_idx in Rd by discriminate. destruct Rd as [Hi [Rd Rr]].
    apply (IHll li lk lv lh lr _ _ _ _ rt ltac:(discriminate) Hmp Rd).
    cbn [rep_ctx]. eauto.
Qed.

(* ---------------------------------------------------------------- *)
(* the allocator invariant only sees the live SET                    *)

Lemma alloc_inv_perm s live live' fr term :
  alloc_inv bits s live fr term -> Permutation live live' -> alloc_inv bits s live' fr term.
Proof.
  intros H P. destruct H as [Hnd Hrg Hcnt Hsize Hch Htm Hfr Hz Hl1 Hl2 Hcl Hcw Hcw1].
  assert (P' : Permutation (live ++ fr) (live' ++ fr)) by (apply Permutation_app_tail; exact P).
  constructor; auto.
  - eapply Permutation_NoDup; eauto.
  - intros y Hy. apply Hrg. eapply Permutation_in; [symmetry; exact P'|exact Hy].
  - rewrite <- Hcnt. f_equal. symmetry. apply Permutation_length. exact P'.
  - rewrite Hsize. f_equal. apply Permutation_length. exact P.
Qed.

(* ---------------------------------------------------------------- *)
(* the end of [remove]: release the slot                             *)

Lemma remove_final s t fr term key x vx s3 :
  Inv bits s t fr term -> t_find t key = Some (x, vx) ->
  hdr_eq s s3 -> length (nodes s3) = length (nodes s) ->
  same_outside (nodes s) (nodes s3) (idxs (t_remove t key)) ->
  rep (nodes s3) (t_remove t key) -> root s3 = idx (t_remove t key) ->
  exists s4, remove_node s3 x = Ok (s4, Some vx) /\
    Inv bits s4 (t_remove t key) (x :: fr) term /\ cap s4 = cap s /\
    length (nodes s4) = length (nodes s).
Proof.
  intros [Hrep Hroot Hhok Havl Hbst Hal] Hfind [Hsz [Hcap [Hflh Hseq]]] Hlen Hso R3 Hroot3.
  destruct (t_remove_correct t key x vx Hhok Havl Hbst Hfind)
    as [Dhok Davl Dbst _ _ _ Didxs _ _ _ _ _].
  set (t' := t_remove t key) in *.
  pose proof (ai_nodup _ _ _ _ _ Hal) as Hnd. destruct (nodup_app _ _ Hnd) as [Hndl [Hndf Hdis]].
  pose proof (t_find_in _ _ _ _ Hfind) as Hxin.
  assert (Hnd' : NoDup (x :: idxs t')) by (eapply Permutation_NoDup; eauto).
  apply NoDup_cons_iff in Hnd'. destruct Hnd' as [Hxn Hndt'].
  assert (Hsub : forall j, In j (idxs t') -> In j (idxs t)).
  { intros j Hj. eapply Permutation_in; [symmetry; exact Didxs|]. right. exact Hj. }
  assert (Hal3 : alloc_inv bits s3 (idxs t) fr term).
  { eapply alloc_frame_gen; eauto. intros j Hj. apply Hso. intros Hjt. apply Hsub in Hjt.
    destruct Hj as [Hj|Hj].
    - exact (Hdis _ Hjt Hj).
    - destruct (ai_range _ _ _ _ _ Hal j) as [_ Hlt]; [apply in_or_app; left; exact Hjt|]. lia. }
  destruct (remove_node_spec bits s3 (idxs t) fr term x Hal3 Hxin)
    as [n [s4 [Hn [Hrm [_ [S4 [L4 [Hr4 [Hc4 [_ [_ [_ Hal4]]]]]]]]]]]].
  destruct (t_find_holds _ _ _ _ _ Hrep Hfind) as [n0 [Hn0 [_ Hv0]]].
  assert (n = n0) by (rewrite (Hso x Hxn) in Hn; congruence). subst n0.
  exists s4. split; [rewrite Hrm, Hv0; reflexivity|]. split; [|split; [congruence|congruence]].
  constructor; auto.
  - eapply rep_frame; [exact S4| |exact R3]. intros j Hj [<-|[]]. contradiction.
  - congruence.
  - eapply alloc_inv_perm; [exact Hal4|].
    apply (Permutation_cons_inv (a := x)).
    etransitivity; [symmetry; apply perm_remove; assumption|exact Didxs].
Qed.

(* ---------------------------------------------------------------- *)
(* [rebalance] along the spliced context, then release the slot      *)

Lemma remove_finish s t fr term key x vx s2 bl bi bk bv bh br ctx' :
  Inv bits s t fr term -> 3 * levels t + 6 < B -> t_find t key = Some (x, vx) ->
  hdr_eq s s2 -> length (nodes s2) = length (nodes s) ->
  same_outside (nodes s) (nodes s2) (idxs (T bl bi bk bv bh br) ++ ctx_idxs ctx') ->
  rep_top (nodes s2) (T bl bi bk bv bh br) -> rep_ctx (nodes s2) ctx' bi (root s2) ->
  Permutation (idxs t) (x :: idxs (T bl bi bk bv bh br) ++ ctx_idxs ctx') ->
  hmax bl <= levels t + 1 -> hmax br <= levels t + 1 -> cmax ctx' <= levels t + 1 ->
  N.of_nat (length ctx') <= levels t ->
  plug_rebal ctx' (rebal (T bl bi bk bv bh br)) = t_remove t key ->
  exists s3 s4, rebalance bits s2 (path_of ctx' bi) = Ok s3 /\
    remove_node s3 x = Ok (s4, Some vx) /\
    Inv bits s4 (t_remove t key) (x :: fr) term /\ cap s4 = cap s /\
    length (nodes s4) = length (nodes s).
Proof.
  intros HInv HB Hfind Hh2 L2 S2 Rt Rc Hperm Hbl Hbr Hcm Hlen HT.
  pose proof HInv as [Hrep Hroot Hhok Havl Hbst Hal].
  pose proof (ai_nodup _ _ _ _ _ Hal) as Hnd. destruct (nodup_app _ _ Hnd) as [Hndl _].
  assert (Hndb : NoDup (idxs (T bl bi bk bv bh br) ++ ctx_idxs ctx')).
  { apply (Permutation_NoDup Hperm) in Hndl. apply NoDup_cons_iff in Hndl. tauto. }
  destruct (rebalance_spec bits ctx' s2 bl bi bk bv bh br Rt Rc Hndb)
    as [s3 [Hrb [R3 [Hroot3 [Hh3 [S3 L3]]]]]]; [lia|].
  rewrite HT in R3, Hroot3.
  destruct (t_remove_correct t key x vx Hhok Havl Hbst Hfind)
    as [_ _ _ _ _ _ Didxs _ _ _ _ _].
  assert (Hp2 : Permutation (idxs (T bl bi bk bv bh br) ++ ctx_idxs ctx') (idxs (t_remove t key))).
  { apply (Permutation_cons_inv (a := x)). etransitivity; [symmetry; exact Hperm|exact Didxs]. }
  destruct (remove_final s t fr term key x vx s3 HInv Hfind) as [s4 H4]; auto.
  - eapply hdr_eq_trans; eauto.
  - congruence.
  - eapply same_outside_weaken; [eapply same_outside_trans; [exact S2|exact S3]|].
    intros j Hj. apply in_app_or in Hj. eapply Permutation_in; [exact Hp2|]. tauto.
  - exists s3, s4. tauto.
Qed.

End Width.

(* ---------------------------------------------------------------- *)
(* the height budget at the two widths                               *)

Lemma inv_budget bits s t fr term :
  Inv bits s t fr term -> bits = 8 \/ bits = 32 -> 3 * levels t + 6 < 2 ^ (bits - 1).
Proof.
  intros [_ _ _ Havl _ Hal] Hb.
  pose proof (alloc_size_le_cap _ _ _ _ _ Hal) as Hsz. pose proof (ai_capw _ _ _ _ _ Hal) as Hcw.
  pose proof (ai_size _ _ _ _ _ Hal) as Hs. rewrite <- tsize_idxs in Hs.
  destruct Hb as [-> | ->].
  - assert (Hl : levels t <= 11) by (apply avl_levels_u8_tight; [assumption|]; change (2 ^ 8) with 256 in Hcw; lia).
    change (2 ^ (8 - 1)) with 128. lia.
  - assert (Hl : levels t <= 45) by (apply avl_levels_u32_tight; [assumption|lia]).
    change (2 ^ (32 - 1)) with 2147483648. lia.
Qed.

Print Assumptions repoint_spec.
Print Assumptions detach_spec.
Print Assumptions detach_decompose.
Print Assumptions alloc_inv_perm.
Print Assumptions remove_final.
Print Assumptions remove_finish.
Print Assumptions inv_budget.
