(* Layer T theory, part 2: insertion, removal, lookups. *)
From Coq Require Import List NArith ZArith Bool Lia Sorted Permutation.
From Stevia Require Import Avl.Spec Avl.SmapFacts Avl.Tree Avl.TreeInv.
Import ListNotations.
Open Scope N_scope.
Arguments N.add : simpl never. Arguments N.sub : simpl never. Arguments N.max : simpl never.
Arguments Z.add : simpl never. Arguments Z.sub : simpl never. Arguments Z.of_N : simpl never.
Arguments Z.ltb : simpl never. Arguments N.leb : simpl never. Arguments Z.eqb : simpl never.

(* ------------------------------------------------------------------ *)
(* bst = strictly sorted in-order key sequence *)
Lemma bst_sorted t : bst t <-> zsorted (keys t).
Proof.
  induction t as [|l IHl i k v h r IHr]; cbn [bst keys].
  - split; intros _; [constructor|exact I].
  - rewrite zsorted_app_iff, IHl, IHr, !all_keys_Forall. tauto.
Qed.
Lemma bst_ssorted t : bst t <-> ssorted (inorder t).
Proof. unfold ssorted, skeys. rewrite <- keys_inorder. apply bst_sorted. Qed.
Lemma bst_rebal t : bst (rebal t) <-> bst t.
Proof. rewrite !bst_sorted, keys_rebal. reflexivity. Qed.
Lemma bst_of_inorder t t' : inorder t' = inorder t -> bst t -> bst t'.
Proof. intros H. rewrite !bst_ssorted, H. auto. Qed.

Lemma all_lt_inorder k t : all_keys (fun x => (x < k)%Z) t -> Forall (fun y => (fst y < k)%Z) (inorder t).
Proof. intros H. apply (proj1 (all_keys_inorder _ t)) in H. exact H. Qed.
Lemma all_gt_inorder k t : all_keys (fun x => (k < x)%Z) t -> Forall (fun y => (k < fst y)%Z) (inorder t).
Proof. intros H. apply (proj1 (all_keys_inorder _ t)) in H. exact H. Qed.
Lemma all_lt_trans k k' t : (k < k')%Z -> all_keys (fun x => (x < k)%Z) t -> all_keys (fun x => (x < k')%Z) t.
Proof. intros Hk. apply all_keys_imp. intros x Hx. lia. Qed.
Lemma all_gt_trans k k' t : (k' < k)%Z -> all_keys (fun x => (k < x)%Z) t -> all_keys (fun x => (k' < x)%Z) t.
Proof. intros Hk. apply all_keys_imp. intros x Hx. lia. Qed.

Lemma keys_skeys t : keys t = skeys (inorder t).
Proof. apply keys_inorder. Qed.

(* ------------------------------------------------------------------ *)
(* t_find *)
Lemma t_find_inorder t key : bst t -> option_map snd (t_find t key) = sm_find (inorder t) key.
Proof.
  induction t as [|l IHl i k v h r IHr]; [reflexivity|].
  cbn [bst]. intros (Hlt & Hgt & Bl & Br). cbn [t_find inorder].
  destruct (Z.ltb_spec key k) as [H1|H1].
  - rewrite IHl by assumption. symmetry. apply sm_find_app_lt; [exact H1|].
    apply all_gt_inorder. exact Hgt.
  - destruct (Z.ltb_spec k key) as [H2|H2].
    + rewrite IHr by assumption. symmetry. apply sm_find_app_gt; [|exact H2].
      apply all_lt_inorder. eapply all_lt_trans; eassumption.
    + assert (key = k) by lia. subst key. cbn [option_map snd]. symmetry.
      apply sm_find_app_eq. apply all_lt_inorder. exact Hlt.
Qed.

(* what t_find returns is a node of the tree (no invariant needed) *)
Lemma t_find_split t key slot v :
  t_find t key = Some (slot, v) -> exists l1 l2, triples t = l1 ++ (slot, key, v) :: l2.
Proof.
  induction t as [|l IHl i k v0 h r IHr]; cbn [t_find triples]; [discriminate|].
  destruct (Z.ltb_spec key k) as [H1|H1].
  - intros Hf. destruct (IHl Hf) as (l1 & l2 & ->). exists l1, (l2 ++ (i, k, v0) :: triples r).
    rewrite <- app_assoc. reflexivity.
  - destruct (Z.ltb_spec k key) as [H2|H2].
    + intros Hf. destruct (IHr Hf) as (l1 & l2 & ->). exists (triples l ++ (i, k, v0) :: l1), l2.
      rewrite <- app_assoc. reflexivity.
    + intros [= <- <-]. assert (key = k) by lia. subst key. eauto.
Qed.
Lemma t_find_In t key slot v : t_find t key = Some (slot, v) -> In (slot, key, v) (triples t).
Proof. intros H. destruct (t_find_split _ _ _ _ H) as (l1 & l2 & ->). apply in_elt. Qed.

Lemma t_find_none_iff t key : bst t -> (t_find t key = None <-> ~ In key (keys t)).
Proof.
  induction t as [|l IHl i k v h r IHr]; cbn [bst t_find keys].
  - intros _. split; [intros _ []|reflexivity].
  - intros (Hlt & Hgt & Bl & Br). rewrite in_app_iff. cbn [In].
    destruct (Z.ltb_spec key k) as [H1|H1].
    + rewrite IHl by assumption. split; [|tauto]. intros Hn [Hi|[He|Hi]]; [tauto|lia|].
      apply (all_keys_In _ _ _ Hgt) in Hi. lia.
    + destruct (Z.ltb_spec k key) as [H2|H2].
      * rewrite IHr by assumption. split; [|tauto]. intros Hn [Hi|[He|Hi]]; [|lia|tauto].
        apply (all_keys_In _ _ _ Hlt) in Hi. lia.
      * split; [discriminate|]. intros Hn. exfalso. apply Hn. right. left. lia.
Qed.
Lemma t_find_some_iff t key : bst t -> (In key (keys t) <-> exists sv, t_find t key = Some sv).
Proof.
  intros B. pose proof (t_find_none_iff t key B) as Hn. destruct (t_find t key) as [sv|].
  - split; [eauto|]. intros _. destruct (in_dec Z.eq_dec key (keys t)) as [Hi|Hi]; [exact Hi|].
    apply Hn in Hi. discriminate.
  - split; [|intros [sv Hsv]; discriminate]. intros Hi. exfalso. apply (proj1 Hn); auto.
Qed.
(* under bst, t_find finds exactly the triples of the tree *)
Lemma t_find_iff t key slot v : bst t -> (t_find t key = Some (slot, v) <-> In (slot, key, v) (triples t)).
Proof.
  intros B. split; [apply t_find_In|].
  induction t as [|l IHl i k v0 h r IHr]; cbn [triples]; [intros []|].
  cbn [bst] in B. destruct B as (Hlt & Hgt & Bl & Br). rewrite in_app_iff. cbn [In t_find].
  assert (Kl : forall s k' v', In (s, k', v') (triples l) -> (k' < k)%Z).
  { intros s k' v' Hi. apply (all_keys_In _ _ _ Hlt). rewrite keys_triples.
    apply in_map_iff. exists (s, k', v'). auto. }
  assert (Kr : forall s k' v', In (s, k', v') (triples r) -> (k < k')%Z).
  { intros s k' v' Hi. apply (all_keys_In _ _ _ Hgt). rewrite keys_triples.
    apply in_map_iff. exists (s, k', v'). auto. }
  intros [Hi|[He|Hi]].
  - pose proof (Kl _ _ _ Hi) as Hk. destruct (Z.ltb_spec key k); [auto|lia].
  - injection He as <- <- <-. rewrite Z.ltb_irrefl. reflexivity.
  - pose proof (Kr _ _ _ Hi) as Hk. destruct (Z.ltb_spec key k); [lia|].
    destruct (Z.ltb_spec k key); [auto|lia].
Qed.

(* t_lowest *)
Lemma t_lowest_inorder t : t_lowest t = option_map fst (hd_error (inorder t)).
Proof.
  induction t as [|l IHl i k v h r IHr]; [reflexivity|].
  cbn [t_lowest inorder]. destruct l as [|ll li lk lv lh lr]; [reflexivity|].
  rewrite IHl. cbn [inorder]. destruct (inorder ll); reflexivity.
Qed.

(* t_update *)
Lemma t_update_levels t key v' : levels (t_update t key v') = levels t.
Proof.
  induction t as [|l IHl i k v h r IHr]; [reflexivity|]. cbn [t_update].
  destruct (key <? k)%Z; [cbn [levels]; rewrite IHl; reflexivity|].
  destruct (k <? key)%Z; cbn [levels]; [rewrite IHr|]; reflexivity.
Qed.
Lemma t_update_idxs t key v' : idxs (t_update t key v') = idxs t.
Proof.
  induction t as [|l IHl i k v h r IHr]; [reflexivity|]. cbn [t_update].
  destruct (key <? k)%Z; [cbn [idxs]; rewrite IHl; reflexivity|].
  destruct (k <? key)%Z; cbn [idxs]; [rewrite IHr|]; reflexivity.
Qed.
Lemma t_update_keys t key v' : keys (t_update t key v') = keys t.
Proof.
  induction t as [|l IHl i k v h r IHr]; [reflexivity|]. cbn [t_update].
  destruct (key <? k)%Z; [cbn [keys]; rewrite IHl; reflexivity|].
  destruct (k <? key)%Z; cbn [keys]; [rewrite IHr|]; reflexivity.
Qed.
Lemma t_update_tsize t key v' : tsize (t_update t key v') = tsize t.
Proof.
  induction t as [|l IHl i k v h r IHr]; [reflexivity|]. cbn [t_update].
  destruct (key <? k)%Z; [cbn [tsize]; rewrite IHl; reflexivity|].
  destruct (k <? key)%Z; cbn [tsize]; [rewrite IHr|]; reflexivity.
Qed.
Lemma t_update_hok t key v' : hok t -> hok (t_update t key v').
Proof.
  induction t as [|l IHl i k v h r IHr]; [auto|]. cbn [hok]. intros (Hh & Hl & Hr). cbn [t_update].
  destruct (key <? k)%Z; [|destruct (k <? key)%Z]; cbn [hok levels] in *; rewrite ?t_update_levels; auto.
Qed.
Lemma t_update_avl t key v' : avl t -> avl (t_update t key v').
Proof.
  induction t as [|l IHl i k v h r IHr]; [auto|]. cbn [avl]. intros (B1 & B2 & Al & Ar). cbn [t_update].
  destruct (key <? k)%Z; [|destruct (k <? key)%Z]; cbn [avl]; rewrite ?t_update_levels; auto.
Qed.
Lemma t_update_bst t key v' : bst t -> bst (t_update t key v').
Proof. rewrite !bst_sorted, t_update_keys. auto. Qed.
Lemma t_update_inorder t key v' : bst t -> inorder (t_update t key v') = sm_update (inorder t) key v'.
Proof.
  induction t as [|l IHl i k v h r IHr]; [reflexivity|].
  cbn [bst]. intros (Hlt & Hgt & Bl & Br). cbn [t_update].
  destruct (Z.ltb_spec key k) as [H1|H1].
  - cbn [inorder]. rewrite IHl by assumption. symmetry. apply sm_update_app_lt; [exact H1|].
    apply all_gt_inorder. exact Hgt.
  - destruct (Z.ltb_spec k key) as [H2|H2].
    + cbn [inorder]. rewrite IHr by assumption. symmetry. apply sm_update_app_gt; [|exact H2].
      apply all_lt_inorder. eapply all_lt_trans; eassumption.
    + assert (key = k) by lia. subst key. cbn [inorder]. symmetry.
      apply sm_update_app_eq. apply all_lt_inorder. exact Hlt.
Qed.
(* slots and keys never move under t_update; only the value of [key] changes *)
Lemma t_update_triples t key v' :
  map (fun x => (tr_slot x, tr_key x)) (triples (t_update t key v')) =
  map (fun x => (tr_slot x, tr_key x)) (triples t).
Proof.
  induction t as [|l IHl i k v h r IHr]; [reflexivity|]. cbn [t_update].
  destruct (key <? k)%Z; [|destruct (k <? key)%Z]; cbn [triples]; rewrite !map_app; cbn [map];
    rewrite ?IHl, ?IHr; reflexivity.
Qed.

(* t_log: the comparisons of one descent *)
Fixpoint is_path (t : itree) (p : list Z) {struct p} : Prop :=
  match p with
  | [] => True
  | x :: p' => match t with
               | E => False
               | T l _ k _ _ r => x = k /\ (is_path l p' \/ is_path r p')
               end
  end.
(* each key of the path, once (descent to the left) or twice *)
Definition log_of (p : list (Z * bool)) : list Z :=
  flat_map (fun kb : Z * bool => if snd kb then [fst kb; fst kb] else [fst kb]) p.

Lemma t_log_path t key :
  exists p : list (Z * bool),
    is_path t (map fst p) /\ N.of_nat (length p) <= levels t /\ t_log t key = log_of p.
Proof.
  induction t as [|l IHl i k v h r IHr].
  - exists []. cbn [map is_path length levels t_log log_of flat_map]. repeat split. lia.
  - destruct IHl as (pl & Pl & Ll & El). destruct IHr as (pr & Pr & Lr & Er). cbn [t_log].
    destruct (key <? k)%Z.
    + exists ((k, false) :: pl). cbn [map fst is_path length levels log_of flat_map snd app].
      split; [auto|]. split; [clear - Ll; lia|]. rewrite El. reflexivity.
    + destruct (k <? key)%Z.
      * exists ((k, true) :: pr). cbn [map fst is_path length levels log_of flat_map snd app].
        split; [auto|]. split; [clear - Lr; lia|]. rewrite Er. reflexivity.
      * exists [(k, true)]. cbn [map fst is_path length levels log_of flat_map snd app].
        split; [split; [reflexivity|left; exact I]|]. split; [lia|reflexivity].
Qed.

Lemma log_of_incl p : incl (log_of p) (map fst p).
Proof.
  induction p as [|[k b] p IH]; cbn [log_of flat_map map fst snd]; [apply incl_refl|].
  intros x Hx. apply in_app_iff in Hx. destruct Hx as [Hx|Hx].
  - left. destruct b; cbn [In] in Hx; intuition.
  - right. apply IH. exact Hx.
Qed.
(* at most [levels t] distinct keys are compared with *)
Lemma t_log_distinct t key d :
  NoDup d -> incl d (t_log t key) -> N.of_nat (length d) <= levels t.
Proof.
  intros Nd Hi. destruct (t_log_path t key) as (p & _ & Lp & Ep).
  assert (length d <= length (map fst p))%nat.
  { apply NoDup_incl_length; [exact Nd|]. intros x Hx. apply log_of_incl. rewrite <- Ep. auto. }
  rewrite map_length in H. lia.
Qed.
Lemma t_log_length t key : N.of_nat (length (t_log t key)) <= 2 * levels t.
Proof.
  induction t as [|l IHl i k v h r IHr]; cbn [t_log levels length]; [lia|].
  destruct (key <? k)%Z; [cbn [length]; lia|]. destruct (k <? key)%Z; cbn [length]; lia.
Qed.

(* ------------------------------------------------------------------ *)
(* Insertion *)
Lemma t_insert_shape t new key value : hok t -> avl t ->
  hok (t_insert t new key value) /\ avl (t_insert t new key value) /\
  levels t <= levels (t_insert t new key value) /\
  levels (t_insert t new key value) <= levels t + 1.
Proof.
  induction t as [|l IHl i k v h r IHr]; intros Hh Ha.
  - cbn [t_insert hok avl levels]. repeat split; lia.
  - cbn [hok avl] in Hh, Ha. destruct Hh as (Hh & Hl & Hr). destruct Ha as (B1 & B2 & Al & Ar).
    cbn [t_insert]. destruct (Z.ltb_spec key k) as [Hlt|Hge].
    + destruct (IHl Hl Al) as (H1 & H2 & H3 & H4).
      destruct (rebal_grow_l l (t_insert l new key value) i k v h r H1 H2 Hr Ar (conj B1 B2) H3 H4)
        as (R1 & R2 & R3 & R4).
      cbn [levels]. repeat split; assumption.
    + destruct (Z.ltb_spec k key) as [Hgt|Hle].
      * destruct (IHr Hr Ar) as (H1 & H2 & H3 & H4).
        destruct (rebal_grow_r l r (t_insert r new key value) i k v h Hl Al H1 H2 (conj B1 B2) H3 H4)
          as (R1 & R2 & R3 & R4).
        cbn [levels]. repeat split; assumption.
      * cbn [hok avl]. repeat split; try assumption; clear; lia.
Qed.

Lemma t_insert_inorder t new key value :
  bst t -> inorder (t_insert t new key value) = sm_insert (inorder t) key value.
Proof.
  induction t as [|l IHl i k v h r IHr]; [reflexivity|].
  cbn [bst]. intros (Hlt & Hgt & Bl & Br). cbn [t_insert].
  destruct (Z.ltb_spec key k) as [H1|H1].
  - rewrite inorder_rebal. cbn [inorder]. rewrite IHl by assumption. symmetry.
    apply sm_insert_app_lt. exact H1.
  - destruct (Z.ltb_spec k key) as [H2|H2].
    + rewrite inorder_rebal. cbn [inorder]. rewrite IHr by assumption. symmetry.
      apply sm_insert_app_gt; [|exact H2]. apply all_lt_inorder. eapply all_lt_trans; eassumption.
    + assert (key = k) by lia. subst key. cbn [inorder]. symmetry.
      apply sm_insert_app_eq. apply all_lt_inorder. exact Hlt.
Qed.

Lemma t_insert_triples t new key value :
  ~ In key (keys t) ->
  exists l1 l2, triples t = l1 ++ l2 /\ triples (t_insert t new key value) = l1 ++ (new, key, value) :: l2.
Proof.
  induction t as [|l IHl i k v h r IHr]; intros Hn.
  - exists [], []. split; reflexivity.
  - cbn [keys] in Hn. rewrite in_app_iff in Hn. cbn [In] in Hn. cbn [t_insert].
    destruct (Z.ltb_spec key k) as [H1|H1].
    + destruct IHl as (l1 & l2 & E1 & E2); [tauto|].
      exists l1, (l2 ++ (i, k, v) :: triples r). rewrite triples_rebal. cbn [triples].
      rewrite E1, E2, <- !app_assoc. split; reflexivity.
    + destruct (Z.ltb_spec k key) as [H2|H2].
      * destruct IHr as (l1 & l2 & E1 & E2); [tauto|].
        exists (triples l ++ (i, k, v) :: l1), l2. rewrite triples_rebal. cbn [triples].
        rewrite E1, E2, <- !app_assoc. split; reflexivity.
      * exfalso. apply Hn. right. left. lia.
Qed.

Lemma t_insert_present t new key value :
  hok t -> avl t -> bst t -> In key (keys t) -> t_insert t new key value = t.
Proof.
  induction t as [|l IHl i k v h r IHr]; intros Hh Ha Hb Hi; [destruct Hi|].
  pose proof (rebal_id _ Hh Ha) as Hid.
  cbn [hok avl bst] in Hh, Ha, Hb. destruct Hh as (Hh & Hl & Hr). destruct Ha as (B1 & B2 & Al & Ar).
  destruct Hb as (Hlt & Hgt & Bl & Br).
  cbn [keys] in Hi. rewrite in_app_iff in Hi. cbn [In] in Hi. cbn [t_insert].
  destruct (Z.ltb_spec key k) as [H1|H1].
  - rewrite IHl; try assumption. destruct Hi as [Hi|[He|Hi]]; [exact Hi|lia|].
    apply (all_keys_In _ _ _ Hgt) in Hi. lia.
  - destruct (Z.ltb_spec k key) as [H2|H2]; [|reflexivity].
    rewrite IHr; try assumption. destruct Hi as [Hi|[He|Hi]]; [|lia|exact Hi].
    apply (all_keys_In _ _ _ Hlt) in Hi. lia.
Qed.

Record insert_post (t : itree) (new : N) (key value : Z) (t' : itree) : Prop := {
  ip_hok : hok t';
  ip_avl : avl t';
  ip_bst : bst t';
  ip_lo : levels t <= levels t';
  ip_hi : levels t' <= levels t + 1;
  ip_inorder : inorder t' = sm_insert (inorder t) key value;
  ip_idxs : Permutation (idxs t') (new :: idxs t);
  ip_size : tsize t' = tsize t + 1;
  (* every old node keeps its slot, key and value, in the same relative order *)
  ip_triples : exists l1 l2, triples t = l1 ++ l2 /\ triples t' = l1 ++ (new, key, value) :: l2;
  ip_perm : Permutation (triples t') ((new, key, value) :: triples t);
  ip_keep : forall s k v, In (s, k, v) (triples t) -> In (s, k, v) (triples t')
}.

Theorem t_insert_correct t new key value :
  hok t -> avl t -> bst t -> ~ In key (keys t) ->
  insert_post t new key value (t_insert t new key value).
Proof.
  intros Hh Ha Hb Hn.
  destruct (t_insert_shape t new key value Hh Ha) as (S1 & S2 & S3 & S4).
  pose proof (t_insert_inorder t new key value Hb) as Hio.
  destruct (t_insert_triples t new key value Hn) as (l1 & l2 & E1 & E2).
  constructor; try assumption.
  - apply bst_ssorted. rewrite Hio. apply sm_insert_sorted. apply bst_ssorted. exact Hb.
  - rewrite !idxs_triples, E1, E2, !map_app. cbn [map tr_slot fst].
    symmetry. apply Permutation_middle.
  - rewrite !tsize_triples, E1, E2, !app_length. cbn [length]. lia.
  - eauto.
  - rewrite E1, E2. symmetry. apply Permutation_middle.
  - intros s k v. rewrite E1, E2, !in_app_iff. cbn [In]. tauto.
Qed.

(* ------------------------------------------------------------------ *)
(* Removal: t_remove_min *)
Lemma t_remove_min_triples l : forall i k v h r,
  triples (T l i k v h r) =
  fst (t_remove_min l i k v h r) :: triples (snd (t_remove_min l i k v h r)).
Proof.
  induction l as [|ll IHll li lk lv lh lr IHlr]; intros i k v h r; [reflexivity|].
  cbn [t_remove_min]. specialize (IHll li lk lv lh lr).
  destruct (t_remove_min ll li lk lv lh lr) as [m l']. cbn [fst snd] in *.
  rewrite triples_rebal. cbn [triples] in *. rewrite IHll. reflexivity.
Qed.

Lemma t_remove_min_shape l : forall i k v h r,
  hok (T l i k v h r) -> avl (T l i k v h r) ->
  hok (snd (t_remove_min l i k v h r)) /\ avl (snd (t_remove_min l i k v h r)) /\
  levels (snd (t_remove_min l i k v h r)) <= levels (T l i k v h r) /\
  levels (T l i k v h r) <= levels (snd (t_remove_min l i k v h r)) + 1.
Proof.
  induction l as [|ll IHll li lk lv lh lr IHlr]; intros i k v h r Hh Ha.
  - cbn [hok avl] in Hh, Ha. destruct Hh as (_ & _ & Hr). destruct Ha as (_ & _ & _ & Ar).
    cbn [t_remove_min snd levels]. repeat split; try assumption; clear; lia.
  - cbn [hok avl] in Hh, Ha. destruct Hh as (_ & Hl & Hr). destruct Ha as (B1 & B2 & Al & Ar).
    specialize (IHll li lk lv lh lr Hl Al). cbn [t_remove_min].
    destruct (t_remove_min ll li lk lv lh lr) as [m l']. cbn [fst snd] in *.
    destruct IHll as (H1 & H2 & H3 & H4).
    destruct (rebal_shrink_l (T ll li lk lv lh lr) l' i k v h r H1 H2 Hr Ar (conj B1 B2) H3 H4)
      as (R1 & R2 & R3 & R4).
    repeat split; assumption.
Qed.

(* Removal: t_splice *)
Lemma t_splice_triples top l r : triples (t_splice top l r) = triples l ++ triples r.
Proof.
  destruct l as [|ll li lk lv lh lr], r as [|rl ri rk rv rh rr]; cbn [t_splice].
  - reflexivity.
  - destruct top; rewrite ?triples_rebal; reflexivity.
  - destruct top; rewrite ?triples_rebal; cbn [triples]; rewrite app_nil_r; reflexivity.
  - pose proof (t_remove_min_triples rl ri rk rv rh rr) as Hm.
    destruct (t_remove_min rl ri rk rv rh rr) as [[[mi mk_] mv] r']. cbn [fst snd] in Hm.
    rewrite triples_rebal. cbn [triples] in *. rewrite Hm. reflexivity.
Qed.

Lemma t_splice_shape top l r :
  hok l -> avl l -> hok r -> avl r -> bal l r ->
  hok (t_splice top l r) /\ avl (t_splice top l r) /\
  levels (t_splice top l r) <= 1 + N.max (levels l) (levels r) /\
  1 + N.max (levels l) (levels r) <= levels (t_splice top l r) + 1.
Proof.
  intros Hl Al Hr Ar B.
  destruct l as [|ll li lk lv lh lr], r as [|rl ri rk rv rh rr]; cbn [t_splice].
  - cbn [hok avl levels]. repeat split; lia.
  - assert (Hs : (if top then T rl ri rk rv rh rr else rebal (T rl ri rk rv rh rr)) = T rl ri rk rv rh rr)
      by (destruct top; [reflexivity|apply rebal_id; assumption]).
    rewrite Hs. split; [assumption|]. split; [assumption|].
    generalize (levels (T rl ri rk rv rh rr)). cbn [levels]. clear. intros; lia.
  - assert (Hs : (if top then T ll li lk lv lh lr else rebal (T ll li lk lv lh lr)) = T ll li lk lv lh lr)
      by (destruct top; [reflexivity|apply rebal_id; assumption]).
    rewrite Hs. split; [assumption|]. split; [assumption|].
    generalize (levels (T ll li lk lv lh lr)). cbn [levels]. clear. intros; lia.
  - destruct (t_remove_min_shape rl ri rk rv rh rr Hr Ar) as (H1 & H2 & H3 & H4).
    destruct (t_remove_min rl ri rk rv rh rr) as [[[mi mk_] mv] r']. cbn [fst snd] in *.
    destruct (rebal_shrink_r (T ll li lk lv lh lr) (T rl ri rk rv rh rr) r' mi mk_ mv 0
                Hl Al H1 H2 B H3 H4) as (R1 & R2 & R3 & R4).
    repeat split; assumption.
Qed.

(* Removal: t_remove_at *)
Lemma t_remove_at_shape t : forall top key, hok t -> avl t ->
  hok (t_remove_at top t key) /\ avl (t_remove_at top t key) /\
  levels (t_remove_at top t key) <= levels t /\
  levels t <= levels (t_remove_at top t key) + 1.
Proof.
  induction t as [|l IHl i k v h r IHr]; intros top key Hh Ha.
  - cbn [t_remove_at hok avl levels]. repeat split; lia.
  - cbn [hok avl] in Hh, Ha. destruct Hh as (Hh & Hl & Hr). destruct Ha as (B1 & B2 & Al & Ar).
    cbn [t_remove_at]. destruct (Z.ltb_spec key k) as [Hlt|Hge].
    + destruct (IHl false key Hl Al) as (H1 & H2 & H3 & H4).
      destruct (rebal_shrink_l l (t_remove_at false l key) i k v h r H1 H2 Hr Ar (conj B1 B2) H3 H4)
        as (R1 & R2 & R3 & R4).
      cbn [levels]. repeat split; assumption.
    + destruct (Z.ltb_spec k key) as [Hgt|Hle].
      * destruct (IHr false key Hr Ar) as (H1 & H2 & H3 & H4).
        destruct (rebal_shrink_r l r (t_remove_at false r key) i k v h Hl Al H1 H2 (conj B1 B2) H3 H4)
          as (R1 & R2 & R3 & R4).
        cbn [levels]. repeat split; assumption.
      * cbn [levels]. apply t_splice_shape; try assumption. split; assumption.
Qed.

Lemma t_remove_at_triples t : forall top key slot v,
  t_find t key = Some (slot, v) ->
  exists l1 l2, triples t = l1 ++ (slot, key, v) :: l2 /\ triples (t_remove_at top t key) = l1 ++ l2.
Proof.
  induction t as [|l IHl i k v0 h r IHr]; intros top key slot v; cbn [t_find]; [discriminate|].
  cbn [t_remove_at]. destruct (Z.ltb_spec key k) as [H1|H1].
  - intros Hf. destruct (IHl false key slot v Hf) as (l1 & l2 & E1 & E2).
    exists l1, (l2 ++ (i, k, v0) :: triples r). rewrite triples_rebal. cbn [triples].
    rewrite E1, E2, <- !app_assoc. split; reflexivity.
  - destruct (Z.ltb_spec k key) as [H2|H2].
    + intros Hf. destruct (IHr false key slot v Hf) as (l1 & l2 & E1 & E2).
      exists (triples l ++ (i, k, v0) :: l1), l2. rewrite triples_rebal. cbn [triples].
      rewrite E1, E2, <- !app_assoc. split; reflexivity.
    + intros [= <- <-]. assert (key = k) by lia. subst key.
      exists (triples l), (triples r). rewrite t_splice_triples. split; reflexivity.
Qed.

(* removing an absent key changes nothing *)
Lemma t_remove_at_absent t : forall top key,
  hok t -> avl t -> t_find t key = None -> t_remove_at top t key = t.
Proof.
  induction t as [|l IHl i k v h r IHr]; intros top key Hh Ha; [reflexivity|].
  pose proof (rebal_id _ Hh Ha) as Hid.
  cbn [hok avl] in Hh, Ha. destruct Hh as (Hh & Hl & Hr). destruct Ha as (B1 & B2 & Al & Ar).
  cbn [t_find t_remove_at]. destruct (key <? k)%Z.
  - intros Hf. rewrite IHl; assumption.
  - destruct (k <? key)%Z; [|discriminate]. intros Hf. rewrite IHr; assumption.
Qed.

Record remove_post (t : itree) (key : Z) (slot : N) (v : Z) (t' : itree) : Prop := {
  dp_hok : hok t';
  dp_avl : avl t';
  dp_bst : bst t';
  dp_lo : levels t' <= levels t;
  dp_hi : levels t <= levels t' + 1;
  dp_inorder : inorder t' = sm_remove (inorder t) key;
  dp_idxs : Permutation (idxs t) (slot :: idxs t');
  dp_size : tsize t = tsize t' + 1;
  (* the other nodes keep slot, key and value, in the same relative order *)
  dp_triples : exists l1 l2, triples t = l1 ++ (slot, key, v) :: l2 /\ triples t' = l1 ++ l2;
  dp_perm : Permutation (triples t) ((slot, key, v) :: triples t');
  dp_keep : forall s k' v', In (s, k', v') (triples t) -> k' <> key -> In (s, k', v') (triples t');
  dp_gone : ~ In key (keys t')
}.

Lemma t_remove_at_correct top t key slot v :
  hok t -> avl t -> bst t -> t_find t key = Some (slot, v) ->
  remove_post t key slot v (t_remove_at top t key).
Proof.
  intros Hh Ha Hb Hf.
  destruct (t_remove_at_shape t top key Hh Ha) as (S1 & S2 & S3 & S4).
  destruct (t_remove_at_triples t top key slot v Hf) as (l1 & l2 & E1 & E2).
  assert (Hs : zsorted (map tr_key l1 ++ key :: map tr_key l2)).
  { apply bst_sorted in Hb. rewrite keys_triples, E1, map_app in Hb. exact Hb. }
  assert (Hk' : keys (t_remove_at top t key) = map tr_key l1 ++ map tr_key l2)
    by (rewrite keys_triples, E2, map_app; reflexivity).
  constructor; try assumption.
  - apply bst_sorted. rewrite Hk'. eapply zsorted_app_drop. exact Hs.
  - rewrite !inorder_triples, E1, E2, !map_app. cbn [map]. unfold tr_kv at 2. cbn [fst snd].
    symmetry. apply sm_remove_mid. unfold skeys. rewrite map_map.
    apply (zsorted_notin_left _ _ _ Hs).
  - rewrite !idxs_triples, E1, E2, !map_app. cbn [map tr_slot fst].
    symmetry. apply Permutation_middle.
  - rewrite !tsize_triples, E1, E2, !app_length. cbn [length]. lia.
  - eauto.
  - rewrite E1, E2. symmetry. apply Permutation_middle.
  - intros s k' v'. rewrite E1, E2, !in_app_iff. cbn [In]. intros [H|[H|H]] Hne; auto.
    injection H as <- <- <-. congruence.
  - rewrite Hk', in_app_iff. intros [H|H].
    + exact (zsorted_notin_left _ _ _ Hs H).
    + exact (zsorted_notin_right _ _ _ Hs H).
Qed.

Theorem t_remove_correct t key slot v :
  hok t -> avl t -> bst t -> t_find t key = Some (slot, v) ->
  remove_post t key slot v (t_remove t key).
Proof. apply t_remove_at_correct. Qed.

Theorem t_remove_absent t key : hok t -> avl t -> t_find t key = None -> t_remove t key = t.
Proof. apply t_remove_at_absent. Qed.

(* t_remove_min returns the minimum; the rest keeps the invariants *)
Record remove_min_post (t : itree) (m : N * Z * Z) (t' : itree) : Prop := {
  mp_hok : hok t';
  mp_avl : avl t';
  mp_bst : bst t';
  mp_lo : levels t' <= levels t;
  mp_hi : levels t <= levels t' + 1;
  mp_triples : triples t = m :: triples t';
  mp_inorder : inorder t = tr_kv m :: inorder t';
  mp_min : all_keys (fun x => (tr_key m < x)%Z) t'
}.
Theorem t_remove_min_correct l i k v h r :
  hok (T l i k v h r) -> avl (T l i k v h r) -> bst (T l i k v h r) ->
  remove_min_post (T l i k v h r) (fst (t_remove_min l i k v h r)) (snd (t_remove_min l i k v h r)).
Proof.
  intros Hh Ha Hb.
  destruct (t_remove_min_shape l i k v h r Hh Ha) as (S1 & S2 & S3 & S4).
  pose proof (t_remove_min_triples l i k v h r) as Ht.
  assert (Hs : zsorted (tr_key (fst (t_remove_min l i k v h r)) ::
                        keys (snd (t_remove_min l i k v h r)))).
  { apply bst_sorted in Hb. rewrite keys_triples, Ht in Hb. cbn [map] in Hb.
    rewrite <- keys_triples in Hb. exact Hb. }
  constructor; try assumption.
  - apply bst_sorted. inversion Hs; assumption.
  - rewrite !inorder_triples, Ht. reflexivity.
  - apply all_keys_Forall. inversion Hs; assumption.
Qed.

(* t_splice, for both values of [top] *)
Record splice_post (l r t' : itree) : Prop := {
  sp_hok : hok t';
  sp_avl : avl t';
  sp_bst : bst t';
  sp_lo : levels t' <= 1 + N.max (levels l) (levels r);
  sp_hi : 1 + N.max (levels l) (levels r) <= levels t' + 1;
  sp_triples : triples t' = triples l ++ triples r;
  sp_inorder : inorder t' = inorder l ++ inorder r
}.
Theorem t_splice_correct top l i k v h r :
  hok (T l i k v h r) -> avl (T l i k v h r) -> bst (T l i k v h r) ->
  splice_post l r (t_splice top l r).
Proof.
  intros Hh Ha Hb. cbn [hok avl] in Hh, Ha.
  destruct Hh as (_ & Hl & Hr). destruct Ha as (B1 & B2 & Al & Ar).
  destruct (t_splice_shape top l r Hl Al Hr Ar (conj B1 B2)) as (S1 & S2 & S3 & S4).
  pose proof (t_splice_triples top l r) as Ht.
  constructor; try assumption.
  - apply bst_sorted in Hb. apply bst_sorted. cbn [keys] in Hb.
    rewrite keys_triples, Ht, map_app, <- !keys_triples. eapply zsorted_app_drop. exact Hb.
  - rewrite !inorder_triples, Ht, map_app. reflexivity.
Qed.
