(* Layer T: algebraic trees whose nodes carry their slot index and their
   STORED height, and the tree-level macro-steps that mirror what the code
   does between consistent states.  Definitions only. *)
From Coq Require Import List NArith ZArith Bool.
Import ListNotations.
Open Scope N_scope.

Inductive itree := E | T (l : itree) (i : N) (k v : Z) (h : N) (r : itree).

Definition idx t := match t with E => 0 | T _ i _ _ _ _ => i end.
Fixpoint idxs t : list N := match t with E => [] | T l i _ _ _ r => idxs l ++ i :: idxs r end.
Fixpoint inorder t : list (Z * Z) := match t with E => [] | T l _ k v _ r => inorder l ++ (k, v) :: inorder r end.
Fixpoint keys t : list Z := match t with E => [] | T l _ k _ _ r => keys l ++ k :: keys r end.
Fixpoint tsize t : N := match t with E => 0 | T l _ _ _ _ r => 1 + tsize l + tsize r end.
Fixpoint levels t : N := match t with E => 0 | T l _ _ _ _ r => 1 + N.max (levels l) (levels r) end.

(* stored height register of the root (0 for the empty tree) *)
Definition sth t := match t with E => 0 | T _ _ _ _ h _ => h end.
(* the code's update_height, from the children's STORED heights *)
Definition newh (l r : itree) : N :=
  match l, r with E, E => 0 | _, _ => N.max (sth l) (sth r) + 1 end.
Definition mk l i k v r := T l i k v (newh l r) r.

(* the code's balance_factor, from STORED heights: (height + 1) or 0 *)
Definition hp t : Z := match t with E => 0%Z | T _ _ _ _ h _ => (Z.of_N h + 1)%Z end.
Definition bfac (l r : itree) : Z := (hp l - hp r)%Z.

Definition rotr t := match t with
  | T (T a j kj vj _ b) i ki vi _ r => mk a j kj vj (mk b i ki vi r)
  | _ => t end.
Definition rotl t := match t with
  | T l i ki vi _ (T b j kj vj _ c) => mk (mk l i ki vi b) j kj vj c
  | _ => t end.

(* one iteration of the loop of [rebalance] at a node whose subtrees are
   already in their final state *)
Definition rebal t := match t with
  | E => E
  | T l i k v h r =>
     let bf := bfac l r in
     if (1 <? bf)%Z then
       match l with
       | T ll _ _ _ _ lr =>
         let l' := if (bfac ll lr <? 0)%Z then rotl l else l in
         rotr (T l' i k v h r)
       | E => t end
     else if (bf <? -1)%Z then
       match r with
       | T rl _ _ _ _ rr =>
         let r' := if (0 <? bfac rl rr)%Z then rotr r else r in
         rotl (T l i k v h r')
       | E => t end
     else mk l i k v r
  end.

(* ---- invariants ---- *)
Fixpoint hok t : Prop :=
  match t with E => True | T l _ _ _ h r => h + 1 = levels t /\ hok l /\ hok r end.
Fixpoint avl t : Prop :=
  match t with
  | E => True
  | T l _ _ _ _ r => levels l <= levels r + 1 /\ levels r <= levels l + 1 /\ avl l /\ avl r
  end.
Fixpoint all_keys (P : Z -> Prop) t : Prop :=
  match t with E => True | T l _ k _ _ r => P k /\ all_keys P l /\ all_keys P r end.
Fixpoint bst t : Prop :=
  match t with
  | E => True
  | T l _ k _ _ r => all_keys (fun x => (x < k)%Z) l /\ all_keys (fun x => (k < x)%Z) r /\ bst l /\ bst r
  end.

(* ---- lookups ---- *)
Fixpoint t_find (t : itree) (key : Z) : option (N * Z) :=
  match t with
  | E => None
  | T l i k v _ r =>
    if (key <? k)%Z then t_find l key else if (k <? key)%Z then t_find r key else Some (i, v)
  end.

(* the keys a descent compares the sought key with: one comparison when it
   goes left, two otherwise *)
Fixpoint t_log (t : itree) (key : Z) : list Z :=
  match t with
  | E => []
  | T l _ k _ _ r =>
    if (key <? k)%Z then k :: t_log l key
    else if (k <? key)%Z then k :: k :: t_log r key else [k; k]
  end.

Fixpoint t_lowest (t : itree) : option Z :=
  match t with
  | E => None
  | T l _ k _ _ _ => match l with E => Some k | _ => t_lowest l end
  end.

Fixpoint t_update (t : itree) (key : Z) (v' : Z) : itree :=
  match t with
  | E => E
  | T l i k v h r =>
    if (key <? k)%Z then T (t_update l key v') i k v h r
    else if (k <? key)%Z then T l i k v h (t_update r key v')
    else T l i k v' h r
  end.

(* ---- insertion of an absent key into slot [new] ---- *)
Fixpoint t_insert (t : itree) (new : N) (key value : Z) : itree :=
  match t with
  | E => T E new key value 0 E
  | T l i k v h r =>
    if (key <? k)%Z then rebal (T (t_insert l new key value) i k v h r)
    else if (k <? key)%Z then rebal (T l i k v h (t_insert r new key value))
    else t
  end.

(* ---- removal ---- *)
(* detach the leftmost node of a non-empty tree, rebalancing on the way up *)
Fixpoint t_remove_min (l : itree) (i : N) (k v : Z) (h : N) (r : itree) : (N * Z * Z) * itree :=
  match l with
  | E => ((i, k, v), r)
  | T ll li lk lv lh lr =>
    let '(m, l') := t_remove_min ll li lk lv lh lr in
    (m, rebal (T l' i k v h r))
  end.

(* what replaces a removed node with subtrees l and r; [top] says that the
   removed node was the root of the whole tree (then a single child is
   promoted without the code's redundant re-balancing step) *)
Definition t_splice (top : bool) (l r : itree) : itree :=
  match l, r with
  | E, E => E
  | T _ _ _ _ _ _, E => if top then l else rebal l
  | E, T _ _ _ _ _ _ => if top then r else rebal r
  | T _ _ _ _ _ _, T rl ri rk rv rh rr =>
    let '((mi, mk_, mv), r') := t_remove_min rl ri rk rv rh rr in
    rebal (T l mi mk_ mv 0 r')
  end.

Fixpoint t_remove_at (top : bool) (t : itree) (key : Z) : itree :=
  match t with
  | E => E
  | T l i k v h r =>
    if (key <? k)%Z then rebal (T (t_remove_at false l key) i k v h r)
    else if (k <? key)%Z then rebal (T l i k v h (t_remove_at false r key))
    else t_splice top l r
  end.
Definition t_remove (t : itree) (key : Z) : itree := t_remove_at true t key.
